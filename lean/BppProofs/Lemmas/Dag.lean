import BppModel.Dag
import BppModel.TreeRef
import BppProofs.Lemmas.GraphRefine
import BppProofs.Lemmas.GraphOrient
import BppProofs.Lemmas.TreeSwitch
/-! Helper lemmas for C15 (DAG container, `BppModel/Dag.lean`): the notification queue is not read by
`isDA` / `nbFatherless`; the loop of `isDA` terminates within its fuel on a consistent graph; it
decides acyclicity; the invariant of all histories (`Inv`), re-rooting included (`propagate_ind`,
`rootAt_ind`: whatever a `switchNodes` call keeps is kept by `propagateDirection_` / `orientate` / `rootAt`,
succeeding or raising half way); `rootAt` keeps the nodes and the undirected edges (`rootAt_shape`); nothing
is ever left pending (`pending_run`).  Core Lean only (the transitive closure `TG` is defined here). -/
set_option linter.unusedSimpArgs false
set_option linter.unusedVariables false
set_option linter.unusedSectionVars false
namespace Bpp
namespace Graph
open AL

/-! ## equal up to the notification queue -/

/-- the two graphs differ at most in `pending` -/
def EqP (g1 g2 : G) : Prop := ∃ p, g2 = { g1 with pending := p }

theorem EqP.refl (g : G) : EqP g g := ⟨g.pending, rfl⟩
theorem EqP.setPending (g : G) (p : List Event) : EqP g { g with pending := p } := ⟨p, rfl⟩
theorem EqP.symm {g1 g2 : G} (h : EqP g1 g2) : EqP g2 g1 := by
  obtain ⟨p, rfl⟩ := h; exact ⟨g1.pending, rfl⟩
theorem EqP.trans {g1 g2 g3 : G} (h : EqP g1 g2) (h' : EqP g2 g3) : EqP g1 g3 := by
  obtain ⟨p, rfl⟩ := h; obtain ⟨q, rfl⟩ := h'; exact ⟨q, rfl⟩
theorem EqP.nodes {g1 g2 : G} (h : EqP g1 g2) : g2.nodes = g1.nodes := by obtain ⟨p, rfl⟩ := h; rfl
theorem EqP.directed {g1 g2 : G} (h : EqP g1 g2) : g2.directed = g1.directed := by obtain ⟨p, rfl⟩ := h; rfl
theorem EqP.hasNode {g1 g2 : G} (h : EqP g1 g2) (n : Nat) : g2.hasNode n = g1.hasNode n := by
  obtain ⟨p, rfl⟩ := h; rfl
theorem EqP.withNodes {g1 g2 : G} (h : EqP g1 g2) (ns : List (Nat × Row)) (p q : List Event) :
    EqP { g1 with nodes := ns, pending := p } { g2 with nodes := ns, pending := q } := by
  obtain ⟨p', rfl⟩ := h; exact ⟨q, rfl⟩
theorem EqP.withEdges {g1 g2 : G} (h : EqP g1 g2) (es : List (Nat × (Nat × Nat))) (p q : List Event) :
    EqP { g1 with edges := es, pending := p } { g2 with edges := es, pending := q } := by
  obtain ⟨p', rfl⟩ := h; exact ⟨q, rfl⟩

/-- same outcome, same value, states equal up to `pending` -/
def GOut.RelP {α : Type} : GOut α → GOut α → Prop
  | .ok a g, .ok a' g' => a = a' ∧ EqP g g'
  | .exc g, .exc g' => EqP g g'
  | _, _ => False

namespace G

theorem unlinkInNode_eqP {g1 g2 : G} (h : EqP g1 g2) (a b : Nat) :
    GOut.RelP (unlinkInNode a b g1) (unlinkInNode a b g2) := by
  obtain ⟨p, rfl⟩ := h
  unfold unlinkInNode
  dsimp only
  rcases find_cases a g1.nodes with h1 | ⟨ra, h1⟩
  · simp only [h1]; exact ⟨p, rfl⟩
  · simp only [h1]
    rcases find_cases b ra.out with h2 | ⟨e, h2⟩
    · simp only [h2]; exact ⟨p, rfl⟩
    · simp only [h2]
      rcases find_cases b g1.nodes with h3 | ⟨rb, h3⟩
      · simp only [h3]; exact ⟨p, rfl⟩
      · simp only [h3]
        rcases find_cases a rb.inn with h4 | ⟨e', h4⟩
        · simp only [h4]; exact ⟨p, rfl⟩
        · simp only [h4]; exact ⟨rfl, p, rfl⟩

theorem unlinkInEdge_eqP {g1 g2 : G} (h : EqP g1 g2) (e : Nat) :
    GOut.RelP (unlinkInEdge e g1) (unlinkInEdge e g2) := by
  obtain ⟨p, rfl⟩ := h
  unfold unlinkInEdge
  by_cases he : g1.hasEdge e = true
  · have : ({ g1 with pending := p } : G).hasEdge e = true := he
    simp only [he, this, if_true]; exact ⟨rfl, p, rfl⟩
  · have : ¬ ({ g1 with pending := p } : G).hasEdge e = true := he
    simp only [he, this, if_false]; exact ⟨p, rfl⟩

theorem unlink_eqP {g1 g2 : G} (h : EqP g1 g2) (a b : Nat) :
    GOut.RelP (unlink a b g1) (unlink a b g2) := by
  unfold unlink
  have h1 := unlinkInNode_eqP h a b
  rcases r1 : unlinkInNode a b g1 with ⟨e, g1'⟩ | g1' <;> rcases r2 : unlinkInNode a b g2 with ⟨e2, g2'⟩ | g2' <;>
    rw [r1, r2] at h1 <;> simp only [GOut.RelP] at h1
  · obtain ⟨rfl, h1⟩ := h1
    simp only [h.directed]
    by_cases hc : (!g1.directed && decide (a ≠ b)) = true
    · simp only [hc, if_true]
      have h2 := unlinkInNode_eqP h1 b a
      rcases s1 : unlinkInNode b a g1' with ⟨f, g1''⟩ | g1'' <;> rcases s2 : unlinkInNode b a g2' with ⟨f2, g2''⟩ | g2'' <;>
        rw [s1, s2] at h2 <;> simp only [GOut.RelP] at h2
      · obtain ⟨rfl, h2⟩ := h2
        dsimp only
        have h3 := unlinkInEdge_eqP h2 e
        rcases t1 : unlinkInEdge e g1'' with ⟨u, k1⟩ | k1 <;> rcases t2 : unlinkInEdge e g2'' with ⟨u2, k2⟩ | k2 <;>
          rw [t1, t2] at h3 <;> simp only [GOut.RelP] at h3
        · obtain ⟨_, ⟨q, rfl⟩⟩ := h3
          exact ⟨rfl, _, rfl⟩
        · exact h3
      · exact h2
    · simp only [hc, Bool.false_eq_true, if_false]
      have h3 := unlinkInEdge_eqP h1 e
      rcases t1 : unlinkInEdge e g1' with ⟨u, k1⟩ | k1 <;> rcases t2 : unlinkInEdge e g2' with ⟨u2, k2⟩ | k2 <;>
        rw [t1, t2] at h3 <;> simp only [GOut.RelP] at h3
      · obtain ⟨_, ⟨q, rfl⟩⟩ := h3
        exact ⟨rfl, _, rfl⟩
      · exact h3
  · exact h1

theorem isolateOut_eqP (n : Nat) (l : List Nat) : ∀ {g1 g2 : G}, EqP g1 g2 →
    GOut.RelP (isolateOut n l g1) (isolateOut n l g2) := by
  induction l with
  | nil => intro g1 g2 h; exact ⟨rfl, h⟩
  | cons y r ih =>
    intro g1 g2 h
    simp only [isolateOut]
    have h1 := unlink_eqP h n y
    rcases r1 : unlink n y g1 with ⟨e, g1'⟩ | g1' <;> rcases r2 : unlink n y g2 with ⟨e2, g2'⟩ | g2' <;>
      rw [r1, r2] at h1 <;> simp only [GOut.RelP] at h1
    · exact ih h1.2
    · exact h1

theorem isolateIn_eqP (n : Nat) (l : List Nat) : ∀ {g1 g2 : G}, EqP g1 g2 →
    GOut.RelP (isolateIn n l g1) (isolateIn n l g2) := by
  induction l with
  | nil => intro g1 g2 h; exact ⟨rfl, h⟩
  | cons y r ih =>
    intro g1 g2 h
    simp only [isolateIn]
    have h1 := unlink_eqP h y n
    rcases r1 : unlink y n g1 with ⟨e, g1'⟩ | g1' <;> rcases r2 : unlink y n g2 with ⟨e2, g2'⟩ | g2' <;>
      rw [r1, r2] at h1 <;> simp only [GOut.RelP] at h1
    · exact ih h1.2
    · exact h1

theorem outKeys_eqP {g1 g2 : G} (h : EqP g1 g2) (n : Nat) : g2.outKeys n = g1.outKeys n := by
  unfold outKeys; rw [h.nodes]
theorem inKeys_eqP {g1 g2 : G} (h : EqP g1 g2) (n : Nat) : g2.inKeys n = g1.inKeys n := by
  unfold inKeys; rw [h.nodes]

/-- `deleteNode` does not read the notification queue -/
theorem deleteNode_eqP {g1 g2 : G} (h : EqP g1 g2) (n : Nat) :
    GOut.RelP (deleteNode n g1) (deleteNode n g2) := by
  unfold deleteNode
  rw [h.hasNode, outKeys_eqP h]
  by_cases hn : (!g1.hasNode n) = true
  · simp only [hn, if_true]; exact h
  · simp only [hn, if_false]
    have h1 := isolateOut_eqP n (g1.outKeys n) h
    rcases r1 : isolateOut n (g1.outKeys n) g1 with ⟨u, k1⟩ | k1 <;>
      rcases r2 : isolateOut n (g1.outKeys n) g2 with ⟨u2, k2⟩ | k2 <;>
      rw [r1, r2] at h1 <;> simp only [GOut.RelP] at h1
    · have hk := h1.2
      simp only
      rw [hk.hasNode, inKeys_eqP hk]
      by_cases hn1 : (!k1.hasNode n) = true
      · simp only [hn1, if_true]; exact hk
      · simp only [hn1, if_false]
        have h2 := isolateIn_eqP n (k1.inKeys n) hk
        rcases s1 : isolateIn n (k1.inKeys n) k1 with ⟨v, m1⟩ | m1 <;>
          rcases s2 : isolateIn n (k1.inKeys n) k2 with ⟨v2, m2⟩ | m2 <;>
          rw [s1, s2] at h2 <;> simp only [GOut.RelP] at h2
        · have hm := h2.2
          simp only
          rw [hm.hasNode]
          by_cases hn2 : (!m1.hasNode n) = true
          · simp only [hn2, if_true]; exact hm
          · simp only [hn2, if_false]
            refine ⟨rfl, ?_⟩
            rw [hm.nodes]
            exact hm.withNodes _ _ _
        · exact h2
    · exact h1

end G

namespace D

theorem sinks_eqP {g1 g2 : G} (h : EqP g1 g2) : sinks g2 = sinks g1 := by unfold sinks; rw [h.nodes]

theorem nbFatherless_eqP {g1 g2 : G} (h : EqP g1 g2) : nbFatherless g2 = nbFatherless g1 := by
  unfold nbFatherless; rw [h.nodes]

/-- both raise, or both succeed with graphs equal up to `pending` -/
def OptRelP : Option G → Option G → Prop
  | some g, some g' => EqP g g'
  | none, none => True
  | _, _ => False

theorem deleteAll_eqP (vL : List Nat) : ∀ {g1 g2 : G}, EqP g1 g2 → OptRelP (deleteAll vL g1) (deleteAll vL g2) := by
  induction vL with
  | nil => intro g1 g2 h; exact h
  | cons n r ih =>
    intro g1 g2 h
    simp only [deleteAll]
    have h1 := G.deleteNode_eqP h n
    rcases r1 : G.deleteNode n g1 with ⟨u, k1⟩ | k1 <;> rcases r2 : G.deleteNode n g2 with ⟨u2, k2⟩ | k2 <;>
      rw [r1, r2] at h1 <;> simp only [GOut.RelP] at h1
    · exact ih h1.2
    · trivial

theorem isDALoop_eqP (fuel : Nat) : ∀ {g1 g2 : G}, EqP g1 g2 → ∀ vL, isDALoop fuel g2 vL = isDALoop fuel g1 vL := by
  induction fuel with
  | zero => intro g1 g2 h vL; rfl
  | succ k ih =>
    intro g1 g2 h vL
    simp only [isDALoop]
    split
    · rfl
    · have h1 := deleteAll_eqP vL h
      rcases r1 : deleteAll vL g1 with _ | k1 <;> rcases r2 : deleteAll vL g2 with _ | k2 <;>
        rw [r1, r2] at h1 <;> simp only [OptRelP] at h1
      · simp only
        rw [h1.nodes, sinks_eqP h1, ih h1]

/-- `isDA` does not read the notification queue -/
theorem isDA_eqP {g1 g2 : G} (h : EqP g1 g2) : isDA g2 = isDA g1 := by
  unfold isDA; rw [h.nodes, sinks_eqP h, isDALoop_eqP _ h]

end D

/-! ## the rounds of `isDA` on a consistent graph -/

/-! (generic definitions and lemmas live in `namespace Dag`: `Lemmas/TreeBasic.lean` has its own `Arc`) -/
namespace Dag

/-- there is an outgoing entry `a -> b` in the node table -/
def Arc (g : G) (a b : Nat) : Prop := (g.outE a b).isSome = true

/-- transitive closure (one or more steps), as `Relation.TransGen` of Mathlib -/
inductive TG (R : Nat → Nat → Prop) : Nat → Nat → Prop
  | single {a b : Nat} : R a b → TG R a b
  | tail {a b c : Nat} : TG R a b → R b c → TG R a c

/-- no node reaches itself through one or more arcs -/
def Acyclic (g : G) : Prop := ¬ ∃ n, TG (Arc g) n n

theorem TG.mono {R S : Nat → Nat → Prop} (h : ∀ a b, R a b → S a b) {a b : Nat} (t : TG R a b) : TG S a b := by
  induction t with
  | single r => exact .single (h _ _ r)
  | tail _ r ih => exact .tail ih (h _ _ r)

theorem TG.trans {R : Nat → Nat → Prop} {a b c : Nat} (t1 : TG R a b) (t2 : TG R b c) : TG R a c := by
  induction t2 with
  | single r => exact .tail t1 r
  | tail _ r ih => exact .tail ih r

theorem TG.head {R : Nat → Nat → Prop} {a b c : Nat} (r : R a b) (t : TG R b c) : TG R a c := (TG.single r).trans t

theorem TG.first {R : Nat → Nat → Prop} {a b : Nat} (t : TG R a b) : ∃ c, R a c := by
  induction t with
  | single r => exact ⟨_, r⟩
  | tail _ _ ih => exact ih

/-- a duplicate-free list whose elements all lie in `l2` is not longer than `l2` (pigeonhole) -/
theorem nodup_length_le : ∀ {l1 l2 : List Nat}, l1.Nodup → (∀ x ∈ l1, x ∈ l2) → l1.length ≤ l2.length := by
  intro l1
  induction l1 with
  | nil => intro l2 _ _; simp
  | cons a t ih =>
    intro l2 hnd hsub
    obtain ⟨hat, hndt⟩ := List.nodup_cons.mp hnd
    have ha : a ∈ l2 := hsub a (List.mem_cons_self ..)
    have hsub' : ∀ x ∈ t, x ∈ l2.erase a := by
      intro x hx
      have hxa : x ≠ a := fun h => hat (h ▸ hx)
      exact (List.mem_erase_of_ne hxa).mpr (hsub x (List.mem_cons_of_mem _ hx))
    have h1 := ih hndt hsub'
    have h2 := List.length_erase_of_mem ha
    have h3 := List.length_pos_of_mem ha
    simp only [List.length_cons]
    omega

/-- in a finite non-empty set where every element has a successor, following successors closes a cycle -/
theorem exists_cycle_of_succ (R : Nat → Nat → Prop) (L : List Nat) (hne : L ≠ [])
    (hsucc : ∀ a ∈ L, ∃ b ∈ L, R a b) : ∃ n, TG R n n := by
  obtain ⟨a0, ha0⟩ := List.exists_mem_of_ne_nil L hne
  have key : ∀ k : Nat, (∃ n, TG R n n) ∨
      ∃ h t, t.length = k ∧ (h :: t).Nodup ∧ (∀ x ∈ h :: t, x ∈ L) ∧ ∀ x ∈ t, TG R x h := by
    intro k
    induction k with
    | zero => exact Or.inr ⟨a0, [], rfl, by simp, by simpa using ha0, by simp⟩
    | succ k ih =>
      rcases ih with hc | ⟨h, t, hl, hnd, hL, hT⟩
      · exact Or.inl hc
      · obtain ⟨b, hb, hR⟩ := hsucc h (hL h (List.mem_cons_self ..))
        by_cases hbh : b = h
        · subst hbh; exact Or.inl ⟨b, .single hR⟩
        · by_cases hbt : b ∈ t
          · exact Or.inl ⟨b, .tail (hT b hbt) hR⟩
          · refine Or.inr ⟨b, h :: t, by simp [hl], ?_, ?_, ?_⟩
            · rw [List.nodup_cons]; exact ⟨by simp [hbh, hbt], hnd⟩
            · intro x hx
              rcases List.mem_cons.mp hx with rfl | hx
              · exact hb
              · exact hL x hx
            · intro x hx
              rcases List.mem_cons.mp hx with rfl | hx
              · exact .single hR
              · exact .tail (hT x hx) hR
  rcases key L.length with hc | ⟨h, t, hl, hnd, hL, _⟩
  · exact hc
  · have := nodup_length_le hnd hL
    simp only [List.length_cons, hl] at this
    omega

theorem arc_nodes {g : G} (hc : Consistent g) {a b : Nat} (h : Arc g a b) : g.hasNode a = true ∧ g.hasNode b = true := by
  unfold Arc at h
  rcases ho : g.outE a b with _ | e
  · simp [ho] at h
  · exact ⟨G.outE_some_hasNode ho, G.inE_some_hasNode (G.cons_out_some hc ho).1⟩

theorem acyclic_of_no_node {g : G} (h : g.nodes = []) : Acyclic g := by
  rintro ⟨n, t⟩
  obtain ⟨c, hc⟩ := t.first
  simp [Arc, G.outE, h, AL.find] at hc

end Dag

namespace D
open Dag

theorem mem_sinks {g : G} {n : Nat} : n ∈ sinks g ↔ ∃ r, (n, r) ∈ g.nodes ∧ r.out = [] := by
  unfold sinks
  simp only [List.mem_map, List.mem_filter]
  constructor
  · rintro ⟨⟨m, r⟩, ⟨hm, hl⟩, rfl⟩
    exact ⟨r, hm, by simpa using hl⟩
  · rintro ⟨r, hm, hr⟩
    exact ⟨(n, r), ⟨hm, by simp [hr]⟩, rfl⟩

/-- every collected node is a node -/
theorem sinks_hasNode {g : G} {n : Nat} (h : n ∈ sinks g) : g.hasNode n = true := by
  obtain ⟨r, hm, _⟩ := mem_sinks.mp h
  have : n ∈ AL.keys g.nodes := List.mem_map.mpr ⟨(n, r), hm, rfl⟩
  exact (mem_keys_iff n g.nodes).mp this

/-- a collected node has no outgoing entry -/
theorem sinks_no_out {g : G} (hs : Sorted g) {n : Nat} (h : n ∈ sinks g) (y : Nat) : g.outE n y = none := by
  obtain ⟨r, hm, hr⟩ := mem_sinks.mp h
  have hf := (mem_iff_find hs.nodes n r).mp hm
  simp [G.outE, hf, hr, AL.find]

/-- a node that was not collected has an outgoing entry -/
theorem out_of_not_sink {g : G} {n : Nat} (hn : g.hasNode n = true) (h : n ∉ sinks g) : ∃ y, Arc g n y := by
  obtain ⟨r, hf⟩ := (G.hasNode_iff g n).mp hn
  have hm := find_some_mem hf
  rcases hr : r.out with _ | ⟨⟨y, e⟩, t⟩
  · exact absurd (mem_sinks.mpr ⟨r, hm, hr⟩) h
  · exact ⟨y, by simp [Arc, G.outE, hf, hr, AL.find]⟩

theorem sinks_nodup {g : G} (hs : Sorted g) : (sinks g).Nodup := by
  have hsub : List.Sublist (sinks g) (AL.keys g.nodes) := (List.filter_sublist).map _
  have : List.Pairwise (· < ·) (sinks g) := List.Pairwise.sublist hsub hs.nodes
  exact this.imp (fun h => Nat.ne_of_lt h)

/-- what deleting the nodes `vL` one after the other did -/
structure DeletedAll (vL : List Nat) (g g' : G) : Prop where
  hasNode : ∀ x, g'.hasNode x = true ↔ (x ∉ vL ∧ g.hasNode x = true)
  outE : ∀ x y, g'.outE x y = if x ∈ vL ∨ y ∈ vL then none else g.outE x y
  len_le : g'.nodes.length ≤ g.nodes.length
  len_lt : vL ≠ [] → g'.nodes.length < g.nodes.length

theorem deleted_length {g g' : G} {n : Nat} (hn : g.hasNode n = true) (d : G.Deleted n g g') :
    g'.nodes.length < g.nodes.length := by
  have h1 : g'.nodes.length = (AL.keys g'.nodes).length := by simp [AL.keys]
  have h2 : g.nodes.length = (AL.keys g.nodes).length := by simp [AL.keys]
  rw [h1, h2, d.keys]
  have hle := List.length_filter_le (fun x => decide (x ≠ n)) (AL.keys g.nodes)
  have hmem : n ∈ AL.keys g.nodes := (mem_keys_iff n g.nodes).mpr hn
  rcases Nat.lt_or_ge ((List.filter (fun x => decide (x ≠ n)) (AL.keys g.nodes)).length) (AL.keys g.nodes).length with h | h
  · exact h
  · have heq := Nat.le_antisymm hle h
    have := List.length_filter_eq_length_iff.mp heq n hmem
    simp at this

/-- deleting distinct present nodes of a consistent graph never raises -/
theorem deleteAll_spec (vL : List Nat) : ∀ {g : G}, Consistent g → (∀ n ∈ vL, g.hasNode n = true) → vL.Nodup →
    ∃ g', deleteAll vL g = some g' ∧ Consistent g' ∧ DeletedAll vL g g' := by
  induction vL with
  | nil => intro g hc _ _; exact ⟨g, rfl, hc, ⟨by simp, by simp, Nat.le_refl _, by simp⟩⟩
  | cons n r ih =>
    intro g hc hn hd
    have hnn := hn n (List.mem_cons_self ..)
    obtain ⟨g1, h1, hc1, d1⟩ := G.deleteNode_spec hc hnn
    have hd' := List.nodup_cons.mp hd
    have hn1 : ∀ m ∈ r, g1.hasNode m = true := by
      intro m hm
      rw [d1.hasNode]
      have : m ≠ n := fun h => hd'.1 (h ▸ hm)
      simp [this, hn m (List.mem_cons_of_mem _ hm)]
    obtain ⟨g', h2, hc2, d2⟩ := ih hc1 hn1 hd'.2
    have hlen := deleted_length hnn d1
    have hle := d2.len_le
    refine ⟨g', by simp only [deleteAll, h1]; exact h2, hc2, ⟨?_, ?_, by omega, fun _ => by omega⟩⟩
    · intro x
      rw [d2.hasNode, d1.hasNode]
      by_cases hx : x = n <;> simp [hx, List.mem_cons]
    · intro x y
      rw [d2.outE, d1.outE]
      simp only [List.mem_cons]
      by_cases hx : x = n <;> by_cases hy : y = n <;> by_cases hxr : x ∈ r <;> by_cases hyr : y ∈ r <;> simp [hx, hy, hxr, hyr]

/-- one round of the loop on a consistent graph -/
theorem round_spec {g : G} (hc : Consistent g) :
    ∃ g', deleteAll (sinks g) g = some g' ∧ Consistent g' ∧ DeletedAll (sinks g) g g' :=
  deleteAll_spec (sinks g) hc (fun _ h => sinks_hasNode h) (sinks_nodup hc.sorted)

theorem isEmpty_false {α : Type} {l : List α} (h : ¬ l.isEmpty = true) : l ≠ [] := by
  intro h'; subst h'; simp at h

/-- with more fuel than nodes the loop answers, and never raises -/
theorem isDALoop_total : ∀ (f : Nat) {g : G}, Consistent g → g.nodes.length < f →
    ∃ b, isDALoop f g (sinks g) = .ok b := by
  intro f
  induction f with
  | zero => intro g _ h; omega
  | succ k ih =>
    intro g hc hlt
    simp only [isDALoop]
    split
    · exact ⟨false, rfl⟩
    · rename_i hne
      obtain ⟨g', h1, hc', d⟩ := round_spec hc
      have := d.len_lt (isEmpty_false hne)
      simp only [h1]
      split
      · exact ⟨true, rfl⟩
      · exact ih hc' (by omega)

/-- the answer does not depend on the fuel, as soon as it exceeds the number of nodes -/
theorem isDALoop_fuel : ∀ (f1 f2 : Nat) {g : G}, Consistent g → g.nodes.length < f1 → g.nodes.length < f2 →
    isDALoop f1 g (sinks g) = isDALoop f2 g (sinks g) := by
  intro f1
  induction f1 with
  | zero => intro f2 g _ h; omega
  | succ k ih =>
    intro f2 g hc hlt1 hlt2
    cases f2 with
    | zero => omega
    | succ k2 =>
      simp only [isDALoop]
      split
      · rfl
      · rename_i hne
        obtain ⟨g', h1, hc', d⟩ := round_spec hc
        have := d.len_lt (isEmpty_false hne)
        simp only [h1]
        split
        · rfl
        · exact ih k2 hc' (by omega) (by omega)

/-! ## `isDA` decides acyclicity -/

/-- removing the son-less nodes neither creates nor destroys a cycle -/
theorem acyclic_round {g g' : G} (hc : Consistent g) (d : DeletedAll (sinks g) g g') : Acyclic g ↔ Acyclic g' := by
  have hsub : ∀ a b, Arc g' a b → Arc g a b := by
    intro a b h
    unfold Arc at h ⊢
    rw [d.outE] at h
    split at h
    · simp at h
    · exact h
  have hnot : ∀ a b, Arc g a b → a ∉ sinks g := by
    intro a b h hs
    unfold Arc at h
    rw [sinks_no_out hc.sorted hs b] at h
    simp at h
  have hkeep : ∀ {a b : Nat}, TG (Arc g) a b → b ∉ sinks g → TG (Arc g') a b := by
    intro a b t
    induction t with
    | single r =>
      intro hb
      refine .single ?_
      unfold Arc; rw [d.outE]; simp only [hnot _ _ r, hb, or_self, if_false]; exact r
    | tail t r ih =>
      intro hb
      refine .tail (ih (hnot _ _ r)) ?_
      unfold Arc; rw [d.outE]; simp only [hnot _ _ r, hb, or_self, if_false]; exact r
  constructor
  · rintro h ⟨n, t⟩
    exact h ⟨n, t.mono hsub⟩
  · rintro h ⟨n, t⟩
    obtain ⟨c, hc1⟩ := t.first
    exact h ⟨n, hkeep t (hnot _ _ hc1)⟩

/-- a non-empty consistent graph in which every node has a son has a cycle -/
theorem cycle_of_no_sink {g : G} (hc : Consistent g) (hne : g.nodes ≠ []) (hs : sinks g = []) : ¬ Acyclic g := by
  intro h
  apply h
  apply exists_cycle_of_succ (Arc g) (AL.keys g.nodes)
  · intro h'; apply hne
    cases hg : g.nodes with
    | nil => rfl
    | cons p r => simp [AL.keys, hg] at h'
  · intro a ha
    have han : g.hasNode a = true := (mem_keys_iff a g.nodes).mp ha
    obtain ⟨y, hy⟩ := out_of_not_sink han (by rw [hs]; simp)
    exact ⟨y, (mem_keys_iff y g.nodes).mpr (arc_nodes hc hy).2, hy⟩

theorem isDALoop_iff : ∀ (f : Nat) {g : G}, Consistent g → g.nodes ≠ [] → g.nodes.length < f →
    (isDALoop f g (sinks g) = .ok true ↔ Acyclic g) := by
  intro f
  induction f with
  | zero => intro g _ _ h; omega
  | succ k ih =>
    intro g hc hne hlt
    simp only [isDALoop]
    split
    · rename_i he
      have hs : sinks g = [] := List.isEmpty_iff.mp he
      have := cycle_of_no_sink hc hne hs
      constructor
      · intro h; cases h
      · intro h; exact absurd h this
    · rename_i hne'
      obtain ⟨g', h1, hc', d⟩ := round_spec hc
      have hl := d.len_lt (isEmpty_false hne')
      have hr := acyclic_round hc d
      simp only [h1]
      split
      · rename_i he
        have : Acyclic g' := acyclic_of_no_node (List.isEmpty_iff.mp he)
        exact ⟨fun _ => hr.mpr this, fun _ => rfl⟩
      · rename_i he
        rw [hr]
        exact ih hc' (isEmpty_false he) (by omega)

end D

/-! ## invariants of the container over its histories -/

theorem consistent_setPending {g : G} (hc : Consistent g) (p : List Event) : Consistent { g with pending := p } :=
  ⟨hc.views, hc.node_lt, hc.edge_lt, ⟨hc.sorted.nodes, hc.sorted.edges, hc.sorted.rows⟩⟩

/-- the graph of a DAG container: consistent and directed -/
def GInv (g : G) : Prop := Consistent g ∧ g.directed = true

theorem ginv_of {α : Type} {g : G} {r : GOut α} (h : GInv g) (hc : r.All Consistent)
    (hd : r.All (fun g' => g'.directed = g.directed)) : r.All GInv := by
  cases r with
  | ok a g' => exact ⟨hc, hd.trans h.2⟩
  | exc g' => exact ⟨hc, hd.trans h.2⟩

namespace G

theorem dir_createNode (g : G) : (createNode g).All (fun g' => g'.directed = g.directed) := rfl

theorem dir_link (g : G) (a b : Nat) : (link a b g).All (fun g' => g'.directed = g.directed) := by
  unfold link
  split
  · exact rfl
  · exact (linkWrite_rest _ _ _ _).1

theorem dir_linkE (g : G) (a b e : Nat) : (linkE a b e g).All (fun g' => g'.directed = g.directed) := by
  unfold linkE
  split
  · exact rfl
  · split
    · exact rfl
    · refine (linkWrite_rest _ _ _ _).1.trans ?_
      split <;> rfl

theorem dir_unlink {g : G} (hc : Consistent g) (a b : Nat) : (unlink a b g).All (fun g' => g'.directed = g.directed) := by
  rcases hO : g.outE a b with _ | e
  · rw [unlink_none hO]; exact rfl
  · obtain ⟨g', h, u⟩ := unlink_some hc hO
    rw [h]; exact u.rest.1

theorem dir_deleteNode {g : G} (hc : Consistent g) (n : Nat) : (deleteNode n g).All (fun g' => g'.directed = g.directed) := by
  cases hn : g.hasNode n
  · rw [deleteNode_absent hn]; exact rfl
  · obtain ⟨g', h, _, d⟩ := deleteNode_spec hc hn
    rw [h]; exact d.rest.1

theorem dir_setRoot (g : G) (n : Nat) : (setRoot n g).All (fun g' => g'.directed = g.directed) := by
  unfold setRoot; split <;> exact rfl

end G

/-! ### `switchNodes` and `orientate`: what they keep -/

theorem GOut.All.mono {α : Type} {P Q : G → Prop} {r : GOut α} (h : r.All P) (hPQ : ∀ g, P g → Q g) : r.All Q := by
  cases r with
  | ok a g' => exact hPQ _ h
  | exc g' => exact hPQ _ h

/-- what `switchNodes` (succeeding or raising) and hence `orientate` on a directed graph keep: the
nodes, the undirected edge set with its edge ids, and the root -/
structure SwitchKept (g g' : G) : Prop where
  keys : AL.keys g'.nodes = AL.keys g.nodes
  uedges : uedges g' = uedges g
  root : g'.root = g.root

theorem SwitchKept.refl (g : G) : SwitchKept g g := ⟨rfl, rfl, rfl⟩

theorem SwitchKept.trans {g1 g2 g3 : G} (h12 : SwitchKept g1 g2) (h23 : SwitchKept g2 g3) : SwitchKept g1 g3 :=
  ⟨h23.keys.trans h12.keys, h23.uedges.trans h12.uedges, h23.root.trans h12.root⟩

theorem SwitchKept.setPending {g g' : G} (h : SwitchKept g g') (p : List Event) : SwitchKept g { g' with pending := p } :=
  ⟨h.keys, h.uedges, h.root⟩

namespace G

theorem switchFrom_ok {g g' : G} {f s e : Nat} {u : Unit} (h : switchFrom f s e g = .ok u g') :
    g' = { g with nodes := switchedNodes f s e g.nodes, edges := AL.set e (s, f) g.edges } := by
  unfold switchFrom at h
  split at h
  · cases h
  · split at h
    · cases h
    · injection h with _ h; exact h.symm

/-- a successful `switchNodes`: the graph is directed and one relation `f -> s` was turned round -/
theorem switchNodes_ok {g g' : G} {a b : Nat} {u : Unit} (h : switchNodes a b g = .ok u g') :
    g.directed = true ∧ ∃ f s e, g.outE f s = some e ∧
      g' = { g with nodes := switchedNodes f s e g.nodes, edges := AL.set e (s, f) g.edges } := by
  unfold switchNodes at h
  split at h
  · cases h
  · rename_i hd
    have hd' : g.directed = true := by simpa using hd
    split at h
    · cases h
    · split at h
      · rename_i e he; exact ⟨hd', a, b, e, he, switchFrom_ok h⟩
      · split at h
        · rename_i e he; exact ⟨hd', b, a, e, he, switchFrom_ok h⟩
        · cases h

theorem dir_switchNodes (g : G) (a b : Nat) : (switchNodes a b g).All (fun g' => g'.directed = g.directed) := by
  rcases hr : switchNodes a b g with ⟨u, g'⟩ | g'
  · obtain ⟨_, f, s, e, _, rfl⟩ := switchNodes_ok hr; rfl
  · rw [switchNodes_exc hr]; exact rfl

/-- `switchNodes` on a consistent graph, succeeding or raising, keeps the nodes, the undirected
edges with their ids (self loops included) and the root -/
theorem switchNodes_kept {g : G} (hc : Consistent g) (a b : Nat) : (switchNodes a b g).All (SwitchKept g) := by
  rcases hr : switchNodes a b g with ⟨u, g'⟩ | g'
  · obtain ⟨hd, f, s, e, hO, rfl⟩ := switchNodes_ok hr
    refine ⟨keys_switchedNodes f s e g.nodes, ?_, rfl⟩
    have hE : find e g.edges = some (f, s) := by
      rcases hc.views.out_edge f s e hO with h1 | ⟨h2, _⟩
      · exact h1
      · rw [hd] at h2; cases h2
    exact uedges_set hc.sorted.edges hE
  · rw [switchNodes_exc hr]; exact SwitchKept.refl g

/-- whatever `orientate` does, the graph itself only undergoes `switchNodes` calls after `makeDirected` -/
theorem orientSwitches_ind (P : G → Prop) (hP : ∀ g a b, P g → (switchNodes a b g).All P) (nb : Nat) (ins : List Nat) :
    ∀ r : OrientRun, P r.g → P (orientSwitches nb ins r).g := by
  induction ins with
  | nil => intro r h; exact h
  | cons i rest ih =>
    intro r h
    unfold orientSwitches
    have h1 := hP r.g nb i h
    rcases hr : switchNodes nb i r.g with ⟨u, g'⟩ | g' <;> rw [hr] at h1
    · exact ih _ h1
    · exact h1

theorem orientLoop_ind (P : G → Prop) (hP : ∀ g a b, P g → (switchNodes a b g).All P) (fuel : Nat) :
    ∀ (r : OrientRun) (gg : G) (next : List Nat), P r.g → P (orientLoop fuel r gg next).g := by
  induction fuel with
  | zero => intro r gg next h; exact h
  | succ fuel ih =>
    intro r gg next h
    unfold orientLoop
    split
    · exact h
    · split
      · exact h
      · split
        · exact h
        · have h1 : ∀ nb ins, P (orientSwitches nb ins r).g := fun nb ins => orientSwitches_ind P hP nb ins r h
          simp only
          split
          · exact h1 _ _
          · split
            · exact ih _ _ _ (h1 _ _)
            · exact h1 _ _

theorem orientate_ind (P : G → Prop) (hP : ∀ g a b, P g → (switchNodes a b g).All P) (g : G) (h : P g.makeDirected) :
    (orientate g).All P := by
  have : P g.orientRun.g := by unfold orientRun; exact orientLoop_ind P hP _ _ _ _ h
  unfold orientate
  simp only
  split <;> exact this

theorem dir_orientate {g : G} (hd : g.directed = true) : (orientate g).All (fun g' => g'.directed = g.directed) := by
  apply orientate_ind
  · intro g1 a b h
    exact (dir_switchNodes g1 a b).mono (fun g' h' => h'.trans h)
  · rw [makeDirected_already hd]

/-- `orientate` on a consistent directed graph, succeeding or raising half way -/
theorem orientate_kept {g : G} (hc : Consistent g) (hd : g.directed = true) :
    (orientate g).All (fun g' => Consistent g' ∧ SwitchKept g g') := by
  apply orientate_ind
  · intro g1 a b h
    have h1 := switchNodes_consistent h.1 a b
    have h2 := switchNodes_kept h.1 a b
    rcases hr : switchNodes a b g1 with ⟨u, g'⟩ | g' <;> rw [hr] at h1 h2
    · exact ⟨h1, h.2.trans h2⟩
    · exact ⟨h1, h.2.trans h2⟩
  · rw [makeDirected_already hd]; exact ⟨hc, SwitchKept.refl g⟩

end G

namespace D

/-- the caches never lie: a set `isValid_` means `isDA` answers true on the graph as it is now, a set
`isRooted_` means exactly one node is father-less now -/
def CacheSound (d : D) : Prop :=
  (d.valid = true → isDA d.g = .ok true) ∧ (d.rooted = true → nbFatherless d.g = 1)

/-- invariant of all histories -/
def Inv (d : D) : Prop := GInv d.g ∧ CacheSound d

theorem inv_empty : Inv D.empty := by
  refine ⟨⟨(G.check_iff _).mp (by decide), rfl⟩, ?_, ?_⟩ <;> intro h <;> cases h

theorem cacheSound_off (g : G) : CacheSound { g := g, valid := false, rooted := false } := by
  unfold CacheSound; exact ⟨(by intro h; cases h), (by intro h; cases h)⟩

theorem inv_flags_off {d : D} (h : GInv d.g) : Inv { d with valid := false, rooted := false } :=
  ⟨h, cacheSound_off _⟩

theorem inv_lift {α : Type} (d : D) (h : Inv d) (r : GOut α) (hr : r.All GInv) : Inv (d.lift r).2 := by
  unfold lift
  cases r with
  | ok a g' =>
    exact ⟨⟨consistent_setPending hr.1 _, hr.2⟩, cacheSound_off _⟩
  | exc g' =>
    refine ⟨⟨consistent_setPending hr.1 _, hr.2⟩, ?_⟩
    by_cases hg : g' = d.g
    · simp only [hg, if_true]
      have he : EqP d.g { d.g with pending := [] } := EqP.setPending _ _
      exact ⟨fun hv => by rw [isDA_eqP he]; exact h.2.1 hv, fun hv => by rw [nbFatherless_eqP he]; exact h.2.2 hv⟩
    · simp only [hg, if_false]
      exact cacheSound_off _

theorem inv_createNode (d : D) (h : Inv d) : Inv d.createNode.2 :=
  inv_lift d h _ (ginv_of h.1 (G.createNode_consistent h.1.1) (G.dir_createNode _))
theorem inv_link (d : D) (h : Inv d) (a b : Nat) : Inv (d.link a b).2 :=
  inv_lift d h _ (ginv_of h.1 (G.link_consistent h.1.1 a b) (G.dir_link _ a b))
theorem inv_linkE (d : D) (h : Inv d) (a b e : Nat) : Inv (d.linkE a b e).2 :=
  inv_lift d h _ (ginv_of h.1 (G.linkE_consistent h.1.1 a b e) (G.dir_linkE _ a b e))
theorem inv_unlink (d : D) (h : Inv d) (a b : Nat) : Inv (d.unlink a b).2 :=
  inv_lift d h _ (ginv_of h.1 (G.unlink_consistent h.1.1 a b) (G.dir_unlink h.1.1 a b))
theorem inv_deleteNode (d : D) (h : Inv d) (n : Nat) : Inv (d.deleteNode n).2 :=
  inv_lift d h _ (ginv_of h.1 (G.deleteNode_consistent h.1.1 n) (G.dir_deleteNode h.1.1 n))
theorem inv_setRoot (d : D) (h : Inv d) (n : Nat) : Inv (d.setRoot n).2 :=
  inv_lift d h _ (ginv_of h.1 (G.setRoot_consistent h.1.1 n) (G.dir_setRoot _ n))

theorem inv_touch (r : GOut Unit × D) (h : Inv r.2) : Inv (touch r).2 := by
  unfold touch
  split
  · exact inv_flags_off h.1
  · exact h

theorem inv_andThen {α β : Type} (r : GOut α × D) (f : α → D → GOut β × D) (h : Inv r.2)
    (hf : ∀ a d', Inv d' → Inv (f a d').2) : Inv (andThen r f).2 := by
  unfold andThen
  split
  · exact hf _ _ h
  · exact h

theorem inv_removeSon (d : D) (h : Inv d) (n s : Nat) : Inv (d.removeSon n s).2 := inv_unlink d h n s

theorem inv_removeFather (d : D) (h : Inv d) (n f : Nat) : Inv (d.removeFather n f).2 := by
  unfold removeFather
  split
  · exact h
  · dsimp only
    split
    · exact inv_unlink { d with rooted := false } ⟨h.1, (show CacheSound { d with rooted := false } from ⟨h.2.1, (by intro h; cases h)⟩)⟩ f n
    · exact inv_unlink _ h f n

theorem inv_removeSonsFold (n : Nat) (sons : List Nat) : ∀ (r : GOut Unit × D), Inv r.2 →
    Inv (sons.foldl (fun acc s => andThen acc (fun _ d' => d'.removeSon n s)) r).2 := by
  induction sons with
  | nil => intro r h; exact h
  | cons s rest ih =>
    intro r h
    apply ih
    exact inv_andThen _ _ h (fun _ d' h' => inv_removeSon d' h' n s)

theorem inv_removeFathersFold (n : Nat) (fs : List Nat) : ∀ (r : GOut Unit × D), Inv r.2 →
    Inv (fs.foldl (fun acc f => andThen acc (fun _ d' => d'.removeFather n f)) r).2 := by
  induction fs with
  | nil => intro r h; exact h
  | cons s rest ih =>
    intro r h
    apply ih
    exact inv_andThen _ _ h (fun _ d' h' => inv_removeFather d' h' n s)

theorem inv_removeSons (d : D) (h : Inv d) (n : Nat) : Inv (d.removeSons n).2 := by
  unfold removeSons
  split
  · exact h
  · rename_i sons _
    have := inv_removeSonsFold n sons (.ok () d.g, d) h
    simp only
    split <;> exact this

theorem inv_removeFathers (d : D) (h : Inv d) (n : Nat) : Inv (d.removeFathers n).2 := by
  unfold removeFathers
  split
  · exact h
  · rename_i fs _
    have := inv_removeFathersFold n fs (.ok () d.g, d) h
    simp only
    split <;> exact this

theorem inv_isValid (d : D) (h : Inv d) : Inv d.isValid.2 := by
  unfold isValid
  split
  · exact h
  · rcases hr : isDA d.g with b | _ | _ | _ <;> simp only
    · refine ⟨h.1, ?_, h.2.2⟩
      intro hv
      simp only at hv
      subst hv
      exact hr
    · exact h
    · exact h
    · exact h

theorem inv_isRooted (d : D) (h : Inv d) : Inv d.isRooted.2 := by
  unfold isRooted
  split
  · exact h
  · split
    · exact h
    · refine ⟨h.1, h.2.1, ?_⟩
      intro hv
      simpa using hv

theorem getBelow_snd (e : Bool) (d : D) (n : Nat) : (d.getBelow e n).2 = d.isValid.2 := by
  unfold getBelow
  rcases hv : d.isValid with ⟨v, d'⟩
  simp only
  split <;> rfl

/-! ### re-rooting: `propagateDirection_`, `orientate`, `rootAt` -/

theorem lift_g {α : Type} (d : D) (r : GOut α) : (d.lift r).2.g = { r.state with pending := [] } := by
  cases r <;> rfl

theorem isValid_g (d : D) : d.isValid.2.g = d.g := by
  unfold isValid
  split
  · rfl
  · rcases isDA d.g with b | _ | _ | _ <;> rfl

theorem isRooted_g (d : D) : d.isRooted.2.g = d.g := by
  unfold isRooted
  split
  · rfl
  · split <;> rfl

theorem andThen_ind {α β : Type} (P : D → Prop) (r : GOut α × D) (f : α → D → GOut β × D) (h : P r.2)
    (hf : ∀ a d', P d' → P (f a d').2) : P (andThen r f).2 := by
  unfold andThen
  split
  · exact hf _ _ h
  · exact h

theorem foldl_ind {α β : Type} (I : α → Prop) (step : α → β → α) (hs : ∀ a b, I a → I (step a b)) :
    ∀ (l : List β) (a : α), I a → I (l.foldl step a) := by
  intro l
  induction l with
  | nil => intro a h; exact h
  | cons b rest ih => intro a h; exact ih _ (hs a b h)

/-- whatever holds of the container and is kept by a `switchNodes` call (succeeding or raising, with its
`topologyHasChanged_`) holds after `propagateDirection_`, whether it succeeded or raised half way -/
theorem propagate_ind (P : D → Prop) (hP : ∀ d a b, P d → P (d.lift (d.g.switchNodes a b)).2) :
    ∀ (fuel : Nat) (d : D) (n : Nat) (r : GOut Unit × D), P d → propagate fuel d n = .ok r → P r.2 := by
  intro fuel
  induction fuel with
  | zero => intro d n r _ hr; simp only [propagate] at hr; cases hr
  | succ fuel ih =>
    intro d n r h hr
    simp only [propagate] at hr
    split at hr
    · injection hr with hr; subst hr; exact h
    · rename_i fats _
      -- the first loop: the recursive calls, each on the container the former ones left
      have h1 := foldl_ind (fun acc : TRes (GOut Unit × D) => ∀ p, acc = .ok p → P p.2)
        (fun acc f => match acc with
          | .ok (.ok _ _, d') => propagate fuel d' f
          | other => other)
        (by
          intro acc f hacc p hp
          split at hp
          · exact ih _ _ _ (hacc _ rfl) hp
          · exact hacc _ hp)
        fats (.ok (.ok () d.g, d)) (by intro p hp; injection hp with hp; subst hp; exact h)
      split at hr
      · rename_i u g1 d1 heq
        have hd1 : P d1 := h1 _ heq
        injection hr with hr
        subst hr
        -- the second loop: one `switchNodes` per father
        exact foldl_ind (fun acc : GOut Unit × D => P acc.2) _
          (fun acc f hacc => andThen_ind P acc _ hacc (fun _ d' h' => hP d' f n h')) fats _ hd1
      · exact h1 _ hr

/-- `rootAt` once its `setRoot` has succeeded -/
def rootAtRest (d1 : D) (n : Nat) : TRes (GOut Unit × D) :=
  let (r, d2) := d1.isRooted
  if r then
    let (v, d3) := d2.isValid
    match v with
    | .ok true => propagate (propagateFuel d3.g) d3 n
    | .ok false => .ok d3.orient
    | .exc => .ok (.exc d3.g, d3)
    | .fuel => .fuel
    | .ub => .ub
  else .ok d2.orient

theorem rootAt_eq (d : D) (n : Nat) : d.rootAt n =
    match d.setRoot n with
    | (.exc g, d1) => .ok (.exc g, d1)
    | (.ok _ _, d1) => rootAtRest d1 n := by
  unfold rootAt rootAtRest
  rfl

theorem rootAtRest_ind (P : D → Prop) (hsw : ∀ d a b, P d → P (d.lift (d.g.switchNodes a b)).2)
    (hR : ∀ d, P d → P d.isRooted.2) (hV : ∀ d, P d → P d.isValid.2) (hO : ∀ d, P d → P d.orient.2)
    (d1 : D) (n : Nat) (r : GOut Unit × D) (h : P d1) (hr : rootAtRest d1 n = .ok r) : P r.2 := by
  unfold rootAtRest at hr
  have h2 := hR d1 h
  rcases hq : d1.isRooted with ⟨b, d2⟩
  rw [hq] at hr h2
  simp only at hr h2
  split at hr
  · have h3 := hV d2 h2
    rcases hv : d2.isValid with ⟨v, d3⟩
    rw [hv] at hr h3
    simp only at hr h3
    split at hr
    · exact propagate_ind P hsw _ _ _ _ h3 hr
    · injection hr with hr; subst hr; exact hO _ h3
    · injection hr with hr; subst hr; exact h3
    · cases hr
    · cases hr
  · injection hr with hr; subst hr; exact hO _ h2

/-- whatever holds of the container and is kept by `setRoot`, the two cache-writing queries, a
`switchNodes` call and `orientate()` holds after `rootAt`, succeeding or raising -/
theorem rootAt_ind (P : D → Prop) (hsw : ∀ d a b, P d → P (d.lift (d.g.switchNodes a b)).2)
    (hR : ∀ d, P d → P d.isRooted.2) (hV : ∀ d, P d → P d.isValid.2) (hO : ∀ d, P d → P d.orient.2)
    (hS : ∀ d n, P d → P (d.setRoot n).2)
    (d : D) (n : Nat) (r : GOut Unit × D) (h : P d) (hr : d.rootAt n = .ok r) : P r.2 := by
  rw [rootAt_eq] at hr
  have hs := hS d n h
  rcases hq : d.setRoot n with ⟨o, d1⟩
  rw [hq] at hr hs
  cases o with
  | ok u g1 => exact rootAtRest_ind P hsw hR hV hO d1 n r hs hr
  | exc g1 => simp only at hr; injection hr with hr; subst hr; exact hs

theorem inv_switch (d : D) (h : Inv d) (a b : Nat) : Inv (d.lift (d.g.switchNodes a b)).2 :=
  inv_lift d h _ (ginv_of h.1 (G.switchNodes_consistent h.1.1 a b) (G.dir_switchNodes _ a b))

/-- the container after `orient`: either some `switchNodes` succeeded — the graph `orientate` left, both flags
reset — or the container as it was (queue emptied) -/
theorem orient_cases (d : D) :
    d.orient.2 = { g := { d.g.orientRun.g with pending := [] }, valid := false, rooted := false } ∨
    d.orient.2 = { d with g := { d.g with pending := [] } } := by
  unfold orient
  simp only
  split
  · exact .inl rfl
  · exact .inr rfl

theorem orient_pending (d : D) : d.orient.2.g.pending = [] := by
  rcases orient_cases d with h | h <;> rw [h]

/-- what holds of the state `orientate` leaves in both outcomes holds of the graph of the run -/
theorem _root_.Bpp.Graph.G.orientRun_of_all {P : G → Prop} {g : G} (h : (G.orientate g).All P) : P g.orientRun.g := by
  unfold G.orientate at h
  simp only at h
  split at h <;> exact h

theorem inv_orient (d : D) (h : Inv d) : Inv d.orient.2 := by
  rcases orient_cases d with ho | ho <;> rw [ho]
  · have h1 : GInv d.g.orientRun.g :=
      G.orientRun_of_all (ginv_of h.1 (G.orientate_consistent h.1.1) (G.dir_orientate h.1.2))
    exact ⟨⟨consistent_setPending h1.1 _, h1.2⟩, cacheSound_off _⟩
  · have he : EqP d.g { d.g with pending := [] } := EqP.setPending _ _
    exact ⟨⟨consistent_setPending h.1.1 _, h.1.2⟩,
      fun hv => by rw [isDA_eqP he]; exact h.2.1 hv, fun hv => by rw [nbFatherless_eqP he]; exact h.2.2 hv⟩

theorem inv_propagate : ∀ (fuel : Nat) (d : D) (n : Nat) (r : GOut Unit × D), Inv d → propagate fuel d n = .ok r → Inv r.2 :=
  propagate_ind Inv (fun d a b h => inv_switch d h a b)

theorem inv_rootAt (d : D) (h : Inv d) (n : Nat) (r : GOut Unit × D) (hr : d.rootAt n = .ok r) : Inv r.2 :=
  rootAt_ind Inv (fun d a b h => inv_switch d h a b) inv_isRooted inv_isValid inv_orient
    (fun d n h => inv_setRoot d h n) d n r h hr

theorem inv_step (d : D) (h : Inv d) (op : DOp) : Inv (d.step op) := by
  cases op with
  | createNode => exact inv_createNode d h
  | link a b => exact inv_link d h a b
  | linkE a b e => exact inv_linkE d h a b e
  | unlink a b => exact inv_unlink d h a b
  | deleteNode n => exact inv_deleteNode d h n
  | setRoot n => exact inv_setRoot d h n
  | addSon n s => exact inv_touch _ (inv_link d h n s)
  | addSonE n s e => exact inv_touch _ (inv_linkE d h n s e)
  | addFather n f => exact inv_touch _ (inv_link d h f n)
  | addFatherE n f e => exact inv_touch _ (inv_linkE d h f n e)
  | removeSon n s => exact inv_removeSon d h n s
  | removeFather n f => exact inv_removeFather d h n f
  | removeSons n => exact inv_removeSons d h n
  | removeFathers n => exact inv_removeFathers d h n
  | isValid => exact inv_isValid d h
  | isRooted => exact inv_isRooted d h
  | getBelow e n => simp only [step, getBelow_snd]; exact inv_isValid d h
  | rootAt n =>
    simp only [step]
    split
    · rename_i r hr; exact inv_rootAt d h n r hr
    · exact h

theorem inv_run (ops : List DOp) : ∀ d, Inv d → Inv (d.run ops) := by
  induction ops with
  | nil => intro d h; exact h
  | cons op r ih => intro d h; exact ih _ (inv_step d h op)

/-! ### the notification queue of the container is always empty -/

theorem lift_pending {α : Type} (d : D) (r : GOut α) : (d.lift r).2.g.pending = [] := by
  cases r <;> rfl

theorem touch_g (r : GOut Unit × D) : (touch r).2.g = r.2.g := by
  unfold touch
  split <;> rfl

theorem pending_removeFather (d : D) (h : d.g.pending = []) (n f : Nat) : (d.removeFather n f).2.g.pending = [] := by
  unfold removeFather
  split
  · exact h
  · exact lift_pending _ _

theorem pending_rootAt (d : D) (h : d.g.pending = []) (n : Nat) (r : GOut Unit × D) (hr : d.rootAt n = .ok r) :
    r.2.g.pending = [] :=
  rootAt_ind (fun d => d.g.pending = []) (fun d a b _ => lift_pending _ _)
    (fun d h => by rw [isRooted_g]; exact h) (fun d h => by rw [isValid_g]; exact h)
    (fun d _ => orient_pending d) (fun d n _ => lift_pending _ _) d n r h hr

theorem pending_step (d : D) (h : d.g.pending = []) (op : DOp) : (d.step op).g.pending = [] := by
  cases op with
  | createNode => exact lift_pending _ _
  | link a b => exact lift_pending _ _
  | linkE a b e => exact lift_pending _ _
  | unlink a b => exact lift_pending _ _
  | deleteNode n => exact lift_pending _ _
  | setRoot n => exact lift_pending _ _
  | addSon n s => simp only [step, addSon, touch_g]; exact lift_pending _ _
  | addSonE n s e => simp only [step, addSonE, touch_g]; exact lift_pending _ _
  | addFather n f => simp only [step, addFather, touch_g]; exact lift_pending _ _
  | addFatherE n f e => simp only [step, addFatherE, touch_g]; exact lift_pending _ _
  | removeSon n s => exact lift_pending _ _
  | removeFather n f => exact pending_removeFather d h n f
  | removeSons n =>
    simp only [step, removeSons]
    split
    · exact h
    · rename_i sons _
      have := foldl_ind (fun acc : GOut Unit × D => acc.2.g.pending = [])
        (fun acc s => andThen acc (fun _ d' => d'.removeSon n s))
        (fun acc s hacc => andThen_ind (fun d => d.g.pending = []) acc _ hacc (fun _ d' _ => lift_pending d' (d'.g.unlink n s)))
        sons (.ok () d.g, d) h
      split <;> exact this
  | removeFathers n =>
    simp only [step, removeFathers]
    split
    · exact h
    · rename_i fs _
      have := foldl_ind (fun acc : GOut Unit × D => acc.2.g.pending = [])
        (fun acc f => andThen acc (fun _ d' => d'.removeFather n f))
        (fun acc f hacc => andThen_ind (fun d => d.g.pending = []) acc _ hacc (fun _ d' h' => pending_removeFather d' h' n f))
        fs (.ok () d.g, d) h
      split <;> exact this
  | isValid => simp only [step, isValid_g]; exact h
  | isRooted => simp only [step, isRooted_g]; exact h
  | getBelow e n => simp only [step, getBelow_snd, isValid_g]; exact h
  | rootAt n =>
    simp only [step]
    split
    · rename_i r hr; exact pending_rootAt d h n r hr
    · exact h

/-- no notification is ever left pending in a reachable container -/
theorem pending_run (ops : List DOp) : ∀ d : D, d.g.pending = [] → (d.run ops).g.pending = [] := by
  induction ops with
  | nil => intro d h; exact h
  | cons op r ih => intro d h; exact ih _ (pending_step d h op)

/-! ### `rootAt` keeps the nodes and the undirected edges -/

/-- consistent, directed, quiet, and with the nodes, undirected edges and root of `g0` -/
def ShapeInv (g0 : G) (d : D) : Prop := GInv d.g ∧ d.g.pending = [] ∧ SwitchKept g0 d.g

theorem shape_lift {α : Type} {g0 : G} (d : D) (r : GOut α) (h : r.All (fun g' => GInv g' ∧ SwitchKept g0 g')) :
    ShapeInv g0 (d.lift r).2 := by
  cases r with
  | ok a g' => exact ⟨⟨consistent_setPending h.1.1 _, h.1.2⟩, rfl, h.2.setPending _⟩
  | exc g' => exact ⟨⟨consistent_setPending h.1.1 _, h.1.2⟩, rfl, h.2.setPending _⟩

theorem shape_switch {g0 : G} (d : D) (a b : Nat) (h : ShapeInv g0 d) : ShapeInv g0 (d.lift (d.g.switchNodes a b)).2 := by
  apply shape_lift
  have h1 := ginv_of h.1 (G.switchNodes_consistent h.1.1 a b) (G.dir_switchNodes _ a b)
  have h2 := G.switchNodes_kept h.1.1 a b
  rcases hr : d.g.switchNodes a b with ⟨u, g'⟩ | g' <;> rw [hr] at h1 h2
  · exact ⟨h1, h.2.2.trans h2⟩
  · exact ⟨h1, h.2.2.trans h2⟩

theorem shape_orient {g0 : G} (d : D) (h : ShapeInv g0 d) : ShapeInv g0 d.orient.2 := by
  rcases orient_cases d with ho | ho <;> rw [ho]
  · have h1 : GInv d.g.orientRun.g :=
      G.orientRun_of_all (ginv_of h.1 (G.orientate_consistent h.1.1) (G.dir_orientate h.1.2))
    have h2 := G.orientRun_of_all (G.orientate_kept h.1.1 h.1.2)
    exact ⟨⟨consistent_setPending h1.1 _, h1.2⟩, rfl, (h.2.2.trans h2.2).setPending _⟩
  · exact ⟨⟨consistent_setPending h.1.1 _, h.1.2⟩, rfl, h.2.2.setPending _⟩

theorem setPending_self {g : G} (h : g.pending = []) : ({ g with pending := [] } : G) = g := by
  cases g; simp only at h; subst h; rfl

/-- **`rootAt` and the shape of the graph**: on a consistent directed graph (whatever the cached flags say),
succeeding or raising half way, `rootAt` keeps the nodes and the undirected edges with their ids; unless
`setRoot` raised (absent node: nothing changed) the root is the node asked for -/
theorem rootAt_shape (d : D) (h : GInv d.g) (hp : d.g.pending = []) (n : Nat) (r : GOut Unit × D)
    (hr : d.rootAt n = .ok r) :
    SameShape d.g r.2.g ∧ (d.g.hasNode n = true → r.2.g.root = n) ∧
      (d.g.hasNode n = false → r.2.g = d.g ∧ ∃ g', r.1 = .exc g') := by
  rw [rootAt_eq] at hr
  cases hn : d.g.hasNode n
  · have hs : d.setRoot n = (.exc d.g, d) := by
      simp only [setRoot, G.setRoot, hn, Bool.false_eq_true, if_false, lift, if_true, setPending_self hp]
    rw [hs] at hr
    simp only at hr
    injection hr with hr
    subst hr
    exact ⟨⟨rfl, rfl, hp⟩, fun h' => (by cases h'), fun _ => ⟨rfl, _, rfl⟩⟩
  · have hs : d.setRoot n = (.ok () { d.g with root := n, pending := [] },
        { g := { d.g with root := n, pending := [] }, valid := false, rooted := false }) := by
      simp only [setRoot, G.setRoot, hn, if_true, lift]
    rw [hs] at hr
    simp only at hr
    have h0 : ShapeInv { d.g with root := n, pending := [] }
        { g := { d.g with root := n, pending := [] }, valid := false, rooted := false } :=
      ⟨⟨consistent_congr (g := d.g) rfl rfl rfl rfl rfl h.1, h.2⟩, rfl, SwitchKept.refl _⟩
    have h1 : ShapeInv { d.g with root := n, pending := [] } r.2 :=
      rootAtRest_ind (ShapeInv { d.g with root := n, pending := [] }) (fun d a b h => shape_switch d a b h)
        (fun d h => by unfold ShapeInv; rw [isRooted_g]; exact h) (fun d h => by unfold ShapeInv; rw [isValid_g]; exact h)
        shape_orient _ n r h0 hr
    exact ⟨⟨h1.2.2.keys, h1.2.2.uedges, h1.2.1⟩, fun _ => h1.2.2.root, fun h' => (by cases h')⟩

end D

/-! ## the reference decision `isAcyclicRef` (transitive closure on the edge table) -/
namespace Dag

theorem mem_closeInner (es : List (Nat × Nat)) (p : Nat × Nat) : ∀ (acc : List (Nat × Nat)) (x : Nat × Nat),
    x ∈ es.foldl (fun acc q => if q.1 == p.2 && !acc.contains (p.1, q.2) then (p.1, q.2) :: acc else acc) acc ↔
      x ∈ acc ∨ ∃ q ∈ es, q.1 = p.2 ∧ x = (p.1, q.2) := by
  induction es with
  | nil => intro acc x; simp
  | cons q r ih =>
    intro acc x
    rw [List.foldl_cons, ih]
    by_cases hq : q.1 = p.2
    · by_cases hc : (p.1, q.2) ∈ acc
      · have : (q.1 == p.2 && !acc.contains (p.1, q.2)) = false := by simp [hq, hc]
        simp only [this, Bool.false_eq_true, if_false, List.mem_cons, exists_eq_or_imp]
        constructor
        · rintro (h | h)
          · exact Or.inl h
          · exact Or.inr (Or.inr h)
        · rintro (h | ⟨_, h⟩ | h)
          · exact Or.inl h
          · exact Or.inl (h ▸ hc)
          · exact Or.inr h
      · have : (q.1 == p.2 && !acc.contains (p.1, q.2)) = true := by simp [hq, hc]
        simp only [this, if_true, List.mem_cons, exists_eq_or_imp]
        constructor
        · rintro ((h | h) | h)
          · exact Or.inr (Or.inl ⟨hq, h⟩)
          · exact Or.inl h
          · exact Or.inr (Or.inr h)
        · rintro (h | ⟨_, h⟩ | h)
          · exact Or.inl (Or.inr h)
          · exact Or.inl (Or.inl h)
          · exact Or.inr h
    · have : (q.1 == p.2 && !acc.contains (p.1, q.2)) = false := by simp [hq]
      simp only [this, Bool.false_eq_true, if_false, List.mem_cons, exists_eq_or_imp]
      constructor
      · rintro (h | h)
        · exact Or.inl h
        · exact Or.inr (Or.inr h)
      · rintro (h | ⟨h', _⟩ | h)
        · exact Or.inl h
        · exact absurd h' hq
        · exact Or.inr h

theorem mem_closeOuter (es : List (Nat × Nat)) : ∀ (cl acc : List (Nat × Nat)) (x : Nat × Nat),
    x ∈ cl.foldl (fun acc p => es.foldl (fun acc q => if q.1 == p.2 && !acc.contains (p.1, q.2) then (p.1, q.2) :: acc else acc) acc) acc ↔
      x ∈ acc ∨ ∃ p ∈ cl, ∃ q ∈ es, q.1 = p.2 ∧ x = (p.1, q.2) := by
  intro cl
  induction cl with
  | nil => intro acc x; simp
  | cons p r ih =>
    intro acc x
    rw [List.foldl_cons, ih, mem_closeInner]
    simp only [List.mem_cons, exists_eq_or_imp]
    constructor
    · rintro ((h | h) | h)
      · exact Or.inl h
      · exact Or.inr (Or.inl h)
      · exact Or.inr (Or.inr h)
    · rintro (h | h | h)
      · exact Or.inl (Or.inl h)
      · exact Or.inl (Or.inr h)
      · exact Or.inr h

/-- `j` more edges appended to a pair of `cl` -/
def ClExt (es cl : List (Nat × Nat)) : Nat → Nat × Nat → Prop
  | 0, x => x ∈ cl
  | j + 1, x => ∃ b, ClExt es cl j (x.1, b) ∧ (b, x.2) ∈ es

theorem mem_closeStep (es cl : List (Nat × Nat)) (x : Nat × Nat) :
    x ∈ closeStep es cl ↔ ClExt es cl 0 x ∨ ClExt es cl 1 x := by
  unfold closeStep
  rw [mem_closeOuter]
  simp only [ClExt]
  constructor
  · rintro (h | ⟨p, hp, q, hq, h1, h2⟩)
    · exact Or.inl h
    · refine Or.inr ⟨p.2, ?_, ?_⟩
      · rw [h2]; exact hp
      · rw [h2, ← h1]; exact hq
  · rintro (h | ⟨b, h1, h2⟩)
    · exact Or.inl h
    · exact Or.inr ⟨(x.1, b), h1, (b, x.2), h2, rfl, rfl⟩

theorem ext_closeStep (es cl : List (Nat × Nat)) : ∀ (j : Nat) (x : Nat × Nat),
    ClExt es (closeStep es cl) j x ↔ ClExt es cl j x ∨ ClExt es cl (j + 1) x := by
  intro j
  induction j with
  | zero => intro x; exact mem_closeStep es cl x
  | succ j ih =>
    intro x
    constructor
    · rintro ⟨b, h1, h2⟩
      rcases (ih _).mp h1 with h | h
      · exact Or.inl ⟨b, h, h2⟩
      · exact Or.inr ⟨b, h, h2⟩
    · rintro (⟨b, h1, h2⟩ | ⟨b, h1, h2⟩)
      · exact ⟨b, (ih _).mpr (Or.inl h1), h2⟩
      · exact ⟨b, (ih _).mpr (Or.inr h1), h2⟩

theorem mem_closure (es : List (Nat × Nat)) : ∀ (k : Nat) (cl : List (Nat × Nat)) (x : Nat × Nat),
    x ∈ closure es k cl ↔ ∃ j, j ≤ k ∧ ClExt es cl j x := by
  intro k
  induction k with
  | zero =>
    intro cl x
    simp only [closure]
    constructor
    · intro h; exact ⟨0, Nat.le_refl _, h⟩
    · rintro ⟨j, hj, h⟩
      have : j = 0 := by omega
      subst this; exact h
  | succ k ih =>
    intro cl x
    simp only [closure]
    rw [ih]
    constructor
    · rintro ⟨j, hj, h⟩
      rcases (ext_closeStep es cl j x).mp h with h | h
      · exact ⟨j, by omega, h⟩
      · exact ⟨j + 1, by omega, h⟩
    · rintro ⟨j, hj, h⟩
      cases j with
      | zero => exact ⟨0, by omega, (ext_closeStep es cl 0 x).mpr (Or.inl h)⟩
      | succ j => exact ⟨j, by omega, (ext_closeStep es cl j x).mpr (Or.inr h)⟩

/-- a walk from `a` to `c`; `l` lists, last first, every vertex but the final `c` -/
inductive WalkL (E : Nat → Nat → Prop) : Nat → List Nat → Nat → Prop
  | one {a b : Nat} : E a b → WalkL E a [a] b
  | snoc {a b c : Nat} {l : List Nat} : WalkL E a l b → E b c → WalkL E a (b :: l) c

theorem WalkL.tg {E : Nat → Nat → Prop} {a c : Nat} {l : List Nat} (w : WalkL E a l c) : TG E a c := by
  induction w with
  | one h => exact .single h
  | snoc _ h ih => exact .tail ih h

theorem TG.walk {E : Nat → Nat → Prop} {a c : Nat} (t : TG E a c) : ∃ l, WalkL E a l c := by
  induction t with
  | single h => exact ⟨_, .one h⟩
  | tail _ h ih => obtain ⟨l, w⟩ := ih; exact ⟨_, .snoc w h⟩

theorem WalkL.source {E : Nat → Nat → Prop} {a c : Nat} {l : List Nat} (w : WalkL E a l c) :
    ∀ x ∈ l, ∃ y, E x y := by
  induction w with
  | one h => intro x hx; simp at hx; subst hx; exact ⟨_, h⟩
  | snoc _ h ih =>
    intro x hx
    rcases List.mem_cons.mp hx with rfl | hx
    · exact ⟨_, h⟩
    · exact ih x hx

/-- the rest of the walk from any visited vertex -/
theorem WalkL.suffix {E : Nat → Nat → Prop} {a c : Nat} {l : List Nat} (w : WalkL E a l c) :
    ∀ x ∈ l, ∃ l', WalkL E x l' c ∧ l'.length ≤ l.length := by
  induction w with
  | one h => intro x hx; simp at hx; subst hx; exact ⟨_, .one h, Nat.le_refl _⟩
  | snoc _ h ih =>
    intro x hx
    rcases List.mem_cons.mp hx with rfl | hx
    · exact ⟨_, .one h, by simp⟩
    · obtain ⟨l', w', hl⟩ := ih x hx
      exact ⟨_, .snoc w' h, by simp; omega⟩

/-- a walk that visits a vertex twice contains a strictly shorter cycle -/
theorem WalkL.shorter {E : Nat → Nat → Prop} {a c : Nat} {l : List Nat} (w : WalkL E a l c) :
    ¬ l.Nodup → ∃ x l', WalkL E x l' x ∧ l'.length < l.length := by
  induction w with
  | one h => intro hn; exact absurd (by simp) hn
  | @snoc b c l w h ih =>
    intro hn
    by_cases hb : b ∈ l
    · obtain ⟨l', w', hl⟩ := w.suffix b hb
      exact ⟨b, l', w', by simp; omega⟩
    · have : ¬ l.Nodup := fun h' => hn (List.nodup_cons.mpr ⟨hb, h'⟩)
      obtain ⟨x, l', w', hl⟩ := ih this
      exact ⟨x, l', w', by simp; omega⟩

/-- a cycle contains a cycle without repeated vertex -/
theorem WalkL.simple_cycle {E : Nat → Nat → Prop} : ∀ (n : Nat) {a : Nat} {l : List Nat}, WalkL E a l a → l.length ≤ n →
    ∃ x l', WalkL E x l' x ∧ l'.Nodup := by
  intro n
  induction n with
  | zero =>
    intro a l w hl
    cases w <;> simp at hl
  | succ n ih =>
    intro a l w hl
    by_cases hn : l.Nodup
    · exact ⟨a, l, w, hn⟩
    · obtain ⟨x, l', w', hl'⟩ := w.shorter hn
      exact ih w' (by omega)

theorem ext_walk (es : List (Nat × Nat)) (a : Nat) : ∀ (j c : Nat), ClExt es es j (a, c) →
    ∃ l, l.length = j + 1 ∧ WalkL (fun a b => (a, b) ∈ es) a l c := by
  intro j
  induction j with
  | zero => intro c h; exact ⟨[a], rfl, .one h⟩
  | succ j ih =>
    rintro c ⟨b, h1, h2⟩
    obtain ⟨l, hl, w⟩ := ih b h1
    exact ⟨b :: l, by simp [hl], .snoc w h2⟩

theorem walk_ext (es : List (Nat × Nat)) {a c : Nat} {l : List Nat} (w : WalkL (fun a b => (a, b) ∈ es) a l c) :
    ∃ j, l.length = j + 1 ∧ ClExt es es j (a, c) := by
  induction w with
  | one h => exact ⟨0, rfl, h⟩
  | snoc _ h ih =>
    obtain ⟨j, hl, hj⟩ := ih
    exact ⟨j + 1, by simp [hl], ⟨_, hj, h⟩⟩

/-- on a consistent directed graph the pairs of the edge table are the arcs of the node table -/
theorem mem_edgePairs {g : G} (hc : Consistent g) (hd : g.directed = true) (a b : Nat) :
    (a, b) ∈ g.edges.map (fun p => (p.2.1, p.2.2)) ↔ Arc g a b := by
  unfold Arc
  constructor
  · intro h
    obtain ⟨⟨e, a', b'⟩, hm, he⟩ := List.mem_map.mp h
    simp only [Prod.mk.injEq] at he
    obtain ⟨rfl, rfl⟩ := he
    have hf := (mem_iff_find hc.sorted.edges e (a', b')).mp hm
    rw [(hc.views.edge_listed e a' b' hf).1]; rfl
  · intro h
    rcases ho : g.outE a b with _ | e
    · simp [ho] at h
    · rcases hc.views.out_edge a b e ho with hf | ⟨hf, _⟩
      · exact List.mem_map.mpr ⟨(e, a, b), find_some_mem hf, rfl⟩
      · rw [hd] at hf; cases hf

/-- **the reference decision agrees with `Acyclic`** -/
theorem isAcyclicRef_iff_acyclic (g : G) (hc : Consistent g) (hd : g.directed = true) :
    isAcyclicRef g = true ↔ Acyclic g := by
  let es := g.edges.map (fun p => (p.2.1, p.2.2))
  let E : Nat → Nat → Prop := fun a b => (a, b) ∈ es
  have hE : ∀ a b, E a b ↔ Arc g a b := mem_edgePairs hc hd
  have hcl : isAcyclicRef g = true ↔ ¬ ∃ x, (x, x) ∈ closure es g.nodes.length es := by
    unfold isAcyclicRef
    simp only [Bool.not_eq_true', ← Bool.not_eq_true, List.any_eq_true, beq_iff_eq]
    constructor
    · rintro h ⟨x, hx⟩; exact h ⟨(x, x), hx, rfl⟩
    · rintro h ⟨⟨x, y⟩, hx, hxy⟩
      simp only at hxy; subst hxy
      exact h ⟨x, hx⟩
  rw [hcl]
  unfold Acyclic
  apply not_congr
  constructor
  · rintro ⟨x, hx⟩
    obtain ⟨j, _, hj⟩ := (mem_closure es _ _ _).mp hx
    obtain ⟨l, _, w⟩ := ext_walk es x j x hj
    exact ⟨x, w.tg.mono (fun a b h => (hE a b).mp h)⟩
  · rintro ⟨n, t⟩
    have t' : TG E n n := t.mono (fun a b h => (hE a b).mpr h)
    obtain ⟨l, w⟩ := t'.walk
    obtain ⟨x, l', w', hnd⟩ := WalkL.simple_cycle l.length w (Nat.le_refl _)
    have hsub : ∀ y ∈ l', y ∈ AL.keys g.nodes := by
      intro y hy
      obtain ⟨z, hz⟩ := w'.source y hy
      exact (mem_keys_iff y g.nodes).mpr (arc_nodes hc ((hE y z).mp hz)).1
    have hlen := nodup_length_le hnd hsub
    have hk : (AL.keys g.nodes).length = g.nodes.length := by simp [AL.keys]
    obtain ⟨j, hl, hj⟩ := walk_ext es w'
    exact ⟨x, (mem_closure es _ _ _).mpr ⟨j, by omega, hj⟩⟩

end Dag

end Graph
end Bpp
