import BppProofs.Lemmas.LapFullDj
/-! Helper lemmas for C04 (`lap`, the whole routine): one pass through the body of the
shortest-path search (`djScan`, `djRelax`, `djIter`) keeps the invariant `DjInv` or ends with
`DjPost`; the loop `djLoop`. -/
namespace Bpp.Mx.Lap
open Bpp Bpp.Mx

/-- the state between the two halves of the loop body -/
structure DjMid (n : Nat) (c : Nat → Nat → ℝ) (cs : Nat → Int) (v : Nat → ℝ) (fr : Nat) (s0 s : Dj ℝ) : Prop where
  core : DjCore n c cs v fr s
  low : s.low = s0.low
  lowlt : s.low < s.up
  asg : s.found = none → ∀ k, k < s.up → 0 ≤ cs (s.colList k)
  fnd : ∀ e, s.found = some e → ∃ a, s.low ≤ a ∧ a < s.up ∧ s.colList a = e ∧ cs e < 0

theorem djScan_good {n : Nat} {c : Nat → Nat → ℝ} {rs cs : Nat → Int} {v : Nat → ℝ} {F : Nat → Prop}
    (hInv : Inv n c rs cs v F) {fr : Nat} (hfr : F fr) (s : Dj ℝ) (h : DjInv n c cs v fr s) (B : Prop) :
    Good B (djScan n cs s) (DjMid n c cs v fr s) := by
  unfold djScan
  by_cases hul : s.up = s.low
  · rw [if_pos hul]
    have hc := h.core
    -- not every column is assigned, the scanned ones are: `low < n`
    have hlown : s.low < n := by
      by_contra hge
      have hupn := hc.upn
      have hln : s.low = n := by omega
      obtain ⟨j, hj, hneg⟩ := hInv.exists_unassigned hfr
      obtain ⟨k, hk, hkj⟩ := inj_surj s.colList hc.perm.lt hc.perm.inj j hj
      have := h.asg k (by omega)
      rw [hkj] at this
      omega
    have hj0 : s.colList s.low < n := hc.perm.lt _ hlown
    rw [hul]
    simp only [rd_of_lt _ hlown, rd_of_lt _ hj0]
    rcases minScan_good n s.d s.colList s.low hlown hc.perm B with ⟨st, hst, hm⟩ | ⟨he, hb⟩
    swap
    · rw [he]; exact Or.inr ⟨rfl, hb⟩
    rw [hst]
    simp only
    have hstup : st.up ≤ n := hm.upk
    rcases unasg_good n cs st.colList s.low st.up hstup hm.perm B with ⟨f, hf, hu⟩ | ⟨he, hb⟩
    swap
    · rw [he]; exact Or.inr ⟨rfl, hb⟩
    rw [hf]
    apply Good.ok
    have hfix := hm.same.fix
    have hreg := hm.same.reg
    refine ⟨⟨hm.perm, by simp only; have := hm.lowup; omega, hstup, Nat.le_refl _, hc.predlt, ?_, ?_, hm.eq, ?_, ?_, ?_, hc.pfree, ?_⟩,
      rfl, hm.lowup, ?_, ?_⟩
    · intro k hk
      simp only at hk ⊢
      rw [hfix k hk]; exact hc.asgLow k hk
    · intro k k' hk hk' hk'n
      simp only at hk hk' ⊢
      rw [hfix k hk]
      obtain ⟨b, hb1, hb2, hb3⟩ := hreg k' hk' hk'n
      rw [hb3]
      exact hc.b1 k b hk hb1 hb2
    · intro _ k' hk' hk'n
      exact hm.ge k' hk' hk'n
    · intro k hk1 hk2
      simp only at hk1 hk2
      omega
    · intro k hk i hi j hj
      simp only at hk hi ⊢
      rw [hfix k hk] at hi ⊢
      exact hc.p2 k hk i hi j hj
    · intro m hm'
      simp only
      by_cases hml : m < s.low
      · rw [hfix m hml]
        rcases hc.p3 m hm' with h1 | ⟨k, h1, h2, h3, h4⟩
        · exact Or.inl h1
        · right
          refine ⟨k, h1, h2, ?_, ?_⟩
          · rw [hfix k h1]; exact h3
          · rw [hfix k h1]; exact h4
      · obtain ⟨b, hb1, hb2, hb3⟩ := hreg m (by omega) hm'
        rw [hb3]
        rcases hc.p3 b hb2 with h1 | ⟨k, h1, h2, h3, h4⟩
        · exact Or.inl h1
        · right
          refine ⟨k, h1, by omega, ?_, ?_⟩
          · rw [hfix k h1]; exact h3
          · rw [hfix k h1]; exact h4
    · intro hnone k hk
      simp only at hnone hk ⊢
      subst hnone
      by_cases hkl : k < s.low
      · rw [hfix k hkl]; exact hc.asgLow k hkl
      · exact hu k (by omega) hk
    · intro e he
      simp only at he ⊢
      subst he
      exact hu
  · rw [if_neg hul]
    apply Good.ok
    refine ⟨h.core, rfl, by have := h.core.lowup; omega, fun _ => h.asg, fun e he => ?_⟩
    rw [h.nf] at he; cases he

theorem djRelax_good {n : Nat} (hn : n < 32768) {c : Nat → Nat → ℝ} {rs cs : Nat → Int} {v : Nat → ℝ} {F : Nat → Prop}
    (hInv : Inv n c rs cs v F) {fr : Nat} (s0 s : Dj ℝ) (hmid : DjMid n c cs v fr s0 s) (hnone : s.found = none) (B : Prop) :
    Good B (djRelax n c cs v s) (fun s' =>
      (s'.found = none → DjInv n c cs v fr s' ∧ s'.low = s.low + 1) ∧
      (∀ e, s'.found = some e → DjPost n c cs v fr s' e (upd s'.d e s'.min))) := by
  have hc := hmid.core
  have hlowlt := hmid.lowlt
  have hupn := hc.upn
  have hlown : s.low < n := by omega
  have hj1 : s.colList s.low < n := hc.perm.lt _ hlown
  have hasg0 := hmid.asg hnone s.low hlowlt
  obtain ⟨i, hi0⟩ : ∃ i : Nat, cs (s.colList s.low) = (i : Int) := ⟨(cs (s.colList s.low)).toNat, by omega⟩
  obtain ⟨hin, hrsi⟩ := hInv.colOk _ hj1 i hi0
  have hsz : szOfInt (cs (s.colList s.low)) = i := by rw [hi0]; exact szOfInt_ofNat i (by omega)
  have hmin1 : s.d (s.colList s.low) = s.min := hc.b2 s.low (Nat.le_refl _) hlowlt
  have htight := hInv.tight _ hj1 i hi0
  have hv2 : ∀ j, j < n → s.min ≤ c i j - v j - (c i (s.colList s.low) - v (s.colList s.low) - s.min) := by
    intro j hj; have := htight j hj; linarith
  unfold djRelax
  simp only [rd_of_lt _ hlown, rd_of_lt _ hj1, hsz, hin, not_true_eq_false, if_false]
  rcases relax_good n c cs v i (c i (s.colList s.low) - v (s.colList s.low) - s.min) s.min s.d s.pred s.colList s.up hupn B
      hc.perm hv2 (hc.b3 hlowlt) with ⟨r, hr', hr⟩ | ⟨he, hb⟩
  swap
  · rw [he]; exact Or.inr ⟨rfl, hb⟩
  rw [hr']
  apply Good.ok
  simp only
  -- facts about the columns that were already on the list
  have hfixpos : ∀ a, a < s.up → r.colList a = s.colList a := hr.same.fix
  have hunch : ∀ a, a < s.up → r.pred (s.colList a) = s.pred (s.colList a) ∧ r.d (s.colList a) = s.d (s.colList a) := by
    intro a ha
    rcases hr.chg (s.colList a) (hc.perm.lt a (by omega)) with h1 | ⟨_, _, b, hb1, hb2, hb3⟩
    · exact h1
    · have := hc.perm.inj b a hb2 (by omega) hb3
      omega
  have hdlemin : ∀ a, a < s.up → s.d (s.colList a) ≤ s.min := by
    intro a ha
    by_cases hal : a < s.low
    · rw [← hmin1]; exact hc.b1 a s.low hal (Nat.le_refl _) hlown
    · exact le_of_eq (hc.b2 a (by omega) ha)
  have hsurj := inj_surj r.colList hr.perm.lt hr.perm.inj
  have hposge : ∀ m, m < n → (∃ a, s.up ≤ a ∧ a < n ∧ s.colList a = r.colList m) → s.up ≤ m := by
    intro m hm ⟨a, ha1, ha2, ha3⟩
    by_contra hlt
    rw [hfixpos m (by omega)] at ha3
    have := hc.perm.inj a m ha2 hm ha3
    omega
  have hrupn : r.up ≤ n := hr.upk
  have hrupge := hr.upge
  have hpredlt : ∀ j, j < n → r.pred j < n := by
    intro j hj
    rcases hr.chg j hj with ⟨h1, _⟩ | ⟨h1, _⟩
    · rw [h1]; exact hc.predlt j hj
    · rw [h1]; exact hin
  have hasgLow : ∀ k, k < s.low + 1 → 0 ≤ cs (r.colList k) := by
    intro k hk
    rw [hfixpos k (by omega)]
    exact hmid.asg hnone k (by omega)
  -- the value of `d` at a position of the new list that was on the list before
  have hdfix : ∀ a, a < s.up → r.d (r.colList a) = s.d (s.colList a) := by
    intro a ha; rw [hfixpos a ha]; exact (hunch a ha).2
  constructor
  · intro hfn
    refine ⟨⟨⟨hr.perm, by dsimp only; omega, hrupn, by dsimp only; have := hc.lastlow; omega, hpredlt, hasgLow, ?_, ?_, ?_, ?_, ?_, ?_, ?_⟩, hfn, ?_⟩, trivial⟩
    · -- b1
      try dsimp only
      intro k k' hk hk' hk'n
      rw [hdfix k (by omega)]
      have h1 := hdlemin k (by omega)
      by_cases hk'u : k' < s.up
      · rw [hdfix k' hk'u, hc.b2 k' (by omega) hk'u]; exact h1
      · by_cases hk'r : k' < r.up
        · rw [(hr.scan k' (by omega) hk'r).1]; exact h1
        · exact le_trans h1 (hr.ge k' (by omega) hk'n)
    · -- b2
      try dsimp only
      intro k hk1 hk2
      by_cases hku : k < s.up
      · rw [hdfix k hku]; exact hc.b2 k (by omega) hku
      · exact (hr.scan k (by omega) hk2).1
    · try dsimp only
      intro _ k' hk' hk'n
      exact hr.ge k' hk' hk'n
    · -- b4
      try dsimp only
      intro k hk1 hk2
      rw [hdfix k (by omega)]
      by_cases hkl : k < s.low
      · exact hc.b4 k hk1 hkl
      · exact hc.b2 k (by omega) (by omega)
    · -- p2
      try dsimp only
      intro k hk i' hi' j hj
      rw [hfixpos k (by omega)] at hi' ⊢
      rw [(hunch k (by omega)).2]
      by_cases hkl : k < s.low
      · have := hc.p2 k hkl i' hi' j hj
        have := hr.dle j hj
        linarith
      · have hkeq : k = s.low := by omega
        subst hkeq
        have hii : i' = i := by rw [hi0] at hi'; omega
        subst hii
        rw [hmin1]
        obtain ⟨m, hm, hmj⟩ := hsurj j hj
        by_cases hmu : m < s.up
        · have h1 := hdfix m hmu
          rw [hmj] at h1
          have h2 := hdlemin m hmu
          have h3 := hv2 j hj
          linarith
        · have := hr.relaxed hfn m (by omega) hm
          rw [hmj] at this
          linarith
    · try dsimp only
      intro j hj
      have := hr.dle j hj
      have := hc.pfree j hj
      linarith
    · -- p3
      try dsimp only
      intro m hm
      rcases hr.chg (r.colList m) (hr.perm.lt m hm) with ⟨h1, h2⟩ | ⟨h1, h2, h3⟩
      · -- an entry that the relaxation did not touch
        have hold : ∃ b, b < n ∧ r.colList m = s.colList b ∧ (m < s.up → b = m) ∧ (s.up ≤ m → s.up ≤ b) := by
          by_cases hmu : m < s.up
          · exact ⟨m, hm, hfixpos m hmu, fun _ => rfl, fun h => by omega⟩
          · obtain ⟨b, hb1, hb2, hb3⟩ := hr.same.reg m (by omega) hm
            exact ⟨b, hb2, hb3, fun h => by omega, fun _ => hb1⟩
        obtain ⟨b, hb, hmb, hb1, hb2⟩ := hold
        rw [h1, h2, hmb]
        rcases hc.p3 b hb with h4 | ⟨k, h4, h5, h6, h7⟩
        · exact Or.inl h4
        · right
          refine ⟨k, by omega, ?_, ?_, ?_⟩
          · by_cases hmu : m < s.up
            · have := hb1 hmu; omega
            · omega
          · rw [hfixpos k (by omega)]; exact h6
          · rw [hfixpos k (by omega), (hunch k (by omega)).2]; exact h7
      · right
        have hmge := hposge m hm h3
        refine ⟨s.low, by omega, by omega, ?_, ?_⟩
        · rw [hfixpos s.low hlowlt, h1]; exact hi0
        · rw [hfixpos s.low hlowlt, (hunch s.low hlowlt).2, hmin1, h1]
          rcases h2 with h2 | h2
          · rw [h2]; ring
          · rw [hfn] at h2; cases h2
    · -- the columns on the list are assigned
      try dsimp only
      intro k hk
      by_cases hku : k < s.up
      · rw [hfixpos k hku]; exact hmid.asg hnone k hku
      · exact (hr.scan k (by omega) hk).2
  · intro e hfe
    obtain ⟨helt, heun, hpe, hv2e, ⟨ae, hae1, hae2, hae3⟩, hmine⟩ := hr.fnd e hfe
    -- `e` is at no position of the list
    have hne : ∀ a, a < r.up → r.colList a ≠ e := by
      intro a ha heq
      have := hr.perm.inj a ae (by omega) hae2 (by rw [heq, hae3])
      omega
    have hD : ∀ j, j ≠ e → upd r.d e s.min j = r.d j := fun j hj => upd_ne _ _ hj
    have hDle : ∀ j, j < n → upd r.d e s.min j ≤ r.d j := by
      intro j hj
      by_cases hje : j = e
      · subst hje; rw [upd_same]; exact hmine
      · rw [hD j hje]
    have hDfix : ∀ a, a < s.up → upd r.d e s.min (r.colList a) = s.d (s.colList a) := by
      intro a ha
      rw [hD _ (hne a (by omega)), hdfix a ha]
    refine ⟨hr.perm, by dsimp only; have := hc.lastlow; omega, by dsimp only; omega, hpredlt, helt, heun, ⟨ae, by dsimp only; omega, hae2, hae3⟩, hasgLow, ?_, ?_, ?_, ?_,
      by dsimp only; rw [upd_same], ?_, ?_, ?_⟩
    · try dsimp only
      intro k hk
      exact hD _ (hne k (by have := hc.lastlow; omega))
    · try dsimp only
      intro k hk
      have hks : k < s.up := by have := hc.lastlow; omega
      rw [hDfix k hks]; exact hdlemin k hks
    · try dsimp only
      intro k hk1 hk2
      by_cases hke : r.colList k = e
      · rw [hke, upd_same]
      · rw [hD _ hke]
        by_cases hku : k < s.up
        · rw [hdfix k hku]
          by_cases hkl : k < s.low
          · exact le_of_eq (hc.b4 k hk1 hkl).symm
          · exact le_of_eq (hc.b2 k (by omega) hku).symm
        · by_cases hkr : k < r.up
          · exact le_of_eq (hr.scan k (by omega) hkr).1.symm
          · exact hr.ge k (by omega) hk2
    · try dsimp only
      intro k hk1 hk2
      rw [hDfix k (by omega)]
      by_cases hkl : k < s.low
      · exact hc.b4 k hk1 hkl
      · exact hc.b2 k (by omega) (by omega)
    · try dsimp only
      intro k hk i' hi' j hj
      have hks : k < s.low := by have := hc.lastlow; omega
      rw [hDfix k (by omega)]
      rw [hfixpos k (by omega)] at hi' ⊢
      have := hc.p2 k hks i' hi' j hj
      have := hr.dle j hj
      have := hDle j hj
      linarith
    · try dsimp only
      intro j hj
      have := hr.dle j hj
      have := hc.pfree j hj
      have := hDle j hj
      linarith
    · try dsimp only
      intro m hm hcase
      by_cases hme : r.colList m = e
      · right
        have hmge : s.up ≤ m := by
          by_contra hlt
          exact hne m (by omega) hme
        refine ⟨s.low, by omega, by omega, ?_, ?_⟩
        · rw [hfixpos s.low hlowlt, hme, hpe]; exact hi0
        · rw [hme, upd_same, hpe, hDfix s.low hlowlt, hmin1, hfixpos s.low hlowlt]
          linarith
      · have hml : m < s.low + 1 := by
          rcases hcase with h1 | h1
          · exact h1
          · exact absurd h1 hme
        have hmu : m < s.up := by omega
        rw [hD _ hme, hfixpos m hmu, (hunch m hmu).1, (hunch m hmu).2]
        rcases hc.p3 m hm with h4 | ⟨k, h4, h5, h6, h7⟩
        · exact Or.inl h4
        · right
          refine ⟨k, by omega, h5, ?_, ?_⟩
          · rw [hfixpos k (by omega)]; exact h6
          · rw [hDfix k (by omega), hfixpos k (by omega)]; exact h7

theorem djIter_good {n : Nat} (hn : n < 32768) {c : Nat → Nat → ℝ} {rs cs : Nat → Int} {v : Nat → ℝ} {F : Nat → Prop}
    (hInv : Inv n c rs cs v F) {fr : Nat} (hfr : F fr) (s : Dj ℝ) (h : DjInv n c cs v fr s) (B : Prop) :
    Good B (djIter n c cs v s) (fun s' =>
      (s'.found = none → DjInv n c cs v fr s' ∧ s'.low = s.low + 1) ∧
      (∀ e, s'.found = some e → DjPost n c cs v fr s' e (upd s'.d e s'.min))) := by
  unfold djIter
  rcases djScan_good hInv hfr s h B with ⟨s1, hs1, hmid⟩ | ⟨he, hb⟩
  swap
  · rw [he]; exact Or.inr ⟨rfl, hb⟩
  rw [hs1]
  simp only
  split
  · next e hf =>
    apply Good.ok
    refine ⟨fun hn' => by (rw [hf] at hn'; cases hn'), fun e' he' => ?_⟩
    rw [hf] at he'
    cases he'
    exact hmid.core.post_of_scan (hmid.fnd e hf)
  · next hf =>
    have := djRelax_good hn hInv s s1 hmid hf B
    rw [hmid.low] at this
    exact this

theorem djLoop_good {n : Nat} (hn : n < 32768) {c : Nat → Nat → ℝ} {rs cs : Nat → Int} {v : Nat → ℝ} {F : Nat → Prop}
    (hInv : Inv n c rs cs v F) {fr : Nat} (hfr : F fr) (B : Prop) :
    ∀ (fuel : Nat) (s : Dj ℝ), DjInv n c cs v fr s → (B → n - s.low + 1 ≤ fuel) →
      Good B (djLoop n c cs v fuel s) (fun p => DjPost n c cs v fr p.1 p.2 (upd p.1.d p.2 p.1.min)) := by
  intro fuel
  induction fuel with
  | zero =>
    intro s _ hB
    unfold djLoop
    exact Or.inr ⟨rfl, fun hb => by have := hB hb; omega⟩
  | succ fuel ih =>
    intro s h hB
    unfold djLoop
    rcases djIter_good hn hInv hfr s h B with ⟨s', hs', hnone, hsome⟩ | ⟨he, hb⟩
    swap
    · rw [he]; exact Or.inr ⟨rfl, hb⟩
    rw [hs']
    simp only
    split
    · next e hf => exact Good.ok (hsome e hf)
    · next hf =>
      obtain ⟨hinv', hlow'⟩ := hnone hf
      apply ih s' hinv'
      intro hb
      have := hB hb
      have h1 := hinv'.core.lowup
      have h2 := hinv'.core.upn
      omega

end Bpp.Mx.Lap
