import BppProofs.Lemmas.OptimSimplex
import BppProofs.Lemmas.OptimBacktrack
import BppModel.OptimLine
/-!
Helper lemmas for C10: searching along a direction (`DirectionFunction`, `lineMinimization`,
`lineSearch`) on the objective of the harness, over `ℝ`.

* `dirPoint x P Ξ`: the list `DirectionFunction::setParameters` sets the wrapped function to when its
  one-dimensional parameter holds `x` — every `P_j` moved to what `setValue(p_j + x ξ_j)` stores
  (`corr`: the request itself when the constraint accepts it, the auto-corrected value otherwise);
* `dirfn_det`: a `DirectionFunction` around the objective is a `Det` function with
  `g x = obj (matchPoint pt0 (dirPoint x P Ξ))`: the theorems about bracketing, Brent's method and the
  Newton backtracking search apply to it unchanged;
* `lineMinimization_spec`, `lineSearch_spec`: what the two searches return.
-/
set_option linter.unusedSectionVars false
namespace Bpp.Optim
open Bpp

/-! ### the list a `DirectionFunction` sets its function to -/

/-- `xt_` after `setParameters` with the one-dimensional parameter at `x` -/
noncomputable def dirPoint (x : ℝ) : PList ℝ → List ℝ → PList ℝ
  | q :: r, ξ :: ξs => ⟨q.name, reval q.p (corr q.p (q.p.value + x * ξ))⟩ :: dirPoint x r ξs
  | _, _ => []

theorem dirPoint_names (x : ℝ) : ∀ (P : PList ℝ) (Ξ : List ℝ), P.length ≤ Ξ.length → names (dirPoint x P Ξ) = names P := by
  intro P
  induction P with
  | nil => intro Ξ _; rfl
  | cons q r ih =>
    intro Ξ hl
    cases Ξ with
    | nil => simp at hl
    | cons ξ ξs =>
      rw [dirPoint, names_cons, names_cons, ih ξs (by simpa using hl)]

/-- the loop of `DirectionFunction::setParameters`: each `xt_j` is `P_j` up to a feasible value, so its
`setValue` behaves like that of `P_j` -/
theorem dirMove_spec (x : ℝ) : ∀ (P xt : PList ℝ) (Ξ : List ℝ) (xt' : PList ℝ), Good P → Like P xt →
    dirMove x P xt Ξ = .ok xt' → xt' = dirPoint x P Ξ ∧ Like P xt' ∧ P.length ≤ Ξ.length := by
  intro P
  induction P with
  | nil =>
    intro xt Ξ xt' _ hl h
    cases hl
    rw [dirMove] at h
    simp only [Except.ok.injEq] at h
    subst h
    exact ⟨rfl, List.Forall₂.nil, Nat.zero_le _⟩
  | cons pj pr ih =>
    intro xt Ξ xt' hg hl h
    have hgr : Good pr := fun q' hq' => hg q' (List.mem_cons_of_mem _ hq')
    have hgj := hg pj (List.mem_cons_self ..)
    cases hl with
    | @cons _ tj _ tr hab hr =>
      cases Ξ with
      | nil => rw [dirMove] at h; cases h
      | cons xj xr =>
        rw [dirMove] at h
        obtain ⟨hn, w, he, hw⟩ := hab
        rw [he, setValue_reval pj.p w _ hgj.1 hgj.2 hw] at h
        split at h
        · cases h
        · rename_i t' hs
          split at h
          · cases h
          · rename_i tr' hr'
            simp only [Except.ok.injEq] at h
            subst h
            obtain ⟨ih1, ih2, ih3⟩ := ih tr xr tr' hgr hr hr'
            obtain ⟨hform, hacc⟩ := setValue_ok_form hs hgj.2
            refine ⟨?_, List.Forall₂.cons ⟨hn, t'.value, hform, hacc⟩ ih2, by simp only [List.length_cons]; omega⟩
            rw [dirPoint, ← ih1]
            have hc : corr pj.p (pj.p.value + x * xj) = t'.value := corr_ok hs
            rw [hc, ← hform]
            show (⟨tj.name, t'⟩ : NP ℝ) :: tr' = _
            rw [hn]

/-! ### a `DirectionFunction` around the objective is a `Det` function -/

variable (obj : List ℝ → ℝ) (D : Deriv ℝ) (cap : Option Nat)

/-- the condition on the `DirectionFunction`: it moves `P` along `Ξ`, its copies `xt_` are `P` up to
feasible values, the wrapped function agrees with `pt0` outside the names of `P`, and once it has been
evaluated the wrapped function is where the one-dimensional parameter says -/
def DirInv (pt0 : List ℝ) (P : PList ℝ) (Ξ : List ℝ) (df : DirFn (Fn ℝ) ℝ) : Prop :=
  df.p = P ∧ df.xi = Ξ ∧ Like P df.xt ∧ df.inner.point.length = pt0.length ∧
  (∀ i, i ∉ names P → df.inner.point[i]? = pt0[i]?) ∧
  (∀ x, value0 df.params = some x → 0 < df.nbEval → df.inner.point = matchPoint pt0 (dirPoint x P Ξ))

/-- the condition on the list: the one-dimensional parameter "x" is a plain unconstrained parameter of
precision 0 -/
def XParam (pl : PList ℝ) : Prop := ∃ n w, pl = [⟨n, ⟨w, 0, none, false⟩⟩]

def DirJ (pt0 : List ℝ) (P : PList ℝ) (Ξ : List ℝ) (df : DirFn (Fn ℝ) ℝ) (pl : PList ℝ) : Prop :=
  DirInv pt0 P Ξ df ∧ XParam pl

/-- `DirJ`, and the function has been evaluated at least once -/
def DirJp (pt0 : List ℝ) (P : PList ℝ) (Ξ : List ℝ) (df : DirFn (Fn ℝ) ℝ) (pl : PList ℝ) : Prop :=
  (DirInv pt0 P Ξ df ∧ 0 < df.nbEval) ∧ XParam pl

/-- the objective along the direction -/
noncomputable def dirG (pt0 : List ℝ) (P : PList ℝ) (Ξ : List ℝ) (x : ℝ) : ℝ := obj (matchPoint pt0 (dirPoint x P Ξ))

theorem xparam_set (pl pl' : PList ℝ) (x : ℝ) (hp : XParam pl) (h : setValueAt pl 0 x = .ok pl') :
    XParam pl' ∧ value0 pl' = some x := by
  obtain ⟨n, w, rfl⟩ := hp
  obtain ⟨p', hs, hv, hp', hc', ha'⟩ := setValue_free (⟨w, 0, none, false⟩ : Param ℝ) x rfl rfl
  rw [setValueAt, hs] at h
  simp only [Except.ok.injEq] at h
  subst h
  refine ⟨⟨n, x, ?_⟩, by simp [value0, hv]⟩
  cases p'
  simp only at hv hp' hc' ha'
  subst hv hp' hc' ha'
  rfl

/-- `DirectionFunction::setParameters` -/
theorem dirfn_set (pt0 : List ℝ) (P : PList ℝ) (Ξ : List ℝ) (hg : Good P) (df df' : DirFn (Fn ℝ) ℝ) (pl : PList ℝ) (x : ℝ)
    (hJ : DirInv pt0 P Ξ df) (hx : value0 pl = some x)
    (h : df.setParameters (Fn.iface obj D cap) pl = .ok df') :
    DirInv pt0 P Ξ df' ∧ df'.params = pl ∧ 0 < df'.nbEval ∧ df'.inner.point = matchPoint pt0 (dirPoint x P Ξ) ∧
    P.length ≤ Ξ.length := by
  obtain ⟨hp, hxi, hlike, hlen, hfr, _⟩ := hJ
  unfold DirFn.setParameters at h
  simp only [hx] at h
  rw [hp, hxi] at h
  split at h
  · cases h
  · rename_i xt' hm
    obtain ⟨e1, e2, e3⟩ := dirMove_spec x P df.xt Ξ xt' hg hlike hm
    try simp only at h
    split at h
    · cases h
    · rename_i fn hsp
      simp only [Except.ok.injEq] at h
      subst h
      have hpt := iface_set_point obj D cap _ _ _ hsp
      have hnm : names xt' = names P := e2.names
      have hpt' : fn.point = matchPoint pt0 (dirPoint x P Ξ) := by
        rw [hpt, ← e1]
        exact matchPoint_congr _ _ _ hlen (fun i hi => hfr i (by rw [← hnm]; exact hi))
      refine ⟨⟨rfl, rfl, e2, ?_, ?_, ?_⟩, rfl, Nat.succ_pos _, hpt', e3⟩
      · show fn.point.length = _; rw [hpt', matchPoint_length]
      · intro i hi
        show fn.point[i]? = _
        rw [hpt']; exact matchPoint_frame _ _ _ (by rw [dirPoint_names x P Ξ e3]; exact hi)
      · intro y hy _
        show fn.point = _
        have : y = x := by
          have : value0 pl = some y := hy
          rw [hx] at this; exact (Option.some.inj this).symm
        rw [this]; exact hpt'

/-- `DirectionFunction::f` -/
theorem dirfn_f (pt0 : List ℝ) (P : PList ℝ) (Ξ : List ℝ) (hg : Good P) (df df' : DirFn (Fn ℝ) ℝ) (pl : PList ℝ) (x v : ℝ)
    (hJ : DirInv pt0 P Ξ df) (hx : value0 pl = some x)
    (h : (DirFn.iface (Fn.iface obj D cap)).f df pl = .ok (df', v)) :
    v = dirG obj pt0 P Ξ x ∧ DirInv pt0 P Ξ df' ∧ df'.params = pl ∧ 0 < df'.nbEval ∧
    df'.inner.point = matchPoint pt0 (dirPoint x P Ξ) ∧ P.length ≤ Ξ.length := by
  simp only [DirFn.iface] at h
  split at h
  · cases h
  · rename_i df1 hs
    simp only [Except.ok.injEq, Prod.mk.injEq] at h
    obtain ⟨rfl, rfl⟩ := h
    obtain ⟨a, b, c, d, e⟩ := dirfn_set obj D cap pt0 P Ξ hg df df1 pl x hJ hx hs
    exact ⟨by rw [iface_value, d]; rfl, a, b, c, d, e⟩

theorem dirfn_det_gen (pt0 : List ℝ) (P : PList ℝ) (Ξ : List ℝ) (hg : Good P) (c : Prop) :
    Det (DirFn.iface (Fn.iface obj D cap)) (dirG obj pt0 P Ξ)
      (fun df pl => (DirInv pt0 P Ξ df ∧ (c → 0 < df.nbEval)) ∧ XParam pl) := by
  constructor
  · intro fn pl x fn' pl' v hJ h
    unfold eval0 at h
    split at h
    · cases h
    · rename_i pl1 hs
      split at h
      · cases h
      · rename_i fn1 v1 hf
        simp only [Except.ok.injEq, Prod.mk.injEq] at h
        obtain ⟨rfl, rfl, rfl⟩ := h
        obtain ⟨hxp, hv0⟩ := xparam_set pl pl1 x hJ.2 hs
        obtain ⟨a, b, _, d, _⟩ := dirfn_f obj D cap pt0 P Ξ hg fn fn1 pl1 x v1 hJ.1.1 hv0 hf
        exact ⟨a, ⟨b, fun _ => d⟩, hxp⟩
  · intro fn pl fn' pl' h1 h2
    exact ⟨h2.1, h1.2⟩
  · intro fn pl x fn' pl' v hJ h
    unfold eval0 at h
    split at h
    · cases h
    · rename_i pl1 hs
      split at h
      · cases h
      · simp only [Except.ok.injEq, Prod.mk.injEq] at h
        obtain ⟨-, rfl, -⟩ := h
        exact ⟨x, (xparam_set pl pl1 x hJ.2 hs).2, rfl⟩
  · intro fn pl x fn' v hJ hx h
    obtain ⟨a, b, _, d, _⟩ := dirfn_f obj D cap pt0 P Ξ hg fn fn' pl x v hJ.1.1 hx h
    exact ⟨a, ⟨b, fun _ => d⟩, hJ.2⟩
  · intro fn pl x pl' hJ h
    obtain ⟨hxp, hv0⟩ := xparam_set pl pl' x hJ.2 h
    exact ⟨⟨hJ.1, hxp⟩, x, hv0, rfl⟩

/-- **a `DirectionFunction` around the objective of the harness is a `Det` function**: "set the
one-dimensional parameter to `x`, evaluate" computes the objective at `pt0` with every parameter of `P`
moved to what `setValue(p_j + x ξ_j)` stores -/
theorem dirfn_det (pt0 : List ℝ) (P : PList ℝ) (Ξ : List ℝ) (hg : Good P) :
    Det (DirFn.iface (Fn.iface obj D cap)) (dirG obj pt0 P Ξ) (DirJ pt0 P Ξ) := by
  have h := dirfn_det_gen obj D cap pt0 P Ξ hg False
  have e : (fun df pl => (DirInv pt0 P Ξ df ∧ (False → 0 < df.nbEval)) ∧ XParam pl) = DirJ pt0 P Ξ := by
    funext df pl; unfold DirJ; simp
  rw [e] at h; exact h

/-- the same, keeping track of "evaluated at least once" -/
theorem dirfn_det_pos (pt0 : List ℝ) (P : PList ℝ) (Ξ : List ℝ) (hg : Good P) :
    Det (DirFn.iface (Fn.iface obj D cap)) (dirG obj pt0 P Ξ) (DirJp pt0 P Ξ) := by
  have h := dirfn_det_gen obj D cap pt0 P Ξ hg True
  have e : (fun df pl => (DirInv pt0 P Ξ df ∧ (True → 0 < df.nbEval)) ∧ XParam pl) = DirJp pt0 P Ξ := by
    funext df pl; unfold DirJp; simp
  rw [e] at h; exact h

/-! ### `moveAlong` -/

theorem toAuto_of_auto (p : Param ℝ) (h : p.auto = true) : p.toAuto = p := by
  cases p; simp only [Param.toAuto] at *; subst h; rfl

/-- what a parameter stores when its `setValue` returns is what its auto-correcting copy stores -/
theorem corr_toAuto_of_ok {p p' : Param ℝ} {v : ℝ} (h : p.setValue v = .ok p') (hp : p.precision = 0) (hi : p.invOk = true) :
    corr p.toAuto v = p'.value := by
  cases ha : p.auto with
  | true => rw [toAuto_of_auto p ha]; exact corr_ok h
  | false =>
    unfold Param.setValue at h
    rw [ha] at h
    simp only [Bool.false_eq_true, if_false] at h
    rw [svb0 p v hp hi] at h
    split at h
    · rename_i hacc
      simp only [Except.ok.injEq] at h
      subst h
      exact corr_accepted p.toAuto v hp hi hacc
    · cases h

theorem applyPolicy_auto_cons (q : NP ℝ) (r : PList ℝ) :
    applyPolicy .auto (q :: r) = ⟨q.name, q.p.toAuto⟩ :: applyPolicy .auto r := rfl

/-- the final move of `lineMinimization` / `lineSearch`: the caller's parameters end at the values the
`DirectionFunction`'s auto-correcting copies hold for the same abscissa -/
theorem moveAlong_spec (y : ℝ) : ∀ (parameters pl : PList ℝ) (xi xi' : List ℝ), Good parameters →
    moveAlong y parameters xi = .ok (pl, xi') →
    Like parameters pl ∧
    pl.map (fun q => (q.name, q.p.value)) = (dirPoint y (applyPolicy .auto parameters) xi).map (fun q => (q.name, q.p.value)) ∧
    parameters.length ≤ xi.length := by
  intro parameters
  induction parameters with
  | nil =>
    intro pl xi xi' _ h
    rw [moveAlong] at h
    simp only [Except.ok.injEq, Prod.mk.injEq] at h
    obtain ⟨rfl, -⟩ := h
    exact ⟨List.Forall₂.nil, rfl, Nat.zero_le _⟩
  | cons q r ih =>
    intro pl xi xi' hg h
    have hgr : Good r := fun q' hq' => hg q' (List.mem_cons_of_mem _ hq')
    have hgq := hg q (List.mem_cons_self ..)
    cases xi with
    | nil => rw [moveAlong] at h; cases h
    | cons x xs =>
      rw [moveAlong] at h
      try simp only [] at h
      split at h
      · cases h
      · rename_i p' hs
        split at h
        · cases h
        · rename_i r' xs' hr
          simp only [Except.ok.injEq, Prod.mk.injEq] at h
          obtain ⟨rfl, -⟩ := h
          obtain ⟨ih1, ih2, ih3⟩ := ih r' xs xs' hgr hr
          obtain ⟨hform, hacc⟩ := setValue_ok_form hs hgq.2
          refine ⟨List.Forall₂.cons ⟨rfl, p'.value, hform, hacc⟩ ih1, ?_, by simp only [List.length_cons]; omega⟩
          rw [applyPolicy_auto_cons, dirPoint, List.map_cons, List.map_cons, ← ih2]
          have hc := corr_toAuto_of_ok hs hgq.1 hgq.2
          have e : q.p.toAuto.value + y * x = q.p.value + x * y := by
            show q.p.value + y * x = q.p.value + x * y
            ring
          rw [e]
          simp only [reval_value]
          rw [hc]

theorem dirPoint_zero : ∀ (P : PList ℝ) (Ξ : List ℝ), Good P → P.length ≤ Ξ.length →
    (dirPoint 0 P Ξ).map (fun q => (q.name, q.p.value)) = P.map (fun q => (q.name, q.p.value)) := by
  intro P
  induction P with
  | nil => intro Ξ _ _; rfl
  | cons q r ih =>
    intro Ξ hg hl
    cases Ξ with
    | nil => simp at hl
    | cons ξ ξs =>
      have hgq := hg q (List.mem_cons_self ..)
      rw [dirPoint, List.map_cons, List.map_cons, ih ξs (fun q' hq' => hg q' (List.mem_cons_of_mem _ hq')) (by simpa using hl)]
      have e : q.p.value + 0 * ξ = q.p.value := by ring
      rw [e]
      simp only [reval_value]
      rw [corr_accepted q.p q.p.value hgq.1 hgq.2 hgq.2]

/-! ### `lineMinimization` -/

/-- after `f(pl)` a `DirectionFunction` remembers `pl` and has counted the evaluation -/
theorem dirfn_f_params {F : Type} (I : FunI F ℝ) (df df' : DirFn F ℝ) (pl : PList ℝ) (v : ℝ)
    (h : (DirFn.iface I).f df pl = .ok (df', v)) : df'.params = pl ∧ 0 < df'.nbEval := by
  simp only [DirFn.iface] at h
  split at h
  · cases h
  · rename_i df1 hs
    simp only [Except.ok.injEq, Prod.mk.injEq] at h
    obtain ⟨rfl, -⟩ := h
    unfold DirFn.setParameters at hs
    simp only [] at hs
    split at hs
    · cases hs
    · split at hs
      · cases hs
      · split at hs
        · cases hs
        · simp only [Except.ok.injEq] at hs
          subst hs
          exact ⟨rfl, Nat.succ_pos _⟩

/-- `BrentOneDimension::optimize` on a `DirectionFunction` ends on an evaluation at the optimiser's
parameter -/
theorem brentOptimize_dirfn {F : Type} (I : FunI F ℝ) (fuel : Nat) (s s2 : St (DirFn F ℝ) (Brent ℝ) ℝ) (v : ℝ)
    (h : brentOptimize (DirFn.iface I) fuel s = .ok (s2, v)) : s2.fn.params = s2.core.params ∧ 0 < s2.fn.nbEval := by
  unfold brentOptimize at h
  split at h
  · cases h
  · split at h
    · cases h
    · rename_i fn2 v2 hf
      simp only [Except.ok.injEq, Prod.mk.injEq] at h
      obtain ⟨rfl, rfl⟩ := h
      exact dirfn_f_params I _ _ _ _ hf

theorem xParam_ok : XParam (xParam : PList ℝ) ∧ value0 (xParam : PList ℝ) = some 0 := by
  refine ⟨⟨0, 0, ?_⟩, ?_⟩
  · simp [xParam]
  · simp [xParam, value0]

theorem dirInit_inv (fn : Fn ℝ) (parameters : PList ℝ) (xi : List ℝ) (hg : Good parameters) :
    DirInv fn.point (applyPolicy .auto parameters) xi (DirFn.init fn .auto parameters xi) :=
  ⟨rfl, rfl, Like.refl (applyPolicy_good _ _ hg), rfl, fun _ _ => rfl, fun _ _ h => absurd h (Nat.lt_irrefl 0)⟩

/-- the objective along the direction at abscissa 0 is the objective at the caller's parameters -/
theorem dirG_zero (pt0 : List ℝ) (parameters : PList ℝ) (xi : List ℝ) (hg : Good parameters) (hl : parameters.length ≤ xi.length) :
    dirG obj pt0 (applyPolicy .auto parameters) xi 0 = obj (matchPoint pt0 parameters) := by
  unfold dirG
  rw [matchPoint_values _ _ _ (dirPoint_zero (applyPolicy .auto parameters) xi (applyPolicy_good _ _ hg)
    (by simpa [applyPolicy] using hl)), matchPoint_applyPolicy]

/-- **`OneDimensionOptimizationTools::lineMinimization`**: the parameters it returns are the caller's
up to feasible values, the function is left at them, and the objective there is not above the objective
at the parameters the search started from (Brent's method never loses its initial guess, the abscissa 0) -/
theorem lineMinimization_spec (fuel : Nat) (fn fn' : Fn ℝ) (parameters pl : PList ℝ) (xi xi' : List ℝ) (k : Nat)
    (hg : Good parameters)
    (h : lineMinimization (Fn.iface obj D cap) fuel fn parameters xi = .ok (fn', pl, xi', k)) :
    Like parameters pl ∧ fn'.point = matchPoint fn.point pl ∧
    obj fn'.point ≤ obj (matchPoint fn.point parameters) := by
  unfold lineMinimization at h
  simp only [] at h
  split at h
  · cases h
  · rename_i bod hinit
    split at h
    · cases h
    · rename_i bod2 v hopt
      split at h
      · cases h
      · rename_i xmin hxm
        split at h
        · cases h
        · rename_i pl0 xi0 hmv
          simp only [Except.ok.injEq, Prod.mk.injEq] at h
          obtain ⟨rfl, rfl, rfl, rfl⟩ := h
          have hgP : Good (applyPolicy .auto parameters) := applyPolicy_good _ _ hg
          have hdet := dirfn_det obj D cap fn.point (applyPolicy .auto parameters) xi hgP
          have hJ0 : DirJ fn.point (applyPolicy .auto parameters) xi (DirFn.init fn .auto parameters xi) xParam :=
            ⟨dirInit_inv fn parameters xi hg, xParam_ok.1⟩
          have hbi := brentInit_spec (DirFn.iface (Fn.iface obj D cap)) _ hdet fuel
            (lineBrent (DirFn.init fn .auto parameters xi)) bod xParam 0 hinit hJ0 xParam_ok.2
          obtain ⟨hle, -, x, hvx, hxv, hJ2⟩ := brentOptimize_spec _ _ hdet fuel _ bod bod2 v hbi hopt
          obtain ⟨hpar, hpos⟩ := brentOptimize_dirfn _ fuel bod bod2 v hopt
          have hxx : x = xmin := by
            rw [hpar, hxv] at hxm; exact Option.some.inj hxm
          subst hxx
          obtain ⟨m1, m2, m3⟩ := moveAlong_spec x parameters pl0 xi xi0 hg hmv
          have hpt : bod2.fn.inner.point = matchPoint fn.point (dirPoint x (applyPolicy .auto parameters) xi) :=
            hJ2.1.2.2.2.2.2 x hxm hpos
          have hpl : matchPoint fn.point (dirPoint x (applyPolicy .auto parameters) xi) = matchPoint fn.point pl0 :=
            (matchPoint_values _ _ _ m2).symm
          refine ⟨m1, hpt.trans hpl, ?_⟩
          have h0 := dirG_zero obj fn.point parameters xi hg m3
          have hv' : obj bod2.fn.inner.point = v := by rw [hvx, hpt]; rfl
          rw [hv', ← h0]
          exact le_trans hle (min_le_left _ _)

/-! ### `lineSearch` -/

/-- a step of the Newton backtracking search keeps the condition of a `Det` function, whatever the slope -/
theorem nback_keepsJ {F : Type} {J : F → PList ℝ → Prop} (I : FunI F ℝ) (g : ℝ → ℝ) (hd : Det I g J)
    (s s' : St F (NBack ℝ) ℝ) (v : ℝ) (hJ : J s.fn s.core.params) (h : nbackDoStep I s = .ok (s', v)) :
    J s'.fn s'.core.params := by
  unfold nbackDoStep at h
  simp only [] at h
  split at h
  · split at h
    · cases h
    · rename_i sa va he
      simp only [Except.ok.injEq, Prod.mk.injEq] at h
      obtain ⟨rfl, rfl⟩ := h
      exact (evalOwn_spec I g hd _ _ _ _ he hJ).2.1
  · split at h
    · cases h
    · rename_i sa f he
      have hJ1 := (evalOwn_spec I g hd _ _ _ _ he hJ).2.1
      split at h
      · simp only [Except.ok.injEq, Prod.mk.injEq] at h
        obtain ⟨rfl, rfl⟩ := h
        exact hJ1
      · split at h
        · simp only [Except.ok.injEq, Prod.mk.injEq] at h
          obtain ⟨rfl, rfl⟩ := h
          exact hJ1
        · simp only [Except.ok.injEq, Prod.mk.injEq] at h
          obtain ⟨rfl, rfl⟩ := h
          exact hJ1

theorem nback_step_keepsJ {F : Type} {J : F → PList ℝ → Prop} (I : FunI F ℝ) (g : ℝ → ℝ) (hd : Det I g J)
    (s s' : St F (NBack ℝ) ℝ) (v : ℝ) (hJ : J s.fn s.core.params) (h : (nbackAlgo I).step s = .ok (s', v)) :
    J s'.fn s'.core.params := by
  obtain ⟨s1, hd1, hc⟩ := step_cases _ s h
  have h1 := nback_keepsJ I g hd s s1 v hJ hd1
  rcases hc with ⟨_, rfl⟩ | ⟨_, rfl⟩
  · exact h1
  · exact h1

/-- **`OneDimensionOptimizationTools::lineSearch`** (Newton backtracking along the direction): the
parameters it returns are the caller's up to feasible values, and the function is left at them.  (No
descent claim: the search may end on its last trial, and its acceptance test accepts an increase when
the slope it is given is positive; `BfgsMultiDimensions::doStep` checks the value itself.) -/
theorem lineSearch_spec (fuel : Nat) (fn fn' : Fn ℝ) (parameters pl : PList ℝ) (xi gradient xi' : List ℝ) (k : Nat)
    (hg : Good parameters)
    (h : lineSearch (Fn.iface obj D cap) fuel fn parameters xi gradient = .ok (fn', pl, xi', k)) :
    Like parameters pl ∧ fn'.point = matchPoint fn.point pl := by
  unfold lineSearch at h
  simp only [] at h
  split at h
  · cases h
  · rename_i nb hinit
    split at h
    · cases h
    · rename_i nb2 v hopt
      split at h
      · cases h
      · rename_i xmin hxm
        split at h
        · cases h
        · rename_i pl0 xi0 hmv
          simp only [Except.ok.injEq, Prod.mk.injEq] at h
          obtain ⟨rfl, rfl, rfl, rfl⟩ := h
          have hgP : Good (applyPolicy .auto parameters) := applyPolicy_good _ _ hg
          have hdet := dirfn_det_pos obj D cap fn.point (applyPolicy .auto parameters) xi hgP
          -- init: the first evaluation
          have h1 : DirJp fn.point (applyPolicy .auto parameters) xi nb.fn nb.core.params := by
            unfold Algo.init at hinit
            simp only [] at hinit
            split at hinit
            · cases hinit
            · rename_i sa hdi
              simp only [Except.ok.injEq] at hinit
              change nbackDoInit _ _ xParam = .ok sa at hdi
              unfold nbackDoInit at hdi
              split at hdi
              · cases hdi
              · simp only [] at hdi
                split at hdi
                · cases hdi
                · rename_i df0 v0 hf0
                  simp only [Except.ok.injEq] at hdi
                  obtain ⟨-, b, -, d, -⟩ := dirfn_f obj D cap fn.point _ xi hgP _ df0 _ 0 v0
                    (dirInit_inv fn parameters xi hg) xParam_ok.2 hf0
                  rw [← hinit, ← hdi]
                  exact ⟨⟨b, d⟩, xParam_ok.1⟩
          -- the loop
          have h2 : DirJp fn.point (applyPolicy .auto parameters) xi nb2.fn nb2.core.params := by
            unfold Algo.optimize at hopt
            split at hopt
            · cases hopt
            · split at hopt
              · cases hopt
              · rename_i sL hl
                simp only [Except.ok.injEq, Prod.mk.injEq] at hopt
                obtain ⟨rfl, -⟩ := hopt
                refine loop_invariant _ (fun u => DirJp fn.point (applyPolicy .auto parameters) xi u.fn u.core.params)
                  (fun u u' w hu _ hst => nback_step_keepsJ _ _ hdet u u' w hu hst)
                  (fun u hu => hu) fuel _ _ ?_ hl
                exact h1
          obtain ⟨m1, m2, m3⟩ := moveAlong_spec xmin parameters pl0 xi xi0 hg hmv
          have hpt : nb2.fn.inner.point = matchPoint fn.point (dirPoint xmin (applyPolicy .auto parameters) xi) :=
            h2.1.1.2.2.2.2.2 xmin hxm h2.1.2
          exact ⟨m1, hpt.trans (matchPoint_values _ _ _ m2).symm⟩

/-! ### conditional descent of `lineSearch` -/

theorem evalOwn_dirfn_params {F τ : Type} (I : FunI F ℝ) (s s' : St (DirFn F ℝ) τ ℝ) (x v : ℝ)
    (h : evalOwn (DirFn.iface I) s x = .ok (s', v)) : s'.fn.params = s'.core.params := by
  unfold evalOwn eval0 at h
  split at h
  · cases h
  · rename_i fn1 pl1 v1 he
    simp only [Except.ok.injEq, Prod.mk.injEq] at h
    obtain ⟨rfl, -⟩ := h
    split at he
    · cases he
    · split at he
      · cases he
      · rename_i fn2 v2 hf
        simp only [Except.ok.injEq, Prod.mk.injEq] at he
        obtain ⟨rfl, rfl, -⟩ := he
        exact (dirfn_f_params I _ _ _ _ hf).1

/-- after a step of the backtracking search on a `DirectionFunction`, the function remembers the
optimiser's list -/
theorem nbackDoStep_dirfn_params {F : Type} (I : FunI F ℝ) (s s' : St (DirFn F ℝ) (NBack ℝ) ℝ) (v : ℝ)
    (h : nbackDoStep (DirFn.iface I) s = .ok (s', v)) : s'.fn.params = s'.core.params := by
  unfold nbackDoStep at h
  simp only [] at h
  split at h
  · split at h
    · cases h
    · rename_i sa va he
      simp only [Except.ok.injEq, Prod.mk.injEq] at h
      obtain ⟨rfl, -⟩ := h
      exact evalOwn_dirfn_params I s sa _ va he
  · split at h
    · cases h
    · rename_i sa f he
      have hp := evalOwn_dirfn_params I _ _ _ _ he
      repeat' (split at h)
      all_goals
        simp only [Except.ok.injEq, Prod.mk.injEq] at h
        obtain ⟨rfl, -⟩ := h
        exact hp

/-- **conditional descent of `lineSearch`**: when the slope `xi · gradient` handed to the Newton
backtracking search is that of a descent direction (`≤ 0`) and the search ends with its tolerance flag
set (a trial was accepted, or it gave up and went back to the step length 0), the objective at the
point the function is left at is not above the objective at the parameters the search started from.
(Without the flag — the search stopped by its cap of 10000 steps — it reports its last trial; for a
positive slope the acceptance test accepts an increase: see `BfgsExample` in `OptimLineOpt.lean`.) -/
theorem lineSearch_descent (fuel : Nat) (fn fn' : Fn ℝ) (parameters pl : PList ℝ) (xi gradient xi' : List ℝ) (k : Nat)
    (hg : Good parameters) (hslope : dotFrom (0 : ℝ) xi gradient ≤ 0)
    (h : lineSearch (Fn.iface obj D cap) fuel fn parameters xi gradient = .ok (fn', pl, xi', k))
    (htol : ∀ nb nb2 v,
      (nbackAlgo (DirFn.iface (Fn.iface obj D cap))).init
        (lineNBack (DirFn.init fn .auto parameters xi) (dotFrom Scalar.zero xi gradient) (lsTest Scalar.zero parameters xi)) xParam = .ok nb →
      (nbackAlgo (DirFn.iface (Fn.iface obj D cap))).optimize fuel nb = .ok (nb2, v) → nb2.core.tol = true) :
    obj fn'.point ≤ obj (matchPoint fn.point parameters) := by
  unfold lineSearch at h
  simp only [] at h
  split at h
  · cases h
  · rename_i nb hinit
    split at h
    · cases h
    · rename_i nb2 v hopt
      have htol2 := htol nb nb2 v hinit hopt
      split at h
      · cases h
      · rename_i xmin hxm
        split at h
        · cases h
        · rename_i pl0 xi0 hmv
          simp only [Except.ok.injEq, Prod.mk.injEq] at h
          obtain ⟨rfl, rfl, rfl, rfl⟩ := h
          have hgP : Good (applyPolicy .auto parameters) := applyPolicy_good _ _ hg
          have hdet := dirfn_det_pos obj D cap fn.point (applyPolicy .auto parameters) xi hgP
          have hsl0 : dotFrom (Scalar.zero : ℝ) xi gradient ≤ 0 := by
            rw [ScalarReal.zero_eq]; exact hslope
          -- init
          have h1 : NBack.Inv (DirJp fn.point (applyPolicy .auto parameters) xi)
              (dirG obj fn.point (applyPolicy .auto parameters) xi 0) (dotFrom Scalar.zero xi gradient) nb ∧
              nb.fn.params = nb.core.params := by
            unfold Algo.init at hinit
            simp only [] at hinit
            split at hinit
            · cases hinit
            · rename_i sa hdi
              simp only [Except.ok.injEq] at hinit
              change nbackDoInit _ _ xParam = .ok sa at hdi
              unfold nbackDoInit at hdi
              split at hdi
              · cases hdi
              · simp only [] at hdi
                split at hdi
                · cases hdi
                · rename_i df0 v0 hf0
                  simp only [Except.ok.injEq] at hdi
                  obtain ⟨a, b, c, d, -⟩ := dirfn_f obj D cap fn.point _ xi hgP _ df0 _ 0 v0
                    (dirInit_inv fn parameters xi hg) xParam_ok.2 hf0
                  rw [← hinit, ← hdi]
                  refine ⟨⟨?_, ⟨⟨b, d⟩, xParam_ok.1⟩, a, rfl⟩, c⟩
                  show (0 : ℝ) < Scalar.one
                  rw [ScalarReal.one_eq]; norm_num
          -- the loop
          unfold Algo.optimize at hopt
          split at hopt
          · cases hopt
          · split at hopt
            · cases hopt
            · rename_i sL hl
              simp only [Except.ok.injEq, Prod.mk.injEq] at hopt
              obtain ⟨rfl, -⟩ := hopt
              obtain ⟨m1, m2, m3⟩ := moveAlong_spec xmin parameters pl0 xi xi0 hg hmv
              have h0 := dirG_zero obj fn.point parameters xi hg m3
              let R : St (DirFn (Fn ℝ) ℝ) (NBack ℝ) ℝ → Prop := fun u =>
                NBack.Inv (DirJp fn.point (applyPolicy .auto parameters) xi)
                  (dirG obj fn.point (applyPolicy .auto parameters) xi 0) (dotFrom Scalar.zero xi gradient) u ∧
                u.fn.params = u.core.params
              have hstepinv : ∀ (u u' : St (DirFn (Fn ℝ) ℝ) (NBack ℝ) ℝ) (w : ℝ), R u → Guard u →
                  (nbackAlgo (DirFn.iface (Fn.iface obj D cap))).step u = .ok (u', w) → R u' := by
                intro u u' w hu _ hst
                obtain ⟨u1, hd1, hc⟩ := step_cases _ u hst
                have hA := (nbackDoStep_spec _ _ hdet _ _ hsl0 u u1 w hu.1 hd1).1
                have hP := nbackDoStep_dirfn_params _ u u1 w hd1
                rcases hc with ⟨_, rfl⟩ | ⟨_, rfl⟩
                · exact ⟨⟨hA.alam, hA.j, hA.fold, hA.slope⟩, hP⟩
                · exact ⟨⟨hA.alam, hA.j, hA.fold, hA.slope⟩, hP⟩
              have hbump : ∀ u : St (DirFn (Fn ℝ) ℝ) (NBack ℝ) ℝ, R u → R (bump u) :=
                fun u hu => ⟨⟨hu.1.alam, hu.1.j, hu.1.fold, hu.1.slope⟩, hu.2⟩
              have hstart : R ({ nb with core := { nb.core with tol := false, nbEval := 1 } } : St (DirFn (Fn ℝ) ℝ) (NBack ℝ) ℝ) :=
                ⟨⟨h1.1.alam, h1.1.j, h1.1.fold, h1.1.slope⟩, h1.2⟩
              rcases loop_last_step_inv _ R hstepinv hbump fuel _ _ hstart hl with rfl | ⟨sb, sa2, w, hib, hgb, hst, rfl⟩
              · simp at htol2
              · obtain ⟨u1, hd1, hc⟩ := step_cases _ sb hst
                obtain ⟨hA, ⟨x, hvx, hxst⟩, hdesc, -, -⟩ := nbackDoStep_spec _ _ hdet _ _ hsl0 sb u1 w hib.1 hd1
                have hP := nbackDoStep_dirfn_params _ sb u1 w hd1
                rcases hc with ⟨ht1, rfl⟩ | ⟨ht1, rfl⟩
                · have hxm' : value0 u1.fn.params = some xmin := hxm
                  rw [hP, hxst] at hxm'
                  have hxx : x = xmin := Option.some.inj hxm'
                  subst hxx
                  have hpt : u1.fn.inner.point = matchPoint fn.point (dirPoint x (applyPolicy .auto parameters) xi) :=
                    hA.j.1.1.2.2.2.2.2 x (by rw [hP]; exact hxst) hA.j.1.2
                  have hv' : obj u1.fn.inner.point = w := by rw [hvx, hpt]; rfl
                  show obj u1.fn.inner.point ≤ _
                  rw [hv', ← h0]
                  rcases hdesc ht1 hgb.2 with hd | hd
                  · exact hd
                  · exact le_of_eq hd
                · exfalso
                  have : (bump ({ ((nbackAlgo (DirFn.iface (Fn.iface obj D cap))).stop { u1 with core := { u1.core with cur := w } }).1 with
                      core := { ((nbackAlgo (DirFn.iface (Fn.iface obj D cap))).stop { u1 with core := { u1.core with cur := w } }).1.core with
                        tol := ((nbackAlgo (DirFn.iface (Fn.iface obj D cap))).stop { u1 with core := { u1.core with cur := w } }).2 } } :
                      St (DirFn (Fn ℝ) ℝ) (NBack ℝ) ℝ)).core.tol = false := rfl
                  rw [this] at htol2; cases htol2

end Bpp.Optim
