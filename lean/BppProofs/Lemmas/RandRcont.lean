import BppModel.Rand
import Mathlib.Tactic.Linarith
import Mathlib.Tactic.Ring
import Mathlib.Algebra.Order.Ring.Int
import Mathlib.Algebra.BigOperators.Group.List.Basic
import Mathlib.Algebra.Order.BigOperators.Group.List
/-! Lemmas for C18: the integer book-keeping of `rcont2` (AS159) keeps the margins, for every
choice the inverse-cdf walk can make. -/
namespace Bpp.Rand
open Bpp

theorem canIncr_bound (ia id : Int) : ∀ (n : Nat) (a : Int), a ≤ ia → a ≤ id → canIncr ia id a n = true →
    a + n ≤ ia ∧ a + n ≤ id
  | 0, a, h1, h2, _ => by simp [h1, h2]
  | n + 1, a, h1, h2, h => by
    simp only [canIncr, Bool.and_eq_true, decide_eq_true_eq] at h
    obtain ⟨hne, hrec⟩ := h
    have h3 : a ≠ id := by intro h; subst h; simp at hne
    have h4 : a ≠ ia := by intro h; subst h; simp at hne
    have := canIncr_bound ia id n (a + 1) (by omega) (by omega) hrec
    push_cast; omega

theorem canDecr_bound (ii : Int) : ∀ (n : Nat) (a : Int), 0 ≤ a → 0 ≤ ii + a → canDecr ii a n = true →
    0 ≤ a - n ∧ 0 ≤ ii + a - n
  | 0, a, h1, h2, _ => by simp [h1, h2]
  | n + 1, a, h1, h2, h => by
    simp only [canDecr, Bool.and_eq_true, decide_eq_true_eq] at h
    obtain ⟨hne, hrec⟩ := h
    have h3 : a ≠ 0 := by intro h; subst h; simp at hne
    have h4 : ii + a ≠ 0 := by intro h; rw [h] at hne; simp at hne
    have := canDecr_bound ii n (a - 1) (by omega) (by omega) hrec
    push_cast; omega

/-- every value the walk can reach from a starting value inside the support lies in the support
`max(0, -ii) ≤ v ≤ min(ia, id)` -/
theorem canReach_bound {ia id ii s v : Int} (h0 : 0 ≤ s) (h1 : 0 ≤ ii + s) (h2 : s ≤ ia) (h3 : s ≤ id)
    (h : canReach ia id ii s v = true) : 0 ≤ v ∧ 0 ≤ ii + v ∧ v ≤ ia ∧ v ≤ id := by
  unfold canReach at h
  split at h
  · rename_i hsv
    have := canIncr_bound ia id _ s h2 h3 h
    have e : ((v - s).toNat : Int) = v - s := Int.toNat_of_nonneg (by omega)
    rw [e] at this; omega
  · rename_i hsv
    have := canDecr_bound ii _ s h0 h1 h
    have e : ((s - v).toNat : Int) = s - v := Int.toNat_of_nonneg (by omega)
    rw [e] at this; omega

/-- the repaired starting value `⌊ia·id/ie + 1/2⌋` lies in the support of the cell -/
theorem startCell_bound {ia id ie : Int} (ha : 0 ≤ ia) (hd : 0 ≤ id) (hie : 0 < ie) (hae : ia ≤ ie) (hde : id ≤ ie) :
    0 ≤ startCell ia id ie ∧ ia + id - ie ≤ startCell ia id ie ∧ startCell ia id ie ≤ ia ∧ startCell ia id ie ≤ id := by
  unfold startCell
  have h2 : (0 : Int) < 2 * ie := by omega
  refine ⟨Int.ediv_nonneg (by nlinarith) (by omega), ?_, ?_, ?_⟩
  · apply Int.le_ediv_of_mul_le h2
    nlinarith [mul_nonneg (sub_nonneg.mpr hae) (sub_nonneg.mpr hde)]
  · have : (2 * ia * id + ie) / (2 * ie) < ia + 1 := by
      apply Int.ediv_lt_of_lt_mul h2
      nlinarith [mul_nonneg ha (sub_nonneg.mpr hde)]
    omega
  · have : (2 * ia * id + ie) / (2 * ie) < id + 1 := by
      apply Int.ediv_lt_of_lt_mul h2
      nlinarith [mul_nonneg hd (sub_nonneg.mpr hae)]
    omega
theorem sum_nonneg_le {l : List Int} (h : ∀ x ∈ l, 0 ≤ x) : ∀ x ∈ l, x ≤ l.sum := by
  induction l with
  | nil => intro x hx; cases hx
  | cons y ys ih =>
    intro x hx
    have hys : ∀ z ∈ ys, 0 ≤ z := fun z hz => h z (List.mem_cons_of_mem _ hz)
    have h0 : 0 ≤ ys.sum := List.sum_nonneg hys
    have hy : 0 ≤ y := h y List.mem_cons_self
    rw [List.sum_cons]
    rcases List.mem_cons.mp hx with rfl | hx
    · omega
    · have := ih hys x hx; omega

theorem all_zero_of_sum_le_zero {l : List Int} (h : ∀ x ∈ l, 0 ≤ x) (hs : l.sum ≤ 0) : ∀ x ∈ l, x = 0 := by
  intro x hx
  have := sum_nonneg_le h x hx
  have := h x hx
  omega

/-- what one pass over the columns guarantees, for every sequence of choices -/
structure RowSpec (ia ic : Int) (jwork : List Int) (o : RowOut) : Prop where
  lenC : o.cells.length = jwork.length
  lenJ : o.jwork.length = jwork.length
  cellsNonneg : ∀ x ∈ o.cells, 0 ≤ x
  jworkNonneg : ∀ x ∈ o.jwork, 0 ≤ x
  split : List.zipWith (· + ·) o.cells o.jwork = jwork
  rowSum : o.cells.sum + o.ia = ia
  iaNonneg : 0 ≤ o.ia
  iaLe : o.ia ≤ ic - jwork.sum
  sumJ : o.jwork.sum = jwork.sum - o.cells.sum
  ibEq : jwork ≠ [] → o.ib = o.jwork.getLastD 0 + (ic - jwork.sum) - o.ia

theorem rowLoop_spec (ntot : Int) : ∀ (jwork picks : List Int) (ia ic ib : Int) (o : RowOut),
    rowLoop startCell ntot ia ic ib jwork picks = .ok o →
    0 ≤ ia → (∀ x ∈ jwork, 0 ≤ x) → jwork.sum ≤ ic → ia ≤ ic → RowSpec ia ic jwork o
  | [], picks, ia, ic, ib, o, h, h0, _, hs, hle => by
    simp only [rowLoop, Except.ok.injEq] at h; subst h
    simp only [List.sum_nil] at hs
    exact ⟨rfl, rfl, by simp, by simp, rfl, by simp, h0, by simpa using hle, by simp, by simp⟩
  | id :: rest, picks, ia, ic, ib, o, h, h0, hj, hs, hle => by
    have hid : 0 ≤ id := hj id List.mem_cons_self
    have hrest : ∀ x ∈ rest, 0 ≤ x := fun x hx => hj x (List.mem_cons_of_mem _ hx)
    have hrs : 0 ≤ rest.sum := List.sum_nonneg hrest
    rw [List.sum_cons] at hs
    unfold rowLoop at h
    dsimp only at h
    split at h
    · -- ie = 0: the row is full
      rename_i hie
      simp only [Except.ok.injEq] at h; subst h
      have hia : ia = 0 := by omega
      have hid0 : id = 0 := by omega
      have hr0 : ∀ x ∈ rest, x = 0 := all_zero_of_sum_le_zero hrest (by omega)
      have hrs0 : rest.sum = 0 := by
        have : rest.sum ≤ 0 := by omega
        omega
      subst hia hid0 hie
      refine ⟨by simp, rfl, by simp, hj, ?_, by simp, le_refl _, by simp; omega, by simp, ?_⟩
      · simp only [List.map_cons, List.zipWith_cons_cons, zero_add, List.cons.injEq, true_and]
        clear hs hj hrs hrs0 hle h0 hid
        induction rest with
        | nil => rfl
        | cons y ys ih =>
          simp only [List.map_cons, List.zipWith_cons_cons, zero_add, List.cons.injEq, true_and]
          exact ih (fun x hx => hrest x (List.mem_cons_of_mem _ hx)) (fun x hx => hr0 x (List.mem_cons_of_mem _ hx))
      · intro _
        have : (0 :: rest).getLastD 0 = 0 := by
          cases hl : (0 :: rest).getLast? with
          | none => simp at hl
          | some z =>
            have hz : z ∈ (0 :: rest) := List.mem_of_getLast? hl
            have : z = 0 := by
              rcases List.mem_cons.mp hz with h | h
              · exact h
              · exact hr0 z h
            rw [List.getLastD_eq_getLast?, hl, this]; rfl
        rw [this]; simp [hrs0]
    · rename_i hie
      have hiepos : 0 < ic := by omega
      have hde : id ≤ ic := by omega
      obtain ⟨s0, s1, s2, s3⟩ := startCell_bound h0 hid hiepos hle hde
      split at h
      · cases h
      · cases picks with
        | nil => cases h
        | cons v ps =>
          dsimp only at h
          split at h
          · cases h
          · rename_i hreach
            have hreach' : canReach ia id (ic - ia - id) (startCell ia id ic) v = true := by simpa using hreach
            obtain ⟨v0, v1, v2, v3⟩ := canReach_bound (ii := ic - ia - id) s0 (by omega) s2 s3 hreach'
            cases hrec : rowLoop startCell ntot (ia - v) (ic - id) (ic - ia) rest ps with
            | error e => rw [hrec] at h; cases h
            | ok o' =>
              rw [hrec] at h
              simp only [Except.ok.injEq] at h; subst h
              have sp := rowLoop_spec ntot rest ps (ia - v) (ic - id) (ic - ia) o' hrec (by omega) hrest (by omega) (by omega)
              refine ⟨by simp [sp.lenC], by simp [sp.lenJ], ?_, ?_, ?_, ?_, sp.iaNonneg, ?_, ?_, ?_⟩
              · intro x hx
                rcases List.mem_cons.mp hx with rfl | hx
                · exact v0
                · exact sp.cellsNonneg x hx
              · intro x hx
                rcases List.mem_cons.mp hx with rfl | hx
                · omega
                · exact sp.jworkNonneg x hx
              · simp only [List.zipWith_cons_cons, sp.split, List.cons.injEq, and_true]; omega
              · have := sp.rowSum; simp only [List.sum_cons]; omega
              · have := sp.iaLe; simp only [List.sum_cons]; omega
              · have := sp.sumJ; simp only [List.sum_cons]; omega
              · intro _
                simp only [List.sum_cons]
                by_cases hre : rest = []
                · subst hre
                  have hj0 : o'.jwork = [] := List.length_eq_zero_iff.mp (by simpa using sp.lenJ)
                  have hc0 : o'.cells = [] := List.length_eq_zero_iff.mp (by simpa using sp.lenC)
                  simp only [rowLoop, Except.ok.injEq] at hrec
                  subst hrec
                  simp
                · have hne : o'.jwork ≠ [] := by
                    intro h0; have := sp.lenJ; rw [h0] at this; simp at this
                    exact hre (List.length_eq_zero_iff.mp this.symm)
                  have := sp.ibEq hre
                  rw [this]
                  have hl : ((id - v) :: o'.jwork).getLastD 0 = o'.jwork.getLastD 0 := by
                    cases hj' : o'.jwork with
                    | nil => exact absurd hj' hne
                    | cons a as => simp [List.getLastD]
                  rw [hl]; omega
/-- the repaired code never reads `fact_` out of bounds, whatever the choices -/
theorem rowLoop_no_ub (ntot : Int) : ∀ (jwork picks : List Int) (ia ic ib : Int),
    0 ≤ ia → (∀ x ∈ jwork, 0 ≤ x) → jwork.sum ≤ ic → ia ≤ ic → ic ≤ ntot →
    rowLoop startCell ntot ia ic ib jwork picks ≠ .error .ub
  | [], picks, ia, ic, ib, _, _, _, _, _ => by simp [rowLoop]
  | id :: rest, picks, ia, ic, ib, h0, hj, hs, hle, hn => by
    have hid : 0 ≤ id := hj id List.mem_cons_self
    have hrest : ∀ x ∈ rest, 0 ≤ x := fun x hx => hj x (List.mem_cons_of_mem _ hx)
    have hrs : 0 ≤ rest.sum := List.sum_nonneg hrest
    rw [List.sum_cons] at hs
    unfold rowLoop
    dsimp only
    split
    · simp
    · rename_i hie
      have hiepos : 0 < ic := by omega
      have hde : id ≤ ic := by omega
      obtain ⟨s0, s1, s2, s3⟩ := startCell_bound h0 hid hiepos hle hde
      have hf : factReadsOk ntot ia (ic - ia) (ic - id) id ic (ic - ia - id) (startCell ia id ic) = true := by
        simp only [factReadsOk, List.all_cons, List.all_nil, Bool.and_true, Bool.and_eq_true, decide_eq_true_eq]
        omega
      simp only [hf, Bool.not_true, Bool.false_eq_true, if_false]
      cases picks with
      | nil => simp
      | cons v ps =>
        dsimp only
        split
        · simp
        · rename_i hreach
          have hreach' : canReach ia id (ic - ia - id) (startCell ia id ic) v = true := by simpa using hreach
          obtain ⟨v0, v1, v2, v3⟩ := canReach_bound (ii := ic - ia - id) s0 (by omega) s2 s3 hreach'
          have := rowLoop_no_ub ntot rest ps (ia - v) (ic - id) (ic - ia) (by omega) hrest (by omega) (by omega) (by omega)
          cases hrec : rowLoop startCell ntot (ia - v) (ic - id) (ic - ia) rest ps with
          | error e => rw [hrec] at this; simpa using this
          | ok o' => simp

/-! vectors of column totals -/
def vadd (a b : List Int) : List Int := List.zipWith (· + ·) a b

theorem vadd_assoc : ∀ (a b c : List Int), vadd (vadd a b) c = vadd a (vadd b c)
  | [], _, _ => by simp [vadd]
  | _ :: _, [], _ => by simp [vadd]
  | _ :: _, _ :: _, [] => by simp [vadd]
  | x :: a, y :: b, z :: c => by
    have := vadd_assoc a b c
    simp only [vadd, List.zipWith_cons_cons, List.cons.injEq] at this ⊢
    exact ⟨by ring, this⟩

theorem vadd_zero_left : ∀ (b : List Int), vadd (List.replicate b.length 0) b = b
  | [] => rfl
  | y :: b => by
    have := vadd_zero_left b
    simp only [vadd, List.length_cons, List.replicate_succ, List.zipWith_cons_cons, zero_add, List.cons.injEq, true_and] at this ⊢
    exact this

theorem vadd_zero_right (b : List Int) : vadd b (List.replicate b.length 0) = b := by
  induction b with
  | nil => rfl
  | cons y b ih =>
    simp only [vadd, List.length_cons, List.replicate_succ, List.zipWith_cons_cons, add_zero, List.cons.injEq, true_and] at ih ⊢
    exact ih

theorem vadd_length (a b : List Int) (h : a.length = b.length) : (vadd a b).length = b.length := by
  simp [vadd, h]

theorem colSums_cons (n : Nat) (r : List Int) (t : List (List Int)) : colSums n (r :: t) = vadd r (colSums n t) := rfl

theorem colSums_length (n : Nat) : ∀ (t : List (List Int)), (∀ r ∈ t, r.length = n) → (colSums n t).length = n
  | [], _ => by simp [colSums]
  | r :: t, h => by
    rw [colSums_cons, vadd_length]
    · exact colSums_length n t (fun x hx => h x (List.mem_cons_of_mem _ hx))
    · rw [colSums_length n t (fun x hx => h x (List.mem_cons_of_mem _ hx))]; exact h r List.mem_cons_self

theorem colSums_snoc (n : Nat) (r : List Int) (hr : r.length = n) : ∀ (t : List (List Int)),
    colSums n (t ++ [r]) = vadd (colSums n t) r
  | [] => by
    show vadd r (List.replicate n 0) = vadd (List.replicate n 0) r
    rw [← hr, vadd_zero_left, vadd_zero_right]
  | a :: t => by
    show vadd a (colSums n (t ++ [r])) = vadd (vadd a (colSums n t)) r
    rw [colSums_snoc n r hr t, vadd_assoc]

theorem sum_vadd : ∀ (a b : List Int), a.length = b.length → (vadd a b).sum = a.sum + b.sum
  | [], [], _ => by simp [vadd]
  | [], _ :: _, h => by simp at h
  | _ :: _, [], h => by simp at h
  | x :: a, y :: b, h => by
    have := sum_vadd a b (by simpa using h)
    simp only [vadd, List.zipWith_cons_cons, List.sum_cons] at this ⊢
    omega

/-- what the loop over the rows guarantees -/
structure RowsSpec (jc : Int) (jwork rows : List Int) (t : TabOut) : Prop where
  lenR : t.rows.length = rows.length
  rowsShape : ∀ row ∈ t.rows, row.length = jwork.length + 1 ∧ ∀ x ∈ row, 0 ≤ x
  rowSums : t.rows.map List.sum = rows
  lenJ : t.jwork.length = jwork.length
  jworkNonneg : ∀ x ∈ t.jwork, 0 ≤ x
  lastNonneg : t.jwork.sum ≤ jc - rows.sum
  cols : vadd (colSums (jwork.length + 1) t.rows) (t.jwork ++ [jc - rows.sum - t.jwork.sum]) = jwork ++ [jc - jwork.sum]
  ibEq : rows ≠ [] → jwork ≠ [] → t.ib = t.jwork.getLastD 0 + (jc - rows.sum - t.jwork.sum)

theorem rowsLoop_spec (ntot : Int) : ∀ (rows : List Int) (picks : List (List Int)) (jc ib : Int) (jwork : List Int) (t : TabOut),
    rowsLoop startCell ntot jc ib jwork rows picks = .ok t →
    (∀ x ∈ jwork, 0 ≤ x) → (∀ r ∈ rows, 0 ≤ r) → jwork.sum ≤ jc → rows.sum ≤ jc → RowsSpec jc jwork rows t
  | [], picks, jc, ib, jwork, t, h, hj, _, hs, _ => by
    simp only [rowsLoop, Except.ok.injEq] at h; subst h
    refine ⟨rfl, by simp, rfl, rfl, hj, by simpa using hs, ?_, by simp⟩
    simp only [List.sum_nil, sub_zero]
    have : (colSums (jwork.length + 1) []) = List.replicate (jwork ++ [jc - jwork.sum]).length 0 := by
      simp [colSums]
    rw [this, vadd_zero_left]
  | ia :: rest, picks, jc, ib, jwork, t, h, hj, hr, hs, hrs => by
    have hia : 0 ≤ ia := hr ia List.mem_cons_self
    have hrest : ∀ r ∈ rest, 0 ≤ r := fun x hx => hr x (List.mem_cons_of_mem _ hx)
    have hrest0 : 0 ≤ rest.sum := List.sum_nonneg hrest
    rw [List.sum_cons] at hrs
    unfold rowsLoop at h
    cases hrow : rowLoop startCell ntot ia jc ib jwork (picks.headD []) with
    | error e => rw [hrow] at h; cases h
    | ok o =>
      rw [hrow] at h; dsimp only at h
      cases hrec : rowsLoop startCell ntot (jc - ia) o.ib o.jwork rest picks.tail with
      | error e => rw [hrec] at h; cases h
      | ok t' =>
        rw [hrec] at h; simp only [Except.ok.injEq] at h; subst h
        have sp := rowLoop_spec ntot jwork _ ia jc ib o hrow hia hj hs (by omega)
        have hsj := sp.sumJ
        have hrsum := sp.rowSum
        have hile := sp.iaLe
        have st := rowsLoop_spec ntot rest picks.tail (jc - ia) o.ib o.jwork t' hrec sp.jworkNonneg hrest (by omega) (by omega)
        have hlj : t'.jwork.length = jwork.length := by rw [st.lenJ, sp.lenJ]
        refine ⟨by simp [st.lenR], ?_, ?_, hlj, st.jworkNonneg, ?_, ?_, ?_⟩
        · intro row hrow'
          rcases List.mem_cons.mp hrow' with rfl | hrow'
          · refine ⟨by simp [sp.lenC], ?_⟩
            intro x hx
            rcases List.mem_append.mp hx with hx | hx
            · exact sp.cellsNonneg x hx
            · simp at hx; subst hx; exact sp.iaNonneg
          · have := st.rowsShape row hrow'
            rw [sp.lenJ] at this; exact this
        · simp only [List.map_cons, st.rowSums, List.sum_append, List.sum_singleton, List.cons.injEq, and_true]
          exact hrsum
        · have := st.lastNonneg; simp only [List.sum_cons]; omega
        · have hc := st.cols
          rw [sp.lenJ] at hc
          rw [colSums_cons, vadd_assoc]
          simp only [List.sum_cons]
          have e1 : jc - (ia + rest.sum) - t'.jwork.sum = jc - ia - rest.sum - t'.jwork.sum := by ring
          rw [e1, hc]
          show List.zipWith (· + ·) (o.cells ++ [o.ia]) (o.jwork ++ [jc - ia - o.jwork.sum]) = _
          rw [List.zipWith_append (by rw [sp.lenC, sp.lenJ]), sp.split]
          simp only [List.zipWith_cons_cons, List.zipWith_nil_right, List.append_cancel_left_eq, List.cons.injEq, and_true]
          omega
        · intro _ hjw
          simp only [List.sum_cons]
          by_cases hre : rest = []
          · subst hre
            simp only [rowsLoop, Except.ok.injEq] at hrec
            subst hrec
            have := sp.ibEq hjw
            simp only [List.sum_nil]
            rw [this]; omega
          · have hne : o.jwork ≠ [] := by
              intro h0; have := sp.lenJ; rw [h0] at this; simp at this
              exact hjw (List.length_eq_zero_iff.mp this.symm)
            have := st.ibEq hre hne
            rw [this]; omega
theorem rowsLoop_no_ub (ntot : Int) : ∀ (rows : List Int) (picks : List (List Int)) (jc ib : Int) (jwork : List Int),
    (∀ x ∈ jwork, 0 ≤ x) → (∀ r ∈ rows, 0 ≤ r) → jwork.sum ≤ jc → rows.sum ≤ jc → jc ≤ ntot →
    rowsLoop startCell ntot jc ib jwork rows picks ≠ .error .ub
  | [], _, _, _, _, _, _, _, _, _ => by simp [rowsLoop]
  | ia :: rest, picks, jc, ib, jwork, hj, hr, hs, hrs, hn => by
    have hia : 0 ≤ ia := hr ia List.mem_cons_self
    have hrest : ∀ r ∈ rest, 0 ≤ r := fun x hx => hr x (List.mem_cons_of_mem _ hx)
    have hrest0 : 0 ≤ rest.sum := List.sum_nonneg hrest
    rw [List.sum_cons] at hrs
    unfold rowsLoop
    have hnu := rowLoop_no_ub ntot jwork (picks.headD []) ia jc ib hia hj hs (by omega) hn
    cases hrow : rowLoop startCell ntot ia jc ib jwork (picks.headD []) with
    | error e => rw [hrow] at hnu; simpa using hnu
    | ok o =>
      dsimp only
      have sp := rowLoop_spec ntot jwork _ ia jc ib o hrow hia hj hs (by omega)
      have hsj := sp.sumJ
      have hrsum := sp.rowSum
      have hile := sp.iaLe
      have := rowsLoop_no_ub ntot rest picks.tail (jc - ia) o.ib o.jwork sp.jworkNonneg hrest (by omega) (by omega) (by omega)
      cases hrec : rowsLoop startCell ntot (jc - ia) o.ib o.jwork rest picks.tail with
      | error e => rw [hrec] at this; simpa using this
      | ok t' => simp

theorem ofNat_list_nonneg (l : List Nat) : ∀ x ∈ l.map Int.ofNat, (0 : Int) ≤ x := by
  intro x hx
  obtain ⟨n, _, rfl⟩ := List.mem_map.mp hx
  exact Int.natCast_nonneg n

theorem ofNat_list_sum (l : List Nat) : (l.map Int.ofNat).sum = ((l.sum : Nat) : Int) := by
  induction l with
  | nil => rfl
  | cons x xs ih => simp only [List.map_cons, List.sum_cons, ih]; push_cast; rfl

theorem split_last {l : List Int} (h : 2 ≤ l.length) (hn : ∀ x ∈ l, 0 ≤ x) :
    ∃ c, l = l.dropLast ++ [c] ∧ 0 ≤ c ∧ l.dropLast ≠ [] ∧ (∀ x ∈ l.dropLast, 0 ≤ x) ∧ l.sum = l.dropLast.sum + c := by
  have hne : l ≠ [] := by intro h0; subst h0; simp at h
  refine ⟨l.getLast hne, (List.dropLast_append_getLast hne).symm, hn _ (List.getLast_mem hne), ?_, ?_, ?_⟩
  · intro h0
    have := congrArg List.length h0
    simp at this; omega
  · exact fun x hx => hn x ((List.dropLast_sublist l).subset hx)
  · conv_lhs => rw [← List.dropLast_append_getLast hne]
    simp

/-- `rcont2` (repaired code): for all margins and all choices the walk can make, the table has
the requested shape, non-negative entries and exactly the requested row and column totals -/
theorem rcont2_marginsOk (nrowt ncolt : List Nat) (picks : List (List Int)) (T : List (List Int))
    (h : rcont2 nrowt ncolt picks = .ok T) : marginsOk nrowt ncolt T = true := by
  unfold rcont2 rcont2With at h
  split at h
  · cases h
  · rename_i hlen
    split at h
    · cases h
    · rename_i hsum
      simp only [Bool.or_eq_true, decide_eq_true_eq, not_or, not_lt] at hlen
      simp only [bne_iff_ne, ne_eq, not_not] at hsum
      dsimp only at h
      obtain ⟨rl, hrsplit, hrl, hrne, hrn, hrsum⟩ := split_last (l := nrowt.map Int.ofNat) (by simpa using hlen.1) (ofNat_list_nonneg _)
      obtain ⟨cl, hcsplit, hcl, hcne, hcn, hcsum⟩ := split_last (l := ncolt.map Int.ofNat) (by simpa using hlen.2) (ofNat_list_nonneg _)
      rw [ofNat_list_sum] at hrsum hcsum
      cases hrec : rowsLoop startCell (↑nrowt.sum) (↑nrowt.sum) 0 (ncolt.map Int.ofNat).dropLast (nrowt.map Int.ofNat).dropLast picks with
      | error e => rw [hrec] at h; cases h
      | ok t =>
        rw [hrec] at h; simp only [Except.ok.injEq] at h; subst h
        have hcs : ((ncolt.sum : Nat) : Int) = ((nrowt.sum : Nat) : Int) := by rw [hsum]
        have st := rowsLoop_spec _ _ picks _ 0 _ t hrec hcn hrn (by omega) (by omega)
        have hib := st.ibEq hrne hcne
        have hlast := st.lastNonneg
        have hcl' : (ncolt.map Int.ofNat).dropLast.length + 1 = ncolt.length := by
          rw [List.length_dropLast, List.length_map]; omega
        have hrl' : (nrowt.map Int.ofNat).dropLast.length + 1 = nrowt.length := by
          rw [List.length_dropLast, List.length_map]; omega
        set LF := ↑nrowt.sum - (nrowt.map Int.ofNat).dropLast.sum - t.jwork.sum with hLF
        have hcell : t.ib - t.jwork.getLastD 0 = LF := by rw [hib]; omega
        rw [hcell]
        simp only [marginsOk, Bool.and_eq_true, beq_iff_eq, List.all_eq_true, decide_eq_true_eq]
        refine ⟨⟨⟨?_, ?_⟩, ?_⟩, ?_⟩
        · simp [st.lenR]; omega
        · intro row hrow
          rcases List.mem_append.mp hrow with hrow | hrow
          · have := st.rowsShape row hrow
            exact ⟨by omega, this.2⟩
          · simp only [List.mem_singleton] at hrow; subst hrow
            refine ⟨by simp [st.lenJ]; omega, ?_⟩
            intro x hx
            rcases List.mem_append.mp hx with hx | hx
            · exact st.jworkNonneg x hx
            · simp only [List.mem_singleton] at hx; subst hx; omega
        · rw [List.map_append, st.rowSums]
          conv_rhs => rw [hrsplit]
          simp only [List.map_cons, List.map_nil, List.sum_append, List.sum_singleton, List.append_cancel_left_eq, List.cons.injEq, and_true]
          omega
        · rw [← hcl', colSums_snoc _ _ (by simp [st.lenJ])]
          have := st.cols
          rw [this]
          conv_rhs => rw [hcsplit]
          simp only [List.append_cancel_left_eq, List.cons.injEq, and_true]
          omega

theorem rcont2_no_ub (nrowt ncolt : List Nat) (picks : List (List Int)) :
    rcont2 nrowt ncolt picks ≠ .error .ub := by
  unfold rcont2 rcont2With
  split
  · simp
  · rename_i hlen
    split
    · simp
    · rename_i hsum
      simp only [Bool.or_eq_true, decide_eq_true_eq, not_or, not_lt] at hlen
      simp only [bne_iff_ne, ne_eq, not_not] at hsum
      dsimp only
      obtain ⟨rl, hrsplit, hrl, hrne, hrn, hrsum⟩ := split_last (l := nrowt.map Int.ofNat) (by simpa using hlen.1) (ofNat_list_nonneg _)
      obtain ⟨cl, hcsplit, hcl, hcne, hcn, hcsum⟩ := split_last (l := ncolt.map Int.ofNat) (by simpa using hlen.2) (ofNat_list_nonneg _)
      rw [ofNat_list_sum] at hrsum hcsum
      have hcs : ((ncolt.sum : Nat) : Int) = ((nrowt.sum : Nat) : Int) := by rw [hsum]
      have := rowsLoop_no_ub (↑nrowt.sum) _ picks (↑nrowt.sum) 0 _ hcn hrn (by omega) (by omega) (le_refl _)
      cases hrec : rowsLoop startCell (↑nrowt.sum) (↑nrowt.sum) 0 (ncolt.map Int.ofNat).dropLast (nrowt.map Int.ofNat).dropLast picks with
      | error e => rw [hrec] at this; simpa using this
      | ok t => simp
theorem canIncr_of_le (ia id : Int) : ∀ (n : Nat) (a : Int), a + n ≤ ia → a + n ≤ id → canIncr ia id a n = true
  | 0, _, _, _ => rfl
  | n + 1, a, h1, h2 => by
    push_cast at h1 h2
    simp only [canIncr, Bool.and_eq_true, decide_eq_true_eq]
    refine ⟨?_, canIncr_of_le ia id n (a + 1) (by omega) (by omega)⟩
    have h3 : 0 < id - a := by omega
    have h4 : 0 < ia - a := by omega
    exact (mul_pos h3 h4).ne'

theorem canDecr_of_le (ii : Int) : ∀ (n : Nat) (a : Int), 0 ≤ a - n → 0 ≤ ii + a - n → canDecr ii a n = true
  | 0, _, _, _ => rfl
  | n + 1, a, h1, h2 => by
    push_cast at h1 h2
    simp only [canDecr, Bool.and_eq_true, decide_eq_true_eq]
    refine ⟨?_, canDecr_of_le ii n (a - 1) (by omega) (by omega)⟩
    have h3 : 0 < a := by omega
    have h4 : 0 < ii + a := by omega
    exact (mul_pos h3 h4).ne'

/-- from a starting value inside the support the walk reaches exactly the support of the cell:
`max(0, ia+id-ie) ≤ v ≤ min(ia, id)` (the support of the conditional hypergeometric law) -/
theorem canReach_iff {ia id ii s v : Int} (h0 : 0 ≤ s) (h1 : 0 ≤ ii + s) (h2 : s ≤ ia) (h3 : s ≤ id) :
    canReach ia id ii s v = true ↔ 0 ≤ v ∧ 0 ≤ ii + v ∧ v ≤ ia ∧ v ≤ id := by
  constructor
  · exact canReach_bound h0 h1 h2 h3
  · rintro ⟨v0, v1, v2, v3⟩
    unfold canReach
    split
    · rename_i hsv
      apply canIncr_of_le
      · rw [Int.toNat_of_nonneg (by omega)]; omega
      · rw [Int.toNat_of_nonneg (by omega)]; omega
    · rename_i hsv
      apply canDecr_of_le
      · rw [Int.toNat_of_nonneg (by omega)]; omega
      · rw [Int.toNat_of_nonneg (by omega)]; omega
end Bpp.Rand
