import BppModel.RandWalk
import BppProofs.Lemmas.RandLaw
import BppProofs.Lemmas.RandRcont
/-! Lemmas for C18 (audit round 1): the transcribed walk of `rcont2` stops, inside the support. -/
namespace Bpp.Rand
open Bpp

/-- what the loops keep true -/
structure WalkInv (ia id ii : Int) (s : WalkSt ℝ) : Prop where
  nll0 : 0 ≤ s.nll
  iinll : 0 ≤ ii + s.nll
  le : s.nll ≤ s.nlm
  nlmia : s.nlm ≤ ia
  nlmid : s.nlm ≤ id
  x0 : 0 ≤ s.x
  y0 : 0 ≤ s.y
  s0 : 0 ≤ s.sumprb

def InSupp (ia id ii v : Int) : Prop := 0 ≤ v ∧ 0 ≤ ii + v ∧ v ≤ ia ∧ v ≤ id

/-- a pass ends well: a value inside the support, or a non-negative total; never out of fuel -/
def ResOk (ia id ii : Int) : WalkRes ℝ → Prop
  | .hit v => InSupp ia id ii v
  | .exhausted S => 0 ≤ S
  | .fuel => False

theorem incStep_inv {ia id ii : Int} {s : WalkSt ℝ} (h : WalkInv ia id ii s) (hj : (id - s.nlm) * (ia - s.nlm) ≠ 0) :
    WalkInv ia id ii (incStep ii ((id - s.nlm) * (ia - s.nlm)) s) := by
  have h1 : s.nlm ≠ id := by intro e; rw [e] at hj; simp at hj
  have h2 : s.nlm ≠ ia := by intro e; rw [e] at hj; simp at hj
  have hl1 := h.nlmia; have hl2 := h.nlmid; have hl3 := h.le; have hl4 := h.iinll; have hl5 := h.nll0
  have hjpos : (0 : ℝ) ≤ (((id - s.nlm) * (ia - s.nlm) : Int) : ℝ) := by
    have : (0 : Int) ≤ (id - s.nlm) * (ia - s.nlm) := mul_nonneg (by omega) (by omega)
    exact_mod_cast this
  have hd1 : (0 : ℝ) ≤ ((s.nlm + 1 : Int) : ℝ) := by exact_mod_cast (show (0 : Int) ≤ s.nlm + 1 by omega)
  have hd2 : (0 : ℝ) ≤ ((ii + (s.nlm + 1) : Int) : ℝ) := by exact_mod_cast (show (0 : Int) ≤ ii + (s.nlm + 1) by omega)
  have hx : 0 ≤ s.x * (((id - s.nlm) * (ia - s.nlm) : Int) : ℝ) / (((s.nlm + 1 : Int) : ℝ) * ((ii + (s.nlm + 1) : Int) : ℝ)) :=
    div_nonneg (mul_nonneg h.x0 hjpos) (mul_nonneg hd1 hd2)
  refine ⟨h.nll0, h.iinll, ?_, ?_, ?_, ?_, h.y0, ?_⟩
  · simp only [incStep]; omega
  · simp only [incStep]; omega
  · simp only [incStep]; omega
  · simpa only [incStep, smul, sdiv, ScalarReal.ofInt_eq] using hx
  · simp only [incStep, smul, sdiv, sadd, ScalarReal.ofInt_eq]
    exact add_nonneg h.s0 hx

theorem decStep_inv {ia id ii : Int} {s : WalkSt ℝ} (h : WalkInv ia id ii s) (hj : s.nll * (ii + s.nll) ≠ 0) :
    WalkInv ia id ii (decStep ia id (s.nll * (ii + s.nll)) s) := by
  have h1 : s.nll ≠ 0 := by intro e; rw [e] at hj; simp at hj
  have h2 : ii + s.nll ≠ 0 := by intro e; rw [e] at hj; simp at hj
  have hl1 := h.nlmia; have hl2 := h.nlmid; have hl3 := h.le; have hl4 := h.iinll; have hl5 := h.nll0
  have hjpos : (0 : ℝ) ≤ ((s.nll * (ii + s.nll) : Int) : ℝ) := by
    have : (0 : Int) ≤ s.nll * (ii + s.nll) := mul_nonneg (by omega) (by omega)
    exact_mod_cast this
  have hd1 : (0 : ℝ) ≤ ((id - (s.nll - 1) : Int) : ℝ) := by exact_mod_cast (show (0 : Int) ≤ id - (s.nll - 1) by omega)
  have hd2 : (0 : ℝ) ≤ ((ia - (s.nll - 1) : Int) : ℝ) := by exact_mod_cast (show (0 : Int) ≤ ia - (s.nll - 1) by omega)
  have hy : 0 ≤ s.y * ((s.nll * (ii + s.nll) : Int) : ℝ) / (((id - (s.nll - 1) : Int) : ℝ) * ((ia - (s.nll - 1) : Int) : ℝ)) :=
    div_nonneg (mul_nonneg h.y0 hjpos) (mul_nonneg hd1 hd2)
  refine ⟨?_, ?_, ?_, h.nlmia, h.nlmid, h.x0, ?_, ?_⟩
  · simp only [decStep]; omega
  · simp only [decStep]; omega
  · simp only [decStep]; omega
  · simpa only [decStep, smul, sdiv, ScalarReal.ofInt_eq] using hy
  · simp only [decStep, smul, sdiv, sadd, ScalarReal.ofInt_eq]
    exact add_nonneg h.s0 hy

theorem inv_nlm_supp {ia id ii : Int} {s : WalkSt ℝ} (h : WalkInv ia id ii s) : InSupp ia id ii s.nlm := by
  have := h.le; have := h.nll0; have := h.iinll
  exact ⟨by omega, by omega, h.nlmia, h.nlmid⟩

theorem inv_nll_supp {ia id ii : Int} {s : WalkSt ℝ} (h : WalkInv ia id ii s) : InSupp ia id ii s.nll := by
  have := h.le; have := h.nlmia; have := h.nlmid
  exact ⟨h.nll0, h.iinll, by omega, by omega⟩

theorem drain_ok (ia id ii : Int) (dummy : ℝ) : ∀ (n : Nat) (s : WalkSt ℝ), WalkInv ia id ii s → s.nll + 1 ≤ (n : Int) →
    ResOk ia id ii (drain ia id ii dummy n s)
  | 0, s, h, hn => by have := h.nll0; omega
  | n + 1, s, h, hn => by
    unfold drain
    dsimp only
    split
    · exact h.s0
    · rename_i hj
      have h' := decStep_inv h hj
      split
      · exact inv_nll_supp h'
      · apply drain_ok ia id ii dummy n _ h'
        simp only [decStep]; push_cast at hn; omega

theorem sweep_ok (ia id ii : Int) (dummy : ℝ) : ∀ (n : Nat) (s : WalkSt ℝ), WalkInv ia id ii s →
    (ia - s.nlm) + s.nll + 2 ≤ (n : Int) → ResOk ia id ii (sweep ia id ii dummy n s)
  | 0, s, h, hn => by have := h.nll0; have := h.nlmia; omega
  | n + 1, s, h, hn => by
    have hl1 := h.nlmia; have hl5 := h.nll0
    unfold sweep
    dsimp only
    split
    · exact drain_ok ia id ii dummy n s h (by push_cast at hn; omega)
    · rename_i hj
      have h1 := incStep_inv h hj
      have e1 : (incStep ii ((id - s.nlm) * (ia - s.nlm)) s).nlm = s.nlm + 1 := rfl
      have e2 : (incStep ii ((id - s.nlm) * (ia - s.nlm)) s).nll = s.nll := rfl
      split
      · exact inv_nlm_supp h1
      · split
        · apply sweep_ok ia id ii dummy n _ h1
          rw [e1, e2]; push_cast at hn; omega
        · rename_i hj2
          have h2 := decStep_inv h1 hj2
          split
          · exact inv_nll_supp h2
          · apply sweep_ok ia id ii dummy n _ h2
            simp only [decStep, e1, e2]; push_cast at hn; omega

/-- a pass that was exhausted with total `S` under one threshold hits under any threshold `≤ S`
(it adds the same terms in the same order) — unless it adds nothing at all -/
theorem drain_replay (ia id ii : Int) (d1 d2 S : ℝ) : ∀ (n : Nat) (s : WalkSt ℝ),
    drain ia id ii d1 n s = .exhausted S → d2 ≤ S →
    (∃ v, drain ia id ii d2 n s = .hit v) ∨ (drain ia id ii d2 n s = .exhausted S ∧ S = s.sumprb)
  | 0, s, h, _ => by simp [drain] at h
  | n + 1, s, h, hd => by
    unfold drain at h ⊢
    dsimp only at h ⊢
    split
    · rename_i hj
      rw [if_pos hj] at h
      simp only [WalkRes.exhausted.injEq] at h
      right; exact ⟨by rw [h], h.symm⟩
    · rename_i hj
      rw [if_neg hj] at h
      split at h
      · cases h
      · left
        split
        · exact ⟨_, rfl⟩
        · rename_i hnot
          rcases drain_replay ia id ii d1 d2 S n _ h hd with hh | ⟨_, hS⟩
          · exact hh
          · exfalso; apply hnot
            simp only [Scalar.geb, ScalarReal.leb_iff]
            rw [← hS]; exact hd

theorem sweep_replay (ia id ii : Int) (d1 d2 S : ℝ) : ∀ (n : Nat) (s : WalkSt ℝ),
    sweep ia id ii d1 n s = .exhausted S → d2 ≤ S →
    (∃ v, sweep ia id ii d2 n s = .hit v) ∨ (sweep ia id ii d2 n s = .exhausted S ∧ S = s.sumprb)
  | 0, s, h, _ => by simp [sweep] at h
  | n + 1, s, h, hd => by
    unfold sweep at h ⊢
    dsimp only at h ⊢
    split
    · rename_i hj
      rw [if_pos hj] at h
      exact drain_replay ia id ii d1 d2 S n s h hd
    · rename_i hj
      rw [if_neg hj] at h
      split at h
      · cases h
      · left
        split
        · exact ⟨_, rfl⟩
        · rename_i hnot1
          split
          · rename_i hj2
            rw [if_pos hj2] at h
            rcases sweep_replay ia id ii d1 d2 S n _ h hd with hh | ⟨_, hS⟩
            · exact hh
            · exfalso; apply hnot1
              simp only [Scalar.geb, ScalarReal.leb_iff]
              rw [← hS]; exact hd
          · rename_i hj2
            rw [if_neg hj2] at h
            split at h
            · cases h
            · split
              · exact ⟨_, rfl⟩
              · rename_i hnot2
                rcases sweep_replay ia id ii d1 d2 S n _ h hd with hh | ⟨_, hS⟩
                · exact hh
                · exfalso; apply hnot2
                  simp only [Scalar.geb, ScalarReal.leb_iff]
                  rw [← hS]; exact hd

end Bpp.Rand
