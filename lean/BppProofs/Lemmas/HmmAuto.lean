import BppProofs.Lemmas.Hmm
/-!
Helper lemmas for C13: AutoCorrelationTransitionMatrix (as repaired) — rows are stochastic, the
equilibrium vector is the stationary distribution, the lazily cached matrix is the current one.
-/
namespace Bpp.Hmm
open Bpp Finset

theorem autoEntry_one (li : ℝ) (i j : Nat) : autoEntry 1 li i j = 1 := by
  simp [autoEntry]

theorem autoEntry_eq (n : Nat) (hn : n ≠ 1) (li : ℝ) (i j : Nat) :
    autoEntry n li i j = (1 - li) / ((n : ℝ) - 1) + (if i = j then li - (1 - li) / ((n : ℝ) - 1) else 0) := by
  unfold autoEntry
  have h1 : (n == 1) = false := by simpa using hn
  by_cases h : i = j
  · simp [h, h1]
  · have : (i == j) = false := by simpa using h
    simp [this, h, h1]

theorem autoEntry_row_sum (n : Nat) (hn : 1 ≤ n) (li : ℝ) (i : Nat) (hi : i < n) :
    ∑ j ∈ range n, autoEntry n li i j = 1 := by
  by_cases h1 : n = 1
  · subst h1; simp [autoEntry_one]
  have hn2 : 2 ≤ n := by omega
  simp only [autoEntry_eq n h1, Finset.sum_add_distrib, Finset.sum_const, Finset.card_range, Finset.sum_ite_eq,
    Finset.mem_range, hi, if_true, nsmul_eq_mul]
  have : ((n : ℝ) - 1) ≠ 0 := by
    have : (2 : ℝ) ≤ n := by exact_mod_cast hn2
    linarith
  field_simp; ring

theorem autoEntry_nonneg (n : Nat) (hn : 1 ≤ n) (li : ℝ) (h0 : 0 ≤ li) (h1 : li ≤ 1) (i j : Nat) :
    0 ≤ autoEntry n li i j := by
  by_cases hn1 : n = 1
  · subst hn1; rw [autoEntry_one]; exact zero_le_one
  have hn2 : 2 ≤ n := by omega
  unfold autoEntry
  have hb : (n == 1) = false := by simpa using hn1
  simp only [hb, Bool.false_eq_true, if_false]
  split
  · exact h0
  · have : (2 : ℝ) ≤ n := by exact_mod_cast hn2
    simp only [ScalarReal.one_eq, ScalarReal.ofInt_eq, sub_eq, div_eq]
    push_cast
    exact div_nonneg (by linarith) (by linarith)

/-- the stationary weights -/
noncomputable def autoPi (n : Nat) (lam : Nat → ℝ) (i : Nat) : ℝ :=
  (1 / (1 - lam i)) / ∑ k ∈ range n, 1 / (1 - lam k)

theorem autoEq_vec (n : Nat) (lam : Nat → ℝ) : autoEq (vec n lam) = vec n (autoPi n lam) := by
  unfold autoEq
  simp only [map_vec, sumL_vec, ScalarReal.one_eq, sub_eq, div_eq]
  rfl

theorem autoPi_stationary (n : Nat) (hn : 1 ≤ n) (lam : Nat → ℝ) (hl : ∀ i, i < n → lam i < 1) :
    (∀ j, j < n → ∑ k ∈ range n, autoPi n lam k * autoEntry n (lam k) k j = autoPi n lam j)
    ∧ ∑ i ∈ range n, autoPi n lam i = 1 ∧ ∀ i, i < n → 0 < autoPi n lam i := by
  have hw : ∀ i, i < n → 0 < 1 / (1 - lam i) := fun i hi => one_div_pos.mpr (by linarith [hl i hi])
  set S := ∑ k ∈ range n, 1 / (1 - lam k) with hS
  have hSpos : 0 < S := Finset.sum_pos (fun i hi => hw i (Finset.mem_range.mp hi)) (by simp; omega)
  have hpi : ∀ i, i < n → autoPi n lam i * (1 - lam i) = 1 / S := by
    intro i hi
    have : (1 - lam i) ≠ 0 := by linarith [hl i hi]
    unfold autoPi; rw [← hS]; field_simp
  refine ⟨?_, ?_, ?_⟩
  · intro j hj
    by_cases hn1 : n = 1
    · subst hn1
      have hj0 : j = 0 := by omega
      subst hj0
      simp [autoEntry_one]
    have hn2' : 2 ≤ n := by omega
    have hn2 : (2 : ℝ) ≤ n := by exact_mod_cast hn2'
    have hn1' : ((n : ℝ) - 1) ≠ 0 := by linarith
    simp only [autoEntry_eq n hn1, mul_add, Finset.sum_add_distrib, mul_ite, mul_zero, Finset.sum_ite_eq', Finset.mem_range, hj, if_true]
    have h1 : ∑ k ∈ range n, autoPi n lam k * ((1 - lam k) / ((n : ℝ) - 1)) = (n : ℝ) * (1 / S) / ((n : ℝ) - 1) := by
      rw [Finset.sum_congr rfl (fun k hk => by
        rw [← mul_div_assoc, hpi k (Finset.mem_range.mp hk)])]
      simp [Finset.sum_const, Finset.card_range, nsmul_eq_mul]; ring
    rw [h1]
    have h2 := hpi j hj
    have : autoPi n lam j * (lam j - (1 - lam j) / ((n : ℝ) - 1))
        = autoPi n lam j - (1 / S) - (1 / S) / ((n : ℝ) - 1) := by
      have : autoPi n lam j * lam j = autoPi n lam j - 1 / S := by linarith [h2]
      rw [mul_sub, this, ← mul_div_assoc, h2]
    rw [this]; field_simp; ring
  · unfold autoPi; rw [← hS, ← Finset.sum_div, ← hS]; exact div_self (ne_of_gt hSpos)
  · intro i hi; unfold autoPi; rw [← hS]; exact div_pos (hw i hi) hSpos

theorem sumL_replicate (n : Nat) (a : ℝ) : sumL (List.replicate n a) = n * a := by
  rw [sumL_eq_sum, List.sum_replicate, nsmul_eq_mul]

theorem autoEq_replicate (n : Nat) (hn : 1 ≤ n) (c : ℝ) (hc : c < 1) :
    autoEq (List.replicate n c) = List.replicate n (1 / (n : ℝ)) := by
  unfold autoEq
  simp only [List.map_replicate, sumL_replicate, ScalarReal.one_eq, sub_eq, div_eq]
  congr 1
  have h1 : (1 - c) ≠ 0 := by linarith
  have h3 : (1 : ℝ) ≤ n := by exact_mod_cast hn
  have h2 : (n : ℝ) ≠ 0 := by linarith
  field_simp

/-! ### the lazily cached matrix -/

inductive AutoOp (α : Type) where
  | setLambda (k : Nat) (v : α)
  | getPij
  /-- `Pij(i, j)` (no range check: `none` = `vAutocorrel_[i]` does not exist) -/
  | entry (i j : Nat)
  | getEq

variable {α : Type} [Scalar α]

/-- answers: a matrix (`getPij`), one row (`getEquilibriumFrequencies`), one entry, nothing, or the
out-of-range outcome -/
def AutoTM.stepA (m : AutoTM α) : AutoOp α → AutoTM α × Option (List (List α))
  | .setLambda k v => (m.setLambda k v, some [])
  | .getPij => let r := m.getPij; (r.1, some r.2)
  | .entry i j => (m, (m.lam[i]?).map (fun li => [[autoEntry m.n li i j]]))
  | .getEq => (m, some [m.eq])

def AutoTM.runA (m : AutoTM α) : List (AutoOp α) → List (Option (List (List α)))
  | [] => []
  | op :: ops => (m.stepA op).2 :: AutoTM.runA (m.stepA op).1 ops

/-- the reference: everything is recomputed from the current λ's (`eq0` = the equilibrium vector as
long as no λ was set) -/
def autoSpecRun (n : Nat) (lam eq0 : List α) : List (AutoOp α) → List (Option (List (List α)))
  | [] => []
  | .setLambda k v :: ops => some [] :: autoSpecRun n (lam.set k v) (autoEq (lam.set k v)) ops
  | .getPij :: ops => some (autoMatrix n lam) :: autoSpecRun n lam eq0 ops
  | .entry i j :: ops => (lam[i]?).map (fun li => [[autoEntry n li i j]]) :: autoSpecRun n lam eq0 ops
  | .getEq :: ops => some [eq0] :: autoSpecRun n lam eq0 ops

theorem AutoTM.runA_spec (m : AutoTM α) (hinv : m.upToDate = true → m.pij = autoMatrix m.n m.lam)
    (ops : List (AutoOp α)) : m.runA ops = autoSpecRun m.n m.lam m.eq ops := by
  induction ops generalizing m with
  | nil => rfl
  | cons op ops ih =>
    cases op with
    | setLambda k v =>
      simp only [AutoTM.runA, AutoTM.stepA, autoSpecRun]
      rw [ih (m.setLambda k v) (by simp [AutoTM.setLambda])]; rfl
    | getPij =>
      simp only [AutoTM.runA, AutoTM.stepA, autoSpecRun, AutoTM.getPij]
      by_cases hu : m.upToDate = true
      · simp only [hu, if_true]; rw [ih m hinv, hinv hu]
      · simp only [hu, if_false, Bool.false_eq_true]
        rw [ih _ (fun _ => rfl)]
    | entry i j =>
      simp only [AutoTM.runA, AutoTM.stepA, autoSpecRun]
      rw [ih m hinv]
    | getEq =>
      simp only [AutoTM.runA, AutoTM.stepA, autoSpecRun]
      rw [ih m hinv]

/-- `getPij()` agrees entry-wise with `Pij(i, j)`, whatever the history: entry `(i, j)` of the matrix a
cache-free object computes is `autoEntry n λ_i i j` -/
theorem autoMatrix_entry (n : Nat) (lam : List α) (i j : Nat) (hj : j < n) :
    ((autoMatrix n lam)[i]?).bind (·[j]?) = (lam[i]?).map (fun li => autoEntry n li i j) := by
  unfold autoMatrix
  rw [List.getElem?_mapIdx]
  cases lam[i]? with
  | none => rfl
  | some li => simp [hj]

end Bpp.Hmm
