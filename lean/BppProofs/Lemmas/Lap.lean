import BppModel.Lap
import BppProofs.Lemmas.MatrixReal
import Mathlib.Algebra.BigOperators.Group.Finset.Basic
import Mathlib.Logic.Equiv.Fintype
import Mathlib.Data.Fintype.Perm
/-! Helper lemmas for C04 (`lap`): reading the executable certificate at `ℝ`. -/
namespace Bpp.Mx.Lap
open Bpp Bpp.Mx

theorem allLt_iff (n : Nat) (p : Nat → Bool) : allLt n p = true ↔ ∀ i, i < n → p i = true := by
  simp [allLt, List.all_eq_true]

/-- a map of `{0..n-1}` into itself with a left inverse is a permutation -/
theorem perm_of_permB {n : Nat} {σ ρ : Nat → Nat} (h : permB n σ ρ = true) :
    ∃ π : Equiv.Perm (Fin n), ∀ i : Fin n, (π i).val = σ i.val := by
  rw [permB, allLt_iff] at h
  have h1 : ∀ i, i < n → σ i < n ∧ ρ (σ i) = i := by
    intro i hi
    have := h i hi
    simpa using this
  let f : Fin n → Fin n := fun i => ⟨σ i.val, (h1 i.val i.isLt).1⟩
  have hinj : Function.Injective f := by
    intro a b hab
    have : σ a.val = σ b.val := congrArg Fin.val hab
    have ha := (h1 a.val a.isLt).2
    have hb := (h1 b.val b.isLt).2
    apply Fin.ext
    rw [← ha, ← hb, this]
  exact ⟨Equiv.ofBijective f (Finite.injective_iff_bijective.mp hinj), fun i => rfl⟩

theorem sumTo_fin (n : Nat) (t : Nat → ℝ) : Spec.sumTo n t = ∑ i : Fin n, t i.val := by
  rw [sumTo_eq_sum, Finset.sum_range]

end Bpp.Mx.Lap
