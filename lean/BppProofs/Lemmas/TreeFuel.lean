import BppModel.Tree
/-
More fuel never changes an answer: for each fuelled recursion of the tree model, if it answers
something else than `fuel` with some amount of fuel, it answers the same with any larger amount.
(Together with "never `fuel` on a valid tree" this says the fuelled model is the unbounded recursion.)
-/
namespace Bpp.Graph
namespace T

/-- a loop `match acc with | .ok m => F a m | x => x` is monotone in the fuel when its body is -/
theorem foldl_mono {α β : Type} (sF sG : TRes β → α → TRes β) (F G : α → β → TRes β)
    (hF1 : ∀ m a, sF (.ok m) a = F a m) (hF2 : ∀ x a, (∀ m, x ≠ .ok m) → sF x a = x)
    (hG1 : ∀ m a, sG (.ok m) a = G a m) (hG2 : ∀ x a, (∀ m, x ≠ .ok m) → sG x a = x)
    (hFG : ∀ a m r, F a m = r → r ≠ .fuel → G a m = r) :
    ∀ (l : List α) (acc r : TRes β), l.foldl sF acc = r → r ≠ .fuel → l.foldl sG acc = r := by
  have stuck : ∀ (s : TRes β → α → TRes β), (∀ x a, (∀ m, x ≠ .ok m) → s x a = x) → ∀ (l : List α) (x : TRes β), (∀ m, x ≠ .ok m) → l.foldl s x = x := by
    intro s hs l
    induction l with
    | nil => intro x _; rfl
    | cons a rest ih => intro x hx; simp only [List.foldl]; rw [hs x a hx]; exact ih x hx
  intro l
  induction l with
  | nil => intro acc r h _; exact h
  | cons a rest ih =>
    intro acc r h hr
    simp only [List.foldl] at h ⊢
    cases acc with
    | ok m =>
      rw [hF1] at h
      rw [hG1]
      by_cases hf : F a m = .fuel
      · rw [hf, stuck sF hF2 rest .fuel (by intro m; simp)] at h
        exact absurd h.symm hr
      · rw [hFG a m _ rfl hf]; exact ih _ r h hr
    | exc =>
      rw [hF2 .exc a (by intro m; simp)] at h; rw [hG2 .exc a (by intro m; simp)]; exact ih _ r h hr
    | fuel =>
      rw [hF2 .fuel a (by intro m; simp)] at h; rw [hG2 .fuel a (by intro m; simp)]; exact ih _ r h hr
    | ub =>
      rw [hF2 .ub a (by intro m; simp)] at h; rw [hG2 .ub a (by intro m; simp)]; exact ih _ r h hr

theorem subtreeNodes_mono (g : G) : ∀ (fuel n : Nat) (met : List Nat) (r : TRes (List Nat)),
    subtreeNodes g fuel n met = r → r ≠ .fuel → subtreeNodes g (fuel + 1) n met = r := by
  intro fuel
  induction fuel with
  | zero => intro n met r h hr; simp [subtreeNodes] at h; exact absurd h.symm hr
  | succ f ih =>
    intro n met r h hr
    simp only [subtreeNodes] at h ⊢
    cases ho : g.outNeighbors n with
    | none => rw [ho] at h; exact h
    | some sons =>
      rw [ho] at h
      simp only at h ⊢
      exact foldl_mono _ _ (fun s m => subtreeNodes g f s m) (fun s m => subtreeNodes g (f + 1) s m)
        (fun _ _ => rfl) (fun x a hx => by cases x <;> first | rfl | exact absurd rfl (hx _))
        (fun _ _ => rfl) (fun x a hx => by cases x <;> first | rfl | exact absurd rfl (hx _))
        (fun a m r h hr => ih a m r h hr) sons _ r h hr

theorem leavesUnder_mono (g : G) : ∀ (fuel n : Nat) (found : List Nat) (r : TRes (List Nat)),
    leavesUnder g fuel n found = r → r ≠ .fuel → leavesUnder g (fuel + 1) n found = r := by
  intro fuel
  induction fuel with
  | zero => intro n found r h hr; simp [leavesUnder] at h; exact absurd h.symm hr
  | succ f ih =>
    intro n found r h hr
    simp only [leavesUnder] at h ⊢
    cases ho : g.outNeighbors n with
    | none => rw [ho] at h; exact h
    | some sons =>
      rw [ho] at h
      simp only at h ⊢
      cases hl : isLeafT g n with
      | none => rw [hl] at h; exact h
      | some b =>
        rw [hl] at h
        cases b with
        | true => exact h
        | false =>
          simp only at h ⊢
          exact foldl_mono _ _ (fun s m => leavesUnder g f s m) (fun s m => leavesUnder g (f + 1) s m)
            (fun _ _ => rfl) (fun x a hx => by cases x <;> first | rfl | exact absurd rfl (hx _))
            (fun _ _ => rfl) (fun x a hx => by cases x <;> first | rfl | exact absurd rfl (hx _))
            (fun a m r h hr => ih a m r h hr) sons _ r h hr

theorem subtreeEdges_mono (g : G) : ∀ (fuel n : Nat) (met : List Nat) (r : TRes (List Nat)),
    subtreeEdges g fuel n met = r → r ≠ .fuel → subtreeEdges g (fuel + 1) n met = r := by
  intro fuel
  induction fuel with
  | zero => intro n met r h hr; simp [subtreeEdges] at h; exact absurd h.symm hr
  | succ f ih =>
    intro n met r h hr
    simp only [subtreeEdges] at h ⊢
    cases ho : g.outEdges n with
    | none => rw [ho] at h; exact h
    | some es =>
      rw [ho] at h
      simp only at h ⊢
      exact foldl_mono _ _
        (fun e m => match g.getNodes e with | some (_, bottom) => subtreeEdges g f bottom (m ++ [e]) | none => .exc)
        (fun e m => match g.getNodes e with | some (_, bottom) => subtreeEdges g (f + 1) bottom (m ++ [e]) | none => .exc)
        (fun _ _ => rfl) (fun x a hx => by cases x <;> first | rfl | exact absurd rfl (hx _))
        (fun _ _ => rfl) (fun x a hx => by cases x <;> first | rfl | exact absurd rfl (hx _))
        (fun e m r h hr => by
          cases hg : g.getNodes e with
          | none => rw [hg] at h; simp only at h ⊢; exact h
          | some p => rw [hg] at h; simp only at h ⊢; exact ih _ _ r h hr) es _ r h hr

theorem relationsFrom_mono (g : G) : ∀ (fuel n origin : Nat) (rel : List (Nat × Nat)) (r : TRes (List (Nat × Nat))),
    relationsFrom g fuel n origin rel = r → r ≠ .fuel → relationsFrom g (fuel + 1) n origin rel = r := by
  intro fuel
  induction fuel with
  | zero => intro n origin rel r h hr; simp [relationsFrom] at h; exact absurd h.symm hr
  | succ f ih =>
    intro n origin rel r h hr
    simp only [relationsFrom] at h ⊢
    cases ho : g.outNeighbors n with
    | none => rw [ho] at h; exact h
    | some nbs =>
      rw [ho] at h
      simp only at h ⊢
      exact foldl_mono _ _
        (fun nb m => if nb = origin then .ok m else relationsFrom g f nb n (m ++ [(n, nb)]))
        (fun nb m => if nb = origin then .ok m else relationsFrom g (f + 1) nb n (m ++ [(n, nb)]))
        (fun _ _ => rfl) (fun x a hx => by cases x <;> first | rfl | exact absurd rfl (hx _))
        (fun _ _ => rfl) (fun x a hx => by cases x <;> first | rfl | exact absurd rfl (hx _))
        (fun nb m r h hr => by
          by_cases hnb : nb = origin
          · simp only [hnb, if_true] at h ⊢; exact h
          · simp only [hnb, if_false] at h ⊢; exact ih _ _ _ r h hr) nbs _ r h hr

theorem climb_mono (g : G) : ∀ (fuel n : Nat) (acc : List Nat) (r : TRes (List Nat)),
    climb g fuel n acc = r → r ≠ .fuel → climb g (fuel + 1) n acc = r := by
  intro fuel
  induction fuel with
  | zero => intro n acc r h hr; simp [climb] at h; exact absurd h.symm hr
  | succ f ih =>
    intro n acc r h hr
    simp only [climb] at h ⊢
    cases hh : hasFather g n with
    | none => rw [hh] at h; exact h
    | some b =>
      rw [hh] at h
      cases b with
      | false => exact h
      | true =>
        simp only at h ⊢
        cases hf : father g n with
        | none => rw [hf] at h; exact h
        | some fa => rw [hf] at h; simp only at h ⊢; exact ih _ _ r h hr

theorem joinRank_mono (g : G) (line : List Nat) : ∀ (fuel here : Nat) (r : TRes Nat),
    joinRank g line fuel here = r → r ≠ .fuel → joinRank g line (fuel + 1) here = r := by
  intro fuel
  induction fuel with
  | zero => intro here r h hr; simp [joinRank] at h; exact absurd h.symm hr
  | succ f ih =>
    intro here r h hr
    simp only [joinRank] at h ⊢
    split
    · rename_i hc; rw [if_pos hc] at h; exact h
    · rename_i hc
      rw [if_neg hc] at h
      cases hh : hasFather g here with
      | none => rw [hh] at h; exact h
      | some b =>
        rw [hh] at h
        cases b with
        | false => exact h
        | true =>
          simp only at h ⊢
          cases hf : father g here with
          | none => rw [hf] at h; exact h
          | some fa => rw [hf] at h; simp only at h ⊢; exact ih _ r h hr

theorem propagate_succ (fuel : Nat) (t : T) (n : Nat) : propagate (fuel + 1) t n =
    match hasFather t.g n with
    | none => .ok (.exc t.g, t)
    | some false => .ok (.ok () t.g, t)
    | some true =>
      match father t.g n with
      | none => .ok (.exc t.g, t)
      | some f =>
        match propagate fuel t f with
        | .ok r => .ok (andThen r (fun _ t1 => t1.lift (t1.g.switchNodes f n)))
        | .fuel => .fuel
        | .exc => .exc
        | .ub => .ub := rfl

theorem propagate_mono : ∀ (fuel : Nat) (t : T) (n : Nat) (r : TRes (GOut Unit × T)),
    propagate fuel t n = r → r ≠ .fuel → propagate (fuel + 1) t n = r := by
  intro fuel
  induction fuel with
  | zero => intro t n r h hr; simp [propagate] at h; exact absurd h.symm hr
  | succ f ih =>
    intro t n r h hr
    rw [propagate_succ] at h ⊢
    cases hh : hasFather t.g n with
    | none => rw [hh] at h; exact h
    | some b =>
      rw [hh] at h
      cases b with
      | false => exact h
      | true =>
        simp only at h ⊢
        cases hf : father t.g n with
        | none => rw [hf] at h; exact h
        | some fa =>
          rw [hf] at h
          simp only at h ⊢
          cases hp : propagate f t fa with
          | ok x => rw [hp] at h; rw [ih t fa _ hp (by simp)]; exact h
          | exc => rw [hp] at h; rw [ih t fa _ hp (by simp)]; exact h
          | fuel => rw [hp] at h; simp only at h; exact absurd h.symm hr
          | ub => rw [hp] at h; rw [ih t fa _ hp (by simp)]; exact h

/-- from one step to any larger amount -/
theorem mono_le {α : Type} (f : Nat → TRes α) (hstep : ∀ k r, f k = r → r ≠ .fuel → f (k + 1) = r)
    {f1 f2 : Nat} (hle : f1 ≤ f2) (hr : f f1 ≠ .fuel) : f f2 = f f1 := by
  induction hle with
  | refl => rfl
  | step _ ih => exact hstep _ _ ih hr

end T
end Bpp.Graph
