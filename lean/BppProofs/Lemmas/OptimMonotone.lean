import BppProofs.Lemmas.Optim
import BppModel.OptimMeta
/-!
Helper lemmas for C10: `Monotone` (what `optimize_terminates` / `budget` need of an optimiser: `doStep`
does not move the evaluation counter backwards and leaves the cap alone, the stop condition touches
neither) for the four optimisers that had no instance: `NewtonOneDimension` (its `doStep` does not touch
the counter at all), `SimpleMultiDimensions`, `SimpleNewtonMultiDimensions` (each coordinate adds the
inner optimiser's counter) and `MetaOptimizer` (each active member adds its counter).  Generic in the
scalar type.
-/
set_option linter.unusedSectionVars false
namespace Bpp.Optim
open Bpp Scalar

variable {α : Type} [Scalar α] {F : Type}

theorem fscStop_counter {τ : Type} (s : St F τ α) :
    (fscStop s).1.core.nbEval = s.core.nbEval ∧ (fscStop s).1.core.nbEvalMax = s.core.nbEvalMax := by
  unfold fscStop; dsimp only; split <;> exact ⟨rfl, rfl⟩

/-! ### NewtonOneDimension -/

theorem newtonAlgo_monotone (I : FunI F α) : Monotone (newtonAlgo I) := by
  constructor
  · intro s s' v h
    change newtonDoStep I s = .ok (s', v) at h
    unfold newtonDoStep at h
    simp only [] at h
    split at h
    · cases h
    · split at h
      · cases h
      · split at h
        · cases h
        · split at h
          · cases h
          · simp only [Except.ok.injEq, Prod.mk.injEq] at h
            obtain ⟨rfl, -⟩ := h
            exact ⟨Nat.le_refl _, rfl⟩
          · simp only [Except.ok.injEq, Prod.mk.injEq] at h
            obtain ⟨rfl, -⟩ := h
            exact ⟨Nat.le_refl _, rfl⟩
  · intro s; exact fscStop_counter s

/-! ### SimpleMultiDimensions -/

theorem simpleCoord_counter (I : FunI F α) (fuel : Nat) (s s' : St F (Simple α) α) (i : Nat) (f : α)
    (h : simpleCoord I fuel s i = .ok (s', f)) :
    s.core.nbEval ≤ s'.core.nbEval ∧ s'.core.nbEvalMax = s.core.nbEvalMax := by
  unfold simpleCoord at h
  split at h
  · cases h
  · simp only [] at h
    split at h
    · cases h
    · split at h
      · cases h
      · split at h
        · cases h
        · simp only [Except.ok.injEq, Prod.mk.injEq] at h
          obtain ⟨rfl, -⟩ := h
          exact ⟨Nat.le_add_right _ _, rfl⟩

theorem simpleCoords_counter (I : FunI F α) (fuel : Nat) (is : List Nat) (s s' : St F (Simple α) α) (f f' : α)
    (h : simpleCoords I fuel is s f = .ok (s', f')) :
    s.core.nbEval ≤ s'.core.nbEval ∧ s'.core.nbEvalMax = s.core.nbEvalMax := by
  induction is generalizing s f with
  | nil => simp only [simpleCoords, Except.ok.injEq, Prod.mk.injEq] at h; obtain ⟨rfl, -⟩ := h; exact ⟨Nat.le_refl _, rfl⟩
  | cons i r ih =>
    unfold simpleCoords at h
    split at h
    · cases h
    · rename_i s1 f1 h1
      obtain ⟨a, b⟩ := simpleCoord_counter I fuel s s1 i f1 h1
      obtain ⟨c, d⟩ := ih s1 f1 h
      exact ⟨Nat.le_trans a c, d.trans b⟩

theorem simpleAlgo_monotone (I : FunI F α) (fuel : Nat) : Monotone (simpleAlgo I fuel) := by
  constructor
  · intro s s' v h
    change simpleDoStep I fuel s = .ok (s', v) at h
    unfold simpleDoStep at h
    split at h
    · cases h
    · rename_i s1 f1 h1
      simp only [Except.ok.injEq, Prod.mk.injEq] at h
      obtain ⟨rfl, -⟩ := h
      exact simpleCoords_counter I fuel _ s s1 _ f1 h1
  · intro s; exact fscStop_counter s

/-! ### SimpleNewtonMultiDimensions -/

theorem snewtonCoord_counter (I : FunI F α) (fuel : Nat) (s s' : St F (SNewton α) α) (i : Nat) (f : α)
    (h : snewtonCoord I fuel s i = .ok (s', f)) :
    s.core.nbEval ≤ s'.core.nbEval ∧ s'.core.nbEvalMax = s.core.nbEvalMax := by
  unfold snewtonCoord at h
  split at h
  · cases h
  · simp only [] at h
    split at h
    · cases h
    · split at h
      · cases h
      · split at h
        · cases h
        · simp only [Except.ok.injEq, Prod.mk.injEq] at h
          obtain ⟨rfl, -⟩ := h
          exact ⟨Nat.le_add_right _ _, rfl⟩

theorem snewtonCoords_counter (I : FunI F α) (fuel : Nat) (is : List Nat) (s s' : St F (SNewton α) α) (f f' : α)
    (h : snewtonCoords I fuel is s f = .ok (s', f')) :
    s.core.nbEval ≤ s'.core.nbEval ∧ s'.core.nbEvalMax = s.core.nbEvalMax := by
  induction is generalizing s f with
  | nil => simp only [snewtonCoords, Except.ok.injEq, Prod.mk.injEq] at h; obtain ⟨rfl, -⟩ := h; exact ⟨Nat.le_refl _, rfl⟩
  | cons i r ih =>
    unfold snewtonCoords at h
    split at h
    · cases h
    · rename_i s1 f1 h1
      obtain ⟨a, b⟩ := snewtonCoord_counter I fuel s s1 i f1 h1
      obtain ⟨c, d⟩ := ih s1 f1 h
      exact ⟨Nat.le_trans a c, d.trans b⟩

theorem snewtonAlgo_monotone (I : FunI F α) (fuel : Nat) : Monotone (snewtonAlgo I fuel) := by
  constructor
  · intro s s' v h
    change snewtonDoStep I fuel s = .ok (s', v) at h
    unfold snewtonDoStep at h
    split at h
    · cases h
    · rename_i s1 f1 h1
      simp only [Except.ok.injEq, Prod.mk.injEq] at h
      obtain ⟨rfl, -⟩ := h
      exact snewtonCoords_counter I fuel _ s s1 _ f1 h1
  · intro s; exact fscStop_counter s

/-! ### MetaOptimizer -/

theorem metaRunSimple_counter (I : FunI F α) (fuel : Nat) (s s' : St F (Meta α) α) (tol : α)
    (h : metaRunSimple I fuel s tol = .ok s') :
    s.core.nbEval ≤ s'.core.nbEval ∧ s'.core.nbEvalMax = s.core.nbEvalMax := by
  unfold metaRunSimple at h
  split at h
  · cases h; exact ⟨Nat.le_refl _, rfl⟩
  · split at h
    · cases h
    · simp only [] at h
      split at h
      · cases h
      · split at h
        · cases h
        · split at h
          · cases h
          · simp only [Except.ok.injEq] at h
            subst h
            exact ⟨Nat.le_add_right _ _, rfl⟩

theorem metaRunBfgs_counter (I : FunI F α) (fuel : Nat) (s s' : St F (Meta α) α) (tol : α)
    (h : metaRunBfgs I fuel s tol = .ok s') :
    s.core.nbEval ≤ s'.core.nbEval ∧ s'.core.nbEvalMax = s.core.nbEvalMax := by
  unfold metaRunBfgs at h
  split at h
  · cases h; exact ⟨Nat.le_refl _, rfl⟩
  · split at h
    · cases h
    · simp only [] at h
      split at h
      · cases h
      · split at h
        · cases h
        · split at h
          · cases h
          · simp only [Except.ok.injEq] at h
            subst h
            exact ⟨Nat.le_add_right _ _, rfl⟩

theorem metaAlgo_monotone (I : FunI F α) (log10 : α → α) (fuel : Nat) : Monotone (metaAlgo I log10 fuel) := by
  constructor
  · intro s s' v h
    change metaDoStep I fuel s = .ok (s', v) at h
    unfold metaDoStep at h
    simp only [] at h
    split at h
    · cases h
    · rename_i s1 h1
      split at h
      · cases h
      · rename_i s2 h2
        simp only [Except.ok.injEq, Prod.mk.injEq] at h
        obtain ⟨rfl, -⟩ := h
        obtain ⟨a, b⟩ := metaRunSimple_counter I fuel _ s1 _ h1
        obtain ⟨c, d⟩ := metaRunBfgs_counter I fuel s1 s2 _ h2
        exact ⟨Nat.le_trans a c, d.trans b⟩
  · intro s; exact fscStop_counter s

end Bpp.Optim
