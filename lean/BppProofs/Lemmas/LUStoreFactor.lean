import BppProofs.Lemmas.LUStore
/-!
Helper lemmas for C05, storage level: the constructor of `BppModel/LUStore.lean` (statement by
statement on a `RowMatrix`) refines `LU.factor` (one entry-wise formula per outer iteration), for
any scalar type.
-/
namespace Bpp.LUS
open Bpp Bpp.Mx Bpp.LU

variable {α : Type} [Scalar α] {m n : Nat}

/-! ### pivot search -/

theorem findPivotS_refines {S : Store α} {k0 : Kind} (W : Mat α m n) (hS : Is S k0 m n (fnOf W)) (h : n ≤ m) (k : Fin n) :
    findPivotS S m k.val = .ok (findPivot W k (k.castLE h)).val := by
  obtain ⟨p, e, r⟩ := loopFrom_foldl (fun (p : Nat) (q : Fin m) => p = q.val) (k.val + 1) m (by omega)
    (fun i p => do
      let a ← rd S i k.val
      let b ← rd S p k.val
      pure (if Scalar.gtb (numAbs a) (numAbs b) then i else p))
    (fun p i => if (k.castLE h).val < i.val then
        (if Scalar.gtb (numAbs (W.get i k)) (numAbs (W.get p k)) then i else p) else p)
    k.val (k.castLE h) rfl
    (fun i t hi => by
      have : ¬ (k.castLE h).val < i.val := by simp; omega
      simp only [this, if_false])
    (fun i s t hi hr => by
      subst hr
      have hk : (k.castLE h).val < i.val := by simp; omega
      simp only [hS.rd i.isLt k.isLt, hS.rd t.isLt k.isLt, ok_bind, pure_eq, fnOf_get, hk, if_true]
      refine ⟨_, rfl, ?_⟩
      split <;> rfl)
  unfold findPivotS
  rw [e, r]
  rfl

/-! ### row exchange -/

theorem swapRowsS_refines {S : Store α} {k0 : Kind} (W : Mat α m n) (hS : Is S k0 m n (fnOf W)) (p kr : Fin m) :
    ∃ S', swapRowsS S n p.val kr.val = .ok S' ∧ Is S' k0 m n (fnOf (swapRows W p kr)) := by
  let f := fnOf W
  let sw : Nat → Nat → α := fun a b => if a = kr.val then f p.val b else if a = p.val then f kr.val b else f a b
  obtain ⟨S', e, hS'⟩ := loop_inv (fun j T => Is T k0 m n (fun a b => if b < j then sw a b else f a b)) n
    (fun j LU => do
      let t ← rd LU p.val j
      let u ← rd LU kr.val j
      let LU1 ← wr LU p.val j u
      wr LU1 kr.val j t) S (hS.congr (fun a b _ _ => by simp [f]))
    (by
      intro j T hj hT
      have h1 := hT.rd p.isLt hj
      have h2 := hT.rd kr.isLt hj
      simp only [Nat.lt_irrefl, if_false] at h1 h2
      obtain ⟨T1, e1, hT1⟩ := hT.wr p.isLt hj (f kr.val j)
      obtain ⟨T2, e2, hT2⟩ := hT1.wr kr.isLt hj (f p.val j)
      refine ⟨T2, by simp only [h1, h2, ok_bind, e1, e2], hT2.congr ?_⟩
      intro a b _ _
      simp only [upd, sw]
      by_cases hb : b = j
      · subst hb
        by_cases ha : a = kr.val
        · simp [ha]
        · by_cases ha' : a = p.val
          · simp [ha, ha']
          · simp [ha, ha']
      · have h3 : (b < j + 1) = (b < j) := by
          apply propext; omega
        simp only [hb, and_false, if_false, h3])
  refine ⟨S', e, hS'.congr ?_⟩
  intro a b ha hb
  simp only [hb, if_true, sw, f, swapRows]
  rw [fnOf_ofFn _ ha hb]
  simp only [Fin.ext_iff]
  by_cases h1 : a = kr.val
  · simp [h1, fnOf_lt _ p.isLt hb]
  · by_cases h2 : a = p.val
    · have h3 : ¬ p.val = kr.val := h2 ▸ h1
      simp [h2, h3, fnOf_lt _ kr.isLt hb]
    · simp [h1, h2, fnOf_lt _ ha hb]

theorem vrd_ofFn {β : Type} {k : Nat} (g : Fin k → β) {i : Nat} (hi : i < k) : vrd (Array.ofFn g) i = .ok (g ⟨i, hi⟩) := by
  simp [vrd, hi]

theorem swapPivS_refines (piv : Vector (Fin m) m) (p kr : Fin m) :
    swapPivS (Array.ofFn (n := m) fun i => (piv[i.val]'i.isLt).val) p.val kr.val =
      .ok (Array.ofFn (n := m) fun i => ((swapPiv piv p kr)[i.val]'i.isLt).val) := by
  unfold swapPivS
  rw [vrd_ofFn _ p.isLt, vrd_ofFn _ kr.isLt]
  simp only [ok_bind, vwr, Array.size_ofFn, p.isLt, if_true, Array.size_setIfInBounds, Array.set!_eq_setIfInBounds, kr.isLt]
  congr 1
  apply Array.ext
  · simp
  · intro i h1 h2
    have hi : i < m := by simpa using h2
    simp only [Array.getElem_setIfInBounds, Array.getElem_ofFn, swapPiv, Vector.getElem_ofFn, Array.size_setIfInBounds, Array.size_ofFn, hi]
    by_cases a : kr.val = i
    · have : (⟨i, hi⟩ : Fin m) = kr := Fin.ext a.symm
      simp [a, this]
    · have hne : ¬ (⟨i, hi⟩ : Fin m) = kr := fun e => a (by rw [← e])
      by_cases b : p.val = i
      · have : (⟨i, hi⟩ : Fin m) = p := Fin.ext b.symm
        have hpk : ¬ p = kr := fun e => a (by rw [← e]; exact b)
        simp [a, b, this, hpk]
      · have hne' : ¬ (⟨i, hi⟩ : Fin m) = p := fun e => b (by rw [← e])
        simp [a, b, hne, hne']

/-! ### elimination -/

theorem elimRowS_spec {S : Store α} {k0 : Kind} {g : Nat → Nat → α} (hS : Is S k0 m n g) {k i : Nat} (hk : k < n)
    (hki : k < i) (hi : i < m) :
    ∃ S', elimRowS S n k i = .ok S' ∧
      Is S' k0 m n (fun a b => if a = i ∧ k + 1 ≤ b ∧ b < n then g i b - g i k * g k b else g a b) := by
  unfold elimRowS
  apply rowLoop hS hi (by omega) (Nat.le_refl n) (fun b => g i b - g i k * g k b)
  intro j hj0 hj1 T g' hT hout
  have e1 : g' i j = g i j := hout i j (by omega)
  have e2 : g' i k = g i k := hout i k (by omega)
  have e3 : g' k j = g k j := hout k j (by omega)
  simp only [hT.rd hi hj1, hT.rd hi hk, hT.rd (show k < m by omega) hj1, ok_bind, e1, e2, e3]

/-- the entries after the elimination of column `k` (pivot row `k`) -/
def elimFn (f : Nat → Nat → α) (k : Nat) : Nat → Nat → α := fun a b =>
  if k < a then
    (if b = k then f a k / f k k else if k < b then f a b - (f a k / f k k) * f k b else f a b)
  else f a b

theorem eliminateS_spec {S : Store α} {k0 : Kind} {f : Nat → Nat → α} (hS : Is S k0 m n f) {k : Nat} (hk : k < n) (hkm : k < m) :
    ∃ S', eliminateS S m n k = .ok S' ∧
      Is S' k0 m n (if Scalar.eqb (f k k) Scalar.zero then f else elimFn f k) := by
  unfold eliminateS
  simp only [hS.rd hkm hk, ok_bind]
  by_cases hz : Scalar.eqb (f k k) Scalar.zero = true
  · simp only [hz, if_true, pure_eq]
    exact ⟨S, rfl, hS⟩
  · simp only [hz, if_false]
    obtain ⟨S', e, hS'⟩ := loopFrom_inv
      (fun i T => Is T k0 m n (fun a b => if k < a ∧ a < i then elimFn f k a b else f a b)) (k + 1) m (by omega)
      (fun i LU => do
        let a ← rd LU i k
        let d ← rd LU k k
        let LU1 ← wr LU i k (a / d)
        elimRowS LU1 n k i) S
      (hS.congr (fun a b _ _ => by
        have : ¬ (k < a ∧ a < k + 1) := by omega
        simp [this]))
      (by
        intro i T hi0 hi1 hT
        have h1 := hT.rd hi1 hk
        have h2 := hT.rd hkm hk
        have n1 : ¬ (k < i ∧ i < i) := by omega
        have n2 : ¬ (k < k ∧ k < i) := by omega
        simp only [n1, n2, if_false] at h1 h2
        obtain ⟨T1, e1, hT1⟩ := hT.wr hi1 hk (f i k / f k k)
        obtain ⟨T2, e2, hT2⟩ := elimRowS_spec hT1 hk (show k < i by omega) hi1
        refine ⟨T2, by simp only [h1, h2, ok_bind, e1, e2], hT2.congr ?_⟩
        intro a b ha hb
        simp only [upd]
        by_cases hai : a = i
        · subst hai
          have c1 : (k < a ∧ a < a + 1) := by omega
          have c2 : ¬ (k < a ∧ a < a) := by omega
          have c3 : ¬ (k < k ∧ k < a) := by omega
          have c4 : ¬ (k = a) := by omega
          simp only [c1, c2, c3, c4, if_true, if_false, true_and, and_true, false_and, elimFn, show k < a by omega]
          by_cases hbk : b = k
          · subst hbk
            simp
          · by_cases hkb : k < b
            · have : k + 1 ≤ b ∧ b < n := by omega
              simp [this, hbk, hkb]
            · have : ¬ (k + 1 ≤ b ∧ b < n) := by omega
              simp [this, hbk, hkb]
        · have c1 : (k < a ∧ a < i + 1) = (k < a ∧ a < i) := by
            apply propext; omega
          simp only [hai, false_and, if_false, c1])
    refine ⟨S', e, hS'.congr ?_⟩
    intro a b ha hb
    by_cases hka : k < a
    · simp [hka, ha]
    · simp [hka, elimFn]

theorem elimFn_refines (W : Mat α m n) (h : n ≤ m) (k : Fin n) {a b : Nat} (ha : a < m) (hb : b < n) :
    (if Scalar.eqb (fnOf W k.val k.val) Scalar.zero then fnOf W else elimFn (fnOf W) k.val) a b =
      fnOf (eliminate W k (k.castLE h)) a b := by
  have hkk : fnOf W k.val k.val = W.get (k.castLE h) k := fnOf_lt W (by omega) k.isLt
  unfold eliminate
  rw [hkk]
  by_cases hz : Scalar.eqb (W.get (k.castLE h) k) Scalar.zero = true
  · simp [hz]
  · rw [if_neg hz, if_neg hz, fnOf_ofFn _ ha hb]
    simp only [elimFn, Fin.val_castLE, Fin.ext_iff]
    have e1 : fnOf W a k.val = W.get ⟨a, ha⟩ k := fnOf_lt W ha k.isLt
    have e2 : fnOf W k.val b = W.get (k.castLE h) ⟨b, hb⟩ := fnOf_lt W (by omega) hb
    have e3 : fnOf W a b = W.get ⟨a, ha⟩ ⟨b, hb⟩ := fnOf_lt W ha hb
    rw [hkk, e1, e2, e3]

/-! ### one iteration, the whole constructor -/

theorem stepS_refines {s : StateS α} {t : LU.State α m n} (hr : Rep s t) (h : n ≤ m) (k : Fin n) :
    ∃ s', stepS k.val s = .ok s' ∧ Rep s' (LU.step h t k) := by
  obtain ⟨hm, hn, hlu, hsign, hpiv⟩ := hr
  have hkm : k.val < m := by omega
  unfold stepS
  rw [hm, findPivotS_refines t.lu hlu h k]
  simp only [ok_bind]
  set p := findPivot t.lu k (k.castLE h) with hp
  by_cases hpk : p = k.castLE h
  · have : ¬ (p.val ≠ k.val) := by simp [hpk]
    obtain ⟨S', e, hS'⟩ := eliminateS_spec hlu k.isLt hkm
    simp only [this, if_false, pure_eq, ok_bind]
    simp only [hm, hn, e, ok_bind]
    have hst : LU.step h t k = { t with lu := eliminate t.lu k (k.castLE h) } := by
      simp only [LU.step, exchange, ← hp, hpk, ne_eq, not_true_eq_false, if_false]
    rw [hst]
    exact ⟨_, rfl, rfl, rfl, hS'.congr (fun a b ha hb => elimFn_refines t.lu h k ha hb), hsign, hpiv⟩
  · have hne : p.val ≠ k.val := fun e => hpk (Fin.ext (by simpa using e))
    obtain ⟨S1, e1, hS1⟩ := swapRowsS_refines t.lu hlu p (k.castLE h)
    have e1' : swapRowsS s.lu n p.val k.val = .ok S1 := e1
    have e2 := swapPivS_refines t.piv p (k.castLE h)
    have e2' : swapPivS (Array.ofFn (n := m) fun i => (t.piv[i.val]'i.isLt).val) p.val k.val = _ := e2
    obtain ⟨S', e, hS'⟩ := eliminateS_spec hS1 k.isLt hkm
    simp only [hne, ne_eq, not_false_eq_true, if_true]
    rw [hn, e1', hpiv, e2']
    simp only [ok_bind, pure_eq]
    simp only [hm, hn, e, ok_bind]
    have h1 : (LU.step h t k).lu = eliminate (swapRows t.lu p (k.castLE h)) k (k.castLE h) := by
      simp only [LU.step, exchange, ← hp, hpk, ne_eq, not_false_eq_true, if_true]
    have h2 : (LU.step h t k).piv = swapPiv t.piv p (k.castLE h) := by
      simp only [LU.step, exchange, ← hp, hpk, ne_eq, not_false_eq_true, if_true]
    have h3 : (LU.step h t k).pivsign = - t.pivsign := by
      simp only [LU.step, exchange, ← hp, hpk, ne_eq, not_false_eq_true, if_true]
    refine ⟨_, rfl, rfl, rfl, ?_, ?_, ?_⟩
    · rw [h1]; exact hS'.congr (fun a b ha hb => elimFn_refines _ h k ha hb)
    · rw [h3]; simp [hsign]
    · rw [h2]

theorem shape_row_le {r c : Nat} (h : c ≤ r) : Kind.shape .row r c = (r, c) := by
  simp only [Kind.shape]
  by_cases h0 : r = 0
  · have : c = 0 := by omega
    simp [h0, this]
  · simp [h0]

theorem initS_refines {A : Store α} (hA : A.WF) (h : A.ncols ≤ A.nrows) :
    ∃ s, initS A = .ok s ∧ Rep s (LU.init (matOf A)) := by
  obtain ⟨O', e, hk, hH⟩ := copy_holds hA (Store.empty .row)
  have hk' : O'.kind = .row := by rw [hk]; rfl
  have := Is.of_holds hH (by rw [hk']; exact shape_row_le h)
  rw [hk'] at this
  refine ⟨{ lu := O', m := A.nrows, n := A.ncols, pivsign := 1, piv := Array.ofFn (n := A.nrows) fun i => i.val },
    by simp only [initS, e, liftMx, ok_bind, pure_eq], rfl, rfl, ?_, rfl, ?_⟩
  · exact this.congr (fun a b ha hb => by simp [LU.init, matOf, fnOf_ofFn _ ha hb])
  · simp [LU.init]

/-- **the constructor, statement by statement on any storage class, computes `LU.factor`** -/
theorem constructS_refines {A : Store α} (hA : A.WF) (h : A.ncols ≤ A.nrows) :
    ∃ s, constructS A = .ok s ∧ Rep s (LU.factor h (matOf A)) := by
  obtain ⟨s0, e0, r0⟩ := initS_refines hA h
  obtain ⟨s', e, r⟩ := loop_foldl (fun (s : StateS α) (t : LU.State α A.nrows A.ncols) => Rep s t) A.ncols stepS
    (LU.step h) s0 _ r0 (fun k s t hr => stepS_refines hr h k)
  refine ⟨s', ?_, r⟩
  simp only [constructS, e0, ok_bind, r0.2.1]
  exact e

end Bpp.LUS
