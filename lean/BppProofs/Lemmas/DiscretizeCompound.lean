import BppModel.DiscretizeCompound
import BppProofs.Lemmas.Discretize
/-!
C09: normalisation of the compound distributions at `ℝ`.
-/
namespace Bpp.Discretize
open Bpp

/-- non-negative probabilities summing to one -/
def Normalised (m : TMap ℝ) : Prop := (∀ e ∈ m, 0 ≤ e.2) ∧ (TMap.vals m).sum = 1

theorem normalised_iff (s : DD ℝ) : Normalised s.dist ↔ (probsNonneg s = true ∧ probsSumOne 0 s = true) := by
  unfold Normalised probsNonneg probsSumOne DD.probs TMap.vals
  simp only [List.all_eq_true, ScalarReal.leb_iff, ScalarReal.zero_eq, List.mem_map, sumL_eq, ScalarReal.abs_eq,
    ScalarReal.one_eq]
  constructor
  · rintro ⟨h1, h2⟩
    exact ⟨by rintro p ⟨e, he, rfl⟩; exact h1 e he, by rw [h2]; simp⟩
  · rintro ⟨h1, h2⟩
    refine ⟨fun e he => h1 e.2 ⟨e, he, rfl⟩, ?_⟩
    have := abs_nonpos_iff.1 h2; linarith

/-! ## `addTo` and `assign` on the values -/

theorem addTo_sum (prec k v : ℝ) (m : TMap ℝ) : (TMap.vals (TMap.addTo prec k v m)).sum = (TMap.vals m).sum + v := by
  induction m with
  | nil => simp [TMap.addTo, TMap.vals]
  | cons e t ih =>
    simp only [TMap.addTo]
    split
    · simp only [TMap.vals, List.map_cons, List.sum_cons] at ih ⊢; rw [ih]; ring
    · split
      · simp [TMap.vals]; ring
      · simp [TMap.vals]; ring

theorem addTo_nonneg (prec k v : ℝ) (hv : 0 ≤ v) (m : TMap ℝ) (h : ∀ e ∈ m, 0 ≤ e.2) : ∀ e ∈ TMap.addTo prec k v m, 0 ≤ e.2 := by
  induction m with
  | nil => intro e he; simp [TMap.addTo] at he; subst he; simpa using hv
  | cons a t ih =>
    have ha := h a (by simp)
    have ht : ∀ e ∈ t, 0 ≤ e.2 := fun e he => h e (by simp [he])
    simp only [TMap.addTo]
    split
    · intro e he
      rcases List.mem_cons.1 he with rfl | he
      · exact ha
      · exact ih ht e he
    · split
      · intro e he
        rcases List.mem_cons.1 he with rfl | he
        · simpa using hv
        · exact h e he
      · intro e he
        rcases List.mem_cons.1 he with rfl | he
        · show 0 ≤ a.2 + v; linarith
        · exact ht e he

/-- `m[k] = 0` keeps a map of zeros a map of zeros -/
theorem assign_zero (prec k : ℝ) (m : TMap ℝ) (h : ∀ e ∈ m, e.2 = 0) : ∀ e ∈ TMap.assign prec k 0 m, e.2 = 0 := by
  induction m with
  | nil => intro e he; simp [TMap.assign] at he; subst he; rfl
  | cons a t ih =>
    have ht : ∀ e ∈ t, e.2 = 0 := fun e he => h e (by simp [he])
    simp only [TMap.assign]
    split
    · intro e he
      rcases List.mem_cons.1 he with rfl | he
      · exact h _ (by simp)
      · exact ih ht e he
    · split
      · intro e he
        rcases List.mem_cons.1 he with rfl | he
        · rfl
        · exact h e he
      · intro e he
        rcases List.mem_cons.1 he with rfl | he
        · rfl
        · exact ht e he

theorem sum_zero_of_all_zero (m : TMap ℝ) (h : ∀ e ∈ m, e.2 = 0) : (TMap.vals m).sum = 0 := by
  induction m with
  | nil => simp [TMap.vals]
  | cons a t ih =>
    simp only [TMap.vals, List.map_cons, List.sum_cons] at ih ⊢
    rw [h a (by simp), ih (fun e he => h e (by simp [he]))]; ring

/-- adding a list of (value, weight·probability) -/
theorem foldl_addTo (prec w : ℝ) (hw : 0 ≤ w) (l : List (ℝ × ℝ)) (m : TMap ℝ) (hl : ∀ e ∈ l, 0 ≤ e.2) (hm : ∀ e ∈ m, 0 ≤ e.2) :
    (∀ e ∈ l.foldl (fun m vp => TMap.addTo prec vp.1 (vp.2 * w) m) m, 0 ≤ e.2) ∧
    (TMap.vals (l.foldl (fun m vp => TMap.addTo prec vp.1 (vp.2 * w) m) m)).sum = (TMap.vals m).sum + (l.map (·.2)).sum * w := by
  induction l generalizing m with
  | nil => exact ⟨by simpa using hm, by simp⟩
  | cons a t ih =>
    simp only [List.foldl_cons]
    have ha := hl a (by simp)
    obtain ⟨h1, h2⟩ := ih (TMap.addTo prec a.1 (a.2 * w) m) (fun e he => hl e (by simp [he]))
      (addTo_nonneg prec a.1 (a.2 * w) (mul_nonneg ha hw) m hm)
    refine ⟨h1, ?_⟩
    rw [h2, addTo_sum]; simp; ring

/-! ## stick-breaking weights -/

theorem probsOfThetas_sum (ts : List ℝ) (x : ℝ) : (probsOfThetas ts x).sum = x := by
  induction ts generalizing x with
  | nil => simp [probsOfThetas]
  | cons t r ih => simp [probsOfThetas, ih]; ring

theorem probsOfThetas_nonneg (ts : List ℝ) (x : ℝ) (hx : 0 ≤ x) (h : ∀ t ∈ ts, 0 ≤ t ∧ t ≤ 1) :
    ∀ p ∈ probsOfThetas ts x, 0 ≤ p := by
  induction ts generalizing x with
  | nil => simp [probsOfThetas, hx]
  | cons t r ih =>
    have ht := h t (by simp)
    intro p hp
    simp only [probsOfThetas, List.mem_cons] at hp
    rcases hp with rfl | hp
    · exact mul_nonneg ht.1 hx
    · refine ih (x * (Scalar.one - t)) ?_ (fun u hu => h u (by simp [hu])) p hp
      simp only [ScalarReal.one_eq]; exact mul_nonneg hx (by linarith [ht.2])

theorem probsOfThetas_length (ts : List ℝ) (x : ℝ) : (probsOfThetas ts x).length = ts.length + 1 := by
  induction ts generalizing x with
  | nil => simp [probsOfThetas]
  | cons t r ih => simp [probsOfThetas, ih]

theorem unitC_iff (v : ℝ) : (unitC : Interval ℝ).isCorrect v = true ↔ (0 ≤ v ∧ v ≤ 1) := by
  simp [unitC, Interval.make, Interval.isCorrect, Interval.isCorrectB, Bound.geb, Bound.leb]

/-! ## invariant-mixed -/

theorem invar_update_dist (s : InvarSt ℝ) : s.update.1.top.dist = s.classes := by
  unfold InvarSt.update
  simp only
  repeat' split
  all_goals rfl

theorem invar_update_normalised (s : InvarSt ℝ) (hp : 0 ≤ s.p ∧ s.p ≤ 1) (hsub : Normalised s.sub.top.dist) :
    Normalised s.update.1.top.dist := by
  rw [invar_update_dist]
  have hlen : s.sub.top.cats.length = s.sub.top.probs.length := by simp [DD.cats, DD.probs, TMap.keys, TMap.vals]
  have hzip : ((s.sub.top.cats.zip s.sub.top.probs).map (·.2)) = s.sub.top.probs := by
    rw [List.map_snd_zip]; omega
  have key := foldl_addTo s.top.prec (1 - s.p) (by linarith [hp.2]) (s.sub.top.cats.zip s.sub.top.probs) [(s.inv, s.p)]
    (by
      intro e he
      have := (List.of_mem_zip he).2
      simp only [DD.probs, TMap.vals, List.mem_map] at this
      obtain ⟨x, hx, hx2⟩ := this
      rw [← hx2]; exact hsub.1 x hx)
    (by intro e he; simp at he; subst he; exact hp.1)
  rw [hzip] at key
  have hs : s.sub.top.probs.sum = 1 := hsub.2
  have hm : s.classes = (s.sub.top.cats.zip s.sub.top.probs).foldl (fun m vp => TMap.addTo s.top.prec vp.1 (vp.2 * (1 - s.p)) m) [(s.inv, s.p)] := by
    unfold InvarSt.classes
    congr 1; funext m cp; simp only [ScalarReal.one_eq]; rw [mul_comm]
  rw [hm]
  refine ⟨key.1, ?_⟩
  rw [key.2, hs]; simp [TMap.vals]

/-! ## mixture -/

theorem zeros_inner (prec : ℝ) (l : List ℝ) (m : TMap ℝ) (h : ∀ e ∈ m, e.2 = 0) :
    ∀ e ∈ l.foldl (fun m v => TMap.assign prec v Scalar.zero m) m, e.2 = 0 := by
  induction l generalizing m with
  | nil => simpa using h
  | cons a t ih =>
    simp only [List.foldl_cons]
    exact ih _ (by simpa using assign_zero prec a m h)

theorem mix_zeros (s : MixSt ℝ) : ∀ e ∈ s.zeros, e.2 = 0 := by
  unfold MixSt.zeros
  generalize hm : ([] : TMap ℝ) = m
  have h0 : ∀ e ∈ m, e.2 = 0 := by subst hm; simp
  clear hm
  induction s.subs generalizing m with
  | nil => simpa using h0
  | cons l t ih =>
    simp only [List.foldl_cons]
    exact ih _ (zeros_inner s.top.prec l.top.cats m h0)

/-- the mixture's probabilities: `Σᵢ wᵢ · Σⱼ pᵢⱼ` -/
theorem mix_classes_sum (prec : ℝ) (lw : List (Leaf ℝ × ℝ)) (m : TMap ℝ) (hm : ∀ e ∈ m, 0 ≤ e.2)
    (hw : ∀ x ∈ lw, 0 ≤ x.2) (hsub : ∀ x ∈ lw, Normalised x.1.top.dist) :
    (∀ e ∈ lw.foldl (fun m lw => (lw.1.top.cats.zip lw.1.top.probs).foldl (fun m vp => TMap.addTo prec vp.1 (vp.2 * lw.2) m) m) m, 0 ≤ e.2) ∧
    (TMap.vals (lw.foldl (fun m lw => (lw.1.top.cats.zip lw.1.top.probs).foldl (fun m vp => TMap.addTo prec vp.1 (vp.2 * lw.2) m) m) m)).sum
      = (TMap.vals m).sum + (lw.map (·.2)).sum := by
  induction lw generalizing m with
  | nil => exact ⟨by simpa using hm, by simp⟩
  | cons a t ih =>
    simp only [List.foldl_cons]
    have hna := hsub a (by simp)
    have hlen : a.1.top.cats.length = a.1.top.probs.length := by simp [DD.cats, DD.probs, TMap.keys, TMap.vals]
    have hzip : ((a.1.top.cats.zip a.1.top.probs).map (·.2)) = a.1.top.probs := by
      rw [List.map_snd_zip]; omega
    have key := foldl_addTo prec a.2 (hw a (by simp)) (a.1.top.cats.zip a.1.top.probs) m
      (by
        intro e he
        have := (List.of_mem_zip he).2
        simp only [DD.probs, TMap.vals, List.mem_map] at this
        obtain ⟨x, hx, hx2⟩ := this
        rw [← hx2]; exact hna.1 x hx)
      hm
    rw [hzip] at key
    have hs : a.1.top.probs.sum = 1 := hna.2
    obtain ⟨h1, h2⟩ := ih _ key.1 (fun x hx => hw x (by simp [hx])) (fun x hx => hsub x (by simp [hx]))
    refine ⟨h1, ?_⟩
    rw [h2, key.2, hs]; simp; ring

theorem mix_update_normalised (s : MixSt ℝ) (hlen : s.subs.length = s.probas.length)
    (hw : (∀ w ∈ s.probas, 0 ≤ w) ∧ s.probas.sum = 1) (hsub : ∀ l ∈ s.subs, Normalised l.top.dist) :
    Normalised s.update.top.dist := by
  show Normalised s.classes
  unfold MixSt.classes
  have hz := mix_zeros s
  obtain ⟨h1, h2⟩ := mix_classes_sum s.top.prec (s.subs.zip s.probas) s.zeros
    (fun e he => by rw [hz e he])
    (fun x hx => hw.1 x.2 (List.of_mem_zip hx).2)
    (fun x hx => hsub x.1 (List.of_mem_zip hx).1)
  refine ⟨h1, ?_⟩
  rw [h2, sum_zero_of_all_zero _ hz, List.map_snd_zip (by omega), hw.2]; ring


/-! ## user-specified distribution -/

theorem findFree_spec (prec step lo hi v : ℝ) (m : TMap ℝ) (fuel : Nat) (j : Int) (c : ℝ)
    (h : SimpleSt.findFree prec step lo hi v m fuel j = some c) : TMap.find? prec c m = none := by
  induction fuel generalizing j with
  | zero => simp [SimpleSt.findFree] at h
  | succ n ih =>
    simp only [SimpleSt.findFree] at h
    split at h
    · rename_i h1
      injection h with h; subst h
      simp only [Bool.and_eq_true, Option.isNone_iff_eq_none] at h1
      exact h1.2
    · split at h
      · rename_i _ h2
        injection h with h; subst h
        simp only [Bool.and_eq_true, Option.isNone_iff_eq_none] at h2
        exact h2.2
      · exact ih _ h

theorem vals_assign_not_found (prec k v : ℝ) (m : TMap ℝ) (h : TMap.find? prec k m = none) :
    (TMap.vals (TMap.assign prec k v m)).sum = (TMap.vals m).sum + v ∧
    ((∀ e ∈ m, 0 ≤ e.2) → 0 ≤ v → ∀ e ∈ TMap.assign prec k v m, 0 ≤ e.2) := by
  have hp := (TMap.assign_not_found prec k v m h).2
  constructor
  · unfold TMap.vals
    rw [(hp.map (·.2)).sum_eq]; simp; ring
  · intro hm hv e he
    rw [hp.mem_iff] at he
    rcases List.mem_cons.1 he with rfl | he
    · exact hv
    · exact hm e he

theorem rebuild_go (s : SimpleSt ℝ) (l : List (ℝ × ℝ)) (m m' : TMap ℝ) (h : SimpleSt.rebuild.go s l m = some m')
    (hl : ∀ e ∈ l, 0 ≤ e.2) (hm : ∀ e ∈ m, 0 ≤ e.2) :
    (∀ e ∈ m', 0 ≤ e.2) ∧ (TMap.vals m').sum = (TMap.vals m).sum + (l.map (·.2)).sum := by
  induction l generalizing m with
  | nil => simp [SimpleSt.rebuild.go] at h; subst h; exact ⟨hm, by simp⟩
  | cons a t ih =>
    obtain ⟨v, p⟩ := a
    have hp : 0 ≤ p := hl (v, p) (by simp)
    simp only [SimpleSt.rebuild.go] at h
    split at h
    · split at h
      · rename_i v2 hf
        have hnf := findFree_spec _ _ _ _ _ _ _ _ _ hf
        obtain ⟨a1, a2⟩ := vals_assign_not_found s.dd.prec v2 p m hnf
        obtain ⟨b1, b2⟩ := ih _ h (fun e he => hl e (by simp [he])) (a2 hm hp)
        exact ⟨b1, by rw [b2, a1]; simp; ring⟩
      · simp at h
    · rename_i hnf
      have hnf' : TMap.find? s.dd.prec v m = none := by
        cases hh : TMap.find? s.dd.prec v m with
        | none => rfl
        | some x => simp [hh] at hnf
      obtain ⟨a1, a2⟩ := vals_assign_not_found s.dd.prec v p m hnf'
      obtain ⟨b1, b2⟩ := ih _ h (fun e he => hl e (by simp [he])) (a2 hm hp)
      exact ⟨b1, by rw [b2, a1]; simp; ring⟩

/-- after any parameter notification the user-specified distribution is normalised: its
probabilities are the stick-breaking image of the `theta` parameters, which their constraint
keeps in `[0,1]` -/
theorem simple_rebuild_normalised (s s' : SimpleSt ℝ) (hlen : s.thetas.length + 1 = s.vs.length)
    (hth : ∀ t ∈ s.thetas, 0 ≤ t ∧ t ≤ 1) (h : s.rebuild = .ok s') : Normalised s'.dd.dist := by
  unfold SimpleSt.rebuild at h
  simp only at h
  split at h
  · rename_i m hm
    injection h with h; subst h
    have hps := probsOfThetas_nonneg s.thetas (Scalar.one : ℝ) (by simp) hth
    have hl : (s.vs.zip (probsOfThetas s.thetas Scalar.one)).map (·.2) = probsOfThetas s.thetas (Scalar.one : ℝ) := by
      rw [List.map_snd_zip]; rw [probsOfThetas_length]; omega
    obtain ⟨a, b⟩ := rebuild_go s _ [] m hm (fun e he => hps e.2 (List.of_mem_zip he).2) (by simp)
    refine ⟨a, ?_⟩
    rw [b, hl, probsOfThetas_sum]; simp [TMap.vals]
  · simp at h

end Bpp.Discretize
