import BppProofs.Lemmas.ObserverWorld
/-!
Helper lemmas for `Props/C14Copy.lean`: after the notifications of *any* graph transition have
been delivered, the object of every node / edge that disappeared is in none of the four maps of
every observer (`ForgotDead`), and the executable `Obs.forgotOk` the driver evaluates says
exactly that.
-/
set_option linter.unusedSimpArgs false
set_option linter.unusedVariables false
namespace Bpp.Graph
open Bpp.AL

/-- the objects of the nodes and edges of `before` that are not in graph `g` any more are in none
of the maps of `after` -/
def ForgotDead (g : G) (before after : Obs) : Prop :=
  (∀ a n, find a before.Ng = some n → g.hasNode n = false →
      Forgotten after.gN after.Ng a ∧ Forgotten after.iN after.Ni a) ∧
  (∀ x e, find x before.Eg = some e → g.hasEdge e = false →
      Forgotten after.gE after.Eg x ∧ Forgotten after.iE after.Ei x)

/-- what notifications can do to an observer: object→id entries only disappear, and an object that
was associated in `o0` and has lost its id has lost its index too -/
structure Shrunk (o0 o : Obs) : Prop where
  ng : ∀ a n, find a o.Ng = some n → find a o0.Ng = some n
  eg : ∀ x e, find x o.Eg = some e → find x o0.Eg = some e
  ni : ∀ a, (find a o0.Ng).isSome = true → find a o.Ng = none → find a o.Ni = none
  ei : ∀ x, (find x o0.Eg).isSome = true → find x o.Eg = none → find x o.Ei = none

theorem Shrunk.refl (o : Obs) : Shrunk o o :=
  ⟨fun _ _ h => h, fun _ _ h => h, (fun a h1 h2 => by rw [h2] at h1; cases h1), (fun a h1 h2 => by rw [h2] at h1; cases h1)⟩

theorem find_erase_some {k k' v : Nat} {l : List (Nat × Nat)} (h : find k' (erase k l) = some v) : find k' l = some v := by
  rw [find_erase] at h; split at h
  · cases h
  · exact h

theorem find_erase_none {k k' : Nat} {l : List (Nat × Nat)} (h : find k' l = none) : find k' (erase k l) = none := by
  rw [find_erase]; split
  · rfl
  · exact h

theorem forgetNodeIndex_Ni (o : Obs) (x a : Nat) :
    (find a o.Ni = none → find a (o.forgetNodeIndex x).Ni = none) ∧ find x (o.forgetNodeIndex x).Ni = none := by
  unfold Obs.forgetNodeIndex
  split
  · exact ⟨fun h => find_erase_none h, by simp [find_erase]⟩
  · rename_i hn; exact ⟨fun h => h, hn⟩

theorem forgetEdgeIndex_Ei (o : Obs) (x a : Nat) :
    (find a o.Ei = none → find a (o.forgetEdgeIndex x).Ei = none) ∧ find x (o.forgetEdgeIndex x).Ei = none := by
  unfold Obs.forgetEdgeIndex
  split
  · exact ⟨fun h => find_erase_none h, by simp [find_erase]⟩
  · rename_i hn; exact ⟨fun h => h, hn⟩

theorem forgetEdgeIndex_Ni (o : Obs) (x : Nat) : (o.forgetEdgeIndex x).Ni = o.Ni := (forgetEdgeIndex_same o x).2.2.2.2.2
theorem forgetNodeIndex_Ei (o : Obs) (a : Nat) : (o.forgetNodeIndex a).Ei = o.Ei := (forgetNodeIndex_same o a).2.2.2.2.2

theorem Shrunk.deletedNode {o0 o : Obs} (h : Shrunk o0 o) (n : Nat) : Shrunk o0 (o.deletedNode n) := by
  unfold Obs.deletedNode
  split
  · split
    · rename_i x hx
      have hs := forgetNodeIndex_same { o with gN := Vec.put o.gN n none, Ng := AL.erase x o.Ng } x
      refine ⟨?_, ?_, ?_, ?_⟩
      · intro a m ha; rw [hs.2.2.1] at ha; exact h.ng a m (find_erase_some ha)
      · intro y e hy; rw [hs.2.2.2.1] at hy; exact h.eg y e hy
      · intro a ha0 ha
        rw [hs.2.2.1] at ha
        simp only [find_erase] at ha
        have hf := forgetNodeIndex_Ni { o with gN := Vec.put o.gN n none, Ng := AL.erase x o.Ng } x a
        split at ha
        · rename_i hxa; subst hxa; exact hf.2
        · exact hf.1 (h.ni a ha0 ha)
      · intro y hy0 hy
        rw [hs.2.2.2.1] at hy
        rw [forgetNodeIndex_Ei]
        exact h.ei y hy0 hy
    · exact ⟨h.ng, h.eg, h.ni, h.ei⟩
  · exact h

theorem Shrunk.deletedEdge {o0 o : Obs} (h : Shrunk o0 o) (e : Nat) : Shrunk o0 (o.deletedEdge e) := by
  unfold Obs.deletedEdge
  split
  · split
    · rename_i x hx
      have hs := forgetEdgeIndex_same { o with gE := Vec.put o.gE e none, Eg := AL.erase x o.Eg } x
      refine ⟨?_, ?_, ?_, ?_⟩
      · intro a m ha; rw [hs.2.2.1] at ha; exact h.ng a m ha
      · intro y e' hy; rw [hs.2.2.2.1] at hy; exact h.eg y e' (find_erase_some hy)
      · intro a ha0 ha
        rw [hs.2.2.1] at ha
        rw [forgetEdgeIndex_Ni]
        exact h.ni a ha0 ha
      · intro y hy0 hy
        rw [hs.2.2.2.1] at hy
        simp only [find_erase] at hy
        have hf := forgetEdgeIndex_Ei { o with gE := Vec.put o.gE e none, Eg := AL.erase x o.Eg } x y
        split at hy
        · rename_i hxy; subst hxy; exact hf.2
        · exact hf.1 (h.ei y hy0 hy)
    · exact ⟨h.ng, h.eg, h.ni, h.ei⟩
  · exact h

theorem Shrunk.notify {o0 o : Obs} (h : Shrunk o0 o) (ev : Event) : Shrunk o0 (o.notify ev) := by
  cases ev with
  | edges l =>
    simp only [Obs.notify]
    induction l generalizing o with
    | nil => exact h
    | cons e r ih => simp only [List.foldl_cons]; exact ih (h.deletedEdge e)
  | nodes l =>
    simp only [Obs.notify]
    induction l generalizing o with
    | nil => exact h
    | cons n r ih => simp only [List.foldl_cons]; exact ih (h.deletedNode n)

theorem Shrunk.notifyAll {o0 o : Obs} (h : Shrunk o0 o) (evs : List Event) : Shrunk o0 (evs.foldl Obs.notify o) := by
  induction evs generalizing o with
  | nil => exact h
  | cons ev r ih => simp only [List.foldl_cons]; exact ih (h.notify ev)

/-- an observer in order against the new graph that only shrank has forgotten everything dead -/
theorem forgotDead_of_shrunk {g' : G} {o o' : Obs} (hs : Shrunk o o') (hi : OInv g' o') : ForgotDead g' o o' := by
  constructor
  · intro a n ha hd
    have hnone : find a o'.Ng = none := by
      rcases G.find_cases a o'.Ng with h | ⟨m, h⟩
      · exact h
      · have := hs.ng a m h
        rw [ha] at this; injection this with this; subst this
        have := hi.n_live a n h
        rw [hd] at this; cases this
    exact ⟨hi.nodes.forgotten_of_none hnone, hi.nidx.forgotten_of_none (hs.ni a (by simp [ha]) hnone)⟩
  · intro x e hx hd
    have hnone : find x o'.Eg = none := by
      rcases G.find_cases x o'.Eg with h | ⟨m, h⟩
      · exact h
      · have := hs.eg x m h
        rw [hx] at this; injection this with this; subst this
        have := hi.e_live x e h
        rw [hd] at this; cases this
    exact ⟨hi.edges.forgotten_of_none hnone, hi.eidx.forgotten_of_none (hs.ei x (by simp [hx]) hnone)⟩

/-- the graph of a world in order moved to `g'` (consistent, observers told) and the notifications
were delivered: every observer has forgotten, in all its maps, what is no longer in the graph -/
theorem deliver_forgets {w : World} (hw : WInv w) {g' : G} (hn : Notified w.g g') (k : Nat) (o : Obs)
    (hk : w.getObs k = some o) :
    ∃ o', ({ w with g := g' }.deliver).getObs k = some o' ∧ ForgotDead g' o o' := by
  refine ⟨g'.pending.foldl Obs.notify o, ?_, ?_⟩
  · simp only [World.deliver, World.getObs, List.getElem?_map]
    simp only [World.getObs] at hk
    rcases hv : w.obs[k]? with _ | x
    · simp [hv] at hk
    · cases x with
      | none => simp [hv] at hk
      | some o0 => simp [hv] at hk; subst hk; simp
  · exact forgotDead_of_shrunk ((Shrunk.refl o).notifyAll _) (deliver_inv hw.quiet hn (hw.obs k o hk))

/-! ### the executable form -/

theorem contains_some_iff (v : Vec) (a : Obj) : v.contains (some a) = false ↔ ∀ i, Vec.get v i ≠ some a := by
  constructor
  · intro h i hi
    unfold Vec.get at hi
    rcases hv : v[i]? with _ | x
    · simp [hv] at hi
    · simp [hv] at hi; subst hi
      have := List.mem_of_getElem? hv
      have : v.contains (some a) = true := by simpa using this
      rw [h] at this; cases this
  · intro h
    cases hc : v.contains (some a)
    · rfl
    · have hm : some a ∈ v := by simpa using hc
      obtain ⟨i, hi⟩ := List.getElem?_of_mem hm
      exact absurd (by simp [Vec.get, hi]) (h i)

theorem gone_iff (v : Vec) (m : List (Nat × Nat)) (a : Obj) :
    ((!(has a m)) = true ∧ (!(v.contains (some a))) = true) ↔ Forgotten v m a := by
  unfold Forgotten
  rw [← contains_some_iff]
  unfold has
  rcases G.find_cases a m with h | ⟨r, h⟩ <;> cases hc : v.contains (some a) <;> simp [h, hc]

/-- the predicate the driver evaluates (`Obs.forgotOk`) is `ForgotDead` -/
theorem forgotOk_iff (g : G) (o o' : Obs) (hn : Asc o.Ng) (he : Asc o.Eg) :
    Obs.forgotOk g o o' = true ↔ ForgotDead g o o' := by
  unfold Obs.forgotOk ForgotDead
  simp only [Bool.and_eq_true, List.all_eq_true, Bool.or_eq_true]
  constructor
  · rintro ⟨h1, h2⟩
    constructor
    · intro a n ha hd
      have := h1 (a, n) (find_some_mem ha)
      rcases this with h | h
      · rw [hd] at h; cases h
      · exact ⟨(gone_iff _ _ _).mp h.1, (gone_iff _ _ _).mp h.2⟩
    · intro x e hx hd
      have := h2 (x, e) (find_some_mem hx)
      rcases this with h | h
      · rw [hd] at h; cases h
      · exact ⟨(gone_iff _ _ _).mp h.1, (gone_iff _ _ _).mp h.2⟩
  · rintro ⟨h1, h2⟩
    constructor
    · intro p hp
      cases hd : g.hasNode p.2
      · right
        have := h1 p.1 p.2 ((mem_iff_find hn p.1 p.2).mp hp) hd
        exact ⟨(gone_iff _ _ _).mpr this.1, (gone_iff _ _ _).mpr this.2⟩
      · left; rfl
    · intro p hp
      cases hd : g.hasEdge p.2
      · right
        have := h2 p.1 p.2 ((mem_iff_find he p.1 p.2).mp hp) hd
        exact ⟨(gone_iff _ _ _).mpr this.1, (gone_iff _ _ _).mpr this.2⟩
      · left; rfl

end Bpp.Graph
