import BppModel.EigenBook
import BppProofs.Lemmas.EigenGlue
import Mathlib.Logic.Equiv.Basic
import Mathlib.Algebra.Group.End
/-!
Helper lemmas for C06, round 2 (`BppModel/EigenBook.lean` at `ℝ`): the bookkeeping of hqr2 / tql2 and
the final sort of tql2.
-/
namespace Bpp.EigenBook
open Bpp Bpp.ScalarReal Bpp.EigenGlue Finset

@[simp] theorem two_eq : (two : ℝ) = 2 := by simp [two]

theorem upd_same (f : Nat → ℝ) (i : Nat) (v : ℝ) : upd f i v i = v := by simp [upd]
theorem upd_ne (f : Nat → ℝ) (i j : Nat) (v : ℝ) (h : j ≠ i) : upd f i v j = f j := by simp [upd, h]

/-! ### "Two roots found" -/

/-- `p` and `q` of "Two roots found" -/
noncomputable def defP (a dd : ℝ) : ℝ := (a - dd) / 2
noncomputable def defQ (a b c dd : ℝ) : ℝ := defP a dd * defP a dd + c * b

theorem deflate2_real (a b c dd σ : ℝ) (hq : 0 ≤ defQ a b c dd) :
    (deflate2 a b c dd σ).e1 = 0 ∧ (deflate2 a b c dd σ).e2 = 0 ∧
    (deflate2 a b c dd σ).d1 + (deflate2 a b c dd σ).d2 = (a + σ) + (dd + σ) ∧
    (deflate2 a b c dd σ).d1 * (deflate2 a b c dd σ).d2 = (a + σ) * (dd + σ) - b * c := by
  unfold defQ defP at hq
  set p := (a - dd) / 2 with hp
  set s := Real.sqrt (p * p + c * b) with hs
  have hss : s * s = p * p + c * b := Real.mul_self_sqrt hq
  have hs0 : 0 ≤ s := Real.sqrt_nonneg _
  have ha : a = dd + 2 * p := by rw [hp]; ring
  have hw : c * b = s * s - p * p := by linarith
  simp only [deflate2, two_eq, nabs_eq, ScalarReal.geb_iff, ScalarReal.eqb_iff, ScalarReal.zero_eq,
    ScalarReal.sqrt_eq, ← hp, abs_of_nonneg hq, ← hs, hq, if_true]
  by_cases hp0 : 0 ≤ p
  · simp only [hp0, if_true]
    by_cases hz : p + s = 0
    · have hp' : p = 0 := by linarith
      have hs' : s = 0 := by linarith
      simp only [hz, if_true]
      refine ⟨trivial, trivial, ?_, ?_⟩
      · rw [ha, hp']; ring
      · have : b * c = 0 := by rw [mul_comm]; rw [hw, hs', hp']; ring
        rw [this, ha, hp']; ring
    · simp only [hz, if_false]
      refine ⟨trivial, trivial, ?_, ?_⟩
      · rw [hw, ha]; field_simp; ring
      · rw [mul_comm b c, hw, ha]; field_simp; ring
  · simp only [hp0, if_false]
    have hz : p - s ≠ 0 := by
      have : p < 0 := not_le.mp hp0
      intro h; linarith
    simp only [hz, if_false]
    refine ⟨trivial, trivial, ?_, ?_⟩
    · rw [hw, ha]; field_simp; ring
    · rw [mul_comm b c, hw, ha]; field_simp; ring

theorem deflate2_complex (a b c dd σ : ℝ) (hq : defQ a b c dd < 0) :
    (deflate2 a b c dd σ).d1 = (deflate2 a b c dd σ).d2 ∧
    0 < (deflate2 a b c dd σ).e1 ∧ (deflate2 a b c dd σ).e2 = -(deflate2 a b c dd σ).e1 ∧
    (deflate2 a b c dd σ).d1 + (deflate2 a b c dd σ).d2 = (a + σ) + (dd + σ) ∧
    (deflate2 a b c dd σ).d1 * (deflate2 a b c dd σ).d2 + (deflate2 a b c dd σ).e1 * (deflate2 a b c dd σ).e1
      = (a + σ) * (dd + σ) - b * c := by
  unfold defQ defP at hq
  set p := (a - dd) / 2 with hp
  have hnq : ¬ 0 ≤ p * p + c * b := not_le.mpr hq
  set s := Real.sqrt (-(p * p + c * b)) with hs
  have hss : s * s = -(p * p + c * b) := Real.mul_self_sqrt (by linarith)
  have hs0 : 0 < s := Real.sqrt_pos.mpr (by linarith)
  have ha : a = dd + 2 * p := by rw [hp]; ring
  simp only [deflate2, two_eq, nabs_eq, ScalarReal.geb_iff, ScalarReal.eqb_iff, ScalarReal.zero_eq,
    ScalarReal.sqrt_eq, ← hp, abs_of_neg hq, ← hs, hnq, if_false]
  refine ⟨trivial, hs0, trivial, ?_, ?_⟩
  · rw [ha]; ring
  · rw [hss, ha]; ring

theorem deflate2_sum (a b c dd σ : ℝ) :
    (deflate2 a b c dd σ).d1 + (deflate2 a b c dd σ).d2 = (a + σ) + (dd + σ) := by
  by_cases hq : 0 ≤ defQ a b c dd
  · exact (deflate2_real a b c dd σ hq).2.2.1
  · exact (deflate2_complex a b c dd σ (not_le.mp hq)).2.2.2.1

/-! ### window sums -/

/-- sum of the first `n` entries -/
noncomputable def winSum (f : Nat → ℝ) (n : Nat) : ℝ := ∑ i ∈ range n, f i

theorem winSum_succ (f : Nat → ℝ) (n : Nat) : winSum f (n + 1) = winSum f n + f n := by
  simp [winSum, sum_range_succ]

theorem winSum_congr (f g : Nat → ℝ) (n : Nat) (h : ∀ i, i < n → f i = g i) : winSum f n = winSum g n := by
  unfold winSum; exact sum_congr rfl (fun i hi => h i (mem_range.mp hi))

theorem winSum_sub_const (f : Nat → ℝ) (x : ℝ) (n : Nat) : winSum (fun i => f i - x) n = winSum f n - n * x := by
  induction n with
  | zero => simp [winSum]
  | succ k ih => rw [winSum_succ, winSum_succ, ih]; push_cast; ring

/-- sum of the entries `n ≤ i < N` -/
noncomputable def tailSum (f : Nat → ℝ) (n N : Nat) : ℝ := ∑ i ∈ Ico n N, f i

theorem tailSum_congr (f g : Nat → ℝ) (n N : Nat) (h : ∀ i, n ≤ i → i < N → f i = g i) :
    tailSum f n N = tailSum g n N := by
  unfold tailSum; exact sum_congr rfl (fun i hi => h i (mem_Ico.mp hi).1 (mem_Ico.mp hi).2)

theorem tailSum_bot (f : Nat → ℝ) (n N : Nat) (hn : n < N) : tailSum f n N = f n + tailSum f (n + 1) N := by
  unfold tailSum; rw [sum_eq_sum_Ico_succ_bot hn]

theorem tailSum_self (f : Nat → ℝ) (N : Nat) : tailSum f N N = 0 := by simp [tailSum]

theorem tailSum_zero (f : Nat → ℝ) (N : Nat) : tailSum f 0 N = winSum f N := by
  unfold tailSum winSum; rw [Nat.Ico_zero_eq_range]

/-! ### hqr2: the shift / deflate machine -/

theorem hqr_exshift_step (st st' : HqrSt ℝ) (ev : HqrEv ℝ) (h : hqrStep st ev = some st')
    (hi : st.exshift = st.shifts.sum) : st'.exshift = st'.shifts.sum := by
  cases ev with
  | sweep d' => simp [hqrStep] at h; subst h; exact hi
  | ex10 =>
    simp only [hqrStep] at h
    split at h
    · simp only [Option.some.injEq] at h; subst h
      simp [applyShift, hi]; ring
    · cases h
  | ex30 w =>
    simp only [hqrStep] at h
    split at h
    · split at h
      · simp only [Option.some.injEq] at h; subst h
        simp [applyShift, hi]; ring
      · simp only [Option.some.injEq] at h; subst h; exact hi
    · cases h
  | defl1 =>
    simp only [hqrStep] at h
    split at h
    · simp only [Option.some.injEq] at h; subst h; exact hi
    · cases h
  | defl2 b c =>
    simp only [hqrStep] at h
    split at h
    · simp only [Option.some.injEq] at h; subst h; exact hi
    · cases h

theorem hqr_exshift_run (evs : List (HqrEv ℝ)) (st st' : HqrSt ℝ) (h : hqrRun st evs = some st')
    (hi : st.exshift = st.shifts.sum) : st'.exshift = st'.shifts.sum := by
  induction evs generalizing st with
  | nil => simp [hqrRun] at h; subst h; exact hi
  | cons ev evs ih =>
    simp only [hqrRun] at h
    cases hs : hqrStep st ev with
    | none => rw [hs] at h; cases h
    | some st1 =>
      rw [hs] at h
      exact ih st1 h (hqr_exshift_step st st1 ev hs hi)

/-- a step never enlarges the window and never touches what was reported before -/
theorem hqr_stable_step (st st' : HqrSt ℝ) (ev : HqrEv ℝ) (h : hqrStep st ev = some st') :
    st'.n ≤ st.n ∧ ∀ i, st.n ≤ i → st'.d i = st.d i ∧ st'.e i = st.e i := by
  cases ev with
  | sweep d' => simp [hqrStep] at h; subst h; exact ⟨le_refl _, fun i _ => ⟨rfl, rfl⟩⟩
  | ex10 =>
    simp only [hqrStep] at h
    split at h
    · simp only [Option.some.injEq] at h; subst h; exact ⟨le_refl _, fun i _ => ⟨rfl, rfl⟩⟩
    · cases h
  | ex30 w =>
    simp only [hqrStep] at h
    split at h
    · split at h
      · simp only [Option.some.injEq] at h; subst h; exact ⟨le_refl _, fun i _ => ⟨rfl, rfl⟩⟩
      · simp only [Option.some.injEq] at h; subst h; exact ⟨le_refl _, fun i _ => ⟨rfl, rfl⟩⟩
    · cases h
  | defl1 =>
    simp only [hqrStep] at h
    split at h
    · simp only [Option.some.injEq] at h; subst h
      refine ⟨Nat.sub_le _ _, fun i hi => ?_⟩
      have : i ≠ st.n - 1 := by omega
      exact ⟨upd_ne _ _ _ _ this, upd_ne _ _ _ _ this⟩
    · cases h
  | defl2 b c =>
    simp only [hqrStep] at h
    split at h
    · simp only [Option.some.injEq] at h; subst h
      refine ⟨by simp only []; omega, fun i hi => ?_⟩
      have h1 : i ≠ st.n - 1 := by omega
      have h2 : i ≠ st.n - 1 - 1 := by omega
      simp only []
      exact ⟨by rw [upd_ne _ _ _ _ h1, upd_ne _ _ _ _ h2], by rw [upd_ne _ _ _ _ h1, upd_ne _ _ _ _ h2]⟩
    · cases h

theorem hqr_stable_run (evs : List (HqrEv ℝ)) (st st' : HqrSt ℝ) (h : hqrRun st evs = some st') :
    st'.n ≤ st.n ∧ ∀ i, st.n ≤ i → st'.d i = st.d i ∧ st'.e i = st.e i := by
  induction evs generalizing st with
  | nil => simp [hqrRun] at h; subst h; exact ⟨le_refl _, fun i _ => ⟨rfl, rfl⟩⟩
  | cons ev evs ih =>
    simp only [hqrRun] at h
    cases hs : hqrStep st ev with
    | none => rw [hs] at h; cases h
    | some st1 =>
      rw [hs] at h
      obtain ⟨h1, h2⟩ := hqr_stable_step st st1 ev hs
      obtain ⟨h3, h4⟩ := ih st1 h
      refine ⟨le_trans h3 h1, fun i hi => ?_⟩
      obtain ⟨a1, a2⟩ := h4 i (le_trans h1 hi)
      obtain ⟨b1, b2⟩ := h2 i hi
      exact ⟨a1.trans b1, a2.trans b2⟩

theorem hqrRun_append (evs1 evs2 : List (HqrEv ℝ)) (st : HqrSt ℝ) :
    hqrRun st (evs1 ++ evs2) = (hqrRun st evs1).bind fun st' => hqrRun st' evs2 := by
  induction evs1 generalizing st with
  | nil => simp [hqrRun]
  | cons ev evs ih =>
    simp only [List.cons_append, hqrRun]
    cases hqrStep st ev with
    | none => simp
    | some st1 => simp [ih]

/-- the quantity the bookkeeping conserves: trace of the window with the shifts added back, plus
everything reported so far (`N` = size of the matrix) -/
noncomputable def hqrTotal (N : Nat) (st : HqrSt ℝ) : ℝ :=
  winSum st.diag st.n + st.n * st.exshift + tailSum st.d st.n N

/-- a `sweep` preserves the trace of the active window (what an orthogonal similarity acting inside
the window does); no condition on the other events -/
def SweepOK (st : HqrSt ℝ) : HqrEv ℝ → Prop
  | .sweep d' => winSum d' st.n = winSum st.diag st.n
  | _ => True

/-- every `sweep` met when `evs` is run from `st` preserves the trace of the active window -/
def SweepsPreserveTrace : HqrSt ℝ → List (HqrEv ℝ) → Prop
  | _, [] => True
  | st, ev :: evs => SweepOK st ev ∧ ∀ st', hqrStep st ev = some st' → SweepsPreserveTrace st' evs

theorem applyShift_total (N : Nat) (st : HqrSt ℝ) (x : ℝ) : hqrTotal N (applyShift st x) = hqrTotal N st := by
  unfold hqrTotal applyShift
  simp only []
  have : winSum (fun i => if i < st.n then st.diag i - x else st.diag i) st.n = winSum (fun i => st.diag i - x) st.n :=
    winSum_congr _ _ _ (fun i hi => by simp [hi])
  rw [this, winSum_sub_const]; ring

theorem hqr_total_step (N : Nat) (st st' : HqrSt ℝ) (ev : HqrEv ℝ) (hN : st.n ≤ N) (h : hqrStep st ev = some st')
    (hsw : SweepOK st ev) : hqrTotal N st' = hqrTotal N st := by
  cases ev with
  | sweep d' =>
    simp [hqrStep] at h; subst h
    simp only [SweepOK] at hsw
    unfold hqrTotal; simp only []
    rw [← hsw]
    congr 2
    exact winSum_congr _ _ _ (fun i hi => by simp [hi])
  | ex10 =>
    simp only [hqrStep] at h
    split at h
    · simp only [Option.some.injEq] at h; subst h; exact applyShift_total N st _
    · cases h
  | ex30 w =>
    simp only [hqrStep] at h
    split at h
    · split at h
      · simp only [Option.some.injEq] at h; subst h; exact applyShift_total N st _
      · simp only [Option.some.injEq] at h; subst h; rfl
    · cases h
  | defl1 =>
    simp only [hqrStep] at h
    split at h
    · rename_i hn
      simp only [Option.some.injEq] at h; subst h
      unfold hqrTotal; simp only []
      obtain ⟨k, hk⟩ : ∃ k, st.n = k + 1 := ⟨st.n - 1, by omega⟩
      rw [hk] at hN ⊢
      simp only [Nat.add_sub_cancel]
      rw [winSum_succ, tailSum_bot _ k N (by omega), upd_same]
      have : tailSum (upd st.d k (st.diag k + st.exshift)) (k + 1) N = tailSum st.d (k + 1) N :=
        tailSum_congr _ _ _ _ (fun i hi _ => upd_ne _ _ _ _ (by omega))
      rw [this]; push_cast; ring
    · cases h
  | defl2 b c =>
    simp only [hqrStep] at h
    split at h
    · rename_i hn
      simp only [Option.some.injEq] at h; subst h
      unfold hqrTotal; simp only []
      obtain ⟨k, hk⟩ : ∃ k, st.n = k + 2 := ⟨st.n - 2, by omega⟩
      rw [hk] at hN ⊢
      have e1 : k + 2 - 1 = k + 1 := by omega
      have e2 : k + 1 - 1 = k := by omega
      simp only [e1, e2]
      rw [show k + 2 = (k + 1) + 1 from rfl, winSum_succ, winSum_succ, tailSum_bot _ k N (by omega),
        tailSum_bot _ (k + 1) N (by omega), upd_same, upd_ne _ _ _ _ (show k ≠ k + 1 by omega), upd_same]
      have : tailSum (upd (upd st.d k (deflate2 (st.diag k) b c (st.diag (k + 1)) st.exshift).d1) (k + 1)
          (deflate2 (st.diag k) b c (st.diag (k + 1)) st.exshift).d2) (k + 1 + 1) N = tailSum st.d (k + 1 + 1) N :=
        tailSum_congr _ _ _ _ (fun i hi _ => by rw [upd_ne _ _ _ _ (by omega), upd_ne _ _ _ _ (by omega)])
      rw [this]
      have hs := deflate2_sum (st.diag k) b c (st.diag (k + 1)) st.exshift
      push_cast
      linarith
    · cases h

theorem hqr_total_run (N : Nat) (evs : List (HqrEv ℝ)) (st st' : HqrSt ℝ) (hN : st.n ≤ N)
    (h : hqrRun st evs = some st') (hsw : SweepsPreserveTrace st evs) : hqrTotal N st' = hqrTotal N st := by
  induction evs generalizing st with
  | nil => simp [hqrRun] at h; subst h; rfl
  | cons ev evs ih =>
    simp only [hqrRun] at h
    cases hs : hqrStep st ev with
    | none => rw [hs] at h; cases h
    | some st1 =>
      rw [hs] at h
      obtain ⟨h1, h2⟩ := hsw
      have hn1 : st1.n ≤ N := le_trans (hqr_stable_step st st1 ev hs).1 hN
      rw [ih st1 hn1 h (h2 st1 hs)]
      exact hqr_total_step N st st1 ev hN hs h1

/-! ### the frame in which an exceptional shift is invisible -/

/-- diagonal of `H + exshift·I`: the matrix that stays (orthogonally) similar to the one the iteration
started from -/
noncomputable def unshifted (st : HqrSt ℝ) (i : Nat) : ℝ := st.diag i + st.exshift

/-- the two statements of the C++ that `applyShift` transcribes — the loop `H(i,i) -= x` over the window
and `exshift += x` — cancel on the window -/
theorem applyShift_unshifted (st : HqrSt ℝ) (x : ℝ) (i : Nat) (hi : i < st.n) :
    unshifted (applyShift st x) i = unshifted st i := by
  simp [unshifted, applyShift, hi]

/-- NOT the model: the variant `exshift = x` (a seeded change of round b) of `applyShift`, kept to show
that the cancellation is a property of the transcribed text and not of every such update -/
def applyShiftOverwrite (st : HqrSt ℝ) (x : ℝ) : HqrSt ℝ :=
  { st with diag := fun i => if i < st.n then st.diag i - x else st.diag i, exshift := x, shifts := x :: st.shifts }

/-! ### tql2: the implicit shift -/

/-- `p` of the shift computation -/
noncomputable def tqlP (l : Nat) (d : Nat → ℝ) (el : ℝ) : ℝ := (d (l + 1) - d l) / (2 * el)

/-- the shift is uniform on `l .. n-1`: every entry from `l` on is lowered by the same `h`
(the first two by the closed formulas `e[l]/(p+r)`, `e[l](p+r)`, the rest by the loop) -/
theorem tqlShift_uniform (n l : Nat) (d : Nat → ℝ) (el r : ℝ) (hl : l + 1 < n) (hel : el ≠ 0) (hr : 0 < r)
    (hrr : r * r = tqlP l d el * tqlP l d el + 1) :
    (∀ i, l ≤ i → i < n → (tqlShift n l d el r).1 i = d i - (tqlShift n l d el r).2) ∧
    (∀ i, (i < l ∨ n ≤ i) → (tqlShift n l d el r).1 i = d i) := by
  unfold tqlP at hrr
  set p := (d (l + 1) - d l) / (2 * el) with hp
  -- the signed root
  have key : ∀ r' : ℝ, r' * r' = p * p + 1 → p + r' ≠ 0 →
      el * (p + r') = d (l + 1) - (d l - el / (p + r')) := by
    intro r' h1 h2
    have hd : d (l + 1) = d l + 2 * el * p := by rw [hp]; field_simp; ring
    rw [hd]; field_simp
    have : r' ^ 2 = p ^ 2 + 1 := by nlinarith
    linear_combination el * this
  have hpr : -r < p ∧ p < r := ⟨by nlinarith, by nlinarith⟩
  simp only [tqlShift, two_eq, ScalarReal.ltb_iff, ScalarReal.zero_eq, ← hp]
  constructor
  · intro i hi hin
    by_cases h0 : p < 0
    · simp only [h0, if_true]
      have hne : p + -r ≠ 0 := by intro h; linarith
      have hk := key (-r) (by nlinarith) hne
      by_cases e1 : i = l
      · subst e1; simp
      · by_cases e2 : i = l + 1
        · subst e2; simp only [Nat.succ_ne_self, if_false, if_true]
          exact hk
        · have : l + 2 ≤ i ∧ i < n := ⟨by omega, hin⟩
          simp [e1, e2, this]
    · simp only [h0, if_false]
      have hne : p + r ≠ 0 := by intro h; linarith
      have hk := key r hrr hne
      by_cases e1 : i = l
      · subst e1; simp
      · by_cases e2 : i = l + 1
        · subst e2; simp only [Nat.succ_ne_self, if_false, if_true]
          exact hk
        · have : l + 2 ≤ i ∧ i < n := ⟨by omega, hin⟩
          simp [e1, e2, this]
  · intro i hi
    have e1 : i ≠ l := by omega
    have e2 : i ≠ l + 1 := by omega
    have e3 : ¬ (l + 2 ≤ i ∧ i < n) := by omega
    simp [e1, e2, e3]

theorem tailSum_sub_const (f : Nat → ℝ) (x : ℝ) (l n : Nat) (h : l ≤ n) :
    tailSum (fun i => f i - x) l n = tailSum f l n - ((n : ℝ) - l) * x := by
  unfold tailSum
  rw [sum_sub_distrib, sum_const, Nat.card_Ico, nsmul_eq_mul, Nat.cast_sub h]

/-! ### tql2: the machine -/

/-- what the theorems need of an event: the value passed for `hypot(p, 1)` is `√(p² + 1)`, `e[l] ≠ 0`
(the C++ iterates only while `|e[l]| > eps·tst1`), and the untranscribed QL transformation preserves
the sum of `d[l .. n-1]` (an orthogonal similarity of the trailing block) -/
def TqlEvOK (st : TqlSt ℝ) : TqlEv ℝ → Prop
  | .shift el r => el ≠ 0 ∧ 0 < r ∧ r * r = tqlP st.l st.d el * tqlP st.l st.d el + 1
  | .sweep d' => tailSum d' st.l st.n = tailSum st.d st.l st.n
  | .fin => True

def TqlEvsOK : TqlSt ℝ → List (TqlEv ℝ) → Prop
  | _, [] => True
  | st, ev :: evs => TqlEvOK st ev ∧ ∀ st', tqlStep st ev = some st' → TqlEvsOK st' evs

theorem tql_f_step (st st' : TqlSt ℝ) (ev : TqlEv ℝ) (h : tqlStep st ev = some st')
    (hi : st.f = st.shifts.sum) : st'.f = st'.shifts.sum := by
  cases ev with
  | shift el r =>
    simp only [tqlStep] at h
    split at h
    · simp only [Option.some.injEq] at h; subst h
      simp [hi]; ring
    · cases h
  | sweep d' => simp [tqlStep] at h; subst h; exact hi
  | fin =>
    simp only [tqlStep] at h
    split at h
    · simp only [Option.some.injEq] at h; subst h; exact hi
    · cases h

theorem tql_f_run (evs : List (TqlEv ℝ)) (st st' : TqlSt ℝ) (h : tqlRun st evs = some st')
    (hi : st.f = st.shifts.sum) : st'.f = st'.shifts.sum := by
  induction evs generalizing st with
  | nil => simp [tqlRun] at h; subst h; exact hi
  | cons ev evs ih =>
    simp only [tqlRun] at h
    cases hs : tqlStep st ev with
    | none => rw [hs] at h; cases h
    | some st1 => rw [hs] at h; exact ih st1 h (tql_f_step st st1 ev hs hi)

/-- `l` never decreases, `n` is constant, and the finished entries `d[0 .. l-1]` are never touched again -/
theorem tql_stable_step (st st' : TqlSt ℝ) (ev : TqlEv ℝ) (h : tqlStep st ev = some st') :
    st.l ≤ st'.l ∧ st'.n = st.n ∧ (st.l ≤ st.n → st'.l ≤ st'.n) ∧ ∀ i, i < st.l → st'.d i = st.d i := by
  cases ev with
  | shift el r =>
    simp only [tqlStep] at h
    split at h
    · simp only [Option.some.injEq] at h; subst h
      refine ⟨le_refl _, rfl, fun h => h, fun i hi => ?_⟩
      have e1 : i ≠ st.l := by omega
      have e2 : i ≠ st.l + 1 := by omega
      have e3 : ¬ (st.l + 2 ≤ i ∧ i < st.n) := by omega
      simp [tqlShift, e1, e2, e3]
    · cases h
  | sweep d' =>
    simp [tqlStep] at h; subst h
    refine ⟨le_refl _, rfl, fun h => h, fun i hi => ?_⟩
    have : ¬ (st.l ≤ i ∧ i < st.n) := by omega
    simp [this]
  | fin =>
    simp only [tqlStep] at h
    split at h
    · simp only [Option.some.injEq] at h; subst h
      refine ⟨Nat.le_succ _, rfl, fun _ => by simp only []; omega, fun i hi => upd_ne _ _ _ _ (by omega)⟩
    · cases h

theorem tql_stable_run (evs : List (TqlEv ℝ)) (st st' : TqlSt ℝ) (h : tqlRun st evs = some st') :
    st.l ≤ st'.l ∧ st'.n = st.n ∧ (st.l ≤ st.n → st'.l ≤ st'.n) ∧ ∀ i, i < st.l → st'.d i = st.d i := by
  induction evs generalizing st with
  | nil => simp [tqlRun] at h; subst h; exact ⟨le_refl _, rfl, fun h => h, fun i _ => rfl⟩
  | cons ev evs ih =>
    simp only [tqlRun] at h
    cases hs : tqlStep st ev with
    | none => rw [hs] at h; cases h
    | some st1 =>
      rw [hs] at h
      obtain ⟨a1, a2, a3, a4⟩ := tql_stable_step st st1 ev hs
      obtain ⟨b1, b2, b3, b4⟩ := ih st1 h
      exact ⟨le_trans a1 b1, b2.trans a2, fun h => b3 (a3 h), fun i hi => (b4 i (lt_of_lt_of_le hi a1)).trans (a4 i hi)⟩

theorem tqlRun_append (evs1 evs2 : List (TqlEv ℝ)) (st : TqlSt ℝ) :
    tqlRun st (evs1 ++ evs2) = (tqlRun st evs1).bind fun st' => tqlRun st' evs2 := by
  induction evs1 generalizing st with
  | nil => simp [tqlRun]
  | cons ev evs ih =>
    simp only [List.cons_append, tqlRun]
    cases tqlStep st ev with
    | none => simp
    | some st1 => simp [ih]

/-- the quantity the bookkeeping conserves: finished eigenvalues plus the working entries with the
accumulated shift added back -/
noncomputable def tqlTotal (st : TqlSt ℝ) : ℝ :=
  winSum st.d st.l + tailSum st.d st.l st.n + ((st.n : ℝ) - st.l) * st.f

theorem tql_total_step (st st' : TqlSt ℝ) (ev : TqlEv ℝ) (hln : st.l ≤ st.n) (h : tqlStep st ev = some st')
    (hok : TqlEvOK st ev) : tqlTotal st' = tqlTotal st := by
  cases ev with
  | shift el r =>
    simp only [tqlStep] at h
    split at h
    · rename_i hl
      simp only [Option.some.injEq] at h; subst h
      obtain ⟨h1, h2, h3⟩ := hok
      obtain ⟨u1, u2⟩ := tqlShift_uniform st.n st.l st.d el r hl h1 h2 h3
      unfold tqlTotal; simp only []
      rw [winSum_congr _ st.d st.l (fun i hi => u2 i (Or.inl hi)),
        tailSum_congr _ (fun i => st.d i - (tqlShift st.n st.l st.d el r).2) st.l st.n (fun i h1 h2 => u1 i h1 h2),
        tailSum_sub_const _ _ _ _ hln]
      ring
    · cases h
  | sweep d' =>
    simp [tqlStep] at h; subst h
    simp only [TqlEvOK] at hok
    unfold tqlTotal; simp only []
    rw [winSum_congr _ st.d st.l (fun i hi => by
        have : ¬ (st.l ≤ i ∧ i < st.n) := by omega
        simp [this]),
      tailSum_congr _ d' st.l st.n (fun i h1 h2 => by simp [h1, h2]), hok]
  | fin =>
    simp only [tqlStep] at h
    split at h
    · rename_i hl
      simp only [Option.some.injEq] at h; subst h
      unfold tqlTotal; simp only []
      rw [winSum_succ, upd_same, winSum_congr _ st.d st.l (fun i hi => upd_ne _ _ _ _ (by omega)),
        tailSum_bot st.d st.l st.n hl,
        tailSum_congr (upd st.d st.l (st.d st.l + st.f)) st.d (st.l + 1) st.n (fun i h1 _ => upd_ne _ _ _ _ (by omega))]
      push_cast; ring
    · cases h

theorem tql_total_run (evs : List (TqlEv ℝ)) (st st' : TqlSt ℝ) (hln : st.l ≤ st.n)
    (h : tqlRun st evs = some st') (hok : TqlEvsOK st evs) : tqlTotal st' = tqlTotal st := by
  induction evs generalizing st with
  | nil => simp [tqlRun] at h; subst h; rfl
  | cons ev evs ih =>
    simp only [tqlRun] at h
    cases hs : tqlStep st ev with
    | none => rw [hs] at h; cases h
    | some st1 =>
      rw [hs] at h
      obtain ⟨h1, h2⟩ := hok
      have hln1 : st1.l ≤ st1.n := (tql_stable_step st st1 ev hs).2.2.1 hln
      rw [ih st1 hln1 h (h2 st1 hs)]
      exact tql_total_step st st1 ev hln hs h1

/-! ### tql2: the final selection sort -/

/-- the inner loop returns the position of a minimum of `d` over `[i, j + fuel)` (the first one) together
with its value -/
theorem minFrom_spec (d : Nat → ℝ) (i : Nat) (fuel : Nat) : ∀ (k : Nat) (p : ℝ) (j : Nat),
    p = d k → i ≤ k → k < j → (∀ t, i ≤ t → t < j → d k ≤ d t) →
    (minFrom d k p j fuel).2 = d (minFrom d k p j fuel).1 ∧ i ≤ (minFrom d k p j fuel).1 ∧
    (minFrom d k p j fuel).1 < j + fuel ∧
    ∀ t, i ≤ t → t < j + fuel → d (minFrom d k p j fuel).1 ≤ d t := by
  induction fuel with
  | zero => intro k p j hp hik hkj hmin; simp only [minFrom]; exact ⟨hp, hik, by simpa using hkj, by simpa using hmin⟩
  | succ f ih =>
    intro k p j hp hik hkj hmin
    simp only [minFrom, ScalarReal.ltb_iff]
    by_cases hlt : d j < p
    · simp only [hlt, if_true]
      have := ih j (d j) (j + 1) rfl (by omega) (by omega) (fun t h1 h2 => by
        by_cases e : t = j
        · subst e; exact le_refl _
        · have := hmin t h1 (by omega); rw [hp] at hlt; linarith)
      rw [show j + (f + 1) = j + 1 + f by omega]; exact this
    · simp only [hlt, if_false]
      have := ih k p (j + 1) hp hik (by omega) (fun t h1 h2 => by
        by_cases e : t = j
        · subst e; rw [hp] at hlt; exact not_lt.mp hlt
        · exact hmin t h1 (by omega))
      rw [show j + (f + 1) = j + 1 + f by omega]; exact this

/-- one pass of the outer loop exchanges positions `i` and `k` of `d` and columns `i` and `k` of `V`,
where `k ∈ [i, n)` holds a minimum of `d` over `[i, n)` -/
theorem sortStep_spec (n : Nat) (d : Nat → ℝ) (V : FMat ℝ) (i : Nat) (hi : i < n) :
    ∃ k, i ≤ k ∧ k < n ∧ (∀ t, i ≤ t → t < n → d k ≤ d t) ∧
      (∀ j, (sortStep n (d, V) i).1 j = d (Equiv.swap i k j)) ∧
      (∀ r j, (sortStep n (d, V) i).2 r j = V r (Equiv.swap i k j)) := by
  obtain ⟨h1, h2, h3, h4⟩ := minFrom_spec d i (n - (i + 1)) i (d i) (i + 1) rfl (le_refl _) (by omega)
    (fun t ht1 ht2 => by have : t = i := by omega
                         subst this; exact le_refl _)
  have hn : i + 1 + (n - (i + 1)) = n := by omega
  rw [hn] at h3 h4
  rcases hm : minFrom d i (d i) (i + 1) (n - (i + 1)) with ⟨k, p⟩
  rw [hm] at h1 h2 h3 h4
  simp only [] at h1 h2 h3 h4
  refine ⟨k, h2, h3, h4, ?_, ?_⟩
  · intro j
    simp only [sortStep, hm]
    by_cases hk : k = i
    · subst hk; simp
    · simp only [hk, ne_eq, not_false_eq_true, if_true, Equiv.swap_apply_def, upd, h1]
      by_cases e1 : j = i
      · simp [e1]
      · by_cases e2 : j = k
        · subst e2; simp [hk]
        · simp [e1, e2]
  · intro r j
    simp only [sortStep, hm]
    by_cases hk : k = i
    · subst hk; simp
    · simp only [hk, ne_eq, not_false_eq_true, if_true, Equiv.swap_apply_def]
      split
      · rfl
      · split <;> rfl

/-- after the first `m` passes: a permutation of the input (the same one for `d` and for the columns of
`V`), identity outside `[0, n)`, and the first `m` positions hold their final, sorted values -/
theorem sortPrefix_spec (n : Nat) (d : Nat → ℝ) (V : FMat ℝ) (m : Nat) (hm : m ≤ n - 1) :
    ∃ σ : Equiv.Perm ℕ, (∀ j, n ≤ j → σ j = j) ∧
      (∀ j, ((List.range m).foldl (sortStep n) (d, V)).1 j = d (σ j)) ∧
      (∀ r j, ((List.range m).foldl (sortStep n) (d, V)).2 r j = V r (σ j)) ∧
      (∀ a b, a < m → a ≤ b → b < n →
        ((List.range m).foldl (sortStep n) (d, V)).1 a ≤ ((List.range m).foldl (sortStep n) (d, V)).1 b) := by
  induction m with
  | zero =>
    refine ⟨1, fun j _ => rfl, fun j => rfl, fun r j => rfl, fun a b h => absurd h (Nat.not_lt_zero a)⟩
  | succ m ih =>
    obtain ⟨σ, f1, f2, f3, f4⟩ := ih (by omega)
    rw [List.range_succ, List.foldl_append]
    simp only [List.foldl_cons, List.foldl_nil]
    set s := (List.range m).foldl (sortStep n) (d, V) with hs
    obtain ⟨k, k1, k2, k3, k4, k5⟩ := sortStep_spec n s.1 s.2 m (by omega)
    have hmn : m < n := by omega
    refine ⟨σ * Equiv.swap m k, ?_, ?_, ?_, ?_⟩
    · intro j hj
      rw [Equiv.Perm.mul_apply, Equiv.swap_apply_of_ne_of_ne (by omega) (by omega)]
      exact f1 j hj
    · intro j
      show (sortStep n (s.1, s.2) m).1 j = _
      rw [k4 j, f2, Equiv.Perm.mul_apply]
    · intro r j
      show (sortStep n (s.1, s.2) m).2 r j = _
      rw [k5 r j, f3, Equiv.Perm.mul_apply]
    · intro a b ha hab hb
      show (sortStep n (s.1, s.2) m).1 a ≤ (sortStep n (s.1, s.2) m).1 b
      rw [k4 a, k4 b]
      have hsb : (b < m ∧ Equiv.swap m k b = b) ∨ (m ≤ Equiv.swap m k b ∧ Equiv.swap m k b < n) := by
        by_cases hbm : b < m
        · left; exact ⟨hbm, Equiv.swap_apply_of_ne_of_ne (by omega) (by omega)⟩
        · right
          rw [Equiv.swap_apply_def]
          split
          · exact ⟨k1, k2⟩
          · split
            · exact ⟨le_refl _, hmn⟩
            · exact ⟨by omega, hb⟩
      by_cases ham : a < m
      · rw [Equiv.swap_apply_of_ne_of_ne (show a ≠ m by omega) (show a ≠ k by omega)]
        rcases hsb with ⟨h1, h2⟩ | ⟨h1, h2⟩
        · rw [h2]; exact f4 a b ham hab hb
        · exact f4 a _ ham (by omega) h2
      · have : a = m := by omega
        subst this
        rw [Equiv.swap_apply_left]
        rcases hsb with ⟨h1, h2⟩ | ⟨h1, h2⟩
        · omega
        · exact k3 _ h1 h2

/-- the sort: a permutation of `[0, n)` applied alike to the eigenvalues and to the eigenvector columns,
ascending result -/
theorem sortEig_spec (n : Nat) (d : Nat → ℝ) (V : FMat ℝ) :
    ∃ σ : Equiv.Perm ℕ, (∀ j, n ≤ j → σ j = j) ∧
      (∀ j, (sortEig n d V).1 j = d (σ j)) ∧ (∀ r j, (sortEig n d V).2 r j = V r (σ j)) ∧
      (∀ a b, a ≤ b → b < n → (sortEig n d V).1 a ≤ (sortEig n d V).1 b) := by
  obtain ⟨σ, f1, f2, f3, f4⟩ := sortPrefix_spec n d V (n - 1) (le_refl _)
  refine ⟨σ, f1, f2, f3, ?_⟩
  intro a b hab hb
  by_cases ha : a < n - 1
  · exact f4 a b ha hab hb
  · have : a = b := by omega
    subst this; exact le_refl _

/-- a permutation that fixes everything from `n` on maps `[0, n)` into itself -/
theorem perm_lt_of_fix (σ : Equiv.Perm ℕ) (n : Nat) (h : ∀ j, n ≤ j → σ j = j) (j : Nat) (hj : j < n) : σ j < n := by
  by_contra hge
  have h1 := h (σ j) (not_lt.mp hge)
  have := σ.injective h1
  omega

end Bpp.EigenBook
