import BppModel.Discretize
import BppProofs.Lemmas.ScalarReal
import Mathlib.Tactic.Linarith
import Mathlib.Tactic.Ring
import Mathlib.Tactic.FieldSimp
import Mathlib.Algebra.BigOperators.Group.List.Basic
/-!
Helper lemmas for C09 at `ℝ`: the tolerance-ordered map, list predicates, sums.
-/
namespace Bpp.Discretize
open Bpp

/-! ## scalars -/
@[simp] theorem nat_eq (i : Nat) : (nat i : ℝ) = (i : ℝ) := by simp [nat]
@[simp] theorem half_eq : (half : ℝ) = 1 / 2 := by simp [half]
@[simp] theorem two_eq : (two : ℝ) = 2 := by simp [two]

theorem foldl_add_eq (l : List ℝ) (a : ℝ) : l.foldl (· + ·) a = a + l.sum := by
  induction l generalizing a with
  | nil => simp
  | cons h t ih => simp [List.foldl_cons, ih]; ring

@[simp] theorem sumL_eq (l : List ℝ) : sumL l = l.sum := by
  unfold sumL; rw [foldl_add_eq]; simp

/-! ## list predicates as propositions -/

theorem nondecr_iff (l : List ℝ) : nondecr l = true ↔ l.IsChain (· ≤ ·) := by
  induction l with
  | nil => simp [nondecr]
  | cons a t ih =>
    cases t with
    | nil => simp [nondecr]
    | cons b t' => simp only [nondecr, Bool.and_eq_true, ScalarReal.leb_iff, ih, List.isChain_cons_cons]

theorem strictIncr_iff (l : List ℝ) : strictIncr l = true ↔ l.IsChain (· < ·) := by
  induction l with
  | nil => simp [strictIncr]
  | cons a t ih =>
    cases t with
    | nil => simp [strictIncr]
    | cons b t' => simp only [strictIncr, Bool.and_eq_true, ScalarReal.ltb_iff, ih, List.isChain_cons_cons]

/-! ## the tolerance-ordered map -/
namespace TMap

@[simp] theorem lt_iff (prec a b : ℝ) : lt prec a b = true ↔ a < b - prec := by simp [lt]
@[simp] theorem lt_false_iff (prec a b : ℝ) : lt prec a b = false ↔ b - prec ≤ a := by simp [lt]

/-- iteration order strictly increasing for the comparator (every pair, not only neighbours) -/
def Sorted (prec : ℝ) (m : TMap ℝ) : Prop := m.Pairwise (fun a b => a.1 < b.1 - prec)

theorem find?_none_of_all_lt (prec k : ℝ) (m : TMap ℝ) (h : ∀ e ∈ m, e.1 < k - prec) : find? prec k m = none := by
  induction m with
  | nil => rfl
  | cons e t ih =>
    have he := h e (by simp)
    simp only [find?, lt_iff, he, if_true]
    exact ih (fun x hx => h x (by simp [hx]))

theorem assign_of_all_lt (prec k v : ℝ) (m : TMap ℝ) (h : ∀ e ∈ m, e.1 < k - prec) : assign prec k v m = m ++ [(k, v)] := by
  induction m with
  | nil => rfl
  | cons e t ih =>
    have he := h e (by simp)
    simp only [assign, lt_iff, he, if_true, List.cons_append]
    rw [ih (fun x hx => h x (by simp [hx]))]

/-- inserting a key that is not found: one more entry, the same entries otherwise -/
theorem assign_not_found (prec k v : ℝ) (m : TMap ℝ) (h : find? prec k m = none) :
    (assign prec k v m).length = m.length + 1 ∧ (assign prec k v m).Perm ((k, v) :: m) := by
  induction m with
  | nil => simp [assign]
  | cons e t ih =>
    simp only [find?] at h
    by_cases h1 : lt prec e.1 k = true
    · simp only [h1, if_true] at h
      have := ih h
      simp only [assign, h1, if_true, List.length_cons]
      refine ⟨by omega, ?_⟩
      exact (List.Perm.cons e this.2).trans (List.Perm.swap _ _ _)
    · simp only [h1] at h
      by_cases h2 : lt prec k e.1 = true
      · simp [assign, h1, h2]
      · simp [h2] at h

theorem mem_assign_not_found (prec k v : ℝ) (m : TMap ℝ) (h : find? prec k m = none) (x : ℝ × ℝ) :
    x ∈ assign prec k v m ↔ x = (k, v) ∨ x ∈ m := by
  rw [(assign_not_found prec k v m h).2.mem_iff]; simp

theorem sorted_assign_not_found (prec k v : ℝ) (hp : 0 ≤ prec) (m : TMap ℝ) (hs : Sorted prec m)
    (h : find? prec k m = none) : Sorted prec (assign prec k v m) := by
  induction m with
  | nil => simp [assign, Sorted]
  | cons e t ih =>
    simp only [find?] at h
    have hst : Sorted prec t := (List.pairwise_cons.1 hs).2
    have het := (List.pairwise_cons.1 hs).1
    by_cases h1 : lt prec e.1 k = true
    · simp only [h1, if_true] at h
      simp only [assign, h1, if_true]
      refine List.pairwise_cons.2 ⟨?_, ih hst h⟩
      intro x hx
      rw [mem_assign_not_found prec k v t h] at hx
      rcases hx with rfl | hx
      · simpa using h1
      · exact het x hx
    · simp only [h1] at h
      by_cases h2 : lt prec k e.1 = true
      · simp only [assign, h1, h2, if_true, Bool.false_eq_true, if_false]
        refine List.pairwise_cons.2 ⟨?_, hs⟩
        intro x hx
        have h2' : k < e.1 - prec := by simpa using h2
        rcases List.mem_cons.1 hx with rfl | hx
        · exact h2'
        · have := het x hx; show k < x.1 - prec; linarith
      · simp [h2] at h

theorem keys_strict_of_sorted (prec : ℝ) (hp : 0 ≤ prec) (m : TMap ℝ) (hs : Sorted prec m) :
    strictIncr (keys m) = true := by
  rw [strictIncr_iff]
  unfold keys
  apply List.Pairwise.isChain
  rw [List.pairwise_map]
  exact hs.imp (fun {a b} h => by linarith)

end TMap

/-! ## `searchFree`, `insertDistinct`, `insertAll` -/

theorem searchFree_spec (prec step hi v : ℝ) (m : TMap ℝ) (fuel : Nat) (j f : Int) (c : ℝ)
    (h : searchFree prec step hi v m fuel j f = some c) : TMap.find? prec c m = none := by
  induction fuel generalizing j f with
  | zero => simp [searchFree] at h
  | succ n ih =>
    simp only [searchFree] at h
    split at h
    · exact ih _ _ h
    · rename_i hnf
      injection h with h; subst h
      exact Option.not_isSome_iff_eq_none.mp hnf

/-- one insertion adds exactly one entry with value `p` at a key that was not present -/
theorem insertDistinct_spec (prec hi p : ℝ) (m m' : TMap ℝ) (v : ℝ) (h : insertDistinct prec hi p m v = some m') :
    ∃ c, TMap.find? prec c m = none ∧ m' = TMap.assign prec c p m := by
  unfold insertDistinct at h
  split at h
  · obtain ⟨c, hs, heq⟩ := Option.map_eq_some_iff.1 h
    exact ⟨c, searchFree_spec _ _ _ _ _ _ _ _ _ hs, heq.symm⟩
  · rename_i hnf
    injection h with h
    exact ⟨v, Option.not_isSome_iff_eq_none.mp hnf, h.symm⟩

theorem insertAll_spec (prec hi p : ℝ) (hp : 0 ≤ prec) (vals : List ℝ) (m m' : TMap ℝ)
    (hs : TMap.Sorted prec m) (hv : ∀ e ∈ m, e.2 = p) (h : insertAll prec hi p m vals = some m') :
    TMap.Sorted prec m' ∧ m'.length = m.length + vals.length ∧ (∀ e ∈ m', e.2 = p) := by
  induction vals generalizing m with
  | nil => simp [insertAll] at h; subst h; exact ⟨hs, by simp, hv⟩
  | cons v vs ih =>
    simp only [insertAll] at h
    cases h1 : insertDistinct prec hi p m v with
    | none => simp [h1] at h
    | some m1 =>
      simp only [h1, Option.bind_some] at h
      obtain ⟨c, hc, rfl⟩ := insertDistinct_spec prec hi p m m1 v h1
      have hs1 := TMap.sorted_assign_not_found prec c p hp m hs hc
      have hv1 : ∀ e ∈ TMap.assign prec c p m, e.2 = p := by
        intro e he
        rw [TMap.mem_assign_not_found prec c p m hc] at he
        rcases he with rfl | he
        · rfl
        · exact hv e he
      obtain ⟨a, b, c'⟩ := ih _ hs1 hv1 h
      refine ⟨a, ?_, c'⟩
      rw [b, (TMap.assign_not_found prec c p m hc).1]; simp; omega

/-- values further apart than the precision are stored as they are, in order -/
theorem insertAll_separated (prec hi p : ℝ) (vals : List ℝ) (m : TMap ℝ)
    (hsep : vals.Pairwise (fun a b => a < b - prec)) (hm : ∀ e ∈ m, ∀ v ∈ vals, e.1 < v - prec) :
    insertAll prec hi p m vals = some (m ++ vals.map (fun v => (v, p))) := by
  induction vals generalizing m with
  | nil => simp [insertAll]
  | cons v vs ih =>
    have hall : ∀ e ∈ m, e.1 < v - prec := fun e he => hm e he v (by simp)
    have hnf := TMap.find?_none_of_all_lt prec v m hall
    simp only [insertAll, insertDistinct, hnf, Option.isSome_none, Bool.false_eq_true, if_false, Option.bind_some]
    rw [TMap.assign_of_all_lt prec v p m hall]
    rw [ih (m ++ [(v, p)]) (List.pairwise_cons.1 hsep).2]
    · simp
    · intro e he w hw
      rcases List.mem_append.1 he with he | he
      · exact hm e he w (by simp [hw])
      · simp at he; subst he
        exact (List.pairwise_cons.1 hsep).1 w hw

/-- `insertPairs` (the loop of `insertClass_` calls): one entry per pair, in comparator order, the
probabilities being those of the pairs -/
theorem insertPairs_spec (prec hi : ℝ) (hp : 0 ≤ prec) (vps : List (ℝ × ℝ)) (m m' : TMap ℝ)
    (hs : TMap.Sorted prec m) (h : insertPairs prec hi m vps = some m') :
    TMap.Sorted prec m' ∧ m'.length = m.length + vps.length ∧
      (TMap.vals m').Perm (TMap.vals m ++ vps.map (·.2)) := by
  induction vps generalizing m with
  | nil => simp [insertPairs] at h; subst h; exact ⟨hs, by simp, by simp⟩
  | cons vp rest ih =>
    simp only [insertPairs] at h
    cases h1 : insertDistinct prec hi vp.2 m vp.1 with
    | none => simp [h1] at h
    | some m1 =>
      simp only [h1, Option.bind_some] at h
      obtain ⟨c, hc, rfl⟩ := insertDistinct_spec prec hi vp.2 m m1 vp.1 h1
      have hs1 := TMap.sorted_assign_not_found prec c vp.2 hp m hs hc
      obtain ⟨a, b, d⟩ := ih _ hs1 h
      have hperm := (TMap.assign_not_found prec c vp.2 m hc).2
      refine ⟨a, ?_, ?_⟩
      · rw [b, (TMap.assign_not_found prec c vp.2 m hc).1]; simp; omega
      · refine d.trans ?_
        have hv : (TMap.vals (TMap.assign prec c vp.2 m)).Perm (vp.2 :: TMap.vals m) := by
          unfold TMap.vals
          simpa using hperm.map (·.2)
        simp only [List.map_cons]
        exact (hv.append_right _).trans (by
          simp only [List.cons_append]
          exact (List.perm_middle (a := vp.2) (l₁ := TMap.vals m) (l₂ := List.map (·.2) rest)).symm)

/-- pairs whose values are further apart than the precision are stored as they are, in order -/
theorem insertPairs_separated (prec hi : ℝ) (vps : List (ℝ × ℝ)) (m : TMap ℝ)
    (hsep : vps.Pairwise (fun a b => a.1 < b.1 - prec)) (hm : ∀ e ∈ m, ∀ v ∈ vps, e.1 < v.1 - prec) :
    insertPairs prec hi m vps = some (m ++ vps) := by
  induction vps generalizing m with
  | nil => simp [insertPairs]
  | cons v vs ih =>
    have hall : ∀ e ∈ m, e.1 < v.1 - prec := fun e he => hm e he v (by simp)
    have hnf := TMap.find?_none_of_all_lt prec v.1 m hall
    simp only [insertPairs, insertDistinct, hnf, Option.isSome_none, Bool.false_eq_true, if_false, Option.bind_some]
    rw [TMap.assign_of_all_lt prec v.1 v.2 m hall]
    rw [ih (m ++ [(v.1, v.2)]) (List.pairwise_cons.1 hsep).2]
    · simp
    · intro e he w hw
      rcases List.mem_append.1 he with he | he
      · exact hm e he w (by simp [hw])
      · simp at he; subst he
        exact (List.pairwise_cons.1 hsep).1 w hw

end Bpp.Discretize
