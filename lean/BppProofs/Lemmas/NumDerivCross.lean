import BppProofs.Lemmas.NumDerivExact5
/-!
C12 helper lemmas, part 9: the cross-derivative block of the three-point scheme on the nominal path.
-/
namespace Bpp.NumDeriv
open Bpp Bpp.Scalar

theorem updL_single (q : Param ℝ) (l : PList ℝ) : updL [q] l = upd1 l q.name q.value := by
  unfold updL upd1
  apply List.map_congr_left
  intro p _
  by_cases e : p.name = q.name
  · rw [find?_cons_eq q [] p.name e.symm]; simp [e]
  · rw [find?_cons_ne q [] p.name (fun x => e x.symm)]; simp [find?, e]

theorem upd1_upd1_same (l : PList ℝ) (n : Name) (a b : ℝ) : upd1 (upd1 l n a) n b = upd1 l n b := by
  unfold upd1
  rw [List.map_map]
  apply List.map_congr_left
  intro p _
  simp only [Function.comp]
  by_cases e : p.name = n <;> simp [e]

theorem upd1_comm (l : PList ℝ) (n m : Name) (a b : ℝ) (h : n ≠ m) :
    upd1 (upd1 l n a) m b = upd1 (upd1 l m b) n a := by
  unfold upd1
  rw [List.map_map, List.map_map]
  apply List.map_congr_left
  intro p _
  simp only [Function.comp]
  by_cases e1 : p.name = n
  · have e2 : p.name ≠ m := by rw [e1]; exact h
    simp [e1, e2, h]
  · by_cases e2 : p.name = m
    · simp [e1, e2, Ne.symm h]
    · simp [e1, e2]

/-- after the first `setParameters` of a pair: both variables displaced, everything else at base -/
theorem updL_dev_eq2 {params B l : PList ℝ} (hc : Ctx params B) (var1 var2 : Name) (q0 q1 : Param ℝ) (rest : PList ℝ)
    (hq0 : q0.name = var1) (hq1 : q1.name = var2) (hne : var1 ≠ var2) (hrest : ∀ q ∈ rest, q ∈ params)
    (hD : Dev B l (fun n => n = var1 ∨ n = var2 ∨ n ∈ names rest)) :
    updL (q0 :: q1 :: rest) l = upd1 (upd1 B var1 q0.value) var2 q1.value := by
  unfold Dev at hD
  unfold updL upd1
  rw [List.map_map]
  induction hD with
  | nil => rfl
  | @cons p b l' B' hpb hrest' ih =>
    rw [List.map_cons, List.map_cons]
    have ih' := ih (⟨by
        have := hc.bnd; simp only [names, List.map_cons, List.nodup_cons] at this; exact this.2,
      fun x hx => hc.bz x (List.mem_cons_of_mem _ hx),
      fun q hq x hx => hc.sync q hq x (List.mem_cons_of_mem _ hx)⟩ : Ctx params B')
    rw [ih']
    congr 1
    obtain ⟨⟨h1, h2, h3⟩, h4⟩ := hpb
    simp only [Function.comp]
    by_cases e1 : b.name = var1
    · have e' : q0.name = p.name := by rw [hq0, h1, e1]
      have e2 : b.name ≠ var2 := by rw [e1]; exact hne
      rw [find?_cons_eq q0 _ p.name e']
      simp only [e1, e2, if_true, if_false]
      cases p; cases b; simp_all
    · have e' : q0.name ≠ p.name := by rw [hq0, h1]; exact fun x => e1 x.symm
      rw [find?_cons_ne q0 _ p.name e']
      by_cases e2 : b.name = var2
      · have e'' : q1.name = p.name := by rw [hq1, h1, e2]
        rw [find?_cons_eq q1 _ p.name e'']
        simp only [e1, e2, if_true, if_false]
        cases p; cases b; simp_all
      · have e'' : q1.name ≠ p.name := by rw [hq1, h1]; exact fun x => e2 x.symm
        rw [find?_cons_ne q1 _ p.name e'']
        simp only [e1, e2, if_false]
        cases hf : find? rest p.name with
        | none =>
          simp only []
          have : ¬ (b.name = var1 ∨ b.name = var2 ∨ b.name ∈ names rest) := by
            rintro (h | h | h)
            · exact e1 h
            · exact e2 h
            · rw [← h1] at h; exact find?_none hf h
          have h5 := h4 this
          cases p; cases b; simp_all
        | some q =>
          simp only []
          have hq := find?_some hf
          have : b.value = q.value := hc.sync q (hrest q hq.1) b (List.mem_cons_self ..) (by rw [hq.2, h1])
          cases p; cases b; simp_all


theorem setEval_free (f : List ℝ → ℝ) (fn : Fn ℝ) (q : Param ℝ) (x : ℝ) (hown : Own fn) (hok : fn.OK f)
    (hn : ∀ p ∈ fn.params, p.con = none) (hq : q.con = none ∧ q.prec = 0) :
    ∃ fn', setEval f fn q x = (fn', some ({ q with value := x }, f (values (upd1 fn.params q.name x)))) ∧
      fn'.params = upd1 fn.params q.name x ∧ fn'.OK f ∧ fn'.kind = fn.kind ∧ fn'.en1 = fn.en1 ∧ fn'.en2 = fn.en2 := by
  unfold setEval
  rw [setValue_ok q x hq.2 (violates_nocon q hq.1 x)]
  simp only []
  have hav : anyViolation fn.params [{ q with value := x }] = false := anyViolation_nocon _ _ hn
  obtain ⟨fired, heq, hnf⟩ := setParameters_eq f fn [{ q with value := x }] hown (by simp [names]) hav
  have hu : updL [{ q with value := x }] fn.params = upd1 fn.params q.name x := updL_single _ _
  rw [heq, hu]
  cases fired with
  | true =>
    simp only [if_true]
    exact ⟨_, rfl, rfl, fire_OK f _, rfl, rfl, rfl⟩
  | false =>
    simp only [Bool.false_eq_true, if_false]
    have hsame := hnf rfl
    rw [hu] at hsame
    have hOK : (fn.withParams (upd1 fn.params q.name x)).OK f := by
      unfold Fn.OK; rw [withParams_params, hsame]; exact hok
    refine ⟨_, ?_, rfl, hOK, rfl, rfl, rfl⟩
    have : (fn.withParams (upd1 fn.params q.name x)).fval = f (values (upd1 fn.params q.name x)) := hOK
    rw [this]

theorem subNamesGo_ok (l : PList ℝ) : ∀ (ns : List Name) (acc : PList ℝ), (∀ n ∈ ns, n ∈ names l) → ns.Nodup →
    (∀ n ∈ ns, n ∉ names acc) → ∃ p, subNamesGo l acc ns = .ok p := by
  intro ns
  induction ns with
  | nil => intro acc _ _ _; exact ⟨acc, rfl⟩
  | cons n ns ih =>
    intro acc hin hnd hdis
    have hnd' := List.nodup_cons.mp hnd
    unfold subNamesGo
    cases hf : find? l n with
    | none => exact absurd (hin n (List.mem_cons_self ..)) (find?_none hf)
    | some q =>
      simp only []
      have hh : has acc n = false := by
        cases hb : has acc n with
        | false => rfl
        | true => exact absurd ((has_iff acc n).mp hb) (hdis n (List.mem_cons_self ..))
      rw [hh]
      simp only [Bool.false_eq_true, if_false]
      apply ih (acc ++ [q]) (fun x hx => hin x (List.mem_cons_of_mem _ hx)) hnd'.2
      intro x hx hm
      simp only [names, List.map_append, List.map_cons, List.map_nil, List.mem_append, List.mem_singleton] at hm
      rcases hm with hm | hm
      · exact hdis x (List.mem_cons_of_mem _ hx) hm
      · rw [(find?_some hf).2] at hm; subst hm; exact hnd'.1 hx

theorem subNames_ok (l : PList ℝ) (ns : List Name) (hin : ∀ n ∈ ns, n ∈ names l) (hnd : ns.Nodup) :
    ∃ p, subNames l ns = .ok p :=
  subNamesGo_ok l ns [] hin hnd (fun _ _ h => by simp [names] at h)


/-- the stored cross derivative of a pair on the nominal path: the 2×2 stencil around the base
point with steps `(1 + |x_i|) h` -/
noncomputable def crossVal (f : List ℝ → ℝ) (B : PList ℝ) (hh : ℝ) (var1 var2 : Name) : DVal ℝ :=
  match find? B var1, find? B var2 with
  | some b1, some b2 =>
    some (crossThree
      (f (values (upd1 (upd1 B var1 (b1.value - (one + Scalar.abs b1.value) * hh)) var2 (b2.value - (one + Scalar.abs b2.value) * hh))))
      (f (values (upd1 (upd1 B var1 (b1.value - (one + Scalar.abs b1.value) * hh)) var2 (b2.value + (one + Scalar.abs b2.value) * hh))))
      (f (values (upd1 (upd1 B var1 (b1.value + (one + Scalar.abs b1.value) * hh)) var2 (b2.value - (one + Scalar.abs b2.value) * hh))))
      (f (values (upd1 (upd1 B var1 (b1.value + (one + Scalar.abs b1.value) * hh)) var2 (b2.value + (one + Scalar.abs b2.value) * hh))))
      ((one + Scalar.abs b1.value) * hh) ((one + Scalar.abs b2.value) * hh))
  | _, _ => none

theorem names_upd1' (l : PList ℝ) (n : Name) (v : ℝ) : names (upd1 l n v) = names l := names_upd1 l n v

theorem nocon_upd1 {l : PList ℝ} (h : ∀ p ∈ l, p.con = none) (n : Name) (v : ℝ) : ∀ p ∈ upd1 l n v, p.con = none := by
  intro p hp
  simp only [upd1, List.mem_map] at hp
  obtain ⟨q, hq, rfl⟩ := hp
  split <;> simp [h q hq]

theorem crossPair_free (f : List ℝ → ℝ) {params B : PList ℝ} (hF : Free f params B) {w0 : W ℝ} (cl : CLoop ℝ)
    (hCI : CI f params B w0 cl) (i j : Nat) (var1 var2 : Name) (hne : var1 ≠ var2)
    (hh1 : has params var1 = true) (hh2 : has params var2 = true) (b1 b2 : Param ℝ)
    (hb1 : find? B var1 = some b1) (hb2 : find? B var2 = some b2) :
    (crossPair f params cl i j var1 var2).2 = none ∧
    (crossPair f params cl i j var1 var2).1.l1 = var1 ∧ (crossPair f params cl i j var1 var2).1.l2 = var2 ∧
    (crossPair f params cl i j var1 var2).1.w.cross = setAt2 cl.w.cross i j (crossVal f B cl.w.h var1 var2) ∧
    (crossPair f params cl i j var1 var2).1.w.der1 = cl.w.der1 ∧
    (crossPair f params cl i j var1 var2).1.w.der2 = cl.w.der2 := by
  obtain ⟨hok, hD, hfr, hslot, hl1, hl2⟩ := hCI
  have hc := hF.ctx
  -- the sub-list
  have hvars_in : ∀ n ∈ ([var1, var2]
      ++ (if cl.l1 != var1 && cl.l1 != var2 then [cl.l1] else [])
      ++ (if cl.l2 != var1 && cl.l2 != var2 && cl.l2 != cl.l1 then [cl.l2] else [])), n ∈ names params := by
    intro n hn
    simp only [List.mem_append, List.mem_cons, List.mem_nil_iff, or_false] at hn
    rcases hn with ((h | h) | hn) | hn
    · rw [h]; exact (has_iff params _).mp hh1
    · rw [h]; exact (has_iff params _).mp hh2
    · split at hn
      · simp at hn; subst hn; exact (has_iff params _).mp hl1
      · cases hn
    · split at hn
      · simp at hn; subst hn; exact (has_iff params _).mp hl2
      · cases hn
  have hvars_nd : ([var1, var2]
      ++ (if cl.l1 != var1 && cl.l1 != var2 then [cl.l1] else [])
      ++ (if cl.l2 != var1 && cl.l2 != var2 && cl.l2 != cl.l1 then [cl.l2] else [])).Nodup := by
    by_cases c1 : (cl.l1 != var1 && cl.l1 != var2) = true <;> by_cases c2 : (cl.l2 != var1 && cl.l2 != var2 && cl.l2 != cl.l1) = true
    · simp only [c1, c2, if_true]
      simp only [Bool.and_eq_true, bne_iff_ne, ne_eq] at c1 c2
      simp [hne, Ne.symm c1.1, Ne.symm c1.2, Ne.symm c2.1.1, Ne.symm c2.1.2, Ne.symm c2.2]
    · simp only [c1, c2, if_true, Bool.false_eq_true, if_false]
      simp only [Bool.and_eq_true, bne_iff_ne, ne_eq] at c1
      simp [hne, Ne.symm c1.1, Ne.symm c1.2]
    · simp only [c1, c2, if_true, Bool.false_eq_true, if_false]
      simp only [Bool.and_eq_true, bne_iff_ne, ne_eq] at c2
      simp [hne, Ne.symm c2.1.1, Ne.symm c2.1.2]
    · simp only [c1, c2, Bool.false_eq_true, if_false]
      simp [hne]
  obtain ⟨p, hsub⟩ := subNames_ok params _ hvars_in hvars_nd
  obtain ⟨hn, hmem, hnd⟩ := subNames_spec params _ p hsub
  -- its shape
  obtain ⟨p0, p1, rest, rfl⟩ : ∃ p0 p1 rest, p = p0 :: p1 :: rest := by
    cases p with
    | nil => simp [names] at hn
    | cons a r =>
      cases r with
      | nil => simp [names] at hn
      | cons b r' => exact ⟨a, b, r', rfl⟩
  simp only [names, List.map_cons, List.cons_append, List.nil_append, List.cons.injEq] at hn
  obtain ⟨hn0, hn1, hnr⟩ := hn
  have hp0 := hmem p0 (by simp)
  have hp1 := hmem p1 (by simp)
  have hf0 := hF.pfree p0 hp0
  have hf1 := hF.pfree p1 hp1
  have hv0 : p0.value = b1.value := (hc.sync p0 hp0 b1 (find?_some hb1).1 (by rw [(find?_some hb1).2, hn0])).symm
  have hv1 : p1.value = b2.value := (hc.sync p1 hp1 b2 (find?_some hb2).1 (by rw [(find?_some hb2).2, hn1])).symm
  -- first setParameters
  have hDs : Dev B cl.w.fn.params (fun n => n = var1 ∨ n = var2 ∨ n ∈ names rest) := by
    apply hD.mono
    intro n hn'
    by_cases e1 : n = var1
    · exact Or.inl e1
    · by_cases e2 : n = var2
      · exact Or.inr (Or.inl e2)
      · right; right
        show n ∈ rest.map (·.name)
        rw [hnr]
        rcases hn' with h | h
        · have c1 : cl.l1 ≠ var1 := h ▸ e1
          have c2 : cl.l1 ≠ var2 := h ▸ e2
          simp [c1, c2, h]
        · have c1 : cl.l2 ≠ var1 := h ▸ e1
          have c2 : cl.l2 ≠ var2 := h ▸ e2
          by_cases c3 : cl.l2 = cl.l1
          · have d1 : cl.l1 ≠ var1 := c3 ▸ c1
            have d2 : cl.l1 ≠ var2 := c3 ▸ c2
            simp [d1, d2, h, c3]
          · simp [c1, c2, c3, h]
  have hnd' : (names ({ p0 with value := p0.value - (one + Scalar.abs p0.value) * cl.w.h } ::
      { p1 with value := p1.value - (one + Scalar.abs p1.value) * cl.w.h } :: rest)).Nodup := by
    simp only [names, List.map_cons] at hnd ⊢; exact hnd
  have hav : anyViolation cl.w.fn.params ({ p0 with value := p0.value - (one + Scalar.abs p0.value) * cl.w.h } ::
      { p1 with value := p1.value - (one + Scalar.abs p1.value) * cl.w.h } :: rest) = false :=
    anyViolation_nocon _ _ (hD.nocon hF.nocon)
  obtain ⟨fired, heq, hnf⟩ := setParameters_eq f cl.w.fn _ (hc.own hD) hnd' hav
  have hupd := updL_dev_eq2 hc var1 var2 { p0 with value := p0.value - (one + Scalar.abs p0.value) * cl.w.h }
    { p1 with value := p1.value - (one + Scalar.abs p1.value) * cl.w.h } rest hn0 hn1 hne
    (fun q hq => hmem q (by simp [hq])) hDs
  simp only [] at hupd
  -- the state after it
  obtain ⟨fn1, hfn1, hp1', hok1, hk1, he1a, he1b⟩ : ∃ fn1, cl.w.fn.setParameters f
      ({ p0 with value := p0.value - (one + Scalar.abs p0.value) * cl.w.h } ::
       { p1 with value := p1.value - (one + Scalar.abs p1.value) * cl.w.h } :: rest) = (fn1, none) ∧
      fn1.params = upd1 (upd1 B var1 (p0.value - (one + Scalar.abs p0.value) * cl.w.h)) var2 (p1.value - (one + Scalar.abs p1.value) * cl.w.h) ∧
      fn1.OK f ∧ fn1.kind = cl.w.fn.kind ∧ fn1.en1 = cl.w.fn.en1 ∧ fn1.en2 = cl.w.fn.en2 := by
    rw [heq, hupd]
    cases fired with
    | true => exact ⟨_, rfl, rfl, fire_OK f _, rfl, rfl, rfl⟩
    | false =>
      refine ⟨_, rfl, rfl, ?_, rfl, rfl, rfl⟩
      have hsame := hnf rfl
      rw [hupd] at hsame
      unfold Fn.OK; simp only [Bool.false_eq_true, if_false, withParams_params]; rw [hsame]; exact hok
  have hown1 : Own fn1 := ⟨by rw [hp1', names_upd1, names_upd1]; exact hc.bnd, by rw [hp1']; exact Z_upd1 (Z_upd1 hc.bz _ _) _ _⟩
  have hnc1 : ∀ q ∈ fn1.params, q.con = none := by rw [hp1']; exact nocon_upd1 (nocon_upd1 hF.nocon _ _) _ _
  obtain ⟨fn2, hfn2, hp2', hok2, _, _, _⟩ := setEval_free f fn1 { p1 with value := p1.value - (one + Scalar.abs p1.value) * cl.w.h }
    (p1.value + (one + Scalar.abs p1.value) * cl.w.h) hown1 hok1 hnc1 hf1
  have hu2 : upd1 fn1.params ({ p1 with value := p1.value - (one + Scalar.abs p1.value) * cl.w.h } : Param ℝ).name
      (p1.value + (one + Scalar.abs p1.value) * cl.w.h) =
      upd1 (upd1 B var1 (p0.value - (one + Scalar.abs p0.value) * cl.w.h)) var2 (p1.value + (one + Scalar.abs p1.value) * cl.w.h) := by
    simp only []; rw [hn1, hp1', upd1_upd1_same]
  rw [hu2] at hp2'
  have hown2 : Own fn2 := ⟨by rw [hp2', names_upd1, names_upd1]; exact hc.bnd, by rw [hp2']; exact Z_upd1 (Z_upd1 hc.bz _ _) _ _⟩
  have hnc2 : ∀ q ∈ fn2.params, q.con = none := by rw [hp2']; exact nocon_upd1 (nocon_upd1 hF.nocon _ _) _ _
  obtain ⟨fn3, hfn3, hp3', hok3, _, _, _⟩ := setEval_free f fn2 { p0 with value := p0.value - (one + Scalar.abs p0.value) * cl.w.h }
    (p0.value + (one + Scalar.abs p0.value) * cl.w.h) hown2 hok2 hnc2 hf0
  have hu3 : upd1 fn2.params ({ p0 with value := p0.value - (one + Scalar.abs p0.value) * cl.w.h } : Param ℝ).name
      (p0.value + (one + Scalar.abs p0.value) * cl.w.h) =
      upd1 (upd1 B var1 (p0.value + (one + Scalar.abs p0.value) * cl.w.h)) var2 (p1.value + (one + Scalar.abs p1.value) * cl.w.h) := by
    simp only []; rw [hn0, hp2', upd1_comm _ _ _ _ _ hne, upd1_upd1_same, upd1_comm _ _ _ _ _ (Ne.symm hne)]
  rw [hu3] at hp3'
  have hown3 : Own fn3 := ⟨by rw [hp3', names_upd1, names_upd1]; exact hc.bnd, by rw [hp3']; exact Z_upd1 (Z_upd1 hc.bz _ _) _ _⟩
  have hnc3 : ∀ q ∈ fn3.params, q.con = none := by rw [hp3']; exact nocon_upd1 (nocon_upd1 hF.nocon _ _) _ _
  obtain ⟨fn4, hfn4, hp4', _, _, _, _⟩ := setEval_free f fn3
    { p1 with value := p1.value + (one + Scalar.abs p1.value) * cl.w.h }
    (p1.value - (one + Scalar.abs p1.value) * cl.w.h) hown3 hok3 hnc3 hf1
  have hu4 : upd1 fn3.params ({ p1 with value := p1.value + (one + Scalar.abs p1.value) * cl.w.h } : Param ℝ).name
      (p1.value - (one + Scalar.abs p1.value) * cl.w.h) =
      upd1 (upd1 B var1 (p0.value + (one + Scalar.abs p0.value) * cl.w.h)) var2 (p1.value - (one + Scalar.abs p1.value) * cl.w.h) := by
    simp only []; rw [hn1, hp3', upd1_upd1_same]
  -- assemble
  unfold crossPair
  simp only []
  rw [hsub]
  simp only []
  rw [setValue_ok p0 _ hf0.2 (violates_nocon p0 hf0.1 _), setValue_ok p1 _ hf1.2 (violates_nocon p1 hf1.1 _)]
  simp only []
  rw [hfn1]
  simp only []
  rw [hfn2]
  simp only []
  rw [hfn3]
  simp only []
  rw [hfn4]
  simp only []
  refine ⟨trivial, trivial, trivial, ?_, trivial, trivial⟩
  have hf11 : fn1.fval = f (values (upd1 (upd1 B var1 (p0.value - (one + Scalar.abs p0.value) * cl.w.h)) var2
      (p1.value - (one + Scalar.abs p1.value) * cl.w.h))) := by rw [← hp1']; exact hok1
  rw [hf11, hu2, hu3, hu4]
  simp only [crossVal, hb1, hb2, hv0, hv1]


/-! ### the matrix of cross derivatives -/

def get2 {β : Type} (m : List (List β)) (a b : Nat) : Option β := (m[a]?).bind (fun row => row[b]?)

theorem get2_setAt2_other {β : Type} (m : List (List β)) (i j a b : Nat) (v : β) (h : a ≠ i ∨ b ≠ j) :
    get2 (setAt2 m i j v) a b = get2 m a b := by
  unfold get2 setAt2
  cases hm : m[i]? with
  | none => rfl
  | some row =>
    simp only []
    by_cases e : a = i
    · subst e
      have hlt : a < m.length := by
        by_contra hge; rw [List.getElem?_eq_none (by omega)] at hm; cases hm
      rw [List.getElem?_set_self hlt, hm]
      simp only [Option.bind_some]
      rcases h with h | h
      · exact absurd rfl h
      · exact List.getElem?_set_ne (Ne.symm h)
    · rw [List.getElem?_set_ne (Ne.symm e)]

theorem get2_setAt2_same {β : Type} (m : List (List β)) (i j : Nat) (v : β) (h : get2 m i j ≠ none) :
    get2 (setAt2 m i j v) i j = some v := by
  unfold get2 setAt2 at *
  cases hm : m[i]? with
  | none => rw [hm] at h; simp at h
  | some row =>
    rw [hm] at h
    simp only [Option.bind_some] at h ⊢
    have hlt : i < m.length := by
      by_contra hge; rw [List.getElem?_eq_none (by omega)] at hm; cases hm
    have hj : j < row.length := by
      by_contra hge; rw [List.getElem?_eq_none (by omega)] at h; exact h rfl
    rw [List.getElem?_set_self hlt]
    simp only [Option.bind_some]
    exact List.getElem?_set_self hj

theorem get2_setAt2_none {β : Type} (m : List (List β)) (i j a b : Nat) (v : β) :
    get2 (setAt2 m i j v) a b = none ↔ get2 m a b = none := by
  by_cases h : a = i ∧ b = j
  · obtain ⟨rfl, rfl⟩ := h
    constructor
    · intro hn
      by_contra hne
      rw [get2_setAt2_same m a b v hne] at hn; cases hn
    · intro hn
      unfold get2 setAt2 at *
      cases hm : m[a]? with
      | none => rw [hm]; rfl
      | some row =>
        rw [hm] at hn
        simp only [Option.bind_some] at hn ⊢
        have hlt : a < m.length := by
          by_contra hge; rw [List.getElem?_eq_none (by omega)] at hm; cases hm
        rw [List.getElem?_set_self hlt]
        simp only [Option.bind_some]
        have : row.length ≤ b := by
          by_contra hlt'; rw [List.getElem?_eq_some_iff.mpr ⟨by omega, rfl⟩] at hn; cases hn
        exact List.getElem?_eq_none (by simp; exact this)
  · rw [get2_setAt2_other m i j a b v (by
      by_cases e : a = i
      · right; exact fun e' => h ⟨e, e'⟩
      · left; exact e)]


/-- a row of the cross-derivative block on the nominal path -/
theorem crossRow_free (f : List ℝ → ℝ) {params B : PList ℝ} (hF : Free f params B) {w0 : W ℝ} (i : Nat) (var1 : Name)
    (b1 : Param ℝ) (hb1 : find? B var1 = some b1) (hh1 : has params var1 = true) :
    ∀ (vs : List Name) (j0 : Nat) (cl : CLoop ℝ), CI f params B w0 cl →
      (∀ k (hk : k < vs.length), j0 + k ≠ i → vs[k] ≠ var1) →
      (∀ v ∈ vs, has params v = true → v ∈ names B) →
      (∀ k, k < vs.length → j0 + k = i → cl.w.der2[i]? ≠ none) →
      (crossRow f params i var1 vs j0 cl).2 = none ∧ CI f params B w0 (crossRow f params i var1 vs j0 cl).1 ∧
      (crossRow f params i var1 vs j0 cl).1.w.der1 = cl.w.der1 ∧ (crossRow f params i var1 vs j0 cl).1.w.der2 = cl.w.der2 ∧
      (∀ a b, (a ≠ i ∨ b < j0) → get2 (crossRow f params i var1 vs j0 cl).1.w.cross a b = get2 cl.w.cross a b) ∧
      (∀ a b, get2 (crossRow f params i var1 vs j0 cl).1.w.cross a b = none ↔ get2 cl.w.cross a b = none) ∧
      (∀ k (hk : k < vs.length), j0 + k ≠ i → has params vs[k] = true → get2 cl.w.cross i (j0 + k) ≠ none →
        get2 (crossRow f params i var1 vs j0 cl).1.w.cross i (j0 + k) = some (crossVal f B w0.h var1 vs[k])) := by
  intro vs
  induction vs with
  | nil =>
    intro j0 cl hCI _ _ _
    exact ⟨rfl, hCI, rfl, rfl, fun _ _ _ => rfl, fun _ _ => Iff.rfl, fun k hk => by simp at hk⟩
  | cons v vs ih =>
    intro j0 cl hCI hne hin hd2
    unfold crossRow
    have hne' : ∀ k (hk : k < vs.length), j0 + 1 + k ≠ i → vs[k] ≠ var1 := by
      intro k hk hki
      have := hne (k + 1) (by simpa using hk) (by omega)
      simpa using this
    have hin' : ∀ x ∈ vs, has params x = true → x ∈ names B := fun x hx => hin x (List.mem_cons_of_mem _ hx)
    by_cases hji : j0 = i
    · -- the diagonal: copy of the second derivative
      rw [if_pos hji]
      cases hd : cl.w.der2[i]? with
      | none => exact absurd hd (hd2 0 (by simp) (by omega))
      | some d =>
        simp only []
        have hCI' : CI f params B w0 { cl with w := { cl.w with cross := setAt2 cl.w.cross i j0 d } } := by
          obtain ⟨h1, h2, h3, h4, h5, h6⟩ := hCI
          exact ⟨h1, h2, ⟨h3.scheme, h3.h, h3.vars, h3.c1, h3.c2, h3.cx, h3.kind, h3.en1, h3.en2⟩, h4, h5, h6⟩
        obtain ⟨r1, r2, r3, r4, r5, r6, r7⟩ := ih (j0 + 1) _ hCI' hne' hin'
          (fun k hk hki => by omega)
        refine ⟨r1, r2, r3, r4, ?_, ?_, ?_⟩
        · intro a b hab
          rw [r5 a b (by rcases hab with h | h; exact Or.inl h; exact Or.inr (by omega))]
          exact get2_setAt2_other _ _ _ _ _ _ (by rcases hab with h | h; exact Or.inl h; exact Or.inr (by omega))
        · intro a b
          rw [r6 a b]; exact get2_setAt2_none _ _ _ _ _ _
        · intro k hk hki hhas hrange
          cases k with
          | zero => exact absurd (by omega) hki
          | succ k =>
            simp only [List.getElem_cons_succ] at hhas ⊢
            have e : j0 + (k + 1) = j0 + 1 + k := by omega
            rw [e] at hrange ⊢
            exact r7 k (by simpa using hk) (by omega) hhas
              (by intro hn; exact hrange ((get2_setAt2_none _ _ _ _ _ _).mp hn))
    · rw [if_neg hji]
      by_cases hhas : has params v = true
      · have hnh : (!has params v) = false := by rw [hhas]; rfl
        rw [hnh]
        simp only [Bool.false_eq_true, if_false]
        obtain ⟨b2, hb2⟩ : ∃ b2, find? B v = some b2 := by
          cases hf : find? B v with
          | none => exact absurd (hin v (List.mem_cons_self ..) hhas) (find?_none hf)
          | some b => exact ⟨b, rfl⟩
        have hvne : var1 ≠ v := by
          have := hne 0 (by simp) (by omega)
          simpa using this.symm
        obtain ⟨s1, s2, s3, s4, s5, s6⟩ := crossPair_free f hF cl hCI i j0 var1 v hvne hh1 hhas b1 b2 hb1 hb2
        have hCI1 := crossPair_CI f hF.ctx cl hCI i j0 var1 v _ rfl s1
        rcases hs : crossPair f params cl i j0 var1 v with ⟨cl1, e1⟩
        rw [hs] at s1 s2 s3 s4 s5 s6 hCI1
        simp only [] at s1 s2 s3 s4 s5 s6 hCI1
        subst s1
        simp only []
        obtain ⟨r1, r2, r3, r4, r5, r6, r7⟩ := ih (j0 + 1) cl1 hCI1 hne' hin'
          (fun k hk hki => by rw [s6]; exact hd2 (k + 1) (by simpa using hk) (by omega))
        refine ⟨r1, r2, r3.trans s5, r4.trans s6, ?_, ?_, ?_⟩
        · intro a b hab
          rw [r5 a b (by rcases hab with h | h; exact Or.inl h; exact Or.inr (by omega)), s4]
          exact get2_setAt2_other _ _ _ _ _ _ (by rcases hab with h | h; exact Or.inl h; exact Or.inr (by omega))
        · intro a b
          rw [r6 a b, s4]; exact get2_setAt2_none _ _ _ _ _ _
        · intro k hk hki hhask hrange
          have hhw : cl.w.h = w0.h := hCI.2.2.1.h
          cases k with
          | zero =>
            simp only [List.getElem_cons_zero, Nat.add_zero] at hrange ⊢
            rw [r5 i j0 (Or.inr (by omega)), s4, get2_setAt2_same _ _ _ _ hrange, hhw]
          | succ k =>
            simp only [List.getElem_cons_succ] at hhask ⊢
            have e : j0 + (k + 1) = j0 + 1 + k := by omega
            rw [e] at hrange ⊢
            exact r7 k (by simpa using hk) (by omega) hhask
              (by intro hn; rw [s4] at hn; exact hrange ((get2_setAt2_none _ _ _ _ _ _).mp hn))
      · have hnh : (!has params v) = true := by simpa using hhas
        rw [hnh]
        simp only [if_true]
        obtain ⟨r1, r2, r3, r4, r5, r6, r7⟩ := ih (j0 + 1) cl hCI hne' hin'
          (fun k hk hki => hd2 (k + 1) (by simpa using hk) (by omega))
        refine ⟨r1, r2, r3, r4, fun a b hab => r5 a b (by rcases hab with h | h; exact Or.inl h; exact Or.inr (by omega)), r6, ?_⟩
        intro k hk hki hhask hrange
        cases k with
        | zero => simp only [List.getElem_cons_zero] at hhask; exact absurd hhask hhas
        | succ k =>
          simp only [List.getElem_cons_succ] at hhask ⊢
          have e : j0 + (k + 1) = j0 + 1 + k := by omega
          rw [e] at hrange ⊢
          exact r7 k (by simpa using hk) (by omega) hhask hrange


/-- all the rows -/
theorem crossGo_free (f : List ℝ → ℝ) {params B : PList ℝ} (hF : Free f params B) {w0 : W ℝ} (all : List Name)
    (hall : all.Nodup) (hallin : ∀ v ∈ all, has params v = true → v ∈ names B) :
    ∀ (vs : List Name) (i0 : Nat) (cl : CLoop ℝ), CI f params B w0 cl →
      (∃ pre, all = pre ++ vs ∧ pre.length = i0) → (∀ i, i < all.length → cl.w.der2[i]? ≠ none) →
      (crossGo f params all vs i0 cl).2 = none ∧ CI f params B w0 (crossGo f params all vs i0 cl).1 ∧
      (crossGo f params all vs i0 cl).1.w.der1 = cl.w.der1 ∧ (crossGo f params all vs i0 cl).1.w.der2 = cl.w.der2 ∧
      (∀ a b, a < i0 → get2 (crossGo f params all vs i0 cl).1.w.cross a b = get2 cl.w.cross a b) ∧
      (∀ a b, get2 (crossGo f params all vs i0 cl).1.w.cross a b = none ↔ get2 cl.w.cross a b = none) ∧
      (∀ k (hk : k < vs.length), has params vs[k] = true → ∀ j (hj : j < all.length), j ≠ i0 + k →
        has params all[j] = true → get2 cl.w.cross (i0 + k) j ≠ none →
        get2 (crossGo f params all vs i0 cl).1.w.cross (i0 + k) j = some (crossVal f B w0.h vs[k] all[j])) := by
  intro vs
  induction vs with
  | nil =>
    intro i0 cl hCI _ _
    exact ⟨rfl, hCI, rfl, rfl, fun _ _ _ => rfl, fun _ _ => Iff.rfl, fun k hk => by simp at hk⟩
  | cons v vs ih =>
    intro i0 cl hCI hpre hd2
    obtain ⟨pre, hpre1, hpre2⟩ := hpre
    have hpre' : ∃ pre', all = pre' ++ vs ∧ pre'.length = i0 + 1 :=
      ⟨pre ++ [v], by rw [hpre1]; simp, by simp [hpre2]⟩
    have hi0 : i0 < all.length := by rw [hpre1]; simp; omega
    have hvi : all[i0] = v := by
      have : all[i0]? = some v := by rw [hpre1, List.getElem?_append_right (by omega)]; simp [hpre2]
      exact (List.getElem?_eq_some_iff.mp this).2
    unfold crossGo
    by_cases hhas : has params v = true
    · have hnh : (!has params v) = false := by rw [hhas]; rfl
      rw [hnh]
      simp only [Bool.false_eq_true, if_false]
      obtain ⟨b1, hb1⟩ : ∃ b1, find? B v = some b1 := by
        cases hf : find? B v with
        | none => exact absurd (hallin v (by rw [hpre1]; simp) hhas) (find?_none hf)
        | some b => exact ⟨b, rfl⟩
      obtain ⟨s1, s2, s3, s4, s5, s6, s7⟩ := crossRow_free f hF i0 v b1 hb1 hhas all 0 cl hCI
        (by
          intro k hk hki e
          simp only [Nat.zero_add] at hki
          have := (List.Nodup.getElem_inj_iff hall (hi := hk) (hj := hi0)).mp (by rw [e, hvi])
          exact hki this)
        hallin (fun k hk hki => hd2 i0 hi0)
      rcases hs : crossRow f params i0 v all 0 cl with ⟨cl1, e1⟩
      rw [hs] at s1 s2 s3 s4 s5 s6 s7
      simp only [] at s1 s2 s3 s4 s5 s6 s7
      subst s1
      simp only []
      obtain ⟨r1, r2, r3, r4, r5, r6, r7⟩ := ih (i0 + 1) cl1 s2 hpre' (fun i hi => by rw [s4]; exact hd2 i hi)
      refine ⟨r1, r2, r3.trans s3, r4.trans s4, ?_, ?_, ?_⟩
      · intro a b ha
        rw [r5 a b (by omega)]
        exact s5 a b (Or.inl (by omega))
      · intro a b; rw [r6 a b]; exact s6 a b
      · intro k hk hhk j hj hjk hhj hrange
        cases k with
        | zero =>
          simp only [List.getElem_cons_zero, Nat.add_zero] at hjk hrange ⊢
          rw [r5 i0 j (by omega)]
          have := s7 j hj (by omega) hhj (by simpa using hrange)
          simpa using this
        | succ k =>
          simp only [List.getElem_cons_succ] at hhk ⊢
          have e : i0 + (k + 1) = i0 + 1 + k := by omega
          rw [e] at hjk hrange ⊢
          exact r7 k (by simpa using hk) hhk j hj hjk hhj (by intro hn; exact hrange ((s6 _ _).mp hn))
    · have hnh : (!has params v) = true := by simpa using hhas
      rw [hnh]
      simp only [if_true]
      obtain ⟨r1, r2, r3, r4, r5, r6, r7⟩ := ih (i0 + 1) cl hCI hpre' hd2
      refine ⟨r1, r2, r3, r4, fun a b ha => r5 a b (by omega), r6, ?_⟩
      intro k hk hhk j hj hjk hhj hrange
      cases k with
      | zero => simp only [List.getElem_cons_zero] at hhk; exact absurd hhk hhas
      | succ k =>
        simp only [List.getElem_cons_succ] at hhk ⊢
        have e : i0 + (k + 1) = i0 + 1 + k := by omega
        rw [e] at hjk hrange ⊢
        exact r7 k (by simpa using hk) hhk j hj hjk hhj hrange


theorem finish_free_all (f : List ℝ → ℝ) (params : PList ℝ) (lastVar : Option Name) (w : W ℝ)
    (hn : ∀ p ∈ w.fn.params, p.con = none) :
    (finish f params lastVar true w).2 = none ∧ (finish f params lastVar true w).1.der1 = w.der1 ∧
    (finish f params lastVar true w).1.der2 = w.der2 ∧ (finish f params lastVar true w).1.cross = w.cross := by
  unfold finish
  simp only []
  cases lastVar with
  | none => exact ⟨rfl, rfl, rfl, rfl⟩
  | some l =>
    simp only [if_true]
    refine ⟨setParameters_nocon f _ _ ?_, trivial, trivial, trivial⟩
    simpa using hn

theorem step3_lastVar_has (f : List ℝ → ℝ) (params : PList ℝ) (lp : Loop ℝ) (i : Nat) (var : Name)
    (hhas : has params var = true) (hnone : (step3 f params lp i var).2 = none) :
    (step3 f params lp i var).1.lastVar = some var := by
  unfold step3 at hnone ⊢
  have hnh : (!has params var) = false := by rw [hhas]; rfl
  rw [hnh] at hnone ⊢
  simp only [Bool.false_eq_true, if_false] at hnone ⊢
  split
  · rename_i e he; rw [he] at hnone; simp at hnone
  · repeat' split
    all_goals rfl

theorem loop3_lastVar (f : List ℝ → ℝ) (params : PList ℝ) : ∀ (vs : List Name) (i : Nat) (lp : Loop ℝ),
    ((∃ v ∈ vs, has params v = true) ∨ lp.lastVar ≠ none) → (loopGo (step3 f params) vs i lp).2 = none →
    (loopGo (step3 f params) vs i lp).1.lastVar ≠ none := by
  intro vs
  induction vs with
  | nil =>
    intro i lp h _
    rcases h with ⟨v, hv, _⟩ | h
    · cases hv
    · exact h
  | cons v vs ih =>
    intro i lp h hnone
    unfold loopGo at hnone ⊢
    have hl := step3_lastVar f params lp i v
    have hlh := step3_lastVar_has f params lp i v
    rcases hs : step3 f params lp i v with ⟨lp1, e1⟩
    rw [hs] at hnone hl hlh
    cases e1 with
    | some e => simp at hnone
    | none =>
      simp only [] at hnone hl hlh ⊢
      apply ih (i + 1) lp1 _ hnone
      by_cases hv : has params v = true
      · right; rw [hlh hv trivial]; simp
      · rcases h with ⟨x, hx, hhx⟩ | h
        · rcases List.mem_cons.mp hx with rfl | hx'
          · exact absurd hhx hv
          · exact Or.inl ⟨x, hx', hhx⟩
        · right
          rcases hl with hl | hl
          · rw [hl]; exact h
          · rw [hl]; simp

/-- `updateDerivatives` of the three-point scheme with cross derivatives, nominal path -/
theorem update3_free_cross (f : List ℝ → ℝ) (w : W ℝ) (params : PList ℝ) (hown : Own w.fn) (hok : w.fn.OK f)
    (hF : Free f params w.fn.params) (hB : BoundedNear f w.fn.params w.h)
    (hpnd : (names params).Nodup) (hc1 : w.c1 = true) (hcx : w.cx = true)
    (hvars : w.vars.Nodup) (hin : ∀ v ∈ w.vars, has params v = true → v ∈ names w.fn.params) (hh : 0 < w.h)
    (hl1 : w.der1.length = w.vars.length) (hl2 : w.der2.length = w.vars.length) :
    (update3 f w params).2 = none ∧
    (∀ k (hk : k < w.vars.length), has params w.vars[k] = true →
      (update3 f w params).1.der1[k]? = some (three1 f w.fn.params w.h w.vars[k]) ∧
      (update3 f w params).1.der2[k]? = some (three2 f w.fn.params w.h (f (values w.fn.params)) w.vars[k])) ∧
    (∀ i (hi : i < w.vars.length) j (hj : j < w.vars.length), i ≠ j → has params w.vars[i] = true →
      has params w.vars[j] = true → get2 w.cross i j ≠ none →
      get2 (update3 f w params).1.cross i j = some (crossVal f w.fn.params w.h w.vars[i] w.vars[j])) := by
  have hc := hF.ctx
  unfold update3
  by_cases hne : w.vars.length > 0
  · have hcond : (w.c1 && decide (w.vars.length > 0)) = true := by simp [hc1, hne]
    rw [if_pos hcond]
    simp only []
    have hown0 : Own ((w.fn.enable1 false).enable2 false) := by unfold Own; simp; exact hown
    have hok0 : ((w.fn.enable1 false).enable2 false).OK f := enable2_OK f _ _ (enable1_OK f _ _ hok)
    have hnc0 : ∀ p ∈ ((w.fn.enable1 false).enable2 false).params, p.con = none := by simpa using hF.nocon
    have h0 := first_set f ((w.fn.enable1 false).enable2 false) hown0 hok0 (by simpa using hc.sync) hpnd
    have hn0 := setParameters_nocon f ((w.fn.enable1 false).enable2 false) params hnc0
    rcases hs1 : ((w.fn.enable1 false).enable2 false).setParameters f params with ⟨fn1, e1⟩
    rw [hs1] at h0 hn0
    simp only [] at hn0
    subst hn0
    obtain ⟨g1, g2, g3, _, _⟩ := h0
    simp only [] at g1 g2 g3
    have hp1 : fn1.params = w.fn.params := by have := g1 trivial; simpa using this
    have hval : fn1.fval = f (values w.fn.params) := by rw [← hp1]; exact g2
    simp only []
    have htb : tooBig fn1.fval = false := by rw [hval]; exact hB.base
    rw [htb]
    simp only [Bool.false_eq_true, if_false]
    have hLI0 : LI f params w.fn.params { w with fn := fn1, f2 := fn1.fval } (fun w => w.f2)
        { w := { w with fn := fn1, f2 := fn1.fval }, p := [], lastVar := none } :=
      ⟨g2, (by rw [hp1]; exact Dev.refl _ _), (fun l h => by cases h), Frame.refl _, rfl⟩
    obtain ⟨r1, r2, r3, r4, r5, _, r7⟩ := loop3_free f hF (w0 := { w with fn := fn1, f2 := fn1.fval }) hh hB w.vars 0 _ hLI0
      (fun l h => by cases h) hvars hin
    have rlv := loop3_lastVar f params w.vars 0 { w := { w with fn := fn1, f2 := fn1.fval }, p := [], lastVar := none }
    rcases hl : loopGo (step3 f params) w.vars 0 { w := { w with fn := fn1, f2 := fn1.fval }, p := [], lastVar := none } with ⟨lp, e⟩
    rw [hl] at r1 r2 r3 r4 r5 r7 rlv
    simp only [] at r1 r2 r3 r4 r5 r7 rlv
    subst r1
    simp only []
    have hcx' : lp.w.cx = true := by rw [r2.2.2.2.1.cx]; exact hcx
    have hvs' : lp.w.vars = w.vars := r2.2.2.2.1.vars
    rw [hcx']
    simp only [if_true]
    have hders : ∀ k (hk : k < w.vars.length), has params w.vars[k] = true →
        lp.w.der1[k]? = some (three1 f w.fn.params w.h w.vars[k]) ∧
        lp.w.der2[k]? = some (three2 f w.fn.params w.h (f (values w.fn.params)) w.vars[k]) := by
      intro k hk hhk
      obtain ⟨a, b⟩ := r7 k hk hhk
      simp only [Nat.zero_add] at a b
      rw [hval] at b
      exact ⟨a (by rw [hl1]; exact hk), b (by rw [hl2]; exact hk)⟩
    have hnl : ∀ p ∈ lp.w.fn.params, p.con = none := r2.2.1.nocon hF.nocon
    cases hlv : lp.lastVar with
    | none =>
      simp only []
      obtain ⟨q1, q2, q3, q4⟩ := finish_free_all f params none lp.w hnl
      refine ⟨q1, ?_, ?_⟩
      · intro k hk hhk; rw [q2, q3]; exact hders k hk hhk
      · intro i hi j hj _ hhi _ _
        exfalso
        exact rlv (Or.inl ⟨w.vars[i], List.getElem_mem hi, hhi⟩) rfl hlv
    | some l =>
      simp only []
      have hCI0 : CI f params w.fn.params { w with fn := fn1, f2 := fn1.fval } { w := lp.w, l1 := l, l2 := l } :=
        ⟨r2.1, r2.2.1.mono (fun n hn => by rw [hlv] at hn; injection hn with hn; exact Or.inl hn), r2.2.2.2.1, r2.2.2.2.2,
          r2.2.2.1 l hlv, r2.2.2.1 l hlv⟩
      have hd2some : ∀ i, i < lp.w.vars.length → lp.w.der2[i]? ≠ none := by
        intro i hi
        rw [hvs'] at hi
        have : i < lp.w.der2.length := by rw [r4]; show i < w.der2.length; rw [hl2]; exact hi
        rw [List.getElem?_eq_getElem this]; simp
      obtain ⟨c1, c2, c3, c4, _, c6, c7⟩ := crossGo_free f hF (w0 := { w with fn := fn1, f2 := fn1.fval }) lp.w.vars
        (by rw [hvs']; exact hvars) (by rw [hvs']; exact hin) lp.w.vars 0 _ hCI0 ⟨[], rfl, rfl⟩ hd2some
      rcases hcg : crossGo f params lp.w.vars lp.w.vars 0 { w := lp.w, l1 := l, l2 := l } with ⟨cl, e⟩
      rw [hcg] at c1 c2 c3 c4 c6 c7
      simp only [] at c1 c2 c3 c4 c6 c7
      subst c1
      simp only []
      have hncl : ∀ p ∈ cl.w.fn.params, p.con = none := c2.2.1.nocon hF.nocon
      obtain ⟨q1, q2, q3, q4⟩ := finish_free_all f params (some l) cl.w hncl
      refine ⟨q1, ?_, ?_⟩
      · intro k hk hhk; rw [q2, q3, c3, c4]; exact hders k hk hhk
      · intro i hi j hj hij hhi hhj hrange
        rw [q4]
        have hi' : i < lp.w.vars.length := by rw [hvs']; exact hi
        have hj' : j < lp.w.vars.length := by rw [hvs']; exact hj
        have := c7 i hi' (by simp only [hvs']; exact hhi) j hj' (by omega) (by simp only [hvs']; exact hhj)
          (by simp only [Nat.zero_add]; rw [r5]; exact hrange)
        simp only [Nat.zero_add] at this
        rw [this]
        simp only [hvs']
  · have hcond : (w.c1 && decide (w.vars.length > 0)) = false := by simp [hne]
    rw [hcond]
    simp only [Bool.false_eq_true, if_false]
    have hnc0 : ∀ p ∈ ((w.fn.enable1 w.c1).enable2 w.c2).params, p.con = none := by simpa using hF.nocon
    have hn0 := setParameters_nocon f ((w.fn.enable1 w.c1).enable2 w.c2) params hnc0
    rcases hs1 : ((w.fn.enable1 w.c1).enable2 w.c2).setParameters f params with ⟨fn1, e1⟩
    rw [hs1] at hn0
    simp only [] at hn0
    subst hn0
    simp only []
    exact ⟨trivial, fun k hk => absurd hk (by omega), fun i hi => absurd hi (by omega)⟩

end Bpp.NumDeriv
