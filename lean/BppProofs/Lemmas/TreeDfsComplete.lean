import BppProofs.Lemmas.TreeDfs
/-
Completeness of the single-visit traversal: on a graph that is the rooted tree `P` (`Matches g P`),
started at a node `n` whose descendants have not been met, it succeeds and meets exactly the
descendants of `n`.
-/
namespace Bpp.Graph
open AL
namespace T

/-- what the traversal is told about where it comes from, in an undirected tree: nothing at the
root (origin = node), the father elsewhere -/
def OriginOk (g : G) (P : PTree) (n origin : Nat) : Prop :=
  g.directed = false → (n = P.root ∧ origin = n) ∨ P.par n = some origin

theorem par_ne_self {P : PTree} (hw : P.WF) {n p : Nat} (h : P.par n = some p) : p ≠ n := by
  intro e; subst e; have := (hw.par_mem h).2.2.2; omega

theorem no_two_cycle {P : PTree} (hw : P.WF) {a b : Nat} (h1 : P.par a = some b) (h2 : P.par b = some a) : False := by
  have := (hw.par_mem h1).2.2.2
  have := (hw.par_mem h2).2.2.2
  omega

/-- a neighbour that is not skipped is a son -/
theorem son_of_arc {g : G} {P : PTree} (hw : P.WF) (hm : Matches g P) {n origin b : Nat}
    (ho : OriginOk g P n origin) (ha : Arc g n b) (hs : ¬ Skip g n origin b) : P.par b = some n := by
  rcases (hm.arc n b).1 ha with h | ⟨hd, h⟩
  · exact h
  · exfalso
    apply hs
    rcases ho hd with ⟨hr, _⟩ | hp
    · subst hr; rw [hw.par_root] at h; cases h
    · rw [h] at hp; cases hp
      exact ⟨hd, par_ne_self hw h, rfl⟩

/-- the skipped neighbour is not a son -/
theorem skip_not_son {g : G} {P : PTree} (hw : P.WF) {n origin b : Nat}
    (ho : OriginOk g P n origin) (hs : Skip g n origin b) : P.par b ≠ some n := by
  intro hb
  obtain ⟨hd, hne, he⟩ := hs
  subst he
  rcases ho hd with ⟨_, h2⟩ | hp
  · exact hne h2
  · exact no_two_cycle hw hb hp

theorem metOnce_complete {g : G} {P : PTree} (hc : Consistent g) (hw : P.WF) (hm : Matches g P) :
    ∀ (fuel n origin : Nat) (met : List Nat), n ∈ P.nodes → OriginOk g P n origin →
      (∀ x, IsAnc P.par n x → x ∉ met) →
      metOnce g fuel n origin met ≠ .fuel →
      ∃ m', metOnce g fuel n origin met = .ok (some m') ∧ ∀ x, x ∈ m' ↔ (x ∈ met ∨ IsAnc P.par n x) := by
  intro fuel
  induction fuel with
  | zero => intro n origin met _ _ _ hf; exact absurd rfl hf
  | succ f ih =>
    intro n origin met hn ho hdis hf
    rw [metOnce_succ] at hf ⊢
    have hnm : n ∉ met := hdis n (.refl n)
    have hcont : ¬ (met.contains n = true) := by simpa using hnm
    rw [if_neg hcont] at hf ⊢
    have hnode : g.hasNode n = true := (hm.nodes n).1 hn
    rw [G.outNeighbors_of_hasNode hnode] at hf ⊢
    simp only at hf ⊢
    have key : ∀ (l : List Nat) (m : List Nat), l.Nodup → (∀ b ∈ l, Arc g n b) →
        (∀ b ∈ l, P.par b = some n → ∀ x, IsAnc P.par b x → x ∉ m) →
        l.foldl (metStep g f n origin) (.ok (some m)) ≠ .fuel →
        ∃ m', l.foldl (metStep g f n origin) (.ok (some m)) = .ok (some m') ∧
          ∀ x, x ∈ m' ↔ (x ∈ m ∨ ∃ b ∈ l, P.par b = some n ∧ IsAnc P.par b x) := by
      intro l
      induction l with
      | nil => intro m _ _ _ _; exact ⟨m, rfl, by intro x; simp⟩
      | cons b rest ihl =>
        intro m hnd harc hd hfl
        have hnd' := List.nodup_cons.1 hnd
        simp only [List.foldl] at hfl ⊢
        rw [metStep_some] at hfl ⊢
        by_cases hs : Skip g n origin b
        · rw [if_pos hs] at hfl ⊢
          obtain ⟨m', h1, h2⟩ := ihl m hnd'.2 (fun c hc => harc c (List.mem_cons_of_mem _ hc))
            (fun c hc => hd c (List.mem_cons_of_mem _ hc)) hfl
          refine ⟨m', h1, fun x => ?_⟩
          rw [h2 x]
          constructor
          · rintro (h | ⟨c, hc, hpc, hx⟩)
            · exact .inl h
            · exact .inr ⟨c, List.mem_cons_of_mem _ hc, hpc, hx⟩
          · rintro (h | ⟨c, hc, hpc, hx⟩)
            · exact .inl h
            · rcases List.mem_cons.1 hc with e | hc'
              · subst e; exact absurd hpc (skip_not_son hw ho hs)
              · exact .inr ⟨c, hc', hpc, hx⟩
        · rw [if_neg hs] at hfl ⊢
          have hpb : P.par b = some n := son_of_arc hw hm ho (harc b (List.mem_cons_self ..)) hs
          have hbm := (hw.par_mem hpb).1
          have hne_fuel : metOnce g f b n m ≠ .fuel := by
            intro hh; rw [hh, metFold_stuck _ _ _ _ _ (by intro m; simp)] at hfl; exact hfl rfl
          obtain ⟨m1, hr1, hs1⟩ := ih b n m hbm (fun _ => .inr hpb) (hd b (List.mem_cons_self ..) hpb) hne_fuel
          rw [hr1] at hfl ⊢
          obtain ⟨m', h1, h2⟩ := ihl m1 hnd'.2 (fun c hc => harc c (List.mem_cons_of_mem _ hc))
            (by
              intro c hc hpc x hx hxm
              rcases (hs1 x).1 hxm with h | h
              · exact hd c (List.mem_cons_of_mem _ hc) hpc x hx h
              · have hcb : b ≠ c := fun e => hnd'.1 (e ▸ hc)
                exact hw.sons_disjoint hpb hpc hcb h hx) hfl
          refine ⟨m', h1, fun x => ?_⟩
          rw [h2 x, hs1 x]
          constructor
          · rintro ((h | h) | ⟨c, hc, hpc, hx⟩)
            · exact .inl h
            · exact .inr ⟨b, List.mem_cons_self .., hpb, h⟩
            · exact .inr ⟨c, List.mem_cons_of_mem _ hc, hpc, hx⟩
          · rintro (h | ⟨c, hc, hpc, hx⟩)
            · exact .inl (.inl h)
            · rcases List.mem_cons.1 hc with e | hc'
              · subst e; exact .inl (.inr hx)
              · exact .inr ⟨c, hc', hpc, hx⟩
    have hsorted := hc.sorted
    obtain ⟨m', h1, h2⟩ := key (g.outKeys n) (n :: met) (G.nodup_of_asc (G.asc_outKeys hsorted n))
      (fun b hb => G.mem_outKeys.1 hb)
      (by
        intro b _ hpb x hx hxm
        rcases List.mem_cons.1 hxm with e | h
        · subst e; exact hw.son_not_anc hpb hx
        · exact hdis x (IsAnc.trans (IsAnc.of_par hpb) hx) h) hf
    refine ⟨m', h1, fun x => ?_⟩
    rw [h2 x]
    constructor
    · rintro (h | ⟨b, _, hpb, hx⟩)
      · rcases List.mem_cons.1 h with e | h
        · subst e; exact .inr (.refl _)
        · exact .inl h
      · exact .inr (IsAnc.trans (IsAnc.of_par hpb) hx)
    · rintro (h | h)
      · exact .inl (List.mem_cons_of_mem _ h)
      · by_cases hxn : x = n
        · subst hxn; exact .inl (List.mem_cons_self ..)
        · obtain ⟨c, hpc, hcx⟩ := IsAnc.under_son h hxn
          exact .inr ⟨c, G.mem_outKeys.2 ((hm.arc n c).2 (.inl hpc)), hpc, hcx⟩

end T
end Bpp.Graph
