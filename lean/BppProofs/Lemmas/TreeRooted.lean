import BppModel.TreeRef
import BppProofs.Lemmas.TreeValid
import BppProofs.Lemmas.PTreeLine
/-
Valid rooted trees: the father queries and the climb of the model agree with the parent function
of the tree, which is the parent function `Ref.parent` read off the edge table.
-/
namespace Bpp.Graph
open AL

/-- a valid rooted tree: consistent tables, directed, and the validity traversal answers true -/
structure ValidRooted (g : G) : Prop where
  cons : Consistent g
  dir : g.directed = true
  tree : T.isTree g = .ok true

/-- the directed graph `g` is the rooted tree `P` -/
structure DTree (g : G) (P : PTree) : Prop where
  cons : Consistent g
  dir : g.directed = true
  wf : P.WF
  nodes : ∀ n, n ∈ P.nodes ↔ g.hasNode n = true
  arc : ∀ a b, Arc g a b ↔ P.par b = some a

theorem DTree.matches {g : G} {P : PTree} (h : DTree g P) : Matches g P :=
  ⟨h.nodes, fun a b => by rw [h.arc a b]; simp [h.dir]⟩

theorem DTree.of_matches {g : G} {P : PTree} (hc : Consistent g) (hd : g.directed = true) (hw : P.WF) (hm : Matches g P) : DTree g P :=
  ⟨hc, hd, hw, hm.nodes, fun a b => by rw [hm.arc a b]; simp [hd]⟩

theorem ValidRooted.dtree {g : G} (hv : ValidRooted g) : ∃ P, DTree g P ∧ P.root = g.root := by
  obtain ⟨P, hw, hm, hr⟩ := (T.isTree_iff hv.cons).1 hv.tree
  exact ⟨P, DTree.of_matches hv.cons hv.dir hw hm, hr⟩

theorem DTree.validRooted {g : G} {P : PTree} (h : DTree g P) (hr : P.root = g.root) : ValidRooted g :=
  ⟨h.cons, h.dir, (T.isTree_iff h.cons).2 ⟨P, h.wf, h.matches, hr⟩⟩

theorem list_eq_singleton {l : List Nat} {p : Nat} (hn : l.Nodup) (h : ∀ a, a ∈ l ↔ a = p) : l = [p] := by
  match l, hn, h with
  | [], _, h => exact absurd ((h p).2 rfl) (by simp)
  | [x], _, h => have := (h x).1 (by simp); subst this; rfl
  | x :: y :: r, hn, h =>
    have hx := (h x).1 (by simp)
    have hy := (h y).1 (by simp)
    subst hx; subst hy
    simp at hn

theorem list_eq_nil {l : List Nat} (h : ∀ a, a ∉ l) : l = [] := by
  cases l with
  | nil => rfl
  | cons x r => exact absurd (List.mem_cons_self ..) (h x)

namespace DTree
variable {g : G} {P : PTree}

theorem inKeys (h : DTree g P) {n : Nat} (hn : g.hasNode n = true) :
    g.inKeys n = match P.par n with | some p => [p] | none => [] := by
  have hmem : ∀ a, a ∈ g.inKeys n ↔ P.par n = some a := by
    intro a
    rw [G.mem_inKeys, G.inE_iff_arc h.cons, h.arc]
  cases hp : P.par n with
  | none => exact list_eq_nil (fun a ha => by have := (hmem a).1 ha; rw [hp] at this; cases this)
  | some p =>
    apply list_eq_singleton (G.nodup_of_asc (G.asc_inKeys h.cons.sorted n))
    intro a; rw [hmem a, hp]; constructor
    · intro e; cases e; rfl
    · intro e; subst e; rfl

theorem hasFather (h : DTree g P) {n : Nat} (hn : g.hasNode n = true) : T.hasFather g n = some (P.par n).isSome := by
  rw [T.hasFather_eq, h.inKeys hn]; simp only [hn, if_true]
  cases P.par n <;> simp

theorem father (h : DTree g P) {n : Nat} (hn : g.hasNode n = true) : T.father g n = P.par n := by
  rw [T.father_eq, h.inKeys hn]; simp only [hn, if_true]
  cases P.par n <;> rfl

theorem hasFather_absent {n : Nat} (hn : g.hasNode n = false) : T.hasFather g n = none := by
  rw [T.hasFather_eq]; simp [hn]

/-- the sons of a node are its outgoing neighbours -/
theorem mem_outKeys (h : DTree g P) (n c : Nat) : c ∈ g.outKeys n ↔ P.par c = some n := by
  rw [G.mem_outKeys]; exact h.arc n c

/-- the climb of the path / MRCA queries: the ancestor line, whatever the fuel beyond the depth -/
theorem climb (h : DTree g P) : ∀ (fuel n : Nat) (acc : List Nat), n ∈ P.nodes → P.rank n + 1 ≤ fuel →
    T.climb g fuel n acc = .ok (acc ++ lineOf P.par (P.rank n) n) := by
  intro fuel
  induction fuel with
  | zero => intro n acc _ hr; omega
  | succ f ih =>
    intro n acc hn hr
    have hnode := (h.nodes n).1 hn
    simp only [T.climb]
    rw [h.hasFather hnode]
    cases hp : P.par n with
    | none =>
      simp only [Option.isSome_none]
      cases hk : P.rank n <;> simp [lineOf, hp]
    | some p =>
      simp only [Option.isSome_some]
      rw [h.father hnode, hp]
      simp only
      have hm := h.wf.par_mem hp
      rw [ih p (acc ++ [n]) hm.2.2.1 (by omega), hm.2.2.2]
      simp [lineOf, hp]

/-- the depth of a node is below the node count: the fuel `node count + 2` suffices for every climb -/
theorem rank_lt (h : DTree g P) {n : Nat} (hn : n ∈ P.nodes) : P.rank n + 1 ≤ g.nodes.length := by
  have := h.wf.rank_lt hn (l := AL.keys g.nodes) (fun x hx => (G.mem_keys_hasNode g x).2 ((h.nodes x).1 hx))
  simpa [AL.keys] using this

theorem climb_std (h : DTree g P) {n : Nat} (hn : n ∈ P.nodes) :
    T.climb g (g.nodes.length + 2) n [] = .ok (lineOf P.par (P.rank n) n) := by
  have := h.climb (g.nodes.length + 2) n [] hn (by have := h.rank_lt hn; omega)
  simpa using this

/-! ### the parent function read off the edge table is the parent function of the tree -/

theorem mem_up (h : DTree g P) (c a e : Nat) : (c, a, e) ∈ (refRaw g).up ↔ g.outE a c = some e := by
  simp only [refRaw, List.mem_map]
  constructor
  · rintro ⟨⟨e', a', c'⟩, hmem, heq⟩
    simp only [Prod.mk.injEq] at heq
    obtain ⟨rfl, rfl, rfl⟩ := heq
    have hf := (mem_iff_find h.cons.sorted.edges e' (a', c')).1 hmem
    exact (h.cons.views.edge_listed e' a' c' hf).1
  · intro ho
    rcases h.cons.views.out_edge a c e ho with hf | ⟨hd, _⟩
    · exact ⟨(e, a, c), (mem_iff_find h.cons.sorted.edges e (a, c)).2 hf, rfl⟩
    · rw [h.dir] at hd; cases hd

theorem ref_parent (h : DTree g P) (n : Nat) : (refRaw g).parent n = P.par n := by
  unfold Ref.parent
  cases hf : (refRaw g).up.find? (fun t => t.1 == n) with
  | none =>
    simp only [Option.map_none]
    cases hp : P.par n with
    | none => rfl
    | some a =>
      exfalso
      have ha : Arc g a n := (h.arc a n).2 hp
      unfold Arc at ha
      cases ho : g.outE a n with
      | none => rw [ho] at ha; cases ha
      | some e =>
        have hm := (h.mem_up n a e).2 ho
        have := List.find?_eq_none.1 hf _ hm
        simp at this
  | some t =>
    obtain ⟨c, a, e⟩ := t
    have hm := List.mem_of_find?_eq_some hf
    have hc : c = n := by have := List.find?_some hf; simpa using this
    subst hc
    have ho := (h.mem_up c a e).1 hm
    have : Arc g a c := by unfold Arc; rw [ho]; rfl
    simp only [Option.map_some]
    exact ((h.arc a c).1 this).symm

theorem ref_parent_eq (h : DTree g P) : (refRaw g).parent = P.par := funext h.ref_parent

/-- the edge to the father as read off the edge table is the one of the node table -/
theorem ref_edgeUp (h : DTree g P) {n : Nat} (hn : g.hasNode n = true) : (refRaw g).edgeUp n = T.edgeToFather g n := by
  unfold Ref.edgeUp T.edgeToFather
  rw [h.father hn]
  cases hf : (refRaw g).up.find? (fun t => t.1 == n) with
  | none =>
    have hp := h.ref_parent n
    unfold Ref.parent at hp
    rw [hf] at hp
    simp only [Option.map_none] at hp ⊢
    rw [← hp]; rfl
  | some t =>
    obtain ⟨c, a, e⟩ := t
    have hm := List.mem_of_find?_eq_some hf
    have hc : c = n := by have := List.find?_some hf; simpa using this
    subst hc
    have ho := (h.mem_up c a e).1 hm
    have hp := h.ref_parent c
    unfold Ref.parent at hp
    rw [hf] at hp
    simp only [Option.map_some] at hp ⊢
    rw [← hp]
    simp only [Option.bind_some]
    exact ho.symm

/-- `Ref.line` is the ancestor line -/
theorem ref_line (r : Ref) : ∀ (fuel n : Nat), r.line fuel n = lineOf r.parent fuel n := by
  intro fuel
  induction fuel with
  | zero => intro n; rfl
  | succ f ih =>
    intro n
    simp only [Ref.line, lineOf]
    cases r.parent n with
    | none => rfl
    | some p => simp only; rw [ih p]

theorem ref_nodes (g : G) : (refRaw g).nodes = AL.keys g.nodes := rfl

theorem ref_anc (h : DTree g P) {n : Nat} (hn : n ∈ P.nodes) : (refRaw g).anc n = lineOf P.par (P.rank n) n := by
  unfold Ref.anc
  rw [ref_line, h.ref_parent_eq]
  apply h.wf.lineOf_stable
  have := h.rank_lt hn
  simp only [ref_nodes, AL.keys, List.length_map]
  omega

/-- the executable ancestor test of the reference is the ancestor relation -/
theorem ref_isAnc (h : DTree g P) {n : Nat} (hn : n ∈ P.nodes) (a : Nat) : (refRaw g).isAnc a n = true ↔ IsAnc P.par a n := by
  unfold Ref.isAnc
  rw [h.ref_anc hn]
  simp only [List.contains_iff_mem]
  exact ⟨lineOf_mem_anc _ _ _, h.wf.lineOf_complete _ _ _ (Nat.le_refl _)⟩

end DTree
end Bpp.Graph
