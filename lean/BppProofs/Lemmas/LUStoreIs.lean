import BppProofs.Lemmas.LUStoreVec
import BppProofs.Lemmas.MatrixOfFn
import BppProofs.Lemmas.LU
/-!
Helper lemmas for C05, storage level: passing from "the store `A` itself read as a matrix"
(`matOf A`) to "any store, of any class, that holds the abstract matrix `Am`" (`Is A k m n (fnOf Am)`).
-/
namespace Bpp.LUS
open Bpp Bpp.Mx Bpp.LU

variable {α : Type} [Scalar α]

/-- a statement about the reported dimensions and entries of a store is a statement about any
abstract matrix the store holds -/
theorem of_Is {A : Store α} {kA : Kind} {m n : Nat} {Am : Mat α m n} (hA : Is A kA m n (fnOf Am))
    (P : (m n : Nat) → Mat α m n → Prop) (h : P A.nrows A.ncols (matOf A)) : P m n Am := by
  obtain ⟨hw, _, hr, hc, hg⟩ := hA
  subst hr hc
  have : matOf A = Am := by
    apply LU.Mat.ext
    intro i j
    have h1 := hg i.val j.val i.isLt j.isLt
    rw [Store.get_eq_entry hw i.isLt j.isLt] at h1
    injection h1 with h1
    simp [matOf, h1, fnOf_get]
  rw [← this]
  exact h

/-- for each class there is a store holding a given matrix with positive dimensions: what the
harness builds (`K(r, c)` followed by assignments) -/
theorem is_ofFn (k : Kind) {m n : Nat} (hm : 0 < m) (hn : 0 < n) (Am : Mat α m n) :
    Is (Store.ofFn k m n (fnOf Am)) k m n (fnOf Am) := by
  have h := ofFn_holds k m n (fnOf Am)
  have hk := ofFn_kind k m n (fnOf Am)
  have := Is.of_holds h (by rw [hk]; exact shape_pos' k hm hn)
  rwa [hk] at this

theorem constructS_is {A : Store α} {kA : Kind} {m n : Nat} {Am : Mat α m n} (hA : Is A kA m n (fnOf Am)) (h : n ≤ m) :
    ∃ s, constructS A = .ok s ∧ Rep s (LU.factor h Am) :=
  of_Is hA (fun m n Am => ∀ h : n ≤ m, ∃ s, constructS A = .ok s ∧ Rep s (LU.factor h Am))
    (fun h => constructS_refines hA.1 h) h

theorem invS_is_ok {A O : Store α} {kA : Kind} {n : Nat} {Am : Mat α n n} (hA : Is A kA n n (fnOf Am)) (hO : O.WF)
    {d : α} {Y : Mat α n n} (h : LU.inv Am = .ok (d, Y)) :
    ∃ O', invS A O = .ok (d, O') ∧ Is O' O.kind n n (fnOf Y) := by
  have := of_Is hA (fun m n Am => ∀ (d : α) (Y : Mat α m m), LU.inv Am = .ok (d, Y) →
      ∃ O', invS A O = .ok (d, O') ∧ Is O' O.kind m m (fnOf Y))
    (fun d Y h => invS_ok hA.1 hO h)
  exact this d Y h

theorem invS_is_error {A : Store α} {kA : Kind} {m n : Nat} {Am : Mat α m n} (hA : Is A kA m n (fnOf Am)) (O : Store α)
    {e : LU.Err} (h : LU.inv Am = .error e) (hne : e ≠ .ub) : invS A O = .error e := by
  have := of_Is hA (fun m n Am => ∀ (e : LU.Err), LU.inv Am = .error e → e ≠ .ub → invS A O = .error e)
    (fun e h hne => invS_error hA.1 O h hne)
  exact this e h hne

theorem matDetS_is {A : Store α} {kA : Kind} {m n : Nat} {Am : Mat α m n} (hA : Is A kA m n (fnOf Am))
    (hne : LU.matDet Am ≠ .error .ub) : matDetS A = LU.matDet Am := by
  have := of_Is hA (fun m n Am => LU.matDet Am ≠ .error .ub → matDetS A = LU.matDet Am)
    (fun hne => matDetS_refines hA.1 hne)
  exact this hne

/-! ### witness of the defect repaired in `solve(B, B)` (exact arithmetic in `Rat`) -/

/-- the row-exchange matrix `[[0,1],[1,0]]` and the right-hand side `(3,5)ᵀ` -/
def witA : Store Rat := Store.ofFn .row 2 2 (fun i j => if i = j then 0 else 1)
def witB : Store Rat := Store.ofFn .row 2 1 (fun i _ => if i = 0 then 3 else 5)

/-- the call returned and entry `(i,j)` of the output is `v` -/
def entryIs (r : LUS.Res (Rat × Store Rat)) (i j : Nat) (v : Rat) : Bool :=
  match r with
  | .ok (_, X) => (match X.get i j with | .ok x => x == v | .error _ => false)
  | .error _ => false

/-- with separate operands the solution of `A·x = (3,5)ᵀ` is `(5,3)ᵀ`; so it is for `solve(B, B)`
after the repair; the text before the repair returned `(5,5)ᵀ` -/
def witAliasing : Bool :=
  match constructS witA with
  | .ok s =>
    entryIs (solveS s witB (Store.empty .row)) 0 0 5 && entryIs (solveS s witB (Store.empty .row)) 1 0 3 &&
    entryIs (solveSelfS s witB) 0 0 5 && entryIs (solveSelfS s witB) 1 0 3 &&
    entryIs (solveSelfOrigS s witB) 0 0 5 && entryIs (solveSelfOrigS s witB) 1 0 5
  | .error _ => false

end Bpp.LUS
