import BppProofs.Lemmas.LogSpace
/-!
Helper lemmas for C07 (log-space part), audit round: weighted sums (shift, bounds), the sign of
the weighted sum in the extended reading, infinite maxima.
-/
namespace Bpp.LogSpace
open Bpp Bpp.VecTools

/-- `Σ wᵢ·exp vᵢ` -/
noncomputable def wsum (v w : List ℝ) : ℝ := (List.zipWith (fun x c => c * Real.exp x) v w).sum

theorem wsum_map_add (v w : List ℝ) (c : ℝ) : wsum (v.map (· + c)) w = wsum v w * Real.exp c := by
  unfold wsum
  induction v generalizing w with
  | nil => simp
  | cons x xs ih =>
    cases w with
    | nil => simp
    | cons d ds =>
      simp only [List.map_cons, List.zipWith_cons_cons, List.sum_cons]
      rw [ih ds, add_mul, Real.exp_add]; ring

/-- with non-negative weights, `Σ wᵢ·exp vᵢ ≤ (Σ w)·exp M` for every upper bound `M` of `v` -/
theorem wsum_le (v w : List ℝ) (M : ℝ) (h : v.length = w.length) (hw : ∀ c ∈ w, 0 ≤ c)
    (hle : ∀ y ∈ v, y ≤ M) : wsum v w ≤ w.sum * Real.exp M := by
  unfold wsum
  induction v generalizing w with
  | nil =>
    cases w with
    | nil => simp
    | cons d ds => simp at h
  | cons x xs ih =>
    cases w with
    | nil => simp at h
    | cons d ds =>
      simp only [List.zipWith_cons_cons, List.sum_cons]
      have h1 := ih ds (by simpa using h) (fun c hc => hw c (by simp [hc])) (fun y hy => hle y (by simp [hy]))
      have hd : 0 ≤ d := hw d (by simp)
      have hx : Real.exp x ≤ Real.exp M := Real.exp_le_exp.mpr (hle x (by simp))
      nlinarith [mul_le_mul_of_nonneg_left hx hd]

/-- with non-negative weights every term is below the sum -/
theorem wsum_ge_term (v w : List ℝ) (hw : ∀ c ∈ w, 0 ≤ c) (i : Nat) (x c : ℝ)
    (hx : v[i]? = some x) (hc : w[i]? = some c) : c * Real.exp x ≤ wsum v w := by
  unfold wsum
  induction v generalizing w i with
  | nil => simp at hx
  | cons y ys ih =>
    cases w with
    | nil => simp at hc
    | cons d ds =>
      simp only [List.zipWith_cons_cons, List.sum_cons]
      have hrest : 0 ≤ (List.zipWith (fun x c => c * Real.exp x) ys ds).sum := by
        apply List.sum_nonneg
        intro t ht
        obtain ⟨j, hj, rfl⟩ := List.mem_iff_getElem.mp ht
        simp only [List.getElem_zipWith]
        exact mul_nonneg (hw _ (List.mem_cons_of_mem _ (List.getElem_mem _))) (Real.exp_pos _).le
      cases i with
      | zero =>
        simp only [List.getElem?_cons_zero, Option.some.injEq] at hx hc
        subst hx hc; linarith
      | succ k =>
        simp only [List.getElem?_cons_succ] at hx hc
        have := ih ds (fun c hc => hw c (by simp [hc])) k hx hc
        have hd : 0 ≤ d * Real.exp y := mul_nonneg (hw d (by simp)) (Real.exp_pos _).le
        linarith

/-- weighted `logSumExp (v, w) = ln Σ wᵢ·exp vᵢ` for a positive weighted sum -/
theorem logSumExpW_eq_pos (v w : List ℝ) (hv : v ≠ []) (h : v.length = w.length) (hpos : 0 < wsum v w) :
    logSumExpW v w = .ok (Real.log (wsum v w)) := logSumExpW_eq v w hv h hpos.ne'

/-- the shifted sum the code takes the logarithm of -/
theorem logSumExpW_unfold (v w : List ℝ) (hv : v ≠ []) (h : v.length = w.length) :
    ∃ M, vmax v = .ok M ∧
      logSumExpW v w = .ok (Real.log (List.zipWith (fun x c => c * Real.exp (x - M)) v w).sum + M) := by
  obtain ⟨M, hM⟩ := vmax_defined v hv
  refine ⟨M, hM, ?_⟩
  unfold logSumExpW
  rw [if_neg (by simpa using h), hM]
  simp only [bind, Except.bind, isInf_eq, Bool.false_eq_true, if_false, expSumW_eq M v w hv h, pure, Except.pure, log_eq]

/-! ### the extended reading on finite inputs -/
section ExtFin
open Ext

theorem finPart_map_fin (v : List ℝ) : finPart (v.map Ext.fin) = v := by
  induction v with
  | nil => rfl
  | cons x xs ih => simp [finPart, ih]

theorem logVals_map_fin (v : List ℝ) : LogVals (v.map Ext.fin) := by
  intro e he
  obtain ⟨x, -, rfl⟩ := List.mem_map.mp he
  exact Or.inr ⟨x, rfl⟩

theorem vmax_map_fin (v : List ℝ) (m : ℝ) (hm : vmax v = .ok m) : vmax (v.map Ext.fin) = .ok (Ext.fin m) :=
  vmax_ext _ (logVals_map_fin v) m (by rw [finPart_map_fin]; exact hm)

theorem foldl_zip_fin (m : ℝ) (r1 r2 : List ℝ) (a : ℝ) :
    (List.zip (r1.map Ext.fin) (r2.map Ext.fin)).foldl
        (fun x (p : Ext ℝ × Ext ℝ) => x + p.2 * LogArith.exp (p.1 - Ext.fin m)) (Ext.fin a) =
      Ext.fin (a + (List.zipWith (fun x c => c * Real.exp (x - m)) r1 r2).sum) := by
  induction r1 generalizing r2 a with
  | nil => simp
  | cons x xs ih =>
    cases r2 with
    | nil => simp
    | cons c cs =>
      simp only [List.map_cons, List.zip_cons_cons, List.foldl_cons, List.zipWith_cons_cons, List.sum_cons]
      have : (Ext.fin a + Ext.fin c * LogArith.exp (Ext.fin x - Ext.fin m) : Ext ℝ) =
          Ext.fin (a + c * Real.exp (x - m)) := by
        simp [Ext.sub, Ext.exp', Ext.mul, Ext.add]
      rw [this, ih cs]
      congr 1; ring

theorem expSumW_map_fin (m : ℝ) (v w : List ℝ) (hv : v ≠ []) (h : v.length = w.length) :
    expSumW (Ext.fin m) (v.map Ext.fin) (w.map Ext.fin) =
      .ok (Ext.fin (List.zipWith (fun x c => c * Real.exp (x - m)) v w).sum) := by
  cases v with
  | nil => exact absurd rfl hv
  | cons x xs =>
    cases w with
    | nil => simp at h
    | cons c cs =>
      simp only [List.map_cons, expSumW]
      have : (Ext.fin c * LogArith.exp (Ext.fin x - Ext.fin m) : Ext ℝ) = Ext.fin (c * Real.exp (x - m)) := by
        simp [Ext.sub, Ext.exp', Ext.mul]
      rw [this, foldl_zip_fin]
      simp

/-- the outcome of weighted `logSumExp` on finite inputs in the reading with `±∞` and NaN: the
logarithm of a positive weighted sum, **NaN for a negative one**, `-∞` for a zero one -/
theorem logSumExpW_fin (v w : List ℝ) (hv : v ≠ []) (h : v.length = w.length) :
    logSumExpW (v.map Ext.fin) (w.map Ext.fin) =
      .ok (if 0 < wsum v w then Ext.fin (Real.log (wsum v w))
           else if wsum v w < 0 then Ext.nan else Ext.ninf) := by
  obtain ⟨m, hm⟩ := vmax_defined v hv
  unfold logSumExpW
  rw [if_neg (by simpa using h), vmax_map_fin v m hm]
  simp only [bind, Except.bind, ext_isInf, Ext.isInf', Bool.false_eq_true, if_false,
    expSumW_map_fin m v w hv h, pure, Except.pure, ext_log, ext_add]
  have hS : (List.zipWith (fun x c => c * Real.exp (x - m)) v w).sum = wsum v w * Real.exp (-m) :=
    sum_zipWith_shift m v w
  have hE : 0 < Real.exp (-m) := Real.exp_pos _
  rw [hS]
  by_cases hp : 0 < wsum v w
  · have hX : 0 < wsum v w * Real.exp (-m) := mul_pos hp hE
    rw [if_pos hp, log'_fin_pos _ hX]
    simp only [Ext.add]
    rw [Real.log_mul hp.ne' hE.ne', Real.log_exp]
    congr 2; ring
  · rw [if_neg hp]
    by_cases hn : wsum v w < 0
    · have hX : wsum v w * Real.exp (-m) < 0 := mul_neg_of_neg_of_pos hn hE
      rw [if_pos hn]
      simp [Ext.log', hX, not_lt.mpr hX.le, Ext.add]
    · have h0 : wsum v w = 0 := le_antisymm (not_lt.mp hp) (not_lt.mp hn)
      rw [if_neg hn, h0]
      simp [Ext.log', Ext.add]

end ExtFin

/-! ### an infinite maximum (generic: any reading) -/
section InfMax
variable {α : Type} [LogArith α]
open LogArith

theorem logSumExp_inf_max (v : List α) (M : α) (h1 : v.length ≠ 1) (hM : vmax v = .ok M) (hi : isInf M = true) :
    logSumExp v = .ok M := by
  unfold logSumExp
  rw [if_neg h1, hM]
  simp [bind, Except.bind, hi, pure, Except.pure]

theorem logSumExpW_inf_max (v w : List α) (M : α) (h : v.length = w.length) (hM : vmax v = .ok M)
    (hi : isInf M = true) : logSumExpW v w = .error .badnumber := by
  unfold logSumExpW
  rw [if_neg (by simpa using h), hM]
  simp [bind, Except.bind, hi, throw, throwThe, MonadExceptOf.throw]

theorem sumExpW_inf_max (v w : List α) (M : α) (h : v.length = w.length) (h1 : v.length ≠ 1)
    (hM : vmax v = .ok M) (hi : isInf M = true) : sumExpW v w = .error .badnumber := by
  unfold sumExpW
  rw [if_neg (by simpa using h), if_neg h1, hM]
  simp [bind, Except.bind, hi, throw, throwThe, MonadExceptOf.throw]

end InfMax

theorem vmax_all_logzero (n : Nat) : vmax (List.replicate (n + 1) (Ext.ninf : Ext ℝ)) = .ok Ext.ninf := by
  have hl : LogVals (List.replicate n (Ext.ninf : Ext ℝ)) := by
    intro e he; exact Or.inl (List.eq_of_mem_replicate he)
  have hfp : ∀ j, finPart (List.replicate j (Ext.ninf : Ext ℝ)) = [] := by
    intro j; induction j with
    | zero => rfl
    | succ i ih => simp [List.replicate_succ, finPart, ih]
  rw [List.replicate_succ]
  simp only [vmax, extremum]
  have := foldMax_ninf _ hl
  rw [hfp] at this
  exact congrArg Except.ok this

end Bpp.LogSpace
