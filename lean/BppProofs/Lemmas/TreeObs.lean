import BppModel.TreeObs
import BppProofs.Lemmas.ObserverWorld
import BppProofs.Props.C15
/-! Helper lemmas for C15, object-level wrappers of the tree container watched by observers
(`BppModel/TreeObs.lean`).  Property theorems are in `Props/C15Obs.lean`. -/
set_option linter.unusedSimpArgs false
set_option linter.unusedVariables false
namespace Bpp
namespace Graph
open AL

/-! ### delivering notifications -/

theorem getObs_deliver (w : World) (k : Nat) :
    w.deliver.getObs k = (w.getObs k).map (fun o => w.g.pending.foldl Obs.notify o) := by
  simp only [World.deliver, World.getObs, List.getElem?_map]
  rcases w.obs[k]? with _ | x
  · rfl
  · cases x <;> rfl

theorem deliver_g (w : World) : w.deliver.g = { w.g with pending := [] } := rfl

/-- the observer forgets edge `e`: node associations are untouched, the other edge objects stay -/
theorem deletedEdge_keeps {o : Obs} (hi : Inverse o.gE o.Eg) (e : Nat) :
    (o.deletedEdge e).Ng = o.Ng ∧ (o.deletedEdge e).gN = o.gN ∧
    ∀ y e', find y o.Eg = some e' → e' ≠ e → find y (o.deletedEdge e).Eg = some e' := by
  unfold Obs.deletedEdge
  split
  · split
    · rename_i x hx
      have hs := forgetEdgeIndex_same { o with gE := Vec.put o.gE e none, Eg := AL.erase x o.Eg } x
      refine ⟨hs.2.2.1, hs.1, ?_⟩
      intro y e' hy hne
      rw [hs.2.2.2.1]
      simp only [find_erase]
      split
      · rename_i hxy
        subst hxy
        have := hi.fwd e x hx
        rw [hy] at this; injection this with this; exact absurd this hne
      · exact hy
    · exact ⟨rfl, rfl, fun y e' hy _ => hy⟩
  · exact ⟨rfl, rfl, fun y e' hy _ => hy⟩

/-! ### graph views around a father change -/

theorem cons_in_some {g : G} (hc : Consistent g) {a b e : Nat} (h : g.inE b a = some e) : g.outE a b = some e := by
  rcases hc.views.in_edge a b e h with h1 | ⟨hd, h1⟩
  · exact (hc.views.edge_listed e a b h1).1
  · exact ((hc.views.edge_listed e b a h1).2.2 hd).1

theorem inE_of_noFather {g : G} {n : Nat} (h : T.hasFather g n = some false) : ∀ y, g.inE n y = none := by
  intro y
  unfold T.hasFather RowQ.nbIn G.rowOf at h
  rcases hf : find n g.nodes with _ | r
  · simp [hf] at h
  · simp only [hf, Option.map_some, Option.some.injEq, decide_eq_false_iff_not] at h
    have : r.inn = [] := List.eq_nil_of_length_eq_zero (by omega)
    simp [G.inE, hf, this, find]

theorem inE_of_father {g : G} {n old : Nat} (h : T.father g n = some old) :
    ∃ e0, ∀ y, g.inE n y = if y = old then some e0 else none := by
  unfold T.father G.inNeighbors RowQ.inNeighbors G.rowOf at h
  rcases hf : find n g.nodes with _ | r
  · simp [hf] at h
  · rcases hr : r.inn with _ | ⟨⟨k, e0⟩, tl⟩
    · simp [hf, hr, AL.keys] at h
    · cases tl with
      | nil =>
        simp only [hf, hr, AL.keys, Option.map_some, List.map_cons, List.map_nil, Option.some.injEq] at h
        subst h
        refine ⟨e0, fun y => ?_⟩
        simp only [G.inE, hf, hr, Option.bind_some, find]
        by_cases hy : y = k
        · subst hy; simp
        · have : ¬ k = y := fun hh => hy hh.symm
          simp [hy, this]
      | cons p tl' => simp [hf, hr, AL.keys] at h

/-- a successful `link f n` on a node that has no incoming entry -/
theorem link_ok_views {g g2 : G} (hc : Consistent g) {f n u : Nat} (hin : ∀ y, g.inE n y = none)
    (hl : G.link f n g = .ok u g2) :
    u = g.nextEdge ∧ Consistent g2 ∧ g2.pending = g.pending ∧ g2.outE f n = some u ∧
    (∀ y, g2.inE n y = if y = f then some u else none) ∧ (∀ m, g2.hasNode m = g.hasNode m) ∧
    (∀ e', find e' g2.edges = if u = e' then some (f, n) else find e' g.edges) ∧ g.hasEdge u = false := by
  cases hr : G.linkRefused g f n
  · obtain ⟨ha, hb, hO⟩ := G.linkRefused_false hr
    obtain ⟨h1, hc', hN, hOut, hE, _⟩ := G.link_views hc ha hb hO
    rw [h1] at hl; injection hl with h2 h3; subst h2; subst h3
    have hc0 := G.consistent_bump hc
    have habs := G.cons_absent hc0 hO
    have hI := G.inE_linkWrite g.nextEdge (g := { g with nextEdge := g.nextEdge + 1 }) ha hb hO habs.1 habs.2
    refine ⟨rfl, hc', (G.linkWrite_rest _ _ _ _).2.2.2.2, by rw [hOut]; simp, ?_, hN, hE, ?_⟩
    · intro y
      rw [hI]
      by_cases hy : y = f
      · simp [hy]
      · have h0 : ({ g with nextEdge := g.nextEdge + 1 } : G).inE n y = none := hin y
        simp only [hy, and_false, if_false, h0]
        split
        · rename_i hh; exact absurd (hh.2.2.trans hh.2.1) hy
        · rfl
    · have := G.fresh_edge hc (Nat.le_refl g.nextEdge)
      simp [G.hasEdge, has, this]
  · simp [G.link, hr] at hl

/-- the first phase of `setFatherG`: unlinking the single father -/
theorem unlink_father_views {g : G} (hc : Consistent g) {n old : Nat} (hfa : T.father g n = some old) :
    ∃ e0 g1, G.unlink old n g = .ok [e0] g1 ∧ g.hasEdge e0 = true ∧ Consistent g1 ∧
      g1.pending = g.pending ++ [.edges [e0]] ∧ (∀ y, g1.inE n y = none) ∧ (∀ m, g1.hasNode m = g.hasNode m) ∧
      g1.edges = erase e0 g.edges ∧ g1.nextEdge = g.nextEdge := by
  obtain ⟨e0, hin⟩ := inE_of_father hfa
  have hI : g.inE n old = some e0 := by rw [hin]; simp
  have hO := cons_in_some hc hI
  obtain ⟨g1, h1, u⟩ := G.unlink_some hc hO
  refine ⟨e0, g1, h1, (G.cons_out_some hc hO).2.1, u.consistent hc hO, u.pending, ?_, u.hasNode, u.edges, u.rest.2.2.1⟩
  intro y
  rw [u.inE, hin]
  by_cases hy : y = old
  · simp [hy]
  · simp only [hy, and_false, false_or, if_false]
    split <;> rfl

/-! ### `liftW` -/

namespace TW

theorem liftW_w {α : Type} (tw : TW) (r : GOut α) : (tw.liftW r).2.w = ({ tw.w with g := r.state } : World).deliver := by
  cases r <;> rfl

theorem liftW_g {α : Type} (tw : TW) (r : GOut α) : (tw.liftW r).2.w.g = { r.state with pending := [] } := by
  cases r <;> rfl

theorem liftW_getObs {α : Type} (tw : TW) (r : GOut α) (k : Nat) :
    (tw.liftW r).2.w.getObs k = (tw.w.getObs k).map (fun o => r.state.pending.foldl Obs.notify o) := by
  rw [liftW_w, getObs_deliver]; rfl

theorem liftW_fst_ok {α : Type} (tw : TW) (r : GOut α) {a : α} {g : G} (h : (tw.liftW r).1 = .ok a g) :
    ∃ g', r = .ok a g' := by
  cases r with
  | ok a' g' =>
    simp only [liftW, World.graphOp] at h
    injection h with h1 _; subst h1; exact ⟨g', rfl⟩
  | exc g' => simp [liftW, World.graphOp] at h

theorem liftW_winv {α : Type} {tw : TW} (hw : WInv tw.w) (r : GOut α) (hc : Consistent r.state)
    (hn : Notified tw.w.g r.state) : WInv (tw.liftW r).2.w := by
  rw [liftW_w]; exact deliver_winv hw hc hn

theorem touch_w (r : GOut Unit × TW) : (touch r).2.w = r.2.w := by
  unfold touch; split <;> rfl

theorem touch_fst (r : GOut Unit × TW) : (touch r).1 = r.1 := by
  unfold touch; split <;> rfl

theorem andThen_prop {α β : Type} (P : TW → Prop) (r : GOut α × TW) (f : α → TW → GOut β × TW) (h : P r.2)
    (hf : ∀ a t, P t → P (f a t).2) : P (andThen r f).2 := by
  unfold andThen
  split
  · exact hf _ _ h
  · exact h

theorem link_state_consistent {g : G} (hc : Consistent g) (a b : Nat) : Consistent (G.link a b g).state := by
  have := G.link_consistent hc a b
  cases hr : G.link a b g <;> rw [hr] at this <;> exact this

theorem unlink_state_consistent {g : G} (hc : Consistent g) (a b : Nat) : Consistent (G.unlink a b g).state := by
  have := G.unlink_consistent hc a b
  cases hr : G.unlink a b g <;> rw [hr] at this <;> exact this

theorem liftW_link_winv {tw : TW} (hw : WInv tw.w) (a b : Nat) : WInv (tw.liftW (tw.w.g.link a b)).2.w :=
  liftW_winv hw _ (link_state_consistent hw.graph a b) (G.link_notified a b tw.w.g)

theorem liftW_unlink_winv {tw : TW} (hw : WInv tw.w) (a b : Nat) : WInv (tw.liftW (tw.w.g.unlink a b)).2.w :=
  liftW_winv hw _ (unlink_state_consistent hw.graph a b) (G.unlink_notified hw.graph a b)

/-- `setFatherG` keeps the world in order, whether it succeeds or raises -/
theorem setFatherG_winv {tw : TW} (hw : WInv tw.w) (n f : Nat) : WInv (tw.setFatherG n f).2.w := by
  unfold setFatherG
  split
  · exact hw
  · split
    · exact hw
    · rw [touch_w]
      apply andThen_prop (fun t => WInv t.w)
      · split
        · split
          · exact hw
          · exact liftW_unlink_winv hw _ _
        · exact hw
      · intro _ t ht; exact liftW_link_winv ht _ _

theorem addSonG_winv {tw : TW} (hw : WInv tw.w) (n s : Nat) : WInv (tw.addSonG n s).2.w := by
  unfold addSonG; rw [touch_w]; exact liftW_link_winv hw _ _

/-! ### what a successful `setFatherG` / `addSonG` did -/

/-- the second phase: `link f n` succeeded on a node without incoming entry -/
theorem linkPhase {t1 : TW} (hw : WInv t1.w) (n f : Nat) (hin : ∀ y, t1.w.g.inE n y = none)
    {u : Nat} {gq : G} (h : (t1.liftW (t1.w.g.link f n)).1 = .ok u gq) :
    u = t1.w.g.nextEdge ∧ WInv (t1.liftW (t1.w.g.link f n)).2.w ∧
    (t1.liftW (t1.w.g.link f n)).2.w.g.outE f n = some u ∧
    (∀ y, (t1.liftW (t1.w.g.link f n)).2.w.g.inE n y = if y = f then some u else none) ∧
    (∀ m, (t1.liftW (t1.w.g.link f n)).2.w.g.hasNode m = t1.w.g.hasNode m) ∧
    (∀ e', find e' (t1.liftW (t1.w.g.link f n)).2.w.g.edges = if u = e' then some (f, n) else find e' t1.w.g.edges) ∧
    t1.w.g.hasEdge u = false ∧
    (∀ k, (t1.liftW (t1.w.g.link f n)).2.w.getObs k = t1.w.getObs k) := by
  obtain ⟨g2, hl⟩ := liftW_fst_ok _ _ h
  obtain ⟨hu, hc2, hp, hO, hI, hN, hE, hfresh⟩ := link_ok_views hw.graph hin hl
  have hq : g2.pending = [] := by rw [hp]; exact hw.quiet
  refine ⟨hu, liftW_link_winv hw _ _, ?_, ?_, ?_, ?_, hfresh, ?_⟩
  · rw [liftW_g, hl]; exact hO
  · intro y; rw [liftW_g, hl]; exact hI y
  · intro m; rw [liftW_g, hl]; exact hN m
  · intro e'; rw [liftW_g, hl]; exact hE e'
  · intro k
    rw [liftW_getObs, hl]
    simp only [GOut.state, hq, List.foldl_nil]
    cases t1.w.getObs k <;> rfl

/-- what a successful `setFatherG n f` did: the fresh edge `e` is the only incoming entry of `n`,
the node set is unchanged, every observer keeps its node associations and the associations of the
edges that are still there -/
structure FatherSet (tw : TW) (n f e : Nat) (tw1 : TW) : Prop where
  winv : WInv tw1.w
  fresh : tw.w.g.hasEdge e = false
  out : tw1.w.g.outE f n = some e
  inn : ∀ y, tw1.w.g.inE n y = if y = f then some e else none
  hasNode : ∀ m, tw1.w.g.hasNode m = tw.w.g.hasNode m
  obs : ∀ k o, tw.w.getObs k = some o → ∃ o1, tw1.w.getObs k = some o1 ∧ o1.Ng = o.Ng ∧ o1.gN = o.gN ∧
    ∀ y e', find y o.Eg = some e' → tw1.w.g.hasEdge e' = true → find y o1.Eg = some e'

theorem addSonG_ok {tw : TW} (hw : WInv tw.w) {n s : Nat} (hin : ∀ y, tw.w.g.inE s y = none) {u : Unit} {gq : G}
    (h : (tw.addSonG n s).1 = .ok u gq) : FatherSet tw s n tw.w.g.nextEdge (tw.addSonG n s).2 := by
  unfold addSonG at h ⊢
  rw [touch_fst] at h
  rcases hr : (tw.liftW (tw.w.g.link n s)).1 with ⟨e, g'⟩ | g'
  · obtain ⟨hu, hw2, hO, hI, hN, hE, hfresh, hobs⟩ := linkPhase hw s n hin hr
    subst hu
    refine ⟨by rw [touch_w]; exact hw2, hfresh, by rw [touch_w]; exact hO, by rw [touch_w]; exact hI,
      by rw [touch_w]; exact hN, ?_⟩
    intro k o hk
    refine ⟨o, by rw [touch_w]; show (tw.liftW (tw.w.g.link n s)).2.w.getObs k = _; rw [hobs, hk], rfl, rfl, ?_⟩
    intro y e' hy _; exact hy
  · simp [unit, hr, GOut.forget] at h

theorem setFatherG_ok {tw : TW} (hw : WInv tw.w) {n f : Nat} {u : Unit} {gq : G}
    (h : (tw.setFatherG n f).1 = .ok u gq) : FatherSet tw n f tw.w.g.nextEdge (tw.setFatherG n f).2 := by
  cases hnf : tw.w.g.hasNode f
  · simp [setFatherG, hnf] at h
  rcases hhf : T.hasFather tw.w.g n with _ | hf
  · simp [setFatherG, hnf, hhf] at h
  cases hf with
  | false =>
    -- no father: the link only
    have heq : tw.setFatherG n f = touch (unit (tw.liftW (tw.w.g.link f n))) := by
      simp [setFatherG, hnf, hhf, andThen]
    rw [heq] at h ⊢
    exact addSonG_ok hw (inE_of_noFather hhf) h
  | true =>
    rcases hfa : T.father tw.w.g n with _ | old
    · simp [setFatherG, hnf, hhf, hfa, andThen, touch] at h
    · have heq : tw.setFatherG n f = touch (andThen (unit (tw.liftW (tw.w.g.unlink old n)))
          (fun _ t1 => unit (t1.liftW (t1.w.g.link f n)))) := by
        simp [setFatherG, hnf, hhf, hfa]
      rw [heq] at h ⊢
      obtain ⟨e0, g1, h1, he0, hc1, hp1, hin1, hN1, hE1, hne1⟩ := unlink_father_views hw.graph hfa
      -- the state after the first phase
      have hw1 : WInv (tw.liftW (tw.w.g.unlink old n)).2.w := liftW_unlink_winv hw _ _
      have hg1 : (tw.liftW (tw.w.g.unlink old n)).2.w.g = { g1 with pending := [] } := by rw [liftW_g, h1]; rfl
      have hfst : (unit (tw.liftW (tw.w.g.unlink old n))).1 = .ok () { g1 with pending := [] } := by
        simp [unit, liftW, World.graphOp, h1, GOut.forget]
      have hand : andThen (unit (tw.liftW (tw.w.g.unlink old n))) (fun _ t1 => unit (t1.liftW (t1.w.g.link f n))) =
          unit ((tw.liftW (tw.w.g.unlink old n)).2.liftW ((tw.liftW (tw.w.g.unlink old n)).2.w.g.link f n)) := by
        unfold andThen; rw [hfst]; rfl
      rw [hand] at h ⊢
      rw [touch_fst] at h
      obtain ⟨t1, ht1⟩ : ∃ t1, t1 = (tw.liftW (tw.w.g.unlink old n)).2 := ⟨_, rfl⟩
      rw [← ht1] at h hw1 hg1 ⊢
      rcases hr : (t1.liftW (t1.w.g.link f n)).1 with ⟨e, g'⟩ | g'
      · have hin : ∀ y, t1.w.g.inE n y = none := by intro y; rw [hg1]; exact hin1 y
        obtain ⟨hu, hw2, hO, hI, hN, hE, hfresh, hobs⟩ := linkPhase hw1 n f hin hr
        have hne : t1.w.g.nextEdge = tw.w.g.nextEdge := by rw [hg1]; exact hne1
        rw [hne] at hu; subst hu
        have hlt : e0 < tw.w.g.nextEdge := hw.graph.edge_lt e0 he0
        refine ⟨by rw [touch_w]; exact hw2, ?_, by rw [touch_w]; exact hO, by rw [touch_w]; exact hI, ?_, ?_⟩
        · have := G.fresh_edge hw.graph (Nat.le_refl tw.w.g.nextEdge)
          simp [G.hasEdge, has, this]
        · intro m; rw [touch_w]; show (t1.liftW (t1.w.g.link f n)).2.w.g.hasNode m = _
          rw [hN, hg1]; exact hN1 m
        · intro k o hk
          have hi := hw.obs k o hk
          have hk1 : t1.w.getObs k = some (o.deletedEdge e0) := by
            rw [ht1, liftW_getObs, hk, h1]
            simp [GOut.state, hp1, hw.quiet, Obs.notify]
          obtain ⟨k1, k2, k3⟩ := deletedEdge_keeps hi.edges e0
          refine ⟨o.deletedEdge e0, ?_, k1, k2, ?_⟩
          · rw [touch_w]; show (t1.liftW (t1.w.g.link f n)).2.w.getObs k = _
            rw [hobs, hk1]
          · intro y e' hy hlive
            apply k3 y e' hy
            intro hee; subst hee
            rw [touch_w] at hlive
            have : find e' (t1.liftW (t1.w.g.link f n)).2.w.g.edges = none := by
              rw [hE, hg1]
              have hne' : ¬ tw.w.g.nextEdge = e' := by omega
              simp only [hne', if_false]
              show find e' g1.edges = none
              rw [hE1, find_erase]; simp
            have hlive' : (find e' (t1.liftW (t1.w.g.link f n)).2.w.g.edges).isSome = true := hlive
            rw [this] at hlive'; simp at hlive'
      · simp [unit, hr, GOut.forget] at h

/-! ### the object-level `setFather` -/

theorem ofG_ok {r : GOut Unit × TW} {t : TW} (h : ofG r = (.ok, t)) : t = r.2 ∧ ∃ u g, r.1 = .ok u g := by
  unfold ofG at h
  split at h
  · rename_i u g hr
    injection h with _ h2
    exact ⟨h2.symm, u, g, hr⟩
  · injection h with h1 _; cases h1

/-- what a successful `setFather(node, father, edgeObject)` went through -/
theorem setFather_ok_inv {tw tw' : TW} {k : Nat} {a f x : Obj} (h : tw.setFather k a f (some x) = (.ok, tw')) :
    ∃ o ia ifa u gq e o1 o2, tw.w.getObs k = some o ∧ find a o.Ng = some ia ∧ find f o.Ng = some ifa ∧
      (tw.setFatherG ia ifa).1 = .ok u gq ∧
      (tw.setFatherG ia ifa).2.w.g.getEdge ifa ia = some e ∧ (tw.setFatherG ia ifa).2.w.getObs k = some o1 ∧
      World.associateEdge (tw.setFatherG ia ifa).2.w.g o1 x e = .ok o2 ∧
      tw' = { (tw.setFatherG ia ifa).2 with w := (tw.setFatherG ia ifa).2.w.setObs k o2 } := by
  unfold setFather at h
  rcases hk : tw.w.getObs k with _ | o
  · simp [hk] at h
  rcases ha : find a o.Ng with _ | ia
  · simp [hk, ha] at h
  rcases hf : find f o.Ng with _ | ifa
  · simp [hk, ha, hf] at h
  simp only [hk, ha, hf] at h
  split at h
  · simp at h
  · simp at h
  · rcases hr : ofG (tw.setFatherG ia ifa) with ⟨res, tw1⟩
    rw [hr] at h
    cases res with
    | ok =>
      obtain ⟨ht, u, gq, hfst⟩ := ofG_ok hr
      subst ht
      simp only at h
      split at h
      · rename_i e o1 he ho1
        split at h
        · rename_i o2 hass
          injection h with _ h2
          exact ⟨o, ia, ifa, u, gq, e, o1, o2, rfl, ha, hf, hfst, he, ho1, hass, h2.symm⟩
        · injection h with h1 _; cases h1
      · injection h with h1 _; cases h1
      · injection h with h1 _; cases h1
    | exc kd => simp at h
    | ub => simp at h

theorem father_of_inE {g : G} (hc : Consistent g) {n f e : Nat}
    (hin : ∀ y, g.inE n y = if y = f then some e else none) : T.father g n = some f := by
  have hI : g.inE n f = some e := by rw [hin]; simp
  have hn := G.inE_some_hasNode hI
  obtain ⟨r, hr⟩ := (G.hasNode_iff g n).mp hn
  have hrow : r.inn = [(f, e)] := by
    apply asc_ext (hc.sorted.rows n r hr).2 (by simp [Asc, AL.keys])
    intro k
    have := hin k
    simp only [G.inE, hr, Option.bind_some] at this
    rw [this]
    simp only [find]
    by_cases hk : k = f
    · subst hk; simp
    · have : ¬ f = k := fun hh => hk hh.symm
      simp [hk, this]
  simp [T.father, G.inNeighbors, RowQ.inNeighbors, G.rowOf, hr, hrow, AL.keys]

theorem associateEdge_ok {g : G} {o o2 : Obs} {x e : Nat} (h : World.associateEdge g o x e = .ok o2) :
    o2.Ng = o.Ng ∧ o2.gN = o.gN ∧ o2.edgeFromGid e = some x ∧ (∀ y, find y o2.Eg = if x = y then some e else find y o.Eg) := by
  unfold World.associateEdge at h
  split at h; · cases h
  split at h; · cases h
  split at h; · cases h
  injection h with h; subst h
  refine ⟨rfl, rfl, ?_, fun y => find_set _ _ _ _⟩
  have hlen : e < (Vec.grow o.gE (e + 1)).length := by rw [Vec.length_grow]; omega
  simp only [Obs.edgeFromGid, Vec.length_put, ge_iff_le]
  rw [if_neg (by omega), Vec.get_put]
  simp [hlen]

/-- what a successful `setFather(node a, father f, edgeObject x)` through observer `k` did -/
theorem setFather_ok_spec {tw tw' : TW} {k : Nat} {a f x : Obj} (hw : WInv tw.w)
    (h : tw.setFather k a f (some x) = (.ok, tw')) :
    ∃ o o' ia ifa e, tw.w.getObs k = some o ∧ tw'.w.getObs k = some o' ∧ find a o.Ng = some ia ∧ find f o.Ng = some ifa ∧
      o'.Ng = o.Ng ∧ WInv tw'.w ∧ tw'.w.g.getEdge ifa ia = some e ∧ T.father tw'.w.g ia = some ifa ∧
      o'.edgeFromGid e = some x ∧ find x o'.Eg = some e ∧
      (∀ y e', y ≠ x → find y o.Eg = some e' → tw'.w.g.hasEdge e' = true → find y o'.Eg = some e') := by
  obtain ⟨o, ia, ifa, u, gq, e, o1, o2, hk, ha, hf, hfst, he, ho1, hass, htw'⟩ := setFather_ok_inv h
  have fs := setFatherG_ok hw hfst
  obtain ⟨o1', ho1', hNg, _, hkeep⟩ := fs.obs k o hk
  rw [ho1] at ho1'; injection ho1' with ho1'; subst ho1'
  obtain ⟨a1, a2, a3, a4⟩ := associateEdge_ok hass
  have hlt := getObs_lt ho1
  have hw' : WInv tw'.w := by
    rw [htw']
    exact winv_same_graph fs.winv k o2 hlt (associateEdge_inv (fs.winv.obs k o1 ho1) hass)
  have hg : tw'.w.g = (tw.setFatherG ia ifa).2.w.g := by rw [htw']; rfl
  refine ⟨o, o2, ia, ifa, e, hk, ?_, ha, hf, a1.trans hNg, hw', by rw [hg]; exact he, ?_, a3, by rw [a4]; simp, ?_⟩
  · rw [htw']; show ((tw.setFatherG ia ifa).2.w.setObs k o2).getObs k = _
    rw [getObs_setObs _ _ _ _ hlt]; simp
  · rw [hg]; exact father_of_inE fs.winv.graph fs.inn
  · intro y e' hy hye hlive
    rw [a4, if_neg (fun hh => hy hh.symm)]
    rw [hg] at hlive
    exact hkeep y e' hye hlive

/-! ### `link` / `addSon` with an edge object -/

/-- what a successful `link(A, B, E)` of the base observer did -/
theorem world_link_ok_spec {w w' : World} {k : Nat} {a b x : Obj} {u : Unit} (hw : WInv w)
    (h : w.link k a b (some x) = .ok u w') :
    ∃ o o' ia ib e, w.getObs k = some o ∧ w'.getObs k = some o' ∧ find a o.Ng = some ia ∧ find b o.Ng = some ib ∧
      o'.Ng = o.Ng ∧ w'.g.getEdge ia ib = some e ∧ o'.edgeFromGid e = some x := by
  unfold World.link at h
  rcases hk : w.getObs k with _ | o
  · simp [hk] at h
  rcases ha : find a o.Ng with _ | ia
  · simp [hk, ha] at h
  rcases hb : find b o.Ng with _ | ib
  · simp [hk, ha, hb] at h
  simp only [hk, ha, hb] at h
  split at h; · cases h
  rcases hl : G.link ia ib w.g with ⟨e, g'⟩ | g'
  · rw [hl] at h
    simp only at h
    injection h with _ h; subst h
    have hlt := getObs_lt hk
    cases hr : G.linkRefused w.g ia ib
    · obtain ⟨hA, hB, hO⟩ := G.linkRefused_false hr
      obtain ⟨h1, _, _, hOut, _⟩ := G.link_views hw.graph hA hB hO
      rw [h1] at hl; injection hl with h2 h3; subst h2; subst h3
      refine ⟨o, { o with gE := Vec.put (Vec.grow o.gE (w.g.nextEdge + 1)) w.g.nextEdge (some x),
                          Eg := AL.set x w.g.nextEdge o.Eg }, ia, ib, w.g.nextEdge, rfl, ?_, ha, hb, rfl, ?_, ?_⟩
      · exact (getObs_setObs _ k k _ (by exact hlt)).trans (by simp)
      · exact (hOut ia ib).trans (by simp)
      · have hlen : w.g.nextEdge < (Vec.grow o.gE (w.g.nextEdge + 1)).length := by rw [Vec.length_grow]; omega
        simp only [Obs.edgeFromGid, Vec.length_put, ge_iff_le]
        rw [if_neg (by omega), Vec.get_put]
        simp [hlen]
    · simp [G.link, hr] at hl
  · rw [hl] at h; cases h

theorem ofO_ok {tw tw' : TW} {r : OOut Unit} {b : Bool} (h : tw.ofO r b = (.ok, tw')) : ∃ u, r = .ok u tw'.w := by
  unfold ofO at h
  split at h
  · injection h with _ h; subst h; exact ⟨_, rfl⟩
  · injection h with h _; cases h
  · injection h with h _; cases h

/-! ### refusal of an object that sits on another branch -/

theorem edgeFromGid_of_find {o : Obs} (hi : Inverse o.gE o.Eg) {x e : Nat} (h : find x o.Eg = some e) :
    o.edgeFromGid e = some x := by
  have hg := hi.bwd x e h
  have hlt := Vec.get_eq_some_lt hg
  simp only [Obs.edgeFromGid, ge_iff_le]
  rw [if_neg (by omega)]; exact hg

theorem nodeFromGid_of_find {o : Obs} (hi : Inverse o.gN o.Ng) {a id : Nat} (h : find a o.Ng = some id) :
    o.nodeFromGid id = some a := by
  have hg := hi.bwd a id h
  have hlt := Vec.get_eq_some_lt hg
  simp only [Obs.nodeFromGid, ge_iff_le]
  rw [if_neg (by omega)]; exact hg

theorem setFather_refused {tw : TW} {k : Nat} {a f x : Obj} {o : Obs} {ex : Nat} (hk : tw.w.getObs k = some o)
    (hx : find x o.Eg = some ex) (hne : ∀ ia, find a o.Ng = some ia → T.edgeToFather tw.w.g ia ≠ some ex) :
    tw.setFather k a f (some x) = (.exc .bpp, tw) := by
  unfold setFather
  simp only [hk]
  rcases ha : find a o.Ng with _ | ia
  · rfl
  rcases hf : find f o.Ng with _ | ifa
  · rfl
  simp only [hx]
  rcases T.hasFather tw.w.g ia with _ | b
  · rfl
  cases b
  · rfl
  have := hne ia ha
  rcases he : T.edgeToFather tw.w.g ia with _ | ef
  · rfl
  · have hh : ef ≠ ex := by intro hh; rw [he, hh] at this; exact this rfl
    simp [hh]

end TW

/-! ### re-rooting keeps every node and edge id -/

/-- `g'` is consistent and quiet and has every node and edge id of `g` -/
structure Kept (g g' : G) : Prop where
  cons : Consistent g'
  quiet : g'.pending = []
  nodes : ∀ n, g.hasNode n = true → g'.hasNode n = true
  edges : ∀ e, g.hasEdge e = true → g'.hasEdge e = true

theorem Kept.refl {g : G} (hc : Consistent g) (hq : g.pending = []) : Kept g g := ⟨hc, hq, fun _ h => h, fun _ h => h⟩

theorem Kept.trans {g1 g2 g3 : G} (h12 : Kept g1 g2) (h23 : Kept g2 g3) : Kept g1 g3 :=
  ⟨h23.cons, h23.quiet, fun n h => h23.nodes n (h12.nodes n h), fun e h => h23.edges e (h12.edges e h)⟩

/-- an operation that tells about everything it deletes and tells nothing deletes nothing -/
theorem Notified.superset {g g' : G} (hn : Notified g g') (hp : g'.pending = g.pending) :
    (∀ n, g.hasNode n = true → g'.hasNode n = true) ∧ (∀ e, g.hasEdge e = true → g'.hasEdge e = true) := by
  obtain ⟨evs, hpe, hnn, hne⟩ := hn
  have : evs = [] := by
    rw [hp] at hpe
    exact List.self_eq_append_right.mp hpe
  subst this
  constructor
  · intro n h
    cases h' : g'.hasNode n
    · have := hnn n h h'; simp [notifiedNodes] at this
    · rfl
  · intro e h
    cases h' : g'.hasEdge e
    · have := hne e h h'; simp [notifiedEdges] at this
    · rfl

theorem kept_lift {α : Type} {t : T} (hc : Consistent t.g) (r : GOut α) (hc' : Consistent r.state)
    (hn : Notified t.g r.state) (hp : r.state.pending = t.g.pending) : Kept t.g (t.lift r).2.g := by
  obtain ⟨h1, h2⟩ := hn.superset hp
  have hg : (t.lift r).2.g = { r.state with pending := [] } := by cases r <;> rfl
  rw [hg]
  exact ⟨consistent_quiet hc', rfl, h1, h2⟩

theorem setRoot_pending (n : Nat) (g : G) : (G.setRoot n g).state.pending = g.pending := by
  unfold G.setRoot; split <;> rfl

theorem switchNodes_pending (a b : Nat) (g : G) : (G.switchNodes a b g).state.pending = g.pending := by
  rcases hr : G.switchNodes a b g with ⟨u, g'⟩ | g'
  · simp only [GOut.state]
    unfold G.switchNodes at hr
    have hfrom : ∀ f s e, G.switchFrom f s e g = .ok u g' → g'.pending = g.pending := by
      intro f s e hs
      unfold G.switchFrom at hs
      split at hs; · cases hs
      split at hs; · cases hs
      injection hs with _ hs; subst hs; rfl
    split at hr; · cases hr
    split at hr; · cases hr
    split at hr
    · exact hfrom _ _ _ hr
    · split at hr
      · exact hfrom _ _ _ hr
      · cases hr
  · rw [G.switchNodes_exc hr]; rfl

theorem state_consistent_of_all {α : Type} {r : GOut α} (h : r.All Consistent) : Consistent r.state := by
  cases r <;> exact h

theorem kept_setRoot {t : T} (hc : Consistent t.g) (n : Nat) : Kept t.g (t.setRoot n).2.g :=
  kept_lift hc _ (state_consistent_of_all (G.setRoot_consistent hc n)) (G.setRoot_notified n t.g) (setRoot_pending n t.g)

theorem kept_switch {t : T} (hc : Consistent t.g) (a b : Nat) : Kept t.g (t.lift (t.g.switchNodes a b)).2.g :=
  kept_lift hc _ (state_consistent_of_all (G.switchNodes_consistent hc a b)) (G.switchNodes_notified a b t.g)
    (switchNodes_pending a b t.g)

theorem kept_makeDirected {t : T} (hc : Consistent t.g) (hq : t.g.pending = []) : Kept t.g t.makeDirected.g := by
  unfold T.makeDirected
  split
  · exact Kept.refl hc hq
  · rename_i hd
    have hd' : t.g.directed = false := by simpa using hd
    obtain ⟨hc', d⟩ := G.makeDirected_spec hc hd'
    have hp : t.g.makeDirected.pending = t.g.pending := d.rest.2.2.2.2
    obtain ⟨h1, h2⟩ := (G.makeDirected_notified hc).superset hp
    exact ⟨hc', by rw [hp]; exact hq, h1, h2⟩

theorem T_andThen_prop {α β : Type} (P : T → Prop) (r : GOut α × T) (f : α → T → GOut β × T) (h : P r.2)
    (hf : ∀ a t', P t' → P (f a t').2) : P (T.andThen r f).2 := by
  unfold T.andThen
  split
  · exact hf _ _ h
  · exact h

theorem kept_propagate (fuel : Nat) : ∀ (t : T) (n : Nat) (r : GOut Unit × T), Consistent t.g → t.g.pending = [] →
    T.propagate fuel t n = .ok r → Kept t.g r.2.g := by
  induction fuel with
  | zero => intro t n r _ _ hr; simp [T.propagate] at hr
  | succ k ih =>
    intro t n r hc hq hr
    simp only [T.propagate] at hr
    split at hr
    · injection hr with hr; subst hr; exact Kept.refl hc hq
    · injection hr with hr; subst hr; exact Kept.refl hc hq
    · split at hr
      · injection hr with hr; subst hr; exact Kept.refl hc hq
      · rename_i f _
        rcases hp : T.propagate k t f with r1 | _ | _ | _ <;> rw [hp] at hr
        · injection hr with hr; subst hr
          apply T_andThen_prop (fun t' => Kept t.g t'.g) _ _ (ih t f r1 hc hq hp)
          intro _ t' h'
          exact h'.trans (kept_switch h'.cons _ _)
        · cases hr
        · cases hr
        · cases hr

theorem kept_orientStep {g0 : G} (r : GOut Unit × T) (p : Nat × Nat) (h : Kept g0 r.2.g) : Kept g0 (T.orientStep r p).2.g := by
  unfold T.orientStep
  apply T_andThen_prop (fun t' => Kept g0 t'.g) _ _ h
  intro _ t' h'
  split
  · exact h'
  · split
    · exact h'
    · split
      · exact h'.trans (kept_switch h'.cons _ _)
      · exact h'

theorem kept_orientFold {g0 : G} (rel : List (Nat × Nat)) : ∀ (r : GOut Unit × T), Kept g0 r.2.g →
    Kept g0 (rel.foldl T.orientStep r).2.g := by
  induction rel with
  | nil => intro r h; exact h
  | cons p rest ih => intro r h; exact ih _ (kept_orientStep r p h)

theorem isValid_g (t : T) : t.isValid.2.g = t.g := by
  unfold T.isValid
  split
  · rfl
  · split <;> rfl

/-- `rootAt` deletes no node and no edge id and leaves a consistent graph -/
theorem kept_rootAt (t : T) (hc : Consistent t.g) (hq : t.g.pending = []) (n : Nat) (r : GOut Unit × T)
    (hr : t.rootAt n = .ok r) : Kept t.g r.2.g := by
  unfold T.rootAt at hr
  have hg0 := isValid_g t
  rcases hv : t.isValid with ⟨v, t0⟩
  rw [hv] at hr hg0
  simp only at hr hg0
  have hc0 : Consistent t0.g := by rw [hg0]; exact hc
  have hq0 : t0.g.pending = [] := by rw [hg0]; exact hq
  have h0 : Kept t.g t0.g := by rw [hg0]; exact Kept.refl hc hq
  cases v with
  | ok b =>
    cases b with
    | true =>
      simp only at hr
      split at hr
      · injection hr with hr; subst hr; exact h0
      · split at hr
        · have h2 := kept_setRoot hc0 n
          rcases hs : t0.setRoot n with ⟨o, t2⟩
          rw [hs] at h2 hr
          cases o with
          | ok u g' => exact h0.trans (h2.trans (kept_propagate _ _ _ _ h2.cons h2.quiet hr))
          | exc g' => injection hr with hr; subst hr; exact h0.trans h2
        · rcases hrel : T.relationsFrom t0.g (t0.g.nodes.length + 2) n n [] with rel | _ | _ | _ <;> rw [hrel] at hr <;> simp only at hr
          · have h1 := kept_makeDirected hc0 hq0
            have h2 := kept_setRoot h1.cons (t := t0.makeDirected) n
            rcases hs : t0.makeDirected.setRoot n with ⟨o, t2⟩
            rw [hs] at h2 hr
            have h02 := h0.trans (h1.trans h2)
            cases o with
            | ok u g' =>
              injection hr with hr; subst hr
              exact kept_orientFold rel _ h02
            | exc g' => injection hr with hr; subst hr; exact h02
          · injection hr with hr; subst hr; exact h0
          · cases hr
          · cases hr
    | false => injection hr with hr; subst hr; exact h0
  | exc => injection hr with hr; subst hr; exact h0
  | fuel => cases hr
  | ub => cases hr

namespace TW

/-! ### the invariant of the observed tree container over one operation -/

/-- the cached flag is sound: when set, the traversal answers true on the current graph -/
def Sound (tw : TW) : Prop := Bpp.C15.CacheSound tw.toT

theorem sound_of_false {tw : TW} (h : tw.valid = false) : Sound tw := by
  intro hv; rw [show tw.toT.valid = tw.valid from rfl, h] at hv; cases hv

/-- world in order and cache sound -/
structure Inv (tw : TW) : Prop where
  winv : WInv tw.w
  sound : Sound tw

theorem inv_init (d : Bool) (hw : WInv (World.init d)) : Inv (TW.init d) := ⟨hw, sound_of_false rfl⟩

theorem liftW_inv {α : Type} {tw : TW} (hi : Inv tw) (r : GOut α) (hc : Consistent r.state)
    (hn : Notified tw.w.g r.state) : Inv (tw.liftW r).2 := by
  refine ⟨liftW_winv hi.winv r hc hn, ?_⟩
  cases r with
  | ok a g' => exact sound_of_false rfl
  | exc g' =>
    by_cases hg : g' = tw.w.g
    · subst hg
      intro hv
      have hv' : tw.valid = true := by simpa [liftW, toT] using hv
      have := hi.sound hv'
      rw [← this]
      exact Bpp.C15.isTree_congr rfl rfl rfl
    · exact sound_of_false (by simp [liftW, hg])

theorem touch_inv {r : GOut Unit × TW} (hi : Inv r.2) : Inv (touch r).2 := by
  unfold touch
  split
  · exact ⟨hi.winv, sound_of_false rfl⟩
  · exact hi

theorem ofG_snd (r : GOut Unit × TW) : (ofG r).2 = r.2 := by
  unfold ofG; split <;> rfl

theorem setFatherG_inv {tw : TW} (hi : Inv tw) (n f : Nat) : Inv (tw.setFatherG n f).2 := by
  unfold setFatherG
  split
  · exact hi
  · split
    · exact hi
    · apply touch_inv
      apply andThen_prop Inv
      · split
        · split
          · exact hi
          · exact liftW_inv hi _ (unlink_state_consistent hi.winv.graph _ _) (G.unlink_notified hi.winv.graph _ _)
        · exact hi
      · intro _ t ht
        exact liftW_inv ht _ (link_state_consistent ht.winv.graph _ _) (G.link_notified _ _ _)

theorem addSonG_inv {tw : TW} (hi : Inv tw) (n s : Nat) : Inv (tw.addSonG n s).2 :=
  touch_inv (liftW_inv hi _ (link_state_consistent hi.winv.graph _ _) (G.link_notified _ _ _))

/-- an operation of the base observer that resets the flag -/
theorem ofO_inv {tw : TW} (hi : Inv tw) {r : OOut Unit} (h : r.All WInv) : Inv (tw.ofO r true).2 := by
  unfold ofO
  cases r with
  | ok u w' => exact ⟨h, sound_of_false rfl⟩
  | exc kd w' =>
    refine ⟨h, ?_⟩
    by_cases hg : w'.g = tw.w.g
    · intro hv
      have hv' : tw.valid = true := by simpa [toT, hg] using hv
      have := hi.sound hv'
      show T.isTree w'.g = _
      rw [hg]; exact this
    · exact sound_of_false (by simp [hg])
  | ub => exact hi

theorem setFather_inv {tw : TW} (hi : Inv tw) (k : Nat) (a f : Obj) (x : Option Obj) : Inv (tw.setFather k a f x).2 := by
  unfold setFather
  split
  · exact hi
  · split
    · rename_i ia ifa _ _
      cases x with
      | none => simp only; rw [ofG_snd]; exact setFatherG_inv hi _ _
      | some x =>
        simp only
        split
        · exact hi
        · exact hi
        · have h1 := setFatherG_inv hi ia ifa
          rw [← ofG_snd] at h1
          rcases hr : ofG (tw.setFatherG ia ifa) with ⟨res, tw1⟩
          rw [hr] at h1
          simp only at h1
          cases res with
          | ok =>
            simp only
            split
            · rename_i e o1 he ho1
              split
              · rename_i o2 hass
                refine ⟨winv_same_graph h1.winv k o2 (getObs_lt ho1) (associateEdge_inv (h1.winv.obs k o1 ho1) hass), ?_⟩
                exact h1.sound
              · exact h1
            · exact h1
            · exact h1
          | exc kd => exact h1
          | ub => exact h1
    · exact hi

theorem addSon_inv {tw : TW} (hi : Inv tw) (k : Nat) (a s : Obj) (x : Option Obj) : Inv (tw.addSon k a s x).2 := by
  unfold addSon
  cases x with
  | some x => exact ofO_inv hi (world_link_inv hi.winv k a s _)
  | none =>
    simp only
    split
    · exact hi
    · split
      · rw [ofG_snd]; exact addSonG_inv hi _ _
      · exact hi

theorem isValid_inv {tw : TW} (hi : Inv tw) : Inv tw.isValid.2 := by
  refine ⟨hi.winv, ?_⟩
  have h := Bpp.C15.cacheSound_isValid tw.toT hi.sound
  intro hv
  have := h hv
  rw [isValid_g] at this; exact this

theorem rootAt_obs {tw : TW} {k : Nat} {a : Obj} {r : WRes × TW} (h : tw.rootAt k a = .ok r) : r.2.w.obs = tw.w.obs := by
  unfold rootAt at h
  split at h
  · injection h with h; subst h; rfl
  · split at h
    · injection h with h; subst h; rfl
    · split at h
      · injection h with h; subst h; rfl
      · cases h
      · cases h
      · cases h

theorem rootAt_inv {tw : TW} (hi : Inv tw) {k : Nat} {a : Obj} {r : WRes × TW} (h : tw.rootAt k a = .ok r) : Inv r.2 := by
  unfold rootAt at h
  split at h
  · injection h with h; subst h; exact hi
  · split at h
    · injection h with h; subst h; exact hi
    · rename_i ia _
      split at h
      · rename_i r' hr'
        injection h with h; subst h
        have hk := kept_rootAt tw.toT hi.winv.graph hi.winv.quiet ia r' hr'
        refine ⟨winv_graph_grow hi.winv hk.cons hk.quiet hk.nodes hk.edges, ?_⟩
        exact Bpp.C15.cacheSound_rootAt tw.toT hi.sound ia r' hr'
      · cases h
      · cases h
      · cases h

/-- re-rooting keeps the world in order (no hypothesis on the cache) -/
theorem rootAt_winv {tw : TW} (hw : WInv tw.w) {k : Nat} {a : Obj} {r : WRes × TW} (h : tw.rootAt k a = .ok r) : WInv r.2.w := by
  unfold rootAt at h
  split at h
  · injection h with h; subst h; exact hw
  · split at h
    · injection h with h; subst h; exact hw
    · rename_i ia _
      split at h
      · rename_i r' hr'
        injection h with h; subst h
        have hk := kept_rootAt tw.toT hw.graph hw.quiet ia r' hr'
        exact winv_graph_grow hw hk.cons hk.quiet hk.nodes hk.edges
      · cases h
      · cases h
      · cases h

theorem step_inv {tw : TW} (hi : Inv tw) (op : TWOp) : Inv (tw.step op) := by
  cases op with
  | createNode k a => exact ofO_inv hi (world_createNode_inv hi.winv k a)
  | link k a b x => exact ofO_inv hi (world_link_inv hi.winv k a b x)
  | unlink k a b => exact ofO_inv hi (world_unlink_inv hi.winv k a b)
  | deleteNode k a => exact ofO_inv hi (world_deleteNode_inv hi.winv k a)
  | addSon k a s x => exact addSon_inv hi k a s x
  | setFather k a f x => exact setFather_inv hi k a f x
  | rootAt k a =>
    simp only [step]
    rcases hr : tw.rootAt k a with r | _ | _ | _
    · exact rootAt_inv hi hr
    · exact hi
    · exact hi
    · exact hi
  | isValid => exact isValid_inv hi

theorem run_inv (ops : List TWOp) : ∀ tw : TW, Inv tw → Inv (tw.run ops) := by
  induction ops with
  | nil => intro tw hi; exact hi
  | cons op r ih => intro tw hi; exact ih _ (step_inv hi op)

end TW
end Graph
end Bpp
