import BppModel.Rand
import BppModel.Generated.RandWrappers
import BppProofs.Lemmas.ScalarReal
import Mathlib.Data.List.Perm.Basic
import Mathlib.Data.List.Perm.Subperm
import Mathlib.Data.List.Nodup
import Mathlib.Data.List.Range
import Mathlib.Tactic.Linarith
/-! Helper lemmas for C18 (random draws). -/
namespace Bpp.Rand
open Bpp

/-! ## unweighted picks -/
section Pick
variable {τ : Type}

theorem swapPop_perm {v : List τ} {pos : Nat} {e : τ} (h : v[pos]? = some e) :
    v.Perm (e :: swapPop v pos) := by
  obtain ⟨hlt, he⟩ := List.getElem?_eq_some_iff.mp h
  have hne : v ≠ [] := by intro h0; subst h0; simp at hlt
  obtain ⟨ys, b, rfl⟩ : ∃ ys b, v = ys ++ [b] := ⟨v.dropLast, v.getLast hne, (List.dropLast_append_getLast hne).symm⟩
  have hlast : (ys ++ [b]).getLast? = some b := by simp
  unfold swapPop; rw [hlast]; dsimp only
  by_cases hp : pos < ys.length
  · rw [List.set_append_left _ _ hp, List.dropLast_concat]
    have he' : ys[pos] = e := by
      rw [← he]; exact (List.getElem_append_left hp).symm
    have hys : ys = ys.take pos ++ e :: ys.drop (pos + 1) := by
      rw [← he', ← List.drop_eq_getElem_cons hp, List.take_append_drop]
    rw [List.set_eq_take_append_cons_drop, if_pos hp]
    conv_lhs => rw [hys]
    -- (T ++ e :: D) ++ [b]  ~  e :: (T ++ b :: D)
    refine (List.perm_append_comm).trans ?_
    simp only [List.singleton_append]
    refine (List.Perm.cons b List.perm_middle).trans ?_
    refine (List.Perm.swap e b _).trans ?_
    exact List.Perm.cons e List.perm_middle.symm
  · have hpe : pos = ys.length := by simp at hlt; omega
    subst hpe
    have : (ys ++ [b]).set ys.length b = ys ++ [b] := by
      rw [List.set_append]; simp
    rw [this, List.dropLast_concat]
    have he' : b = e := by rw [← he]; simp
    subst he'
    exact List.perm_append_comm


theorem subperm_filterMap {β γ : Type} (f : β → Option γ) {a b : List β} (h : a.Subperm b) :
    (a.filterMap f).Subperm (b.filterMap f) := by
  obtain ⟨l, hp, hs⟩ := h
  exact ⟨l.filterMap f, hp.filterMap f, hs.filterMap f⟩

theorem subperm_nodup {β : Type} {a b : List β} (h : a.Subperm b) (hb : b.Nodup) : a.Nodup := by
  obtain ⟨l, hp, hs⟩ := h
  exact hp.nodup_iff.mp (hs.nodup hb)

theorem filterMap_getElem?_range (v : List τ) :
    (List.range v.length).filterMap (fun i => v[i]?) = v := by
  induction v with
  | nil => rfl
  | cons x xs ih =>
    rw [List.length_cons, List.range_succ_eq_map, List.filterMap_cons]
    simp only [List.getElem?_cons_zero, List.filterMap_map]
    congr 1

/-- the selection relation: `out[j] = vin[idx[j]]` -/
def Sel (vin : List τ) (out : List τ) (idx : List Nat) : Prop :=
  List.Forall₂ (fun o i => vin[i]? = some o) out idx

theorem Sel.eq_filterMap {vin out : List τ} {idx : List Nat} (h : Sel vin out idx) :
    out = idx.filterMap (fun i => vin[i]?) := by
  induction h with
  | nil => rfl
  | cons hx _ ih => rw [List.filterMap_cons, hx, ← ih]

theorem Sel.length {vin out : List τ} {idx : List Nat} (h : Sel vin out idx) : out.length = idx.length :=
  List.Forall₂.length_eq h

theorem Sel.subperm {vin out : List τ} {idx : List Nat} (h : Sel vin out idx) (hn : idx.Nodup)
    (hlt : ∀ i ∈ idx, i < vin.length) : out.Subperm vin := by
  rw [h.eq_filterMap]
  have : idx.Subperm (List.range vin.length) :=
    List.subperm_of_subset hn (fun i hi => List.mem_range.mpr (hlt i hi))
  have := subperm_filterMap (fun i => vin[i]?) this
  rwa [filterMap_getElem?_range] at this

theorem Sel.mem {vin out : List τ} {idx : List Nat} (h : Sel vin out idx) : ∀ x ∈ out, x ∈ vin := by
  induction h with
  | nil => intro x hx; cases hx
  | cons hx _ ih =>
    intro x hm
    rcases List.mem_cons.mp hm with rfl | hm
    · exact List.mem_of_getElem? hx
    · exact ih x hm

theorem selectBy_ok {vin : List τ} {idx : List Nat} (h : ∀ i ∈ idx, i < vin.length) :
    ∃ out, selectBy vin idx = .ok out ∧ Sel vin out idx := by
  induction idx with
  | nil => exact ⟨[], rfl, List.Forall₂.nil⟩
  | cons i is ih =>
    obtain ⟨out, ho, hs⟩ := ih (fun j hj => h j (List.mem_cons_of_mem _ hj))
    have hi : i < vin.length := h i List.mem_cons_self
    refine ⟨vin[i] :: out, ?_, List.Forall₂.cons (List.getElem?_eq_getElem hi) hs⟩
    simp [selectBy, List.getElem?_eq_getElem hi, ho]

theorem pickOne_ok {v : List τ} (replace : Bool) {pos : Nat} (hpos : pos < v.length) :
    ∃ e, v[pos]? = some e ∧ pickOne v replace pos = .ok (e, if replace then v else swapPop v pos) := by
  have hne : v.isEmpty = false := by cases v with | nil => simp at hpos | cons _ _ => rfl
  refine ⟨v[pos], List.getElem?_eq_getElem hpos, ?_⟩
  simp only [pickOne, hne, List.getElem?_eq_getElem hpos]
  cases replace <;> simp

theorem pickOneConst_ok {v : List τ} {pos : Nat} (hpos : pos < v.length) :
    pickOneConst v pos = .ok v[pos] := by
  have hne : v.isEmpty = false := by cases v with | nil => simp at hpos | cons _ _ => rfl
  simp [pickOneConst, hne, List.getElem?_eq_getElem hpos]

theorem sampleRepl_ok {vin : List τ} : ∀ (k : Nat) (draws : List Nat), k ≤ draws.length →
    (∀ d ∈ draws, d < vin.length) →
    ∃ out, sampleRepl vin k draws = .ok out ∧ out.length = k ∧ ∀ x ∈ out, x ∈ vin
  | 0, _, _, _ => ⟨[], rfl, rfl, fun _ h => by cases h⟩
  | k + 1, [], h, _ => by simp at h
  | k + 1, d :: ds, h, hd => by
    have hdl : d < vin.length := hd d List.mem_cons_self
    have hne : vin.isEmpty = false := by cases vin with | nil => simp at hdl | cons _ _ => rfl
    obtain ⟨out, ho, hl, hm⟩ := sampleRepl_ok k ds (by simpa using h) (fun x hx => hd x (List.mem_cons_of_mem _ hx))
    refine ⟨vin[d] :: out, ?_, by simp [hl], ?_⟩
    · simp [sampleRepl, hne, pickOneConst_ok hdl, ho]
    · intro x hx
      rcases List.mem_cons.mp hx with rfl | hx
      · exact List.getElem_mem hdl
      · exact hm x hx

/-- whatever the draws, an answer of sampling with replacement only holds source elements -/
theorem sampleRepl_mem {vin : List τ} : ∀ (k : Nat) (draws : List Nat) (out : List τ),
    sampleRepl vin k draws = .ok out → out.length = k ∧ ∀ x ∈ out, x ∈ vin
  | 0, _, out, h => by
    simp only [sampleRepl, Except.ok.injEq] at h; subst h; exact ⟨rfl, fun _ h => by cases h⟩
  | k + 1, draws, out, h => by
    unfold sampleRepl at h
    split at h
    · cases h
    · cases draws with
      | nil => cases h
      | cons d ds =>
        dsimp only at h
        cases hp : pickOneConst vin d with
        | error e => rw [hp] at h; cases h
        | ok x =>
          rw [hp] at h; dsimp only at h
          cases hr : sampleRepl vin k ds with
          | error e => rw [hr] at h; cases h
          | ok r =>
            rw [hr] at h; dsimp only at h
            simp only [Except.ok.injEq] at h; subst h
            obtain ⟨hl, hm⟩ := sampleRepl_mem k ds r hr
            refine ⟨by simp [hl], ?_⟩
            intro y hy
            rcases List.mem_cons.mp hy with rfl | hy
            · unfold pickOneConst at hp
              split at hp
              · cases hp
              · split at hp
                · cases hp
                · rename_i e he
                  simp only [Except.ok.injEq] at hp; subst hp
                  exact List.mem_of_getElem? he
            · exact hm y hy

section Zip
variable {β γ : Type}
theorem zip_set_set : ∀ (ys : List β) (zs : List γ) (pos : Nat) (b : β) (c : γ),
    (ys.set pos b).zip (zs.set pos c) = (ys.zip zs).set pos (b, c)
  | [], _, _, _, _ => by simp
  | _ :: _, [], _, _, _ => by simp
  | y :: ys, z :: zs, 0, _, _ => by simp
  | y :: ys, z :: zs, pos + 1, b, c => by simp [zip_set_set ys zs pos b c]

theorem swapPop_zip : ∀ (v : List β) (w : List γ) (pos : Nat), v.length = w.length →
    swapPop (v.zip w) pos = (swapPop v pos).zip (swapPop w pos) := by
  intro v w pos hl
  by_cases hv : v = []
  · subst hv
    have : w = [] := List.length_eq_zero_iff.mp hl.symm
    subst this; rfl
  · have hw : w ≠ [] := by intro h; subst h; simp at hl; exact hv hl
    obtain ⟨ys, b, rfl⟩ : ∃ ys b, v = ys ++ [b] := ⟨v.dropLast, v.getLast hv, (List.dropLast_append_getLast hv).symm⟩
    obtain ⟨zs, c, rfl⟩ : ∃ zs c, w = zs ++ [c] := ⟨w.dropLast, w.getLast hw, (List.dropLast_append_getLast hw).symm⟩
    have hl' : ys.length = zs.length := by simpa using hl
    have hz : (ys ++ [b]).zip (zs ++ [c]) = ys.zip zs ++ [(b, c)] := by
      rw [List.zip_append hl']; rfl
    unfold swapPop
    rw [hz]
    simp only [List.getLast?_append, List.getLast?_singleton, Option.some_or]
    by_cases hp : pos < ys.length
    · have hp2 : pos < zs.length := by omega
      have hp3 : pos < (ys.zip zs).length := by simp; omega
      rw [List.set_append_left _ _ hp, List.set_append_left _ _ hp2, List.set_append_left _ _ hp3]
      simp only [List.dropLast_concat]
      rw [zip_set_set]
    · have e1 : (ys ++ [b]).set pos b = ys ++ [b] := by
        rw [List.set_append]; simp only [hp, if_false]
        cases h : pos - ys.length with
        | zero => simp
        | succ n => simp
      have e2 : (zs ++ [c]).set pos c = zs ++ [c] := by
        rw [List.set_append]; simp only [show ¬ pos < zs.length by omega, if_false]
        cases h : pos - zs.length with
        | zero => simp
        | succ n => simp
      have e3 : (ys.zip zs ++ [(b, c)]).set pos (b, c) = ys.zip zs ++ [(b, c)] := by
        rw [List.set_append]; simp only [show ¬ pos < (ys.zip zs).length by simp; omega, if_false]
        cases h : pos - (ys.zip zs).length with
        | zero => simp
        | succ n => simp
      rw [e1, e2, e3]
      simp only [List.dropLast_concat]
end Zip

end Pick

/-! ## weighted picks: structure (any scalar type, any draws) -/
section Weighted
variable {α : Type} [Scalar α] {τ : Type}

theorem cumSumFrom_length (acc : α) (l : List α) : (cumSumFrom acc l).length = l.length := by
  induction l generalizing acc with
  | nil => rfl
  | cons y ys ih => simp [cumSumFrom, ih]

theorem cumSum_length (l : List α) : (cumSum l).length = l.length := by
  cases l with
  | nil => rfl
  | cons x xs => simp [cumSum, cumSumFrom_length]

theorem normalize_ok {s : List α} (h : s ≠ []) :
    normalize s = .ok (s.map (· / s.getLast h)) := by
  unfold normalize
  rw [List.getLast?_eq_some_getLast h]

theorem swapPop_length {β : Type} (v : List β) (pos : Nat) : (swapPop v pos).length = v.length - 1 := by
  unfold swapPop
  cases h : v.getLast? with
  | none => simp at h; subst h; rfl
  | some b => simp

theorem searchLt_bounds (prob : α) : ∀ (l : List α) (i0 i : Nat), searchLt prob l i0 = some i →
    i0 ≤ i ∧ i < i0 + l.length
  | [], _, _, h => by cases h
  | s :: ss, i0, i, h => by
    unfold searchLt at h
    split at h
    · simp only [Option.some.injEq] at h; subst h; simp
    · have := searchLt_bounds prob ss (i0 + 1) i h
      simp only [List.length_cons]; omega

theorem weightedPos_ok {n : Nat} {sumw : List α} (hn : 0 < n) (hl : n ≤ sumw.length) (prob : α) :
    ∃ pos, weightedPos n sumw prob = .ok pos ∧ pos < n := by
  unfold weightedPos
  cases h : searchLt prob (sumw.take n) 0 with
  | some i =>
    have := searchLt_bounds prob _ 0 i h
    simp only [List.length_take] at this
    exact ⟨i, rfl, by omega⟩
  | none =>
    have : ¬ sumw.length < n := by omega
    simp only [this, if_false]
    exact ⟨n - 1, rfl, by omega⟩

theorem weightedIndex_ok {n : Nat} {w : List α} (hn : 0 < n) (hw : w.length = n) (prob : α) :
    ∃ pos, weightedIndex n w prob = .ok pos ∧ pos < n := by
  have hcne : cumSum w ≠ [] := by
    intro h; have := cumSum_length w; rw [h] at this; simp at this; omega
  obtain ⟨pos, hpos, hlt⟩ := weightedPos_ok (sumw := (cumSum w).map (· / (cumSum w).getLast hcne)) hn
    (by simp [cumSum_length, hw]) prob
  exact ⟨pos, by simp only [weightedIndex, normalize_ok hcne, hpos], hlt⟩

theorem pickOneW_ok {v : List τ} {w : List α} (hv : v ≠ []) (hw : w.length = v.length) (replace : Bool) (prob : α) :
    ∃ pos e, pos < v.length ∧ v[pos]? = some e ∧ weightedIndex v.length w prob = .ok pos ∧
      pickOneW v w replace prob = .ok (e, if replace then v else swapPop v pos, if replace then w else swapPop w pos) := by
  have hne : v.isEmpty = false := by cases v with | nil => exact absurd rfl hv | cons _ _ => rfl
  have hvl : 0 < v.length := List.length_pos_iff.mpr hv
  obtain ⟨pos, hpos, hlt⟩ := weightedIndex_ok hvl hw prob
  refine ⟨pos, v[pos], hlt, List.getElem?_eq_getElem hlt, hpos, ?_⟩
  unfold pickOneW
  simp only [hne, hpos, List.getElem?_eq_getElem hlt]
  cases replace
  · have : pos < w.length := by omega
    simp [this]
  · simp

theorem pickPositionsNoRepl_ok : ∀ (k : Nat) (hat : List Nat) (w2 : List α) (draws : List α),
    w2.length = hat.length → k ≤ hat.length → k ≤ draws.length →
    ∃ ps, pickPositionsNoRepl hat w2 k draws = .ok ps ∧ ps.length = k ∧ ps.Subperm hat
  | 0, hat, _, _, _, _, _ => ⟨[], by unfold pickPositionsNoRepl; rfl, rfl, List.nil_subperm⟩
  | k + 1, hat, w2, [], _, _, h => by simp at h
  | k + 1, hat, w2, d :: ds, hw, hk, hd => by
    have hv : hat ≠ [] := by intro h; subst h; simp at hk
    have hne : hat.isEmpty = false := by cases hat with | nil => exact absurd rfl hv | cons _ _ => rfl
    obtain ⟨pos, h, hlt, hget, _, hpick⟩ := pickOneW_ok hv hw false d
    simp only [Bool.false_eq_true, if_false] at hpick
    have hl1 : (swapPop w2 pos).length = (swapPop hat pos).length := by
      rw [swapPop_length, swapPop_length, hw]
    obtain ⟨ps, hps, hlen, hsub⟩ := pickPositionsNoRepl_ok k (swapPop hat pos) (swapPop w2 pos) ds hl1
      (by rw [swapPop_length]; omega) (by simpa using hd)
    refine ⟨h :: ps, ?_, by simp [hlen], ?_⟩
    · unfold pickPositionsNoRepl
      simp only [hne, hpick, hps]
      rfl
    · exact ((List.subperm_cons h).mpr hsub).trans (swapPop_perm hget).symm.subperm

/-- whatever the draws and the weights, an answer of weighted sampling with replacement only
holds source elements -/
theorem sampleWRepl_mem {vin : List τ} (hat : List Nat) (w : List α) : ∀ (k : Nat) (draws : List α) (out : List τ),
    sampleWRepl vin hat w k draws = .ok out → out.length = k ∧ ∀ x ∈ out, x ∈ vin
  | 0, _, out, h => by
    simp only [sampleWRepl, Except.ok.injEq] at h; subst h; exact ⟨rfl, fun _ h => by cases h⟩
  | k + 1, draws, out, h => by
    unfold sampleWRepl at h
    split at h
    · cases h
    · cases draws with
      | nil => cases h
      | cons d ds =>
        dsimp only at h
        cases hp : pickOneWConst hat w d with
        | error e => rw [hp] at h; cases h
        | ok hh =>
          rw [hp] at h; dsimp only at h
          cases hv : vin[hh]? with
          | none => rw [hv] at h; cases h
          | some x =>
            rw [hv] at h; dsimp only at h
            cases hr : sampleWRepl vin hat w k ds with
            | error e => rw [hr] at h; cases h
            | ok r =>
              rw [hr] at h
              simp only [Except.ok.injEq] at h; subst h
              obtain ⟨hl, hm⟩ := sampleWRepl_mem hat w k ds r hr
              refine ⟨by simp [hl], ?_⟩
              intro y hy
              rcases List.mem_cons.mp hy with rfl | hy
              · exact List.mem_of_getElem? hv
              · exact hm y hy

/-- … and it does answer when there is one weight per element and enough draws -/
theorem sampleWRepl_ok {vin : List τ} (w : List α) (hw : w.length = vin.length) (hne : vin ≠ []) : ∀ (k : Nat) (draws : List α),
    k ≤ draws.length → ∃ out, sampleWRepl vin (List.range vin.length) w k draws = .ok out
  | 0, _, _ => ⟨[], rfl⟩
  | k + 1, [], h => by simp at h
  | k + 1, d :: ds, h => by
    have hn : 0 < vin.length := List.length_pos_iff.mpr hne
    have hrne : List.range vin.length ≠ [] := by simp; omega
    have hre : (List.range vin.length).isEmpty = false := by
      cases hr : List.range vin.length with
      | nil => exact absurd hr hrne
      | cons _ _ => rfl
    obtain ⟨pos, e, hlt, hget, _, hpick⟩ := pickOneW_ok (v := List.range vin.length) (w := w) hrne (by simp [hw]) true d
    have he : e < vin.length := by
      have := List.mem_of_getElem? hget
      exact List.mem_range.mp this
    obtain ⟨out, ho⟩ := sampleWRepl_ok w hw hne k ds (by simpa using h)
    refine ⟨vin[e] :: out, ?_⟩
    unfold sampleWRepl
    simp only [hre, pickOneWConst, hpick, if_true, List.getElem?_eq_getElem he, ho, Bool.false_eq_true, if_false]

end Weighted

/-! ## the executable predicates of the driver mean what the theorems say -/
section Predicates
variable {τ : Type} [DecidableEq τ]

theorem subMultiset_iff (a b : List τ) : subMultiset a b = true ↔ a.Subperm b := by
  induction a generalizing b with
  | nil => simp [subMultiset, List.nil_subperm]
  | cons x xs ih =>
    simp only [subMultiset, Bool.and_eq_true, List.contains_iff_mem, ih]
    constructor
    · rintro ⟨hx, hs⟩
      exact ((List.subperm_cons x).mpr hs).trans (List.perm_cons_erase hx).symm.subperm
    · intro h
      have hx : x ∈ b := h.subset List.mem_cons_self
      refine ⟨hx, ?_⟩
      have := h.trans (List.perm_cons_erase hx).subperm
      exact (List.subperm_cons x).mp this

theorem isPermOf_iff (a b : List τ) : isPermOf a b = true ↔ a.Perm b := by
  simp only [isPermOf, Bool.and_eq_true, beq_iff_eq, subMultiset_iff]
  constructor
  · rintro ⟨hl, hs⟩; exact hs.perm_of_length_le (by omega)
  · intro h; exact ⟨h.length_eq, h.subperm⟩

theorem allFrom_iff (out src : List τ) : allFrom out src = true ↔ ∀ x ∈ out, x ∈ src := by
  simp [allFrom, List.all_eq_true]
end Predicates

end Bpp.Rand
