import BppModel.Rand
import BppModel.Generated.RandWrappers
import BppProofs.Lemmas.ScalarReal
import Mathlib.Data.List.Perm.Basic
/-! Helper lemmas for C18 (random draws). -/
namespace Bpp.Rand
open Bpp

end Bpp.Rand
