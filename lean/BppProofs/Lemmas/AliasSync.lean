import BppProofs.Lemmas.AliasViewInv
/-! Links in sync along *sequences* of writes (C03, round 2): the relation `Tr D o w w'`
("`w'` comes from `w` by value writes whose entry points lie in `D`; every link whose target was not
written directly is in sync afterwards if its source changed or it was in sync before"), which is
transitive, holds of every `Parameter::setValue` of a parameter of the object, and therefore of
the bulk setters, of `setAllParametersValues` and of the final loop of the bulk alias form. -/
namespace Bpp.Alias
open Bpp.ParamList (Bnd Con Par Store ObjId nameOf find? hasParameter names startsWith)

/-- a wired link of the object: a listener attached to its parameter `s` writes to `t` -/
def Lk (w : World) (o : Obj) (s t : ObjId) : Prop := s ∈ o.params ∧ ∃ l ∈ w.lsn s, tgt w l = some t

theorem Lk.sameBut {w w' : World} (sb : SameBut w w') {o : Obj} {s t : ObjId} : Lk w' o s t ↔ Lk w o s t := by
  simp only [Lk, sb.lsn, sb.tgt]

theorem Lk.target_mem {w : World} {k : Nat} {o : Obj} (h : ObjInv w k o) (ho : w.objs k = some o) {s t : ObjId}
    (hl : Lk w o s t) : t ∈ o.params := by
  obtain ⟨hs, l, hl, ht⟩ := hl
  exact h.closed ho s hs l hl t ht

/-- the registry entry behind a wired link -/
theorem Lk.entry {w : World} {k : Nat} {o : Obj} (h : ObjInv w k o) (ho : w.objs k = some o) {s t : ObjId}
    (hl : Lk w o s t) : ∃ e ∈ o.reg, nameOf w.heap s = o.pre ++ (w.lis e.2).src ∧ o.params[(w.lis e.2).alias]? = some t ∧
      e.2 ∈ w.lsn s := by
  obtain ⟨hs, l, hl, ht⟩ := hl
  obtain ⟨hreg, hn⟩ := h.lsnOk s hs l hl
  have hpl := (h.regOk _ hreg).pl
  simp only at hpl
  simp only [tgt, hpl, ho] at ht
  exact ⟨_, hreg, hn, ht, hl⟩

theorem lk_of_entry {w : World} {k : Nat} {o : Obj} (h : ObjInv w k o) (ho : w.objs k = some o) {e : String × Nat}
    (he : e ∈ o.reg) {s t : ObjId} (hs : s ∈ o.params) (hsn : nameOf w.heap s = o.pre ++ (w.lis e.2).src)
    (ht : o.params[(w.lis e.2).alias]? = some t) : Lk w o s t := by
  obtain ⟨_, _, r3, ⟨s0, hs0, hs0n, hs0l⟩, _⟩ := h.regOk e he
  have : s0 = s := h.name_inj hs0 hs (hs0n.trans hsn.symm)
  subst this
  exact ⟨hs, e.2, hs0l, by simp only [tgt, r3, ho]; exact ht⟩

/-- a parameter follows at most one parameter -/
theorem Lk.src_unique {w : World} {k : Nat} {o : Obj} (h : ObjInv w k o) (ho : w.objs k = some o) {s s' t : ObjId}
    (a : Lk w o s t) (b : Lk w o s' t) : s = s' := by
  obtain ⟨e, he, hn, ht, _⟩ := a.entry h ho
  obtain ⟨e', he', hn', ht', _⟩ := b.entry h ho
  have := h.once e he e' he' (h.pos_inj ht ht')
  subst this
  exact h.name_inj a.1 b.1 (hn.trans hn'.symm)

/-- the target of a link is not independent -/
theorem Lk.target_not_indep {w : World} {k : Nat} {o : Obj} (h : ObjInv w k o) (ho : w.objs k = some o) {s t : ObjId}
    (a : Lk w o s t) : t ∉ o.indep := by
  obtain ⟨e, he, _, ht, _⟩ := a.entry h ho
  exact fun hin => (h.indepIff t (a.target_mem h ho)).1 hin ⟨e, he, ht⟩

theorem allSynced_iff {w : World} {k : Nat} {o : Obj} (h : ObjInv w k o) (ho : w.objs k = some o) :
    AllSynced w o ↔ ∀ s t, Lk w o s t → val w t = val w s := by
  constructor
  · intro hsy s t hl
    obtain ⟨e, he, hn, ht, _⟩ := hl.entry h ho
    exact hsy e he s t hl.1 hn ht
  · intro hall e he s t hs hsn ht
    exact hall s t (lk_of_entry h ho he hs hsn ht)

/-! ## The relation -/

structure Tr (D : ObjId → Prop) (o : Obj) (w w' : World) : Prop where
  sb : SameBut w w'
  keep : ∀ s t, Lk w o s t → ¬ D t → (val w' s ≠ val w s ∨ val w t = val w s) → val w' t = val w' s

theorem Tr.refl (D : ObjId → Prop) (o : Obj) (w : World) : Tr D o w w :=
  ⟨SameBut.refl w, fun _ _ _ _ h => h.elim (fun c => absurd rfl c) id⟩

theorem Tr.mono {D D' : ObjId → Prop} {o : Obj} {w w' : World} (t : Tr D o w w') (hd : ∀ x, D x → D' x) : Tr D' o w w' :=
  ⟨t.sb, fun s u hl hn h => t.keep s u hl (fun hx => hn (hd _ hx)) h⟩

theorem Tr.trans {D : ObjId → Prop} {o : Obj} {a b c : World} (x : Tr D o a b) (y : Tr D o b c) : Tr D o a c where
  sb := x.sb.trans y.sb
  keep s t hl hn h := by
    apply y.keep s t ((Lk.sameBut x.sb).2 hl) hn
    by_cases h2 : val c s = val b s
    · right
      apply x.keep s t hl hn
      rcases h with h | h
      · left; rw [← h2]; exact h
      · right; exact h
    · left; exact h2

/-- one `Parameter::setValue` of a parameter of the object -/
theorem tr_setValue {w : World} {k : Nat} {o : Obj} (h : ObjInv w k o) (ho : w.objs k = some o) {r : ObjId}
    (hrp : r ∈ o.params) {v : Rat} (ok : (setValue w r v).err = none) : Tr (· = r) o w (setValue w r v).w where
  sb := setValue_sameBut w r v
  keep s t hl htr hpre := by
    obtain ⟨st, _⟩ := setValue_step w r v ok
    have cs := setValue_cause w r v ok
    have hclosed := h.closed ho
    obtain ⟨hs, l, hls, htg⟩ := hl
    by_cases hc : val (setValue w r v).w s = val w s
    · have hsy : val w t = val w s := hpre.elim (fun c => absurd hc c) id
      have htc : val (setValue w r v).w t = val w t := by
        by_contra hne
        rcases cs t hne with rfl | ⟨x, l', hl', hlt, hx⟩
        · exact htr rfl
        · have hxp : x ∈ o.params := by
            by_contra hxn
            exact hx (setValue_frame (S := fun i => i ∈ o.params) w r v hrp hclosed x hxn)
          have := Lk.src_unique h ho (s := x) (s' := s) ⟨hxp, l', hl', hlt⟩ ⟨hs, l, hls, htg⟩
          subst this
          exact hx hc
      rw [htc, hc]; exact hsy
    · exact st.tracks_direct hls htg hc

/-- the entry points of a source list: the parameters it names -/
def Named (w : World) (l : List ObjId) (src : List (String × Rat)) (t : ObjId) : Prop :=
  ∃ e ∈ src, find? w.heap l e.1 = some t

theorem tr_applySome {k : Nat} {o : Obj} : ∀ (src : List (String × Rat)) (w : World), ObjInv w k o → w.objs k = some o →
    (applySome o.params w src).err = none → Tr (Named w o.params src) o w (applySome o.params w src).w
  | [], w, _, _, _ => Tr.refl _ _ _
  | (n, v) :: rest, w, h, ho, ok => by
    simp only [applySome] at ok ⊢
    cases hf : find? w.heap o.params n with
    | none =>
      simp only [hf] at ok ⊢
      exact (tr_applySome rest w h ho ok).mono (fun x ⟨e, he, hx⟩ => ⟨e, List.mem_cons_of_mem _ he, hx⟩)
    | some t =>
      simp only [hf] at ok ⊢
      cases hok : (setValue w t v).err with
      | some e => simp [hok] at ok
      | none =>
        simp only [hok] at ok ⊢
        have sb := setValue_sameBut w t v
        have t1 := tr_setValue h ho (ParamList.find?_some hf).1 hok
        have t2 := tr_applySome rest _ (h.transport sb) (by rw [sb.objs]; exact ho) ok
        refine (t1.mono ?_).trans (t2.mono ?_)
        · rintro x rfl; exact ⟨(n, v), List.mem_cons_self .., hf⟩
        · rintro x ⟨e, he, hx⟩
          exact ⟨e, List.mem_cons_of_mem _ he, by rw [← sb.find?]; exact hx⟩

theorem tr_matchSome {k : Nat} {o : Obj} : ∀ (src : List (String × Rat)) (w : World), ObjInv w k o → w.objs k = some o →
    (matchSome o.params w src).1.err = none → Tr (Named w o.params src) o w (matchSome o.params w src).1.w
  | [], w, _, _, _ => Tr.refl _ _ _
  | (n, v) :: rest, w, h, ho, ok => by
    simp only [matchSome] at ok ⊢
    cases hf : find? w.heap o.params n with
    | none =>
      simp only [hf] at ok ⊢
      exact (tr_matchSome rest w h ho ok).mono (fun x ⟨e, he, hx⟩ => ⟨e, List.mem_cons_of_mem _ he, hx⟩)
    | some t =>
      simp only [hf] at ok ⊢
      by_cases hne : (w.heap.get t).value ≠ v
      · rw [if_pos hne] at ok ⊢
        cases hok : (setValue w t v).err with
        | some e => simp [hok] at ok
        | none =>
          simp only [hok] at ok ⊢
          have sb := setValue_sameBut w t v
          have t1 := tr_setValue h ho (ParamList.find?_some hf).1 hok
          have t2 := tr_matchSome rest _ (h.transport sb) (by rw [sb.objs]; exact ho) ok
          refine (t1.mono ?_).trans (t2.mono ?_)
          · rintro x rfl; exact ⟨(n, v), List.mem_cons_self .., hf⟩
          · rintro x ⟨e, he, hx⟩
            exact ⟨e, List.mem_cons_of_mem _ he, by rw [← sb.find?]; exact hx⟩
      · rw [if_neg hne] at ok ⊢
        exact (tr_matchSome rest w h ho ok).mono (fun x ⟨e, he, hx⟩ => ⟨e, List.mem_cons_of_mem _ he, hx⟩)

/-- when the source names independent parameters only, no link target is an entry point -/
theorem namesIndep_not_target {w : World} {k : Nat} {o : Obj} (h : ObjInv w k o) (ho : w.objs k = some o)
    {src : List (String × Rat)} (hn : NamesIndep w o src) {s t : ObjId} (hl : Lk w o s t) : ¬ Named w o.params src t := by
  rintro ⟨e, he, hf⟩
  exact hl.target_not_indep h ho (hn e he t hf)

/-! ## From `Tr` to the clause `tracksOk` on views -/

/-- links in sync before stay in sync when none of the targets on the path is an entry point -/
theorem Tr.syncPath {D : ObjId → Prop} {o : Obj} {w w' : World} {k : Nat} (t : Tr D o w w') (h : ObjInv w k o)
    (ho : w.objs k = some o) (hD : ∀ s u, Lk w o s u → ¬ D u) {x b : ObjId} (hx : x ∈ o.params) (p : SyncPath w x b) :
    val w' b = val w' x := by
  induction p with
  | refl x => rfl
  | @step x y b l hl ht hs _ ih =>
    have lk : Lk w o x y := ⟨hx, l, hl, ht⟩
    rw [ih (lk.target_mem h ho)]
    exact t.keep x y lk (hD x y lk) (Or.inr hs)

theorem sameShape_svOf {w w' : World} (sb : SameBut w w') (o : Obj) : sameShape (svOf w o) (svOf w' o) = true := by
  have hn : ∀ i, nameOf w'.heap i = nameOf w.heap i := sb.nameOf
  have hl : linksOf w' o = linksOf w o := by
    simp only [linksOf, shortNames, hasListener, hn, sb.lsn, sb.lis]
  simp only [sameShape, svOf, hl, hn, sb.con, List.map_map, Bool.and_eq_true, beq_iff_eq, true_and, and_true]
  rfl

/-- **`tracksOk` from `Tr`**: the clause the driver evaluates after a bulk update -/
theorem tracksOk_of_tr {D : ObjId → Prop} {o : Obj} {w w' : World} {k : Nat} (t : Tr D o w w') (hi : ObjInv w k o)
    (ho : w.objs k = some o) (hD : ∀ s u, Lk w o s u → ¬ D u) : tracksOk (svOf w o) (svOf w' o) = true := by
  have sb := t.sb
  have hfind : ∀ z, find? w'.heap o.params z = find? w.heap o.params z := fun z => sb.find? o.params z
  simp only [tracksOk, List.all_eq_true, Bool.or_eq_true, beq_iff_eq]
  intro x hx
  by_cases hsame : (svOf w o).value? x = (svOf w' o).value? x
  · exact Or.inl hsame
  right
  intro y hy
  have hxs : x ∈ shortNames w o := by simpa [SV.shorts, SV.short, svOf, shortNames] using hx
  obtain ⟨ix, hix, hixn⟩ := (mem_shortNames hi).1 hxs
  have hfx : find? w.heap o.params (o.pre ++ x) = some ix := (find?_iff hi.nodup).2 ⟨hix, hixn⟩
  have hchg : val w' ix ≠ val w ix := by
    intro e
    apply hsame
    rw [value?_svOf, value?_svOf, hfind, hfx]
    simp only [Option.map_some, e]
  obtain ⟨c, hc, hp⟩ := syncedBelow_sound (svOf w o) _ _ y hy
  have hcl : (x, c) ∈ linksOf w o := by
    simp only [SV.children, List.mem_map, List.mem_filter, beq_iff_eq] at hc
    obtain ⟨l, ⟨hl, hl1⟩, hl2⟩ := hc
    cases l; simp only at hl1 hl2; subst hl1 hl2; exact hl
  obtain ⟨ix', ic, l, hx', hcf, hlx, htg⟩ := link_of_mem_linksOf hi ho hcl
  rw [hfx] at hx'; cases hx'
  obtain ⟨iy, hyf, py⟩ := syncPath_of_view hi ho hp hcf
  have lk : Lk w o ix ic := ⟨hix, l, hlx, htg⟩
  have h1 : val w' ic = val w' ix := t.keep ix ic lk (hD _ _ lk) (Or.inl hchg)
  have h2 : val w' iy = val w' ic := t.syncPath hi ho hD (lk.target_mem hi ho) py
  rw [value?_svOf, value?_svOf, hfind, hfind, hyf, hfx]
  simp only [Option.map_some, h2, h1]

end Bpp.Alias
