import BppModel.TreeRef
import BppProofs.Lemmas.TreeValid
import BppProofs.Lemmas.PTreeLine
import Batteries.Data.List.Perm
import Mathlib.Data.List.Nodup
/-
The executable reference decision `isUnrootedTree` (`BppModel/TreeRef.lean`: undirected, the root is
a node, every entry of the edge table joins two existing distinct nodes, |E| + 1 = |V|, every node is
reached from the root by the fuel-bounded search `reachU`) decides `IsTreeFrom` on consistent
undirected graphs.

First the two directions on plain lists (`V` the nodes, `es` the end points of the edges), then the
glue to the graph model.
-/
namespace Bpp.Graph
open AL

/-! ### one step of the search -/

/-- the body of the inner loop of `reachU` -/
def stepU (acc : List Nat) (p : Nat × Nat) : List Nat :=
  let acc := if acc.contains p.1 && !acc.contains p.2 then p.2 :: acc else acc
  if acc.contains p.2 && !acc.contains p.1 then p.1 :: acc else acc

theorem reachU_succ (es : List (Nat × Nat)) (fuel : Nat) (seen : List Nat) :
    reachU es (fuel + 1) seen = reachU es fuel (es.foldl stepU seen) := rfl

theorem stepU_cases (acc : List Nat) (p : Nat × Nat) :
    stepU acc p = acc ∨ (stepU acc p = p.2 :: acc ∧ p.1 ∈ acc ∧ p.2 ∉ acc) ∨ (stepU acc p = p.1 :: acc ∧ p.2 ∈ acc ∧ p.1 ∉ acc) := by
  unfold stepU
  by_cases h1 : p.1 ∈ acc <;> by_cases h2 : p.2 ∈ acc <;> simp [h1, h2]

theorem stepU_sub (acc : List Nat) (p : Nat × Nat) : ∀ n ∈ acc, n ∈ stepU acc p := by
  intro n hn
  rcases stepU_cases acc p with h | ⟨h, _⟩ | ⟨h, _⟩ <;> rw [h] <;> simp [hn]

theorem stepU_fst (acc : List Nat) (p : Nat × Nat) (h : p.1 ∈ acc) : p.2 ∈ stepU acc p := by
  unfold stepU
  by_cases h2 : p.2 ∈ acc <;> simp [h, h2]

theorem stepU_snd (acc : List Nat) (p : Nat × Nat) (h : p.2 ∈ acc) : p.1 ∈ stepU acc p := by
  unfold stepU
  by_cases h1 : p.1 ∈ acc <;> simp [h, h1]

theorem foldl_stepU_sub (l : List (Nat × Nat)) (acc : List Nat) : ∀ n ∈ acc, n ∈ l.foldl stepU acc := by
  induction l generalizing acc with
  | nil => intro n hn; exact hn
  | cons p r ih => intro n hn; exact ih _ n (stepU_sub acc p n hn)

theorem foldl_stepU_fst (l : List (Nat × Nat)) (acc : List Nat) (p : Nat × Nat) (hp : p ∈ l) (h : p.1 ∈ acc) :
    p.2 ∈ l.foldl stepU acc := by
  induction l generalizing acc with
  | nil => cases hp
  | cons q r ih =>
    simp only [List.foldl_cons]
    rcases List.mem_cons.1 hp with rfl | hp
    · exact foldl_stepU_sub r _ _ (stepU_fst acc p h)
    · exact ih _ hp (stepU_sub acc q _ h)

theorem foldl_stepU_snd (l : List (Nat × Nat)) (acc : List Nat) (p : Nat × Nat) (hp : p ∈ l) (h : p.2 ∈ acc) :
    p.1 ∈ l.foldl stepU acc := by
  induction l generalizing acc with
  | nil => cases hp
  | cons q r ih =>
    simp only [List.foldl_cons]
    rcases List.mem_cons.1 hp with rfl | hp
    · exact foldl_stepU_sub r _ _ (stepU_snd acc p h)
    · exact ih _ hp (stepU_sub acc q _ h)

/-! ### soundness on lists: the search builds a spanning tree, and with |E| + 1 = |V| every edge is one of its edges -/

/-- the invariant of the search: `seen` is a tree rooted at `root`, father `par`, depth `rk`, and
`eo n` the entry of `es` that joined `n` to its father -/
structure RInv (es : List (Nat × Nat)) (V : List Nat) (root : Nat) (seen : List Nat)
    (par : Nat → Option Nat) (rk : Nat → Nat) (eo : Nat → Nat × Nat) : Prop where
  root_mem : root ∈ seen
  nodup : seen.Nodup
  sub : ∀ n ∈ seen, n ∈ V
  par_root : par root = none
  rk_root : rk root = 0
  up : ∀ n ∈ seen, n ≠ root → ∃ q, par n = some q ∧ q ∈ seen ∧ rk n = rk q + 1 ∧ eo n ∈ es ∧ (eo n = (q, n) ∨ eo n = (n, q))
  out : ∀ n, n ∉ seen → par n = none
  inj : ∀ n m, n ∈ seen → m ∈ seen → n ≠ root → m ≠ root → eo n = eo m → n = m

def RInvE (es : List (Nat × Nat)) (V : List Nat) (root : Nat) (seen : List Nat) : Prop :=
  ∃ par rk eo, RInv es V root seen par rk eo

theorem RInv.add {es : List (Nat × Nat)} {V : List Nat} {root : Nat} {acc : List Nat}
    {par : Nat → Option Nat} {rk : Nat → Nat} {eo : Nat → Nat × Nat} (h : RInv es V root acc par rk eo)
    {x y : Nat} {p : Nat × Nat} (hx : x ∉ acc) (hy : y ∈ acc) (hxV : x ∈ V) (hp : p ∈ es) (hpe : p = (y, x) ∨ p = (x, y)) :
    RInv es V root (x :: acc) (fun n => if n = x then some y else par n) (fun n => if n = x then rk y + 1 else rk n)
      (fun n => if n = x then p else eo n) := by
  have hxr : x ≠ root := fun e => hx (e ▸ h.root_mem)
  have hyx : y ≠ x := fun e => hx (e ▸ hy)
  refine ⟨List.mem_cons_of_mem _ h.root_mem, List.nodup_cons.2 ⟨hx, h.nodup⟩, ?_, ?_, ?_, ?_, ?_, ?_⟩
  · intro n hn
    rcases List.mem_cons.1 hn with rfl | hn
    · exact hxV
    · exact h.sub n hn
  · simp [Ne.symm hxr, h.par_root]
  · simp [Ne.symm hxr, h.rk_root]
  · intro n hn hnr
    rcases List.mem_cons.1 hn with rfl | hn
    · refine ⟨y, by simp, List.mem_cons_of_mem _ hy, by simp [hyx], by simpa using hp, by simpa using hpe⟩
    · have hnx : n ≠ x := fun e => hx (e ▸ hn)
      obtain ⟨q, h1, h2, h3, h4, h5⟩ := h.up n hn hnr
      have hqx : q ≠ x := fun e => hx (e ▸ h2)
      exact ⟨q, by simp [hnx, h1], List.mem_cons_of_mem _ h2, by simp [hnx, hqx, h3], by simpa [hnx] using h4, by simpa [hnx] using h5⟩
  · intro n hn
    have hnx : n ≠ x := fun e => hn (e ▸ List.mem_cons_self)
    have : n ∉ acc := fun e => hn (List.mem_cons_of_mem _ e)
    simp [hnx, h.out n this]
  · -- an old node joined by the entry `p` would be `x` or have father `x`
    have key : ∀ m, m ∈ acc → m ≠ root → eo m ≠ p := by
      intro m hm hmr he
      have hmx : m ≠ x := fun e => hx (e ▸ hm)
      obtain ⟨q, _, h2, _, _, h5⟩ := h.up m hm hmr
      have hqx : q ≠ x := fun e => hx (e ▸ h2)
      rw [he] at h5
      rcases hpe with rfl | rfl <;> rcases h5 with h5 | h5 <;> simp only [Prod.mk.injEq] at h5 <;> omega
    intro n m hn hm hnr hmr he
    rcases List.mem_cons.1 hn with hnx | hn' <;> rcases List.mem_cons.1 hm with hmx | hm'
    · rw [hnx, hmx]
    · have hmx : m ≠ x := fun e => hx (e ▸ hm')
      simp only [hnx, if_true, hmx, if_false] at he
      exact absurd he.symm (key m hm' hmr)
    · have hnx : n ≠ x := fun e => hx (e ▸ hn')
      simp only [hmx, if_true, hnx, if_false] at he
      exact absurd he (key n hn' hnr)
    · have hnx : n ≠ x := fun e => hx (e ▸ hn')
      have hmx : m ≠ x := fun e => hx (e ▸ hm')
      simp only [hnx, hmx, if_false] at he
      exact h.inj n m hn' hm' hnr hmr he

theorem RInvE.step {es : List (Nat × Nat)} {V : List Nat} {root : Nat} {acc : List Nat} (h : RInvE es V root acc)
    {p : Nat × Nat} (hp : p ∈ es) (hV : p.1 ∈ V ∧ p.2 ∈ V) : RInvE es V root (stepU acc p) := by
  obtain ⟨par, rk, eo, hi⟩ := h
  rcases stepU_cases acc p with h | ⟨h, h1, h2⟩ | ⟨h, h2, h1⟩ <;> rw [h]
  · exact ⟨par, rk, eo, hi⟩
  · exact ⟨_, _, _, hi.add h2 h1 hV.2 hp (.inl rfl)⟩
  · exact ⟨_, _, _, hi.add h1 h2 hV.1 hp (.inr rfl)⟩

theorem RInvE.foldl {es : List (Nat × Nat)} {V : List Nat} {root : Nat} (hes : ∀ p ∈ es, p.1 ∈ V ∧ p.2 ∈ V)
    (l : List (Nat × Nat)) (hl : ∀ p ∈ l, p ∈ es) (acc : List Nat) (h : RInvE es V root acc) :
    RInvE es V root (l.foldl stepU acc) := by
  induction l generalizing acc with
  | nil => exact h
  | cons p r ih =>
    simp only [List.foldl_cons]
    have hp := hl p List.mem_cons_self
    exact ih (fun q hq => hl q (List.mem_cons_of_mem _ hq)) _ (h.step hp (hes p hp))

theorem RInvE.reachU {es : List (Nat × Nat)} {V : List Nat} {root : Nat} (hes : ∀ p ∈ es, p.1 ∈ V ∧ p.2 ∈ V)
    (fuel : Nat) (seen : List Nat) (h : RInvE es V root seen) : RInvE es V root (reachU es fuel seen) := by
  induction fuel generalizing seen with
  | zero => exact h
  | succ k ih => rw [reachU_succ]; exact ih _ (RInvE.foldl hes es (fun _ hp => hp) seen h)

theorem RInvE.init (es : List (Nat × Nat)) {V : List Nat} {root : Nat} (hr : root ∈ V) : RInvE es V root [root] := by
  refine ⟨fun _ => none, fun _ => 0, fun _ => (0, 0), ?_⟩
  refine ⟨List.mem_singleton.2 rfl, List.nodup_singleton _, ?_, rfl, rfl, ?_, fun _ _ => rfl, ?_⟩
  · intro n hn; rw [List.mem_singleton.1 hn]; exact hr
  · intro n hn hne; exact absurd (List.mem_singleton.1 hn) hne
  · intro n m hn hm; rw [List.mem_singleton.1 hn, List.mem_singleton.1 hm]; intros; rfl

theorem length_filter_ne {l : List Nat} (hd : l.Nodup) {a : Nat} (ha : a ∈ l) : (l.filter (· != a)).length + 1 = l.length := by
  rw [← hd.erase_eq_filter a, List.length_erase_of_mem ha]
  have := List.length_pos_of_mem ha
  omega

/-- **soundness on lists**: when the search from `root` reaches all of `V` and |E| + 1 = |V|, there is a
tree on `V` rooted at `root` whose father-son pairs are exactly the entries of `es` -/
theorem reachU_sound {es : List (Nat × Nat)} {V : List Nat} {root : Nat} (hV : V.Nodup) (hr : root ∈ V)
    (hes : ∀ p ∈ es, p.1 ∈ V ∧ p.2 ∈ V) (hlen : es.length + 1 = V.length)
    (hreach : ∀ n ∈ V, n ∈ reachU es V.length [root]) :
    ∃ par rk, PTree.WF ⟨root, V, par, rk⟩ ∧ ∀ a b, ((a, b) ∈ es ∨ (b, a) ∈ es) ↔ (par b = some a ∨ par a = some b) := by
  obtain ⟨par, rk, eo, hi⟩ := RInvE.reachU hes V.length [root] (RInvE.init es hr)
  generalize reachU es V.length [root] = S at hi hreach
  have hperm : S.Perm V := (List.perm_ext_iff_of_nodup hi.nodup hV).2 (fun n => ⟨hi.sub n, hreach n⟩)
  have hSlen : S.length = V.length := hperm.length_eq
  -- the entries used by the tree
  have hTnd : ((S.filter (· != root)).map eo).Nodup := by
    refine List.Nodup.map_on ?_ (hi.nodup.filter _)
    intro n hn m hm he
    simp only [List.mem_filter, bne_iff_ne] at hn hm
    exact hi.inj n m hn.1 hm.1 hn.2 hm.2 he
  have hTsub : (S.filter (· != root)).map eo ⊆ es := by
    intro p hp
    obtain ⟨n, hn, rfl⟩ := List.mem_map.1 hp
    simp only [List.mem_filter, bne_iff_ne] at hn
    obtain ⟨q, _, _, _, h4, _⟩ := hi.up n hn.1 hn.2
    exact h4
  have hTlen : es.length ≤ ((S.filter (· != root)).map eo).length := by
    rw [List.length_map]
    have := length_filter_ne hi.nodup hi.root_mem
    omega
  have hTperm := (List.subperm_of_subset hTnd hTsub).perm_of_length_le hTlen
  have hall : ∀ p ∈ es, ∃ n, n ∈ S ∧ n ≠ root ∧ eo n = p := by
    intro p hp
    obtain ⟨n, hn, rfl⟩ := List.mem_map.1 (hTperm.mem_iff.2 hp)
    simp only [List.mem_filter, bne_iff_ne] at hn
    exact ⟨n, hn.1, hn.2, rfl⟩
  refine ⟨par, rk, ⟨hr, hi.par_root, hi.rk_root, ?_, ?_⟩, ?_⟩
  · intro n hn hne
    obtain ⟨q, h1, h2, h3, _⟩ := hi.up n (hreach n hn) hne
    exact ⟨q, h1, hi.sub q h2, h3⟩
  · intro n hn
    exact hi.out n (fun h => hn (hi.sub n h))
  · intro a b
    constructor
    · have : ∀ a b, (a, b) ∈ es → par b = some a ∨ par a = some b := by
        intro a b hab
        obtain ⟨n, hn, hnr, he⟩ := hall _ hab
        obtain ⟨q, h1, _, _, _, h5⟩ := hi.up n hn hnr
        rw [he] at h5
        rcases h5 with h5 | h5 <;> simp only [Prod.mk.injEq] at h5 <;> obtain ⟨rfl, rfl⟩ := h5
        · exact .inl h1
        · exact .inr h1
      rintro (h | h)
      · exact this a b h
      · exact (this b a h).symm
    · have : ∀ a b, par b = some a → (a, b) ∈ es ∨ (b, a) ∈ es := by
        intro a b hb
        have hbS : b ∈ S := Classical.byContradiction fun hn => by rw [hi.out b hn] at hb; cases hb
        have hbr : b ≠ root := fun e => by rw [e, hi.par_root] at hb; cases hb
        obtain ⟨q, h1, _, _, h4, h5⟩ := hi.up b hbS hbr
        rw [hb] at h1; cases h1
        rcases h5 with h5 | h5 <;> rw [h5] at h4
        · exact .inl h4
        · exact .inr h4
      rintro (h | h)
      · exact this a b h
      · exact (this b a h).symm

/-! ### completeness on lists: in a tree the search reaches depth `k` in `k` rounds, and there are |V| - 1 edges -/

theorem reachU_rank {P : PTree} (hw : P.WF) {es : List (Nat × Nat)}
    (harc : ∀ a b, P.par b = some a → (a, b) ∈ es ∨ (b, a) ∈ es) :
    ∀ (k j : Nat) (seen : List Nat), (∀ n ∈ P.nodes, P.rank n ≤ j → n ∈ seen) →
      ∀ n ∈ P.nodes, P.rank n ≤ j + k → n ∈ reachU es k seen := by
  intro k
  induction k with
  | zero => intro j seen h n hn hr; exact h n hn hr
  | succ k ih =>
    intro j seen h n hn hr
    rw [reachU_succ]
    refine ih (j + 1) _ ?_ n hn (by omega)
    intro m hm hmr
    by_cases hle : P.rank m ≤ j
    · exact foldl_stepU_sub es seen m (h m hm hle)
    · have hmroot : m ≠ P.root := fun e => by rw [e, hw.rank_root] at hle; omega
      obtain ⟨q, hq, hqm, hrk⟩ := hw.par_some m hm hmroot
      have hqs : q ∈ seen := h q hqm (by omega)
      rcases harc q m hq with h1 | h1
      · exact foldl_stepU_fst es seen (q, m) h1 hqs
      · exact foldl_stepU_snd es seen (m, q) h1 hqs

/-- every node of a tree is reached from the root within |V| rounds -/
theorem reachU_complete {P : PTree} (hw : P.WF) {V : List Nat} (hVn : ∀ n, n ∈ V ↔ n ∈ P.nodes) {es : List (Nat × Nat)}
    (harc : ∀ a b, P.par b = some a → (a, b) ∈ es ∨ (b, a) ∈ es) :
    ∀ n ∈ V, n ∈ reachU es V.length [P.root] := by
  intro n hn
  have hnP := (hVn n).1 hn
  have hrk := hw.rank_lt hnP (l := V) (fun x hx => (hVn x).2 hx)
  refine reachU_rank hw harc V.length 0 [P.root] ?_ n hnP (by omega)
  intro m hm hm0
  by_cases hmr : m = P.root
  · simp [hmr]
  · obtain ⟨q, _, _, h3⟩ := hw.par_some m hm hmr
    omega

/-- a tree on `V` whose father-son pairs are the entries of `es`, each listed once and one way round, has |V| - 1 entries -/
theorem edges_count {P : PTree} (hw : P.WF) {V : List Nat} (hV : V.Nodup) (hVn : ∀ n, n ∈ V ↔ n ∈ P.nodes)
    {es : List (Nat × Nat)} (hnd : es.Nodup) (hasym : ∀ a b, (a, b) ∈ es → (b, a) ∈ es → False)
    (harc : ∀ a b, ((a, b) ∈ es ∨ (b, a) ∈ es) ↔ (P.par b = some a ∨ P.par a = some b)) :
    es.length + 1 = V.length := by
  -- the son end of an entry
  let child : Nat × Nat → Nat := fun p => if P.par p.2 = some p.1 then p.2 else p.1
  have key : ∀ p ∈ es, ∃ q, P.par (child p) = some q ∧ (p = (q, child p) ∨ p = (child p, q)) := by
    rintro ⟨a, b⟩ hp
    by_cases h : P.par b = some a
    · exact ⟨a, by simp [child, h], .inl (by simp [child, h])⟩
    · have h' : P.par a = some b := by
        rcases (harc a b).1 (.inl hp) with h1 | h1
        · exact absurd h1 h
        · exact h1
      exact ⟨b, by simp [child, h, h'], .inr (by simp [child, h])⟩
  have hinj : ∀ p ∈ es, ∀ p' ∈ es, child p = child p' → p = p' := by
    intro p hp p' hp' he
    obtain ⟨q, h1, h2⟩ := key p hp
    obtain ⟨q', h1', h2'⟩ := key p' hp'
    rw [← he, h1] at h1'
    cases h1'
    rw [← he] at h2'
    rcases h2 with h2 | h2 <;> rcases h2' with h2' | h2'
    · rw [h2, h2']
    · exact (hasym q (child p) (h2 ▸ hp) (h2' ▸ hp')).elim
    · exact (hasym q (child p) (h2' ▸ hp') (h2 ▸ hp)).elim
    · rw [h2, h2']
  have hnd' : (es.map child).Nodup := List.Nodup.map_on hinj hnd
  have hrV : P.root ∈ V := (hVn _).2 hw.root_mem
  have hmem : ∀ n, n ∈ es.map child ↔ n ∈ V.filter (· != P.root) := by
    intro n
    simp only [List.mem_filter, bne_iff_ne, List.mem_map]
    constructor
    · rintro ⟨p, hp, rfl⟩
      obtain ⟨q, h1, _⟩ := key p hp
      have := hw.par_mem h1
      exact ⟨(hVn _).2 this.1, this.2.1⟩
    · rintro ⟨hn, hnr⟩
      obtain ⟨q, h1, _, h3⟩ := hw.par_some n ((hVn n).1 hn) hnr
      rcases (harc q n).2 (.inl h1) with h | h
      · exact ⟨(q, n), h, by simp [child, h1]⟩
      · refine ⟨(n, q), h, ?_⟩
        have : P.par q ≠ some n := fun hq => by have := (hw.par_mem hq).2.2.2; omega
        simp [child, this]
  have hperm := (List.perm_ext_iff_of_nodup hnd' (hV.filter _)).2 hmem
  have h1 := hperm.length_eq
  rw [List.length_map] at h1
  have h2 := length_filter_ne hV hrV
  omega

/-! ### glue to the graph model -/

/-- the end points of the entries of the edge table -/
def edgePairs (g : G) : List (Nat × Nat) := g.edges.map (fun p => (p.2.1, p.2.2))

theorem mem_edgePairs {g : G} (hc : Consistent g) (a b : Nat) : (a, b) ∈ edgePairs g ↔ ∃ e, find e g.edges = some (a, b) := by
  simp only [edgePairs, List.mem_map]
  constructor
  · rintro ⟨⟨e, a', b'⟩, hm, he⟩
    simp only [Prod.mk.injEq] at he
    obtain ⟨rfl, rfl⟩ := he
    exact ⟨e, (mem_iff_find hc.sorted.edges e _).1 hm⟩
  · rintro ⟨e, he⟩
    exact ⟨(e, a, b), (mem_iff_find hc.sorted.edges e _).2 he, rfl⟩

/-- in a consistent undirected graph the node table lists `b` under `a` exactly when an entry of the edge table joins them -/
theorem arc_iff_edgePairs {g : G} (hc : Consistent g) (hd : g.directed = false) (a b : Nat) :
    Arc g a b ↔ ((a, b) ∈ edgePairs g ∨ (b, a) ∈ edgePairs g) := by
  rw [mem_edgePairs hc, mem_edgePairs hc]
  unfold Arc
  constructor
  · intro h
    cases ho : g.outE a b with
    | none => rw [ho] at h; cases h
    | some e =>
      rcases hc.views.out_edge a b e ho with hf | ⟨_, hf⟩
      · exact .inl ⟨e, hf⟩
      · exact .inr ⟨e, hf⟩
  · rintro (⟨e, he⟩ | ⟨e, he⟩)
    · rw [(hc.views.edge_listed e a b he).1]; rfl
    · rw [((hc.views.edge_listed e b a he).2.2 hd).1]; rfl

theorem edgePairs_nodup {g : G} (hc : Consistent g) : (edgePairs g).Nodup := by
  have hk : (keys g.edges).Nodup := G.nodup_of_asc hc.sorted.edges
  have he : g.edges.Nodup := List.Nodup.of_map _ hk
  refine List.Nodup.map_on ?_ he
  rintro ⟨e, a, b⟩ hm ⟨e', a', b'⟩ hm' heq
  simp only [Prod.mk.injEq] at heq
  obtain ⟨rfl, rfl⟩ := heq
  have h1 := (hc.views.edge_listed e a b ((mem_iff_find hc.sorted.edges e _).1 hm)).1
  have h2 := (hc.views.edge_listed e' a b ((mem_iff_find hc.sorted.edges e' _).1 hm')).1
  rw [h1] at h2
  cases h2
  rfl

/-- an undirected consistent graph has no two entries joining the same nodes opposite ways round, except loops -/
theorem edgePairs_asym {g : G} (hc : Consistent g) (hd : g.directed = false) {a b : Nat}
    (h1 : (a, b) ∈ edgePairs g) (h2 : (b, a) ∈ edgePairs g) : a = b := by
  obtain ⟨e, he⟩ := (mem_edgePairs hc a b).1 h1
  obtain ⟨e', he'⟩ := (mem_edgePairs hc b a).1 h2
  have o1 := (hc.views.edge_listed e a b he).1
  have o2 := ((hc.views.edge_listed e' b a he').2.2 hd).1
  rw [o1] at o2
  cases o2
  rw [he] at he'
  cases he'
  rfl

theorem isUnrootedTree_unfold (g : G) : isUnrootedTree g = true ↔
    (g.directed = false ∧ g.hasNode g.root = true ∧
      (∀ p ∈ edgePairs g, p.1 ∈ keys g.nodes ∧ p.2 ∈ keys g.nodes ∧ p.1 ≠ p.2) ∧
      (edgePairs g).length + 1 = (keys g.nodes).length ∧
      ∀ n ∈ keys g.nodes, n ∈ reachU (edgePairs g) (keys g.nodes).length [g.root]) := by
  unfold isUnrootedTree edgePairs
  simp only [Bool.and_eq_true, List.all_eq_true, beq_iff_eq, List.contains_iff_mem, bne_iff_ne, Bool.not_eq_true', ne_eq]
  constructor
  · rintro ⟨⟨⟨⟨h1, h2⟩, h3⟩, h4⟩, h5⟩
    exact ⟨h1, h2, fun p hp => ⟨(h3 p hp).1.1, (h3 p hp).1.2, (h3 p hp).2⟩, h4, h5⟩
  · rintro ⟨h1, h2, h3, h4, h5⟩
    exact ⟨⟨⟨⟨h1, h2⟩, fun p hp => ⟨⟨(h3 p hp).1, (h3 p hp).2.1⟩, (h3 p hp).2.2⟩⟩, h4⟩, h5⟩

/-- the reference decision accepts only trees spanning all nodes from the root -/
theorem isUnrootedTree_sound {g : G} (hc : Consistent g) (h : isUnrootedTree g = true) : IsTreeFrom g := by
  obtain ⟨hd, hr, hes, hlen, hreach⟩ := (isUnrootedTree_unfold g).1 h
  have hV : (keys g.nodes).Nodup := G.nodup_of_asc hc.sorted.nodes
  obtain ⟨par, rk, hw, harc⟩ := reachU_sound hV ((G.mem_keys_hasNode g _).2 hr)
    (fun p hp => ⟨(hes p hp).1, (hes p hp).2.1⟩) hlen hreach
  refine ⟨⟨g.root, keys g.nodes, par, rk⟩, hw, ⟨fun n => G.mem_keys_hasNode g n, ?_⟩, rfl⟩
  intro a b
  rw [arc_iff_edgePairs hc hd, harc a b]
  simp [hd]

/-- the reference decision accepts every undirected tree spanning all nodes from the root -/
theorem isUnrootedTree_complete {g : G} (hc : Consistent g) (hd : g.directed = false) (h : IsTreeFrom g) :
    isUnrootedTree g = true := by
  obtain ⟨P, hw, hm, hroot⟩ := h
  have hV : (keys g.nodes).Nodup := G.nodup_of_asc hc.sorted.nodes
  have hVn : ∀ n, n ∈ keys g.nodes ↔ n ∈ P.nodes := fun n => (G.mem_keys_hasNode g n).trans (hm.nodes n).symm
  have harc : ∀ a b, ((a, b) ∈ edgePairs g ∨ (b, a) ∈ edgePairs g) ↔ (P.par b = some a ∨ P.par a = some b) := by
    intro a b
    rw [← arc_iff_edgePairs hc hd, hm.arc a b]
    simp [hd]
  have hloop : ∀ a, (a, a) ∉ edgePairs g := by
    intro a ha
    rcases (harc a a).1 (.inl ha) with h | h <;> have := (hw.par_mem h).2.2.2 <;> omega
  rw [isUnrootedTree_unfold]
  refine ⟨hd, ?_, ?_, ?_, ?_⟩
  · rw [← hroot]; exact (hm.nodes _).1 hw.root_mem
  · rintro ⟨a, b⟩ hp
    have hA := (arc_iff_edgePairs hc hd a b).2 (.inl hp)
    have := G.arc_nodes hc hA
    refine ⟨(G.mem_keys_hasNode g a).2 this.1, (G.mem_keys_hasNode g b).2 this.2, ?_⟩
    intro e
    simp only at e
    subst e
    exact hloop a hp
  · refine edges_count hw hV hVn (edgePairs_nodup hc) ?_ harc
    intro a b h1 h2
    have := edgePairs_asym hc hd h1 h2
    subst this
    exact hloop a h1
  · rw [← hroot]
    exact reachU_complete hw hVn (fun a b hb => (harc a b).2 (.inl hb))

/-- **the reference decision for unrooted trees decides `IsTreeFrom`** on consistent undirected graphs -/
theorem isUnrootedTree_iff (g : G) (hc : Consistent g) (hd : g.directed = false) :
    isUnrootedTree g = true ↔ IsTreeFrom g :=
  ⟨isUnrootedTree_sound hc, isUnrootedTree_complete hc hd⟩

end Bpp.Graph
