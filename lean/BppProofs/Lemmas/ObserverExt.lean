import BppModel.ObserverExt
import BppProofs.Lemmas.ObserverWorld
import BppProofs.Lemmas.GraphOrient
/-!
Helper lemmas for `Props/C14Copy.lean`: ownership of the objects stored by the identity-level copy
constructor, its agreement with the label-level `copyObs`, and the world invariant across the
members added in `BppModel/ObserverExt.lean`.
-/
namespace Bpp.Graph
open Bpp.AL

namespace IObs

theorem vecOwned_replicate (k n : Nat) : vecOwned k (List.replicate n none) = true := by
  simp [vecOwned]

theorem vecOwned_put {k : Nat} {v : IVec} (h : vecOwned k v = true) (i : Nat) (a : Ident) (ha : a.owner = k) :
    vecOwned k (put v i (some a)) = true := by
  simp only [vecOwned, List.all_eq_true] at h ⊢
  intro x hx
  rcases List.mem_or_eq_of_mem_set hx with hm | he
  · exact h x hm
  · subst he; simp [ha]

/-- a vector filled by stores of objects owned by `k` only holds objects owned by `k` -/
theorem vecOwned_foldl {k : Nat} {β : Type} (l : List β) (idx : β → Nat) (obj : β → Ident)
    (ho : ∀ p ∈ l, (obj p).owner = k) (v : IVec) (hv : vecOwned k v = true) :
    vecOwned k (l.foldl (fun v p => put v (idx p) (some (obj p))) v) = true := by
  induction l generalizing v with
  | nil => exact hv
  | cons p r ih =>
    simp only [List.foldl_cons]
    exact ih (fun q hq => ho q (List.mem_cons_of_mem _ hq)) _ (vecOwned_put hv _ _ (ho p List.mem_cons_self))

theorem mapOwned_of {k : Nat} {m : List (Ident × Nat)} (h : ∀ p ∈ m, p.1.owner = k) : mapOwned k m = true := by
  simp only [mapOwned, List.all_eq_true]
  intro p hp; simp [h p hp]

theorem vecOwned_iff (k : Nat) (v : IVec) : vecOwned k v = true ↔ ∀ a ∈ v.filterMap id, a.owner = k := by
  simp only [vecOwned, List.all_eq_true, List.mem_filterMap, id]
  constructor
  · intro h a ⟨x, hx, hxa⟩
    have := h x hx; subst hxa; simpa using this
  · intro h x hx
    cases x with
    | none => rfl
    | some a => simpa using h a ⟨some a, hx, rfl⟩

theorem mapOwned_iff (k : Nat) (m : List (Ident × Nat)) : mapOwned k m = true ↔ ∀ a ∈ m.map (·.1), a.owner = k := by
  simp only [mapOwned, List.all_eq_true, List.mem_map]
  constructor
  · intro h a ⟨p, hp, hpa⟩; subst hpa; simpa using h p hp
  · intro h p hp; simpa using h p.1 ⟨p, hp, rfl⟩

/-- `foreign k s = none` says exactly: every object in any of the eight maps is owned by `k` -/
theorem foreign_none_iff (k : Nat) (s : IObs) : s.foreign k = none ↔ ∀ a ∈ s.objects, a.owner = k := by
  have e : s.foreign k = none ↔
      (vecOwned k s.gN = true ∧ vecOwned k s.gE = true ∧ mapOwned k s.Ng = true ∧ mapOwned k s.Eg = true ∧
       vecOwned k s.iN = true ∧ vecOwned k s.iE = true ∧ mapOwned k s.Ni = true ∧ mapOwned k s.Ei = true) := by
    unfold foreign
    cases vecOwned k s.gN <;> cases vecOwned k s.gE <;> cases mapOwned k s.Ng <;> cases mapOwned k s.Eg <;>
      cases vecOwned k s.iN <;> cases vecOwned k s.iE <;> cases mapOwned k s.Ni <;> cases mapOwned k s.Ei <;> simp
  rw [e, vecOwned_iff, vecOwned_iff, vecOwned_iff, vecOwned_iff, mapOwned_iff, mapOwned_iff, mapOwned_iff, mapOwned_iff]
  simp only [objects, List.mem_append]
  constructor
  · rintro ⟨h1, h2, h3, h4, h5, h6, h7, h8⟩ a ha
    rcases ha with ((((((ha | ha) | ha) | ha) | ha) | ha) | ha) | ha
    · exact h1 a ha
    · exact h2 a ha
    · exact h3 a ha
    · exact h4 a ha
    · exact h5 a ha
    · exact h6 a ha
    · exact h7 a ha
    · exact h8 a ha
  · intro h
    exact ⟨fun a ha => h a (by simp [ha]), fun a ha => h a (by simp [ha]), fun a ha => h a (by simp [ha]),
      fun a ha => h a (by simp [ha]), fun a ha => h a (by simp [ha]), fun a ha => h a (by simp [ha]),
      fun a ha => h a (by simp [ha]), fun a ha => h a (by simp [ha])⟩

theorem copyI_foreign (k : Nat) (s : IObs) : (copyI k s).foreign k = none := by
  have hfm : ∀ (ng ni : List (Ident × Nat)),
      ∀ p ∈ ng.filterMap (fun p => (ifind p.1 ni).map (fun i => ((⟨k, p.1.label⟩ : Ident), i))), p.1.owner = k := by
    intro ng ni p hp
    rw [List.mem_filterMap] at hp
    obtain ⟨q, _, hq⟩ := hp
    rcases hf : ifind q.1 ni with _ | i <;> simp [hf] at hq
    rw [← hq]
  have e : ∀ s' : IObs, (vecOwned k s'.gN = true ∧ vecOwned k s'.gE = true ∧ mapOwned k s'.Ng = true ∧ mapOwned k s'.Eg = true ∧
       vecOwned k s'.iN = true ∧ vecOwned k s'.iE = true ∧ mapOwned k s'.Ni = true ∧ mapOwned k s'.Ei = true) → s'.foreign k = none := by
    intro s' ⟨h1, h2, h3, h4, h5, h6, h7, h8⟩
    simp [foreign, h1, h2, h3, h4, h5, h6, h7, h8]
  apply e
  unfold copyI
  refine ⟨?_, ?_, ?_, ?_, ?_, ?_, ?_, ?_⟩
  · exact vecOwned_foldl s.Ng (·.2) (fun p => ⟨k, p.1.label⟩) (fun _ _ => rfl) _ (vecOwned_replicate _ _)
  · exact vecOwned_foldl s.Eg (·.2) (fun p => ⟨k, p.1.label⟩) (fun _ _ => rfl) _ (vecOwned_replicate _ _)
  · exact mapOwned_of (by intro p hp; rw [List.mem_map] at hp; obtain ⟨q, _, hq⟩ := hp; rw [← hq])
  · exact mapOwned_of (by intro p hp; rw [List.mem_map] at hp; obtain ⟨q, _, hq⟩ := hp; rw [← hq])
  · exact vecOwned_foldl (β := Ident × Nat) _ (fun p => p.2) (fun p => p.1) (hfm s.Ng s.Ni) _ (vecOwned_replicate _ _)
  · exact vecOwned_foldl (β := Ident × Nat) _ (fun p => p.2) (fun p => p.1) (hfm s.Eg s.Ei) _ (vecOwned_replicate _ _)
  · exact mapOwned_of (hfm s.Ng s.Ni)
  · exact mapOwned_of (hfm s.Eg s.Ei)

/-! ### forgetting the owners gives back the label-level copy -/

def tv (k : Nat) (v : Vec) : IVec := v.map (fun x => x.map (fun a => (⟨k, a⟩ : Ident)))
def tm (k : Nat) (m : List (Nat × Nat)) : List (Ident × Nat) := m.map (fun p => ((⟨k, p.1⟩ : Ident), p.2))

theorem tag_eq (k : Nat) (o : Obs) :
    o.tag k = { gN := tv k o.gN, gE := tv k o.gE, Ng := tm k o.Ng, Eg := tm k o.Eg,
                iN := tv k o.iN, iE := tv k o.iE, Ni := tm k o.Ni, Ei := tm k o.Ei } := rfl

theorem ifind_tm (j a : Nat) (m : List (Nat × Nat)) : ifind ⟨j, a⟩ (tm j m) = find a m := by
  induction m with
  | nil => rfl
  | cons p r ih =>
    obtain ⟨b, v⟩ := p
    simp only [tm, List.map_cons, ifind, find] at ih ⊢
    by_cases h : b = a
    · subst h; simp
    · have : ¬ ((⟨j, b⟩ : Ident) = ⟨j, a⟩) := by intro hh; injection hh with _ hh; exact h hh
      simp only [this, h, if_false]; exact ih

theorem tv_foldl (k : Nat) (l : List (Nat × Nat)) (acc : Vec) :
    tv k (l.foldl (fun v p => Vec.put v p.2 (some p.1)) acc) =
      l.foldl (fun v p => put v p.2 (some (⟨k, p.1⟩ : Ident))) (tv k acc) := by
  induction l generalizing acc with
  | nil => rfl
  | cons p r ih =>
    simp only [List.foldl_cons]
    rw [ih]
    congr 1
    simp [tv, Vec.put, put, List.map_set]

theorem tv_replicate (k n : Nat) : tv k (List.replicate n none) = List.replicate n none := by
  simp [tv]

theorem tv_length (k : Nat) (v : Vec) : (tv k v).length = v.length := by simp [tv]

/-- rebuilding a slot vector from tagged pairs -/
theorem rebuild_tm (j k n : Nat) (m : List (Nat × Nat)) :
    (tm j m).foldl (fun v p => put v p.2 (some (⟨k, p.1.label⟩ : Ident))) (List.replicate n none) =
      tv k (m.foldl (fun v p => Vec.put v p.2 (some p.1)) (List.replicate n none)) := by
  rw [tv_foldl, tv_replicate, tm, List.foldl_map]

theorem restrict_tm (j k : Nat) (ng ni : List (Nat × Nat)) :
    (tm j ng).filterMap (fun p => (ifind p.1 (tm j ni)).map (fun i => ((⟨k, p.1.label⟩ : Ident), i))) =
      tm k (ng.filterMap (fun p => (find p.1 ni).map (fun i => (p.1, i)))) := by
  simp only [tm, List.filterMap_map, List.map_filterMap]
  congr 1
  funext p
  have := ifind_tm j p.1 ni
  simp only [tm] at this
  simp only [Function.comp, this, Option.map_map]
  rfl

theorem rebuild_tm_self (k n : Nat) (m : List (Nat × Nat)) :
    (tm k m).foldl (fun v p => put v p.2 (some p.1)) (List.replicate n none) =
      tv k (m.foldl (fun v p => Vec.put v p.2 (some p.1)) (List.replicate n none)) := by
  rw [tv_foldl, tv_replicate, tm, List.foldl_map]

theorem copyI_tag (j k : Nat) (o : Obs) : copyI k (o.tag j) = (World.copyObs o).tag k := by
  rw [tag_eq, tag_eq]
  unfold copyI World.copyObs
  simp only [tv_length, rebuild_tm, restrict_tm, rebuild_tm_self]
  congr 1 <;> simp [tm, List.map_map, Function.comp]

end IObs

/-! ### the world invariant across the added members -/

theorem world_assign_inv {w : World} (hw : WInv w) (j k : Nat) : (w.assign j k).All WInv := by
  unfold World.assign
  rcases hj : w.getObs j with _ | o
  · trivial
  · rcases hk : w.getObs k with _ | o2
    · trivial
    · simp only
      split
      · exact hw
      · split
        · trivial
        · exact winv_same_graph hw k _ (getObs_lt hk) (copyObs_inv (hw.obs j o hj))

theorem oinv_empty (g : G) : OInv g {} :=
  ⟨Inverse.empty, Inverse.empty, Inverse.empty, Inverse.empty, by simp [find], by simp [find]⟩

theorem world_attach_inv {w : World} (hw : WInv w) (k : Nat) : (w.attach k).All WInv := by
  unfold World.attach
  split
  · trivial
  · rename_i h
    simp only [Bool.or_eq_true, decide_eq_true_eq, not_or] at h
    exact winv_same_graph hw k _ (by omega) (oinv_empty _)

theorem setRoot_keeps (n : Nat) (g : G) :
    (G.setRoot n g).state.pending = g.pending ∧ (∀ m, (G.setRoot n g).state.hasNode m = g.hasNode m) ∧
    (∀ e, (G.setRoot n g).state.hasEdge e = g.hasEdge e) := by
  unfold G.setRoot
  split <;> simp [GOut.state, G.hasNode, G.hasEdge]

theorem world_setRootObj_inv {w : World} (hw : WInv w) (k a : Nat) : (w.setRootObj k a).All WInv := by
  unfold World.setRootObj
  rcases hk : w.getObs k with _ | o
  · trivial
  · simp only
    rcases hf : find a o.Ng with _ | id
    · exact hw
    · simp only
      have hc := G.setRoot_consistent hw.graph id
      have hk := setRoot_keeps id w.g
      rcases hr : G.setRoot id w.g with ⟨u, g'⟩ | g' <;> rw [hr] at hc hk <;> simp only [GOut.state] at hk
      · exact winv_graph_grow hw hc (by rw [hk.1]; exact hw.quiet) (fun n h => by rw [hk.2.1]; exact h) (fun e h => by rw [hk.2.2]; exact h)
      · exact winv_graph_grow hw hc (by rw [hk.1]; exact hw.quiet) (fun n h => by rw [hk.2.1]; exact h) (fun e h => by rw [hk.2.2]; exact h)

theorem world_orientate_inv {w : World} (hw : WInv w) : WInv (w.graphOp w.g.orientate).2 := by
  have hc := G.orientate_consistent hw.graph
  have hn := G.orientate_notified hw.graph
  unfold World.graphOp
  rcases hr : w.g.orientate with ⟨v, g'⟩ | g' <;> rw [hr] at hc hn
  · exact deliver_winv hw hc hn
  · exact deliver_winv hw hc hn

theorem world_notifyDirect_inv {w : World} (hw : WInv w) (ev : Event) : WInv (w.notifyDirect ev) := by
  unfold World.notifyDirect
  apply deliver_winv hw
  · exact ⟨hw.graph.views, hw.graph.node_lt, hw.graph.edge_lt, ⟨hw.graph.sorted.nodes, hw.graph.sorted.edges, hw.graph.sorted.rows⟩⟩
  · refine ⟨[ev], rfl, ?_, ?_⟩
    · intro n h1 h2; rw [show ({ w.g with pending := w.g.pending ++ [ev] } : G).hasNode n = w.g.hasNode n from rfl, h1] at h2; cases h2
    · intro e h1 h2; rw [show ({ w.g with pending := w.g.pending ++ [ev] } : G).hasEdge e = w.g.hasEdge e from rfl, h1] at h2; cases h2

theorem mem_keys_of_has {β : Type} {k : Nat} {l : List (Nat × β)} (h : AL.has k l = true) : k ∈ AL.keys l := by
  unfold AL.has at h
  rcases hf : find k l with _ | v
  · simp [hf] at h
  · exact List.mem_map.mpr ⟨(k, v), find_some_mem hf, rfl⟩

theorem world_graphAssign_inv {w : World} (hw : WInv w) {h : G} (hc : Consistent h) : WInv (w.graphAssign h) := by
  unfold World.graphAssign
  apply deliver_winv hw
  · exact ⟨hc.views, hc.node_lt, hc.edge_lt, ⟨hc.sorted.nodes, hc.sorted.edges, hc.sorted.rows⟩⟩
  · refine ⟨[.edges w.g.allEdges, .nodes w.g.allNodes], rfl, ?_, ?_⟩
    · intro n hn _
      simp only [notifiedNodes, List.flatMap_cons, List.flatMap_nil, List.append_nil, List.nil_append]
      exact mem_keys_of_has hn
    · intro e he _
      simp only [notifiedEdges, List.flatMap_cons, List.flatMap_nil, List.append_nil]
      exact mem_keys_of_has he

end Bpp.Graph
