import BppProofs.Lemmas.Describe
import Mathlib.Tactic.FieldSimp
import Mathlib.Tactic.Linarith
import Mathlib.Tactic.Ring
import Mathlib.Data.Rat.Lemmas
/-!
The law of number texts (`NumLaw`, Props/C01Describe.lean) for the `Rat` interpretation: parsing
what `renderRat?` writes gives the number back.  Uses core's `Nat.toDigits` / `Nat.ofDigitChars`
theory for the digits and Mathlib for the field arithmetic.
-/
namespace Bpp.Describe

theorem D_eq (n : Nat) : D n = Nat.toDigits 10 n := by
  unfold D; rw [Nat.toString_eq_repr, Nat.toList_repr]

theorem D_ne_nil (n : Nat) : D n ≠ [] := by rw [D_eq]; exact Nat.toDigits_ne_nil

theorem D_digits (n : Nat) : ∀ c ∈ D n, isDigit c = true := by
  intro c hc; rw [D_eq] at hc
  exact Nat.isDigit_of_mem_toDigits (by decide) (by decide) hc

theorem D_value (n : Nat) : natOfDigits (D n) = n := by
  unfold natOfDigits; rw [D_eq]; exact Nat.ofDigitChars_ten_toDigits

theorem D_length_le (n k : Nat) (hk : 0 < k) (h : n < 10 ^ k) : (D n).length ≤ k := by
  have := (Nat.length_repr_le_iff (n := n) hk).2 h
  rw [D_eq, ← Nat.toList_repr, String.length_toList]; exact this

theorem digit_not_special {c : Char} (h : isDigit c = true) : (c == '.') = false ∧ (c == 'e') = false ∧ c ≠ '-' := by
  obtain ⟨h1, h2⟩ := (isDigit_iff c).1 h
  have ne : ∀ k : Char, (k.toNat < 48 ∨ 57 < k.toNat) → c ≠ k := by
    intro k hk e; subst e; omega
  exact ⟨by simpa using ne '.' (by decide), by simpa using ne 'e' (by decide), ne '-' (by decide)⟩

theorem isDecLoop_digits (ds : List Char) (h : ∀ c ∈ ds, isDigit c = true) (sep sci dig : Nat)
    (hs : sep ≤ 1) (hc : sci ≤ 1) : isDecLoop ds sep sci dig = decide (0 < dig + ds.length) := by
  induction ds generalizing dig with
  | nil => simp [isDecLoop]
  | cons d ds ih =>
    have hd := h d (by simp)
    obtain ⟨n1, n2, _⟩ := digit_not_special hd
    have : ¬ (sep > 1) := by omega
    have : ¬ (sci > 1) := by omega
    rw [isDecLoop.eq_def]
    simp only [n1, n2, hd, Bool.false_eq_true, if_false, Bool.not_true, gt_iff_lt, Bool.or_eq_true, decide_eq_true_eq]
    rw [if_neg (by omega)]
    rw [ih (fun c hc => h c (by simp [hc]))]
    simp only [List.length_cons]
    congr 1
    apply propext
    constructor <;> intro <;> omega

theorem isDecLoop_dec (ds1 ds2 : List Char) (h1 : ∀ c ∈ ds1, isDigit c = true) (h2 : ∀ c ∈ ds2, isDigit c = true)
    (dig : Nat) : isDecLoop (ds1 ++ '.' :: ds2) 0 0 dig = decide (0 < dig + ds1.length + ds2.length) := by
  induction ds1 generalizing dig with
  | nil =>
    rw [List.nil_append, isDecLoop.eq_def]
    simp only [beq_self_eq_true, if_true, gt_iff_lt, Bool.or_eq_true, decide_eq_true_eq]
    rw [if_neg (by omega)]
    rw [isDecLoop_digits ds2 h2 1 0 dig (by omega) (by omega)]
    simp
  | cons d ds ih =>
    have hd := h1 d (by simp)
    obtain ⟨n1, n2, _⟩ := digit_not_special hd
    rw [List.cons_append, isDecLoop.eq_def]
    simp only [n1, n2, hd, Bool.false_eq_true, if_false, Bool.not_true, gt_iff_lt, Bool.or_eq_true, decide_eq_true_eq]
    rw [if_neg (by omega)]
    rw [ih (fun c hc => h1 c (by simp [hc]))]
    simp only [List.length_cons]
    congr 1
    apply propext
    constructor <;> intro <;> omega

theorem digit_not_space {c : Char} (h : isDigit c = true) : isSpace c = false := by
  obtain ⟨h1, h2⟩ := (isDigit_iff c).1 h
  have ne : ∀ k : Char, (k.toNat < 48 ∨ 57 < k.toNat) → c ≠ k := by
    intro k hk e; subst e; omega
  unfold isSpace
  simp only [Bool.or_eq_false_iff, beq_eq_false_iff_ne]
  exact ⟨⟨⟨⟨⟨ne ' ' (by decide), ne '\t' (by decide)⟩, ne '\n' (by decide)⟩, ne '\x0b' (by decide)⟩,
    ne '\x0c' (by decide)⟩, ne '\r' (by decide)⟩

theorem isDecimalNumber_numText (neg : Bool) (ip fp : List Char) (hip : ip ≠ [])
    (h1 : ∀ c ∈ ip, isDigit c = true) (h2 : ∀ c ∈ fp, isDigit c = true) :
    isDecimalNumber (numText neg ip fp) = true := by
  obtain ⟨d, ds, rfl⟩ := List.exists_cons_of_ne_nil hip
  have hd := h1 d (by simp)
  have hbody : isDecLoop ((d :: ds) ++ (if fp.isEmpty then [] else '.' :: fp)) 0 0 0 = true := by
    by_cases hf : fp.isEmpty
    · simp only [hf, if_true, List.append_nil]
      rw [isDecLoop_digits _ h1 0 0 0 (by omega) (by omega)]; simp
    · simp only [hf, Bool.false_eq_true, if_false]
      rw [isDecLoop_dec _ _ h1 h2 0]; simp
  have hnotsp : ∀ rest pre, (pre ++ d :: rest).all isSpace = false := by
    intro rest pre; simp only [List.all_eq_false]; exact ⟨d, by simp, by simp [digit_not_space hd]⟩
  unfold isDecimalNumber numText
  cases neg
  · simp only [Bool.false_eq_true, if_false, List.nil_append]
    have := hnotsp (ds ++ (if fp.isEmpty then [] else '.' :: fp)) []
    simp only [List.nil_append, List.cons_append] at this ⊢
    rw [this]
    simp only [Bool.false_eq_true, if_false]
    have hne : d ≠ '-' := (digit_not_special hd).2.2
    split
    · next r heq => simp at heq; exact absurd heq.1 hne
    · simpa using hbody
  · simp only [if_true, List.cons_append, List.nil_append]
    have := hnotsp (ds ++ (if fp.isEmpty then [] else '.' :: fp)) ['-']
    simp only [List.cons_append, List.nil_append] at this
    rw [this]
    simp only [Bool.false_eq_true, if_false]
    simpa using hbody

theorem takeWhile_digits (ds rest : List Char) (h : ∀ c ∈ ds, isDigit c = true)
    (hr : ∀ c, rest.head? = some c → isDigit c = false) :
    (ds ++ rest).takeWhile isDigit = ds ∧ (ds ++ rest).dropWhile isDigit = rest := by
  induction ds with
  | nil =>
    cases rest with
    | nil => simp
    | cons r rest => simp [hr r rfl]
  | cons d ds ih =>
    have hd := h d (by simp)
    have := ih (fun c hc => h c (by simp [hc]))
    simp [hd, this.1, this.2]

theorem strictSplit_numText (neg : Bool) (ip fp : List Char) (hip : ip ≠ [])
    (h1 : ∀ c ∈ ip, isDigit c = true) (h2 : ∀ c ∈ fp, isDigit c = true) :
    strictSplit (numText neg ip fp) = some (neg, ip, fp) := by
  obtain ⟨d, ds, rfl⟩ := List.exists_cons_of_ne_nil hip
  have hd := h1 d (by simp)
  have hne : d ≠ '-' := (digit_not_special hd).2.2
  have hdot : isDigit '.' = false := by decide
  have key : ∀ body : List Char, body = (d :: ds) ++ (if fp.isEmpty then [] else '.' :: fp) →
      (let ip' := body.takeWhile isDigit
       let rest := body.dropWhile isDigit
       if ip'.isEmpty then none else
        match rest with
        | [] => some (neg, ip', [])
        | '.' :: fp' => if !fp'.isEmpty && fp'.all isDigit then some (neg, ip', fp') else none
        | _ => none) = some (neg, d :: ds, fp) := by
    intro body hb
    by_cases hf : fp.isEmpty
    · have hfp : fp = [] := by simpa using hf
      subst hfp
      simp only [List.isEmpty_nil, if_true, List.append_nil] at hb
      have := takeWhile_digits (d :: ds) [] h1 (by simp)
      simp only [List.append_nil] at this
      rw [hb]; simp only [this.1, this.2]; simp
    · simp only [hf, Bool.false_eq_true, if_false] at hb
      have := takeWhile_digits (d :: ds) ('.' :: fp) h1 (by intro c hc; simp at hc; subst hc; exact hdot)
      have hall : fp.all isDigit = true := by simpa [List.all_eq_true] using h2
      rw [hb]; simp only [this.1, this.2]; simp [hf, hall]
  unfold strictSplit numText
  cases neg
  · simp only [Bool.false_eq_true, if_false, List.nil_append]
    split
    · next r heq => simp at heq; exact absurd heq.1 hne
    · exact key _ rfl
  · simp only [if_true, List.cons_append, List.nil_append]
    exact key _ (by simp)


theorem parseRat_numText (neg : Bool) (ip fp : List Char) (hip : ip ≠ [])
    (h1 : ∀ c ∈ ip, isDigit c = true) (h2 : ∀ c ∈ fp, isDigit c = true) (q : Rat)
    (hq : q = (if neg then -((natOfDigits ip : Rat) + (natOfDigits fp : Rat) / ((10 ^ fp.length : Nat) : Rat))
               else ((natOfDigits ip : Rat) + (natOfDigits fp : Rat) / ((10 ^ fp.length : Nat) : Rat))))
    (hd : isDouble q = true) : parseRat (numText neg ip fp) = .ok q := by
  unfold parseRat
  rw [isDecimalNumber_numText neg ip fp hip h1 h2, strictSplit_numText neg ip fp hip h1 h2]
  simp only [Bool.not_true, Bool.false_eq_true, if_false]
  rw [← hq, hd]; simp

theorem padLeft_spec (n : Nat) (l : List Char) (hl : l.length ≤ n) (h : ∀ c ∈ l, isDigit c = true) :
    (padLeft n l).length = n ∧ (∀ c ∈ padLeft n l, isDigit c = true) ∧ natOfDigits (padLeft n l) = natOfDigits l := by
  unfold padLeft
  refine ⟨by simp; omega, ?_, ?_⟩
  · intro c hc
    simp only [List.mem_append, List.mem_replicate] at hc
    rcases hc with ⟨_, rfl⟩ | hc
    · decide
    · exact h c hc
  · unfold natOfDigits
    rw [Nat.ofDigitChars_append, Nat.ofDigitChars_replicate_zero]; simp

theorem numText_chars (neg : Bool) (ip fp : List Char) (hip : ip ≠ [])
    (h1 : ∀ c ∈ ip, isDigit c = true) (h2 : ∀ c ∈ fp, isDigit c = true) :
    numText neg ip fp ≠ [] ∧ ∀ c ∈ numText neg ip fp, isDigit c = true ∨ c = '-' ∨ c = '.' := by
  unfold numText
  refine ⟨by simp [hip], ?_⟩
  intro c hc
  simp only [List.mem_append] at hc
  rcases hc with (hc | hc) | hc
  · cases neg <;> simp at hc; exact Or.inr (Or.inl hc)
  · exact Or.inl (h1 c hc)
  · by_cases hf : fp.isEmpty
    · simp [hf] at hc
    · simp only [hf, Bool.false_eq_true, if_false, List.mem_cons] at hc
      rcases hc with hc | hc
      · exact Or.inr (Or.inr hc)
      · exact Or.inl (h2 c hc)

/-- `renderAbs?` in terms of `numText` -/
theorem renderAbs_shape (neg : Bool) (a : Rat) (ha : 0 ≤ a) (t : List Char) (h : renderAbs? neg a = some t) :
    (a = 0 ∧ t = ['0']) ∨
    ∃ j m : Nat, a * ((10 ^ j : Nat) : Rat) = (m : Rat) ∧
      ((j = 0 ∧ t = numText neg (D m) []) ∨
       (0 < j ∧ t = numText neg (D (m / 10 ^ j)) (padLeft j (D (m % 10 ^ j))))) := by
  unfold renderAbs? at h
  by_cases h0 : (a == 0) = true
  · left
    rw [if_pos h0] at h
    exact ⟨by simpa using h0, (Option.some.inj h).symm⟩
  · right
    rw [if_neg h0] at h
    have hnz : a ≠ 0 := by simpa using h0
    have hpos : 0 < a := lt_of_le_of_ne ha (Ne.symm hnz)
    by_cases h1 : (decide (a ≥ 1000000) || decide (a < 1 / 10000)) = true
    · rw [if_pos h1] at h; cases h
    · rw [if_neg h1] at h
      cases hfind : List.find? (fun j => (a * ((10 ^ j : Nat) : Rat)).den == 1) (List.range 11) with
      | none => rw [hfind] at h; cases h
      | some j =>
        rw [hfind] at h
        simp only at h
        have hden := List.find?_some hfind
        simp only [beq_iff_eq] at hden
        have hxpos : 0 < a * ((10 ^ j : Nat) : Rat) :=
          mul_pos hpos (by exact_mod_cast Nat.pos_of_ne_zero (by positivity))
        have hnum : (((a * ((10 ^ j : Nat) : Rat)).num.toNat : Nat) : Rat) = a * ((10 ^ j : Nat) : Rat) := by
          have h1 : (((a * ((10 ^ j : Nat) : Rat)).num : Int) : Rat) = a * ((10 ^ j : Nat) : Rat) :=
            Rat.coe_int_num_of_den_eq_one hden
          have h2 : 0 ≤ (a * ((10 ^ j : Nat) : Rat)).num := le_of_lt (Rat.num_pos.2 hxpos)
          have h3 : (((a * ((10 ^ j : Nat) : Rat)).num.toNat : Int)) = (a * ((10 ^ j : Nat) : Rat)).num :=
            Int.toNat_of_nonneg h2
          calc (((a * ((10 ^ j : Nat) : Rat)).num.toNat : Nat) : Rat)
              = (((a * ((10 ^ j : Nat) : Rat)).num.toNat : Int) : Rat) := by norm_cast
            _ = _ := by rw [h3, h1]
        refine ⟨j, _, hnum.symm, ?_⟩
        by_cases hj0 : (j == 0) = true
        · left
          rw [if_pos hj0] at h
          exact ⟨by simpa using hj0, (Option.some.inj h).symm⟩
        · right
          rw [if_neg hj0] at h
          refine ⟨Nat.pos_of_ne_zero (by simpa using hj0), ?_⟩
          split at h
          · cases h
          · exact (Option.some.inj h).symm

/-- rendering then parsing, for `±a` -/
theorem renderAbs_parse (neg : Bool) (a : Rat) (ha : 0 ≤ a) (hneg : a = 0 → neg = false)
    (hd : isDouble (if neg then -a else a) = true) (t : List Char)
    (h : renderAbs? neg a = some t) :
    parseRat t = .ok (if neg then -a else a) ∧ t ≠ [] ∧ ∀ c ∈ t, isDigit c = true ∨ c = '-' ∨ c = '.' := by
  rcases renderAbs_shape neg a ha t h with ⟨rfl, rfl⟩ | ⟨j, m, hm, hcase⟩
  · have hn := hneg rfl; subst hn
    refine ⟨?_, by simp, ?_⟩
    · have hD0 : D 0 = ['0'] := by rw [D_eq]; exact Nat.toDigits_zero 10
      have e : ['0'] = numText false (D 0) [] := by simp [numText, hD0]
      rw [e]
      refine parseRat_numText false (D 0) [] (D_ne_nil 0) (D_digits 0) (by simp) _ ?_ hd
      rw [D_value]; simp [natOfDigits]
    · intro c hc; simp at hc; subst hc; exact Or.inl (by decide)
  · rcases hcase with ⟨rfl, rfl⟩ | ⟨hj, rfl⟩
    · simp only [pow_zero, Nat.cast_one, mul_one] at hm
      refine ⟨parseRat_numText _ (D m) [] (D_ne_nil m) (D_digits m) (by simp) _ ?_ hd,
        numText_chars _ (D m) [] (D_ne_nil m) (D_digits m) (by simp)⟩
      rw [D_value]
      simp only [natOfDigits, Nat.ofDigitChars_nil, List.length_nil, pow_zero, Nat.cast_zero, Nat.cast_one, zero_div, add_zero]
      rw [← hm]
    · have hfplt : m % 10 ^ j < 10 ^ j := Nat.mod_lt _ (by positivity)
      obtain ⟨plen, pdig, pval⟩ := padLeft_spec j (D (m % 10 ^ j)) (D_length_le _ j hj hfplt) (D_digits _)
      refine ⟨parseRat_numText _ (D (m / 10 ^ j)) _ (D_ne_nil _) (D_digits _) pdig _ ?_ hd,
        numText_chars _ (D (m / 10 ^ j)) _ (D_ne_nil _) (D_digits _) pdig⟩
      rw [D_value, pval, D_value, plen]
      have hdm : ((m / 10 ^ j : Nat) : Rat) + ((m % 10 ^ j : Nat) : Rat) / ((10 ^ j : Nat) : Rat) = a := by
        have h10 : ((10 ^ j : Nat) : Rat) ≠ 0 := by exact_mod_cast (by positivity : (10 ^ j : Nat) ≠ 0)
        have hsplit : (m : Rat) = ((m / 10 ^ j : Nat) : Rat) * ((10 ^ j : Nat) : Rat) + ((m % 10 ^ j : Nat) : Rat) := by
          have := Nat.div_add_mod m (10 ^ j)
          have h' : (m : Rat) = (((10 ^ j) * (m / 10 ^ j) + m % 10 ^ j : Nat) : Rat) := by rw [this]
          rw [h']; push_cast; ring
        have ha' : a = (m : Rat) / ((10 ^ j : Nat) : Rat) := by rw [← hm]; field_simp
        rw [ha', hsplit]; field_simp
      rw [hdm]

/-- the law of number texts for the `Rat` instance, on the rationals that are doubles -/
theorem renderRat_parse (q : Rat) (hd : isDouble q = true) (t : List Char) (h : renderRat? q = some t) :
    parseRat t = .ok q ∧ t ≠ [] ∧ ∀ c ∈ t, isDigit c = true ∨ c = '-' ∨ c = '.' := by
  unfold renderRat? at h
  have hqa : (if decide (q < 0) = true then -(if q < 0 then -q else q) else (if q < 0 then -q else q)) = q := by
    by_cases hq : q < 0 <;> simp [hq]
  have ha : 0 ≤ (if q < 0 then -q else q) := by
    by_cases hq : q < 0
    · rw [if_pos hq]; linarith
    · rw [if_neg hq]; exact not_lt.1 hq
  have hneg : (if q < 0 then -q else q) = 0 → decide (q < 0) = false := by
    intro h0
    by_cases hq : q < 0
    · rw [if_pos hq] at h0; exfalso; linarith
    · simp [hq]
  have := renderAbs_parse (decide (q < 0)) _ ha hneg (by rw [hqa]; exact hd) t h
  rw [hqa] at this
  exact this

/-! ### the recogniser is C17's (`Bpp.Text.Number.isDecimalNumber '.' 'e'`) -/

theorem isDigit_eq (c : Char) : isDigit c = Bpp.Text.isDigit c := by
  unfold isDigit Bpp.Text.isDigit Char.isDigit
  simp [Char.le_def, UInt32.le_iff_toNat_le]

theorem isDecLoop_eq (l : List Char) (sep sci dig : Nat) :
    isDecLoop l sep sci dig = Bpp.Text.Number.decLoop '.' 'e' sep sci dig l := by
  fun_induction isDecLoop l sep sci dig <;> rw [Bpp.Text.Number.decLoop.eq_def] <;> simp_all [isDigit_eq]

theorem isDecimalNumber_eq_number (l : List Char) :
    isDecimalNumber l = Bpp.Text.Number.isDecimalNumber '.' 'e' l := by
  unfold isDecimalNumber Bpp.Text.Number.isDecimalNumber Bpp.Text.isEmptyStr
  have hsp : (isSpace : Char → Bool) = Bpp.Text.isSpace := rfl
  rw [hsp]
  split_ifs
  · rfl
  · split <;> simp [isDecLoop_eq]

end Bpp.Describe
