import BppProofs.Lemmas.OptimBracket
import BppModel.OptimOneDim
/-!
Helper lemmas for C10: `GoldenSectionSearch` over `ℝ`, for a function object whose evaluation step
is deterministic (`Det I g J`).
-/
set_option linter.unusedSectionVars false
namespace Bpp.Optim
open Bpp

variable {F : Type} {J : F → PList ℝ → Prop}

theorem ntAbs_real (x : ℝ) : ntAbs x = |x| := by
  unfold ntAbs
  by_cases h : x < 0
  · rw [if_pos (by simpa [Scalar.zero] using h), abs_of_neg h]
  · rw [if_neg (by simpa [Scalar.zero] using h), abs_of_nonneg (not_lt.1 h)]

theorem eval0_of (I : FunI F ℝ) (fn fn' : F) (pl pl' : PList ℝ) (x v : ℝ)
    (h1 : setValueAt pl 0 x = .ok pl') (h2 : I.f fn pl' = .ok (fn', v)) :
    eval0 I fn pl x = .ok (fn', pl', v) := by
  unfold eval0; rw [h1]; simp only []; rw [h2]

theorem evalOwn_spec {τ : Type} (I : FunI F ℝ) (g : ℝ → ℝ) (hd : Det I g J) (s s' : St F τ ℝ) (x v : ℝ)
    (h : evalOwn I s x = .ok (s', v)) (hJ : J s.fn s.core.params) :
    v = g x ∧ J s'.fn s'.core.params ∧ s'.ext = s.ext ∧ (∃ y, value0 s'.core.params = some y ∧ g y = g x) ∧
    s'.core = { s.core with params := s'.core.params } := by
  unfold evalOwn at h
  cases he : eval0 I s.fn s.core.params x with
  | error e => rw [he] at h; cases h
  | ok r =>
    obtain ⟨fn1, pl1, v1⟩ := r
    rw [he] at h
    simp only [Except.ok.injEq, Prod.mk.injEq] at h
    obtain ⟨rfl, rfl⟩ := h
    obtain ⟨hv, hJ1⟩ := hd.eval _ _ _ _ _ _ hJ he
    exact ⟨hv, hJ1, rfl, hd.stored _ _ _ _ _ _ hJ he, rfl⟩

/-- the invariant of the golden section search: the two inner values are evaluations, and the lower
of them is below `m` -/
structure Gss.Inv (g : ℝ → ℝ) (J : F → PList ℝ → Prop) (m : ℝ) (s : St F (Gss ℝ) ℝ) : Prop where
  f1 : s.ext.f1 = g s.ext.x1
  f2 : s.ext.f2 = g s.ext.x2
  j : J s.fn s.core.params
  m : min s.ext.f1 s.ext.f2 ≤ m

theorem gssStop_same (s : St F (Gss ℝ) ℝ) :
    (gssStop s).1.ext = s.ext ∧ (gssStop s).1.fn = s.fn ∧ (gssStop s).1.core.params = s.core.params ∧
    (gssStop s).1.core.nbEval = s.core.nbEval ∧ (gssStop s).1.core.nbEvalMax = s.core.nbEvalMax ∧
    (gssStop s).1.core.cur = s.core.cur := by
  unfold gssStop; simp only []; split <;> exact ⟨rfl, rfl, rfl, rfl, rfl, rfl⟩

theorem gssPoll_same (s : St F (Gss ℝ) ℝ) :
    (gssPoll s).ext = s.ext ∧ (gssPoll s).fn = s.fn ∧ (gssPoll s).core.params = s.core.params ∧
    (gssPoll s).core.nbEval = s.core.nbEval ∧ (gssPoll s).core.nbEvalMax = s.core.nbEvalMax := by
  unfold gssPoll
  split
  · have := gssStop_same s
    simp only []
    exact ⟨this.1, this.2.1, this.2.2.1, this.2.2.2.1, this.2.2.2.2.1⟩
  · exact ⟨rfl, rfl, rfl, rfl, rfl⟩

theorem gssProbe_spec (I : FunI F ℝ) (g : ℝ → ℝ) (hd : Det I g J) (s s' : St F (Gss ℝ) ℝ) (x v : ℝ)
    (h : gssProbe I s x = .ok (s', v)) (hJ : J s.fn s.core.params) :
    v = g x ∧ J s'.fn s'.core.params ∧ s'.ext = s.ext ∧ s'.core.nbEval = s.core.nbEval ∧
    s'.core.nbEvalMax = s.core.nbEvalMax := by
  unfold gssProbe at h
  cases hset : setValueAt s.core.params 0 x with
  | error e => rw [hset] at h; cases h
  | ok pl =>
    rw [hset] at h
    simp only [] at h
    have hp := gssPoll_same ({ s with core := { s.core with params := pl } } : St F (Gss ℝ) ℝ)
    generalize gssPoll ({ s with core := { s.core with params := pl } } : St F (Gss ℝ) ℝ) = sp at h hp
    simp only [] at hp
    cases hf : I.f sp.fn sp.core.params with
    | error e => rw [hf] at h; cases h
    | ok r =>
      obtain ⟨fn1, v1⟩ := r
      rw [hf] at h
      simp only [Except.ok.injEq, Prod.mk.injEq] at h
      obtain ⟨rfl, rfl⟩ := h
      rw [hp.2.1, hp.2.2.1] at hf
      have he := eval0_of I _ _ _ _ _ _ hset hf
      obtain ⟨hv, hJ1⟩ := hd.eval _ _ _ _ _ _ hJ he
      refine ⟨hv, ?_, hp.1, hp.2.2.2.1, hp.2.2.2.2⟩
      show J fn1 sp.core.params; rw [hp.2.2.1]; exact hJ1

theorem gssProbe_counter (I : FunI F ℝ) (s s' : St F (Gss ℝ) ℝ) (x v : ℝ) (h : gssProbe I s x = .ok (s', v)) :
    s'.core.nbEval = s.core.nbEval ∧ s'.core.nbEvalMax = s.core.nbEvalMax := by
  unfold gssProbe at h
  cases hset : setValueAt s.core.params 0 x with
  | error e => rw [hset] at h; cases h
  | ok pl =>
    rw [hset] at h
    simp only [] at h
    have hp := gssPoll_same ({ s with core := { s.core with params := pl } } : St F (Gss ℝ) ℝ)
    generalize gssPoll ({ s with core := { s.core with params := pl } } : St F (Gss ℝ) ℝ) = sp at h hp
    simp only [] at hp
    cases hf : I.f sp.fn sp.core.params with
    | error e => rw [hf] at h; cases h
    | ok r =>
      obtain ⟨fn1, v1⟩ := r
      rw [hf] at h
      simp only [Except.ok.injEq, Prod.mk.injEq] at h
      obtain ⟨rfl, rfl⟩ := h
      exact ⟨hp.2.2.2.1, hp.2.2.2.2⟩

theorem gssDoStep_spec (I : FunI F ℝ) (g : ℝ → ℝ) (hd : Det I g J) (m : ℝ) (s s' : St F (Gss ℝ) ℝ) (v : ℝ)
    (hi : Gss.Inv g J m s) (h : gssDoStep I s = .ok (s', v)) :
    Gss.Inv g J m s' ∧ s'.ext.xinf = s.ext.xinf ∧ s'.ext.xsup = s.ext.xsup := by
  unfold gssDoStep at h
  simp only [] at h
  by_cases hlt : s.ext.f2 < s.ext.f1
  · rw [if_pos ((ScalarReal.ltb_iff _ _).2 hlt)] at h
    split at h
    · cases h
    · rename_i sp v1 hpr
      simp only [Except.ok.injEq, Prod.mk.injEq] at h
      obtain ⟨rfl, rfl⟩ := h
      obtain ⟨hv, hJ1, hext, -, -⟩ := gssProbe_spec I g hd _ _ _ _ hpr hi.j
      refine ⟨⟨?_, ?_, hJ1, ?_⟩, ?_, ?_⟩
      · show sp.ext.f2 = g sp.ext.x1; rw [hext]; exact hi.f2
      · show v1 = g sp.ext.x2; rw [hext]; exact hv
      · show min sp.ext.f2 v1 ≤ m
        rw [hext]
        calc min s.ext.f2 v1 ≤ s.ext.f2 := min_le_left _ _
          _ = min s.ext.f1 s.ext.f2 := (min_eq_right (le_of_lt hlt)).symm
          _ ≤ m := hi.m
      · show sp.ext.xinf = _; rw [hext]
      · show sp.ext.xsup = _; rw [hext]
  · rw [if_neg (fun c => hlt ((ScalarReal.ltb_iff _ _).1 c))] at h
    split at h
    · cases h
    · rename_i sp v1 hpr
      simp only [Except.ok.injEq, Prod.mk.injEq] at h
      obtain ⟨rfl, rfl⟩ := h
      obtain ⟨hv, hJ1, hext, -, -⟩ := gssProbe_spec I g hd _ _ _ _ hpr hi.j
      refine ⟨⟨?_, ?_, hJ1, ?_⟩, ?_, ?_⟩
      · show v1 = g sp.ext.x1; rw [hext]; exact hv
      · show sp.ext.f1 = g sp.ext.x2; rw [hext]; exact hi.f1
      · show min v1 sp.ext.f1 ≤ m
        rw [hext]
        calc min v1 s.ext.f1 ≤ s.ext.f1 := min_le_right _ _
          _ = min s.ext.f1 s.ext.f2 := (min_eq_left (not_lt.1 hlt)).symm
          _ ≤ m := hi.m
      · show sp.ext.xinf = _; rw [hext]
      · show sp.ext.xsup = _; rw [hext]

theorem gss_monotone (I : FunI F ℝ) (fuel : Nat) : Monotone (gssAlgo I fuel) := by
  constructor
  · intro s s' v h
    change gssDoStep I s = .ok (s', v) at h
    unfold gssDoStep at h
    simp only [] at h
    split at h
    · split at h
      · cases h
      · rename_i sp v1 hpr
        simp only [Except.ok.injEq, Prod.mk.injEq] at h
        obtain ⟨rfl, rfl⟩ := h
        have := gssProbe_counter I _ _ _ _ hpr
        simp only [] at this
        exact ⟨by show s.core.nbEval ≤ sp.core.nbEval; rw [this.1]; omega, by show sp.core.nbEvalMax = _; rw [this.2]⟩
    · split at h
      · cases h
      · rename_i sp v1 hpr
        simp only [Except.ok.injEq, Prod.mk.injEq] at h
        obtain ⟨rfl, rfl⟩ := h
        have := gssProbe_counter I _ _ _ _ hpr
        simp only [] at this
        exact ⟨by show s.core.nbEval ≤ sp.core.nbEval; rw [this.1]; omega, by show sp.core.nbEvalMax = _; rw [this.2]⟩
  · intro s
    have := gssStop_same s
    exact ⟨this.2.2.2.1, this.2.2.2.2.1⟩

theorem gssDoInit_spec (I : FunI F ℝ) (g : ℝ → ℝ) (hd : Det I g J) (fuel : Nat) (s s1 : St F (Gss ℝ) ℝ)
    (params : PList ℝ) (h : gssDoInit I fuel s params = .ok s1) (hJ : J s.fn s.core.params) :
    Gss.Inv g J (min (g s.ext.xinf) (g s.ext.xsup)) s1 ∧ s1.ext.xinf = s.ext.xinf ∧ s1.ext.xsup = s.ext.xsup ∧
    s1.core.nbEvalMax = s.core.nbEvalMax := by
  unfold gssDoInit at h
  split at h
  · cases h
  · cases hb : bracketMinimum I fuel s.ext.xinf s.ext.xsup s.fn s.core.params with
    | error e => rw [hb] at h; cases h
    | ok r =>
      obtain ⟨fnb, k⟩ := r
      rw [hb] at h
      simp only [] at h
      obtain ⟨hk, -, pl', hJb⟩ := outward_spec I g hd fuel _ _ _ _ _ _ hJ hb
      have hJ0 : J fnb s.core.params := hd.mix _ _ _ _ hJ hJb
      split at h
      · cases h
      · rename_i sa f1 he1
        split at h
        · cases h
        · rename_i sb f2 he2
          simp only [Except.ok.injEq] at h
          subst h
          obtain ⟨hv1, hJ1, hext1, -, hcore1⟩ := evalOwn_spec I g hd _ _ _ _ he1 hJ0
          obtain ⟨hv2, hJ2, hext2, -, hcore2⟩ := evalOwn_spec I g hd _ _ _ _ he2 hJ1
          simp only [] at hext2 hext1 hcore1 hcore2
          have hx : sb.ext = { sa.ext with f1 := f1 } := hext2
          refine ⟨⟨?_, ?_, hJ2, ?_⟩, ?_, ?_, ?_⟩
          · show sb.ext.f1 = g sb.ext.x1; rw [hx]; show f1 = g sa.ext.x1; rw [hext1]; exact hv1
          · show f2 = g sb.ext.x2; rw [hx]; show f2 = g sa.ext.x2; rw [hext1]; exact hv2
          · show min sb.ext.f1 f2 ≤ _
            rw [hx]
            show min f1 f2 ≤ _
            by_cases hc : |k.b.x - k.a.x| < |k.c.x - k.b.x|
            · -- x1 = b.x
              have e : f1 = k.b.f := by
                rw [hv1, hk.b]
                congr 1
                simp only [ntAbs_real] at *
                rw [if_pos ((ScalarReal.gtb_iff _ _).2 hc)]
              rw [e]; exact le_trans (min_le_left _ _) hk.bm
            · have e : f2 = k.b.f := by
                rw [hv2, hk.b]
                congr 1
                simp only [ntAbs_real] at *
                rw [if_neg (fun c => hc ((ScalarReal.gtb_iff _ _).1 c))]
              rw [e]; exact le_trans (min_le_right _ _) hk.bm
          · show sb.ext.xinf = _; rw [hx]; show sa.ext.xinf = _; rw [hext1]
          · show sb.ext.xsup = _; rw [hx]; show sa.ext.xsup = _; rw [hext1]
          · show sb.core.nbEvalMax = _; rw [hcore2]; show sa.core.nbEvalMax = _; rw [hcore1]

theorem Gss.Inv.congr {g : ℝ → ℝ} {m : ℝ} {s t : St F (Gss ℝ) ℝ} (h : Gss.Inv g J m s)
    (he : t.ext = s.ext) (hf : t.fn = s.fn) (hp : t.core.params = s.core.params) : Gss.Inv g J m t :=
  ⟨by rw [he]; exact h.f1, by rw [he]; exact h.f2, by rw [hf, hp]; exact h.j, by rw [he]; exact h.m⟩

theorem gss_step_inv (I : FunI F ℝ) (g : ℝ → ℝ) (hd : Det I g J) (fuel : Nat) (m : ℝ) (s s' : St F (Gss ℝ) ℝ) (v : ℝ)
    (hi : Gss.Inv g J m s) (h : (gssAlgo I fuel).step s = .ok (s', v)) : Gss.Inv g J m s' := by
  obtain ⟨s1, hd1, hc⟩ := step_cases _ s h
  have h1 := (gssDoStep_spec I g hd m s s1 v hi hd1).1
  rcases hc with ⟨_, rfl⟩ | ⟨_, rfl⟩
  · exact h1.congr rfl rfl rfl
  · have hs := gssStop_same ({ s1 with core := { s1.core with cur := v } } : St F (Gss ℝ) ℝ)
    exact h1.congr hs.1 hs.2.1 hs.2.2.1

/-- `GoldenSectionSearch::optimize` from a state that satisfies the invariant: the value returned
is the lower of the two inner values, an evaluation at the parameter the optimiser reports -/
theorem gssOptimize_spec (I : FunI F ℝ) (g : ℝ → ℝ) (hd : Det I g J) (fuel : Nat) (m : ℝ) (s s2 : St F (Gss ℝ) ℝ) (v : ℝ)
    (hi : Gss.Inv g J m s) (h : gssOptimize I fuel s = .ok (s2, v)) :
    v ≤ m ∧ s2.core.cur = v ∧ ∃ x, v = g x ∧ value0 s2.core.params = some x ∧ J s2.fn s2.core.params := by
  unfold gssOptimize at h
  cases ho : (gssAlgo I fuel).optimize fuel s with
  | error e => rw [ho] at h; cases h
  | ok r =>
    obtain ⟨sL, w⟩ := r
    rw [ho] at h
    simp only [] at h
    have hL : Gss.Inv g J m sL := by
      unfold Algo.optimize at ho
      split at ho
      · cases ho
      · cases hl : (gssAlgo I fuel).loop fuel { s with core := { s.core with tol := false, nbEval := 1 } } with
        | error e => rw [hl] at ho; cases ho
        | ok s' =>
          rw [hl] at ho
          simp only [Except.ok.injEq, Prod.mk.injEq] at ho
          obtain ⟨rfl, -⟩ := ho
          exact loop_invariant _ (Gss.Inv g J m)
            (fun u u' w hu _ hst => gss_step_inv I g hd fuel m u u' w hu hst)
            (fun u hu => hu.congr rfl rfl rfl) fuel
            ({ s with core := { s.core with tol := false, nbEval := 1 } } : St F (Gss ℝ) ℝ) _ (hi.congr rfl rfl rfl) hl
    cases he : evalOwn I sL (if Scalar.ltb sL.ext.f1 sL.ext.f2 = true then sL.ext.x1 else sL.ext.x2) with
    | error e => rw [he] at h; cases h
    | ok r2 =>
      obtain ⟨sE, v2⟩ := r2
      rw [he] at h
      simp only [Except.ok.injEq, Prod.mk.injEq] at h
      obtain ⟨rfl, rfl⟩ := h
      obtain ⟨hv, hJ2, -, ⟨y, hst, hgy⟩, -⟩ := evalOwn_spec I g hd _ _ _ _ he hL.j
      refine ⟨?_, rfl, y, hv.trans hgy.symm, hst, hJ2⟩
      rw [hv]
      by_cases hlt : sL.ext.f1 < sL.ext.f2
      · rw [if_pos ((ScalarReal.ltb_iff _ _).2 hlt), ← hL.f1]
        exact le_trans (le_of_eq (min_eq_left (le_of_lt hlt)).symm) hL.m
      · rw [if_neg (fun c => hlt ((ScalarReal.ltb_iff _ _).1 c)), ← hL.f2]
        exact le_trans (le_of_eq (min_eq_right (not_lt.1 hlt)).symm) hL.m

/-- `AbstractOptimizer::init` for the golden section search -/
theorem gssInit_spec (I : FunI F ℝ) (g : ℝ → ℝ) (hd : Det I g J) (fuel : Nat) (s s1 : St F (Gss ℝ) ℝ)
    (params : PList ℝ) (h : (gssAlgo I fuel).init s params = .ok s1)
    (hJ : J s.fn (applyPolicy s.core.policy params)) :
    Gss.Inv g J (min (g s.ext.xinf) (g s.ext.xsup)) s1 ∧ s1.core.initialized = true := by
  unfold Algo.init at h
  simp only [] at h
  split at h
  · cases h
  · rename_i sa hdi
    simp only [Except.ok.injEq] at h
    subst h
    have := gssDoInit_spec I g hd fuel _ _ _ hdi hJ
    exact ⟨this.1.congr rfl rfl rfl, rfl⟩

theorem gssProbe_ext (I : FunI F ℝ) (s s' : St F (Gss ℝ) ℝ) (x v : ℝ) (h : gssProbe I s x = .ok (s', v)) :
    s'.ext = s.ext := by
  unfold gssProbe at h
  cases hset : setValueAt s.core.params 0 x with
  | error e => rw [hset] at h; cases h
  | ok pl =>
    rw [hset] at h
    simp only [] at h
    have hp := gssPoll_same ({ s with core := { s.core with params := pl } } : St F (Gss ℝ) ℝ)
    generalize gssPoll ({ s with core := { s.core with params := pl } } : St F (Gss ℝ) ℝ) = sp at h hp
    simp only [] at hp
    cases hf : I.f sp.fn sp.core.params with
    | error e => rw [hf] at h; cases h
    | ok r =>
      obtain ⟨fn1, v1⟩ := r
      rw [hf] at h
      simp only [Except.ok.injEq, Prod.mk.injEq] at h
      obtain ⟨rfl, rfl⟩ := h
      exact hp.1

theorem sqrt5_bounds : (2 : ℝ) < Real.sqrt 5 ∧ Real.sqrt 5 < 3 := by
  constructor
  · rw [Real.lt_sqrt (by norm_num)]; norm_num
  · rw [Real.sqrt_lt' (by norm_num)]; norm_num

theorem gold_facts : (0 : ℝ) < goldC ∧ (goldC : ℝ) < 1 / 2 ∧ (goldR : ℝ) + goldC = 1 ∧ (1 / 2 : ℝ) < goldR ∧ (goldR : ℝ) < 1 := by
  have h := sqrt5_bounds
  have hphi : (phi : ℝ) = (1 + Real.sqrt 5) / 2 := by
    simp [phi, Scalar.one]
  have hR : (goldR : ℝ) = phi - 1 := by simp [goldR, Scalar.one]
  have hC : (goldC : ℝ) = 1 - goldR := by simp [goldC, Scalar.one]
  rw [hC, hR, hphi]
  refine ⟨by linarith [h.1, h.2], by linarith [h.1, h.2], by ring, by linarith [h.1], by linarith [h.2]⟩

/-- the four abscissae are strictly ordered (in either direction) -/
def Gss.Ordered (g : Gss ℝ) : Prop :=
  (g.x0 < g.x1 ∧ g.x1 < g.x2 ∧ g.x2 < g.x3) ∨ (g.x3 < g.x2 ∧ g.x2 < g.x1 ∧ g.x1 < g.x0)

theorem gssDoStep_interval (I : FunI F ℝ) (s s' : St F (Gss ℝ) ℝ) (v : ℝ) (ho : s.ext.Ordered)
    (h : gssDoStep I s = .ok (s', v)) :
    s'.ext.Ordered ∧ |s'.ext.x3 - s'.ext.x0| < |s.ext.x3 - s.ext.x0| ∧
    min s.ext.x0 s.ext.x3 ≤ min s'.ext.x0 s'.ext.x3 ∧ max s'.ext.x0 s'.ext.x3 ≤ max s.ext.x0 s.ext.x3 := by
  obtain ⟨hC0, hC1, hRC, hR0, hR1⟩ := gold_facts
  have hCe : (goldC : ℝ) = 1 - goldR := by linarith
  unfold gssDoStep at h
  simp only [] at h
  split at h
  · split at h
    · cases h
    · rename_i sp v1 hpr
      simp only [Except.ok.injEq, Prod.mk.injEq] at h
      obtain ⟨rfl, rfl⟩ := h
      have hext := gssProbe_ext I _ _ _ _ hpr
      simp only [] at hext
      show Gss.Ordered { sp.ext with f1 := sp.ext.f2, f2 := v1 } ∧ |sp.ext.x3 - sp.ext.x0| < _ ∧ _ ≤ min sp.ext.x0 sp.ext.x3 ∧ max sp.ext.x0 sp.ext.x3 ≤ _
      rw [hext]
      simp only [Gss.Ordered]
      rcases ho with ⟨a, b, c⟩ | ⟨a, b, c⟩
      · have e : goldR * s.ext.x2 + goldC * s.ext.x3 = s.ext.x2 + goldC * (s.ext.x3 - s.ext.x2) := by rw [hCe]; ring
        have p1 : 0 < goldC * (s.ext.x3 - s.ext.x2) := mul_pos hC0 (by linarith)
        have p2 : goldC * (s.ext.x3 - s.ext.x2) < s.ext.x3 - s.ext.x2 := by nlinarith
        refine ⟨Or.inl ⟨b, by rw [e]; linarith, by rw [e]; linarith⟩, ?_, ?_, ?_⟩
        · rw [abs_of_pos (by linarith), abs_of_pos (by linarith)]; linarith
        · rw [min_eq_left (by linarith), min_eq_left (by linarith)]; linarith
        · rw [max_eq_right (by linarith), max_eq_right (by linarith)]
      · have e : goldR * s.ext.x2 + goldC * s.ext.x3 = s.ext.x2 - goldC * (s.ext.x2 - s.ext.x3) := by rw [hCe]; ring
        have p1 : 0 < goldC * (s.ext.x2 - s.ext.x3) := mul_pos hC0 (by linarith)
        have p2 : goldC * (s.ext.x2 - s.ext.x3) < s.ext.x2 - s.ext.x3 := by nlinarith
        refine ⟨Or.inr ⟨by rw [e]; linarith, by rw [e]; linarith, b⟩, ?_, ?_, ?_⟩
        · rw [abs_of_neg (by linarith), abs_of_neg (by linarith)]; linarith
        · rw [min_eq_right (by linarith), min_eq_right (by linarith)]
        · rw [max_eq_left (by linarith), max_eq_left (by linarith)]; linarith
  · split at h
    · cases h
    · rename_i sp v1 hpr
      simp only [Except.ok.injEq, Prod.mk.injEq] at h
      obtain ⟨rfl, rfl⟩ := h
      have hext := gssProbe_ext I _ _ _ _ hpr
      simp only [] at hext
      show Gss.Ordered { sp.ext with f2 := sp.ext.f1, f1 := v1 } ∧ |sp.ext.x3 - sp.ext.x0| < _ ∧ _ ≤ min sp.ext.x0 sp.ext.x3 ∧ max sp.ext.x0 sp.ext.x3 ≤ _
      rw [hext]
      simp only [Gss.Ordered]
      rcases ho with ⟨a, b, c⟩ | ⟨a, b, c⟩
      · have e : goldR * s.ext.x1 + goldC * s.ext.x0 = s.ext.x1 - goldC * (s.ext.x1 - s.ext.x0) := by rw [hCe]; ring
        have p1 : 0 < goldC * (s.ext.x1 - s.ext.x0) := mul_pos hC0 (by linarith)
        have p2 : goldC * (s.ext.x1 - s.ext.x0) < s.ext.x1 - s.ext.x0 := by nlinarith
        refine ⟨Or.inl ⟨by rw [e]; linarith, by rw [e]; linarith, b⟩, ?_, ?_, ?_⟩
        · rw [abs_of_pos (by linarith), abs_of_pos (by linarith)]; linarith
        · rw [min_eq_left (by linarith), min_eq_left (by linarith)]
        · rw [max_eq_right (by linarith), max_eq_right (by linarith)]; linarith
      · have e : goldR * s.ext.x1 + goldC * s.ext.x0 = s.ext.x1 + goldC * (s.ext.x0 - s.ext.x1) := by rw [hCe]; ring
        have p1 : 0 < goldC * (s.ext.x0 - s.ext.x1) := mul_pos hC0 (by linarith)
        have p2 : goldC * (s.ext.x0 - s.ext.x1) < s.ext.x0 - s.ext.x1 := by nlinarith
        refine ⟨Or.inr ⟨b, by rw [e]; linarith, by rw [e]; linarith⟩, ?_, ?_, ?_⟩
        · rw [abs_of_neg (by linarith), abs_of_neg (by linarith)]; linarith
        · rw [min_eq_right (by linarith), min_eq_right (by linarith)]; linarith
        · rw [max_eq_left (by linarith), max_eq_left (by linarith)]

end Bpp.Optim
