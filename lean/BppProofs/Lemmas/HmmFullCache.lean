import BppModel.HmmFull
/-!
Helper lemmas for C13: the two caches of `FullHmmTransitionMatrix` (`pij_` with `upToDate_`, `eqFreq_`
with `eqFreqUpToDate_`) never matter — in every history of updates and queries each answer is the one
computed from the simplices alone.  Pure state-machine reasoning, generic in the scalar type (it also
holds for the `Float` instance the driver runs).
-/
namespace Bpp.Hmm
open Bpp

variable {α : Type} [Scalar α]

def FullTM.run (m : FullTM α) : List (FullOp α) → List (FullAns α)
  | [] => []
  | op :: ops => (m.step op).2 :: FullTM.run (m.step op).1 ops

/-- the same object with both caches declared stale -/
def FullTM.forget (m : FullTM α) : FullTM α := { m with upToDate := false, eqUpToDate := false }

/-- the reference: both caches are thrown away before every operation -/
def FullTM.runFresh (m : FullTM α) : List (FullOp α) → List (FullAns α)
  | [] => []
  | op :: ops => (m.forget.step op).2 :: FullTM.runFresh (m.forget.step op).1 ops

/-- a cache that claims to be up to date holds what would be recomputed -/
def FullTM.CacheOk (m : FullTM α) : Prop :=
  (m.upToDate = true → m.pij = fullMatrix m.rows)
  ∧ (m.eqUpToDate = true → fullEqOf m.n (fullMatrix m.rows) = some m.eq)

/-- two objects that differ in their caches only -/
def FullTM.Sim (m m' : FullTM α) : Prop :=
  m.n = m'.n ∧ m.rows = m'.rows ∧ m.CacheOk ∧ m'.CacheOk

theorem cacheOk_of_flags (m : FullTM α) (h1 : m.upToDate = false) (h2 : m.eqUpToDate = false) : m.CacheOk :=
  ⟨fun h => (by rw [h1] at h; cases h), fun h => (by rw [h2] at h; cases h)⟩

theorem FullTM.forget_sim (m : FullTM α) (h : m.CacheOk) : m.Sim m.forget :=
  ⟨rfl, rfl, h, cacheOk_of_flags _ rfl rfl⟩

theorem fire_params (s : Simplex.St α) : (Simplex.fire s).params = s.params := by
  unfold Simplex.fire
  split
  · rfl
  · split <;> rfl

/-- a simplex that `setFrequencies` leaves with "equal" parameters is left untouched altogether -/
theorem matchParams_cases (r r' : Simplex.St α) (θ : List α) (h : Simplex.matchParams r θ = .ok r') :
    r' = r ∨ (List.zip r.params r'.params).any (fun (c, v) => !(Scalar.eqb c v)) = true := by
  simp only [Simplex.matchParams] at h
  by_cases hall : θ.all (Simplex.inConstraint r.allowNull) = true
  · simp only [hall, if_true] at h
    by_cases hch : (List.zip r.params θ).any (fun (c, v) => !(Scalar.eqb c v)) = true
    · simp only [hch, if_true] at h
      right
      cases h
      rw [fire_params]
      exact hch
    · simp only [hch, Bool.false_eq_true, if_false] at h
      left; cases h; rfl
  · simp only [hall, Bool.false_eq_true, if_false] at h
    cases h

theorem setFrequencies_cases (r r' : Simplex.St α) (p : List α) (h : Simplex.setFrequencies r p = .ok r') :
    r' = r ∨ (List.zip r.params r'.params).any (fun (c, v) => !(Scalar.eqb c v)) = true := by
  unfold Simplex.setFrequencies at h
  split at h
  · left; cases h; rfl
  · split at h
    · cases h
    · split at h
      · cases h
      · exact matchParams_cases r r' _ h

theorem setRowsLoop_unchanged (rows rows' : List (Simplex.St α)) (mat : List (List α))
    (h : setRowsLoop rows mat = .ok rows') (hc : rowsChanged rows rows' = false) : rows' = rows := by
  induction rows generalizing rows' mat with
  | nil => simp only [setRowsLoop] at h; cases h; rfl
  | cons r rs ih =>
    cases mat with
    | nil => simp [setRowsLoop] at h
    | cons p ps =>
      simp only [setRowsLoop] at h
      cases h1 : Simplex.setFrequencies r p with
      | error e => simp [h1] at h
      | ok r1 =>
        cases h2 : setRowsLoop rs ps with
        | error e => simp [h1, h2] at h
        | ok rs1 =>
          simp only [h1, h2] at h
          cases h
          simp only [rowsChanged, List.zip_cons_cons, List.any_cons, Bool.or_eq_false_iff] at hc
          have hrs := ih rs1 ps h2 hc.2
          rcases setFrequencies_cases r r1 p h1 with h3 | h3
          · rw [h3, hrs]
          · rw [h3] at hc; exact absurd hc.1 (by simp)

theorem FullTM.getPij_spec (m : FullTM α) (h : m.CacheOk) :
    m.getPij.2 = fullMatrix m.rows ∧ m.getPij.1.CacheOk ∧ m.getPij.1.rows = m.rows ∧ m.getPij.1.n = m.n
      ∧ m.getPij.1.upToDate = true ∧ m.getPij.1.pij = fullMatrix m.rows := by
  unfold FullTM.getPij
  by_cases hu : m.upToDate = true
  · rw [if_pos hu]
    exact ⟨h.1 hu, h, rfl, rfl, hu, h.1 hu⟩
  · rw [if_neg hu]
    exact ⟨rfl, ⟨fun _ => rfl, h.2⟩, rfl, rfl, rfl, rfl⟩

theorem FullTM.getEq_spec (m : FullTM α) (h : m.CacheOk) :
    m.getEq.2 = fullEqOf m.n (fullMatrix m.rows) ∧ m.getEq.1.CacheOk ∧ m.getEq.1.rows = m.rows ∧ m.getEq.1.n = m.n := by
  unfold FullTM.getEq
  by_cases hu : m.eqUpToDate = true
  · rw [if_pos hu]
    exact ⟨(h.2 hu).symm, h, rfl, rfl⟩
  · rw [if_neg hu]
    obtain ⟨g1, g2, g3, g4, g5, g6⟩ := FullTM.getPij_spec m h
    rw [g1]
    cases he : fullEqOf m.n (fullMatrix m.rows) with
    | none => exact ⟨rfl, g2, g3, g4⟩
    | some e =>
      refine ⟨rfl, ⟨fun _ => ?_, fun _ => ?_⟩, g3, g4⟩
      · show m.getPij.1.pij = fullMatrix m.getPij.1.rows
        rw [g6, g3]
      · show fullEqOf m.getPij.1.n (fullMatrix m.getPij.1.rows) = some e
        rw [g4, g3]; exact he

theorem FullTM.fireOne_sim (m m' : FullTM α) (h : m.Sim m') (i k : Nat) (v : α) :
    (m.fireOne i k v).2 = (m'.fireOne i k v).2 ∧ (m.fireOne i k v).1.Sim (m'.fireOne i k v).1 := by
  obtain ⟨hn, hr, hc, hc'⟩ := h
  have hr' : m'.rows = m.rows := hr.symm
  cases hri : m.rows[i]? with
  | none =>
    have e1 : m.fireOne i k v = ({ m with upToDate := false, eqUpToDate := false }, none) := by
      simp only [FullTM.fireOne, hri]
    have e2 : m'.fireOne i k v = ({ m' with upToDate := false, eqUpToDate := false }, none) := by
      simp only [FullTM.fireOne, hr', hri]
    rw [e1, e2]
    exact ⟨rfl, hn, hr, cacheOk_of_flags _ rfl rfl, cacheOk_of_flags _ rfl rfl⟩
  | some r =>
    cases hm : simplexMatchOne r k v with
    | error e =>
      have e1 : m.fireOne i k v = (m, some (.ofSimplex e)) := by simp only [FullTM.fireOne, hri, hm]
      have e2 : m'.fireOne i k v = (m', some (.ofSimplex e)) := by simp only [FullTM.fireOne, hr', hri, hm]
      rw [e1, e2]; exact ⟨rfl, hn, hr, hc, hc'⟩
    | ok r' =>
      have e1 : m.fireOne i k v = ({ m with rows := m.rows.set i r', upToDate := false, eqUpToDate := false }, none) := by
        simp only [FullTM.fireOne, hri, hm]
      have e2 : m'.fireOne i k v = ({ m' with rows := m.rows.set i r', upToDate := false, eqUpToDate := false }, none) := by
        simp only [FullTM.fireOne, hr', hri, hm]
      rw [e1, e2]
      exact ⟨rfl, hn, rfl, cacheOk_of_flags _ rfl rfl, cacheOk_of_flags _ rfl rfl⟩

theorem FullTM.setRows_sim (m m' : FullTM α) (h : m.Sim m') (mat : List (List α)) :
    (m.setRows mat).2 = (m'.setRows mat).2 ∧ (m.setRows mat).1.Sim (m'.setRows mat).1 := by
  obtain ⟨hn, hr, hc, hc'⟩ := h
  have hr' : m'.rows = m.rows := hr.symm
  by_cases hl : mat.length ≠ m.rows.length
  · have e1 : m.setRows mat = (m, some .bpp) := by unfold FullTM.setRows; rw [if_pos hl]
    have e2 : m'.setRows mat = (m', some .bpp) := by unfold FullTM.setRows; rw [hr', if_pos hl]
    rw [e1, e2]; exact ⟨rfl, hn, hr, hc, hc'⟩
  · cases hloop : setRowsLoop m.rows mat with
    | error e =>
      have e1 : m.setRows mat = (m, some (.ofSimplex e)) := by unfold FullTM.setRows; rw [if_neg hl]; simp only [hloop]
      have e2 : m'.setRows mat = (m', some (.ofSimplex e)) := by unfold FullTM.setRows; rw [hr', if_neg hl]; simp only [hloop]
      rw [e1, e2]; exact ⟨rfl, hn, hr, hc, hc'⟩
    | ok rows' =>
      by_cases hch : rowsChanged m.rows rows' = true
      · have e1 : m.setRows mat = ({ m with rows := rows', upToDate := false, eqUpToDate := false }, none) := by
          unfold FullTM.setRows; rw [if_neg hl]; simp only [hloop, hch, if_true]
        have e2 : m'.setRows mat = ({ m' with rows := rows', upToDate := false, eqUpToDate := false }, none) := by
          unfold FullTM.setRows; rw [hr', if_neg hl]; simp only [hloop, hch, if_true]
        rw [e1, e2]
        exact ⟨rfl, hn, rfl, cacheOk_of_flags _ rfl rfl, cacheOk_of_flags _ rfl rfl⟩
      · have hch' : rowsChanged m.rows rows' = false := by simpa using hch
        have hsame := setRowsLoop_unchanged m.rows rows' mat hloop hch'
        have e1 : m.setRows mat = (m, none) := by
          unfold FullTM.setRows; rw [if_neg hl]; simp only [hloop, hch', Bool.false_eq_true, if_false]
          rw [hsame]
        have e2 : m'.setRows mat = (m', none) := by
          unfold FullTM.setRows; rw [hr', if_neg hl]; simp only [hloop, hch', Bool.false_eq_true, if_false]
          rw [hsame, ← hr']
        rw [e1, e2]; exact ⟨rfl, hn, hr, hc, hc'⟩

theorem FullTM.setTheta_sim (m m' : FullTM α) (h : m.Sim m') (i k : Nat) (v : α) :
    (m.setTheta i k v).2 = (m'.setTheta i k v).2 ∧ (m.setTheta i k v).1.Sim (m'.setTheta i k v).1 := by
  have h0 := h
  obtain ⟨hn, hr, hc, hc'⟩ := h
  have hr' : m'.rows = m.rows := hr.symm
  cases hri : m.rows[i]? with
  | none =>
    have e1 : m.setTheta i k v = (m, some .notfound) := by simp only [FullTM.setTheta, hri]
    have e2 : m'.setTheta i k v = (m', some .notfound) := by simp only [FullTM.setTheta, hr', hri]
    rw [e1, e2]; exact ⟨rfl, hn, hr, hc, hc'⟩
  | some r =>
    cases hk : r.params[k]? with
    | none =>
      have e1 : m.setTheta i k v = (m, some .notfound) := by simp only [FullTM.setTheta, hri, hk]
      have e2 : m'.setTheta i k v = (m', some .notfound) := by simp only [FullTM.setTheta, hr', hri, hk]
      rw [e1, e2]; exact ⟨rfl, hn, hr, hc, hc'⟩
    | some cur =>
      by_cases hg : Scalar.gtb (Scalar.abs (v - cur)) Scalar.zero = true
      · by_cases hcn : Simplex.inConstraint false v = true
        · have e1 : m.setTheta i k v = m.fireOne i k v := by simp only [FullTM.setTheta, hri, hk, hg, hcn, if_true]
          have e2 : m'.setTheta i k v = m'.fireOne i k v := by simp only [FullTM.setTheta, hr', hri, hk, hg, hcn, if_true]
          rw [e1, e2]; exact FullTM.fireOne_sim m m' h0 i k v
        · have e1 : m.setTheta i k v = (m, some .constraint) := by
            simp only [FullTM.setTheta, hri, hk, hg, hcn, if_true, Bool.false_eq_true, if_false]
          have e2 : m'.setTheta i k v = (m', some .constraint) := by
            simp only [FullTM.setTheta, hr', hri, hk, hg, hcn, if_true, Bool.false_eq_true, if_false]
          rw [e1, e2]; exact ⟨rfl, hn, hr, hc, hc'⟩
      · have e1 : m.setTheta i k v = m.fireOne i k cur := by
          simp only [FullTM.setTheta, hri, hk, hg, Bool.false_eq_true, if_false]
        have e2 : m'.setTheta i k v = m'.fireOne i k cur := by
          simp only [FullTM.setTheta, hr', hri, hk, hg, Bool.false_eq_true, if_false]
        rw [e1, e2]; exact FullTM.fireOne_sim m m' h0 i k cur

theorem FullTM.step_sim (m m' : FullTM α) (h : m.Sim m') (op : FullOp α) :
    (m.step op).2 = (m'.step op).2 ∧ (m.step op).1.Sim (m'.step op).1 := by
  have h0 := h
  obtain ⟨hn, hr, hc, hc'⟩ := h
  cases op with
  | setRows mat =>
    obtain ⟨f1, f2⟩ := FullTM.setRows_sim m m' h0 mat
    exact ⟨by simp only [FullTM.step]; rw [f1], f2⟩
  | setTheta i k v =>
    obtain ⟨f1, f2⟩ := FullTM.setTheta_sim m m' h0 i k v
    exact ⟨by simp only [FullTM.step]; rw [f1], f2⟩
  | getPij =>
    obtain ⟨a1, a2, a3, a4, _⟩ := FullTM.getPij_spec m hc
    obtain ⟨b1, b2, b3, b4, _⟩ := FullTM.getPij_spec m' hc'
    refine ⟨?_, ?_, ?_, a2, b2⟩
    · show FullAns.mat m.getPij.2 = FullAns.mat m'.getPij.2
      rw [a1, b1, hr]
    · show m.getPij.1.n = m'.getPij.1.n
      rw [a4, b4]; exact hn
    · show m.getPij.1.rows = m'.getPij.1.rows
      rw [a3, b3]; exact hr
  | entry i j =>
    refine ⟨?_, hn, hr, hc, hc'⟩
    show (match fullEntry m.rows i j with | some x => FullAns.val x | none => FullAns.err .ub)
       = (match fullEntry m'.rows i j with | some x => FullAns.val x | none => FullAns.err .ub)
    rw [hr]
  | getEq =>
    obtain ⟨a1, a2, a3, a4⟩ := FullTM.getEq_spec m hc
    obtain ⟨b1, b2, b3, b4⟩ := FullTM.getEq_spec m' hc'
    refine ⟨?_, ?_, ?_, a2, b2⟩
    · show (match m.getEq.2 with | some e => FullAns.vec e | none => FullAns.err .ub)
         = (match m'.getEq.2 with | some e => FullAns.vec e | none => FullAns.err .ub)
      rw [a1, b1, hr, hn]
    · show m.getEq.1.n = m'.getEq.1.n
      rw [a4, b4]; exact hn
    · show m.getEq.1.rows = m'.getEq.1.rows
      rw [a3, b3]; exact hr

theorem FullTM.run_sim (m m' : FullTM α) (h : m.Sim m') (ops : List (FullOp α)) : m.run ops = m'.run ops := by
  induction ops generalizing m m' with
  | nil => rfl
  | cons op ops ih =>
    obtain ⟨h1, h2⟩ := FullTM.step_sim m m' h op
    simp only [FullTM.run]
    rw [h1, ih _ _ h2]

theorem FullTM.step_cacheOk (m : FullTM α) (h : m.CacheOk) (op : FullOp α) : (m.step op).1.CacheOk :=
  (FullTM.step_sim m m ⟨rfl, rfl, h, h⟩ op).2.2.2.1

/-- the cached object answers every history like the object whose caches are discarded before each call -/
theorem FullTM.run_eq_runFresh (m : FullTM α) (h : m.CacheOk) (ops : List (FullOp α)) :
    m.run ops = m.runFresh ops := by
  induction ops generalizing m with
  | nil => rfl
  | cons op ops ih =>
    obtain ⟨h1, h2⟩ := FullTM.step_sim m m.forget (FullTM.forget_sim m h) op
    simp only [FullTM.run, FullTM.runFresh]
    rw [h1, FullTM.run_sim _ _ h2, ih _ h2.2.2.2]

/-- … and every query is answered from the simplices alone (`fullSpec`) -/
theorem FullTM.query_spec (m : FullTM α) (h : m.CacheOk) (op : FullOp α)
    (hq : op = .getPij ∨ (∃ i j, op = .entry i j) ∨ op = .getEq) :
    (m.step op).2 = fullSpec m.n m.rows op ∧ (m.step op).1.rows = m.rows := by
  rcases hq with rfl | ⟨i, j, rfl⟩ | rfl
  · obtain ⟨a1, _, a3, _⟩ := FullTM.getPij_spec m h
    refine ⟨?_, a3⟩
    show FullAns.mat m.getPij.2 = FullAns.mat (fullMatrix m.rows)
    rw [a1]
  · exact ⟨rfl, rfl⟩
  · obtain ⟨a1, _, a3, _⟩ := FullTM.getEq_spec m h
    refine ⟨?_, a3⟩
    show (match m.getEq.2 with | some e => FullAns.vec e | none => FullAns.err .ub)
       = (match fullEqOf m.n (fullMatrix m.rows) with | some e => FullAns.vec e | none => FullAns.err .ub)
    rw [a1]

theorem FullTM.build_cacheOk (n : Nat) (m : FullTM α) (h : FullTM.build n = some m) : m.CacheOk := by
  unfold FullTM.build at h
  split at h
  · cases h
  · cases h; exact cacheOk_of_flags _ rfl rfl

end Bpp.Hmm
