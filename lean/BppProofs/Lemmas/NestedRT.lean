import BppProofs.Lemmas.TokRT
/-! Helper lemmas for `Props/C17Nested.lean`: what the loops of the NestedStringTokenizer
constructor return (tokens, recorded separators), the bracket depth of every token. -/
namespace Bpp.Text.RT
open Bpp.Text Bpp.Text.U

/-! ### bracket counting -/

theorem depth_append (o c : Char) (a b : Str) : depth o c (a ++ b) = depth o c a + depth o c b := by
  induction a with
  | nil => simp [depth]
  | cons x a ih => simp [depth, ih]; omega

theorem noTopDelim_append (d : Str) (o c : Char) (dep : Int) (a b : Str) :
    noTopDelim d o c dep (a ++ b) = (noTopDelim d o c dep a && noTopDelim d o c (dep + depth o c a) b) := by
  induction a generalizing dep with
  | nil => simp [noTopDelim, depth]
  | cons x a ih =>
    simp only [List.cons_append, noTopDelim, depth, ih, Bool.and_assoc]
    congr 3; omega

/-- a text without delimiter has no delimiter at depth 0 -/
theorem noTopDelim_free (d : Str) (o c : Char) (dep : Int) (p : Str) (h : ∀ x ∈ p, inSet d x = false) :
    noTopDelim d o c dep p = true := by
  induction p generalizing dep with
  | nil => rfl
  | cons x p ih =>
    have hx := h x (by simp)
    simp [noTopDelim, hx, ih _ (fun y hy => h y (by simp [hy]))]

/-- a delimiter is not a bracket -/
theorem delta_delim {d : Str} {o c x : Char} (ho : d.contains o = false) (hc : d.contains c = false)
    (hx : inSet d x = true) : delta o c x = 0 := by
  have h1 : (x == o) = false := by
    cases h : x == o with
    | false => rfl
    | true =>
      have : x = o := by simpa using h
      subst this; simp only [inSet] at hx; rw [hx] at ho; cases ho
  have h2 : (x == c) = false := by
    cases h : x == c with
    | false => rfl
    | true =>
      have : x = c := by simpa using h
      subst this; simp only [inSet] at hx; rw [hx] at hc; cases hc
  simp [delta, h1, h2]

/-- `TextTools::count(token, "(") - count(token, ")")` is the bracket depth -/
theorem count_single (o c : Char) (t : Str) :
    ((count t [o] : Nat) : Int) - ((count t [c] : Nat) : Int) = depth o c t := by
  unfold count
  induction t with
  | nil => simp [countSub, depth]
  | cons x t ih =>
    have e1 : isPrefix [o] (x :: t) = (o == x) := by simp [isPrefix]
    have e2 : isPrefix [c] (x :: t) = (c == x) := by simp [isPrefix]
    simp only [countSub, e1, e2, depth, delta]
    have f1 : (o == x) = (x == o) := by
      cases h : x == o <;> cases h' : o == x <;> simp_all
    have f2 : (c == x) = (x == c) := by
      cases h : x == c <;> cases h' : c == x <;> simp_all
    rw [f1, f2]
    cases x == o <;> cases x == c <;> simp <;> omega

theorem blocksUpd_eq {blocks b' : Int} {token op en : Str} (h : blocksUpd blocks token op en = .ok b') :
    b' = blocks + ((count token op : Nat) : Int) - ((count token en : Nat) : Int) := by
  unfold blocksUpd intRes at h
  split at h
  · simp only [Except.ok.injEq] at h; exact h.symm
  · cases h

theorem blocksUpd_nil {blocks b' : Int} {op en : Str} (h : blocksUpd blocks [] op en = .ok b') : b' = blocks := by
  have := blocksUpd_eq h
  simp only [count, countSub] at this
  omega

/-! ### the non-solid loop (NestedStringTokenizer.cpp:22-66) -/

/-- what the non-solid loop returns when it returns -/
structure NestPost (s d : Str) (solid : Bool) (index : Nat) (cache : Str) (ts ss : List Str) : Prop where
  join : interleave ts ss = cache ++ s.drop index
  seps : ∀ sp ∈ ss, if solid then sp = d else sp ≠ [] ∧ ∀ c ∈ sp, inSet d c = true
  count : ts.length = ss.length + 1 ∨ (solid = false ∧ ts.length = ss.length)
  ne : ts ≠ []
  ends : solid = false → ∀ t ∈ ts, ∃ X x, t = X ++ [x] ∧ inSet d x = false

theorem nestNs_rt (s op en d : Str) (hs : StrOk s) (fuel index : Nat) (blocks : Int) (cache : Str)
    (hi : index ≤ s.length) (hpre : blocks = 0 → ∃ c, s[index]? = some c ∧ inSet d c = false)
    (ts ss : List Str)
    (h : nestNs s op en d fuel index (findFirstOf d s index) blocks cache = .ok (ts, ss)) :
    NestPost s d false index cache ts ss := by
  have hsz := hs.lt_SZ
  induction fuel generalizing index blocks cache ts ss with
  | zero => cases h0 : findFirstOf d s index <;> simp [nestNs] at h
  | succ fuel ih =>
    cases h0 : findFirstOf d s index with
    | none =>
      rw [h0] at h
      unfold nestNs at h
      simp only [substrFrom_ok hi, bind_ok] at h
      obtain ⟨b', eb, h⟩ := bind_eq_ok h
      by_cases hz : (b' == 0) = true
      · simp only [hz, if_true, pure_eq_ok, Except.ok.injEq, Prod.mk.injEq] at h
        obtain ⟨rfl, rfl⟩ := h
        have hb0 : b' = 0 := by simpa using hz
        have hfree : ∀ x ∈ s.drop index, inSet d x = false := findIdxFrom_none_all h0
        -- the last piece is not empty
        have hne : s.drop index ≠ [] := by
          intro e
          rw [e] at eb
          have := blocksUpd_nil eb
          obtain ⟨c, hc, _⟩ := hpre (by omega)
          have : index < s.length := (List.getElem?_eq_some_iff.mp hc).1
          have hl := congrArg List.length e
          simp only [List.length_drop, List.length_nil] at hl
          omega
        refine ⟨by simp [interleave], by simp, by simp, by simp, ?_⟩
        intro _ t ht
        simp only [List.mem_singleton] at ht; subst ht
        obtain ⟨X, x, hx, hxm⟩ := exists_snoc _ hne
        exact ⟨cache ++ X, x, by rw [hx]; simp, hfree x hxm⟩
      · simp [hz] at h
    | some n =>
      rw [h0] at h
      have hb := findFirstOf_bounds h0
      have hn : n ≤ s.length := by omega
      have hw : wsub n index = n - index := wsub_eq hb.1 (by omega)
      have hw1 : wadd n 1 = n + 1 := wadd_eq (by omega)
      have hw2 : wadd (n - index) 1 = n - index + 1 := wadd_eq (by omega)
      obtain ⟨cn, hcn, hcn'⟩ := findIdxFrom_spec h0
      have htok : ∀ x ∈ (s.drop index).take (n - index), inSet d x = false := findIdxFrom_take_all h0
      unfold nestNs at h
      simp only [substr_ok _ hi, bind_ok, hw, hw1, hw2] at h
      obtain ⟨b', eb, h⟩ := bind_eq_ok h
      by_cases hz : (b' == 0) = true
      · simp only [hz, if_true, substr_ok _ hn, bind_ok] at h
        have hb0 : b' = 0 := by simpa using hz
        -- the piece that closes the token is not empty
        have hne : (s.drop index).take (n - index) ≠ [] := by
          intro e
          rw [e] at eb
          have := blocksUpd_nil eb
          obtain ⟨c, hc, hc'⟩ := hpre (by omega)
          have hl := congrArg List.length e
          simp only [List.length_take, List.length_drop, List.length_nil] at hl
          have : n = index := by omega
          subst this
          rw [hcn] at hc; cases hc
          simp only [inSet] at hc'
          rw [hc'] at hcn'; cases hcn'
        have hend : ∃ X x, cache ++ (s.drop index).take (n - index) = X ++ [x] ∧ inSet d x = false := by
          obtain ⟨X, x, hx, hxm⟩ := exists_snoc _ hne
          exact ⟨cache ++ X, x, by rw [hx]; simp, htok x hxm⟩
        cases h' : findFirstNotOf d s n with
        | none =>
          rw [h'] at h
          have hall : ∀ x ∈ s.drop n, inSet d x = true := by
            intro x hx
            have := findIdxFrom_none_all h' x hx
            simpa [inSet] using this
          have hw3 : (s.drop n).take (wsub (toSz none) n) = s.drop n := by
            apply List.take_of_length_le
            have : wsub npos n = npos - n := wsub_eq (by unfold npos; unfold SZ at hsz; omega) (by decide)
            simp only [toSz, this, List.length_drop]
            unfold npos; unfold SZ at hsz; omega
          simp only [hw3, pure_eq_ok, Except.ok.injEq, Prod.mk.injEq] at h
          obtain ⟨rfl, rfl⟩ := h
          refine ⟨?_, ?_, by simp, by simp, ?_⟩
          · simp only [interleave, List.append_nil, List.append_assoc]
            rw [take_sub_append_drop s hb.1]
          · intro sp hsp
            simp only [List.mem_singleton] at hsp; subst hsp
            simp only [Bool.false_eq_true, if_false]
            refine ⟨?_, hall⟩
            rw [drop_eq_cons_of_getElem? hcn]; simp
          · intro _ t ht
            simp only [List.mem_singleton] at ht; subst ht
            exact hend
        | some i =>
          rw [h'] at h
          have hb' := findFirstNotOf_bounds h'
          have hgt := findFirstNotOf_gt h0 h'
          have hw3 : wsub (toSz (some i)) n = i - n := by
            simp only [toSz]; exact wsub_eq (by omega) (by omega)
          obtain ⟨ci, hci, hci'⟩ := findIdxFrom_spec h'
          have hci'' : inSet d ci = false := by simpa [inSet] using hci'
          simp only [hw3] at h
          obtain ⟨⟨ts', ss'⟩, er, h⟩ := bind_eq_ok h
          simp only [pure_eq_ok, Except.ok.injEq, Prod.mk.injEq] at h
          obtain ⟨rfl, rfl⟩ := h
          have post := ih i 0 [] (by omega) (fun _ => ⟨ci, hci, hci''⟩) ts' ss' er
          refine ⟨?_, ?_, ?_, by simp, ?_⟩
          · simp only [interleave, post.join, List.nil_append, List.append_assoc]
            rw [take_sub_append_drop s (show n ≤ i by omega), take_sub_append_drop s hb.1]
          · intro sp hsp
            rcases List.mem_cons.mp hsp with rfl | hsp
            · simp only [Bool.false_eq_true, if_false]
              refine ⟨?_, ?_⟩
              · intro e0
                have := congrArg List.length e0
                simp only [List.length_take, List.length_drop, List.length_nil] at this
                omega
              · intro x hx
                have := findIdxFrom_take_all h' x hx
                simpa [inSet] using this
            · exact post.seps sp hsp
          · rcases post.count with h1 | ⟨_, h1⟩
            · left; simp [h1]
            · right; simp [h1]
          · intro _ t ht
            rcases List.mem_cons.mp ht with rfl | ht
            · exact hend
            · exact post.ends rfl t ht
      · simp only [hz, Bool.false_eq_true, if_false] at h
        have hb0 : b' ≠ 0 := by simpa using hz
        have post := ih (n + 1) b' (cache ++ (s.drop index).take (n - index + 1)) (by omega)
          (fun e => absurd e hb0) ts ss h
        refine ⟨?_, post.seps, post.count, post.ne, post.ends⟩
        rw [post.join, List.append_assoc]
        congr 1
        have : n - index + 1 = n + 1 - index := by omega
        rw [this]
        exact take_sub_append_drop s (show index ≤ n + 1 by omega)


/-! ### the solid loop (:70-114) -/

open Bpp.Text.Glob in
theorem findFrom_found {d s : Str} {index n : Nat} (h : findFrom d s index = some n) :
    (s.drop n).take d.length = d := by
  unfold findFrom at h
  split at h
  · cases h' : find d (s.drop index) with
    | none => simp [h'] at h
    | some j =>
      simp only [h', Option.map_some, Option.some.injEq] at h
      subst h
      obtain ⟨hp, _, _⟩ := find_some h'
      have := isPrefix_take hp
      rwa [List.drop_drop, Nat.add_comm] at this
  · cases h

theorem take_succ_of_getElem? {s : Str} {index n : Nat} {cn : Char} (hle : index ≤ n) (hcn : s[n]? = some cn) :
    (s.drop index).take (n - index + 1) = (s.drop index).take (n - index) ++ [cn] := by
  rw [List.take_add, List.drop_drop]
  have : index + (n - index) = n := by omega
  rw [this, drop_eq_cons_of_getElem? hcn]
  rfl

theorem nestSolid_rt (s op en d : Str) (hd : d ≠ []) (hs : StrOk s) (fuel index : Nat) (blocks : Int)
    (cache : Str) (hi : index ≤ s.length) (ts ss : List Str)
    (h : nestSolid s op en d fuel index (findFrom d s index) blocks cache = .ok (ts, ss)) :
    NestPost s d true index cache ts ss := by
  have hsz := hs.lt_SZ
  have hdl : 0 < d.length := List.length_pos_iff.mpr hd
  induction fuel generalizing index blocks cache ts ss with
  | zero => cases h0 : findFrom d s index <;> simp [nestSolid] at h
  | succ fuel ih =>
    cases h0 : findFrom d s index with
    | none =>
      rw [h0] at h
      unfold nestSolid at h
      simp only [substrFrom_ok hi, bind_ok] at h
      obtain ⟨b', eb, h⟩ := bind_eq_ok h
      by_cases hz : (b' == 0) = true
      · simp only [hz, if_true, pure_eq_ok, Except.ok.injEq, Prod.mk.injEq] at h
        obtain ⟨rfl, rfl⟩ := h
        exact ⟨by simp [interleave], by simp, by simp, by simp, by intro h; cases h⟩
      · simp [hz] at h
    | some n =>
      rw [h0] at h
      have hb := findFrom_bounds h0
      have hn : n ≤ s.length := by omega
      have hw : wsub n index = n - index := wsub_eq hb.1 (by omega)
      have hw1 : wadd n 1 = n + 1 := wadd_eq (by omega)
      have hw2 : wadd (n - index) 1 = n - index + 1 := wadd_eq (by omega)
      have hw3 : wadd n d.length = n + d.length := wadd_eq (by omega)
      have hfound := findFrom_found h0
      unfold nestSolid at h
      simp only [substr_ok _ hi, bind_ok, hw, hw1, hw2, hw3] at h
      obtain ⟨b', eb, h⟩ := bind_eq_ok h
      by_cases hz : (b' == 0) = true
      · simp only [hz, if_true] at h
        obtain ⟨⟨ts', ss'⟩, er, h⟩ := bind_eq_ok h
        simp only [pure_eq_ok, Except.ok.injEq, Prod.mk.injEq] at h
        obtain ⟨rfl, rfl⟩ := h
        have post := ih (n + d.length) 0 [] hb.2 ts' ss' er
        refine ⟨?_, ?_, ?_, by simp, by intro h; cases h⟩
        · simp only [interleave, post.join, List.nil_append, List.append_assoc]
          have h1 := take_sub_append_drop s (show n ≤ n + d.length by omega)
          simp only [Nat.add_sub_cancel_left, hfound] at h1
          rw [h1, take_sub_append_drop s hb.1]
        · intro sp hsp
          rcases List.mem_cons.mp hsp with rfl | hsp
          · simp
          · exact post.seps sp hsp
        · rcases post.count with h1 | ⟨h1, _⟩
          · left; simp [h1]
          · cases h1
      · simp only [hz, Bool.false_eq_true, if_false] at h
        have post := ih (n + 1) b' (cache ++ (s.drop index).take (n - index + 1)) (by omega) ts ss h
        refine ⟨?_, post.seps, post.count, post.ne, post.ends⟩
        rw [post.join, List.append_assoc]
        congr 1
        have : n - index + 1 = n + 1 - index := by omega
        rw [this]
        exact take_sub_append_drop s (show index ≤ n + 1 by omega)

/-! ### bracket depth of the tokens (single-character brackets that are not delimiters) -/

theorem nestNs_depth (s d : Str) (o c : Char) (ho : d.contains o = false) (hc : d.contains c = false)
    (hs : StrOk s) (fuel index : Nat) (blocks : Int) (cache : Str) (hi : index ≤ s.length)
    (hb : blocks = depth o c cache) (hcache : noTopDelim d o c 0 cache = true) (ts ss : List Str)
    (h : nestNs s [o] [c] d fuel index (findFirstOf d s index) blocks cache = .ok (ts, ss)) :
    ∀ t ∈ ts, depth o c t = 0 ∧ noTopDelim d o c 0 t = true := by
  have hsz := hs.lt_SZ
  induction fuel generalizing index blocks cache ts ss with
  | zero => cases h0 : findFirstOf d s index <;> simp [nestNs] at h
  | succ fuel ih =>
    cases h0 : findFirstOf d s index with
    | none =>
      rw [h0] at h
      unfold nestNs at h
      simp only [substrFrom_ok hi, bind_ok] at h
      obtain ⟨b', eb, h⟩ := bind_eq_ok h
      by_cases hz : (b' == 0) = true
      · simp only [hz, if_true, pure_eq_ok, Except.ok.injEq, Prod.mk.injEq] at h
        obtain ⟨rfl, rfl⟩ := h
        have hb0 : b' = 0 := by simpa using hz
        have hfree : ∀ x ∈ s.drop index, inSet d x = false := findIdxFrom_none_all h0
        have e := blocksUpd_eq eb
        have e' := count_single o c (s.drop index)
        intro t ht
        simp only [List.mem_singleton] at ht; subst ht
        refine ⟨by rw [depth_append]; omega, ?_⟩
        rw [noTopDelim_append, hcache, noTopDelim_free d o c _ _ hfree]; rfl
      · simp [hz] at h
    | some n =>
      rw [h0] at h
      have hbd := findFirstOf_bounds h0
      have hn : n ≤ s.length := by omega
      have hw : wsub n index = n - index := wsub_eq hbd.1 (by omega)
      have hw1 : wadd n 1 = n + 1 := wadd_eq (by omega)
      have hw2 : wadd (n - index) 1 = n - index + 1 := wadd_eq (by omega)
      obtain ⟨cn, hcn, hcn'⟩ := findIdxFrom_spec h0
      have htok : ∀ x ∈ (s.drop index).take (n - index), inSet d x = false := findIdxFrom_take_all h0
      unfold nestNs at h
      simp only [substr_ok _ hi, bind_ok, hw, hw1, hw2] at h
      obtain ⟨b', eb, h⟩ := bind_eq_ok h
      have e := blocksUpd_eq eb
      have e' := count_single o c ((s.drop index).take (n - index))
      by_cases hz : (b' == 0) = true
      · simp only [hz, if_true, substr_ok _ hn, bind_ok] at h
        have hb0 : b' = 0 := by simpa using hz
        have hfirst : depth o c (cache ++ (s.drop index).take (n - index)) = 0 ∧
            noTopDelim d o c 0 (cache ++ (s.drop index).take (n - index)) = true := by
          refine ⟨by rw [depth_append]; omega, ?_⟩
          rw [noTopDelim_append, hcache, noTopDelim_free d o c _ _ htok]; rfl
        cases h' : findFirstNotOf d s n with
        | none =>
          rw [h'] at h
          simp only [pure_eq_ok, Except.ok.injEq, Prod.mk.injEq] at h
          obtain ⟨rfl, _⟩ := h
          intro t ht
          simp only [List.mem_singleton] at ht; subst ht
          exact hfirst
        | some i =>
          rw [h'] at h
          have hb' := findFirstNotOf_bounds h'
          obtain ⟨⟨ts', ss'⟩, er, h⟩ := bind_eq_ok h
          simp only [pure_eq_ok, Except.ok.injEq, Prod.mk.injEq] at h
          obtain ⟨rfl, _⟩ := h
          have hrec := ih i 0 [] (by omega) (by simp [depth]) (by simp [noTopDelim]) ts' ss' er
          intro t ht
          rcases List.mem_cons.mp ht with rfl | ht
          · exact hfirst
          · exact hrec t ht
      · simp only [hz, Bool.false_eq_true, if_false] at h
        have hb0 : b' ≠ 0 := by simpa using hz
        have hcn'' : inSet d cn = true := hcn'
        have hdelta := delta_delim ho hc hcn''
        rw [take_succ_of_getElem? hbd.1 hcn, ← List.append_assoc] at h
        refine ih (n + 1) b' _ (by omega) ?_ ?_ ts ss h
        · rw [depth_append, depth_append]
          simp only [depth, hdelta]; omega
        · rw [noTopDelim_append, noTopDelim_append, hcache, noTopDelim_free d o c _ _ htok]
          simp only [noTopDelim, Bool.true_and, Bool.and_true, hcn'', Bool.not_true, Bool.false_or,
            Int.zero_add, bne_iff_ne, ne_eq]
          rw [depth_append]; omega

theorem nestSolid_depth (s d : Str) (o c : Char) (ho : d.contains o = false) (hc : d.contains c = false)
    (hd : d ≠ []) (hs : StrOk s) (fuel index : Nat) (blocks : Int) (cache : Str) (hi : index ≤ s.length)
    (hb : blocks = depth o c cache) (ts ss : List Str)
    (h : nestSolid s [o] [c] d fuel index (findFrom d s index) blocks cache = .ok (ts, ss)) :
    ∀ t ∈ ts, depth o c t = 0 := by
  have hsz := hs.lt_SZ
  have hdl : 0 < d.length := List.length_pos_iff.mpr hd
  induction fuel generalizing index blocks cache ts ss with
  | zero => cases h0 : findFrom d s index <;> simp [nestSolid] at h
  | succ fuel ih =>
    cases h0 : findFrom d s index with
    | none =>
      rw [h0] at h
      unfold nestSolid at h
      simp only [substrFrom_ok hi, bind_ok] at h
      obtain ⟨b', eb, h⟩ := bind_eq_ok h
      by_cases hz : (b' == 0) = true
      · simp only [hz, if_true, pure_eq_ok, Except.ok.injEq, Prod.mk.injEq] at h
        obtain ⟨rfl, rfl⟩ := h
        have hb0 : b' = 0 := by simpa using hz
        have e := blocksUpd_eq eb
        have e' := count_single o c (s.drop index)
        intro t ht
        simp only [List.mem_singleton] at ht; subst ht
        rw [depth_append]; omega
      · simp [hz] at h
    | some n =>
      rw [h0] at h
      have hbd := findFrom_bounds h0
      have hn : n ≤ s.length := by omega
      have hw : wsub n index = n - index := wsub_eq hbd.1 (by omega)
      have hw1 : wadd n 1 = n + 1 := wadd_eq (by omega)
      have hw2 : wadd (n - index) 1 = n - index + 1 := wadd_eq (by omega)
      have hw3 : wadd n d.length = n + d.length := wadd_eq (by omega)
      have hfound := findFrom_found h0
      unfold nestSolid at h
      simp only [substr_ok _ hi, bind_ok, hw, hw1, hw2, hw3] at h
      obtain ⟨b', eb, h⟩ := bind_eq_ok h
      have e := blocksUpd_eq eb
      have e' := count_single o c ((s.drop index).take (n - index))
      by_cases hz : (b' == 0) = true
      · simp only [hz, if_true] at h
        have hb0 : b' = 0 := by simpa using hz
        obtain ⟨⟨ts', ss'⟩, er, h⟩ := bind_eq_ok h
        simp only [pure_eq_ok, Except.ok.injEq, Prod.mk.injEq] at h
        obtain ⟨rfl, _⟩ := h
        have hrec := ih (n + d.length) 0 [] hbd.2 (by simp [depth]) ts' ss' er
        intro t ht
        rcases List.mem_cons.mp ht with rfl | ht
        · rw [depth_append]; omega
        · exact hrec t ht
      · simp only [hz, Bool.false_eq_true, if_false] at h
        -- the character at `n` is the first character of the delimiter: not a bracket
        obtain ⟨d0, dr, hd0⟩ : ∃ d0 dr, d = d0 :: dr := by
          cases d with
          | nil => exact absurd rfl hd
          | cons a r => exact ⟨a, r, rfl⟩
        have hcn : s[n]? = some d0 := by
          have hl : n < s.length := by omega
          have h1 := hfound
          rw [List.drop_eq_getElem_cons hl, hd0] at h1
          simp only [List.length_cons, List.take_succ_cons, List.cons.injEq] at h1
          rw [List.getElem?_eq_getElem hl, h1.1]
        have hin : inSet d d0 = true := by simp [inSet, hd0]
        have hdelta := delta_delim ho hc hin
        rw [take_succ_of_getElem? hbd.1 hcn, ← List.append_assoc] at h
        refine ih (n + 1) b' _ (by omega) ?_ ts ss h
        rw [depth_append, depth_append]
        simp only [depth, hdelta]; omega


/-! ### the constructor -/

/-- **the round-trip law of the NestedStringTokenizer constructor**, any bracket strings, both modes -/
theorem mkNested_rt (s op en d : Str) (solid : Bool) (hs : StrOk s) (T : Tokenizer)
    (h : mkNested s op en d solid = .ok T) (hwf : T.WF) :
    ∃ u, T.unparseRemainingTokens = .ok u ∧ nestedRtOk s d solid T.tokens T.splits u = true := by
  have hsz := hs.lt_SZ
  unfold mkNested mkNestedG at h
  cases solid with
  | false =>
    simp only [Bool.not_false, if_true] at h
    cases hf0 : findFirstNotOf d s 0 with
    | none =>
      rw [hf0] at h
      simp only [Except.ok.injEq] at h
      subst h
      rw [findFirstNotOf_zero] at hf0
      obtain ⟨h1, h2⟩ := dropWhile_of_findIdx_none hf0
      refine ⟨[], rfl, ?_⟩
      simp [nestedRtOk, unparseSpec, stripSet, dropLastSet, h1, h2, interleave]
    | some index =>
      rw [hf0] at h
      have hf := hf0
      rw [findFirstNotOf_zero] at hf
      obtain ⟨h1, h2⟩ := dropWhile_of_findIdx hf
      have hidx : index < s.length := findIdx_lt hf
      obtain ⟨ci, hci, hci'⟩ := findIdx_spec hf
      have hci'' : inSet d ci = false := by simpa using hci'
      obtain ⟨⟨ts, ss⟩, e, h⟩ := bind_eq_ok h
      simp only [pure_eq_ok, Except.ok.injEq] at h
      subst h
      have post := nestNs_rt s op en d hs (loopFuel s) index 0 [] (by omega) (fun _ => ⟨ci, hci, hci''⟩) ts ss e
      have hjoin : interleave ts ss = s.drop index := by simpa using post.join
      have hu := unparse_fresh ts ss post.ne hwf
      refine ⟨_, hu, ?_⟩
      have hj := interleave_eq_unparse ts ss post.ne
      rw [hjoin] at hj
      have hl : 0 < ts.length := List.length_pos_iff.mpr post.ne
      have hlastend : ∃ X x, consumed (ts.length - 1) ts ss ++ ts.getLast post.ne = X ++ [x] ∧ inSet d x = false := by
        obtain ⟨X, x, hx, hxd⟩ := post.ends rfl _ (List.getLast_mem post.ne)
        exact ⟨consumed (ts.length - 1) ts ss ++ X, x, by rw [hx]; simp, hxd⟩
      have hspec : consumed (ts.length - 1) ts ss ++ ts.getLast post.ne = unparseSpec d false false s := by
        simp only [unparseSpec, Bool.false_eq_true, if_false, stripSet, h1, hj]
        rcases post.count with hc | ⟨_, hc⟩
        · have hd : ss.drop (ts.length - 1) = [] := by
            apply List.drop_of_length_le; omega
          rw [hd]
          simp only [List.append_nil]
          exact (dropLastSet_self d _ (Or.inr hlastend)).symm
        · have hlt : ts.length - 1 < ss.length := by omega
          rw [List.drop_eq_getElem_cons hlt]
          simp only
          symm
          apply dropLastSet_append_tail _ _ _ _ (Or.inr hlastend)
          have := post.seps _ (List.getElem_mem hlt)
          simp only [Bool.false_eq_true, if_false] at this
          exact this.2
      simp only [nestedRtOk, Bool.false_eq_true, if_false, Bool.and_eq_true, beq_iff_eq, Bool.not_false,
        Bool.true_and, Bool.or_eq_true, List.all_eq_true, Bool.false_or, Bool.not_eq_true']
      refine ⟨⟨⟨⟨?_, hspec⟩, ?_⟩, ?_⟩, ?_⟩
      · rw [h2, hjoin, List.take_append_drop]
      · rcases post.count with hc | ⟨_, hc⟩
        · left; exact hc
        · right; exact hc
      · intro sp hsp
        have := post.seps sp hsp
        simp only [Bool.false_eq_true, if_false] at this
        refine ⟨?_, this.2⟩
        cases sp with
        | nil => exact absurd rfl this.1
        | cons _ _ => rfl
      · intro t ht
        obtain ⟨X, x, hx, _⟩ := post.ends rfl t ht
        rw [hx]
        cases X <;> rfl
  | true =>
    simp only [Bool.not_true, Bool.false_eq_true, if_false, Bool.true_and] at h
    by_cases hd : d.isEmpty = true
    · simp [hd] at h
    · have hd' : d ≠ [] := by
        intro e0; rw [e0] at hd; simp at hd
      simp only [hd, Bool.false_eq_true, if_false] at h
      obtain ⟨⟨ts, ss⟩, e, h⟩ := bind_eq_ok h
      simp only [pure_eq_ok, Except.ok.injEq] at h
      subst h
      have post := nestSolid_rt s op en d hd' hs (loopFuel s) 0 0 [] (Nat.zero_le _) ts ss e
      have hjoin : interleave ts ss = s := by simpa using post.join
      have hcount : ts.length = ss.length + 1 := by
        rcases post.count with hc | ⟨hc, _⟩
        · exact hc
        · cases hc
      have hu := unparse_fresh ts ss post.ne hwf
      refine ⟨_, hu, ?_⟩
      have hj := interleave_eq_unparse ts ss post.ne
      rw [hjoin] at hj
      have hdr : ss.drop (ts.length - 1) = [] := by
        apply List.drop_of_length_le; omega
      rw [hdr] at hj
      simp only [List.append_nil] at hj
      simp only [nestedRtOk, if_true, Bool.and_eq_true, beq_iff_eq, Bool.or_eq_true, List.all_eq_true,
        List.nil_append, Bool.true_or, and_true]
      refine ⟨⟨⟨hjoin, ?_⟩, ?_⟩, ?_⟩
      · simp [unparseSpec, hj]
      · left; exact hcount
      · intro sp hsp
        have := post.seps sp hsp
        simpa using this

/-- every token is balanced (and, in non-solid mode, cut at every delimiter of depth 0) -/
theorem mkNested_depth (s d : Str) (o c : Char) (solid : Bool) (ho : d.contains o = false)
    (hc : d.contains c = false) (hs : StrOk s) (T : Tokenizer)
    (h : mkNested s [o] [c] d solid = .ok T) : nestedDepthOk d o c solid T.tokens = true := by
  unfold mkNested mkNestedG at h
  simp only [nestedDepthOk, List.all_eq_true, Bool.and_eq_true, beq_iff_eq, Bool.or_eq_true]
  cases solid with
  | false =>
    simp only [Bool.not_false, if_true] at h
    cases hf0 : findFirstNotOf d s 0 with
    | none =>
      rw [hf0] at h
      simp only [Except.ok.injEq] at h
      subst h
      simp
    | some index =>
      rw [hf0] at h
      have hb := findFirstNotOf_bounds hf0
      obtain ⟨⟨ts, ss⟩, e, h⟩ := bind_eq_ok h
      simp only [pure_eq_ok, Except.ok.injEq] at h
      subst h
      have := nestNs_depth s d o c ho hc hs (loopFuel s) index 0 [] (by omega) (by simp [depth])
        (by simp [noTopDelim]) ts ss e
      intro t ht
      exact ⟨(this t ht).1, Or.inr (this t ht).2⟩
  | true =>
    simp only [Bool.not_true, Bool.false_eq_true, if_false, Bool.true_and] at h
    by_cases hd : d.isEmpty = true
    · simp [hd] at h
    · have hd' : d ≠ [] := by
        intro e0; rw [e0] at hd; simp at hd
      simp only [hd, Bool.false_eq_true, if_false] at h
      obtain ⟨⟨ts, ss⟩, e, h⟩ := bind_eq_ok h
      simp only [pure_eq_ok, Except.ok.injEq] at h
      subst h
      have := nestSolid_depth s d o c ho hc hd' hs (loopFuel s) 0 0 [] (Nat.zero_le _) (by simp [depth]) ts ss e
      intro t ht
      exact ⟨this t ht, Or.inl rfl⟩


theorem strOk_of_int {s : Str} (hs : s.length < 2147483648) : StrOk s := by
  unfold StrOk maxStr; omega

end Bpp.Text.RT
