import BppModel.Transform
import BppProofs.Lemmas.ScalarReal
import Mathlib.Analysis.SpecialFunctions.Artanh
import Mathlib.Analysis.SpecialFunctions.Trigonometric.ArctanDeriv
import Mathlib.Analysis.SpecialFunctions.Trigonometric.DerivHyp
import Mathlib.Analysis.Real.Pi.Bounds
/-!
Helper lemmas for C11: the `Scalar`-generic model of TransformedParameter.h read at `ℝ`.
-/
namespace Bpp.Transform
open Bpp Bpp.Scalar Bpp.ScalarReal

@[simp] theorem two_real : (two : ℝ) = 2 := by simp [two]

/-- over the reals `Parameter::setValue` (no constraint, precision 0) stores the value -/
@[simp] theorem paramSet_real (cur v : ℝ) : paramSet cur v = v := by
  unfold paramSet
  split
  · rfl
  · rename_i h
    simp at h
    linarith

@[simp] theorem sq_real (e : ℝ) : sq e = e ^ 2 := by simp [sq, pow_two]


/-! ### RTransformedParameter over ℝ -/
namespace RT

/-- the transformed coordinate `setOriginalValue` computes -/
noncomputable def fwdR (t : RT ℝ) (v : ℝ) : ℝ :=
  if t.positive then
    (if v < 1 + t.bound then Real.log (t.scale * (v - t.bound)) else t.scale * (v - 1 - t.bound))
  else
    (if -1 + t.bound < v then Real.log (-t.scale * (v - t.bound)) else -t.scale * (v + 1 - t.bound))

theorem setOriginal_real (t : RT ℝ) (v : ℝ) :
    t.setOriginal v =
      if (if t.positive then v ≤ t.bound else t.bound ≤ v) then none
      else some { t with x := fwdR t v } := by
  unfold RT.setOriginal fwdR
  cases hp : t.positive <;> simp <;> split_ifs <;> first | rfl | (exfalso; linarith)

theorem getOriginal_real (t : RT ℝ) :
    t.getOriginal =
      if t.positive then (if t.x < 0 then Real.exp t.x / t.scale + t.bound else t.x / t.scale + 1 + t.bound)
      else (if t.x < 0 then -Real.exp t.x / t.scale + t.bound else -t.x / t.scale - 1 + t.bound) := by
  unfold RT.getOriginal
  cases t.positive <;> simp

theorem d1_real (t : RT ℝ) :
    t.d1 =
      if t.positive then (if t.x < 0 then Real.exp t.x / t.scale else 1 / t.scale)
      else (if t.x < 0 then -Real.exp t.x / t.scale else -1 / t.scale) := by
  unfold RT.d1
  cases t.positive <;> simp

theorem d2_real (t : RT ℝ) :
    t.d2 =
      if t.positive then (if t.x < 0 then Real.exp t.x / t.scale else 0)
      else (if t.x < 0 then -Real.exp t.x / t.scale else 0) := by
  unfold RT.d2
  cases t.positive <;> simp

/-- the back-transformation as a function of the coordinate (unit scale) -/
noncomputable def g (positive : Bool) (b x : ℝ) : ℝ :=
  if positive then (if x < 0 then Real.exp x + b else x + 1 + b)
  else (if x < 0 then -Real.exp x + b else -x - 1 + b)

theorem getOriginal_unit (t : RT ℝ) (hs : t.scale = 1) : t.getOriginal = g t.positive t.bound t.x := by
  rw [getOriginal_real, hs]; unfold g; simp

/-- the positive branch `x ↦ if x < 0 then exp x else x + 1` -/
noncomputable def gp (x : ℝ) : ℝ := if x < 0 then Real.exp x else x + 1

theorem g_eq (positive : Bool) (b x : ℝ) : g positive b x = if positive then gp x + b else -gp x + b := by
  unfold g gp; cases positive <;> simp <;> split_ifs <;> ring

theorem gp_pos (x : ℝ) : 0 < gp x := by
  unfold gp; split_ifs with h
  · exact Real.exp_pos x
  · linarith

theorem gp_strictMono : StrictMono gp := by
  intro x y hxy
  unfold gp
  split_ifs with hx hy hy
  · exact Real.exp_lt_exp.mpr hxy
  · have : Real.exp x < 1 := by rw [← Real.exp_zero]; exact Real.exp_lt_exp.mpr hx
    linarith
  · exfalso; linarith
  · linarith

/-- derivative of the positive branch: `if x < 0 then exp x else 1` -/
noncomputable def gp' (x : ℝ) : ℝ := if x < 0 then Real.exp x else 1

theorem gp_hasDerivAt (x : ℝ) : HasDerivAt gp (gp' x) x := by
  rcases lt_trichotomy x 0 with hx | hx | hx
  · have : gp' x = Real.exp x := by simp [gp', hx]
    rw [this]
    refine (Real.hasDerivAt_exp x).congr_of_eventuallyEq ?_
    filter_upwards [Iio_mem_nhds hx] with y hy
    simp [gp, Set.mem_Iio.mp hy]
  · subst hx
    have h1 : gp' 0 = 1 := by simp [gp']
    rw [h1]
    -- left: exp, right: x + 1; both have derivative 1 at 0 and value 1
    have hl : HasDerivWithinAt gp 1 (Set.Iic 0) 0 := by
      have h := (Real.hasDerivAt_exp 0).hasDerivWithinAt (s := Set.Iic 0)
      rw [Real.exp_zero] at h
      refine h.congr ?_ ?_
      · intro y hy
        rcases lt_or_eq_of_le (Set.mem_Iic.mp hy) with h' | h'
        · simp [gp, h']
        · subst h'; simp [gp]
      · simp [gp]
    have hr : HasDerivWithinAt gp 1 (Set.Ici 0) 0 := by
      have h := ((hasDerivAt_id (0:ℝ)).add_const (1:ℝ)).hasDerivWithinAt (s := Set.Ici 0)
      refine h.congr ?_ ?_
      · intro y hy
        have : ¬ y < 0 := not_lt.mpr (Set.mem_Ici.mp hy)
        simp [gp, this]
      · simp [gp]
    have := hl.union hr
    rwa [Set.Iic_union_Ici, hasDerivWithinAt_univ] at this
  · have : gp' x = 1 := by simp [gp', not_lt.mpr hx.le]
    rw [this]
    refine ((hasDerivAt_id x).add_const (1:ℝ)).congr_of_eventuallyEq ?_
    filter_upwards [Ioi_mem_nhds hx] with y hy
    have : ¬ y < 0 := not_lt.mpr (le_of_lt (Set.mem_Ioi.mp hy))
    simp [gp, this]

/-- second derivative of the positive branch away from the kink -/
noncomputable def gp'' (x : ℝ) : ℝ := if x < 0 then Real.exp x else 0

theorem gp'_hasDerivAt (x : ℝ) (hx : x ≠ 0) : HasDerivAt gp' (gp'' x) x := by
  rcases lt_or_gt_of_ne hx with hx | hx
  · have : gp'' x = Real.exp x := by simp [gp'', hx]
    rw [this]
    refine (Real.hasDerivAt_exp x).congr_of_eventuallyEq ?_
    filter_upwards [Iio_mem_nhds hx] with y hy
    simp [gp', Set.mem_Iio.mp hy]
  · have : gp'' x = 0 := by simp [gp'', not_lt.mpr hx.le]
    rw [this]
    refine (hasDerivAt_const x (1:ℝ)).congr_of_eventuallyEq ?_
    filter_upwards [Ioi_mem_nhds hx] with y hy
    have : ¬ y < 0 := not_lt.mpr (le_of_lt (Set.mem_Ioi.mp hy))
    simp [gp', this]

/-- `gp'` is not differentiable at the kink: left slope 1, right slope 0 -/
theorem gp'_not_differentiableAt_zero : ¬ DifferentiableAt ℝ gp' 0 := by
  intro h
  have hd := h.hasDerivAt
  set d := deriv gp' 0 with hd0
  -- from the right the function is constant 1: derivative 0
  have hr : HasDerivWithinAt gp' 0 (Set.Ici 0) 0 := by
    refine (hasDerivWithinAt_const (0:ℝ) (Set.Ici 0) (1:ℝ)).congr ?_ ?_
    · intro y hy
      have : ¬ y < 0 := not_lt.mpr (Set.mem_Ici.mp hy)
      simp [gp', this]
    · simp [gp']
  -- from the left it is exp: derivative 1
  have hl : HasDerivWithinAt gp' 1 (Set.Iic 0) 0 := by
    have h := (Real.hasDerivAt_exp 0).hasDerivWithinAt (s := Set.Iic 0)
    rw [Real.exp_zero] at h
    refine h.congr ?_ ?_
    · intro y hy
      rcases lt_or_eq_of_le (Set.mem_Iic.mp hy) with h' | h'
      · simp [gp', h']
      · subst h'; simp [gp']
    · simp [gp']
  have e1 : d = 0 := (uniqueDiffWithinAt_Ici (0:ℝ)).eq_deriv _ hd.hasDerivWithinAt hr
  have e2 : d = 1 := (uniqueDiffWithinAt_Iic (0:ℝ)).eq_deriv _ hd.hasDerivWithinAt hl
  linarith

/-- from the right of the kink `gp'` is constant: slope 0 -/
theorem gp'_right_at_zero : HasDerivWithinAt gp' 0 (Set.Ici 0) 0 := by
  refine (hasDerivWithinAt_const (0:ℝ) (Set.Ici 0) (1:ℝ)).congr ?_ ?_
  · intro y hy
    have : ¬ y < 0 := not_lt.mpr (Set.mem_Ici.mp hy)
    simp [gp', this]
  · simp [gp']

/-- from the left it is `exp`: slope 1 -/
theorem gp'_left_at_zero : HasDerivWithinAt gp' 1 (Set.Iic 0) 0 := by
  have h := (Real.hasDerivAt_exp 0).hasDerivWithinAt (s := Set.Iic 0)
  rw [Real.exp_zero] at h
  refine h.congr ?_ ?_
  · intro y hy
    rcases lt_or_eq_of_le (Set.mem_Iic.mp hy) with h' | h'
    · simp [gp', h']
    · subst h'; simp [gp']
  · simp [gp']

/-- `gp''` is the *right* derivative of `gp'` everywhere, the kink included -/
theorem gp'_hasDerivWithinAt_Ici (x : ℝ) : HasDerivWithinAt gp' (gp'' x) (Set.Ici x) x := by
  by_cases hx : x = 0
  · subst hx
    have : gp'' 0 = 0 := by simp [gp'']
    rw [this]; exact gp'_right_at_zero
  · exact (gp'_hasDerivAt x hx).hasDerivWithinAt

end RT

/-- the same parameter at another transformed coordinate -/
def RT.at (t : RT ℝ) (x : ℝ) : RT ℝ := { t with x := x }
@[simp] theorem RT.at_x (t : RT ℝ) (x : ℝ) : (t.at x).x = x := rfl
@[simp] theorem RT.at_scale (t : RT ℝ) (x : ℝ) : (t.at x).scale = t.scale := rfl
@[simp] theorem RT.at_bound (t : RT ℝ) (x : ℝ) : (t.at x).bound = t.bound := rfl
@[simp] theorem RT.at_positive (t : RT ℝ) (x : ℝ) : (t.at x).positive = t.positive := rfl
@[simp] theorem RT.at_self (t : RT ℝ) : t.at t.x = t := rfl

/-- the original value lies strictly inside the half-line -/
def RT.Inside (t : RT ℝ) (v : ℝ) : Prop := if t.positive then t.bound < v else v < t.bound

/-! ### hyperbolic tangent: facts missing from Mathlib -/

theorem hasDerivAt_tanh (x : ℝ) : HasDerivAt Real.tanh (1 / Real.cosh x ^ 2) x := by
  have hc : Real.cosh x ≠ 0 := (Real.cosh_pos x).ne'
  have h := (Real.hasDerivAt_sinh x).div (Real.hasDerivAt_cosh x) hc
  have e : Real.tanh = fun y => Real.sinh y / Real.cosh y := by
    funext y; exact Real.tanh_eq_sinh_div_cosh y
  have key : (Real.cosh x * Real.cosh x - Real.sinh x * Real.sinh x) / Real.cosh x ^ 2
      = 1 / Real.cosh x ^ 2 := by
    congr 1; nlinarith [Real.cosh_sq x]
  rw [key] at h
  rw [e]
  exact h

theorem tanh_strictMono : StrictMono Real.tanh := by
  intro x y hxy
  by_contra h
  have h' : Real.tanh y ≤ Real.tanh x := not_lt.mp h
  have := Real.artanh_le_artanh (Real.neg_one_lt_tanh y) (Real.tanh_lt_one x) h'
  rw [Real.artanh_tanh, Real.artanh_tanh] at this
  linarith

theorem atanh_eq_artanh {u : ℝ} (h : u ∈ Set.Ioo (-1 : ℝ) 1) : Scalar.atanh u = Real.artanh u := by
  rw [atanh_eq, Real.artanh_eq_half_log (Set.Ioo_subset_Icc_self h)]

/-! ### IntervalTransformedParameter over ℝ -/
namespace IT

/-- the final clamp of `getOriginalValue` -/
noncomputable def clamp (lo hi y : ℝ) : ℝ :=
  if hi < (if y < lo then lo else y) then hi else (if y < lo then lo else y)

theorem clamp_eq_self {lo hi y : ℝ} (h1 : lo ≤ y) (h2 : y ≤ hi) : clamp lo hi y = y := by
  unfold clamp; rw [if_neg (not_lt.mpr h1), if_neg (not_lt.mpr h2)]

theorem clamp_mem {lo hi : ℝ} (h : lo ≤ hi) (y : ℝ) : lo ≤ clamp lo hi y ∧ clamp lo hi y ≤ hi := by
  unfold clamp; split_ifs <;> constructor <;> linarith

theorem getOriginal_real (pi : ℝ) (t : IT ℝ) :
    getOriginal pi t = clamp t.lo t.hi
      (if t.hyper then (Real.tanh (t.x / t.scale) + 1) * (t.hi - t.lo) / 2 + t.lo
      else (Real.arctan (t.x / t.scale) + pi / 2) * (t.hi - t.lo) / pi + t.lo) := by
  unfold getOriginal clamp; cases t.hyper <;> simp

theorem d1_real (pi : ℝ) (t : IT ℝ) :
    d1 pi t =
      if t.hyper then 1 / (Real.cosh (t.x / t.scale)) ^ 2 * (t.hi - t.lo) / (2 * t.scale)
      else (t.hi - t.lo) / (pi * t.scale * ((t.x / t.scale) ^ 2 + 1)) := by
  unfold d1; cases t.hyper <;> simp

theorem d2_real (pi : ℝ) (t : IT ℝ) :
    d2 pi t =
      if t.hyper then
        -1 / (Real.cosh (t.x / t.scale)) ^ 2 * Real.tanh (t.x / t.scale) * (t.hi - t.lo) / (t.scale * t.scale)
      else -2 * t.x * (t.hi - t.lo) / (pi * t.scale ^ 3 * ((t.x / t.scale) ^ 2 + 1) ^ 2) := by
  unfold d2; cases t.hyper <;> simp

theorem setOriginal_real (pi : ℝ) (t : IT ℝ) (v : ℝ) :
    setOriginal pi t v =
      if v ≤ t.lo ∨ t.hi ≤ v then none
      else some { t with x := fwd pi t.scale t.lo t.hi t.hyper v } := by
  unfold setOriginal; simp

/-- the normalised position of `v` in `]lo,hi[`, mapped to `]-1,1[` -/
theorem u_mem {lo hi v : ℝ} (h1 : lo < v) (h2 : v < hi) :
    2 * (v - lo) / (hi - lo) - 1 ∈ Set.Ioo (-1 : ℝ) 1 := by
  have hw : 0 < hi - lo := by linarith
  constructor
  · have : 0 < 2 * (v - lo) / (hi - lo) := by apply div_pos <;> linarith
    linarith
  · have : 2 * (v - lo) / (hi - lo) < 2 := by
      rw [div_lt_iff₀ hw]; linarith
    linarith

theorem fwd_hyper_real (pi s lo hi v : ℝ) (h1 : lo < v) (h2 : v < hi) :
    fwd pi s lo hi true v = s * Real.artanh (2 * (v - lo) / (hi - lo) - 1) := by
  unfold fwd
  simp only [if_true, two_real, one_eq]
  rw [atanh_eq_artanh (u_mem h1 h2)]

theorem fwd_tan_real (pi s lo hi v : ℝ) :
    fwd pi s lo hi false v = s * Real.tan (pi * (v - lo) / (hi - lo) - pi / 2) := by
  unfold fwd; simp [mul_div_assoc]

/-- the same parameter at another transformed coordinate -/
def «at» (t : IT ℝ) (x : ℝ) : IT ℝ := { t with x := x }
@[simp] theorem at_x (t : IT ℝ) (x : ℝ) : (t.at x).x = x := rfl
@[simp] theorem at_scale (t : IT ℝ) (x : ℝ) : (t.at x).scale = t.scale := rfl
@[simp] theorem at_lo (t : IT ℝ) (x : ℝ) : (t.at x).lo = t.lo := rfl
@[simp] theorem at_hi (t : IT ℝ) (x : ℝ) : (t.at x).hi = t.hi := rfl
@[simp] theorem at_hyper (t : IT ℝ) (x : ℝ) : (t.at x).hyper = t.hyper := rfl
@[simp] theorem at_self (t : IT ℝ) : t.at t.x = t := rfl

/-- explicit forms of the back-transformation as a function of the coordinate -/
noncomputable def gh (s lo hi x : ℝ) : ℝ := (Real.tanh (x / s) + 1) * (hi - lo) / 2 + lo
noncomputable def gt (pi s lo hi x : ℝ) : ℝ := (Real.arctan (x / s) + pi / 2) * (hi - lo) / pi + lo

theorem getOriginal_at (pi : ℝ) (t : IT ℝ) (x : ℝ) :
    getOriginal pi (t.at x) =
      clamp t.lo t.hi (if t.hyper then gh t.scale t.lo t.hi x else gt pi t.scale t.lo t.hi x) := by
  obtain ⟨s, lo, hi, hy, x0⟩ := t
  cases hy <;> simp [getOriginal_real, «at», gh, gt]

theorem gh_mem (s lo hi x : ℝ) (h : lo < hi) : lo < gh s lo hi x ∧ gh s lo hi x < hi := by
  unfold gh
  have h1 := Real.neg_one_lt_tanh (x / s)
  have h2 := Real.tanh_lt_one (x / s)
  have hw : 0 < hi - lo := by linarith
  constructor
  · have : 0 < (Real.tanh (x / s) + 1) * (hi - lo) / 2 := by
      apply div_pos (mul_pos (by linarith) hw) (by norm_num)
    linarith
  · have : (Real.tanh (x / s) + 1) * (hi - lo) / 2 < (hi - lo) := by
      rw [div_lt_iff₀ (by norm_num : (0:ℝ) < 2)]
      nlinarith
    linarith

theorem gh_strictMono (s lo hi : ℝ) (hs : 0 < s) (h : lo < hi) : StrictMono (gh s lo hi) := by
  intro x y hxy
  unfold gh
  have : Real.tanh (x / s) < Real.tanh (y / s) := tanh_strictMono (div_lt_div_of_pos_right hxy hs)
  have hw : 0 < hi - lo := by linarith
  have : (Real.tanh (x / s) + 1) * (hi - lo) < (Real.tanh (y / s) + 1) * (hi - lo) :=
    mul_lt_mul_of_pos_right (by linarith) hw
  linarith

theorem gt_strictMono (pi s lo hi : ℝ) (hpi : 0 < pi) (hs : 0 < s) (h : lo < hi) :
    StrictMono (gt pi s lo hi) := by
  intro x y hxy
  unfold gt
  have : Real.arctan (x / s) < Real.arctan (y / s) :=
    Real.arctan_strictMono (div_lt_div_of_pos_right hxy hs)
  have hw : 0 < hi - lo := by linarith
  have h1 : (Real.arctan (x / s) + pi / 2) * (hi - lo) < (Real.arctan (y / s) + pi / 2) * (hi - lo) :=
    mul_lt_mul_of_pos_right (by linarith) hw
  have := div_lt_div_of_pos_right h1 hpi
  linarith

/-- the tangent back-transformation stays within `(π - pi)/(2 pi)` interval widths of the interval,
whatever the constant `pi > 0` used for π -/
theorem gt_mem (pi s lo hi x : ℝ) (hpi : 0 < pi) (h : lo < hi) :
    lo - (Real.pi - pi) / (2 * pi) * (hi - lo) < gt pi s lo hi x ∧
    gt pi s lo hi x < hi + (Real.pi - pi) / (2 * pi) * (hi - lo) := by
  unfold gt
  have h1 := Real.neg_pi_div_two_lt_arctan (x / s)
  have h2 := Real.arctan_lt_pi_div_two (x / s)
  have hw : 0 < hi - lo := by linarith
  constructor
  · have e : lo - (Real.pi - pi) / (2 * pi) * (hi - lo) = (-(Real.pi / 2) + pi / 2) * (hi - lo) / pi + lo := by
      field_simp; ring
    rw [e]
    have : (-(Real.pi / 2) + pi / 2) * (hi - lo) < (Real.arctan (x / s) + pi / 2) * (hi - lo) :=
      mul_lt_mul_of_pos_right (by linarith) hw
    have := div_lt_div_of_pos_right this hpi
    linarith
  · have e : hi + (Real.pi - pi) / (2 * pi) * (hi - lo) = (Real.pi / 2 + pi / 2) * (hi - lo) / pi + lo := by
      field_simp; ring
    rw [e]
    have : (Real.arctan (x / s) + pi / 2) * (hi - lo) < (Real.pi / 2 + pi / 2) * (hi - lo) :=
      mul_lt_mul_of_pos_right (by linarith) hw
    have := div_lt_div_of_pos_right this hpi
    linarith

/-- with a guard on the angle the tangent back-transformation is inside the interval -/
theorem gt_mem_of_angle (pi s lo hi x : ℝ) (hpi : 0 < pi) (h : lo < hi)
    (ha : |Real.arctan (x / s)| < pi / 2) :
    lo < gt pi s lo hi x ∧ gt pi s lo hi x < hi := by
  unfold gt
  have ⟨h1, h2⟩ := abs_lt.mp ha
  have hw : 0 < hi - lo := by linarith
  constructor
  · have : 0 < (Real.arctan (x / s) + pi / 2) * (hi - lo) / pi :=
      div_pos (mul_pos (by linarith) hw) hpi
    linarith
  · have : (Real.arctan (x / s) + pi / 2) * (hi - lo) / pi < hi - lo := by
      rw [div_lt_iff₀ hpi]
      nlinarith
    linarith

/-- hyperbolic variant: the clamp is the identity -/
theorem getOriginal_at_hyper (pi : ℝ) (t : IT ℝ) (hh : t.hyper = true) (hb : t.lo < t.hi) (x : ℝ) :
    getOriginal pi (t.at x) = gh t.scale t.lo t.hi x := by
  rw [getOriginal_at]; simp only [hh, if_true]
  have ⟨h1, h2⟩ := gh_mem t.scale t.lo t.hi x hb
  exact clamp_eq_self h1.le h2.le

/-- tangent variant: the clamp is the identity under the angle guard -/
theorem getOriginal_at_tan (pi : ℝ) (t : IT ℝ) (hh : t.hyper = false) (hb : t.lo < t.hi) (hpi : 0 < pi)
    (x : ℝ) (ha : |Real.arctan (x / t.scale)| < pi / 2) :
    getOriginal pi (t.at x) = gt pi t.scale t.lo t.hi x := by
  rw [getOriginal_at]; simp only [hh, if_false, Bool.false_eq_true]
  have ⟨h1, h2⟩ := gt_mem_of_angle pi t.scale t.lo t.hi x hpi hb ha
  exact clamp_eq_self h1.le h2.le

theorem arctan_abs_lt_of_pi_le {pi : ℝ} (h : Real.pi ≤ pi) (y : ℝ) : |Real.arctan y| < pi / 2 := by
  rw [abs_lt]
  have := Real.neg_pi_div_two_lt_arctan y
  have := Real.arctan_lt_pi_div_two y
  constructor <;> linarith

/-- the angle of the tangent forward map is inside `]-pi/2, pi/2[` -/
theorem angle_mem {pi lo hi v : ℝ} (hpi : 0 < pi) (h1 : lo < v) (h2 : v < hi) :
    -(pi / 2) < pi * (v - lo) / (hi - lo) - pi / 2 ∧ pi * (v - lo) / (hi - lo) - pi / 2 < pi / 2 := by
  have hu := u_mem h1 h2
  have hw : hi - lo ≠ 0 := by linarith
  have ha : pi * (v - lo) / (hi - lo) - pi / 2 = pi / 2 * (2 * (v - lo) / (hi - lo) - 1) := by
    field_simp
  rw [ha]
  constructor <;> nlinarith [hu.1, hu.2]

theorem gh_fwd {s lo hi v : ℝ} (hs : s ≠ 0) (h1 : lo < v) (h2 : v < hi) :
    gh s lo hi (s * Real.artanh (2 * (v - lo) / (hi - lo) - 1)) = v := by
  unfold gh
  rw [mul_div_cancel_left₀ _ hs, Real.tanh_artanh (u_mem h1 h2)]
  have : hi - lo ≠ 0 := by linarith
  field_simp
  ring

theorem fwd_gh {s lo hi x : ℝ} (hs : s ≠ 0) (hb : lo < hi) :
    s * Real.artanh (2 * (gh s lo hi x - lo) / (hi - lo) - 1) = x := by
  have hw : hi - lo ≠ 0 := by linarith
  have : 2 * (gh s lo hi x - lo) / (hi - lo) - 1 = Real.tanh (x / s) := by
    unfold gh; field_simp; ring
  rw [this, Real.artanh_tanh, mul_div_cancel₀ _ hs]

theorem arctan_tan_angle {pi lo hi v : ℝ} (hpi : 0 < pi) (hle : pi ≤ Real.pi) (h1 : lo < v) (h2 : v < hi) :
    Real.arctan (Real.tan (pi * (v - lo) / (hi - lo) - pi / 2)) = pi * (v - lo) / (hi - lo) - pi / 2 := by
  have ⟨a1, a2⟩ := angle_mem hpi h1 h2
  exact Real.arctan_tan (by linarith) (by linarith)

theorem gt_fwd {pi s lo hi v : ℝ} (hpi : 0 < pi) (hle : pi ≤ Real.pi) (hs : s ≠ 0) (h1 : lo < v) (h2 : v < hi) :
    gt pi s lo hi (s * Real.tan (pi * (v - lo) / (hi - lo) - pi / 2)) = v := by
  unfold gt
  rw [mul_div_cancel_left₀ _ hs, arctan_tan_angle hpi hle h1 h2]
  have : hi - lo ≠ 0 := by linarith
  field_simp
  ring

theorem fwd_gt {pi s lo hi x : ℝ} (hpi : 0 < pi) (hs : s ≠ 0) (hb : lo < hi) :
    s * Real.tan (pi * (gt pi s lo hi x - lo) / (hi - lo) - pi / 2) = x := by
  have hw : hi - lo ≠ 0 := by linarith
  have : pi * (gt pi s lo hi x - lo) / (hi - lo) - pi / 2 = Real.arctan (x / s) := by
    unfold gt; field_simp; ring
  rw [this, Real.tan_arctan, mul_div_cancel₀ _ hs]

theorem gh_hasDerivAt (s lo hi x : ℝ) :
    HasDerivAt (gh s lo hi) (1 / Real.cosh (x / s) ^ 2 * (hi - lo) / (2 * s)) x := by
  have h0 : HasDerivAt (fun y : ℝ => y / s) (1 / s) x := (hasDerivAt_id x).div_const s
  have h1 := (hasDerivAt_tanh (x / s)).comp x h0
  have h2 := (((h1.add_const (1 : ℝ)).mul_const (hi - lo)).div_const 2).add_const lo
  refine (h2.congr_deriv ?_)
  ring

theorem gt_hasDerivAt (pi s lo hi x : ℝ) :
    HasDerivAt (gt pi s lo hi) ((hi - lo) / (pi * s * ((x / s) ^ 2 + 1))) x := by
  have h0 : HasDerivAt (fun y : ℝ => y / s) (1 / s) x := (hasDerivAt_id x).div_const s
  have h1 := (Real.hasDerivAt_arctan (x / s)).comp x h0
  have h2 := (((h1.add_const (pi / 2)).mul_const (hi - lo)).div_const pi).add_const lo
  refine (h2.congr_deriv ?_)
  have : (1 : ℝ) + (x / s) ^ 2 ≠ 0 := by positivity
  by_cases hp : pi = 0
  · subst hp; simp
  by_cases hs : s = 0
  · subst hs; simp
  field_simp
  ring

/-- first derivative as a function of the coordinate -/
noncomputable def gh' (s lo hi x : ℝ) : ℝ := 1 / Real.cosh (x / s) ^ 2 * (hi - lo) / (2 * s)
noncomputable def gt' (pi s lo hi x : ℝ) : ℝ := (hi - lo) / (pi * s * ((x / s) ^ 2 + 1))

theorem d1_at (pi : ℝ) (t : IT ℝ) (x : ℝ) :
    d1 pi (t.at x) = if t.hyper then gh' t.scale t.lo t.hi x else gt' pi t.scale t.lo t.hi x := by
  obtain ⟨s, lo, hi, hy, x0⟩ := t
  cases hy <;> simp [d1_real, «at», gh', gt']

theorem gh'_hasDerivAt (s lo hi x : ℝ) :
    HasDerivAt (gh' s lo hi)
      (-1 / Real.cosh (x / s) ^ 2 * Real.tanh (x / s) * (hi - lo) / (s * s)) x := by
  have hc : Real.cosh (x / s) ≠ 0 := (Real.cosh_pos _).ne'
  have h0 : HasDerivAt (fun y : ℝ => y / s) (1 / s) x := (hasDerivAt_id x).div_const s
  have h1 := (Real.hasDerivAt_cosh (x / s)).comp x h0
  have h2 := (h1.pow 2).inv (pow_ne_zero 2 hc)
  have h3 := (h2.mul_const (hi - lo)).div_const (2 * s)
  have e : gh' s lo hi = fun y => ((Real.cosh ∘ fun y => y / s) y ^ 2)⁻¹ * (hi - lo) / (2 * s) := by
    funext y; simp [gh']
  rw [e]
  refine (h3.congr_deriv ?_)
  rw [Real.tanh_eq_sinh_div_cosh]
  simp only [Function.comp, Pi.pow_apply]
  by_cases hs : s = 0
  · subst hs; simp
  field_simp
  ring

theorem gt'_hasDerivAt (pi s lo hi x : ℝ) :
    HasDerivAt (gt' pi s lo hi)
      (-2 * x * (hi - lo) / (pi * s ^ 3 * ((x / s) ^ 2 + 1) ^ 2)) x := by
  have h0 : HasDerivAt (fun y : ℝ => y / s) (1 / s) x := (hasDerivAt_id x).div_const s
  have h1 := (((h0.pow 2).add_const (1 : ℝ)).const_mul (pi * s))
  by_cases hp : pi = 0
  · subst hp
    have e : gt' 0 s lo hi = fun _ => (0 : ℝ) := by funext y; simp [gt']
    rw [e]; simpa using hasDerivAt_const x (0 : ℝ)
  by_cases hs : s = 0
  · subst hs
    have e : gt' pi 0 lo hi = fun _ => (0 : ℝ) := by funext y; simp [gt']
    rw [e]; simpa using hasDerivAt_const x (0 : ℝ)
  have hne : pi * s * ((x / s) ^ 2 + 1) ≠ 0 := by
    have : (x / s) ^ 2 + 1 ≠ 0 := by positivity
    exact mul_ne_zero (mul_ne_zero hp hs) this
  have h2 := (h1.inv hne).const_mul (hi - lo)
  have e : gt' pi s lo hi = fun y => (hi - lo) * (pi * s * ((y / s) ^ 2 + 1))⁻¹ := by
    funext y; simp [gt', div_eq_mul_inv]
  rw [e]
  refine (h2.congr_deriv ?_)
  simp only [Pi.pow_apply]
  have : (x / s) ^ 2 + 1 ≠ 0 := by positivity
  have e2 : (x / s) ^ (2 - 1) = x / s := by norm_num
  rw [e2]
  have hs' : s ≠ 0 := hs
  field_simp
  push_cast
  ring

end IT

/-! ### the library's constants (regenerated from NumConstants.h on every run) -/

theorem libPI_pos : (0 : ℝ) < libPI := by
  simp only [libPI, Generated.TransformConstants.PI, ofRat_eq]
  norm_num

/-- the hypothesis the tangent round trip forces on the constant: `PI() ≤ π`.  False for the
original `3.141593`, true for the full-precision double. -/
theorem libPI_lt_pi : (libPI : ℝ) < Real.pi := by
  have h := Real.pi_gt_d20
  simp only [libPI, Generated.TransformConstants.PI, ofRat_eq]
  refine lt_trans ?_ h
  norm_num

theorem libTINY_pos : (0 : ℝ) < libTINY := by
  simp only [libTINY, Generated.TransformConstants.TINY, ofRat_eq]
  norm_num

/-- for small positive angles `tan w ≤ 2 w` -/
theorem tan_le_two_mul {w : ℝ} (h0 : 0 ≤ w) (h1 : w ≤ 1) : Real.tan w ≤ 2 * w := by
  have hc : 1 / 2 ≤ Real.cos w := by
    have := Real.one_sub_sq_div_two_le_cos (x := w)
    nlinarith
  have hcpos : 0 < Real.cos w := by linarith
  have hs : Real.sin w ≤ w := Real.sin_le h0
  rw [Real.tan_eq_sin_div_cos, div_le_iff₀ hcpos]
  nlinarith

/-- the angle guard of the tangent transform with the library's constant: coordinates up to
`10^15` scales stay below `PI()/2` -/
theorem arctan_abs_lt_libPI_half {y : ℝ} (hy : |y| ≤ 10 ^ 15) : |Real.arctan y| < (libPI : ℝ) / 2 := by
  -- δ = π/2 - PI()/2 is tiny but positive; arctan(10^15) = π/2 - arctan(10^-15) < π/2 - δ
  have hgt := Real.pi_gt_d20
  have hlt := Real.pi_lt_d20
  have hP : (3.1415926535897931 : ℝ) < libPI := by
    simp only [libPI, Generated.TransformConstants.PI, ofRat_eq]; norm_num
  set Y : ℝ := 10 ^ 15 with hY
  have hYpos : 0 < Y := by positivity
  -- key: arctan Y < PI()/2
  have key : Real.arctan Y < (libPI : ℝ) / 2 := by
    have hinv : Real.arctan Y = Real.pi / 2 - Real.arctan Y⁻¹ := by
      have := Real.arctan_inv_of_pos hYpos
      linarith
    set δ : ℝ := Real.pi / 2 - libPI / 2 with hδ
    have hδ0 : 0 ≤ δ := by rw [hδ]; linarith [libPI_lt_pi]
    have hδ1 : δ ≤ 2e-16 := by rw [hδ]; norm_num at hlt hP ⊢; linarith
    -- tan δ ≤ 2 δ < 10^-15
    have ht : Real.tan δ < Y⁻¹ := by
      have h2 := tan_le_two_mul hδ0 (by linarith)
      have : (2 : ℝ) * 2e-16 < Y⁻¹ := by rw [hY]; norm_num
      linarith
    have hδr : δ < Real.pi / 2 := by rw [hδ]; linarith [libPI_pos]
    have : δ < Real.arctan Y⁻¹ := by
      have h3 := Real.arctan_strictMono ht
      rwa [Real.arctan_tan (by linarith [Real.pi_pos]) hδr] at h3
    rw [hinv]; rw [hδ] at this; linarith
  have hmono : |Real.arctan y| ≤ Real.arctan Y := by
    rw [abs_le] at hy ⊢
    constructor
    · have := Real.arctan_strictMono.monotone hy.1
      rwa [Real.arctan_neg] at this
    · exact Real.arctan_strictMono.monotone hy.2
  exact lt_of_le_of_lt hmono key

end Bpp.Transform

namespace Bpp.C11aux
open Bpp Bpp.Transform
/-- every real coordinate back-transforms strictly inside the half-line (any positive scale) -/
theorem r_inside (t : RT ℝ) (hs : 0 < t.scale) : t.Inside t.getOriginal := by
  unfold RT.Inside
  rw [RT.getOriginal_real]
  have he := Real.exp_pos t.x
  cases t.positive <;> simp only [if_true, if_false, Bool.false_eq_true]
  · split_ifs with hx
    · have : 0 < Real.exp t.x / t.scale := div_pos he hs
      have e : -Real.exp t.x / t.scale = -(Real.exp t.x / t.scale) := by ring
      rw [e]; linarith
    · have : 0 ≤ t.x / t.scale := div_nonneg (not_lt.mp hx) hs.le
      have e : -t.x / t.scale = -(t.x / t.scale) := by ring
      rw [e]; linarith
  · split_ifs with hx
    · have : 0 < Real.exp t.x / t.scale := div_pos he hs
      linarith
    · have : 0 ≤ t.x / t.scale := div_nonneg (not_lt.mp hx) hs.le
      linarith
theorem r_roundtrip (t : RT ℝ) (hs : t.scale = 1) (v : ℝ) (hv : t.Inside v) :
    ∃ t', t.setOriginal v = some t' ∧ t'.getOriginal = v ∧
      t'.scale = t.scale ∧ t'.bound = t.bound ∧ t'.positive = t.positive := by
  rw [RT.setOriginal_real]
  unfold RT.Inside at hv
  cases hp : t.positive <;> simp only [hp, if_true, if_false, Bool.false_eq_true] at hv ⊢
  · -- ]-inf, b[
    rw [if_neg (not_le.mpr hv)]
    refine ⟨_, rfl, ?_, rfl, rfl, rfl⟩
    rw [RT.getOriginal_real]; simp only [hp, hs, RT.fwdR, if_false, Bool.false_eq_true]
    split_ifs with h1 h2 h2
    · rw [Real.exp_log (by linarith)]; ring
    · exfalso
      have : Real.log (-1 * (v - t.bound)) < 0 := Real.log_neg (by linarith) (by linarith)
      exact h2 this
    · exfalso; linarith
    · ring
  · rw [if_neg (not_le.mpr hv)]
    refine ⟨_, rfl, ?_, rfl, rfl, rfl⟩
    rw [RT.getOriginal_real]; simp only [hp, hs, RT.fwdR, if_true]
    split_ifs with h1 h2 h2
    · rw [Real.exp_log (by linarith)]; ring
    · exfalso
      have : Real.log (1 * (v - t.bound)) < 0 := Real.log_neg (by linarith) (by linarith)
      exact h2 this
    · exfalso; linarith
    · ring

end Bpp.C11aux
