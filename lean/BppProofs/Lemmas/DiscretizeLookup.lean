import BppProofs.Lemmas.DiscretizeEqInt
import BppProofs.Props.C01
/-!
C09: look-ups, cumulative class queries, restriction of the domain.
-/
namespace Bpp.Discretize
open Bpp

/-! ## look-ups -/

/-- the class found by the scan contains the value -/
theorem inClass_classIdx (x : ℝ) (bounds : List ℝ) : inClass bounds (classIdx x bounds) x = true := by
  induction bounds with
  | nil => simp [classIdx, inClass]
  | cons b bs ih =>
    by_cases h : x < b
    · simp [classIdx, inClass, h]
    · have hb : b ≤ x := not_lt.1 h
      simp only [classIdx, ScalarReal.ltb_iff, h, if_false]
      unfold inClass at ih ⊢
      simp only [Bool.and_eq_true] at ih ⊢
      constructor
      · cases hk : classIdx x bs with
        | zero => simp [hb]
        | succ j =>
          rw [hk] at ih
          simpa using ih.1
      · simpa using ih.2

theorem classIdx_le (x : ℝ) (bounds : List ℝ) : classIdx x bounds ≤ bounds.length := by
  induction bounds with
  | nil => simp [classIdx]
  | cons b bs ih => simp only [classIdx]; split <;> simp; omega

/-- with non-decreasing bounds the class containing a value is unique -/
theorem inClass_unique (x : ℝ) (bounds : List ℝ) (hs : bounds.IsChain (· ≤ ·)) (k : Nat)
    (h : inClass bounds k x = true) : k = classIdx x bounds := by
  induction bounds generalizing k with
  | nil =>
    cases k with
    | zero => rfl
    | succ j => simp [inClass] at h
  | cons b bs ih =>
    have hs' : bs.IsChain (· ≤ ·) := hs.tail
    unfold inClass at h
    simp only [Bool.and_eq_true] at h
    by_cases hx : x < b
    · simp only [classIdx, ScalarReal.ltb_iff, hx, if_true]
      cases k with
      | zero => rfl
      | succ j =>
        exfalso
        -- bounds[j] ≤ x < b = bounds[0] contradicts the ordering
        have h1 := h.1
        simp only at h1
        cases hj : (b :: bs)[j]? with
        | none => simp [hj] at h1
        | some c =>
          simp only [hj, ScalarReal.leb_iff] at h1
          have hpw : (b :: bs).Pairwise (· ≤ ·) := List.isChain_iff_pairwise.1 hs
          have : b ≤ c := by
            cases j with
            | zero => simp at hj; rw [hj]
            | succ j' =>
              have hmem : c ∈ bs := by
                simp at hj; exact List.mem_of_getElem? hj
              exact (List.pairwise_cons.1 hpw).1 c hmem
          linarith
    · have hb : b ≤ x := not_lt.1 hx
      simp only [classIdx, ScalarReal.ltb_iff, hx, if_false]
      cases k with
      | zero =>
        exfalso
        have := h.2
        simp at this
        linarith
      | succ j =>
        congr 1
        apply ih hs'
        unfold inClass
        simp only [Bool.and_eq_true]
        constructor
        · cases j with
          | zero => simp
          | succ j' => simpa using h.1
        · simpa using h.2

/-- `getCategoryIndex` answers for every value of the domain, with the class that contains it -/
theorem getCategoryIndex_spec (s : DD ℝ) (x : ℝ) (hx : s.dom.isCorrect x = true) :
    ∃ k, getCategoryIndex s x = .ok k ∧ lookupOk s x k = true ∧ k ≤ s.bounds.length := by
  refine ⟨classIdx x s.bounds, by simp [getCategoryIndex, hx], inClass_classIdx x s.bounds, classIdx_le _ _⟩

theorem getValueCategory_spec (s : DD ℝ) (x : ℝ) (hx : s.dom.isCorrect x = true) (hn : s.dist.length = s.bounds.length + 1) :
    ∃ k v, getCategoryIndex s x = .ok k ∧ s.cats[k]? = some v ∧ getValueCategory s x = .ok v := by
  have hk := classIdx_le x s.bounds
  have hlen : classIdx x s.bounds < s.cats.length := by simp [DD.cats, TMap.keys, hn]; omega
  refine ⟨classIdx x s.bounds, s.cats[classIdx x s.bounds], by simp [getCategoryIndex, hx], by simp [hlen], ?_⟩
  simp [getValueCategory, hx, List.getElem?_eq_getElem hlen]

/-! ## cumulative class queries -/

theorem findIdx?_key (prec : ℝ) (hp : 0 ≤ prec) (m : TMap ℝ) (hs : TMap.Sorted prec m) (i : Nat) (k : ℝ)
    (hk : (TMap.keys m)[i]? = some k) : TMap.findIdx? prec k m = some i := by
  induction m generalizing i with
  | nil => simp [TMap.keys] at hk
  | cons e t ih =>
    have hst : TMap.Sorted prec t := (List.pairwise_cons.1 hs).2
    have het := (List.pairwise_cons.1 hs).1
    cases i with
    | zero =>
      simp [TMap.keys] at hk; subst hk
      have h1 : ¬ (e.1 < e.1 - prec) := by linarith
      simp [TMap.findIdx?, h1]
    | succ j =>
      have hk' : (TMap.keys t)[j]? = some k := by simpa [TMap.keys] using hk
      have hmem : ∃ y ∈ t, y.1 = k := by
        have := List.mem_of_getElem? hk'
        obtain ⟨y, hy, rfl⟩ := List.mem_map.1 this
        exact ⟨y, hy, rfl⟩
      obtain ⟨y, hy, rfl⟩ := hmem
      have h1 : e.1 < y.1 - prec := het y hy
      simp only [TMap.findIdx?, TMap.lt_iff, h1, if_true]
      rw [ih hst j hk']
      rfl

/-- the four cumulative queries at the value of class `i` are the partial sums of the class
probabilities -/
theorem cumulative_at_class (s : DD ℝ) (hp : 0 ≤ s.prec) (hs : TMap.Sorted s.prec s.dist) (i : Nat) (k : ℝ)
    (hk : s.cats[i]? = some k) :
    cInf s k = (s.probs.take i).sum ∧ cSSup s k = 1 - (s.probs.take i).sum ∧
    cSup s k = (s.probs.drop (i + 1)).sum ∧ cIInf s k = 1 - (s.probs.drop (i + 1)).sum := by
  have := findIdx?_key s.prec hp s.dist hs i k hk
  simp [cInf, cSSup, cSup, cIInf, this]

theorem sum_take_add_drop (l : List ℝ) (i : Nat) : (l.take i).sum + (l.drop i).sum = l.sum := by
  rw [← List.sum_append, List.take_append_drop]

/-! ## restriction of the domain -/

theorem dom_isCorrect_iff (d : Dom ℝ) (x : ℝ) :
    d.isCorrect x = true ↔ ((if d.inclLo then d.lo ≤ x else d.lo < x) ∧ (if d.inclHi then x ≤ d.hi else x < d.hi)) := by
  unfold Dom.isCorrect Dom.toInterval Interval.isCorrect Interval.isCorrectB
  cases d.inclLo <;> cases d.inclHi <;> simp [Bound.geb, Bound.gtb, Bound.leb, Bound.ltb]

theorem interAssign_lo (d : Dom ℝ) (c : Interval ℝ) :
    (d.toInterval.interAssign c).lo = if Bound.ltb (.fin d.lo) c.lo then c.lo else .fin d.lo := by
  unfold Interval.interAssign Dom.toInterval
  simp only
  split_ifs <;> rfl

theorem interAssign_hi (d : Dom ℝ) (c : Interval ℝ) :
    (d.toInterval.interAssign c).hi = if Bound.gtb (.fin d.hi) c.hi then c.hi else .fin d.hi := by
  unfold Interval.interAssign Dom.toInterval
  simp only
  split_ifs <;> rfl

theorem interAssign_lo_cases (d : Dom ℝ) (c : Interval ℝ) :
    (d.toInterval.interAssign c).lo = .posInf ∨ ∃ l, (d.toInterval.interAssign c).lo = .fin l ∧ d.lo ≤ l := by
  rw [interAssign_lo]
  cases hc : c.lo with
  | negInf => right; exact ⟨d.lo, by simp [Bound.ltb], le_rfl⟩
  | posInf => left; simp [Bound.ltb]
  | fin x =>
    right
    by_cases h : d.lo < x
    · exact ⟨x, by simp [Bound.ltb, h], h.le⟩
    · exact ⟨d.lo, by simp [Bound.ltb, h], le_rfl⟩

theorem interAssign_hi_cases (d : Dom ℝ) (c : Interval ℝ) :
    (d.toInterval.interAssign c).hi = .negInf ∨ ∃ h, (d.toInterval.interAssign c).hi = .fin h ∧ h ≤ d.hi := by
  rw [interAssign_hi]
  cases hc : c.hi with
  | posInf => right; exact ⟨d.hi, by simp [Bound.gtb, Bound.ltb], le_rfl⟩
  | negInf => left; simp [Bound.gtb, Bound.ltb]
  | fin x =>
    right
    by_cases h : x < d.hi
    · exact ⟨x, by simp [Bound.gtb, Bound.ltb, h], h.le⟩
    · exact ⟨d.hi, by simp [Bound.gtb, Bound.ltb, h], le_rfl⟩

/-- `restrictToConstraint` never meets the branch the model marks unreachable, and when it
accepts the constraint the new domain is exactly the intersection, non-empty, with finite ends -/
theorem restrictDom_spec (d : Dom ℝ) (c : Interval ℝ) :
    restrictDom d c ≠ .error .unreachable ∧
    ∀ d' ch, restrictDom d c = .ok (d', ch) →
      d'.toInterval = d.toInterval.interAssign c ∧ d'.lo ≤ d'.hi ∧ d.lo ≤ d'.lo ∧ d'.hi ≤ d.hi ∧
      (∀ v, d'.isCorrect v = true ↔ (d.isCorrect v = true ∧ c.isCorrect v = true)) ∧
      ch = (d.toInterval.interAssign c).neI d.toInterval := by
  unfold restrictDom
  simp only
  by_cases hemp : (d.toInterval.interAssign c).isEmpty = true
  · simp [hemp]
  · have hne := Interval.not_isEmpty_cond _ hemp
    simp only [hemp, Bool.false_eq_true, if_false]
    rcases interAssign_lo_cases d c with hl | ⟨l, hl, hdl⟩
    · -- lower end +inf: the intersection would be empty
      exfalso
      rcases interAssign_hi_cases d c with hh | ⟨h, hh, _⟩
      · rw [hl, hh] at hne; simp at hne
      · rw [hl, hh] at hne; simp at hne
    · rcases interAssign_hi_cases d c with hh | ⟨h, hh, hdh⟩
      · exfalso; rw [hl, hh] at hne; simp at hne
      · simp only [hl, hh]
        refine ⟨by simp, ?_⟩
        intro d' ch heq
        injection heq with heq
        injection heq with h1 h2
        subst h1
        have hint : (⟨l, h, (d.toInterval.interAssign c).inclLo, (d.toInterval.interAssign c).inclHi, (d.toInterval.interAssign c).prec⟩ : Dom ℝ).toInterval
            = d.toInterval.interAssign c := by
          show (⟨.fin l, .fin h, _, _, _⟩ : Interval ℝ) = _
          rw [← hl, ← hh]
        refine ⟨hint, ?_, hdl, hdh, ?_, h2.symm⟩
        · have := hne.1; rw [hl, hh] at this; simpa using this
        · intro v
          unfold Dom.isCorrect
          rw [hint]
          exact C01.interAssign_iff _ _ v

end Bpp.Discretize
