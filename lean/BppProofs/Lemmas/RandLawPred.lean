import BppProofs.Lemmas.RandSampleLaw
/-! Lemmas for C18 (round 2): the remaining executable law predicates (`lawPickAt`, `lawSampleUnif`,
`cumSumPickOk`, `inCdfStep`, `multinomialLawOk`, `dRandLawOk`) hold of the model, for all draws. -/
namespace Bpp.Rand
open Bpp

/-! ### unweighted picks and samples -/
section
variable {τ : Type} [BEq τ] [LawfulBEq τ]

theorem pickOne_lawPickAt (v : List τ) (replace : Bool) (pos : Nat) (e : τ) (rest : List τ)
    (h : pickOne v replace pos = .ok (e, rest)) : lawPickAt v pos e = true := by
  unfold pickOne at h
  split at h
  · cases h
  · split at h
    · cases h
    · rename_i x hx
      unfold lawPickAt
      cases replace <;> simp at h <;> simp [hx, h.1]

theorem pickOneConst_lawPickAt (v : List τ) (pos : Nat) (e : τ)
    (h : pickOneConst v pos = .ok e) : lawPickAt v pos e = true := by
  unfold pickOneConst at h
  split at h
  · cases h
  · split at h
    · cases h
    · rename_i x hx
      simp only [Except.ok.injEq] at h
      unfold lawPickAt; simp [hx, h]

theorem sampleRepl_law (vin : List τ) : ∀ (k : Nat) (draws : List Nat) (out : List τ),
    sampleRepl vin k draws = .ok out → lawSampleUnif vin (draws.take k) out = true
  | 0, _, out, h => by simp only [sampleRepl, Except.ok.injEq] at h; subst h; simp [lawSampleUnif]
  | k + 1, draws, out, h => by
    unfold sampleRepl at h
    split at h
    · cases h
    · cases draws with
      | nil => cases h
      | cons d ds =>
        dsimp only at h
        cases hp : pickOneConst vin d with
        | error e => rw [hp] at h; cases h
        | ok x =>
          rw [hp] at h; dsimp only at h
          cases hr : sampleRepl vin k ds with
          | error e => rw [hr] at h; cases h
          | ok r =>
            rw [hr] at h
            simp only [Except.ok.injEq] at h; subst h
            simp only [List.take_succ_cons, lawSampleUnif, Bool.and_eq_true]
            exact ⟨pickOneConst_lawPickAt vin d x hp, sampleRepl_law vin k ds r hr⟩
end

/-! ### pickFromCumSum -/
theorem pickFromCumSum_iff_ok (w : List ℝ) (u : ℝ) (p : Nat) (hp : p < w.length) :
    pickFromCumSum w u = .ok p ↔ cumSumPickOk w u p = true := by
  have hsplit := split_at w p hp
  have key := pickFromCumSum_decomp (w.take p) w[p] (w.drop (p + 1)) u
  rw [← hsplit] at key
  have hl : (w.take p).length = p := by simp; omega
  rw [hl] at key
  rw [key]
  unfold cumSumPickOk
  simp only [List.getElem?_eq_getElem hp, Bool.and_eq_true, List.all_eq_true, ScalarReal.ltb_iff, Bool.or_eq_true,
    beq_iff_eq, ScalarReal.leb_iff]
  have : w.drop (p + 1) = [] ↔ p + 1 = w.length := by
    rw [List.drop_eq_nil_iff]; omega
  rw [this]

/-! ### inverse-cdf draws -/
section
variable {α : Type} [Scalar α]

/-- the loop of `randMultinomial` is the search `r <= c[j]` over the running sums -/
theorem invCdf_eq_searchLe (s r : α) : ∀ (ps : List α) (cum : α) (j : Nat),
    invCdf s r cum ps j = searchLe r (cumSumFrom cum (ps.map (· / s))) j
  | [], _, _ => rfl
  | p :: ps, cum, j => by
    simp only [invCdf, List.map_cons, cumSumFrom, searchLe]
    rw [invCdf_eq_searchLe s r ps (cum + p / s) (j + 1)]

/-- … and so is the loop of `AbstractDiscreteDistribution::rand` -/
theorem dRandFrom_eq (r : α) : ∀ (dist : List (α × α)) (cum : α) (j : Nat),
    dRandFrom r cum dist =
      match searchLe r (cumSumFrom cum (dist.map (·.2))) j with
      | some i => (match dist[i - j]? with | some cp => cp.1 | none => Scalar.ofInt (-1))
      | none => Scalar.ofInt (-1)
  | [], _, _ => rfl
  | (c, p) :: rest, cum, j => by
    simp only [dRandFrom, List.map_cons, cumSumFrom, searchLe]
    by_cases h : Scalar.leb r (cum + p) = true
    · simp [h]
    · simp only [h, Bool.false_eq_true, if_false]
      rw [dRandFrom_eq r rest (cum + p) (j + 1)]
      cases hs : searchLe r (cumSumFrom (cum + p) (rest.map (·.2))) (j + 1) with
      | none => rfl
      | some i =>
        have hb := (show j + 1 ≤ i from by
          clear h
          revert hs
          generalize cumSumFrom (cum + p) (rest.map (·.2)) = l
          generalize j + 1 = j0
          induction l generalizing j0 with
          | nil => intro hs; cases hs
          | cons y ys ih =>
            intro hs
            unfold searchLe at hs
            split at hs
            · simp only [Option.some.injEq] at hs; omega
            · have := ih (j0 + 1) hs; omega)
        simp only
        have e : i - j = (i - (j + 1)) + 1 := by omega
        rw [e, List.getElem?_cons_succ]
end

theorem searchLe_inCdfStep (r : ℝ) (c : List ℝ) (j : Nat) (h : searchLe r c 0 = some j) :
    inCdfStep c r j = true := by
  have hb := searchLe_ge r c 0 j h
  have hj : j < c.length := by omega
  have hsplit := split_at c j hj
  have key := searchLe_decomp r c[j] (c.drop (j + 1)) (c.take j) 0
  rw [← hsplit] at key
  have hl : (c.take j).length = j := by simp; omega
  rw [hl, Nat.zero_add] at key
  obtain ⟨hpre, hle⟩ := key.mp h
  unfold inCdfStep
  simp only [List.getElem?_eq_getElem hj, Bool.and_eq_true, ScalarReal.leb_iff]
  refine ⟨hle, ?_⟩
  cases j with
  | zero => rfl
  | succ i =>
    have hi : i < c.length := by omega
    simp only [List.getElem?_eq_getElem hi, ScalarReal.ltb_iff]
    apply hpre
    rw [List.mem_take_iff_getElem]
    exact ⟨i, by omega, rfl⟩

theorem searchLe_none_all (r : ℝ) (c : List ℝ) (h : searchLe r c 0 = none) :
    c.all (fun x => !(Scalar.leb r x)) = true := by
  have := (searchLe_none_iff r c 0).mp h
  simp only [List.all_eq_true, Bool.not_eq_true', ScalarReal.leb_false_iff]
  exact this

/-- every state `randMultinomial` returns satisfies the law predicate for its own draw -/
theorem multinomialState_law (probs : List ℝ) (r : ℝ) :
    multinomialLawOk probs r (multinomialState probs r) = true := by
  unfold multinomialState multinomialLawOk multinomialCums
  rw [invCdf_eq_searchLe]
  cases hs : searchLe r (cumSumFrom (Scalar.ofInt 0) (probs.map (· / sumFromZero probs))) 0 with
  | none => simp only [if_true]; exact searchLe_none_all r _ hs
  | some j =>
    have hb := searchLe_ge r _ 0 j hs
    simp only [cumSumFrom_length, List.length_map] at hb
    have : j ≠ probs.length := by omega
    simp only [this, if_false]
    exact searchLe_inCdfStep r _ j hs

/-- the category `AbstractDiscreteDistribution::rand` returns satisfies the law predicate, whenever
the draw does not exceed the total mass (else the code returns its "can't be reached" `-1`) -/
theorem dRand_law (dist : List (ℝ × ℝ)) (r : ℝ) (hr : r ≤ (dist.map (·.2)).sum) (hne : dist ≠ []) :
    dRandLawOk dist r (dRand dist r) = true := by
  unfold dRand dRandLawOk
  rw [dRandFrom_eq r dist (Scalar.ofInt 0) 0]
  cases hs : searchLe r (cumSumFrom (Scalar.ofInt 0) (dist.map (·.2))) 0 with
  | none =>
    exfalso
    have hall := (searchLe_none_iff r _ 0).mp hs
    simp only [ScalarReal.ofInt_eq, Int.cast_zero] at hall
    have hne2 : cumSumFrom (0 : ℝ) (dist.map (·.2)) ≠ [] := by
      intro h0
      have := cumSumFrom_length (0 : ℝ) (dist.map (·.2))
      rw [h0] at this
      simp at this
      exact hne (List.length_eq_zero_iff.mp this.symm)
    have hlast := cumSumFrom_getLast 0 (dist.map (·.2)) hne2
    have := hall _ (List.getLast_mem hne2)
    rw [hlast] at this
    linarith
  | some j =>
    have hb := searchLe_ge r _ 0 j hs
    simp only [cumSumFrom_length, List.length_map] at hb
    have hj : j < dist.length := by omega
    rw [List.any_eq_true]
    refine ⟨j, List.mem_range.mpr hj, ?_⟩
    simp only [Nat.sub_zero, List.getElem?_eq_getElem hj, Bool.and_eq_true, ScalarReal.eqb_iff, true_and]
    exact searchLe_inCdfStep r _ j hs

end Bpp.Rand
