import BppProofs.Lemmas.RandSampleLaw
/-! Lemmas for C18 (round 2): the remaining executable law predicates (`lawPickAt`, `lawSampleUnif`,
`cumSumPickOk`, `inCdfStep`, `multinomialLawOk`, `dRandLawOk`) hold of the model, for all draws. -/
namespace Bpp.Rand
open Bpp

/-! ### unweighted picks and samples -/
section
variable {τ : Type} [BEq τ] [LawfulBEq τ]

theorem pickOne_lawPickAt (v : List τ) (replace : Bool) (pos : Nat) (e : τ) (rest : List τ)
    (h : pickOne v replace pos = .ok (e, rest)) : lawPickAt v pos e = true := by
  unfold pickOne at h
  split at h
  · cases h
  · split at h
    · cases h
    · rename_i x hx
      unfold lawPickAt
      cases replace <;> simp at h <;> simp [hx, h.1]

theorem pickOneConst_lawPickAt (v : List τ) (pos : Nat) (e : τ)
    (h : pickOneConst v pos = .ok e) : lawPickAt v pos e = true := by
  unfold pickOneConst at h
  split at h
  · cases h
  · split at h
    · cases h
    · rename_i x hx
      simp only [Except.ok.injEq] at h
      unfold lawPickAt; simp [hx, h]

theorem sampleRepl_law (vin : List τ) : ∀ (k : Nat) (draws : List Nat) (out : List τ),
    sampleRepl vin k draws = .ok out → lawSampleUnif vin (draws.take k) out = true
  | 0, _, out, h => by simp only [sampleRepl, Except.ok.injEq] at h; subst h; simp [lawSampleUnif]
  | k + 1, draws, out, h => by
    unfold sampleRepl at h
    split at h
    · cases h
    · cases draws with
      | nil => cases h
      | cons d ds =>
        dsimp only at h
        cases hp : pickOneConst vin d with
        | error e => rw [hp] at h; cases h
        | ok x =>
          rw [hp] at h; dsimp only at h
          cases hr : sampleRepl vin k ds with
          | error e => rw [hr] at h; cases h
          | ok r =>
            rw [hr] at h
            simp only [Except.ok.injEq] at h; subst h
            simp only [List.take_succ_cons, lawSampleUnif, Bool.and_eq_true]
            exact ⟨pickOneConst_lawPickAt vin d x hp, sampleRepl_law vin k ds r hr⟩
end

/-! ### pickFromCumSum -/
theorem pickFromCumSum_iff_ok (w : List ℝ) (u : ℝ) (p : Nat) (hp : p < w.length) :
    pickFromCumSum w u = .ok p ↔ cumSumPickOk w u p = true := by
  have hsplit := split_at w p hp
  have key := pickFromCumSum_decomp (w.take p) w[p] (w.drop (p + 1)) u
  rw [← hsplit] at key
  have hl : (w.take p).length = p := by simp; omega
  rw [hl] at key
  rw [key]
  unfold cumSumPickOk
  simp only [List.getElem?_eq_getElem hp, Bool.and_eq_true, List.all_eq_true, ScalarReal.ltb_iff, Bool.or_eq_true,
    beq_iff_eq, ScalarReal.leb_iff]
  have : w.drop (p + 1) = [] ↔ p + 1 = w.length := by
    rw [List.drop_eq_nil_iff]; omega
  rw [this]

/-! ### inverse-cdf draws -/
section
variable {α : Type} [Scalar α]

/-- the loop of `randMultinomial` is the search `r <= c[j]` over the running sums -/
theorem invCdf_eq_searchLe (s r : α) : ∀ (ps : List α) (cum : α) (j : Nat),
    invCdf s r cum ps j = searchLe r (cumSumFrom cum (ps.map (· / s))) j
  | [], _, _ => rfl
  | p :: ps, cum, j => by
    simp only [invCdf, List.map_cons, cumSumFrom, searchLe]
    rw [invCdf_eq_searchLe s r ps (cum + p / s) (j + 1)]

/-- … and so is the loop of `AbstractDiscreteDistribution::rand` -/
theorem dRandFrom_eq (r : α) : ∀ (dist : List (α × α)) (cum : α) (j : Nat),
    dRandFrom r cum dist =
      match searchLe r (cumSumFrom cum (dist.map (·.2))) j with
      | some i => (match dist[i - j]? with | some cp => cp.1 | none => Scalar.ofInt (-1))
      | none => Scalar.ofInt (-1)
  | [], _, _ => rfl
  | (c, p) :: rest, cum, j => by
    simp only [dRandFrom, List.map_cons, cumSumFrom, searchLe]
    by_cases h : Scalar.leb r (cum + p) = true
    · simp [h]
    · simp only [h, Bool.false_eq_true, if_false]
      rw [dRandFrom_eq r rest (cum + p) (j + 1)]
      cases hs : searchLe r (cumSumFrom (cum + p) (rest.map (·.2))) (j + 1) with
      | none => rfl
      | some i =>
        have hb := (show j + 1 ≤ i from by
          clear h
          revert hs
          generalize cumSumFrom (cum + p) (rest.map (·.2)) = l
          generalize j + 1 = j0
          induction l generalizing j0 with
          | nil => intro hs; cases hs
          | cons y ys ih =>
            intro hs
            unfold searchLe at hs
            split at hs
            · simp only [Option.some.injEq] at hs; omega
            · have := ih (j0 + 1) hs; omega)
        simp only
        have e : i - j = (i - (j + 1)) + 1 := by omega
        rw [e, List.getElem?_cons_succ]
end

theorem searchLe_inCdfStep (r : ℝ) (c : List ℝ) (j : Nat) (h : searchLe r c 0 = some j) :
    inCdfStep c r j = true := by
  have hb := searchLe_ge r c 0 j h
  have hj : j < c.length := by omega
  have hsplit := split_at c j hj
  have key := searchLe_decomp r c[j] (c.drop (j + 1)) (c.take j) 0
  rw [← hsplit] at key
  have hl : (c.take j).length = j := by simp; omega
  rw [hl, Nat.zero_add] at key
  obtain ⟨hpre, hle⟩ := key.mp h
  unfold inCdfStep
  simp only [List.getElem?_eq_getElem hj, Bool.and_eq_true, ScalarReal.leb_iff]
  refine ⟨hle, ?_⟩
  cases j with
  | zero => rfl
  | succ i =>
    have hi : i < c.length := by omega
    simp only [List.getElem?_eq_getElem hi, ScalarReal.ltb_iff]
    apply hpre
    rw [List.mem_take_iff_getElem]
    exact ⟨i, by omega, rfl⟩

theorem searchLe_none_all (r : ℝ) (c : List ℝ) (h : searchLe r c 0 = none) :
    c.all (fun x => !(Scalar.leb r x)) = true := by
  have := (searchLe_none_iff r c 0).mp h
  simp only [List.all_eq_true, Bool.not_eq_true', ScalarReal.leb_false_iff]
  exact this

/-- every state `randMultinomial` returns satisfies the law predicate for its own draw -/
theorem multinomialState_law (probs : List ℝ) (r : ℝ) :
    multinomialLawOk probs r (multinomialState probs r) = true := by
  unfold multinomialState multinomialLawOk multinomialCums
  rw [invCdf_eq_searchLe]
  cases hs : searchLe r (cumSumFrom (Scalar.ofInt 0) (probs.map (· / sumFromZero probs))) 0 with
  | none => simp only [if_true]; exact searchLe_none_all r _ hs
  | some j =>
    have hb := searchLe_ge r _ 0 j hs
    simp only [cumSumFrom_length, List.length_map] at hb
    have : j ≠ probs.length := by omega
    simp only [this, if_false]
    exact searchLe_inCdfStep r _ j hs

/-- the category `AbstractDiscreteDistribution::rand` returns satisfies the law predicate, whenever
the draw does not exceed the total mass (else the code returns its "can't be reached" `-1`) -/
theorem dRand_law (dist : List (ℝ × ℝ)) (r : ℝ) (hr : r ≤ (dist.map (·.2)).sum) (hne : dist ≠ []) :
    dRandLawOk dist r (dRand dist r) = true := by
  unfold dRand dRandLawOk
  rw [dRandFrom_eq r dist (Scalar.ofInt 0) 0]
  cases hs : searchLe r (cumSumFrom (Scalar.ofInt 0) (dist.map (·.2))) 0 with
  | none =>
    exfalso
    have hall := (searchLe_none_iff r _ 0).mp hs
    simp only [ScalarReal.ofInt_eq, Int.cast_zero] at hall
    have hne2 : cumSumFrom (0 : ℝ) (dist.map (·.2)) ≠ [] := by
      intro h0
      have := cumSumFrom_length (0 : ℝ) (dist.map (·.2))
      rw [h0] at this
      simp at this
      exact hne (List.length_eq_zero_iff.mp this.symm)
    have hlast := cumSumFrom_getLast 0 (dist.map (·.2)) hne2
    have := hall _ (List.getLast_mem hne2)
    rw [hlast] at this
    linarith
  | some j =>
    have hb := searchLe_ge r _ 0 j hs
    simp only [cumSumFrom_length, List.length_map] at hb
    have hj : j < dist.length := by omega
    rw [List.any_eq_true]
    refine ⟨j, List.mem_range.mpr hj, ?_⟩
    simp only [Nat.sub_zero, List.getElem?_eq_getElem hj, Bool.and_eq_true, ScalarReal.eqb_iff, true_and]
    exact searchLe_inCdfStep r _ j hs


/-! ### hidden Markov chain: the subtractive search and its predicate (any scalar type: pure logic) -/
section
variable {α : Type} [Scalar α]

theorem subtractSearch_bounds : ∀ (l : List α) (u : α) (i0 i : Nat), subtractSearch u l i0 = some i → i0 ≤ i ∧ i < i0 + l.length
  | [], _, _, _, h => by cases h
  | p :: ps, u, i0, i, h => by
    unfold subtractSearch at h
    dsimp only at h
    split at h
    · simp only [Option.some.injEq] at h; subst h; simp
    · have := subtractSearch_bounds ps _ (i0 + 1) i h
      simp only [List.length_cons]; omega

theorem subtractSearch_iff_stepOk : ∀ (p : List α) (prob : α) (i0 i : Nat),
    subtractSearch prob p i0 = some (i0 + i) ↔ hmmStepOk p prob i = true
  | [], _, _, _ => by simp [subtractSearch, hmmStepOk, remainders]
  | q :: qs, prob, i0, i => by
    unfold subtractSearch
    dsimp only
    by_cases hlt : Scalar.ltb (prob - q) (Scalar.ofInt 0) = true
    · simp only [hlt, if_true, Option.some.injEq]
      cases i with
      | zero => simp [hmmStepOk, remainders, hlt]
      | succ j =>
        simp only [hmmStepOk, remainders, List.getElem?_cons_succ, List.take_succ_cons, List.all_cons, hlt,
          Bool.not_true, Bool.false_and, Bool.and_false]
        constructor
        · intro h; omega
        · intro h; split at h <;> simp at h
    · simp only [hlt, Bool.false_eq_true, if_false]
      cases i with
      | zero =>
        simp only [Nat.add_zero, hmmStepOk, remainders, List.getElem?_cons_zero, hlt, Bool.false_and]
        constructor
        · intro h; have := (subtractSearch_bounds qs _ (i0 + 1) i0 h).1; omega
        · intro h; simp at h
      | succ j =>
        have ih := subtractSearch_iff_stepOk qs (prob - q) (i0 + 1) j
        have e : i0 + (j + 1) = i0 + 1 + j := by omega
        rw [e, ih]
        simp only [hmmStepOk, remainders, List.getElem?_cons_succ, List.take_succ_cons, List.all_cons, hlt,
          Bool.not_false, Bool.true_and]

theorem subtractSearch_none_all : ∀ (p : List α) (prob : α) (i0 : Nat), subtractSearch prob p i0 = none →
    (remainders prob p).all (fun x => !(Scalar.ltb x (Scalar.ofInt 0))) = true
  | [], _, _, _ => by simp [remainders]
  | q :: qs, prob, i0, h => by
    unfold subtractSearch at h
    dsimp only at h
    split at h
    · cases h
    · rename_i hlt
      simp only [remainders, List.all_cons, hlt, Bool.not_false, Bool.true_and]
      exact subtractSearch_none_all qs _ (i0 + 1) h

theorem hmmState_stepOk (p : List α) (u : α) (i : Nat) (h : hmmState p u none = .ok i) : hmmStepOk p u i = true := by
  unfold hmmState at h
  cases hs : subtractSearch u p 0 with
  | none => rw [hs] at h; cases h
  | some j =>
    rw [hs] at h
    simp only [Except.ok.injEq] at h; subst h
    have := (subtractSearch_iff_stepOk p u 0 j).mp (by simpa using hs)
    exact this

theorem hmmState_firstOk (eq : List α) (u : α) (i : Nat) (h : hmmState eq u (some 0) = .ok i) : hmmFirstOk eq u i = true := by
  unfold hmmState at h
  unfold hmmFirstOk
  cases hs : subtractSearch u eq 0 with
  | none =>
    rw [hs] at h
    simp only [Except.ok.injEq] at h; subst h
    simp [subtractSearch_none_all eq u 0 hs]
  | some j =>
    rw [hs] at h
    simp only [Except.ok.injEq] at h; subst h
    have := (subtractSearch_iff_stepOk eq u 0 j).mp (by simpa using hs)
    simp [this]

theorem hmmChain_law (rows : List (List α)) : ∀ (k : Nat) (sta : Nat) (us : List α) (l : List Nat),
    hmmChain rows sta k us = .ok l → hmmChainOk rows sta (us.take k) l = true
  | 0, _, us, l, h => by
    simp only [hmmChain, Except.ok.injEq] at h; subst h; simp [hmmChainOk]
  | k + 1, _, [], _, h => by simp [hmmChain] at h
  | k + 1, sta, u :: us, l, h => by
    unfold hmmChain at h
    cases hr : rows[sta]? with
    | none => rw [hr] at h; cases h
    | some row =>
      rw [hr] at h; dsimp only at h
      cases hst : hmmState row u none with
      | error e => rw [hst] at h; cases h
      | ok stb =>
        rw [hst] at h; dsimp only at h
        cases hc : hmmChain rows stb k us with
        | error e => rw [hc] at h; cases h
        | ok l' =>
          rw [hc] at h
          simp only [Except.ok.injEq] at h; subst h
          simp only [List.take_succ_cons, hmmChainOk, hr, Bool.and_eq_true]
          exact ⟨hmmState_stepOk row u stb hst, hmmChain_law rows k stb us l' hc⟩

theorem hmmSample_law (eq : List α) (rows : List (List α)) (size : Nat) (draws : List α) (l : List Nat)
    (h : hmmSample eq rows size draws = .ok l) : hmmSampleLawOk eq rows (draws.take size) l = true := by
  unfold hmmSample at h
  cases size with
  | zero => simp only [Except.ok.injEq] at h; subst h; simp [hmmSampleLawOk]
  | succ k =>
    cases draws with
    | nil => simp at h
    | cons u us =>
      dsimp only at h
      cases hst : hmmState eq u (some 0) with
      | error e => rw [hst] at h; cases h
      | ok sta =>
        rw [hst] at h; dsimp only at h
        cases hc : hmmChain rows sta k us with
        | error e => rw [hc] at h; cases h
        | ok l' =>
          rw [hc] at h
          simp only [Except.ok.injEq] at h; subst h
          simp only [List.take_succ_cons, hmmSampleLawOk, Bool.and_eq_true]
          exact ⟨hmmState_firstOk eq u sta hst, hmmChain_law rows k sta us l' hc⟩
end

end Bpp.Rand
