import BppProofs.Lemmas.TreeObs
import BppProofs.Lemmas.TreeBasic
/-! Helper lemmas for the liveness theorem `setFather_succeeds` of `Props/C15ObsReady.lean`: under the executable
precondition `TW.setFatherReady` the graph-level `setFatherG` goes through, and the observer it leaves behind has
the edge object free and nothing attached to the fresh edge id. -/
set_option linter.unusedSimpArgs false
set_option linter.unusedVariables false
namespace Bpp
namespace Graph
open AL

/-! ### the observer after the unlink notification -/

/-- an object that was free stays free -/
theorem deletedEdge_find_none {o : Obs} (e : Nat) {y : Nat} (h : find y o.Eg = none) :
    find y (o.deletedEdge e).Eg = none := by
  unfold Obs.deletedEdge
  split
  · split
    · rename_i x hx
      rw [(forgetEdgeIndex_same _ x).2.2.2.1]
      simp only [find_erase]
      split
      · rfl
      · exact h
    · exact h
  · exact h

/-- the object of the deleted edge is free afterwards -/
theorem deletedEdge_find_self {o : Obs} {e x : Nat} (h : o.edgeFromGid e = some x) :
    find x (o.deletedEdge e).Eg = none := by
  unfold Obs.edgeFromGid at h
  split at h
  · cases h
  · rename_i hlt
    unfold Obs.deletedEdge
    rw [if_pos (by omega), h]
    simp only
    rw [(forgetEdgeIndex_same _ x).2.2.2.1]
    simp [find_erase]

/-- nothing is attached to an id the graph has not given out yet -/
theorem edgeFromGid_fresh {w : World} (hw : WInv w) {k : Nat} {o : Obs} (hk : w.getObs k = some o) {e : Nat}
    (he : w.g.nextEdge ≤ e) : o.edgeFromGid e = none := by
  have hi := hw.obs k o hk
  rcases hx : o.edgeFromGid e with _ | y
  · rfl
  · exfalso
    unfold Obs.edgeFromGid at hx
    split at hx
    · cases hx
    · have hf := hi.edges.fwd e y hx
      have := hw.graph.edge_lt e (hi.e_live y e hf)
      omega

/-! ### the graph-level phases go through -/

theorem link_succeeds {g : G} {a b : Nat} (ha : g.hasNode a = true) (hb : g.hasNode b = true) (ho : g.outE a b = none) :
    ∃ g2, G.link a b g = .ok g.nextEdge g2 := by
  unfold G.link G.linkRefused
  simp [ha, hb, ho]

theorem outE_none_of_inE {g : G} (hc : Consistent g) {a b : Nat} (h : g.inE b a = none) : g.outE a b = none := by
  rcases ho : g.outE a b with _ | e
  · rfl
  · have := (G.cons_out_some hc ho).1
    rw [h] at this; cases this

/-- `unlink_father_views` with the edge id named: it is the edge to the father -/
theorem unlink_father_views' {g : G} (hc : Consistent g) {n old : Nat} (hfa : T.father g n = some old) :
    ∃ e0 g1, G.unlink old n g = .ok [e0] g1 ∧ g.outE old n = some e0 ∧ g.hasEdge e0 = true ∧ Consistent g1 ∧
      g1.pending = g.pending ++ [.edges [e0]] ∧ (∀ y, g1.inE n y = none) ∧ (∀ m, g1.hasNode m = g.hasNode m) ∧
      g1.edges = erase e0 g.edges ∧ g1.nextEdge = g.nextEdge := by
  obtain ⟨e0, hin⟩ := inE_of_father hfa
  have hI : g.inE n old = some e0 := by rw [hin]; simp
  have hO := cons_in_some hc hI
  obtain ⟨g1, h1, u⟩ := G.unlink_some hc hO
  refine ⟨e0, g1, h1, hO, (G.cons_out_some hc hO).2.1, u.consistent hc hO, u.pending, ?_, u.hasNode, u.edges, u.rest.2.2.1⟩
  intro y
  rw [u.inE, hin]
  by_cases hy : y = old
  · simp [hy]
  · simp only [hy, and_false, false_or, if_false]
    split <;> rfl

namespace TW

theorem liftW_fst_of_ok {α : Type} (tw : TW) {r : GOut α} {a : α} {g' : G} (h : r = .ok a g') :
    (tw.liftW r).1 = .ok a { g' with pending := [] } := by
  subst h; rfl

/-- **`setFatherG` goes through** on a live father and a node with at most one incoming neighbour; every observer
is left with nothing attached to the fresh edge id, and is the former one (no father) or the former one told about
the deletion of the edge to the former father -/
theorem setFatherG_succeeds {tw : TW} (hw : WInv tw.w) {n f : Nat} (hf : tw.w.g.hasNode f = true)
    {l : List Nat} (hl : tw.w.g.inNeighbors n = some l) (hlen : l.length ≤ 1) :
    ∃ u gq, (tw.setFatherG n f).1 = .ok u gq ∧
      ∀ k o, tw.w.getObs k = some o → ∃ o1, (tw.setFatherG n f).2.w.getObs k = some o1 ∧
        o1.edgeFromGid tw.w.g.nextEdge = none ∧
        ((T.edgeToFather tw.w.g n = none ∧ o1 = o) ∨
          ∃ e0, T.edgeToFather tw.w.g n = some e0 ∧ o1 = o.deletedEdge e0) := by
  obtain ⟨hn, hkeys⟩ := G.inNeighbors_some hl
  have hhf0 := T.hasFather_eq tw.w.g n
  have hfa0 := T.father_eq tw.w.g n
  rw [← hkeys] at hhf0 hfa0
  simp only [hn, if_true] at hhf0 hfa0
  match l, hlen with
  | [], _ =>
    have hhf : T.hasFather tw.w.g n = some false := by rw [hhf0]; simp
    have hfa : T.father tw.w.g n = none := by rw [hfa0]
    have heq : tw.setFatherG n f = touch (unit (tw.liftW (tw.w.g.link f n))) := by
      simp [setFatherG, hf, hhf, andThen]
    have hin := inE_of_noFather hhf
    obtain ⟨g2, hlk⟩ := link_succeeds hf hn (outE_none_of_inE hw.graph (hin f))
    have hr := liftW_fst_of_ok tw hlk
    obtain ⟨_, _, _, _, _, _, _, hobs⟩ := linkPhase hw n f hin hr
    rw [heq]
    refine ⟨(), { g2 with pending := [] }, by rw [touch_fst]; simp [unit, hr, GOut.forget], ?_⟩
    intro k o hk
    refine ⟨o, by rw [touch_w]; show (tw.liftW (tw.w.g.link f n)).2.w.getObs k = _; rw [hobs, hk],
      edgeFromGid_fresh hw hk (Nat.le_refl _), Or.inl ⟨by simp [T.edgeToFather, hfa], rfl⟩⟩
  | [old], _ =>
    have hhf : T.hasFather tw.w.g n = some true := by rw [hhf0]; simp
    have hfa : T.father tw.w.g n = some old := by rw [hfa0]
    have heq : tw.setFatherG n f = touch (andThen (unit (tw.liftW (tw.w.g.unlink old n)))
        (fun _ t1 => unit (t1.liftW (t1.w.g.link f n)))) := by
      simp [setFatherG, hf, hhf, hfa]
    obtain ⟨e0, g1, h1, hO0, he0, hc1, hp1, hin1, hN1, hE1, hne1⟩ := unlink_father_views' hw.graph hfa
    have hw1 : WInv (tw.liftW (tw.w.g.unlink old n)).2.w := liftW_unlink_winv hw _ _
    have hg1 : (tw.liftW (tw.w.g.unlink old n)).2.w.g = { g1 with pending := [] } := by rw [liftW_g, h1]; rfl
    have hfst : (unit (tw.liftW (tw.w.g.unlink old n))).1 = .ok () { g1 with pending := [] } := by
      simp [unit, liftW, World.graphOp, h1, GOut.forget]
    have hand : andThen (unit (tw.liftW (tw.w.g.unlink old n))) (fun _ t1 => unit (t1.liftW (t1.w.g.link f n))) =
        unit ((tw.liftW (tw.w.g.unlink old n)).2.liftW ((tw.liftW (tw.w.g.unlink old n)).2.w.g.link f n)) := by
      unfold andThen; rw [hfst]; rfl
    rw [heq, hand]
    obtain ⟨t1, ht1⟩ : ∃ t1, t1 = (tw.liftW (tw.w.g.unlink old n)).2 := ⟨_, rfl⟩
    rw [← ht1] at hw1 hg1 ⊢
    have hin : ∀ y, t1.w.g.inE n y = none := by intro y; rw [hg1]; exact hin1 y
    have hne : t1.w.g.nextEdge = tw.w.g.nextEdge := by rw [hg1]; exact hne1
    have hf1 : t1.w.g.hasNode f = true := by rw [hg1]; exact (hN1 f).trans hf
    have hn1 : t1.w.g.hasNode n = true := by rw [hg1]; exact (hN1 n).trans hn
    obtain ⟨g2, hlk⟩ := link_succeeds hf1 hn1 (outE_none_of_inE hw1.graph (hin f))
    have hr := liftW_fst_of_ok t1 hlk
    obtain ⟨_, _, _, _, _, _, _, hobs⟩ := linkPhase hw1 n f hin hr
    refine ⟨(), { g2 with pending := [] }, by rw [touch_fst]; simp [unit, hr, GOut.forget], ?_⟩
    intro k o hk
    have hk1 : t1.w.getObs k = some (o.deletedEdge e0) := by
      rw [ht1, liftW_getObs, hk, h1]
      simp [GOut.state, hp1, hw.quiet, Obs.notify]
    refine ⟨o.deletedEdge e0, by rw [touch_w]; show (t1.liftW (t1.w.g.link f n)).2.w.getObs k = _; rw [hobs, hk1],
      edgeFromGid_fresh hw1 hk1 (Nat.le_of_eq hne), Or.inr ⟨e0, ?_, rfl⟩⟩
    simp [T.edgeToFather, hfa, G.getEdge, hO0]

/-- the object-level `setFather` with an edge object goes through once its three stages do: the refusal test lets the
object pass, the graph-level `setFatherG` succeeds, and `associateEdge` finds the object free and the new edge bare -/
theorem setFather_ok_of {tw : TW} {k : Nat} {a f x : Obj} {o o1 : Obs} {ia ifa e : Nat} {u : Unit} {gq : G}
    (hk : tw.w.getObs k = some o) (ha : find a o.Ng = some ia) (hf : find f o.Ng = some ifa)
    (href : ∀ ex, find x o.Eg = some ex → T.hasFather tw.w.g ia = some true ∧ T.edgeToFather tw.w.g ia = some ex)
    (hok : (tw.setFatherG ia ifa).1 = .ok u gq)
    (he : (tw.setFatherG ia ifa).2.w.g.getEdge ifa ia = some e)
    (hk1 : (tw.setFatherG ia ifa).2.w.getObs k = some o1)
    (hx1 : o1.hasEdge x = false) (hlive : (tw.setFatherG ia ifa).2.w.g.hasEdge e = true)
    (hfresh : o1.edgeFromGid e = none) :
    (tw.setFather k a f (some x)).1 = .ok := by
  have hofg : ofG (tw.setFatherG ia ifa) = (.ok, (tw.setFatherG ia ifa).2) := by unfold ofG; rw [hok]
  have hass : ∃ o2, World.associateEdge (tw.setFatherG ia ifa).2.w.g o1 x e = .ok o2 := by
    unfold World.associateEdge
    simp [hx1, hlive, hfresh]
  obtain ⟨o2, hass⟩ := hass
  unfold setFather
  simp only [hk, ha, hf]
  rcases hfx : find x o.Eg with _ | ex
  · simp only [hofg, he, hk1, hass]
  · obtain ⟨h1, h2⟩ := href ex hfx
    simp only [h1, h2, ne_eq, not_true_eq_false, decide_false, hofg, he, hk1, hass]

end TW
end Graph
end Bpp
