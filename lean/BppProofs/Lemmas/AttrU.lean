import BppProofs.Lemmas.TextU
import BppProofs.Lemmas.Vars
import BppModel.Text.AttrU
/-! Helper lemmas for C16, AttributesTools: removeComments, the loops of getAttributesMap,
resolveVariables (UB-aware model `BppModel/Text/AttrU.lean`). -/
namespace Bpp.Text.U
open Bpp.Text Bpp.Text.Keyval

/-- equality of outcomes is decidable (for the concrete instances proved by `decide`) -/
instance attrDecEqR {α : Type} [DecidableEq α] : DecidableEq (R α) := fun a b =>
  match a, b with
  | .ok x, .ok y =>
    if h : x = y then isTrue (by rw [h]) else isFalse (by intro h'; cases h'; exact h rfl)
  | .error x, .error y =>
    if h : x = y then isTrue (by rw [h]) else isFalse (by intro h'; cases h'; exact h rfl)
  | .ok _, .error _ => isFalse (by intro h; cases h)
  | .error _, .ok _ => isFalse (by intro h; cases h)

/-! ### more facts about the primitives -/

/-- the pattern is a prefix of the text at the index found by `findFrom` -/
theorem findFrom_prefix {g s : Str} {pos k : Nat} (h : findFrom g s pos = some k) :
    isPrefix g (s.drop k) = true := by
  unfold findFrom at h
  split at h
  · cases h' : find g (s.drop pos) with
    | none => simp [h'] at h
    | some j =>
      simp only [h', Option.map_some, Option.some.injEq] at h
      have := (Glob.find_some h').1
      rw [List.drop_drop] at this
      subst h
      simpa [Nat.add_comm] using this
  · cases h

theorem find_prefix {g s : Str} {k : Nat} (h : find g s = some k) :
    isPrefix g (s.drop k) = true := (Glob.find_some h).1

/-- two patterns whose first characters differ are not found at the same index -/
theorem prefix_head_ne {b e t : Str} (hb : b ≠ []) (he : e ≠ []) (hne : b.head? ≠ e.head?)
    (h1 : isPrefix b t = true) (h2 : isPrefix e t = true) : False := by
  cases b with
  | nil => exact hb rfl
  | cons x b' =>
    cases e with
    | nil => exact he rfl
    | cons y e' =>
      cases t with
      | nil => simp [isPrefix] at h1
      | cons z t' =>
        simp only [isPrefix, Bool.and_eq_true, beq_iff_eq] at h1 h2
        apply hne
        simp [h1.1, h2.1]

/-- two prefixes of the same text: one is a prefix of the other -/
theorem prefix_of_common {b e t : Str} (h1 : isPrefix b t = true) (h2 : isPrefix e t = true) :
    isPrefix e b = true ∨ isPrefix b e = true := by
  induction t generalizing b e with
  | nil =>
    cases b with
    | nil => right; simp [isPrefix]
    | cons x b' => simp [isPrefix] at h1
  | cons z t' ih =>
    cases b with
    | nil => right; simp [isPrefix]
    | cons x b' =>
      cases e with
      | nil => left; simp [isPrefix]
      | cons y e' =>
        simp only [isPrefix, Bool.and_eq_true, beq_iff_eq] at h1 h2 ⊢
        rcases ih h1.2 h2.2 with h | h
        · left; exact ⟨by rw [h2.1, h1.1], h⟩
        · right; exact ⟨by rw [h2.1, h1.1], h⟩

theorem eraseRange_eq_ok {s t : Str} {a b : Int} (h : eraseRange s a b = .ok t) :
    0 ≤ a ∧ a ≤ b ∧ b ≤ (s.length : Int) ∧ t = s.take a.toNat ++ s.drop b.toNat := by
  unfold eraseRange at h
  split at h
  · rename_i hc; cases h; exact ⟨hc.1, hc.2.1, hc.2.2, rfl⟩
  · cases h

theorem eraseRange_len {s t : Str} {a b : Int} (h : eraseRange s a b = .ok t) :
    t.length ≤ s.length := by
  obtain ⟨h0, h1, h2, rfl⟩ := eraseRange_eq_ok h
  simp only [List.length_append, List.length_take, List.length_drop]
  omega

theorem range_eq_ok {s t : Str} {a b : Int} (h : range s a b = .ok t) :
    0 ≤ a ∧ a ≤ b ∧ b ≤ (s.length : Int) ∧ t = (s.drop a.toNat).take (b.toNat - a.toNat) := by
  unfold range at h
  split at h
  · rename_i hc; cases h; exact ⟨hc.1, hc.2.1, hc.2.2, rfl⟩
  · cases h

/-! ### removeComments -/

theorem rmCommentsLoop_safe (b e : Str) (hbe : isPrefix e b = false) (heb : isPrefix b e = false) :
    ∀ (fuel : Nat) (r : Str) (last : Nat), StrOk r → r.length < fuel →
      safe (rmCommentsLoop b e fuel r last) = true := by
  intro fuel
  induction fuel with
  | zero => intro r last _ h; omega
  | succ n ih =>
    intro r last hr hf
    have hm := maxStr_lt
    unfold StrOk at hr
    unfold rmCommentsLoop
    cases h1 : findFrom b r last with
    | none => simp
    | some first =>
      obtain ⟨b1, b2⟩ := findFrom_bounds h1
      cases h2 : findFrom e r first with
      | none =>
        simp only [h2]
        rw [toPtrdiff_eq (by omega), eraseRange_ok (by omega) (by omega) (by omega)]; rfl
      | some last' =>
        obtain ⟨c1, c2⟩ := findFrom_bounds h2
        have hlt : first < last' := by
          rcases Nat.lt_or_ge first last' with h | h
          · exact h
          · have : last' = first := by omega
            subst this
            rcases prefix_of_common (findFrom_prefix h1) (findFrom_prefix h2) with h | h
            · rw [h] at hbe; cases hbe
            · rw [h] at heb; cases heb
        simp only [h2]
        rw [toPtrdiff_eq (by omega), toPtrdiff_eq (by omega),
          eraseRange_ok (by omega) (by omega) (by omega)]
        simp only [bind_ok, Int.toNat_natCast]
        apply ih
        · unfold StrOk
          simp only [List.length_append, List.length_take, List.length_drop]; omega
        · simp only [List.length_append, List.length_take, List.length_drop]; omega

theorem rmCommentsLoop_alloc (b e : Str) :
    ∀ (fuel : Nat) (r : Str) (last : Nat) (t : Str), rmCommentsLoop b e fuel r last = .ok t →
      t.length ≤ r.length := by
  intro fuel
  induction fuel with
  | zero => intro r last t h; simp [rmCommentsLoop] at h
  | succ n ih =>
    intro r last t h
    unfold rmCommentsLoop at h
    cases h1 : findFrom b r last with
    | none => simp only [h1] at h; cases h; exact Nat.le_refl _
    | some first =>
      simp only [h1] at h
      cases h2 : findFrom e r first with
      | none => simp only [h2] at h; exact eraseRange_len h
      | some last' =>
        simp only [h2] at h
        obtain ⟨r', hr', h'⟩ := bind_eq_ok h
        have := ih _ _ _ h'
        have := eraseRange_len hr'
        omega

/-! ### the cleaning of one line -/

/-- for every pair of marks: refused (the library's exception) or the loop ends -/
theorem removeComments_safe_lem (s b e : Str) (hs : StrOk s) : safe (removeComments s b e) = true := by
  unfold removeComments
  cases hbe : isPrefix e b with
  | true => simp [safe]
  | false =>
    cases heb : isPrefix b e with
    | true => simp [safe]
    | false =>
      simp only [Bool.or_self, Bool.false_eq_true, if_false]
      exact rmCommentsLoop_safe b e hbe heb _ _ _ hs (by omega)

theorem removeComments_alloc_lem (s b e r : Str) (h : removeComments s b e = .ok r) :
    r.length ≤ s.length := by
  unfold removeComments at h
  split at h
  · cases h
  · exact rmCommentsLoop_alloc b e _ _ _ _ h

theorem cleanLine_safe_lem (line : Str) (hs : StrOk line) : safe (cleanLine line) = true := by
  unfold cleanLine
  refine safe_bind (removeComments_safe_lem _ _ _ hs) ?_
  intro a ha
  have h1 : StrOk a := by
    have := removeComments_alloc_lem _ _ _ _ ha; unfold StrOk at *; omega
  refine safe_bind (removeComments_safe_lem _ _ _ h1) ?_
  intro a2 ha2
  have h2 : StrOk a2 := by
    have := removeComments_alloc_lem _ _ _ _ ha2; unfold StrOk at *; omega
  refine safe_bind (removeComments_safe_lem _ _ _ h2) ?_
  intro a3 _
  rfl

theorem cleanLine_alloc_lem (line r : Str) (h : cleanLine line = .ok r) : r.length ≤ line.length := by
  unfold cleanLine at h
  obtain ⟨a, ha, h⟩ := bind_eq_ok h
  obtain ⟨a2, ha2, h⟩ := bind_eq_ok h
  obtain ⟨a3, ha3, h⟩ := bind_eq_ok h
  have h1 := removeComments_alloc_lem _ _ _ _ ha
  have h2 := removeComments_alloc_lem _ _ _ _ ha2
  have h3 := removeComments_alloc_lem _ _ _ _ ha3
  cases h
  have : (removeWhiteSpaces a3).length ≤ a3.length := List.length_filter_le _ _
  omega

theorem mapM_cleanLine_alloc (argv : List Str) :
    ∀ argv2, argv.mapM cleanLine = .ok argv2 → sumLen argv2 ≤ sumLen argv := by
  induction argv with
  | nil => intro argv2 h; simp only [List.mapM_nil] at h; cases h; exact Nat.le_refl _
  | cons a l ih =>
    intro argv2 h
    rw [List.mapM_cons] at h
    obtain ⟨b, hb, h⟩ := bind_eq_ok h
    obtain ⟨bs, hbs, h⟩ := bind_eq_ok h
    cases h
    have := cleanLine_alloc_lem _ _ hb
    have := ih _ hbs
    simp only [sumLen_cons]; omega

theorem mapM_cleanLine_safe (argv : List Str) (hs : sumLen argv ≤ maxStr) :
    safe (argv.mapM cleanLine) = true := by
  induction argv with
  | nil => rfl
  | cons a l ih =>
    rw [List.mapM_cons]
    simp only [sumLen_cons] at hs
    refine safe_bind (cleanLine_safe_lem a (by unfold StrOk; omega)) ?_
    intro b _
    refine safe_bind (ih (by omega)) ?_
    intro bs _
    rfl

/-! ### getAttributesMap: the continuation-joining loop -/

theorem wsub_one_le {a : Nat} (h : 1 ≤ a) : wsub a 1 ≤ a - 1 := by
  unfold wsub SZ
  have : a + (18446744073709551616 - 1 % 18446744073709551616) = (a - 1) + 18446744073709551616 := by
    omega
  rw [this, Nat.add_mod_right]
  exact Nat.mod_le _ _

theorem sumLen_drop_le (l : List Str) (i : Nat) : sumLen (l.drop i) ≤ sumLen l := by
  induction l generalizing i with
  | nil => simp
  | cons a l ih =>
    cases i with
    | zero => simp
    | succ i => simp only [List.drop_succ_cons, sumLen_cons]; have := ih i; omega

theorem sumLen_drop_succ {l : List Str} {i : Nat} (h : i < l.length) :
    sumLen (l.drop i) = l[i].length + sumLen (l.drop (i + 1)) := by
  rw [List.drop_eq_getElem_cons h, sumLen_cons]

theorem sumLen_drop_ge {l : List Str} {i : Nat} (h : l.length ≤ i) : sumLen (l.drop i) = 0 := by
  rw [List.drop_eq_nil_of_le h]; rfl

theorem mem_length_le_sumLen {l : List Str} {a : Str} (h : a ∈ l) : a.length ≤ sumLen l := by
  induction l with
  | nil => cases h
  | cons b l ih =>
    simp only [sumLen_cons]
    rcases List.mem_cons.mp h with rfl | h
    · omega
    · have := ih h; omega

/-- whenever the joining loop (after the repairs) returns: the index did not go back, and the
joined line is made of characters of the lines consumed -/
theorem joinLoop_bounds (argv2 : List Str) :
    ∀ (fuel : Nat) (arg : Str) (i : Nat) (arg' : Str) (i' : Nat),
      joinLoop 2 argv2 fuel arg i = .ok (arg', i') →
      i ≤ i' ∧ arg'.length + sumLen (argv2.drop (i' + 1)) ≤ arg.length + sumLen (argv2.drop (i + 1)) := by
  intro fuel
  induction fuel with
  | zero => intro arg i arg' i' h; simp [joinLoop] at h
  | succ n ih =>
    intro arg i arg' i' h
    unfold joinLoop at h
    by_cases he : arg.isEmpty = true
    · simp only [he, ge_iff_le, Nat.le_refl, decide_true, Bool.and_self, if_true,
        Except.ok.injEq, Prod.mk.injEq] at h
      obtain ⟨rfl, rfl⟩ := h
      exact ⟨Nat.le_refl _, Nat.le_refl _⟩
    · simp only [he, ge_iff_le, Nat.le_refl, decide_true, Bool.and_false, Bool.false_eq_true,
        if_false] at h
      have hlen : 1 ≤ arg.length := by
        cases arg with
        | nil => simp at he
        | cons a t => simp
      obtain ⟨c, hc, h⟩ := bind_eq_ok h
      by_cases hcc : (c != '\\') = true
      · simp only [hcc, if_true] at h
        cases h
        exact ⟨Nat.le_refl _, Nat.le_refl _⟩
      · simp only [hcc] at h
        obtain ⟨head, hh, h⟩ := bind_eq_ok h
        have hhl := (substr_len hh).2
        have hw := wsub_one_le hlen
        by_cases hi : i + 1 < argv2.length
        · simp only [if_true, hi, vecAt_ok hi, bind_ok, bind_pure'] at h
          obtain ⟨h1, h2⟩ := ih _ _ _ _ h
          have := sumLen_drop_succ hi
          simp only [List.length_append] at h2
          exact ⟨by omega, by omega⟩
        · simp only [hi, if_false, bind_pure'] at h
          obtain ⟨h1, h2⟩ := ih _ _ _ _ h
          have e1 := sumLen_drop_ge (l := argv2) (i := i + 1) (by omega)
          have e2 := sumLen_drop_ge (l := argv2) (i := i + 1 + 1) (by omega)
          exact ⟨by omega, by omega⟩

/-- the joining loop (after the repairs) returns: no access out of range (whatever the sizes), and
each round removes one continuation mark from the text still to be read -/
theorem joinLoop_ok (argv2 : List Str) :
    ∀ (fuel : Nat) (arg : Str) (i : Nat),
      arg.length + sumLen (argv2.drop (i + 1)) < fuel →
      ∃ p, joinLoop 2 argv2 fuel arg i = .ok p := by
  intro fuel
  induction fuel with
  | zero => intro arg i h; omega
  | succ n ih =>
    intro arg i hf
    unfold joinLoop
    by_cases he : arg.isEmpty = true
    · exact ⟨(arg, i), by simp [he]⟩
    · simp only [he, ge_iff_le, Nat.le_refl, decide_true, Bool.and_false, Bool.false_eq_true,
        if_false]
      have hlen : 1 ≤ arg.length := by
        cases arg with
        | nil => simp at he
        | cons a t => simp
      have hw := wsub_one_le hlen
      have hlt : wsub arg.length 1 < arg.length := by omega
      rw [strAt_ok hlt, bind_ok]
      by_cases hcc : (arg[wsub arg.length 1] != '\\') = true
      · exact ⟨(arg, i), by simp only [hcc, if_true]; rfl⟩
      · simp only [hcc]
        rw [substr_ok _ (Nat.zero_le _), bind_ok]
        have hhl : ((arg.drop 0).take (wsub arg.length 1)).length ≤ arg.length - 1 := by
          simp only [List.drop_zero, List.length_take]; omega
        by_cases hi : i + 1 < argv2.length
        · simp only [if_true, hi, vecAt_ok hi, bind_ok, bind_pure']
          have := sumLen_drop_succ hi
          apply ih
          simp only [List.length_append]; omega
        · simp only [hi, if_false, bind_pure']
          have e1 := sumLen_drop_ge (l := argv2) (i := i + 1) (by omega)
          have e2 := sumLen_drop_ge (l := argv2) (i := i + 1 + 1) (by omega)
          apply ih
          omega

/-! ### getAttributesMap: the parsing loop -/

theorem parseLoop_safe (argv2 : List Str) (delim : Str) (hs : sumLen argv2 ≤ maxStr) :
    ∀ (fuel i : Nat) (am : Map), argv2.length - i < fuel →
      safe (parseLoop 2 argv2 delim fuel i am) = true := by
  intro fuel
  induction fuel with
  | zero => intro i am h; omega
  | succ n ih =>
    intro i am hf
    unfold parseLoop
    by_cases hi : i < argv2.length
    · simp only [hi, if_true, vecAt_ok hi, bind_ok]
      by_cases he : argv2[i].isEmpty = true
      · simp only [he, if_true]; apply ih; omega
      · simp only [he, Bool.false_eq_true, if_false]
        have hsum := sumLen_drop_succ hi
        have hle := sumLen_drop_le argv2 i
        have hm := maxStr_lt
        obtain ⟨⟨arg', i'⟩, hj⟩ := joinLoop_ok argv2 (joinFuel argv2) argv2[i] i
          (by show _ < sumLen argv2 + 2; omega)
        obtain ⟨j1, j2⟩ := joinLoop_bounds _ _ _ _ _ _ hj
        rw [hj]
        simp only [bind_ok]
        cases hfd : findFrom delim arg' 0 with
        | none => simp only []; apply ih; omega
        | some limit =>
          obtain ⟨_, l2⟩ := findFrom_bounds hfd
          have hw : wadd limit delim.length = limit + delim.length := wadd_eq (by unfold SZ; omega)
          simp only []
          rw [hw, toPtrdiff_eq (by omega), toPtrdiff_eq (by omega),
            range_ok (by omega) (by omega) (by omega), range_ok (by omega) (by omega) (by omega)]
          simp only [bind_ok]
          apply ih; omega
    · simp only [hi, if_false]; rfl

theorem getAttributesMapG_safe (argv : List Str) (delim : Str) (hs : sumLen argv ≤ maxStr) :
    safe (getAttributesMapG 2 argv delim) = true := by
  unfold getAttributesMapG
  refine safe_bind (mapM_cleanLine_safe argv hs) ?_
  intro argv2 h2
  have := mapM_cleanLine_alloc argv argv2 h2
  exact parseLoop_safe argv2 delim (by omega) _ _ _ (by omega)

/-! ### getAttributesMap: the map is made of characters of the lines -/

/-- total number of characters stored in a map -/
def mapSize (m : Map) : Nat := sumLen (m.map (·.1)) + sumLen (m.map (·.2))

theorem mapInsert_size (k v : Str) (m : Map) :
    mapSize (mapInsert k v m) ≤ mapSize m + k.length + v.length := by
  induction m with
  | nil => simp [mapInsert, mapSize]
  | cons kv m ih =>
    obtain ⟨k', v'⟩ := kv
    unfold mapInsert
    split
    · simp only [mapSize, List.map_cons, sumLen_cons]; omega
    · split
      · simp only [mapSize, List.map_cons, sumLen_cons]; omega
      · simp only [mapSize, List.map_cons, sumLen_cons] at ih ⊢; omega

theorem parseLoop_alloc (argv2 : List Str) (delim : Str) (hs : sumLen argv2 ≤ maxStr) :
    ∀ (fuel i : Nat) (am m : Map), parseLoop 2 argv2 delim fuel i am = .ok m →
      mapSize m ≤ mapSize am + sumLen (argv2.drop i) := by
  intro fuel
  induction fuel with
  | zero => intro i am m h; simp [parseLoop] at h
  | succ n ih =>
    intro i am m h
    unfold parseLoop at h
    by_cases hi : i < argv2.length
    · simp only [hi, if_true, vecAt_ok hi, bind_ok] at h
      have hsum := sumLen_drop_succ hi
      have hle := sumLen_drop_le argv2 i
      have hm := maxStr_lt
      by_cases he : argv2[i].isEmpty = true
      · simp only [he, if_true] at h
        have := ih _ _ _ h; omega
      · simp only [he, Bool.false_eq_true, if_false] at h
        obtain ⟨⟨arg', i'⟩, hj, h⟩ := bind_eq_ok h
        obtain ⟨j1, j2⟩ := joinLoop_bounds _ _ _ _ _ _ hj
        simp only [] at h
        cases hfd : findFrom delim arg' 0 with
        | none =>
          simp only [hfd] at h
          have := ih _ _ _ h; omega
        | some limit =>
          simp only [hfd] at h
          obtain ⟨_, l2⟩ := findFrom_bounds hfd
          have hw : wadd limit delim.length = limit + delim.length := wadd_eq (by unfold SZ; omega)
          rw [hw, toPtrdiff_eq (by omega), toPtrdiff_eq (by omega)] at h
          obtain ⟨name, hn, h⟩ := bind_eq_ok h
          obtain ⟨value, hv, h⟩ := bind_eq_ok h
          obtain ⟨_, _, _, rfl⟩ := range_eq_ok hn
          obtain ⟨_, _, _, rfl⟩ := range_eq_ok hv
          have h1 := ih _ _ _ h
          have h2 := mapInsert_size ((arg'.drop (0 : Int).toNat).take (((limit : Nat) : Int).toNat - (0 : Int).toNat))
            ((arg'.drop ((limit + delim.length : Nat) : Int).toNat).take
              (((arg'.length : Nat) : Int).toNat - ((limit + delim.length : Nat) : Int).toNat)) am
          simp only [Int.toNat_natCast, Int.toNat_zero, List.drop_zero, List.length_take,
            List.length_drop, Nat.sub_zero] at h1 h2
          omega
    · simp only [hi, if_false, Except.ok.injEq] at h
      subst h; omega

theorem getAttributesMapG_alloc (argv : List Str) (delim : Str) (m : Map)
    (hs : sumLen argv ≤ maxStr) (h : getAttributesMapG 2 argv delim = .ok m) :
    mapSize m ≤ sumLen argv := by
  unfold getAttributesMapG at h
  obtain ⟨argv2, h2, h⟩ := bind_eq_ok h
  have h3 := mapM_cleanLine_alloc argv argv2 h2
  have h4 := parseLoop_alloc argv2 delim (by omega) _ _ _ _ h
  simp only [List.drop_zero] at h4
  have : mapSize [] = 0 := rfl
  omega

/-! ### resolveVariables: no access out of range, whatever the marks and the fuel -/

theorem resolveOneU_err (code beg en : Char) (am : Map) (key : Str) :
    ∀ (fuel : Nat) (value : Str) (x : Err),
      resolveOneU code beg en am key fuel value = .error x → x = .bpp ∨ x = .hang := by
  intro fuel
  induction fuel with
  | zero => intro v x h; simp only [resolveOneU, Except.error.injEq] at h; exact Or.inr h.symm
  | succ n ih =>
    intro v x h
    unfold resolveOneU at h
    cases h1 : find [code, beg] v with
    | none => simp [h1] at h
    | some i1 =>
      simp only [h1] at h
      have b1 := find_bounds h1
      cases h2 : findFrom [en] v i1 with
      | none => simp only [h2, Except.error.injEq] at h; exact Or.inl h.symm
      | some i2 =>
        simp only [h2] at h
        obtain ⟨c1, c2⟩ := findFrom_bounds h2
        have w1 := wadd_le i1 2
        have w2 := wadd_le i2 1
        simp only [List.length_cons, List.length_nil] at b1 c2
        have hA : wadd i1 2 ≤ v.length := by omega
        have hB : 0 ≤ v.length := by omega
        have hC : wadd i2 1 ≤ v.length := by omega
        simp only [substr_ok (s := v) (pos := wadd i1 2) _ hA, substr_ok (s := v) (pos := 0) _ hB,
          substrFrom_ok hC, bind_ok] at h
        exact ih _ _ h

theorem resolveKeysU_err (code beg en : Char) (fuel : Nat) :
    ∀ (ks : List Str) (am : Map) (x : Err),
      resolveKeysU code beg en fuel ks am = .error x → x = .bpp ∨ x = .hang := by
  intro ks
  induction ks with
  | nil => intro am x h; simp [resolveKeysU] at h
  | cons k ks ih =>
    intro am x h
    unfold resolveKeysU at h
    cases h1 : mapFind k am with
    | none => simp only [h1] at h; exact ih _ _ h
    | some v =>
      simp only [h1] at h
      cases h2 : resolveOneU code beg en am k fuel v with
      | error y =>
        simp only [h2, bind_err, Except.error.injEq] at h
        subst h
        exact resolveOneU_err _ _ _ _ _ _ _ _ h2
      | ok v' =>
        simp only [h2, bind_ok] at h
        exact ih _ _ h

/-! ### resolveVariables: more rounds do not change an outcome that is not `hang` -/

theorem resolveOneU_mono (code beg en : Char) (am : Map) (key : Str) :
    ∀ (n : Nat) (v : Str), resolveOneU code beg en am key n v ≠ .error .hang →
      resolveOneU code beg en am key (n + 1) v = resolveOneU code beg en am key n v := by
  intro n
  induction n with
  | zero => intro v h; exact absurd rfl h
  | succ n ih =>
    intro v h
    rw [resolveOneU] at h
    rw [resolveOneU, resolveOneU]
    cases h1 : find [code, beg] v with
    | none => rfl
    | some i1 =>
      simp only [h1] at h ⊢
      cases h2 : findFrom [en] v i1 with
      | none => rfl
      | some i2 =>
        simp only [h2] at h ⊢
        cases h3 : substr v (wadd i1 2) (wsub (wsub i2 i1) 2) with
        | error x => rfl
        | ok varName =>
          simp only [h3, bind_ok] at h ⊢
          cases h4 : substr v 0 i1 with
          | error x => rfl
          | ok pre =>
            simp only [h4, bind_ok] at h ⊢
            cases h5 : substrFrom v (wadd i2 1) with
            | error x => rfl
            | ok post =>
              simp only [h5, bind_ok] at h ⊢
              exact ih _ h

theorem resolveKeysU_mono (code beg en : Char) (n : Nat) :
    ∀ (ks : List Str) (am : Map), resolveKeysU code beg en n ks am ≠ .error .hang →
      resolveKeysU code beg en (n + 1) ks am = resolveKeysU code beg en n ks am := by
  intro ks
  induction ks with
  | nil => intro am _; rfl
  | cons k ks ih =>
    intro am h
    rw [resolveKeysU] at h ⊢
    rw [resolveKeysU.eq_def code beg en n (k :: ks) am]
    cases h1 : mapFind k am with
    | none => simp only [h1] at h ⊢; exact ih _ h
    | some v =>
      simp only [h1] at h ⊢
      have hv : resolveOneU code beg en am k n v ≠ .error .hang := by
        intro hc; rw [hc] at h; exact h rfl
      rw [resolveOneU_mono _ _ _ _ _ _ _ hv]
      cases h2 : resolveOneU code beg en am k n v with
      | error x => rfl
      | ok v' =>
        simp only [h2, bind_ok] at h ⊢
        exact ih _ h

theorem resolveVariablesU_mono (code beg en : Char) (am : Map) (n : Nat)
    (h : resolveVariablesU code beg en n am ≠ .error .hang) :
    ∀ n', n ≤ n' → resolveVariablesU code beg en n' am = resolveVariablesU code beg en n am := by
  intro n' hn
  induction n' with
  | zero => have : n = 0 := by omega
            subst this; rfl
  | succ m ih =>
    by_cases hm : n = m + 1
    · subst hm; rfl
    · have e := ih (by omega)
      unfold resolveVariablesU at *
      rw [resolveKeysU_mono _ _ _ _ _ _ (by rw [e]; exact h), e]

/-! ### resolveVariables with the default marks is C17's functional model

`Vars.resolveOne` tests the fuel after `find` (`n` = substitutions allowed), `resolveOneU` before
(`n` = rounds of the `while` test allowed): `n` substitutions are `n + 1` rounds.  The `size_t`
arithmetic of the code does not wrap as long as the values are `std::string`s (`StrOk`). -/

/-- the value after one substitution (as in `Vars.resolveOne`) -/
def nextVal (am : Map) (key value : Str) (i1 i2 : Nat) : Str :=
  let varName := (value.drop (i1 + 2)).take (i2 - i1 - 2)
  let found := if varName == key then some value else mapFind varName am
  let varValue := match found with
    | none => []
    | some vv => if vv == value then [] else vv
  value.take i1 ++ varValue ++ value.drop (i2 + 1)

theorem resolveOne_none (am : Map) (key : Str) (n : Nat) (v : Str)
    (h1 : find ['$', '('] v = none) : Vars.resolveOne am key n v = .done v := by
  rw [Vars.resolveOne]; simp only [h1]

theorem resolveOne_zero_some (am : Map) (key : Str) (v : Str) (i1 : Nat)
    (h1 : find ['$', '('] v = some i1) : Vars.resolveOne am key 0 v = .diverge := by
  rw [Vars.resolveOne]; simp only [h1]

theorem resolveOne_unclosed (am : Map) (key : Str) (n : Nat) (v : Str) (i1 : Nat)
    (h1 : find ['$', '('] v = some i1) (h2 : findFrom [')'] v i1 = none) :
    Vars.resolveOne am key (n + 1) v = .exc := by
  rw [Vars.resolveOne]; simp only [h1, h2]

theorem resolveOne_succ (am : Map) (key : Str) (n : Nat) (v : Str) (i1 i2 : Nat)
    (h1 : find ['$', '('] v = some i1) (h2 : findFrom [')'] v i1 = some i2) :
    Vars.resolveOne am key (n + 1) v = Vars.resolveOne am key n (nextVal am key v i1 i2) := by
  rw [Vars.resolveOne]; simp only [h1, h2]; rfl

/-- with the default marks the closing mark is at least two characters after the opening one -/
theorem close_after_open {v : Str} {i1 i2 : Nat} (h1 : find ['$', '('] v = some i1)
    (h2 : findFrom [')'] v i1 = some i2) : i1 + 2 ≤ i2 := by
  obtain ⟨c1, _⟩ := findFrom_bounds h2
  obtain ⟨t, ht⟩ := Glob.isPrefix_iff.mp (find_prefix h1)
  have p2 := findFrom_prefix h2
  rcases Nat.lt_or_ge i2 (i1 + 2) with hlt | hge
  · exfalso
    have hc : i2 = i1 ∨ i2 = i1 + 1 := by omega
    rcases hc with rfl | rfl
    · rw [ht] at p2; simp [isPrefix] at p2
    · have : v.drop (i1 + 1) = '(' :: t := by
        rw [← List.drop_drop, ht]; rfl
      rw [this] at p2; simp [isPrefix] at p2
  · exact hge

theorem resolveOneU_none (am : Map) (key : Str) (n : Nat) (v : Str)
    (h1 : find ['$', '('] v = none) : resolveOneU '$' '(' ')' am key (n + 1) v = .ok v := by
  rw [resolveOneU]; simp only [h1]

theorem resolveOneU_unclosed (am : Map) (key : Str) (n : Nat) (v : Str) (i1 : Nat)
    (h1 : find ['$', '('] v = some i1) (h2 : findFrom [')'] v i1 = none) :
    resolveOneU '$' '(' ')' am key (n + 1) v = .error .bpp := by
  rw [resolveOneU]; simp only [h1, h2]

/-- one round of the UB-aware loop on a `std::string` is one substitution of the C17 model -/
theorem resolveOneU_succ (am : Map) (key : Str) (n : Nat) (v : Str) (i1 i2 : Nat) (hv : StrOk v)
    (h1 : find ['$', '('] v = some i1) (h2 : findFrom [')'] v i1 = some i2) :
    resolveOneU '$' '(' ')' am key (n + 1) v
      = resolveOneU '$' '(' ')' am key n (nextVal am key v i1 i2) := by
  have b1 := find_bounds h1
  obtain ⟨c1, c2⟩ := findFrom_bounds h2
  have hc := close_after_open h1 h2
  have hm := maxStr_lt
  unfold StrOk at hv
  simp only [List.length_cons, List.length_nil] at b1 c2
  have e1 : wadd i1 2 = i1 + 2 := wadd_eq (by unfold SZ; omega)
  have e2 : wsub i2 i1 = i2 - i1 := wsub_eq (by omega) (by unfold SZ; omega)
  have e3 : wsub (i2 - i1) 2 = i2 - i1 - 2 := wsub_eq (by omega) (by unfold SZ; omega)
  have e4 : wadd i2 1 = i2 + 1 := wadd_eq (by unfold SZ; omega)
  rw [resolveOneU]
  simp only [h1, h2, e1, e2, e3, e4]
  simp only [substr_ok (s := v) (pos := i1 + 2) _ (by omega), substr_ok (s := v) (pos := 0) _ (Nat.zero_le _),
    substrFrom_ok (s := v) (pos := i2 + 1) (by omega), bind_ok, List.drop_zero]
  rfl

/-- every value to which the C17 loop applies a substitution is a `std::string` -/
def oneOk (am : Map) (key : Str) : Nat → Str → Bool
  | 0, _ => true
  | n + 1, value =>
    match find ['$', '('] value with
    | none => true
    | some i1 =>
      match findFrom [')'] value i1 with
      | none => true
      | some i2 => decide (StrOk value) && oneOk am key n (nextVal am key value i1 i2)

theorem oneOk_zero (am : Map) (key v : Str) : oneOk am key 0 v = true := by rw [oneOk]

theorem oneOk_none (am : Map) (key : Str) (n : Nat) (v : Str) (h1 : find ['$', '('] v = none) :
    oneOk am key (n + 1) v = true := by
  rw [oneOk]; simp only [h1]

theorem oneOk_unclosed (am : Map) (key : Str) (n : Nat) (v : Str) (i1 : Nat)
    (h1 : find ['$', '('] v = some i1) (h2 : findFrom [')'] v i1 = none) :
    oneOk am key (n + 1) v = true := by
  rw [oneOk]; simp only [h1, h2]

theorem oneOk_succ (am : Map) (key : Str) (n : Nat) (v : Str) (i1 i2 : Nat)
    (h1 : find ['$', '('] v = some i1) (h2 : findFrom [')'] v i1 = some i2) :
    oneOk am key (n + 1) v = (decide (StrOk v) && oneOk am key n (nextVal am key v i1 i2)) := by
  rw [oneOk]; simp only [h1, h2]

theorem one_sim (am : Map) (key : Str) :
    ∀ (n : Nat) (v : Str), oneOk am key n v = true →
      (∀ v', Vars.resolveOne am key n v = .done v' →
        resolveOneU '$' '(' ')' am key (n + 1) v = .ok v' ∧
        (resolveOneU '$' '(' ')' am key n v = .ok v' ∨
          resolveOneU '$' '(' ')' am key n v = .error .hang)) ∧
      (Vars.resolveOne am key n v = .exc →
        resolveOneU '$' '(' ')' am key (n + 1) v = .error .bpp) ∧
      (Vars.resolveOne am key n v = .diverge →
        resolveOneU '$' '(' ')' am key n v = .error .hang) := by
  intro n
  induction n with
  | zero =>
    intro v _
    cases h1 : find ['$', '('] v with
    | none =>
      rw [resolveOne_none _ _ _ _ h1, resolveOneU_none _ _ _ _ h1]
      refine ⟨?_, ?_, ?_⟩
      · intro v' h; cases h
        exact ⟨rfl, Or.inr rfl⟩
      · intro h; cases h
      · intro h; cases h
    | some i1 =>
      rw [resolveOne_zero_some _ _ _ _ h1]
      refine ⟨?_, ?_, ?_⟩
      · intro v' h; cases h
      · intro h; cases h
      · intro _; rfl
  | succ n ih =>
    intro v hok
    cases h1 : find ['$', '('] v with
    | none =>
      rw [resolveOne_none _ _ _ _ h1, resolveOneU_none _ _ _ _ h1, resolveOneU_none _ _ _ _ h1]
      refine ⟨?_, ?_, ?_⟩
      · intro v' h; cases h
        exact ⟨rfl, Or.inl rfl⟩
      · intro h; cases h
      · intro h; cases h
    | some i1 =>
      cases h2 : findFrom [')'] v i1 with
      | none =>
        rw [resolveOne_unclosed _ _ _ _ _ h1 h2, resolveOneU_unclosed _ _ _ _ _ h1 h2]
        refine ⟨?_, ?_, ?_⟩
        · intro v' h; cases h
        · intro _; rfl
        · intro h; cases h
      | some i2 =>
        rw [oneOk_succ _ _ _ _ _ _ h1 h2] at hok
        simp only [Bool.and_eq_true, decide_eq_true_eq] at hok
        rw [resolveOne_succ _ _ _ _ _ _ h1 h2, resolveOneU_succ _ _ _ _ _ _ hok.1 h1 h2,
          resolveOneU_succ _ _ _ _ _ _ hok.1 h1 h2]
        exact ih _ hok.2

/-- … for every entry visited by the `for` loop -/
def keysOk (fuel : Nat) : List Str → Map → Bool
  | [], _ => true
  | k :: ks, am =>
    match mapFind k am with
    | none => keysOk fuel ks am
    | some v =>
      oneOk am k fuel v &&
        (match Vars.resolveOne am k fuel v with
          | .done v' => keysOk fuel ks (Vars.mapSet k v' am)
          | _ => true)

/-- every string built by C17's `resolveVariables fuel am` is a `std::string` -/
def runOk (fuel : Nat) (am : Map) : Bool := keysOk fuel (am.map (·.1)) am

theorem keys_sim (fuel : Nat) :
    ∀ (ks : List Str) (am : Map), keysOk fuel ks am = true →
      (∀ m, Vars.resolveKeys fuel ks am = .ok m →
        resolveKeysU '$' '(' ')' (fuel + 1) ks am = .ok m ∧
        (resolveKeysU '$' '(' ')' fuel ks am = .ok m ∨
          resolveKeysU '$' '(' ')' fuel ks am = .error .hang)) ∧
      (Vars.resolveKeys fuel ks am = .exc →
        resolveKeysU '$' '(' ')' (fuel + 1) ks am = .error .bpp) ∧
      (Vars.resolveKeys fuel ks am = .diverge →
        resolveKeysU '$' '(' ')' fuel ks am = .error .hang) := by
  intro ks
  induction ks with
  | nil =>
    intro am _
    simp only [Vars.resolveKeys, resolveKeysU]
    refine ⟨?_, ?_, ?_⟩
    · intro m h; cases h; exact ⟨rfl, Or.inl rfl⟩
    · intro h; cases h
    · intro h; cases h
  | cons k ks ih =>
    intro am hok
    rw [keysOk] at hok
    rw [Vars.resolveKeys, resolveKeysU, resolveKeysU.eq_def '$' '(' ')' fuel (k :: ks) am]
    cases h1 : mapFind k am with
    | none =>
      simp only [h1] at hok ⊢
      exact ih _ hok
    | some v =>
      simp only [h1, Bool.and_eq_true] at hok ⊢
      obtain ⟨s1, s2, s3⟩ := one_sim am k fuel v hok.1
      cases h2 : Vars.resolveOne am k fuel v with
      | done v' =>
        obtain ⟨u1, u2⟩ := s1 v' h2
        have hk := hok.2
        simp only [h2] at hk
        obtain ⟨t1, t2, t3⟩ := ih _ hk
        dsimp only []
        rw [u1, bind_ok]
        rcases u2 with u2 | u2
        · rw [u2, bind_ok]
          exact ⟨t1, t2, t3⟩
        · rw [u2, bind_err]
          refine ⟨?_, t2, ?_⟩
          · intro m hm; exact ⟨(t1 m hm).1, Or.inr rfl⟩
          · intro _; rfl
      | exc =>
        dsimp only []
        rw [s2 h2, bind_err]
        refine ⟨?_, ?_, ?_⟩
        · intro m h; cases h
        · intro _; rfl
        · intro h; cases h
      | diverge =>
        dsimp only []
        rw [s3 h2, bind_err]
        refine ⟨?_, ?_, ?_⟩
        · intro m h; cases h
        · intro h; cases h
        · intro _; rfl

/-! ### `runOk` at one fuel on which C17's model returns gives `runOk` at every fuel -/

theorem resolveOne_done_succ (am : Map) (key : Str) :
    ∀ (n : Nat) (v v' : Str), Vars.resolveOne am key n v = .done v' →
      Vars.resolveOne am key (n + 1) v = .done v' ∧ oneOk am key (n + 1) v = oneOk am key n v := by
  intro n
  induction n with
  | zero =>
    intro v v' h
    cases h1 : find ['$', '('] v with
    | none =>
      rw [resolveOne_none _ _ _ _ h1] at h ⊢
      exact ⟨h, by rw [oneOk_none _ _ _ _ h1, oneOk_zero]⟩
    | some i1 => rw [resolveOne_zero_some _ _ _ _ h1] at h; cases h
  | succ n ih =>
    intro v v' h
    cases h1 : find ['$', '('] v with
    | none =>
      rw [resolveOne_none _ _ _ _ h1] at h ⊢
      exact ⟨h, by rw [oneOk_none _ _ _ _ h1, oneOk_none _ _ _ _ h1]⟩
    | some i1 =>
      cases h2 : findFrom [')'] v i1 with
      | none => rw [resolveOne_unclosed _ _ _ _ _ h1 h2] at h; cases h
      | some i2 =>
        rw [resolveOne_succ _ _ _ _ _ _ h1 h2] at h ⊢
        obtain ⟨a1, a2⟩ := ih _ _ h
        refine ⟨a1, ?_⟩
        rw [oneOk_succ _ _ _ _ _ _ h1 h2, oneOk_succ _ _ _ _ _ _ h1 h2, a2]

theorem oneOk_pred (am : Map) (key : Str) :
    ∀ (n : Nat) (v : Str), oneOk am key (n + 1) v = true → oneOk am key n v = true := by
  intro n
  induction n with
  | zero => intro v _; exact oneOk_zero _ _ _
  | succ n ih =>
    intro v h
    cases h1 : find ['$', '('] v with
    | none => exact oneOk_none _ _ _ _ h1
    | some i1 =>
      cases h2 : findFrom [')'] v i1 with
      | none => exact oneOk_unclosed _ _ _ _ _ h1 h2
      | some i2 =>
        rw [oneOk_succ _ _ _ _ _ _ h1 h2, Bool.and_eq_true] at h ⊢
        exact ⟨h.1, ih _ h.2⟩

theorem keysOk_pred (n : Nat) :
    ∀ (ks : List Str) (am : Map), keysOk (n + 1) ks am = true → keysOk n ks am = true := by
  intro ks
  induction ks with
  | nil => intro am _; rfl
  | cons k ks ih =>
    intro am h
    rw [keysOk] at h ⊢
    cases h1 : mapFind k am with
    | none => simp only [h1] at h ⊢; exact ih _ h
    | some v =>
      simp only [h1, Bool.and_eq_true] at h ⊢
      refine ⟨oneOk_pred _ _ _ _ h.1, ?_⟩
      cases h2 : Vars.resolveOne am k n v with
      | done v' =>
        have h3 := (resolveOne_done_succ am k n v v' h2).1
        have hk := h.2
        simp only [h3] at hk
        exact ih _ hk
      | exc => rfl
      | diverge => rfl

theorem keysOk_succ (n : Nat) :
    ∀ (ks : List Str) (am m : Map), Vars.resolveKeys n ks am = .ok m → keysOk n ks am = true →
      Vars.resolveKeys (n + 1) ks am = .ok m ∧ keysOk (n + 1) ks am = true := by
  intro ks
  induction ks with
  | nil => intro am m h _; exact ⟨h, rfl⟩
  | cons k ks ih =>
    intro am m h hok
    rw [Vars.resolveKeys] at h ⊢
    rw [keysOk] at hok ⊢
    cases h1 : mapFind k am with
    | none => simp only [h1] at h hok ⊢; exact ih _ _ h hok
    | some v =>
      simp only [h1, Bool.and_eq_true] at h hok ⊢
      cases h2 : Vars.resolveOne am k n v with
      | done v' =>
        obtain ⟨a1, a2⟩ := resolveOne_done_succ am k n v v' h2
        have hk := hok.2
        simp only [h2] at h hk
        obtain ⟨b1, b2⟩ := ih _ _ h hk
        simp only [a1, a2, hok.1, b1, b2, and_self]
      | exc => simp only [h2] at h; cases h
      | diverge => simp only [h2] at h; cases h

/-- to know that no string longer than a `std::string` is ever built it is enough to check one
run of the C17 model that returns -/
theorem runOk_all (F : Nat) (am m : Map) (h : Vars.resolveVariables F am = .ok m)
    (hs : runOk F am = true) : ∀ fuel, runOk fuel am = true := by
  have up : ∀ d, Vars.resolveVariables (F + d) am = .ok m ∧ runOk (F + d) am = true := by
    intro d
    induction d with
    | zero => exact ⟨h, hs⟩
    | succ d ih => exact keysOk_succ _ _ _ _ ih.1 ih.2
  have down : ∀ d, runOk (F - d) am = true := by
    intro d
    induction d with
    | zero => exact hs
    | succ d ih =>
      by_cases hd : F - d = 0
      · have : F - (d + 1) = F - d := by omega
        rw [this]; exact ih
      · have e : F - d = (F - (d + 1)) + 1 := by omega
        rw [e] at ih
        exact keysOk_pred _ _ _ ih
  intro fuel
  by_cases hf : F ≤ fuel
  · have := (up (fuel - F)).2
    have e : F + (fuel - F) = fuel := by omega
    rwa [e] at this
  · have := down (F - fuel)
    have e : F - (F - fuel) = fuel := by omega
    rwa [e] at this

/-! ### the map on which the loop does not end -/

def cyclicMap : Map :=
  [(['a'], ['$', '(', 'b', ')']), (['b'], ['$', '(', 'b', ')', '$', '(', 'b', ')'])]

/-- the value of `a` alternates between `$(b)` and `$(b)$(b)` -/
theorem cyclic_hangs : ∀ n,
    resolveOneU '$' '(' ')' cyclicMap ['a'] n ['$', '(', 'b', ')'] = .error .hang ∧
    resolveOneU '$' '(' ')' cyclicMap ['a'] n ['$', '(', 'b', ')', '$', '(', 'b', ')'] = .error .hang := by
  intro n
  induction n with
  | zero => exact ⟨rfl, rfl⟩
  | succ n ih =>
    constructor
    · rw [resolveOneU_succ cyclicMap ['a'] n ['$', '(', 'b', ')'] 0 3 (by decide) (by decide) (by decide)]
      have e : nextVal cyclicMap ['a'] ['$', '(', 'b', ')'] 0 3
          = ['$', '(', 'b', ')', '$', '(', 'b', ')'] := by decide
      rw [e]; exact ih.2
    · rw [resolveOneU_succ cyclicMap ['a'] n ['$', '(', 'b', ')', '$', '(', 'b', ')'] 0 3
        (by decide) (by decide) (by decide)]
      have e : nextVal cyclicMap ['a'] ['$', '(', 'b', ')', '$', '(', 'b', ')'] 0 3
          = ['$', '(', 'b', ')'] := by decide
      rw [e]; exact ih.1

theorem cyclic_resolve_hangs (fuel : Nat) :
    resolveVariablesU '$' '(' ')' fuel cyclicMap = .error .hang := by
  show resolveKeysU '$' '(' ')' fuel [['a'], ['b']] cyclicMap = .error .hang
  rw [resolveKeysU]
  have : mapFind ['a'] cyclicMap = some ['$', '(', 'b', ')'] := by decide
  simp only [this, (cyclic_hangs fuel).1, bind_err]

end Bpp.Text.U
