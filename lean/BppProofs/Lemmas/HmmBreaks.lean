import BppProofs.Lemmas.Hmm
import BppProofs.Lemmas.HmmCache
/-!
Helper lemmas for C13: `setBreakPoints` validates its argument (`Hmm.breaksOk`, the transcription of
`AbstractHmmLikelihood::checkBreakPoints_`): accepted vectors are exactly the `ValidBreaks`, refused ones
leave the object unchanged, and the break points of every object reached without a raise are valid.
-/
namespace Bpp.Hmm
open Bpp

theorem breaksOkFrom_iff (T : Nat) (prev : Option Nat) (bps : List Nat) :
    breaksOkFrom T prev bps = true ↔
      (∀ q, prev = some q → ∀ b ∈ bps, q < b) ∧ bps.Pairwise (· < ·) ∧ ∀ b ∈ bps, 1 ≤ b ∧ b < T := by
  induction bps generalizing prev with
  | nil => simp [breaksOkFrom]
  | cons b bs ih =>
    simp only [breaksOkFrom, Bool.and_eq_true, ih (some b), List.pairwise_cons, List.mem_cons]
    constructor
    · rintro ⟨⟨h1, h2⟩, h3, h4, h5⟩
      have hb : 1 ≤ b ∧ b < T := by
        simp only [Bool.not_eq_eq_eq_not, Bool.not_true, Bool.or_eq_false_iff, beq_eq_false_iff_ne, ne_eq,
          decide_eq_false_iff_not, Nat.not_le] at h1
        omega
      have h3' := h3 b rfl
      refine ⟨?_, ⟨h3', h4⟩, ?_⟩
      · intro q hq x hx
        subst hq
        simp only [decide_eq_true_eq] at h2
        rcases hx with rfl | hx
        · exact h2
        · have := h3' x hx; omega
      · intro x hx
        rcases hx with rfl | hx
        · exact hb
        · exact h5 x hx
    · rintro ⟨h1, ⟨h2, h3⟩, h4⟩
      have hb := h4 b (Or.inl rfl)
      refine ⟨⟨?_, ?_⟩, ?_, h3, fun x hx => h4 x (Or.inr hx)⟩
      · simp only [Bool.not_eq_eq_eq_not, Bool.not_true, Bool.or_eq_false_iff, beq_eq_false_iff_ne, ne_eq,
          decide_eq_false_iff_not, Nat.not_le]
        omega
      · cases prev with
        | none => rfl
        | some q => simp only [decide_eq_true_eq]; exact h1 q rfl b (Or.inl rfl)
      · intro q hq x hx
        cases hq
        exact h2 x hx

/-- the vectors accepted by `setBreakPoints` are exactly the strictly increasing vectors of positions `1 … T-1` -/
theorem breaksOk_iff (T : Nat) (bps : List Nat) : breaksOk T bps = true ↔ ValidBreaks T bps := by
  unfold breaksOk ValidBreaks
  rw [breaksOkFrom_iff]
  simp

variable {α : Type} [Scalar α]

/-! ### refusal leaves the object unchanged -/

theorem RescObj.setBreaks_refused (o : RescObj α) (bps : List Nat) (h : breaksOk o.tab.T bps = false) :
    o.step (.setBreaks bps) = (o, .exc) := by
  simp [RescObj.step, h]

theorem LogObj.setBreaks_refused [HasIsInf α] (o : LogObj α) (bps : List Nat) (h : breaksOk o.tab.T bps = false) :
    o.step (.setBreaks bps) = (o, .exc) := by
  simp [LogObj.step, h]

theorem LowObj.setBreaks_refused (o : LowObj α) (bps : List Nat) (h : breaksOk o.tab.T bps = false) :
    o.step (.setBreaks bps) = (o, .exc) := by
  simp [LowObj.step, h]

/-! ### the break points of a reachable object are valid -/

/-- break points after a history, as the specification tracks them -/
def bpsAfter (bps : List Nat) : List (Op α) → List Nat
  | [] => bps
  | op :: ops => bpsAfter (nextBps bps op) ops

/-- parameter updates do not change the number of positions (in the C++ it is fixed at construction) -/
def SameLength (T : Nat) (ops : List (Op α)) : Prop :=
  ∀ op ∈ ops, ∀ t, op = Op.setTables t → t.T = T

theorem nextTab_T (t : Tables α) (op : Op α) (T : Nat) (ht : t.T = T) (h : ∀ t', op = Op.setTables t' → t'.T = T) :
    (nextTab t op).T = T := by
  cases op <;> simp only [nextTab] <;> first | exact ht | exact h _ rfl

theorem RescObj.reachable_breaks (o : RescObj α) (hc : o.Consistent) (T : Nat) (hT : o.tab.T = T)
    (hv : breaksOk T o.bps = true) (ops : List (Op α))
    (hne : ∀ a ∈ o.run ops, a ≠ Ans.exc) (hvar : ∀ op ∈ ops, op ≠ Op.d1 "" ∧ op ≠ Op.d2 "")
    (hnm : derivNamesOk o.dVar o.d2Var ops = true) (hlen : SameLength T ops) :
    breaksOk T (bpsAfter o.bps ops) = true := by
  induction ops generalizing o with
  | nil => exact hv
  | cons op ops ih =>
    obtain ⟨hn1, hn2⟩ := derivNamesOk_cons _ _ op ops hnm
    have h0 : (o.step op).2 ≠ Ans.exc := hne _ (by simp [RescObj.run])
    obtain ⟨hc', ht, hb, hdv, hd2v, _⟩ := RescObj.step_spec o hc op h0 (hvar op (by simp)) hn1
    simp only [bpsAfter]
    rw [← hb]
    apply ih (o.step op).1 hc'
    · rw [ht]; exact nextTab_T o.tab op T hT (fun t' h => hlen op (by simp) t' h)
    · rw [hb]
      cases op with
      | setBreaks b =>
        simp only [nextBps]
        by_cases hok : breaksOk o.tab.T b = true
        · rw [← hT]; exact hok
        · have hok' : breaksOk o.tab.T b = false := by simpa using hok
          rw [RescObj.setBreaks_refused o b hok'] at h0
          exact absurd rfl h0
      | _ => exact hv
    · exact fun a h => hne a (by simp [RescObj.run, h])
    · exact fun op' h => hvar op' (by simp [h])
    · rw [hdv, hd2v]; exact hn2
    · exact fun op' h => hlen op' (by simp [h])

theorem LogObj.reachable_breaks [HasIsInf α] (o : LogObj α) (hc : o.Consistent) (T : Nat) (hT : o.tab.T = T)
    (hv : breaksOk T o.bps = true) (ops : List (Op α))
    (hne : ∀ a ∈ o.run ops, a ≠ Ans.exc) (hvar : ∀ op ∈ ops, op ≠ Op.d1 "" ∧ op ≠ Op.d2 "")
    (hnm : derivNamesOk o.dVar o.d2Var ops = true) (hlen : SameLength T ops) :
    breaksOk T (bpsAfter o.bps ops) = true := by
  induction ops generalizing o with
  | nil => exact hv
  | cons op ops ih =>
    obtain ⟨hn1, hn2⟩ := derivNamesOk_cons _ _ op ops hnm
    have h0 : (o.step op).2 ≠ Ans.exc := hne _ (by simp [LogObj.run])
    obtain ⟨hc', ht, hb, hdv, hd2v, _⟩ := LogObj.step_spec o hc op h0 (hvar op (by simp)) hn1
    simp only [bpsAfter]
    rw [← hb]
    apply ih (o.step op).1 hc'
    · rw [ht]; exact nextTab_T o.tab op T hT (fun t' h => hlen op (by simp) t' h)
    · rw [hb]
      cases op with
      | setBreaks b =>
        simp only [nextBps]
        by_cases hok : breaksOk o.tab.T b = true
        · rw [← hT]; exact hok
        · have hok' : breaksOk o.tab.T b = false := by simpa using hok
          rw [LogObj.setBreaks_refused o b hok'] at h0
          exact absurd rfl h0
      | _ => exact hv
    · exact fun a h => hne a (by simp [LogObj.run, h])
    · exact fun op' h => hvar op' (by simp [h])
    · rw [hdv, hd2v]; exact hn2
    · exact fun op' h => hlen op' (by simp [h])

end Bpp.Hmm
