import BppProofs.Lemmas.OptimGolden
/-!
Helper lemmas for C10: `NewtonBacktrackOneDimension` over `ℝ`.
-/
set_option linter.unusedSectionVars false
namespace Bpp.Optim
open Bpp

variable {F : Type} {J : F → PList ℝ → Prop}

/-- the invariant of the backtracking search: the step length to try next is positive -/
structure NBack.Inv (J : F → PList ℝ → Prop) (fold slope : ℝ) (s : St F (NBack ℝ) ℝ) : Prop where
  alam : 0 < s.ext.alam
  j : J s.fn s.core.params
  fold : s.ext.fold = fold
  slope : s.ext.slope = slope

theorem floor_pos (t c : ℝ) (hc : 0 < c) : 0 < (if Scalar.gtb t c = true then t else c) := by
  split
  · rename_i hgt; exact lt_trans hc ((ScalarReal.gtb_iff _ _).1 hgt)
  · exact hc

theorem nbackFirst_pos (g : NBack ℝ) (f : ℝ) : 0 < nbackFirst g f := by
  have hten : (0 : ℝ) < Scalar.ofRat 1 10 := by simp
  unfold nbackFirst
  exact floor_pos _ _ hten

theorem nbackNext_pos (g : NBack ℝ) (f : ℝ) (h : 0 < g.alam) : 0 < nbackNext g f := by
  have hten : (0 : ℝ) < Scalar.ofRat 1 10 := by simp
  have hpos : 0 < Scalar.ofRat 1 10 * g.alam := mul_pos hten h
  unfold nbackNext
  exact floor_pos _ _ hpos

theorem nbackDoStep_spec (I : FunI F ℝ) (g : ℝ → ℝ) (hd : Det I g J) (fold slope : ℝ) (hsl : slope ≤ 0)
    (s s' : St F (NBack ℝ) ℝ) (v : ℝ) (hi : NBack.Inv J fold slope s) (h : nbackDoStep I s = .ok (s', v)) :
    NBack.Inv J fold slope s' ∧ (∃ x, v = g x ∧ value0 s'.core.params = some x) ∧
    (s'.core.tol = true → s.core.tol = false → v ≤ fold ∨ v = g 0) ∧
    s'.core.nbEval = s.core.nbEval ∧ s'.core.nbEvalMax = s.core.nbEvalMax := by
  unfold nbackDoStep at h
  simp only [] at h
  split at h
  · -- no acceptable step
    split at h
    · cases h
    · rename_i sa va he
      simp only [Except.ok.injEq, Prod.mk.injEq] at h
      obtain ⟨rfl, rfl⟩ := h
      obtain ⟨hv, hJ1, hext, ⟨y, hst, hgy⟩, hcore⟩ := evalOwn_spec I g hd _ _ _ _ he hi.j
      refine ⟨⟨by show 0 < sa.ext.alam; rw [hext]; exact hi.alam, hJ1, by show sa.ext.fold = _; rw [hext]; exact hi.fold,
        by show sa.ext.slope = _; rw [hext]; exact hi.slope⟩, ⟨y, hv.trans hgy.symm, hst⟩, fun _ _ => Or.inr ?_, ?_, ?_⟩
      · rw [hv]; simp
      · show sa.core.nbEval = _; rw [hcore]
      · show sa.core.nbEvalMax = _; rw [hcore]
  · split at h
    · cases h
    · rename_i sa f he
      obtain ⟨hv, hJ1, hext, ⟨y, hst, hgy⟩, hcore⟩ := evalOwn_spec I g hd _ _ _ _ he hi.j
      have hcn : sa.core.nbEval = s.core.nbEval ∧ sa.core.nbEvalMax = s.core.nbEvalMax ∧ sa.core.tol = s.core.tol := by
        rw [hcore]; exact ⟨rfl, rfl, rfl⟩
      split at h
      · -- sufficient decrease
        rename_i hdec
        simp only [Except.ok.injEq, Prod.mk.injEq] at h
        obtain ⟨rfl, rfl⟩ := h
        have hdec := (ScalarReal.leb_iff _ _).1 hdec
        refine ⟨⟨hi.alam, hJ1, hi.fold, hi.slope⟩, ⟨y, hv.trans hgy.symm, hst⟩, fun _ _ => Or.inl ?_, hcn.1, hcn.2.1⟩
        have h4 : (0 : ℝ) ≤ Scalar.ofRat 1 10000 := by simp
        have : s.ext.alam * Scalar.ofRat 1 10000 * s.ext.slope ≤ 0 := by
          rw [hi.slope]
          exact mul_nonpos_of_nonneg_of_nonpos (mul_nonneg (le_of_lt hi.alam) h4) hsl
        rw [hi.fold] at hdec
        linarith
      · split at h
        · -- first backtrack
          simp only [Except.ok.injEq, Prod.mk.injEq] at h
          obtain ⟨rfl, rfl⟩ := h
          refine ⟨⟨?_, hJ1, hi.fold, hi.slope⟩, ⟨y, hv.trans hgy.symm, hst⟩, fun ht hf => ?_, hcn.1, hcn.2.1⟩
          · exact nbackFirst_pos _ _
          · exfalso
            have : sa.core.tol = true := ht
            rw [hcn.2.2, hf] at this; cases this
        · -- subsequent backtracks
          simp only [Except.ok.injEq, Prod.mk.injEq] at h
          obtain ⟨rfl, rfl⟩ := h
          refine ⟨⟨?_, hJ1, hi.fold, hi.slope⟩, ⟨y, hv.trans hgy.symm, hst⟩, fun ht hf => ?_, hcn.1, hcn.2.1⟩
          · exact nbackNext_pos _ _ hi.alam
          · exfalso
            have : sa.core.tol = true := ht
            rw [hcn.2.2, hf] at this; cases this

end Bpp.Optim
