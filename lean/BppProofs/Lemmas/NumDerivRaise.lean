import BppProofs.Lemmas.NumDerivCaller
/-!
C12 helper lemmas, part 12 (round 2): after the two repairs
 * the five-point scheme never raises from its probing (a variable with no room for two steps on
   either side gets the NaN marker, the previous parameter is reset) and
 * the only exception `updateDerivatives` lets out of its probing — "Could not compute cross
   derivatives at limit" of the three-point scheme — leaves with the wrapped function back at the
   requested point and its analytical derivatives switched as the wrapper's flags say.
-/
namespace Bpp.NumDeriv
open Bpp Bpp.Scalar

/-! ### five-point scheme -/

/-- the give-up handlers do not raise: the reset only carries a base value -/
theorem giveup_noexc (f : List ℝ → ℝ) {params B : PList ℝ} (hc : Ctx params B) (hfeas : Feas B) {var : Name} {fn : Fn ℝ}
    {p : PList ℝ} (hri : RI f params B var fn p) :
    (if decide (p.length > 1) then fn.setParameters f (subIdx p 1) else (fn, none)).2 = none := by
  obtain ⟨_, q0, rest, rfl, _, _, hrest, hlen, hD⟩ := hri
  cases rest with
  | nil =>
    have : decide ((q0 :: ([] : PList ℝ)).length > 1) = false := by simp
    rw [this]; rfl
  | cons ql r =>
    have hr : r = [] := by
      cases r with
      | nil => rfl
      | cons b r' => simp at hlen
    subst hr
    have : decide ((q0 :: [ql]).length > 1) = true := by simp
    rw [this]
    simp only [if_true]
    have hsub : subIdx (q0 :: [ql]) 1 = [ql] := rfl
    rw [hsub]
    exact setParameters_base_ok f hc hfeas _ hD [ql] (fun q hq => by simp at hq; subst hq; exact hrest q (by simp))
      (by simp [names])

theorem step5_noexc (f : List ℝ → ℝ) {params B : PList ℝ} (hc : Ctx params B) (hfeas : Feas B) {w0 : W ℝ} (lp : Loop ℝ)
    (hLI : LI f params B w0 (fun w => w.f3) lp) (i : Nat) (var : Name) (hvar : has params var = true → var ∈ names B)
    (hlast : lp.lastVar ≠ some var) : (step5 f params lp i var).2 = none := by
  unfold step5
  split
  · rfl
  · rename_i hhas
    have hhas' : has params var = true := by simpa using hhas
    simp only []
    have hLI' := hLI
    obtain ⟨_, hD, hl, _, _⟩ := hLI
    obtain ⟨qv, hqv⟩ : ∃ qv, find? params var = some qv := by
      cases hf : find? params var with
      | none => exact absurd ((has_iff params var).mp hhas') (find?_none hf)
      | some q => exact ⟨q, rfl⟩
    obtain ⟨pv, hpv⟩ : ∃ pv, find? lp.w.fn.params var = some pv := by
      cases hf : find? lp.w.fn.params var with
      | none => exact absurd (hD.names ▸ hvar hhas') (find?_none hf)
      | some q => exact ⟨q, rfl⟩
    have hval : lp.w.fn.valueOf var = .ok pv.value := by unfold Fn.valueOf; rw [hpv]
    split
    · rename_i e' hsube
      exfalso
      cases hlv : lp.lastVar with
      | none =>
        rw [hlv] at hsube
        simp only [] at hsube
        rw [subNames_one params var qv hqv] at hsube; cases hsube
      | some l =>
        obtain ⟨ql, hql⟩ : ∃ ql, find? params l = some ql := by
          cases hf : find? params l with
          | none => exact absurd ((has_iff params l).mp (hl l hlv)) (find?_none hf)
          | some q => exact ⟨q, rfl⟩
        rw [hlv] at hsube
        simp only [] at hsube
        rw [subNames_two params var l qv ql hqv hql (fun e => hlast (by rw [hlv, e]))] at hsube; cases hsube
    rename_i p hsub
    have hri := sub_RI f hLI' var p hsub
    rw [hval]
    simp only []
    have hP : P5 f params B var lp.w.fn lp.w.fn p false := ⟨hri, rfl, rfl, rfl, fun x => by cases x⟩
    have h5 := probes5_P5 f hc hP pv.value ((one + Scalar.abs pv.value) * lp.w.h) lp.w.f3
    generalize probes5 f lp.w.fn p pv.value ((one + Scalar.abs pv.value) * lp.w.h) lp.w.f3 = r5 at h5
    rcases r5 with ⟨fn5, p5, o5⟩
    cases o5 with
    | some d => rcases d with ⟨d1, d2⟩; rfl
    | none =>
      simp only [] at h5 ⊢
      rw [giveup_noexc f hc hfeas h5.1]

theorem step5_lastVar (f : List ℝ → ℝ) (params : PList ℝ) (lp : Loop ℝ) (i : Nat) (var : Name) :
    (step5 f params lp i var).1.lastVar = lp.lastVar ∨ (step5 f params lp i var).1.lastVar = some var := by
  unfold step5
  split
  · exact Or.inl rfl
  · simp only []
    repeat' split
    all_goals first | exact Or.inl rfl | exact Or.inr rfl

/-- (repaired) the five-point `updateDerivatives` does not raise when the selection has no
duplicate and only names of the wrapped function -/
theorem update5_noexc (f : List ℝ → ℝ) (w : W ℝ) (params : PList ℝ) (hown : Own w.fn) (hok : w.fn.OK f)
    (hfeas : Feas w.fn.params) (hsync : Synced params w.fn.params) (hpnd : (names params).Nodup)
    (hvars : w.vars.Nodup) (hin : ∀ v ∈ w.vars, v ∈ names w.fn.params) :
    (update5 f w params).2 = none := by
  have hc : Ctx params w.fn.params := ⟨hown.1, hown.2, hsync⟩
  unfold update5
  split
  · simp only []
    have hown0 : Own ((w.fn.enable1 false).enable2 false) := by unfold Own; simp; exact hown
    have hok0 : ((w.fn.enable1 false).enable2 false).OK f := enable2_OK f _ _ (enable1_OK f _ _ hok)
    have h0 := first_set f ((w.fn.enable1 false).enable2 false) hown0 hok0 (by simpa using hsync) hpnd
    have hn0 := setParameters_base_ok f hc hfeas ((w.fn.enable1 false).enable2 false) (S := fun _ => False)
      (by simpa using Dev.refl w.fn.params _) params (fun q hq => hq) hpnd
    rcases hs1 : ((w.fn.enable1 false).enable2 false).setParameters f params with ⟨fn1, e1⟩
    rw [hs1] at h0 hn0
    simp only [] at hn0
    subst hn0
    obtain ⟨g1, g2, g3, _, _⟩ := h0
    simp only [] at g1 g2 g3
    have hp1 : fn1.params = w.fn.params := by have := g1 trivial; simpa using this
    simp only []
    have hLI0 : LI f params w.fn.params { w with fn := fn1, f3 := fn1.fval } (fun w => w.f3)
        { w := { w with fn := fn1, f3 := fn1.fval }, p := [], lastVar := none } :=
      ⟨g2, (by rw [hp1]; exact Dev.refl _ _), (fun l h => by cases h), Frame.refl _, rfl⟩
    have hloopLI := loopGo_LI f (step5 f params) (fun lp h i var r => step5_LI f hc lp h i var r) w.vars 0 _ hLI0
    have hloop := loop_noexc f (step5 f params) (fun lp h i var r => step5_LI f hc lp h i var r)
      (fun lp h i var hv hl => step5_noexc f hc hfeas lp h i var hv hl)
      (step5_lastVar f params) w.vars 0 _ hLI0 (fun l h => by cases h) hvars (fun v hv _ => hin v hv)
    rcases hl : loopGo (step5 f params) w.vars 0 { w := { w with fn := fn1, f3 := fn1.fval }, p := [], lastVar := none } with ⟨lp, e⟩
    rw [hl] at hloop hloopLI
    simp only [] at hloop hloopLI
    subst hloop
    simp only []
    obtain ⟨_, l2, l3, _, _⟩ := hloopLI rfl
    exact finish_noexc f hc hfeas lp.lastVar lp.w l2 l3
  · simp only []
    have hn0 := setParameters_base_ok f hc hfeas ((w.fn.enable1 w.c1).enable2 w.c2)
      (S := fun _ => False) (by simpa using Dev.refl w.fn.params _) params (fun q hq => hq) hpnd
    rcases hs1 : ((w.fn.enable1 w.c1).enable2 w.c2).setParameters f params with ⟨fn1, e1⟩
    rw [hs1] at hn0
    simp only [] at hn0
    subst hn0
    rfl


/-! ### three-point scheme with cross derivatives: the exception at a limit -/

theorem enable2_en2 (fn : Fn ℝ) (b : Bool) (hk : fn.kind ≥ 2) : (fn.enable2 b).en2 = b := by
  unfold Fn.enable2; rw [if_pos hk]
@[simp] theorem enable1_en2 (fn : Fn ℝ) (b : Bool) : (fn.enable1 b).en2 = fn.en2 := by
  unfold Fn.enable1; split <;> rfl

/-- what an exception that leaves the probing of `updateDerivatives` leaves behind: the wrapped
function at the base point `B` with a consistent value, its analytical derivatives switched as the
wrapper's flags say, the wrapper's configuration and value slot untouched -/
structure Restored (f : List ℝ → ℝ) (B : PList ℝ) (w0 w' : W ℝ) : Prop where
  params : w'.fn.params = B
  ok : w'.fn.OK f
  keep : Keep w0 w'
  f2 : w'.f2 = w0.f2
  en1 : w'.fn.kind ≥ 1 → w'.fn.en1 = w0.c1
  en2 : w'.fn.kind ≥ 2 → w'.fn.en2 = w0.c2

/-- the repaired `catch` of the cross-derivative block -/
theorem crossFail_restored (f : List ℝ → ℝ) {params B : PList ℝ} (hc : Ctx params B) (hfeas : Feas B)
    (hpnd : (names params).Nodup) {w0 : W ℝ} (cl : CLoop ℝ) (hfr : Frame w0 cl.w) (hslot : cl.w.f2 = w0.f2)
    (fn : Fn ℝ) {S : Name → Prop} (hD : Dev B fn.params S) (hok : fn.OK f) (hS : ∀ n, S n → has params n = true)
    (hk : fn.kind = w0.fn.kind) :
    (crossFail f params cl fn).2 = some .bpp ∧ Restored f B w0 (crossFail f params cl fn).1.w := by
  have hD' : Dev B ((fn.enable1 cl.w.c1).enable2 cl.w.c2).params S := by simpa using hD
  have hok' : ((fn.enable1 cl.w.c1).enable2 cl.w.c2).OK f := enable2_OK f _ _ (enable1_OK f _ _ hok)
  obtain ⟨g1, g2, g3, g4, g5⟩ := restore_all f hc hpnd _ hD' hok' hS
  have g0 := setParameters_base_ok f hc hfeas _ hD' params (fun q hq => hq) hpnd
  unfold crossFail
  simp only []
  rw [g0]
  refine ⟨rfl, g1 g0, g2, ⟨hfr.scheme, hfr.h, hfr.vars, hfr.c1, hfr.c2, hfr.cx, ?_⟩, hslot, ?_, ?_⟩
  · simp only []; rw [g3]; simpa using hk
  · intro hk1
    simp only [] at hk1 ⊢
    rw [g3] at hk1
    rw [g4, enable2_en1, enable1_en1 _ _ (by simpa using hk1), hfr.c1]
  · intro hk2
    simp only [] at hk2 ⊢
    rw [g3] at hk2
    rw [g5, enable2_en2 _ _ (by simpa using hk2), hfr.c2]

/-- a pair of the cross-derivative block that raises: the exception is the plain Exception of the
repaired `catch`, after restoration -/
theorem crossPair_raise (f : List ℝ → ℝ) {params B : PList ℝ} (hc : Ctx params B) (hfeas : Feas B)
    (hpnd : (names params).Nodup) {w0 : W ℝ} (cl : CLoop ℝ) (hCI : CI f params B w0 cl) (i j : Nat)
    (var1 var2 : Name) (hne : var1 ≠ var2) (hh1 : has params var1 = true) (hh2 : has params var2 = true) :
    ∀ r, crossPair f params cl i j var1 var2 = r → ∀ e, r.2 = some e → e = .bpp ∧ Restored f B w0 r.1.w := by
  intro r hr e he
  obtain ⟨hok, hD, hfr, hslot, hl1, hl2⟩ := hCI
  have hfail : ∀ (fn : Fn ℝ) (S : Name → Prop), Dev B fn.params S → fn.OK f → (∀ n, S n → has params n = true) →
      fn.kind = w0.fn.kind → ∀ r', crossFail f params cl fn = r' → r'.2 = some e → e = .bpp ∧ Restored f B w0 r'.1.w := by
    intro fn S hDf hokf hS hk r' hr' he'
    obtain ⟨a, b⟩ := crossFail_restored f hc hfeas hpnd cl hfr hslot fn hDf hokf hS hk
    subst hr'
    rw [a] at he'
    injection he' with he'
    exact ⟨he'.symm, b⟩
  have hS12 : ∀ n, (n = cl.l1 ∨ n = cl.l2) → has params n = true := by
    rintro n (h | h) <;> (rw [h]; assumption)
  have hSv : ∀ n, (n = var1 ∨ n = var2) → has params n = true := by
    rintro n (h | h) <;> (rw [h]; assumption)
  -- the sub-list exists
  have hvars_in : ∀ n ∈ ([var1, var2]
      ++ (if cl.l1 != var1 && cl.l1 != var2 then [cl.l1] else [])
      ++ (if cl.l2 != var1 && cl.l2 != var2 && cl.l2 != cl.l1 then [cl.l2] else [])), n ∈ names params := by
    intro n hn
    simp only [List.mem_append, List.mem_cons, List.mem_nil_iff, or_false] at hn
    rcases hn with ((h | h) | hn) | hn
    · rw [h]; exact (has_iff params _).mp hh1
    · rw [h]; exact (has_iff params _).mp hh2
    · split at hn
      · simp at hn; subst hn; exact (has_iff params _).mp hl1
      · cases hn
    · split at hn
      · simp at hn; subst hn; exact (has_iff params _).mp hl2
      · cases hn
  have hvars_nd : ([var1, var2]
      ++ (if cl.l1 != var1 && cl.l1 != var2 then [cl.l1] else [])
      ++ (if cl.l2 != var1 && cl.l2 != var2 && cl.l2 != cl.l1 then [cl.l2] else [])).Nodup := by
    by_cases c1 : (cl.l1 != var1 && cl.l1 != var2) = true <;> by_cases c2 : (cl.l2 != var1 && cl.l2 != var2 && cl.l2 != cl.l1) = true
    · simp only [c1, c2, if_true]
      simp only [Bool.and_eq_true, bne_iff_ne, ne_eq] at c1 c2
      simp [hne, Ne.symm c1.1, Ne.symm c1.2, Ne.symm c2.1.1, Ne.symm c2.1.2, Ne.symm c2.2]
    · simp only [c1, c2, if_true, Bool.false_eq_true, if_false]
      simp only [Bool.and_eq_true, bne_iff_ne, ne_eq] at c1
      simp [hne, Ne.symm c1.1, Ne.symm c1.2]
    · simp only [c1, c2, if_true, Bool.false_eq_true, if_false]
      simp only [Bool.and_eq_true, bne_iff_ne, ne_eq] at c2
      simp [hne, Ne.symm c2.1.1, Ne.symm c2.1.2]
    · simp only [c1, c2, Bool.false_eq_true, if_false]
      simp [hne]
  obtain ⟨p', hsub'⟩ := subNames_ok params _ hvars_in hvars_nd
  unfold crossPair at hr
  simp only [] at hr
  split at hr
  · rename_i e' hsube
    rw [hsub'] at hsube; cases hsube
  · rename_i p hsub
    obtain ⟨hn, hmem, hnd⟩ := subNames_spec params _ p hsub
    split at hr
    · rename_i p0 p1 rest
      simp only [names, List.map_cons, List.cons_append, List.nil_append, List.cons.injEq] at hn
      obtain ⟨hn0, hn1, hnr⟩ := hn
      split at hr
      · exact hfail _ _ hD hok hS12 hfr.kind r hr he
      · rename_i p0a hs0
        obtain ⟨hna, _, _, _⟩ := setValue_name p0 p0a _ hs0
        split at hr
        · exact hfail _ _ hD hok hS12 hfr.kind r hr he
        · rename_i p1a hs1
          obtain ⟨hnb, _, _, _⟩ := setValue_name p1 p1a _ hs1
          have hnd' : (names (p0a :: p1a :: rest)).Nodup := by
            simp only [names, List.map_cons] at hnd ⊢; rw [hna, hnb]; exact hnd
          have hsp := setParameters_dev f hc cl.w.fn (p0a :: p1a :: rest) hnd' (fun m => m = var1 ∨ m = var2) hD hok
            (by
              intro b hb hnb'
              have e0 : p0a.name ≠ b.name := by rw [hna, hn0]; exact fun e => hnb' (Or.inl e.symm)
              have e1 : p1a.name ≠ b.name := by rw [hnb, hn1]; exact fun e => hnb' (Or.inr e.symm)
              rw [find?_cons_ne _ _ _ e0, find?_cons_ne _ _ _ e1]
              cases hf : find? rest b.name with
              | some q =>
                simp only []
                have := find?_some hf
                exact (hc.sync q (hmem q (by simp [this.1])) b hb this.2.symm).symm
              | none =>
                simp only []
                have hnr' : b.name ∉ rest.map (·.name) := find?_none hf
                rw [hnr] at hnr'
                rintro (h | h)
                · apply hnr'
                  have c1 : cl.l1 ≠ var1 := fun e => hnb' (Or.inl (h.trans e))
                  have c2 : cl.l1 ≠ var2 := fun e => hnb' (Or.inr (h.trans e))
                  simp [c1, c2, h]
                · apply hnr'
                  have c1 : cl.l2 ≠ var1 := fun e => hnb' (Or.inl (h.trans e))
                  have c2 : cl.l2 ≠ var2 := fun e => hnb' (Or.inr (h.trans e))
                  by_cases c3 : cl.l2 = cl.l1
                  · have d1 : cl.l1 ≠ var1 := c3 ▸ c1
                    have d2 : cl.l1 ≠ var2 := c3 ▸ c2
                    simp [d1, d2, h, c3]
                  · simp [c1, c2, c3, h])
          split at hr
          · rename_i fn1 ex hsp1
            rw [hsp1] at hsp
            have : fn1 = cl.w.fn := hsp.2.1 (by simp)
            subst this
            exact hfail _ _ hD hok hS12 hfr.kind r hr he
          · rename_i fn1 hsp1
            rw [hsp1] at hsp
            obtain ⟨g1, _, g3, g4, g5, g6⟩ := hsp
            have hD1 := g1 rfl
            simp only [] at g3 g4 g5 g6 hD1
            have hk1 : fn1.kind = w0.fn.kind := by rw [g4, hfr.kind]
            have k1 := setEval_keep f hc fn1 p1a (p1.value + (one + Scalar.abs p1.value) * cl.w.h) hD1 g3
              (Or.inr (by rw [hnb, hn1]))
            split at hr
            · rename_i fn2 hse1
              rw [hse1] at k1
              exact hfail _ _ k1.1 k1.2.1 hSv (by rw [k1.2.2.1, hk1]) r hr he
            · rename_i fn2 p1b f12 hse1
              rw [hse1] at k1
              obtain ⟨a1, a2, a3, a4, a5, a6⟩ := k1
              simp only [] at a1 a2 a3 a4 a5
              have hp1b : p1b.name = var2 := by rw [a6 p1b f12 rfl, hnb, hn1]
              have k2 := setEval_keep f hc fn2 p0a (p0.value + (one + Scalar.abs p0.value) * cl.w.h) a1 a2
                (Or.inl (by rw [hna, hn0]))
              split at hr
              · rename_i fn3 hse2
                rw [hse2] at k2
                exact hfail _ _ k2.1 k2.2.1 hSv (by rw [k2.2.2.1, a3, hk1]) r hr he
              · rename_i fn3 _x f22 hse2
                rw [hse2] at k2
                obtain ⟨b1, b2, b3, b4, b5, _⟩ := k2
                simp only [] at b1 b2 b3 b4 b5
                have k3 := setEval_keep f hc fn3 p1b (p1.value - (one + Scalar.abs p1.value) * cl.w.h) b1 b2
                  (Or.inr hp1b)
                split at hr
                · rename_i fn4 hse3
                  rw [hse3] at k3
                  exact hfail _ _ k3.1 k3.2.1 hSv (by rw [k3.2.2.1, b3, a3, hk1]) r hr he
                · subst hr; simp at he
    · rename_i hno
      exfalso
      cases p with
      | nil => simp [names] at hn
      | cons a l =>
        cases l with
        | nil =>
          simp only [names, List.map_cons, List.map_nil, List.cons_append, List.nil_append] at hn
          injection hn with _ hn
          cases hn
        | cons b r' => exact hno a b r' rfl

theorem crossPair_der2 (f : List ℝ → ℝ) (params : PList ℝ) (cl : CLoop ℝ) (i j : Nat) (var1 var2 : Name) :
    (crossPair f params cl i j var1 var2).1.w.der2 = cl.w.der2 := by
  unfold crossPair
  simp only []
  repeat' split
  all_goals rfl

/-- a row: the pairs before the failing one keep the loop invariant -/
theorem crossRow_raise (f : List ℝ → ℝ) {params B : PList ℝ} (hc : Ctx params B) (hfeas : Feas B)
    (hpnd : (names params).Nodup) {w0 : W ℝ} (i : Nat) (var1 : Name) (hh1 : has params var1 = true) :
    ∀ (vs : List Name) (j0 : Nat) (cl : CLoop ℝ), CI f params B w0 cl →
      (∀ k (hk : k < vs.length), j0 + k ≠ i → vs[k] ≠ var1) →
      (∀ k, k < vs.length → j0 + k = i → cl.w.der2[i]? ≠ none) →
      ∀ e, (crossRow f params i var1 vs j0 cl).2 = some e →
        e = .bpp ∧ Restored f B w0 (crossRow f params i var1 vs j0 cl).1.w := by
  intro vs
  induction vs with
  | nil => intro j0 cl _ _ _ e he; simp [crossRow] at he
  | cons v vs ih =>
    intro j0 cl hCI hne hd2 e he
    have hne' : ∀ k (hk : k < vs.length), j0 + 1 + k ≠ i → vs[k] ≠ var1 := by
      intro k hk hki
      have := hne (k + 1) (by simpa using hk) (by omega)
      simpa using this
    unfold crossRow at he ⊢
    by_cases hji : j0 = i
    · rw [if_pos hji] at he ⊢
      cases hd : cl.w.der2[i]? with
      | none => exact absurd hd (hd2 0 (by simp) (by omega))
      | some d =>
        rw [hd] at he
        simp only [] at he ⊢
        have hCI' : CI f params B w0 { cl with w := { cl.w with cross := setAt2 cl.w.cross i j0 d } } := by
          obtain ⟨h1, h2, h3, h4, h5, h6⟩ := hCI
          exact ⟨h1, h2, ⟨h3.scheme, h3.h, h3.vars, h3.c1, h3.c2, h3.cx, h3.kind, h3.en1, h3.en2⟩, h4, h5, h6⟩
        exact ih (j0 + 1) _ hCI' hne' (fun k hk hki => by omega) e he
    · rw [if_neg hji] at he ⊢
      by_cases hhas : has params v = true
      · have hnh : (!has params v) = false := by rw [hhas]; rfl
        rw [hnh] at he ⊢
        simp only [Bool.false_eq_true, if_false] at he ⊢
        have hvne : var1 ≠ v := by
          have := hne 0 (by simp) (by omega)
          simpa using this.symm
        have hraise := crossPair_raise f hc hfeas hpnd cl hCI i j0 var1 v hvne hh1 hhas _ rfl
        have hCI1 := crossPair_CI f hc cl hCI i j0 var1 v _ rfl
        rcases hs : crossPair f params cl i j0 var1 v with ⟨cl1, e1⟩
        rw [hs] at he hraise hCI1
        cases e1 with
        | some e1 =>
          simp only [] at he hraise ⊢
          injection he with he
          subst he
          exact hraise e1 rfl
        | none =>
          simp only [] at he hCI1 ⊢
          refine ih (j0 + 1) cl1 (hCI1 trivial) hne' ?_ e he
          intro k hk hki
          have := hd2 (k + 1) (by simpa using hk) (by omega)
          rw [← crossPair_der2 f params cl i j0 var1 v, hs] at this
          exact this
      · have hnh : (!has params v) = true := by simpa using hhas
        rw [hnh] at he ⊢
        simp only [if_true] at he ⊢
        exact ih (j0 + 1) cl hCI hne' (fun k hk hki => hd2 (k + 1) (by simpa using hk) (by omega)) e he

theorem crossRow_der2 (f : List ℝ → ℝ) (params : PList ℝ) (i : Nat) (var1 : Name) :
    ∀ (vs : List Name) (j : Nat) (cl : CLoop ℝ), (crossRow f params i var1 vs j cl).1.w.der2 = cl.w.der2 := by
  intro vs
  induction vs with
  | nil => intro j cl; rfl
  | cons v vs ih =>
    intro j cl
    unfold crossRow
    split
    · split
      · rfl
      · rw [ih]
    · split
      · exact ih _ _
      · have h := crossPair_der2 f params cl i j var1 v
        rcases hs : crossPair f params cl i j var1 v with ⟨cl', e⟩
        rw [hs] at h
        cases e with
        | some e => exact h
        | none => simp only []; rw [ih]; exact h

/-- all the rows -/
theorem crossGo_raise (f : List ℝ → ℝ) {params B : PList ℝ} (hc : Ctx params B) (hfeas : Feas B)
    (hpnd : (names params).Nodup) {w0 : W ℝ} (all : List Name) (hall : all.Nodup) :
    ∀ (vs : List Name) (i0 : Nat) (cl : CLoop ℝ), CI f params B w0 cl →
      (∃ pre, all = pre ++ vs ∧ pre.length = i0) → (∀ i, i < all.length → cl.w.der2[i]? ≠ none) →
      ∀ e, (crossGo f params all vs i0 cl).2 = some e →
        e = .bpp ∧ Restored f B w0 (crossGo f params all vs i0 cl).1.w := by
  intro vs
  induction vs with
  | nil => intro i0 cl _ _ _ e he; simp [crossGo] at he
  | cons v vs ih =>
    intro i0 cl hCI hpre hd2 e he
    obtain ⟨pre, hpre1, hpre2⟩ := hpre
    have hpre' : ∃ pre', all = pre' ++ vs ∧ pre'.length = i0 + 1 :=
      ⟨pre ++ [v], by rw [hpre1]; simp, by simp [hpre2]⟩
    have hi0 : i0 < all.length := by rw [hpre1]; simp; omega
    have hvi : all[i0] = v := by
      have : all[i0]? = some v := by rw [hpre1, List.getElem?_append_right (by omega)]; simp [hpre2]
      exact (List.getElem?_eq_some_iff.mp this).2
    unfold crossGo at he ⊢
    by_cases hhas : has params v = true
    · have hnh : (!has params v) = false := by rw [hhas]; rfl
      rw [hnh] at he ⊢
      simp only [Bool.false_eq_true, if_false] at he ⊢
      have hrow := crossRow_raise f hc hfeas hpnd i0 v hhas all 0 cl hCI
        (by
          intro k hk hki e'
          simp only [Nat.zero_add] at hki
          have := (List.Nodup.getElem_inj_iff hall (hi := hk) (hj := hi0)).mp (by rw [e', hvi])
          exact hki this)
        (fun k hk hki => hd2 i0 hi0)
      have hrowCI := crossRow_CI f hc i0 v all 0 cl hCI
      have hrowd := crossRow_der2 f params i0 v all 0 cl
      rcases hs : crossRow f params i0 v all 0 cl with ⟨cl1, e1⟩
      rw [hs] at he hrow hrowCI hrowd
      cases e1 with
      | some e1 =>
        simp only [] at he hrow ⊢
        injection he with he
        subst he
        exact hrow e1 rfl
      | none =>
        simp only [] at he hrowCI hrowd ⊢
        exact ih (i0 + 1) cl1 (hrowCI trivial) hpre' (fun i hi => by rw [hrowd]; exact hd2 i hi) e he
    · have hnh : (!has params v) = true := by simpa using hhas
      rw [hnh] at he ⊢
      simp only [if_true] at he ⊢
      exact ih (i0 + 1) cl hCI hpre' hd2 e he

theorem step3_der2_len (f : List ℝ → ℝ) (params : PList ℝ) (lp : Loop ℝ) (i : Nat) (var : Name) :
    (step3 f params lp i var).1.w.der2.length = lp.w.der2.length := by
  unfold step3
  split
  · rfl
  · split
    · rfl
    · simp only []
      repeat' split
      all_goals simp [setAt]

theorem loopGo_der2_len (step : Loop ℝ → Nat → Name → Loop ℝ × Option Exc)
    (hstep : ∀ lp i var, (step lp i var).1.w.der2.length = lp.w.der2.length) :
    ∀ (vs : List Name) (i : Nat) (lp : Loop ℝ), (loopGo step vs i lp).1.w.der2.length = lp.w.der2.length := by
  intro vs
  induction vs with
  | nil => intro i lp; rfl
  | cons v vs ih =>
    intro i lp
    unfold loopGo
    have h := hstep lp i v
    rcases hs : step lp i v with ⟨lp', e⟩
    rw [hs] at h
    cases e with
    | some e => exact h
    | none => simp only []; rw [ih]; exact h

theorem finish_noexc_all (f : List ℝ → ℝ) {params B : PList ℝ} (hc : Ctx params B) (hfeas : Feas B)
    (hpnd : (names params).Nodup) (lastVar : Option Name) (w : W ℝ) {S : Name → Prop} (hD : Dev B w.fn.params S) :
    (finish f params lastVar true w).2 = none := by
  unfold finish
  simp only []
  cases lastVar with
  | none => rfl
  | some l =>
    simp only [if_true]
    exact setParameters_base_ok f hc hfeas _ (S := S) (by simpa using hD) params (fun x hx => hx) hpnd

/-- (repaired) the three-point `updateDerivatives` with a well-formed selection raises only with
cross derivatives switched on, and then the plain Exception "Could not compute cross derivatives at
limit" leaves with everything restored -/
theorem update3_raise (f : List ℝ → ℝ) (w : W ℝ) (params : PList ℝ) (hown : Own w.fn) (hok : w.fn.OK f)
    (hfeas : Feas w.fn.params) (hsync : Synced params w.fn.params) (hpnd : (names params).Nodup)
    (hvars : w.vars.Nodup) (hin : ∀ v ∈ w.vars, v ∈ names w.fn.params) (hh : w.h ≠ 0)
    (hl2 : w.der2.length = w.vars.length) :
    ∀ e, (update3 f w params).2 = some e →
      e = .bpp ∧ w.cx = true ∧ (update3 f w params).1.fn.params = w.fn.params ∧ (update3 f w params).1.fn.OK f ∧
      Keep w (update3 f w params).1 ∧ (update3 f w params).1.f2 = f (values w.fn.params) ∧
      ((update3 f w params).1.fn.kind ≥ 1 → (update3 f w params).1.fn.en1 = w.c1) ∧
      ((update3 f w params).1.fn.kind ≥ 2 → (update3 f w params).1.fn.en2 = w.c2) := by
  intro e he
  have hc : Ctx params w.fn.params := ⟨hown.1, hown.2, hsync⟩
  unfold update3 at he ⊢
  split at he
  · rename_i hcond
    rw [if_pos hcond]
    simp only [] at he ⊢
    have hown0 : Own ((w.fn.enable1 false).enable2 false) := by unfold Own; simp; exact hown
    have hok0 : ((w.fn.enable1 false).enable2 false).OK f := enable2_OK f _ _ (enable1_OK f _ _ hok)
    have h0 := first_set f ((w.fn.enable1 false).enable2 false) hown0 hok0 (by simpa using hsync) hpnd
    have hn0 := setParameters_base_ok f hc hfeas ((w.fn.enable1 false).enable2 false) (S := fun _ => False)
      (by simpa using Dev.refl w.fn.params _) params (fun q hq => hq) hpnd
    rcases hs1 : ((w.fn.enable1 false).enable2 false).setParameters f params with ⟨fn1, e1⟩
    rw [hs1] at h0 hn0 he
    simp only [] at hn0
    subst hn0
    obtain ⟨g1, g2, g3, _, _⟩ := h0
    simp only [] at g1 g2 g3
    have hp1 : fn1.params = w.fn.params := by have := g1 trivial; simpa using this
    have hval : fn1.fval = f (values w.fn.params) := by rw [← hp1]; exact g2
    simp only [] at he ⊢
    split at he
    · simp at he
    · rename_i htb
      rw [if_neg htb]
      have hLI0 : LI f params w.fn.params { w with fn := fn1, f2 := fn1.fval } (fun w => w.f2)
          { w := { w with fn := fn1, f2 := fn1.fval }, p := [], lastVar := none } :=
        ⟨g2, (by rw [hp1]; exact Dev.refl _ _), (fun l h => by cases h), Frame.refl _, rfl⟩
      have hloopLI := loopGo_LI f (step3 f params) (fun lp h i var r => step3_LI f hc lp h i var r) w.vars 0 _ hLI0
      have hloop := loop_noexc f (step3 f params) (fun lp h i var r => step3_LI f hc lp h i var r)
        (fun lp h i var hv hl => step3_noexc f hc hfeas lp h i var hv hl (by rw [h.2.2.2.1.h]; exact hh))
        (step3_lastVar f params) w.vars 0 _ hLI0 (fun l h => by cases h) hvars (fun v hv _ => hin v hv)
      have hlen := loopGo_der2_len (step3 f params) (step3_der2_len f params) w.vars 0
        { w := { w with fn := fn1, f2 := fn1.fval }, p := [], lastVar := none }
      rcases hl : loopGo (step3 f params) w.vars 0 { w := { w with fn := fn1, f2 := fn1.fval }, p := [], lastVar := none } with ⟨lp, e⟩
      rw [hl] at hloop hloopLI hlen he
      simp only [] at hloop hloopLI hlen
      subst hloop
      simp only [] at he ⊢
      obtain ⟨l1, l2, l3, l4, l5⟩ := hloopLI rfl
      simp only [] at l4 l5
      by_cases hcx : lp.w.cx = true
      · rw [hcx] at he ⊢
        simp only [if_true] at he ⊢
        cases hlv : lp.lastVar with
        | none =>
          rw [hlv] at he
          simp only [] at he
          have := finish_noexc_all f hc hfeas hpnd none lp.w l2
          rw [this] at he; cases he
        | some l =>
          rw [hlv] at he
          simp only [] at he ⊢
          have hCI0 : CI f params w.fn.params { w with fn := fn1, f2 := fn1.fval } { w := lp.w, l1 := l, l2 := l } :=
            ⟨l1, l2.mono (fun n hn => by rw [hlv] at hn; injection hn with hn; exact Or.inl hn), l4, l5,
              l3 l hlv, l3 l hlv⟩
          have hvs' : lp.w.vars = w.vars := l4.vars
          have hd2some : ∀ i, i < lp.w.vars.length → lp.w.der2[i]? ≠ none := by
            intro i hi
            rw [hvs'] at hi
            have : i < lp.w.der2.length := by rw [hlen]; show i < w.der2.length; rw [hl2]; exact hi
            rw [List.getElem?_eq_getElem this]; simp
          have hcg := crossGo_raise f hc hfeas hpnd (w0 := { w with fn := fn1, f2 := fn1.fval }) lp.w.vars
            (by rw [hvs']; exact hvars) lp.w.vars 0 _ hCI0 ⟨[], rfl, rfl⟩ hd2some
          have hcgCI := crossGo_CI f hc lp.w.vars lp.w.vars 0 _ hCI0
          rcases hcs : crossGo f params lp.w.vars lp.w.vars 0 { w := lp.w, l1 := l, l2 := l } with ⟨cl, e2⟩
          rw [hcs] at hcg hcgCI he
          cases e2 with
          | some e2 =>
            simp only [] at he hcg ⊢
            injection he with he
            subst he
            obtain ⟨a, b⟩ := hcg e2 rfl
            refine ⟨a, ?_, b.params, b.ok, ?_, ?_, ?_, ?_⟩
            · rw [← l4.cx]; exact hcx
            · exact (⟨rfl, rfl, rfl, rfl, rfl, rfl, by simp [g3]⟩ : Keep w { w with fn := fn1, f2 := fn1.fval }).trans b.keep
            · rw [b.f2]; exact hval
            · exact b.en1
            · exact b.en2
          | none =>
            simp only [] at he hcgCI
            obtain ⟨c1, c2, _, _, _, _⟩ := hcgCI trivial
            have := finish_noexc_all f hc hfeas hpnd (some l) cl.w c2
            rw [this] at he; cases he
      · have hcx' : lp.w.cx = false := by simpa using hcx
        rw [hcx'] at he
        simp only [Bool.false_eq_true, if_false] at he
        have := finish_noexc f hc hfeas lp.lastVar lp.w l2 l3
        rw [this] at he; cases he
  · simp only [] at he
    have hn0 := setParameters_base_ok f hc hfeas ((w.fn.enable1 w.c1).enable2 w.c2)
      (S := fun _ => False) (by simpa using Dev.refl w.fn.params _) params (fun q hq => hq) hpnd
    rcases hs1 : ((w.fn.enable1 w.c1).enable2 w.c2).setParameters f params with ⟨fn1, e1⟩
    rw [hs1] at hn0 he
    simp only [] at hn0
    subst hn0
    simp at he


/-! ### what no outcome of `updateDerivatives` touches: flags, selection, step, sizes of the arrays -/

def Shape (w w' : W ℝ) : Prop :=
  SameCfg w w' ∧ w'.der1.length = w.der1.length ∧ w'.der2.length = w.der2.length

theorem Shape.refl (w : W ℝ) : Shape w w := ⟨SameCfg.refl w, rfl, rfl⟩
theorem Shape.trans {a b c : W ℝ} (h1 : Shape a b) (h2 : Shape b c) : Shape a c :=
  ⟨h1.1.trans h2.1, h2.2.1.trans h1.2.1, h2.2.2.trans h1.2.2⟩

theorem step2_shape (f : List ℝ → ℝ) (params : PList ℝ) (lp : Loop ℝ) (i : Nat) (var : Name) :
    Shape lp.w (step2 f params lp i var).1.w := by
  refine ⟨step2_cfg f params lp i var, ?_, ?_⟩ <;>
  · unfold step2
    split
    · rfl
    · split
      · rfl
      · simp only []
        repeat' split
        all_goals simp [setAt]

theorem step3_shape (f : List ℝ → ℝ) (params : PList ℝ) (lp : Loop ℝ) (i : Nat) (var : Name) :
    Shape lp.w (step3 f params lp i var).1.w := by
  refine ⟨step3_cfg f params lp i var, ?_, step3_der2_len f params lp i var⟩
  unfold step3
  split
  · rfl
  · split
    · rfl
    · simp only []
      repeat' split
      all_goals simp [setAt]

theorem step5_shape (f : List ℝ → ℝ) (params : PList ℝ) (lp : Loop ℝ) (i : Nat) (var : Name) :
    Shape lp.w (step5 f params lp i var).1.w := by
  refine ⟨step5_cfg f params lp i var, ?_, ?_⟩ <;>
  · unfold step5
    split
    · rfl
    · simp only []
      repeat' split
      all_goals simp [setAt]

theorem loopGo_shape (step : Loop ℝ → Nat → Name → Loop ℝ × Option Exc)
    (hstep : ∀ lp i var, Shape lp.w (step lp i var).1.w) :
    ∀ (vs : List Name) (i : Nat) (lp : Loop ℝ), Shape lp.w (loopGo step vs i lp).1.w := by
  intro vs
  induction vs with
  | nil => intro i lp; exact Shape.refl _
  | cons v vs ih =>
    intro i lp
    unfold loopGo
    have h := hstep lp i v
    rcases hs : step lp i v with ⟨lp', e⟩
    rw [hs] at h
    cases e with
    | some e => exact h
    | none => exact h.trans (ih (i + 1) lp')

theorem crossPair_der1 (f : List ℝ → ℝ) (params : PList ℝ) (cl : CLoop ℝ) (i j : Nat) (var1 var2 : Name) :
    (crossPair f params cl i j var1 var2).1.w.der1 = cl.w.der1 := by
  unfold crossPair
  simp only []
  repeat' split
  all_goals rfl

theorem crossRow_shape (f : List ℝ → ℝ) (params : PList ℝ) (i : Nat) (var1 : Name) :
    ∀ (vs : List Name) (j : Nat) (cl : CLoop ℝ), Shape cl.w (crossRow f params i var1 vs j cl).1.w := by
  intro vs
  induction vs with
  | nil => intro j cl; exact Shape.refl _
  | cons v vs ih =>
    intro j cl
    unfold crossRow
    split
    · split
      · exact Shape.refl _
      · exact Shape.trans (⟨⟨rfl, rfl, rfl, rfl, rfl, rfl⟩, rfl, rfl⟩ : Shape cl.w { cl.w with cross := setAt2 cl.w.cross i j _ }) (ih _ _)
    · split
      · exact ih _ _
      · have h : Shape cl.w (crossPair f params cl i j var1 v).1.w :=
          ⟨crossPair_cfg f params cl i j var1 v, by rw [crossPair_der1], by rw [crossPair_der2]⟩
        rcases hs : crossPair f params cl i j var1 v with ⟨cl', e⟩
        rw [hs] at h
        cases e with
        | some e => exact h
        | none => exact h.trans (ih _ _)

theorem crossGo_shape (f : List ℝ → ℝ) (params : PList ℝ) (all : List Name) :
    ∀ (vs : List Name) (i : Nat) (cl : CLoop ℝ), Shape cl.w (crossGo f params all vs i cl).1.w := by
  intro vs
  induction vs with
  | nil => intro i cl; exact Shape.refl _
  | cons v vs ih =>
    intro i cl
    unfold crossGo
    split
    · exact ih _ _
    · have h := crossRow_shape f params i v all 0 cl
      rcases hs : crossRow f params i v all 0 cl with ⟨cl', e⟩
      rw [hs] at h
      cases e with
      | some e => exact h
      | none => exact h.trans (ih _ _)

theorem finish_shape (f : List ℝ → ℝ) (params : PList ℝ) (lastVar : Option Name) (all : Bool) (w : W ℝ) :
    Shape w (finish f params lastVar all w).1 := by
  unfold finish
  simp only []
  repeat' split
  all_goals exact ⟨⟨rfl, rfl, rfl, rfl, rfl, rfl⟩, rfl, rfl⟩

theorem nanAll_shape (w : W ℝ) : Shape w (nanAll w) :=
  ⟨⟨rfl, rfl, rfl, rfl, rfl, rfl⟩, by simp [nanAll], by simp [nanAll]⟩

theorem update2_shape (f : List ℝ → ℝ) (w : W ℝ) (params : PList ℝ) : Shape w (update2 f w params).1 := by
  unfold update2
  split
  · simp only []
    split
    · exact ⟨⟨rfl, rfl, rfl, rfl, rfl, rfl⟩, rfl, rfl⟩
    · rename_i fn1 _
      split
      · exact Shape.trans (⟨⟨rfl, rfl, rfl, rfl, rfl, rfl⟩, rfl, rfl⟩ : Shape w _) (nanAll_shape _)
      · have hl := loopGo_shape (step2 f params) (step2_shape f params) w.vars 0
          { w := { w with fn := fn1, f1 := fn1.fval }, p := [], lastVar := none }
        have h0 : Shape w { w with fn := fn1, f1 := fn1.fval } := ⟨⟨rfl, rfl, rfl, rfl, rfl, rfl⟩, rfl, rfl⟩
        rcases hs : loopGo (step2 f params) w.vars 0 { w := { w with fn := fn1, f1 := fn1.fval }, p := [], lastVar := none } with ⟨lp, e⟩
        rw [hs] at hl
        cases e with
        | some e => exact h0.trans hl
        | none => exact (h0.trans hl).trans (finish_shape f params lp.lastVar false lp.w)
  · simp only []
    split <;> exact ⟨⟨rfl, rfl, rfl, rfl, rfl, rfl⟩, rfl, rfl⟩

theorem update3_shape (f : List ℝ → ℝ) (w : W ℝ) (params : PList ℝ) : Shape w (update3 f w params).1 := by
  unfold update3
  split
  · simp only []
    split
    · exact ⟨⟨rfl, rfl, rfl, rfl, rfl, rfl⟩, rfl, rfl⟩
    · rename_i fn1 _
      split
      · exact Shape.trans (⟨⟨rfl, rfl, rfl, rfl, rfl, rfl⟩, rfl, rfl⟩ : Shape w _) (nanAll_shape _)
      · have hl := loopGo_shape (step3 f params) (step3_shape f params) w.vars 0
          { w := { w with fn := fn1, f2 := fn1.fval }, p := [], lastVar := none }
        have h0 : Shape w { w with fn := fn1, f2 := fn1.fval } := ⟨⟨rfl, rfl, rfl, rfl, rfl, rfl⟩, rfl, rfl⟩
        rcases hs : loopGo (step3 f params) w.vars 0 { w := { w with fn := fn1, f2 := fn1.fval }, p := [], lastVar := none } with ⟨lp, e⟩
        rw [hs] at hl
        cases e with
        | some e => exact h0.trans hl
        | none =>
          simp only []
          split
          · split
            · exact (h0.trans hl).trans (finish_shape f params lp.lastVar true lp.w)
            · rename_i l _
              have hc := crossGo_shape f params lp.w.vars lp.w.vars 0 { w := lp.w, l1 := l, l2 := l }
              rcases hcs : crossGo f params lp.w.vars lp.w.vars 0 { w := lp.w, l1 := l, l2 := l } with ⟨cl, e⟩
              rw [hcs] at hc
              cases e with
              | some e => exact (h0.trans hl).trans hc
              | none => exact ((h0.trans hl).trans hc).trans (finish_shape f params lp.lastVar true cl.w)
          · exact (h0.trans hl).trans (finish_shape f params lp.lastVar false lp.w)
  · simp only []
    split <;> exact ⟨⟨rfl, rfl, rfl, rfl, rfl, rfl⟩, rfl, rfl⟩

theorem update5_shape (f : List ℝ → ℝ) (w : W ℝ) (params : PList ℝ) : Shape w (update5 f w params).1 := by
  unfold update5
  split
  · simp only []
    split
    · exact ⟨⟨rfl, rfl, rfl, rfl, rfl, rfl⟩, rfl, rfl⟩
    · rename_i fn1 _
      have hl := loopGo_shape (step5 f params) (step5_shape f params) w.vars 0
        { w := { w with fn := fn1, f3 := fn1.fval }, p := [], lastVar := none }
      have h0 : Shape w { w with fn := fn1, f3 := fn1.fval } := ⟨⟨rfl, rfl, rfl, rfl, rfl, rfl⟩, rfl, rfl⟩
      rcases hs : loopGo (step5 f params) w.vars 0 { w := { w with fn := fn1, f3 := fn1.fval }, p := [], lastVar := none } with ⟨lp, e⟩
      rw [hs] at hl
      cases e with
      | some e => exact h0.trans hl
      | none => exact (h0.trans hl).trans (finish_shape f params lp.lastVar false lp.w)
  · simp only []
    split <;> exact ⟨⟨rfl, rfl, rfl, rfl, rfl, rfl⟩, rfl, rfl⟩

theorem update_shape (f : List ℝ → ℝ) (w : W ℝ) (params : PList ℝ) : Shape w (w.update f params).1 := by
  unfold W.update
  split
  · exact update2_shape f w params
  · exact update3_shape f w params
  · exact update5_shape f w params

/-- any entry point, returning or raising -/
theorem call_shape (f : List ℝ → ℝ) (w : W ℝ) (e : Entry ℝ) : Shape w (w.call f e).1 := by
  unfold W.call
  rcases hfw : w.fn.forward f e with ⟨fn1, x, b⟩
  cases x with
  | some x => exact ⟨⟨rfl, rfl, rfl, rfl, rfl, rfl⟩, rfl, rfl⟩
  | none =>
    simp only []
    split
    · exact ⟨⟨rfl, rfl, rfl, rfl, rfl, rfl⟩, rfl, rfl⟩
    · exact Shape.trans (⟨⟨rfl, rfl, rfl, rfl, rfl, rfl⟩, rfl, rfl⟩ : Shape w { w with fn := fn1 }) (update_shape f _ _)

/-- an entry point of the wrapper that raises although its forwarded call was accepted -/
theorem call_raise_spec (f : List ℝ → ℝ) (w : W ℝ) (e : Entry ℝ) (hown : Own w.fn) (hok : w.fn.OK f)
    (ref : PList ℝ) (hinv : Inv f ref w.fn) (he : e.Nodup)
    (hvars : w.vars.Nodup) (hin : ∀ v ∈ w.vars, v ∈ names w.fn.params) (hh : w.h ≠ 0)
    (hl2 : w.der2.length = w.vars.length)
    (hfw : (w.fn.forward f e).2.1 = none) (x : Exc) (hraise : (w.call f e).2.1 = some x) :
    x = .bpp ∧ w.scheme = .three ∧ w.cx = true ∧
    (w.call f e).1.fn.params = e.apply w.fn.params ∧
    (w.call f e).1.value = f (values (e.apply w.fn.params)) ∧
    (w.call f e).1.fn.fval = f (values (e.apply w.fn.params)) ∧
    Own (w.call f e).1.fn ∧ (w.call f e).1.fn.OK f ∧
    (w.fn.kind ≥ 1 → (w.call f e).1.fn.en1 = w.c1) ∧ (w.fn.kind ≥ 2 → (w.call f e).1.fn.en2 = w.c2) := by
  have hfi := (hinv.forward (f := f) e).1
  have hpar := forward_params f w.fn e hown he hfw
  unfold W.call at hraise ⊢
  rcases hfwd : w.fn.forward f e with ⟨fn1, y, b⟩
  rw [hfwd] at hfi hfw hpar hraise
  simp only [] at hfw hpar
  subst hfw
  simp only [] at hraise ⊢
  obtain ⟨o1, o2, o3, pl, hl, hsy, hnd⟩ := forward_spec f w.fn e hown hok he _ hfwd rfl
  simp only [] at o1 o2 o3 hl hsy hfi
  rw [hl] at hraise ⊢
  simp only [] at hraise ⊢
  have hin1 : ∀ v ∈ w.vars, v ∈ names fn1.params := by
    intro v hv; rw [hfi.skel.names, ← hinv.skel.names]; exact hin v hv
  obtain ⟨w1, hw1⟩ : ∃ w1, w1 = ({ w with fn := fn1 } : W ℝ) := ⟨_, rfl⟩
  rw [← hw1] at hraise ⊢
  have e1 : w1.fn = fn1 := by rw [hw1]
  have e2 : w1.vars = w.vars := by rw [hw1]
  have e3 : w1.h = w.h := by rw [hw1]
  have e4 : w1.der2 = w.der2 := by rw [hw1]
  have e5 : w1.scheme = w.scheme := by rw [hw1]
  have e6 : w1.cx = w.cx := by rw [hw1]
  have e7 : w1.c1 = w.c1 := by rw [hw1]
  have e8 : w1.c2 = w.c2 := by rw [hw1]
  have p1 : Own w1.fn := by rw [e1]; exact o1
  have p2 : w1.fn.OK f := by rw [e1]; exact o2
  have p3 : Feas w1.fn.params := by rw [e1]; exact hfi.feas
  have p4 : Synced pl w1.fn.params := by rw [e1]; exact hsy
  have p5 : w1.vars.Nodup := by rw [e2]; exact hvars
  have p6 : ∀ v ∈ w1.vars, v ∈ names w1.fn.params := by rw [e1, e2]; exact hin1
  have p7 : w1.h ≠ 0 := by rw [e3]; exact hh
  have p8 : w1.der2.length = w1.vars.length := by rw [e4, e2]; exact hl2
  unfold W.update at hraise ⊢
  have hsch : w1.scheme = .two ∨ w1.scheme = .five ∨ w1.scheme = .three := by cases w1.scheme <;> simp
  rcases hsch with hs | hs | hs
  · have := update2_noexc f w1 pl p1 p2 p3 p4 hnd p5 p6 p7
    rw [hs] at hraise
    simp only [] at hraise
    rw [this] at hraise; cases hraise
  · have := update5_noexc f w1 pl p1 p2 p3 p4 hnd p5 p6
    rw [hs] at hraise
    simp only [] at hraise
    rw [this] at hraise; cases hraise
  · rw [hs] at hraise ⊢
    simp only [] at hraise ⊢
    obtain ⟨a1, a2, a3, a4, a5, a6, a7, a8⟩ := update3_raise f w1 pl p1 p2 p3 p4 hnd p5 p6 p7 p8 x hraise
    have hk : (update3 f w1 pl).1.fn.kind = w.fn.kind := by rw [a5.kind, e1]; exact o3
    refine ⟨a1, by rw [← e5]; exact hs, by rw [← e6]; exact a2, by rw [a3, e1, hpar], ?_, ?_, ?_, a4, ?_, ?_⟩
    · unfold W.value; rw [a5.scheme, hs]; simp only []; rw [a6, e1, hpar]
    · have := a4; unfold Fn.OK at this; rw [this, a3, e1, hpar]
    · unfold Own; rw [a3]; exact p1
    · intro hk1; rw [← e7]; exact a7 (by rw [hk]; exact hk1)
    · intro hk2; rw [← e8]; exact a8 (by rw [hk]; exact hk2)


end Bpp.NumDeriv
