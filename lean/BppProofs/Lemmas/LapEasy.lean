import BppProofs.Lemmas.Lap
import BppProofs.Lemmas.MatrixScan
/-! Helper lemmas for C04 (`lap`): the transcribed part of the routine (`lapEasy`) returns a
certified answer. -/
namespace Bpp.Mx.Lap
open Bpp Bpp.Mx

/-- fold over `List.range n` with an invariant -/
theorem foldl_range_inv {σ : Type} (P : Nat → σ → Prop) (n : Nat) (f : σ → Nat → σ) (s : σ) (h0 : P 0 s)
    (hstep : ∀ k t, k < n → P k t → P (k + 1) (f t k)) : P n ((List.range n).foldl f s) := by
  induction n with
  | zero => simpa using h0
  | succ n ih =>
    rw [List.range_succ, List.foldl_append]
    simp only [List.foldl_cons, List.foldl_nil]
    exact hstep n _ (by omega) (ih (fun k t hk => hstep k t (by omega)))

/-- the column reduction finds a row holding the minimum of the column -/
theorem colMinRow_spec (n : Nat) (c : Nat → Nat → ℝ) (j : Nat) (hn : 0 < n) :
    colMinRow n c j < n ∧ ∀ i, i < n → c (colMinRow n c j) j ≤ c i j := by
  unfold colMinRow
  have := foldl_range_inv (fun t (im : Nat) => im ≤ t ∧ ∀ i, i ≤ t → c im j ≤ c i j) (n - 1)
    (fun im t => if Scalar.ltb (c (t + 1) j) (c im j) then t + 1 else im) 0
    ⟨Nat.le_refl 0, fun i hi => by have : i = 0 := by omega
                                   subst this; exact le_refl _⟩
    (by
      intro t im _ ⟨h1, h2⟩
      by_cases hlt : c (t + 1) j < c im j
      · have : Scalar.ltb (c (t + 1) j) (c im j) = true := (ScalarReal.ltb_iff _ _).2 hlt
        simp only [this, if_true]
        refine ⟨Nat.le_refl _, fun i hi => ?_⟩
        by_cases hi' : i ≤ t
        · exact le_trans (le_of_lt hlt) (h2 i hi')
        · have : i = t + 1 := by omega
          subst this; exact le_refl _
      · have : Scalar.ltb (c (t + 1) j) (c im j) = false := by
          rw [Bool.eq_false_iff]; intro h; exact hlt ((ScalarReal.ltb_iff _ _).1 h)
        simp only [this, Bool.false_eq_true, if_false]
        refine ⟨by omega, fun i hi => ?_⟩
        by_cases hi' : i ≤ t
        · exact h2 i hi'
        · have : i = t + 1 := by omega
          subst this; exact not_lt.mp hlt)
  exact ⟨by omega, fun i hi => this.2 i (by omega)⟩

theorem easyRowSol_lt (n : Nat) (im : Nat → Nat) (i : Nat) (hn : 0 < n) : easyRowSol n im i < n := by
  unfold easyRowSol
  have := foldl_range_inv (fun t (acc : Nat) => acc < n) n (fun acc j => if im j = i then j else acc) 0 hn
    (by intro k t hk ht; split <;> omega)
  exact this

/-- the minimum of the reduced costs of row `i` over the columns other than `j1` -/
theorem transferMin_spec (n : Nat) (c : Nat → Nat → ℝ) (v : Nat → ℝ) (i j1 : Nat) (hn : 1 < n) (hj1 : j1 < n) :
    ∃ m, transferMin n c v i j1 = some m ∧ (∀ j, j < n → j ≠ j1 → m ≤ c i j - v j) ∧
      ∃ j, j < n ∧ j ≠ j1 ∧ m = c i j - v j := by
  unfold transferMin
  have := foldl_range_inv
    (fun t (m : Option ℝ) =>
      (m = none ∧ ∀ j, j < t → j = j1) ∨
      (∃ x, m = some x ∧ (∀ j, j < t → j ≠ j1 → x ≤ c i j - v j) ∧ ∃ j, j < t ∧ j ≠ j1 ∧ x = c i j - v j))
    n (tmStep c v i j1) none
    (Or.inl ⟨rfl, fun j hj => by omega⟩)
    (by
      intro t m ht hinv
      by_cases hj : t = j1
      · simp only [tmStep, hj, if_true]
        rcases hinv with ⟨hm, hall⟩ | ⟨x, hm, hle, j, hjt, hjn, hx⟩
        · left; exact ⟨hm, fun j hjlt => by by_cases h : j < t; exact hall j h; omega⟩
        · right
          refine ⟨x, hm, fun j hjlt hne => hle j (by omega) hne, j, by omega, hjn, hx⟩
      · simp only [tmStep, hj, if_false]
        rcases hinv with ⟨hm, hall⟩ | ⟨x, hm, hle, j, hjt, hjn, hx⟩
        · right
          subst hm
          refine ⟨c i t - v t, by simp [ExtCmp.ltPosInf], ?_, t, by omega, hj, rfl⟩
          intro j hjlt hne
          by_cases h : j < t
          · exact absurd (hall j h) hne
          · have : j = t := by omega
            subst this; exact le_refl _
        · right
          subst hm
          by_cases hlt : c i t - v t < x
          · have : Scalar.ltb (c i t - v t) x = true := (ScalarReal.ltb_iff _ _).2 hlt
            simp only [this, if_true]
            refine ⟨_, rfl, ?_, t, by omega, hj, rfl⟩
            intro j' hjlt hne
            by_cases h : j' < t
            · exact le_trans (le_of_lt hlt) (hle j' h hne)
            · have : j' = t := by omega
              subst this; exact le_refl _
          · have : Scalar.ltb (c i t - v t) x = false := by
              rw [Bool.eq_false_iff]; intro h; exact hlt ((ScalarReal.ltb_iff _ _).1 h)
            simp only [this, Bool.false_eq_true, if_false]
            refine ⟨x, rfl, ?_, j, by omega, hjn, hx⟩
            intro j' hjlt hne
            by_cases h : j' < t
            · exact hle j' h hne
            · have : j' = t := by omega
              subst this; exact not_lt.mp hlt)
  rcases this with ⟨_, hall⟩ | ⟨x, hm, hle, hex⟩
  · -- impossible: there are at least two columns
    exfalso
    have h0 := hall 0 (by omega)
    have h1 := hall 1 hn
    omega
  · exact ⟨x, hm, hle, hex⟩

end Bpp.Mx.Lap

namespace Bpp.Mx.Lap
open Bpp Bpp.Mx

/-- the reduction transfer keeps the prices below the column minima, does not touch the columns of
rows still to come, and leaves every processed row tight at its own column -/
theorem transfer_inv (n : Nat) (c : Nat → Nat → ℝ) (σ : Nat → Nat) (hn : 1 < n)
    (hσlt : ∀ i, i < n → σ i < n)
    (hinv1 : ∀ i, i < n → colMinRow n c (σ i) = i) :
    ∀ k, k ≤ n → ∃ v, transfer n c σ (fun j => c (colMinRow n c j) j) k = some v ∧
      (∀ j, j < n → v j ≤ c (colMinRow n c j) j) ∧
      (∀ i, k ≤ i → i < n → v (σ i) = c i (σ i)) ∧
      (∀ i, i < k → ∀ j, j < n → c i (σ i) - v (σ i) ≤ c i j - v j) := by
  have hσinj : ∀ i i', i < n → i' < n → σ i = σ i' → i = i' := by
    intro i i' hi hi' h
    rw [← hinv1 i hi, ← hinv1 i' hi', h]
  intro k
  induction k with
  | zero =>
    intro _
    refine ⟨_, rfl, fun j _ => le_refl _, ?_, fun i hi => by omega⟩
    intro i _ hi
    show c (colMinRow n c (σ i)) (σ i) = c i (σ i)
    rw [hinv1 i hi]
  | succ k ih =>
    intro hk
    obtain ⟨v, ev, I1, I2, I3⟩ := ih (by omega)
    have hk' : k < n := by omega
    obtain ⟨m, em, T1, j0, hj0, hj0ne, hm⟩ := transferMin_spec n c v k (σ k) hn (hσlt k hk')
    have hm0 : 0 ≤ m := by
      rw [hm]
      have := (colMinRow_spec n c j0 (by omega)).2 k hk'
      have := I1 j0 hj0
      linarith
    refine ⟨fun j => if j = σ k then v (σ k) - m else v j, ?_, ?_, ?_, ?_⟩
    · unfold transfer at ev ⊢
      rw [List.range_succ, List.foldl_append, ev]
      simp only [List.foldl_cons, List.foldl_nil, transferStep, em]
    · intro j hj
      by_cases h : j = σ k
      · subst h
        simp only [if_true]
        have := I1 (σ k) hj
        linarith
      · simp only [h, if_false]; exact I1 j hj
    · intro i hki hi
      have hne : σ i ≠ σ k := fun h => by have := hσinj i k hi hk' h; omega
      simp only [hne, if_false]
      exact I2 i (by omega) hi
    · intro i hi j hj
      by_cases hik : i = k
      · subst hik
        have hvk : v (σ i) = c i (σ i) := I2 i (Nat.le_refl _) hk'
        simp only [if_true]
        by_cases hjk : j = σ i
        · subst hjk; simp
        · simp only [hjk, if_false]
          have := T1 j hj hjk
          rw [hvk]; linarith
      · have hi' : i < k := by omega
        have hne : σ i ≠ σ k := fun h => by have := hσinj i k (by omega) hk' h; omega
        simp only [hne, if_false]
        by_cases hjk : j = σ k
        · subst hjk
          simp only [if_true]
          have := I3 i hi' (σ k) hj
          linarith
        · simp only [hjk, if_false]
          exact I3 i hi' j hj

/-- **the transcribed part of `lap` is correct**: whenever the column reduction leaves no free row,
the answer (row and column assignment, dual variables, cost) is a permutation with its inverse,
certified by `u`, `v`, and the returned cost is the cost of the assignment -/
theorem lapEasy_certified' (n : Nat) (c : Nat → Nat → ℝ) (a : Easy ℝ) (h : lapEasy n c = some a) :
    permB n a.rowSol a.colSol = true ∧ certB n c a.rowSol a.u a.v = true ∧ a.cost = cost n c a.rowSol := by
  unfold lapEasy at h
  simp only at h
  split at h
  · next hchk =>
    rw [allLt_iff] at hchk
    have hinv1 : ∀ i, i < n → colMinRow n c (easyRowSol n (colMinRow n c) i) = i := fun i hi => by
      have := hchk i hi; simp only [Bool.and_eq_true, decide_eq_true_eq] at this; exact this.1
    have hσlt : ∀ i, i < n → easyRowSol n (colMinRow n c) i < n := fun i hi => easyRowSol_lt n _ i (by omega)
    by_cases hn : n > 1
    · rw [if_pos hn] at h
      obtain ⟨v, ev, I1, I2, I3⟩ := transfer_inv n c _ hn hσlt hinv1 n (Nat.le_refl n)
      rw [ev] at h
      simp only [Option.some.injEq] at h
      subst h
      refine ⟨?_, ?_, ?_⟩
      · rw [permB, allLt_iff]
        intro i hi
        simp [hσlt i hi, hinv1 i hi]
      · simp only [certB, Bool.and_eq_true, allLt_iff, ScalarReal.leb_iff]
        refine ⟨fun i hi j hj => ?_, fun i hi => ?_⟩
        · have := I3 i hi j hj
          show c i _ - v _ + v j ≤ c i j
          linarith
        · show c i _ ≤ c i _ - v _ + v _
          linarith
      · simp only [cost, Spec.sumTo]
    · rw [if_neg hn] at h
      simp only [Option.some.injEq] at h
      subst h
      refine ⟨?_, ?_, ?_⟩
      · rw [permB, allLt_iff]
        intro i hi
        simp [hσlt i hi, hinv1 i hi]
      · simp only [certB, Bool.and_eq_true, allLt_iff, ScalarReal.leb_iff]
        refine ⟨fun i hi j hj => ?_, fun i hi => ?_⟩
        · have hi0 : i = 0 := by omega
          have hj0 : j = 0 := by omega
          subst hi0; subst hj0
          have h1 := hσlt 0 hi
          have h2 : easyRowSol n (colMinRow n c) 0 = 0 := by omega
          show c 0 _ - c _ _ + c _ 0 ≤ c 0 0
          rw [h2]
          have h3 := hinv1 0 hi
          rw [h2] at h3
          rw [h3]; linarith
        · show c i _ ≤ c i _ - c _ _ + c _ _
          linarith
      · simp only [cost, Spec.sumTo]
  · cases h

end Bpp.Mx.Lap
