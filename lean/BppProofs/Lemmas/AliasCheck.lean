import BppProofs.Lemmas.AliasFrame
import BppProofs.Lemmas.AliasQuery
import BppProofs.Lemmas.AliasViewOps
import BppProofs.Lemmas.AliasCheckU
import BppProofs.Lemmas.AliasHist2
/-! C03, round 2: small facts about `viewOf` and the shape of `checkStep`, used by `check_sound`. -/
namespace Bpp.Alias
open Bpp.ParamList (Bnd Con Par Store ObjId nameOf find? hasParameter names startsWith)

theorem viewOf_get (w : World) {j : Nat} (hj : j < NSLOT) : (viewOf w).get j = (w.objs j).map (svOf w) := by
  simp [viewOf, View.get, List.getElem?_map, List.getElem?_range hj]

/-- the observable invariant, on a whole view (the `invB` of `checkStep`) -/
def invB (v : View) : Bool := (List.range NSLOT).all (fun k => match v.get k with | some s => s.inv | none => true)

theorem invB_viewOf {w : World} (h : Inv w) (hok : HeapOk w) : invB (viewOf w) = true := by
  simp only [invB, List.all_eq_true, List.mem_range]
  intro k hk
  rw [viewOf_get w hk]
  cases ho : w.objs k with
  | none => rfl
  | some o => exact inv_view h hok ho

theorem frameOk_viewOf {w W : World} {k : Nat}
    (hfr : ∀ j, j ≠ k → (W.objs j).map (svOf W) = (w.objs j).map (svOf w)) : frameOk [k] (viewOf w) (viewOf W) = true := by
  simp only [frameOk, List.all_eq_true, List.mem_range, Bool.or_eq_true, List.contains_iff_mem, List.mem_singleton, beq_iff_eq]
  intro j hj
  by_cases hjk : j = k
  · exact Or.inl hjk
  · right; rw [viewOf_get w hj, viewOf_get W hj, hfr j hjk]

/-- the tail of `checkStep` after a value update -/
theorem upd_clause {sb sa : SV} {out : Out} {tr : Bool} (hs : sameShape sb sa = true)
    (ht : out.isErr = false → tr = true → tracksOk sb sa = true) :
    (if (!sameShape sb sa) = true then some "update_shape"
      else if out.isErr = true then none
      else if (tr && !tracksOk sb sa) = true then some "alias_tracks" else none) = none := by
  simp only [hs, Bool.not_true, Bool.false_eq_true, if_false]
  cases he : out.isErr
  · cases htr : tr
    · simp
    · simp [ht he htr]
  · simp

theorem isErr_ofErr (e : Option Err) : (Out.ofErr e).isErr = e.isSome := by
  cases e <;> rfl

end Bpp.Alias
