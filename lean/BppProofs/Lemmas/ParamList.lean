import BppModel.ParamList
import BppModel.ParamListSpec
/-! Helper lemmas for C02 (ParameterList).  Property theorems are in `Props/C02.lean`. -/
namespace Bpp.ParamList

theorem hasParameter_iff (h : Store) (l : List ObjId) (n : String) :
    hasParameter h l n = true ↔ n ∈ names h l := by
  simp only [hasParameter, names, List.any_eq_true, List.mem_map, beq_iff_eq]

end Bpp.ParamList
