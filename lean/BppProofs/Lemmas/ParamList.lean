import Mathlib.Data.List.Nodup
import BppModel.ParamList
import BppModel.ParamListSpec
/-! Helper lemmas for C02 (ParameterList).  Property theorems are in `Props/C02.lean`. -/
namespace Bpp.ParamList

/-! ## Heap -/

@[simp, grind =] theorem get_put (h : Store) (i : ObjId) (p : Par) (j : ObjId) :
    (h.put i p).get j = if j = i then p else h.get j := rfl
@[simp, grind =] theorem next_put (h : Store) (i : ObjId) (p : Par) : (h.put i p).next = h.next := rfl
@[simp, grind =] theorem get_alloc (h : Store) (p : Par) (j : ObjId) :
    (h.alloc p).1.get j = if j = h.next then p else h.get j := rfl
@[simp, grind =] theorem next_alloc (h : Store) (p : Par) : (h.alloc p).1.next = h.next + 1 := rfl
@[simp, grind =] theorem alloc_snd (h : Store) (p : Par) : (h.alloc p).2 = h.next := rfl
@[grind =] theorem nameOf_def (h : Store) (i : ObjId) : nameOf h i = (h.get i).name := rfl

/-- all ids of the list have been allocated -/
def Valid (h : Store) (l : List ObjId) : Prop := ∀ i : Nat, i ∈ l → i < h.next
/-- every allocated object satisfies its own constraint -/
def HeapOk (h : Store) : Prop := ∀ i, i < h.next → (h.get i).ok = true

/-- `h'` is a later heap: more objects, old objects keep their names, `HeapOk` is kept -/
structure Pres (h h' : Store) : Prop where
  next_le : h.next ≤ h'.next
  name_eq : ∀ i, i < h.next → nameOf h' i = nameOf h i
  ok : HeapOk h → HeapOk h'

theorem Pres.refl (h : Store) : Pres h h := ⟨Nat.le_refl _, fun _ _ => rfl, id⟩
theorem Pres.trans {a b c : Store} (x : Pres a b) (y : Pres b c) : Pres a c :=
  ⟨Nat.le_trans x.next_le y.next_le,
   fun i hi => by rw [y.name_eq i (Nat.lt_of_lt_of_le hi x.next_le), x.name_eq i hi],
   fun h => y.ok (x.ok h)⟩

theorem Valid.mono {h h' : Store} {l : List ObjId} (v : Valid h l) (x : Pres h h') : Valid h' l :=
  fun i hi => Nat.lt_of_lt_of_le (v i hi) x.next_le

theorem Valid.nil (h : Store) : Valid h [] := by intro i hi; cases hi

theorem names_congr {h h' : Store} {l : List ObjId} (e : ∀ i ∈ l, nameOf h' i = nameOf h i) :
    names h' l = names h l := by
  unfold names; exact List.map_congr_left e

theorem Pres.names {h h' : Store} (x : Pres h h') {l : List ObjId} (v : Valid h l) :
    names h' l = names h l := names_congr (fun i hi => x.name_eq i (v i hi))

theorem pres_alloc (h : Store) (p : Par) (hp : HeapOk h → p.ok = true) : Pres h (h.alloc p).1 := by
  refine ⟨by simp, ?_, ?_⟩
  · intro i hi; grind
  · intro hk i hi
    have := hk i
    have := hp hk
    grind

theorem pres_clone (h : Store) {i : ObjId} (hi : i < h.next) : Pres h (h.alloc (h.get i)).1 :=
  pres_alloc h _ (fun hk => hk i hi)

theorem setValue_ok {p p' : Par} {v : Rat} (e : p.setValue v = .ok p') :
    p'.name = p.name ∧ p'.con = p.con ∧ (p.ok = true → p'.ok = true) ∧ p'.value = v := by
  unfold Par.setValue at e
  split at e
  · cases e; simp_all
  · split at e
    · cases e
    · cases e; simp_all [Par.ok, Par.rejects]

theorem setValue_error {p : Par} {v : Rat} {e : Err} (h : p.setValue v = .error e) :
    e = .constraint ∧ p.rejects v = true ∧ v ≠ p.value := by
  unfold Par.setValue at h
  split at h
  · cases h
  · split at h
    · cases h; simp_all
    · cases h

theorem setValue_of_accepts {p : Par} {v : Rat} (h : p.rejects v = false) :
    p.setValue v = .ok { p with value := v } := by
  unfold Par.setValue
  split
  · next e => subst e; rfl
  · simp [h]

theorem pres_put_setValue (h : Store) (i : ObjId) {p' : Par} {v : Rat}
    (e : (h.get i).setValue v = .ok p') : Pres h (h.put i p') := by
  obtain ⟨e1, _, e3, _⟩ := setValue_ok e
  refine ⟨by simp, ?_, ?_⟩
  · intro j hj; grind
  · intro hk j hj
    have := hk j
    grind

/-- whole-parameter assignment `*t = *s` when both carry the same name -/
theorem pres_put_assign (h : Store) {t s : ObjId} (hs : s < h.next) (e : nameOf h s = nameOf h t) :
    Pres h (h.put t (h.get s)) := by
  refine ⟨by simp, ?_, ?_⟩
  · intro j hj; grind
  · intro hk j hj
    have := hk j
    have := hk s
    grind

/-! ## Lookups -/

theorem hasParameter_iff (h : Store) (l : List ObjId) (n : String) :
    hasParameter h l n = true ↔ n ∈ names h l := by
  simp only [hasParameter, names, List.any_eq_true, List.mem_map, beq_iff_eq]

theorem hasParameter_false_iff (h : Store) (l : List ObjId) (n : String) :
    hasParameter h l n = false ↔ n ∉ names h l := by
  rw [← hasParameter_iff]; simp

theorem find?_some {h : Store} {l : List ObjId} {n : String} {i : ObjId} (e : find? h l n = some i) :
    i ∈ l ∧ nameOf h i = n := by
  unfold find? at e
  exact ⟨List.mem_of_find?_eq_some e, by simpa using List.find?_some e⟩

theorem find?_none {h : Store} {l : List ObjId} {n : String} :
    find? h l n = none ↔ n ∉ names h l := by
  simp [find?, names, List.find?_eq_none]

theorem find?_isSome (h : Store) (l : List ObjId) (n : String) :
    (find? h l n).isSome = hasParameter h l n := by
  unfold find? hasParameter
  induction l with
  | nil => rfl
  | cons a t ih => rw [List.find?_cons, List.any_cons]; cases nameOf h a == n <;> simp [ih]

theorem find?_congr {h h' : Store} {l : List ObjId} (e : ∀ i ∈ l, nameOf h' i = nameOf h i) (n : String) :
    find? h' l n = find? h l n := by
  unfold find?
  induction l with
  | nil => rfl
  | cons a t ih =>
    rw [List.find?_cons, List.find?_cons, e a (List.mem_cons_self ..),
      ih (fun i hi => e i (List.mem_cons_of_mem _ hi))]

theorem hasParameter_congr {h h' : Store} {l : List ObjId} (e : ∀ i ∈ l, nameOf h' i = nameOf h i)
    (n : String) : hasParameter h' l n = hasParameter h l n := by
  rw [← find?_isSome, ← find?_isSome, find?_congr e]

theorem find?_valid {h : Store} {l : List ObjId} {n : String} {i : ObjId} (v : Valid h l)
    (e : find? h l n = some i) : i < h.next := v i (find?_some e).1

/-- with unique names, an element is found by its own name -/
theorem find?_self {h : Store} {l : List ObjId} (nd : (names h l).Nodup) {i : ObjId} (hi : i ∈ l) :
    find? h l (nameOf h i) = some i := by
  induction l with
  | nil => cases hi
  | cons a t ih =>
    simp only [names, List.map_cons, List.nodup_cons, List.mem_map, not_exists, not_and] at nd
    unfold find?
    rw [List.find?_cons]
    by_cases e : a = i
    · subst e; rw [beq_self_eq_true]
    · have hit : i ∈ t := by cases hi with
        | head => exact absurd rfl e
        | tail _ h => exact h
      have : nameOf h a ≠ nameOf h i := fun c => nd.1 i hit c.symm
      rw [beq_eq_false_iff_ne.2 this]
      exact ih nd.2 hit

/-! ## History invariants of the list functions

`GoodLR h l r`: the result `r` of a function started on heap `h` and list `l` has a later
heap, a valid list, and unique names if `l` had. -/

structure GoodLR (h : Store) (l : List ObjId) (r : LR) : Prop where
  pres : Pres h r.heap
  valid : Valid r.heap r.list
  nodup : (names h l).Nodup → (names r.heap r.list).Nodup

theorem GoodLR.refl {h : Store} {l : List ObjId} (v : Valid h l) (e : Option Err) :
    GoodLR h l { heap := h, list := l, err := e } := ⟨Pres.refl h, v, id⟩

theorem GoodLR.trans {h : Store} {l : List ObjId} {r r' : LR} (a : GoodLR h l r)
    (b : GoodLR r.heap r.list r') : GoodLR h l r' :=
  ⟨a.pres.trans b.pres, b.valid, fun nd => b.nodup (a.nodup nd)⟩

theorem setParameterValue_pres (h : Store) (l : List ObjId) (n : String) (v : Rat) :
    Pres h (setParameterValue h l n v).heap := by
  unfold setParameterValue
  split
  · exact Pres.refl h
  · split
    · next e => exact pres_put_setValue h _ e
    · exact Pres.refl h

theorem names_append (h : Store) (a b : List ObjId) : names h (a ++ b) = names h a ++ names h b := by
  simp [names]

theorem addParameter_good {h : Store} {l : List ObjId} (p : Par) (v : Valid h l)
    (hp : HeapOk h → p.ok = true) : GoodLR h l (addParameter h l p) := by
  unfold addParameter
  split
  · exact GoodLR.refl v _
  · next hn =>
    have pr := pres_alloc h p hp
    refine ⟨pr, ?_, ?_⟩
    · intro i hi
      simp only [List.mem_append, List.mem_singleton, alloc_snd] at hi
      rcases hi with hi | hi
      · exact Nat.lt_of_lt_of_le (v i hi) pr.next_le
      · subst hi; simp
    · intro nd
      simp only [alloc_snd]
      rw [names_append, pr.names v]
      have : names (h.alloc p).1 [h.next] = [p.name] := by simp [names, nameOf]
      rw [this]
      simp only [Bool.not_eq_true] at hn
      have hn' := (hasParameter_false_iff h l p.name).1 hn
      exact List.nodup_append.2 ⟨nd, by simp, by
        intro a ha b hb; simp only [List.mem_singleton] at hb; subst hb; exact fun c => hn' (c ▸ ha)⟩

theorem shareParameter_good {h : Store} {l : List ObjId} {i : ObjId} (v : Valid h l) (hi : i < h.next) :
    GoodLR h l (shareParameter h l i) := by
  unfold shareParameter
  split
  · have pr := setParameterValue_pres h l (nameOf h i) (h.get i).value
    exact ⟨pr, v.mono pr, fun nd => by rw [pr.names v]; exact nd⟩
  · next hn =>
    refine ⟨Pres.refl h, ?_, ?_⟩
    · intro j hj
      simp only [List.mem_append, List.mem_singleton] at hj
      rcases hj with hj | hj
      · exact v j hj
      · subst hj; exact hi
    · intro nd
      simp only [Bool.not_eq_true] at hn
      have hn' := (hasParameter_false_iff h l _).1 hn
      rw [names_append]
      exact List.nodup_append.2 ⟨nd, by simp [names], by
        intro a ha b hb
        simp only [names, List.map_cons, List.map_nil, List.mem_singleton] at hb
        subst hb; exact fun c => hn' (c ▸ ha)⟩

theorem addParameters_good {h : Store} {l : List ObjId} (src : List ObjId) (v : Valid h l)
    (vs : Valid h src) : GoodLR h l (addParameters h l src) := by
  induction src generalizing h l with
  | nil => exact GoodLR.refl v none
  | cons i rest ih =>
    unfold addParameters; dsimp only
    have g := addParameter_good (h := h) (l := l) (h.get i) v (fun hk => hk i (vs i (List.mem_cons_self ..)))
    split
    · exact ⟨g.pres, g.valid, g.nodup⟩
    · exact g.trans (ih g.valid (Valid.mono (fun j hj => vs j (List.mem_cons_of_mem _ hj)) g.pres))

theorem shareParameters_good {h : Store} {l : List ObjId} (src : List ObjId) (v : Valid h l)
    (vs : Valid h src) : GoodLR h l (shareParameters h l src) := by
  induction src generalizing h l with
  | nil => exact GoodLR.refl v none
  | cons i rest ih =>
    unfold shareParameters; dsimp only
    have g := shareParameter_good (h := h) (l := l) v (vs i (List.mem_cons_self ..))
    split
    · exact ⟨g.pres, g.valid, g.nodup⟩
    · exact g.trans (ih g.valid (Valid.mono (fun j hj => vs j (List.mem_cons_of_mem _ hj)) g.pres))

theorem includeParameters_good {h : Store} {l : List ObjId} (src : List ObjId) (v : Valid h l)
    (vs : Valid h src) : GoodLR h l (includeParameters h l src) := by
  induction src generalizing h l with
  | nil => exact GoodLR.refl v none
  | cons i rest ih =>
    unfold includeParameters; dsimp only
    have hi := vs i (List.mem_cons_self ..)
    have vr : Valid h rest := fun j hj => vs j (List.mem_cons_of_mem _ hj)
    split
    · have pr := setParameterValue_pres h l (nameOf h i) (h.get i).value
      have g : GoodLR h l { heap := (setParameterValue h l (nameOf h i) (h.get i).value).heap, list := l } :=
        ⟨pr, v.mono pr, fun nd => by rw [pr.names v]; exact nd⟩
      split
      · exact ⟨g.pres, g.valid, g.nodup⟩
      · exact g.trans (ih g.valid (vr.mono pr))
    · next hn =>
      -- same as addParameter of a clone
      have g := addParameter_good (h := h) (l := l) (h.get i) v (fun hk => hk i hi)
      have e : addParameter h l (h.get i) = { heap := (h.alloc (h.get i)).1, list := l ++ [(h.alloc (h.get i)).2] } := by
        unfold addParameter; rw [if_neg]; exact hn
      rw [e] at g
      exact g.trans (ih g.valid (vr.mono g.pres))

/-! ### setParameter (repaired code) -/

theorem nameElsewhere_false {h : Store} {l : List ObjId} {k : Nat} {n : String}
    (e : nameElsewhere h l k n = false) : n ∉ names h (l.eraseIdx k) := by
  unfold nameElsewhere at e
  exact (hasParameter_false_iff h (l.eraseIdx k) n).1 e

theorem nodup_set_of_not_mem_eraseIdx {α : Type} : ∀ (l : List α) (k : Nat) (a : α), k < l.length →
    l.Nodup → a ∉ l.eraseIdx k → (l.set k a).Nodup
  | [], _, _, hk, _, _ => by simp at hk
  | x :: t, 0, a, _, nd, ha => by
    simp only [List.eraseIdx_cons_zero] at ha
    simp only [List.set_cons_zero, List.nodup_cons]
    exact ⟨ha, (List.nodup_cons.1 nd).2⟩
  | x :: t, k + 1, a, hk, nd, ha => by
    simp only [List.eraseIdx_cons_succ, List.mem_cons, not_or] at ha
    simp only [List.set_cons_succ, List.nodup_cons]
    have nd' := List.nodup_cons.1 nd
    refine ⟨?_, nodup_set_of_not_mem_eraseIdx t k a (by simpa using hk) nd'.2 ha.2⟩
    intro hx
    rcases List.mem_or_eq_of_mem_set hx with hx | hx
    · exact nd'.1 hx
    · exact ha.1 hx.symm

theorem eraseIdx_map {α β : Type} (f : α → β) (l : List α) (k : Nat) :
    (l.map f).eraseIdx k = (l.eraseIdx k).map f := by
  induction l generalizing k with
  | nil => rfl
  | cons a t ih => cases k with
    | zero => rfl
    | succ k => simp [ih]

theorem setParameter_good {h : Store} {l : List ObjId} (k : Nat) (p : Par) (v : Valid h l)
    (hp : HeapOk h → p.ok = true) : GoodLR h l (setParameter h l k p) := by
  unfold setParameter
  split
  · exact GoodLR.refl v _
  · next hk =>
    split
    · exact GoodLR.refl v _
    · next hn =>
      have pr := pres_alloc h p hp
      have hk' : k < l.length := by omega
      refine ⟨pr, ?_, ?_⟩
      · intro i hi
        rcases List.mem_or_eq_of_mem_set hi with hi | hi
        · exact Nat.lt_of_lt_of_le (v i hi) pr.next_le
        · subst hi; simp
      · intro nd
        simp only [alloc_snd, Bool.not_eq_true] at hn ⊢
        have hn' := nameElsewhere_false hn
        have e : names (h.alloc p).1 (l.set k h.next) = (names h l).set k p.name := by
          unfold names
          rw [List.map_set]
          have : nameOf (h.alloc p).1 h.next = p.name := by simp [nameOf]
          rw [this]
          congr 1
          exact List.map_congr_left (fun i hi => pr.name_eq i (v i hi))
        rw [e]
        apply nodup_set_of_not_mem_eraseIdx _ _ _ (by simpa [names] using hk') nd
        rw [show names h l = l.map (nameOf h) from rfl, eraseIdx_map]
        exact hn'

/-! ### bulk setters: heap-level `Pres` -/

theorem applyAll_pres (src : List ObjId) (l : List ObjId) (h : Store) : Pres h (applyAll h src l).heap := by
  induction l generalizing h with
  | nil => exact Pres.refl h
  | cons i rest ih =>
    unfold applyAll
    split
    · exact Pres.refl h
    · split
      · next e => exact (pres_put_setValue h _ e).trans (ih _)
      · exact Pres.refl h

theorem setAllParametersValues_pres (h : Store) (l src : List ObjId) :
    Pres h (setAllParametersValues h l src).heap := by
  unfold setAllParametersValues
  split
  · exact Pres.refl h
  · exact applyAll_pres src l h

theorem applySome_pres (l : List ObjId) (src : List ObjId) (h : Store) : Pres h (applySome h l src).heap := by
  induction src generalizing h with
  | nil => exact Pres.refl h
  | cons i rest ih =>
    unfold applySome
    split
    · exact ih _
    · split
      · next e => exact (pres_put_setValue h _ e).trans (ih _)
      · exact Pres.refl h

theorem setParametersValues_pres (h : Store) (l src : List ObjId) :
    Pres h (setParametersValues h l src).heap := by
  unfold setParametersValues
  split
  · exact Pres.refl h
  · exact applySome_pres l src h

theorem matchSome_pres (l : List ObjId) (src : List ObjId) (h : Store) (pos : Nat) :
    Pres h (matchSome h l pos src).heap := by
  induction src generalizing h pos with
  | nil => exact Pres.refl h
  | cons i rest ih =>
    unfold matchSome
    split
    · exact ih _ _
    · split
      · split
        · next e => exact (pres_put_setValue h _ e).trans (ih _ _)
        · exact Pres.refl h
      · exact ih _ _

theorem matchParametersValues_pres (h : Store) (l src : List ObjId) :
    Pres h (matchParametersValues h l src).heap := by
  unfold matchParametersValues
  split
  · exact Pres.refl h
  · exact matchSome_pres l src h 0

/-! ### whole-parameter assignment -/

theorem setAllParameters_pres (src : List ObjId) (l : List ObjId) (h : Store) (vs : Valid h src) :
    Pres h (setAllParameters h src l).heap := by
  induction l generalizing h with
  | nil => exact Pres.refl h
  | cons i rest ih =>
    unfold setAllParameters
    split
    · exact Pres.refl h
    · next j e =>
      have pr := pres_put_assign h (t := i) (find?_valid vs e) (find?_some e).2
      exact pr.trans (ih _ (vs.mono pr))

theorem setParameters_pres (l : List ObjId) (src : List ObjId) (h : Store) (vs : Valid h src) :
    Pres h (setParameters h l src).heap := by
  induction src generalizing h with
  | nil => exact Pres.refl h
  | cons s rest ih =>
    unfold setParameters
    have hs := vs s (List.mem_cons_self ..)
    have vr : Valid h rest := fun j hj => vs j (List.mem_cons_of_mem _ hj)
    split
    · exact Pres.refl h
    · next t e =>
      have pr := pres_put_assign h (t := t) hs (find?_some e).2.symm
      exact pr.trans (ih _ (vr.mono pr))

theorem matchParameters_pres (l : List ObjId) (src : List ObjId) (h : Store) (vs : Valid h src) :
    Pres h (matchParameters h l src).heap := by
  induction src generalizing h with
  | nil => exact Pres.refl h
  | cons s rest ih =>
    unfold matchParameters
    have hs := vs s (List.mem_cons_self ..)
    have vr : Valid h rest := fun j hj => vs j (List.mem_cons_of_mem _ hj)
    split
    · exact ih _ vr
    · next t e =>
      have pr := pres_put_assign h (t := t) hs (find?_some e).2.symm
      exact pr.trans (ih _ (vr.mono pr))

/-! ### deletion: the result is a sub-list -/

theorem Valid.sublist {h : Store} {l l' : List ObjId} (v : Valid h l) (s : l'.Sublist l) : Valid h l' :=
  fun i hi => v i (s.subset hi)

theorem names_sublist {h : Store} {l l' : List ObjId} (s : l'.Sublist l) :
    (names h l').Sublist (names h l) := s.map _

theorem deleteParameter_sublist {h : Store} {l l' : List ObjId} {n : String}
    (e : deleteParameter h l n = .ok l') : l'.Sublist l := by
  unfold deleteParameter at e
  split at e
  · cases e; exact List.eraseIdx_sublist ..
  · cases e

theorem deleteParameters_sublist (h : Store) (must : Bool) (ns : List String) (l : List ObjId) :
    (deleteParameters h must l ns).1.Sublist l := by
  induction ns generalizing l with
  | nil => exact List.Sublist.refl _
  | cons n rest ih =>
    unfold deleteParameters
    split
    · next l' e => exact (ih l').trans (deleteParameter_sublist e)
    · split
      · exact List.Sublist.refl _
      · exact ih l

theorem deleteParameterIdx_sublist {l l' : List ObjId} {k : Nat}
    (e : deleteParameterIdx l k = .ok l') : l'.Sublist l := by
  unfold deleteParameterIdx at e
  split at e
  · cases e
  · cases e; exact List.eraseIdx_sublist ..

theorem eraseDesc_sublist (idx : List Nat) (l : List ObjId) : (eraseDesc l idx).1.Sublist l := by
  induction idx generalizing l with
  | nil => exact List.Sublist.refl _
  | cons k rest ih =>
    unfold eraseDesc
    split
    · exact List.Sublist.refl _
    · exact (ih _).trans (List.eraseIdx_sublist ..)

theorem deleteParametersIdx_sublist (idx : List Nat) (l : List ObjId) :
    (deleteParametersIdx l idx).1.Sublist l := eraseDesc_sublist _ l

/-! ### clones and sub-lists -/

/-- the clone list: later heap, fresh distinct ids, same contents -/
theorem cloneAll_spec (l : List ObjId) (h : Store) (v : Valid h l) :
    Pres h (cloneAll h l).1 ∧ Valid (cloneAll h l).1 (cloneAll h l).2 ∧
    (∀ i ∈ (cloneAll h l).2, h.next ≤ i) ∧ (cloneAll h l).2.Nodup ∧
    (cloneAll h l).2.map (cloneAll h l).1.get = l.map h.get ∧
    (∀ i, i < h.next → (cloneAll h l).1.get i = h.get i) := by
  induction l generalizing h with
  | nil => exact ⟨Pres.refl h, Valid.nil h, by simp [cloneAll], by simp [cloneAll], rfl, fun _ _ => rfl⟩
  | cons a t ih =>
    have ha := v a (List.mem_cons_self ..)
    have pr := pres_clone h ha
    have vt : Valid (h.alloc (h.get a)).1 t := Valid.mono (fun j hj => v j (List.mem_cons_of_mem _ hj)) pr
    obtain ⟨p1, p2, p3, p4, p5, p6⟩ := ih (h.alloc (h.get a)).1 vt
    simp only [cloneAll, alloc_snd]
    simp only [next_alloc] at p3
    refine ⟨pr.trans p1, ?_, ?_, ?_, ?_, ?_⟩
    · intro i hi
      rcases List.mem_cons.1 hi with hi | hi
      · subst hi; exact Nat.lt_of_lt_of_le (by simp) p1.next_le
      · exact p2 i hi
    · intro i hi
      rcases List.mem_cons.1 hi with hi | hi
      · subst hi; exact Nat.le_refl _
      · exact Nat.le_of_succ_le (p3 i hi)
    · refine List.nodup_cons.2 ⟨fun c => ?_, p4⟩
      have := p3 _ c; omega
    · simp only [List.map_cons]
      rw [p6 h.next (by simp), p5]
      simp only [get_alloc, if_true]
      congr 1
      apply List.map_congr_left
      intro j hj
      have := v j (List.mem_cons_of_mem _ hj)
      grind
    · intro i hi
      rw [p6 i (by simp; omega)]
      grind

theorem names_eq_of_map_get {h h' : Store} {l l' : List ObjId} (e : l'.map h'.get = l.map h.get) :
    names h' l' = names h l := by
  have : (l'.map h'.get).map Par.name = (l.map h.get).map Par.name := by rw [e]
  simp only [List.map_map] at this
  exact this

theorem createSubListNames_good (l : List ObjId) (ns : List String) {h : Store} {acc : List ObjId}
    (v : Valid h l) (va : Valid h acc) : GoodLR h acc (createSubListNames h l acc ns) := by
  induction ns generalizing h acc with
  | nil => exact GoodLR.refl va none
  | cons n rest ih =>
    unfold createSubListNames
    split
    · exact GoodLR.refl va _
    · next i e =>
      dsimp only
      have g := addParameter_good (h := h) (l := acc) (h.get i) va (fun hk => hk i (find?_valid v e))
      split
      · exact ⟨g.pres, g.valid, g.nodup⟩
      · exact g.trans (ih (v.mono g.pres) g.valid)

theorem shareSubListNames_good (l : List ObjId) (ns : List String) {h : Store} {acc : List ObjId}
    (v : Valid h l) (va : Valid h acc) : GoodLR h acc (shareSubListNames h l acc ns) := by
  induction ns generalizing h acc with
  | nil => exact GoodLR.refl va none
  | cons n rest ih =>
    unfold shareSubListNames
    split
    · exact GoodLR.refl va _
    · next i e =>
      dsimp only
      have g := shareParameter_good (h := h) (l := acc) va (find?_valid v e)
      split
      · exact ⟨g.pres, g.valid, g.nodup⟩
      · exact g.trans (ih (v.mono g.pres) g.valid)

theorem getElem?_valid {h : Store} {l : List ObjId} {k : Nat} {i : ObjId} (v : Valid h l)
    (e : l[k]? = some i) : i < h.next := v i (List.mem_of_getElem? e)

theorem createSubListIdx_good (l : List ObjId) (idx : List Nat) {h : Store} {acc : List ObjId}
    (v : Valid h l) (va : Valid h acc) : GoodLR h acc (createSubListIdx h l acc idx) := by
  induction idx generalizing h acc with
  | nil => exact GoodLR.refl va none
  | cons k rest ih =>
    unfold createSubListIdx
    split
    · exact ih v va
    · next i e =>
      dsimp only
      have g := addParameter_good (h := h) (l := acc) (h.get i) va (fun hk => hk i (getElem?_valid v e))
      split
      · exact ⟨g.pres, g.valid, g.nodup⟩
      · exact g.trans (ih (v.mono g.pres) g.valid)

theorem shareSubListIdx_good (l : List ObjId) (idx : List Nat) {h : Store} {acc : List ObjId}
    (v : Valid h l) (va : Valid h acc) : GoodLR h acc (shareSubListIdx h l acc idx) := by
  induction idx generalizing h acc with
  | nil => exact GoodLR.refl va none
  | cons k rest ih =>
    unfold shareSubListIdx
    split
    · exact ih v va
    · next i e =>
      dsimp only
      have g := shareParameter_good (h := h) (l := acc) va (getElem?_valid v e)
      split
      · exact ⟨g.pres, g.valid, g.nodup⟩
      · exact g.trans (ih (v.mono g.pres) g.valid)

/-- `getCommonParametersWith`: clones of the source entries whose name is in `l` -/
theorem getCommon_spec (l : List ObjId) (h0 : Store) (src : List ObjId) (h : Store)
    (vs : Valid h0 src) (le : h0.next ≤ h.next) (same : ∀ i, i < h0.next → h.get i = h0.get i)
    (pr0 : Pres h0 h) :
    let r := getCommonParametersWith h0 l h src
    Pres h0 r.1 ∧ Valid r.1 r.2 ∧ (∀ i ∈ r.2, h.next ≤ i) ∧ r.2.Nodup ∧
    r.2.map r.1.get = (src.filter (fun s => hasParameter h0 l (nameOf h0 s))).map h0.get ∧
    (∀ i, i < h.next → r.1.get i = h.get i) ∧ h.next ≤ r.1.next := by
  induction src generalizing h with
  | nil => exact ⟨pr0, Valid.nil _, by simp [getCommonParametersWith], by simp [getCommonParametersWith], rfl, fun _ _ => rfl, Nat.le_refl _⟩
  | cons s rest ih =>
    have hs := vs s (List.mem_cons_self ..)
    have vr : Valid h0 rest := fun j hj => vs j (List.mem_cons_of_mem _ hj)
    unfold getCommonParametersWith
    split
    · next hc =>
      have pa : Pres h (h.alloc (h0.get s)).1 := pres_alloc h _ (fun hk => by
        have := hk s (Nat.lt_of_lt_of_le hs le); rw [same s hs] at this; exact this)
      have same' : ∀ i, i < h0.next → (h.alloc (h0.get s)).1.get i = h0.get i := by
        intro i hi; rw [← same i hi]; grind
      obtain ⟨p1, p2, p3, p4, p5, p6, p7⟩ := ih (h.alloc (h0.get s)).1 vr (by simp; omega) same' (pr0.trans pa)
      dsimp only
      simp only [alloc_snd]
      simp only [next_alloc] at p3 p6 p7
      refine ⟨p1, ?_, ?_, ?_, ?_, ?_, by omega⟩
      · intro i hi
        rcases List.mem_cons.1 hi with hi | hi
        · subst hi; omega
        · exact p2 i hi
      · intro i hi
        rcases List.mem_cons.1 hi with hi | hi
        · subst hi; exact Nat.le_refl _
        · exact Nat.le_of_succ_le (p3 i hi)
      · refine List.nodup_cons.2 ⟨fun c => ?_, p4⟩
        have := p3 _ c; omega
      · simp only [List.map_cons, List.filter_cons, hc, if_true]
        rw [p6 h.next (by omega), p5]
        simp
      · intro i hi
        rw [p6 i (by omega)]
        grind
    · next hc =>
      obtain ⟨p1, p2, p3, p4, p5, p6, p7⟩ := ih h vr le same pr0
      refine ⟨p1, p2, p3, p4, ?_, p6, p7⟩
      rw [p5]; simp [hc]

/-! ### AbstractParametrizable layer -/

theorem apSetAllParametersValues_pres (h : Store) (l src : List ObjId) :
    Pres h (apSetAllParametersValues h l src).heap := by
  unfold apSetAllParametersValues; dsimp only
  split <;> exact setAllParametersValues_pres h l src

theorem apSetParametersValues_pres (h : Store) (l src : List ObjId) :
    Pres h (apSetParametersValues h l src).heap := by
  unfold apSetParametersValues; dsimp only
  split <;> exact setParametersValues_pres h l src

theorem apSetParameterValue_pres (h : Store) (l : List ObjId) (pre n : String) (v : Rat)
    (vl : Valid h l) : Pres h (apSetParameterValue h l pre n v).heap := by
  unfold apSetParameterValue; dsimp only
  have p1 := setParameterValue_pres h l (pre ++ n) v
  split
  · exact p1
  · have g := createSubListNames_good l [pre ++ n] (vl.mono p1) (Valid.nil _)
    split <;> exact p1.trans g.pres

theorem apMatchParametersValues_pres (h : Store) (l src : List ObjId) (vs : Valid h src) :
    Pres h (apMatchParametersValues h l src).heap := by
  unfold apMatchParametersValues; dsimp only
  have p1 := matchParametersValues_pres h l src
  split
  · exact p1
  · split
    · exact p1.trans (shareSubListIdx_good src _ (vs.mono p1) (Valid.nil _)).pres
    · exact p1

/-! ## Machine states -/

/-- the invariant of every reachable machine state -/
structure Inv (s : State) : Prop where
  wf : ∀ k, Valid s.heap (s.lists k)
  ok : HeapOk s.heap
  names : ∀ k, (names s.heap (s.lists k)).Nodup

theorem inv_init : Inv State.init :=
  ⟨fun _ => Valid.nil _, fun i hi => by simp [State.init, Store.empty] at hi, fun _ => List.nodup_nil⟩

/-- every step has this shape: a later heap, and one register replaced by a valid list with unique names -/
theorem inv_update {s : State} (inv : Inv s) {h' : Store} (pr : Pres s.heap h') (k : Nat) {l' : List ObjId}
    (v : Valid h' l') (nd : (names h' l').Nodup) : Inv ((s.withHeap h').setList k l') := by
  refine ⟨fun j => ?_, pr.ok inv.ok, fun j => ?_⟩
  · simp only [State.setList, State.withHeap]
    split
    · exact v
    · exact (inv.wf j).mono pr
  · simp only [State.setList, State.withHeap]
    split
    · exact nd
    · rw [pr.names (inv.wf j)]; exact inv.names j

theorem inv_heap {s : State} (inv : Inv s) {h' : Store} (pr : Pres s.heap h') : Inv (s.withHeap h') :=
  ⟨fun j => (inv.wf j).mono pr, pr.ok inv.ok, fun j => by
    simp only [State.withHeap]; rw [pr.names (inv.wf j)]; exact inv.names j⟩

theorem inv_setList {s : State} (inv : Inv s) (k : Nat) {l' : List ObjId}
    (v : Valid s.heap l') (nd : (names s.heap l').Nodup) : Inv (s.setList k l') :=
  inv_update inv (Pres.refl _) k v nd

theorem inv_sublist {s : State} (inv : Inv s) (k : Nat) {l' : List ObjId}
    (sub : l'.Sublist (s.lists k)) : Inv (s.setList k l') :=
  inv_setList inv k ((inv.wf k).sublist sub) ((names_sublist sub).nodup (inv.names k))

theorem inv_stepLR {s : State} (inv : Inv s) (k : Nat) {r : LR} (g : GoodLR s.heap (s.lists k) r) :
    Inv (stepLR s k r).1 :=
  inv_update inv g.pres k g.valid (g.nodup (inv.names k))

theorem inv_stepHR {s : State} (inv : Inv s) {r : HR} (pr : Pres s.heap r.heap) : Inv (stepHR s r).1 :=
  inv_heap inv pr

theorem inv_stepSub {s : State} (inv : Inv s) (j : Nat) {r : LR} (g : GoodLR s.heap [] r) :
    Inv (stepSub s j r).1 := by
  unfold stepSub
  split
  · exact inv_heap inv g.pres
  · exact inv_update inv g.pres j g.valid (g.nodup List.nodup_nil)

theorem inv_stepAR {s : State} (inv : Inv s) {r : AR} (b : Bool) (pr : Pres s.heap r.heap) :
    Inv (stepAR s r b).1 := inv_heap inv pr

/-- **Every operation except `setNamespace` keeps the invariant** (valid ids, every object
satisfies its constraint, names pairwise different in every list). -/
theorem inv_step {s : State} (inv : Inv s) (op : Op) (hop : op.keepsNames = true) : Inv (step s op).1 := by
  cases op with
  | add k p | addPtr k p =>
    simp only [step]
    split
    · exact inv
    · next hp => exact inv_stepLR inv k (addParameter_good p (inv.wf k) (fun _ => by simpa using hp))
  | addAll k j => exact inv_stepLR inv k (addParameters_good _ (inv.wf k) (inv.wf j))
  | share k j n =>
    simp only [step]
    split
    · exact inv
    · next i e => exact inv_stepLR inv k (shareParameter_good (inv.wf k) (find?_valid (inv.wf j) e))
  | shareAll k j => exact inv_stepLR inv k (shareParameters_good _ (inv.wf k) (inv.wf j))
  | incl k j => exact inv_stepLR inv k (includeParameters_good _ (inv.wf k) (inv.wf j))
  | setParam k i p =>
    simp only [step]
    split
    · exact inv
    · next hp => exact inv_stepLR inv k (setParameter_good i p (inv.wf k) (fun _ => by simpa using hp))
  | setValue k n v => exact inv_stepHR inv (setParameterValue_pres ..)
  | setAllValues k j => exact inv_stepHR inv (setAllParametersValues_pres ..)
  | setValues k j => exact inv_stepHR inv (setParametersValues_pres ..)
  | testValues k j => simp only [step]; split <;> exact inv
  | matchValues k j w => exact inv_heap inv (matchParametersValues_pres ..)
  | setAllParams k j => exact inv_stepHR inv (setAllParameters_pres _ _ _ (inv.wf j))
  | setParams k j => exact inv_stepHR inv (setParameters_pres _ _ _ (inv.wf j))
  | matchParams k j => exact inv_stepHR inv (matchParameters_pres _ _ _ (inv.wf j))
  | delName k n =>
    simp only [step]
    split
    · next l e => exact inv_sublist inv k (deleteParameter_sublist e)
    · exact inv
  | delNames k ns must => exact inv_sublist inv k (deleteParameters_sublist ..)
  | delIdx k i =>
    simp only [step]
    split
    · next l e => exact inv_sublist inv k (deleteParameterIdx_sublist e)
    · exact inv
  | delIdxs k idx => exact inv_sublist inv k (deleteParametersIdx_sublist ..)
  | subNames k j ns => exact inv_stepSub inv j (createSubListNames_good _ _ (inv.wf k) (Valid.nil _))
  | subName k j n => exact inv_stepSub inv j (createSubListNames_good _ _ (inv.wf k) (Valid.nil _))
  | subIdxs k j idx => exact inv_stepSub inv j (createSubListIdx_good _ _ (inv.wf k) (Valid.nil _))
  | subIdx k j i => exact inv_stepSub inv j (createSubListIdx_good _ _ (inv.wf k) (Valid.nil _))
  | shareSubNames k j ns => exact inv_stepSub inv j (shareSubListNames_good _ _ (inv.wf k) (Valid.nil _))
  | shareSubIdxs k j idx => exact inv_stepSub inv j (shareSubListIdx_good _ _ (inv.wf k) (Valid.nil _))
  | common k j m =>
    obtain ⟨p1, p2, _, _, p5, _, _⟩ := getCommon_spec (s.lists k) s.heap (s.lists j) s.heap (inv.wf j)
      (Nat.le_refl _) (fun _ _ => rfl) (Pres.refl _)
    refine inv_update inv p1 m p2 ?_
    rw [names_eq_of_map_get p5]
    exact (names_sublist List.filter_sublist).nodup (inv.names j)
  | which k n => simp only [step]; split <;> exact inv
  | has k n => exact inv
  | names k => exact inv
  | getValue k n => simp only [step]; split <;> exact inv
  | size k => exact inv
  | copy k j | assign k j =>
    obtain ⟨p1, p2, _, _, p5, _⟩ := cloneAll_spec (s.lists k) s.heap (inv.wf k)
    refine inv_update inv p1 j p2 ?_
    rw [names_eq_of_map_get p5]; exact inv.names k
  | reset k => exact inv_setList inv k (Valid.nil _) List.nodup_nil
  | apSetAll k j => exact inv_stepAR inv _ (apSetAllParametersValues_pres ..)
  | apSetValue k n v => exact inv_stepAR inv _ (apSetParameterValue_pres _ _ _ _ _ (inv.wf k))
  | apSetValues k j => exact inv_stepAR inv _ (apSetParametersValues_pres ..)
  | apMatch k j => exact inv_stepAR inv _ (apMatchParametersValues_pres _ _ _ (inv.wf j))
  | apNamespace k p => cases hop

/-! ## Two-pass bulk setters -/

/-- same names and constraints everywhere (only values may differ) -/
def SameShape (h h' : Store) : Prop :=
  ∀ x, (h'.get x).name = (h.get x).name ∧ (h'.get x).con = (h.get x).con

theorem SameShape.refl (h : Store) : SameShape h h := fun _ => ⟨rfl, rfl⟩
theorem SameShape.trans {a b c : Store} (x : SameShape a b) (y : SameShape b c) : SameShape a c :=
  fun i => ⟨(y i).1.trans (x i).1, (y i).2.trans (x i).2⟩

theorem SameShape.find? {h h' : Store} (ss : SameShape h h') (l : List ObjId) (n : String) :
    find? h' l n = find? h l n := find?_congr (fun i _ => (ss i).1) n

theorem SameShape.nameOf {h h' : Store} (ss : SameShape h h') (i : ObjId) : nameOf h' i = nameOf h i := (ss i).1

theorem SameShape.names {h h' : Store} (ss : SameShape h h') (l : List ObjId) : names h' l = names h l :=
  names_congr (fun i _ => ss.nameOf i)

theorem SameShape.rejects {h h' : Store} (ss : SameShape h h') (i : ObjId) (v : Rat) :
    (h'.get i).rejects v = (h.get i).rejects v := by
  unfold Par.rejects; rw [(ss i).2]

theorem SameShape.put_setValue {h h' : Store} (ss : SameShape h h') {t : ObjId} {p : Par} {v : Rat}
    (e : (h'.get t).setValue v = .ok p) : SameShape h (h'.put t p) := by
  obtain ⟨e1, e2, _, _⟩ := setValue_ok e
  intro x
  have := ss x
  have := ss t
  grind

theorem setValue_self (p : Par) : p.setValue p.value = .ok p := by simp [Par.setValue]

theorem setValue_noerr_of_accepts {p : Par} {v : Rat} (h : p.rejects v = false) : ∃ q, p.setValue v = .ok q :=
  ⟨_, setValue_of_accepts h⟩

/-- one successful `setValue` written back: shape kept, the target holds `v`, others untouched -/
theorem put_setValue_value {h : Store} {t : ObjId} {q : Par} {v : Rat} (e : (h.get t).setValue v = .ok q) :
    ((h.put t q).get t).value = v ∧ ∀ x, x ≠ t → (h.put t q).get x = h.get x := by
  obtain ⟨_, _, _, e4⟩ := setValue_ok e
  exact ⟨by simp [e4], fun x hx => by simp [hx]⟩

/-- the name of `s` does not occur among the names of `rest` → nobody in `rest` shares a target with `s` -/
theorem ne_of_name_not_mem {h : Store} {rest : List ObjId} {s x : ObjId} (hn : nameOf h s ∉ names h rest)
    (hx : x ∈ rest) : nameOf h x ≠ nameOf h s := by
  intro c; apply hn; rw [← c]; exact List.mem_map_of_mem hx

/-! ### `setParametersValues`: the second pass under unique source names -/

theorem applySome_spec (l : List ObjId) (rest : List ObjId) (h : Store)
    (nd : (names h rest).Nodup)
    (chk : ∀ s ∈ rest, ∀ t, find? h l (nameOf h s) = some t → (h.get t).rejects (h.get s).value = false) :
    let r := applySome h l rest
    r.err = none ∧ SameShape h r.heap ∧ r.heap.next = h.next ∧
    (∀ s ∈ rest, ∀ t, find? h l (nameOf h s) = some t → (r.heap.get t).value = (h.get s).value) ∧
    (∀ i, (∀ s ∈ rest, find? h l (nameOf h s) ≠ some i) → r.heap.get i = h.get i) := by
  induction rest generalizing h with
  | nil => exact ⟨rfl, SameShape.refl h, rfl, by simp, fun _ _ => rfl⟩
  | cons s rest ih =>
    have nd' := List.nodup_cons.1 nd
    have chk' : ∀ s ∈ rest, ∀ t, find? h l (nameOf h s) = some t → (h.get t).rejects (h.get s).value = false :=
      fun s' hs' => chk s' (List.mem_cons_of_mem _ hs')
    unfold applySome
    split
    · next e =>
      obtain ⟨i1, i2, i3, i4, i5⟩ := ih h nd'.2 chk'
      refine ⟨i1, i2, i3, ?_, ?_⟩
      · intro s' hs' t ht
        rcases List.mem_cons.1 hs' with rfl | hs'
        · rw [e] at ht; cases ht
        · exact i4 s' hs' t ht
      · intro i hi
        exact i5 i (fun s' hs' => hi s' (List.mem_cons_of_mem _ hs'))
    · next t e =>
      have ht := find?_some e
      have hrej := chk s (List.mem_cons_self ..) t e
      rw [setValue_of_accepts hrej]
      dsimp only
      have hq : (h.get t).setValue (h.get s).value = .ok { h.get t with value := (h.get s).value } :=
        setValue_of_accepts hrej
      have ss1 : SameShape h (h.put t { h.get t with value := (h.get s).value }) :=
        (SameShape.refl h).put_setValue hq
      obtain ⟨v1, v2⟩ := put_setValue_value hq
      -- nobody in `rest` carries the name of `s` (= the name of `t`)
      have hne : ∀ x ∈ rest, nameOf h x ≠ nameOf h s := fun x hx => ne_of_name_not_mem nd'.1 hx
      have hnt : ∀ x ∈ rest, x ≠ t := fun x hx c => hne x hx (by rw [c, ht.2])
      have key := ih (h.put t { h.get t with value := (h.get s).value })
        (by rw [ss1.names]; exact nd'.2)
        (by
          intro s' hs' t' ht'
          rw [ss1.nameOf, ss1.find?] at ht'
          rw [ss1.rejects, v2 s' (hnt s' hs')]
          exact chk' s' hs' t' ht')
      obtain ⟨i1, i2, i3, i4, i5⟩ := key
      refine ⟨i1, ss1.trans i2, by rw [i3]; rfl, ?_, ?_⟩
      · intro s' hs' t' ht'
        rcases List.mem_cons.1 hs' with rfl | hs'
        · have ett : t' = t := by rw [e] at ht'; exact (Option.some.inj ht').symm
          subst ett
          rw [i5 t' ?_, v1]
          intro x hx c
          rw [ss1.nameOf, ss1.find?] at c
          exact hne x hx ((find?_some c).2.symm.trans ht.2)
        · have := i4 s' hs' t' (by rw [ss1.nameOf, ss1.find?]; exact ht')
          rw [this, v2 s' (hnt s' hs')]
      · intro i hi
        have hit : i ≠ t := fun c => hi s (List.mem_cons_self ..) (c ▸ e)
        rw [i5 i ?_, v2 i hit]
        intro x hx c
        rw [ss1.nameOf, ss1.find?] at c
        exact hi x (List.mem_cons_of_mem _ hx) c


theorem diffPos_congr (l : List ObjId) (rest : List ObjId) (h h' : Store) (pos : Nat) (ss : SameShape h h')
    (hv : ∀ s ∈ rest, (h'.get s).value = (h.get s).value ∧
      ∀ t, find? h l (nameOf h s) = some t → (h'.get t).value = (h.get t).value) :
    diffPos h' l pos rest = diffPos h l pos rest := by
  induction rest generalizing pos with
  | nil => rfl
  | cons s rest ih =>
    have ih' := fun p => ih p (fun s' hs' => hv s' (List.mem_cons_of_mem _ hs'))
    unfold diffPos
    rw [ss.nameOf, ss.find?]
    split
    · exact ih' _
    · next t e =>
      obtain ⟨h1, h2⟩ := hv s (List.mem_cons_self ..)
      rw [h1, h2 t e, ih']

theorem matchSome_spec (l : List ObjId) (rest : List ObjId) (h : Store) (pos : Nat)
    (nd : (names h rest).Nodup)
    (chk : ∀ s ∈ rest, ∀ t, find? h l (nameOf h s) = some t → (h.get t).rejects (h.get s).value = false) :
    let r := matchSome h l pos rest
    r.err = none ∧ r.pos = diffPos h l pos rest ∧ SameShape h r.heap ∧ r.heap.next = h.next ∧
    (∀ s ∈ rest, ∀ t, find? h l (nameOf h s) = some t → (r.heap.get t).value = (h.get s).value) ∧
    (∀ i, (∀ s ∈ rest, find? h l (nameOf h s) ≠ some i) → r.heap.get i = h.get i) := by
  induction rest generalizing h pos with
  | nil => exact ⟨rfl, rfl, SameShape.refl h, rfl, by simp, fun _ _ => rfl⟩
  | cons s rest ih =>
    have nd' := List.nodup_cons.1 nd
    have chk' : ∀ s ∈ rest, ∀ t, find? h l (nameOf h s) = some t → (h.get t).rejects (h.get s).value = false :=
      fun s' hs' => chk s' (List.mem_cons_of_mem _ hs')
    have hne : ∀ x ∈ rest, nameOf h x ≠ nameOf h s := fun x hx => ne_of_name_not_mem nd'.1 hx
    cases e : find? h l (nameOf h s) with
    | none =>
      simp only [matchSome, diffPos, e]
      obtain ⟨i1, i0, i2, i3, i4, i5⟩ := ih h (pos + 1) nd'.2 chk'
      refine ⟨i1, i0, i2, i3, ?_, ?_⟩
      · intro s' hs' t ht
        rcases List.mem_cons.1 hs' with rfl | hs'
        · rw [e] at ht; cases ht
        · exact i4 s' hs' t ht
      · intro i hi
        exact i5 i (fun s' hs' => hi s' (List.mem_cons_of_mem _ hs'))
    | some t =>
      have ht := find?_some e
      have hnt : ∀ x ∈ rest, x ≠ t := fun x hx c => hne x hx (by rw [c, ht.2])
      simp only [matchSome, diffPos, e]
      split
      · next hdiff =>
        have hrej := chk s (List.mem_cons_self ..) t e
        rw [setValue_of_accepts hrej]
        dsimp only
        have hq : (h.get t).setValue (h.get s).value = .ok { h.get t with value := (h.get s).value } :=
          setValue_of_accepts hrej
        have ss1 : SameShape h (h.put t { h.get t with value := (h.get s).value }) :=
          (SameShape.refl h).put_setValue hq
        obtain ⟨v1, v2⟩ := put_setValue_value hq
        have key := ih (h.put t { h.get t with value := (h.get s).value }) (pos + 1)
          (by rw [ss1.names]; exact nd'.2)
          (by
            intro s' hs' t' ht'
            rw [ss1.nameOf, ss1.find?] at ht'
            rw [ss1.rejects, v2 s' (hnt s' hs')]
            exact chk' s' hs' t' ht')
        obtain ⟨i1, i0, i2, i3, i4, i5⟩ := key
        refine ⟨i1, ?_, ss1.trans i2, by rw [i3]; rfl, ?_, ?_⟩
        · rw [i0, diffPos_congr l rest h _ (pos + 1) ss1]
          intro s' hs'
          refine ⟨by rw [v2 s' (hnt s' hs')], fun t' ht' => ?_⟩
          rw [v2 t' ?_]
          intro c; subst c
          exact hne s' hs' ((find?_some ht').2.symm.trans ht.2)
        · intro s' hs' t' ht'
          rcases List.mem_cons.1 hs' with rfl | hs'
          · have ett : t' = t := by rw [e] at ht'; exact (Option.some.inj ht').symm
            subst ett
            rw [i5 t' ?_, v1]
            intro x hx c
            rw [ss1.nameOf, ss1.find?] at c
            exact hne x hx ((find?_some c).2.symm.trans ht.2)
          · have := i4 s' hs' t' (by rw [ss1.nameOf, ss1.find?]; exact ht')
            rw [this, v2 s' (hnt s' hs')]
        · intro i hi
          have hit : i ≠ t := fun c => hi s (List.mem_cons_self ..) (c ▸ e)
          rw [i5 i ?_, v2 i hit]
          intro x hx c
          rw [ss1.nameOf, ss1.find?] at c
          exact hi x (List.mem_cons_of_mem _ hx) c
      · next hsame =>
        simp only [ne_eq, Decidable.not_not] at hsame
        obtain ⟨i1, i0, i2, i3, i4, i5⟩ := ih h (pos + 1) nd'.2 chk'
        refine ⟨i1, i0, i2, i3, ?_, ?_⟩
        · intro s' hs' t' ht'
          rcases List.mem_cons.1 hs' with rfl | hs'
          · have ett : t' = t := by rw [e] at ht'; exact (Option.some.inj ht').symm
            subst ett
            rw [i5 t' ?_, hsame]
            intro x hx c
            exact hne x hx ((find?_some c).2.symm.trans ht.2)
          · exact i4 s' hs' t' ht'
        · intro i hi
          exact i5 i (fun s' hs' => hi s' (List.mem_cons_of_mem _ hs'))

theorem matchSome_noerr (h0 : Store) (l : List ObjId) (rest : List ObjId) (h : Store) (pos : Nat)
    (ss : SameShape h0 h)
    (inv : ∀ x, (h.get x).value = (h0.get x).value ∨ find? h0 l (nameOf h0 x) = some x)
    (chk : ∀ s ∈ rest, ∀ t, find? h0 l (nameOf h0 s) = some t → (h0.get t).rejects (h0.get s).value = false) :
    (matchSome h l pos rest).err = none := by
  induction rest generalizing h pos with
  | nil => rfl
  | cons s rest ih =>
    have chk' : ∀ s ∈ rest, ∀ t, find? h0 l (nameOf h0 s) = some t → (h0.get t).rejects (h0.get s).value = false :=
      fun s' hs' => chk s' (List.mem_cons_of_mem _ hs')
    unfold matchSome
    rw [ss.find?, ss.nameOf]
    split
    · exact ih h _ ss inv chk'
    · next t e =>
      have ht := find?_some e
      split
      · have key : ∃ q, (h.get t).setValue (h.get s).value = .ok q := by
          rcases inv s with hv | hself
          · apply setValue_noerr_of_accepts
            rw [ss.rejects, hv]; exact chk s (List.mem_cons_self ..) t e
          · rw [e] at hself; cases hself; exact ⟨_, setValue_self _⟩
        obtain ⟨q, hq⟩ := key
        rw [hq]
        dsimp only
        refine ih _ _ (ss.put_setValue hq) ?_ chk'
        intro x
        by_cases hx : x = t
        · subst hx; right; rw [ht.2]; exact e
        · rcases inv x with hv | hself
          · left; simp [hx, hv]
          · right; exact hself
      · exact ih h _ ss inv chk'

theorem testSome_eq (h : Store) (l : List ObjId) (src : List ObjId) (pos : Nat) :
    testSome h l src = !(diffPos h l pos src).isEmpty := by
  induction src generalizing pos with
  | nil => rfl
  | cons s rest ih =>
    cases e : find? h l (nameOf h s) with
    | none => simp only [testSome, diffPos, e]; exact ih _
    | some t =>
      simp only [testSome, diffPos, e]
      split
      · next hd => simp [hd]
      · next hd =>
        simp only [ne_eq, Decidable.not_not] at hd
        simp [hd, ih (pos + 1)]


/-! ### first pass -/

theorem checkSome_none {h : Store} {l src : List ObjId} :
    checkSome h l src = none ↔
      ∀ s ∈ src, ∀ t, find? h l (nameOf h s) = some t → (h.get t).rejects (h.get s).value = false := by
  induction src with
  | nil => simp [checkSome]
  | cons s rest ih =>
    unfold checkSome
    split
    · next e => rw [ih]; simp [e]
    · next t e =>
      split
      · next hr =>
        simp only [reduceCtorEq, List.mem_cons, forall_eq_or_imp, false_iff, not_and]
        intro c; have := c t e; simp [hr] at this
      · next hr =>
        rw [ih]; simp only [List.mem_cons, forall_eq_or_imp, e, Option.some.injEq, forall_eq']
        simp only [Bool.not_eq_true] at hr
        simp [hr]

theorem checkSome_some {h : Store} {l src : List ObjId} {e : Err} (c : checkSome h l src = some e) :
    e = .constraint := by
  induction src with
  | nil => simp [checkSome] at c
  | cons s rest ih =>
    unfold checkSome at c
    split at c
    · exact ih c
    · split at c
      · cases c; rfl
      · exact ih c

/-! ### second pass never raises after a successful first pass (no hypothesis on names) -/

theorem applySome_noerr (h0 : Store) (l : List ObjId) (rest : List ObjId) (h : Store)
    (ss : SameShape h0 h)
    (inv : ∀ x, (h.get x).value = (h0.get x).value ∨ find? h0 l (nameOf h0 x) = some x)
    (chk : ∀ s ∈ rest, ∀ t, find? h0 l (nameOf h0 s) = some t → (h0.get t).rejects (h0.get s).value = false) :
    (applySome h l rest).err = none := by
  induction rest generalizing h with
  | nil => rfl
  | cons s rest ih =>
    have chk' : ∀ s ∈ rest, ∀ t, find? h0 l (nameOf h0 s) = some t → (h0.get t).rejects (h0.get s).value = false :=
      fun s' hs' => chk s' (List.mem_cons_of_mem _ hs')
    unfold applySome
    rw [ss.find?, ss.nameOf]
    split
    · exact ih h ss inv chk'
    · next t e =>
      have ht := find?_some e
      -- the value written is accepted, or it is a self-write
      have key : ∃ q, (h.get t).setValue (h.get s).value = .ok q := by
        rcases inv s with hv | hself
        · apply setValue_noerr_of_accepts
          rw [ss.rejects, hv]; exact chk s (List.mem_cons_self ..) t e
        · rw [e] at hself; cases hself; exact ⟨_, setValue_self _⟩
      obtain ⟨q, hq⟩ := key
      rw [hq]
      refine ih _ (ss.put_setValue hq) ?_ chk'
      intro x
      by_cases hx : x = t
      · subst hx; right; rw [ht.2]; exact e
      · rcases inv x with hv | hself
        · left; simp [hx, hv]
        · right; exact hself



/-! ### `setAllParametersValues` -/

theorem checkAll_none {h : Store} {src l : List ObjId} :
    checkAll h src l = none ↔
      ∀ i ∈ l, ∃ j, find? h src (nameOf h i) = some j ∧ (h.get i).rejects (h.get j).value = false := by
  induction l with
  | nil => simp [checkAll]
  | cons i rest ih =>
    cases e : find? h src (nameOf h i) with
    | none => simp [checkAll, e]
    | some j =>
      simp only [checkAll, e, List.mem_cons, forall_eq_or_imp, Option.some.injEq, exists_eq_left']
      split
      · next hr => simp [hr]
      · next hr => simp only [Bool.not_eq_true] at hr; simp [hr, ih]

theorem checkAll_some {h : Store} {src l : List ObjId} {e : Err} (c : checkAll h src l = some e) :
    e = .notfound ∨ e = .constraint := by
  induction l with
  | nil => simp [checkAll] at c
  | cons i rest ih =>
    unfold checkAll at c
    split at c
    · cases c; exact Or.inl rfl
    · split at c
      · cases c; exact Or.inr rfl
      · exact ih c

/-- the second pass never raises after a successful first pass (no hypothesis on names) -/
theorem applyAll_noerr (h0 : Store) (src : List ObjId) (rest : List ObjId) (h : Store)
    (ss : SameShape h0 h)
    (inv : ∀ x, find? h0 src (nameOf h0 x) = some x → (h.get x).value = (h0.get x).value)
    (chk : ∀ i ∈ rest, ∃ j, find? h0 src (nameOf h0 i) = some j ∧ (h0.get i).rejects (h0.get j).value = false) :
    (applyAll h src rest).err = none := by
  induction rest generalizing h with
  | nil => rfl
  | cons i rest ih =>
    have chk' : ∀ i ∈ rest, ∃ j, find? h0 src (nameOf h0 i) = some j ∧ (h0.get i).rejects (h0.get j).value = false :=
      fun i' hi' => chk i' (List.mem_cons_of_mem _ hi')
    obtain ⟨j, e, hr⟩ := chk i (List.mem_cons_self ..)
    have hj := find?_some e
    unfold applyAll
    rw [ss.find?, ss.nameOf, e]
    dsimp only
    have hjv : (h.get j).value = (h0.get j).value := inv j (by rw [hj.2]; exact e)
    have hq : (h.get i).setValue (h.get j).value = .ok { h.get i with value := (h.get j).value } :=
      setValue_of_accepts (by rw [ss.rejects, hjv]; exact hr)
    rw [hq]
    refine ih _ (ss.put_setValue hq) ?_ chk'
    intro x hx
    by_cases hxi : x = i
    · subst hxi
      -- `x` is its own source: a self-write
      rw [e] at hx; cases hx
      simp [hjv]
    · simp [hxi, inv x hx]

theorem applyAll_spec (src : List ObjId) (rest : List ObjId) (h : Store)
    (nd : (names h rest).Nodup)
    (chk : ∀ i ∈ rest, ∃ j, find? h src (nameOf h i) = some j ∧ (h.get i).rejects (h.get j).value = false) :
    let r := applyAll h src rest
    r.err = none ∧ SameShape h r.heap ∧ r.heap.next = h.next ∧
    (∀ i ∈ rest, ∀ j, find? h src (nameOf h i) = some j → (r.heap.get i).value = (h.get j).value) ∧
    (∀ i, i ∉ rest → r.heap.get i = h.get i) := by
  induction rest generalizing h with
  | nil => exact ⟨rfl, SameShape.refl h, rfl, by simp, fun _ _ => rfl⟩
  | cons i rest ih =>
    have nd' := List.nodup_cons.1 nd
    have chk' : ∀ i ∈ rest, ∃ j, find? h src (nameOf h i) = some j ∧ (h.get i).rejects (h.get j).value = false :=
      fun i' hi' => chk i' (List.mem_cons_of_mem _ hi')
    have hne : ∀ x ∈ rest, nameOf h x ≠ nameOf h i := fun x hx => ne_of_name_not_mem nd'.1 hx
    have hni : i ∉ rest := fun c => hne i c rfl
    obtain ⟨j, e, hr⟩ := chk i (List.mem_cons_self ..)
    have hj := find?_some e
    simp only [applyAll, e]
    have hq : (h.get i).setValue (h.get j).value = .ok { h.get i with value := (h.get j).value } :=
      setValue_of_accepts hr
    rw [hq]
    dsimp only
    have ss1 : SameShape h (h.put i { h.get i with value := (h.get j).value }) :=
      (SameShape.refl h).put_setValue hq
    obtain ⟨v1, v2⟩ := put_setValue_value hq
    -- the sources read later are not `i` (they carry another name)
    have hsrc : ∀ i' ∈ rest, ∀ j', find? h src (nameOf h i') = some j' → j' ≠ i := by
      intro i' hi' j' hj' c; subst c
      exact hne i' hi' (find?_some hj').2.symm
    have key := ih (h.put i { h.get i with value := (h.get j).value })
      (by rw [ss1.names]; exact nd'.2)
      (by
        intro i' hi'
        obtain ⟨j', e', hr'⟩ := chk' i' hi'
        refine ⟨j', by rw [ss1.nameOf, ss1.find?]; exact e', ?_⟩
        rw [ss1.rejects, v2 j' (hsrc i' hi' j' e')]; exact hr')
    obtain ⟨i1, i2, i3, i4, i5⟩ := key
    refine ⟨i1, ss1.trans i2, by rw [i3]; rfl, ?_, ?_⟩
    · intro i' hi' j' hj'
      rcases List.mem_cons.1 hi' with rfl | hi'
      · have : j' = j := by rw [e] at hj'; exact (Option.some.inj hj').symm
        subst this
        rw [i5 i' hni, v1]
      · rw [i4 i' hi' j' (by rw [ss1.nameOf, ss1.find?]; exact hj'), v2 j' (hsrc i' hi' j' hj')]
    · intro x hx
      have hxi : x ≠ i := fun c => hx (c ▸ List.mem_cons_self ..)
      rw [i5 x (fun c => hx (List.mem_cons_of_mem _ c)), v2 x hxi]


/-! ### the out-vector specification `diffPos` -/

theorem mem_diffPos (h : Store) (l : List ObjId) (src : List ObjId) (pos p : Nat) :
    p ∈ diffPos h l pos src ↔
      pos ≤ p ∧ ∃ s t, src[p - pos]? = some s ∧ find? h l (nameOf h s) = some t ∧
        (h.get t).value ≠ (h.get s).value := by
  induction src generalizing pos with
  | nil => simp [diffPos]
  | cons a rest ih =>
    have step : (pos + 1 ≤ p ∧ ∃ s t, rest[p - (pos + 1)]? = some s ∧ find? h l (nameOf h s) = some t ∧
        (h.get t).value ≠ (h.get s).value) ↔
        (pos < p ∧ ∃ s t, (a :: rest)[p - pos]? = some s ∧ find? h l (nameOf h s) = some t ∧
        (h.get t).value ≠ (h.get s).value) := by
      constructor
      · rintro ⟨hp, s, t, e1, e2⟩
        refine ⟨hp, s, t, ?_, e2⟩
        have : p - pos = (p - (pos + 1)) + 1 := by omega
        rw [this, List.getElem?_cons_succ]; exact e1
      · rintro ⟨hp, s, t, e1, e2⟩
        refine ⟨hp, s, t, ?_, e2⟩
        have : p - pos = (p - (pos + 1)) + 1 := by omega
        rw [this, List.getElem?_cons_succ] at e1; exact e1
    have zero : ∀ (P : ObjId → Prop), (∃ s, (a :: rest)[pos - pos]? = some s ∧ P s) ↔ P a := by
      intro P; simp
    cases e : find? h l (nameOf h a) with
    | none =>
      simp only [diffPos, e]
      rw [ih, step]
      constructor
      · rintro ⟨hp, x⟩; exact ⟨Nat.le_of_lt hp, x⟩
      · rintro ⟨hp, s, t, e1, e2, e3⟩
        rcases Nat.lt_or_eq_of_le hp with hp | hp
        · exact ⟨hp, s, t, e1, e2, e3⟩
        · subst hp
          simp only [Nat.sub_self, List.getElem?_cons_zero, Option.some.injEq] at e1
          subst e1; rw [e] at e2; cases e2
    | some t =>
      simp only [diffPos, e]
      split
      · next hd =>
        simp only [List.mem_cons]
        rw [ih, step]
        constructor
        · rintro (rfl | ⟨hp, x⟩)
          · exact ⟨Nat.le_refl _, a, t, by simp, e, hd⟩
          · exact ⟨Nat.le_of_lt hp, x⟩
        · rintro ⟨hp, x⟩
          rcases Nat.lt_or_eq_of_le hp with hp | hp
          · exact Or.inr ⟨hp, x⟩
          · exact Or.inl hp.symm
      · next hd =>
        rw [ih, step]
        constructor
        · rintro ⟨hp, x⟩; exact ⟨Nat.le_of_lt hp, x⟩
        · rintro ⟨hp, s, t', e1, e2, e3⟩
          rcases Nat.lt_or_eq_of_le hp with hp | hp
          · exact ⟨hp, s, t', e1, e2, e3⟩
          · subst hp
            simp only [Nat.sub_self, List.getElem?_cons_zero, Option.some.injEq] at e1
            subst e1; rw [e] at e2; cases e2; exact absurd e3 hd

theorem diffPos_sorted (h : Store) (l : List ObjId) (src : List ObjId) (pos : Nat) :
    (diffPos h l pos src).Pairwise (· < ·) := by
  induction src generalizing pos with
  | nil => simp [diffPos]
  | cons a rest ih =>
    unfold diffPos
    split
    · exact ih _
    · split
      · refine List.pairwise_cons.2 ⟨fun p hp => ?_, ih _⟩
        have := ((mem_diffPos h l rest (pos + 1) p).1 hp).1; omega
      · exact ih _


/-! ## Frame: which objects an operation can write -/

/-- objects allocated in `h` and outside `w` are the same in `h'`; `h'` is not smaller -/
structure Frame (h h' : Store) (w : List ObjId) : Prop where
  next_le : h.next ≤ h'.next
  same : ∀ i : Nat, i < h.next → i ∉ w → h'.get i = h.get i

theorem Frame.refl (h : Store) (w : List ObjId) : Frame h h w := ⟨Nat.le_refl _, fun _ _ _ => rfl⟩

theorem Frame.trans {a b c : Store} {w w' : List ObjId} (x : Frame a b w) (y : Frame b c w')
    (sub : ∀ i : Nat, i < a.next → i ∈ w' → i ∈ w) : Frame a c w :=
  ⟨Nat.le_trans x.next_le y.next_le, fun i hi hw => by
    rw [y.same i (Nat.lt_of_lt_of_le hi x.next_le) (fun c => hw (sub i hi c)), x.same i hi hw]⟩

theorem Frame.mono {a b : Store} {w w' : List ObjId} (x : Frame a b w) (sub : ∀ i, i ∈ w → i ∈ w') :
    Frame a b w' := ⟨x.next_le, fun i hi hw => x.same i hi (fun c => hw (sub i c))⟩

theorem frame_alloc (h : Store) (p : Par) (w : List ObjId) : Frame h (h.alloc p).1 w :=
  ⟨by simp, fun i hi _ => by grind⟩

theorem frame_put (h : Store) (t : ObjId) (p : Par) {w : List ObjId} (ht : t ∈ w) : Frame h (h.put t p) w :=
  ⟨by simp, fun i _ hw => by
    have : i ≠ t := fun c => hw (c ▸ ht)
    simp [this]⟩

theorem setParameterValue_frame (h : Store) (l : List ObjId) (n : String) (v : Rat) :
    Frame h (setParameterValue h l n v).heap l := by
  unfold setParameterValue
  split
  · exact Frame.refl ..
  · next i e =>
    split
    · exact frame_put h i _ (find?_some e).1
    · exact Frame.refl ..

theorem addParameter_frame (h : Store) (l : List ObjId) (p : Par) (w : List ObjId) :
    Frame h (addParameter h l p).heap w := by
  unfold addParameter
  split
  · exact Frame.refl ..
  · exact frame_alloc ..

/-- ids of the result list: old ones or fresh ones -/
theorem addParameter_list (h : Store) (l : List ObjId) (p : Par) :
    ∀ i : Nat, i ∈ (addParameter h l p).list → i ∈ l ∨ h.next ≤ i := by
  unfold addParameter
  split
  · exact fun i hi => Or.inl hi
  · intro i hi
    simp only [alloc_snd, List.mem_append, List.mem_singleton] at hi
    rcases hi with hi | hi
    · exact Or.inl hi
    · exact Or.inr (by omega)

theorem addParameters_frame (src : List ObjId) (h : Store) (l : List ObjId) :
    Frame h (addParameters h l src).heap [] := by
  induction src generalizing h l with
  | nil => exact Frame.refl ..
  | cons i rest ih =>
    unfold addParameters; dsimp only
    split
    · exact addParameter_frame ..
    · exact (addParameter_frame h l _ []).trans (ih _ _) (fun _ _ c => c)

theorem shareParameter_frame (h : Store) (l : List ObjId) (i : ObjId) :
    Frame h (shareParameter h l i).heap l := by
  unfold shareParameter
  split
  · exact setParameterValue_frame ..
  · exact Frame.refl ..

theorem shareParameter_list (h : Store) (l : List ObjId) (i : ObjId) :
    ∀ x, x ∈ (shareParameter h l i).list → x ∈ l ∨ x = i := by
  unfold shareParameter
  split
  · exact fun x hx => Or.inl hx
  · intro x hx
    simpa using hx

theorem shareParameter_next (h : Store) (l : List ObjId) (i : ObjId) :
    (shareParameter h l i).heap.next = h.next := by
  unfold shareParameter setParameterValue
  split
  · dsimp only; split
    · rfl
    · split <;> rfl
  · rfl

/-- `shareParameters` may write the objects of the list and those it takes from the source -/
theorem shareParameters_frame (src : List ObjId) (h : Store) (l : List ObjId) :
    Frame h (shareParameters h l src).heap (l ++ src) := by
  induction src generalizing h l with
  | nil => exact Frame.refl ..
  | cons i rest ih =>
    unfold shareParameters; dsimp only
    have f1 := (shareParameter_frame h l i).mono (w' := l ++ i :: rest) (fun x hx => List.mem_append_left _ hx)
    split
    · exact f1
    · refine f1.trans (ih _ _) ?_
      intro x _ hx
      rcases List.mem_append.1 hx with hx | hx
      · rcases shareParameter_list h l i x hx with hx | hx
        · exact List.mem_append_left _ hx
        · exact List.mem_append_right _ (hx ▸ List.mem_cons_self ..)
      · exact List.mem_append_right _ (List.mem_cons_of_mem _ hx)

theorem includeParameters_frame (src : List ObjId) (h : Store) (l : List ObjId) :
    Frame h (includeParameters h l src).heap l := by
  induction src generalizing h l with
  | nil => exact Frame.refl ..
  | cons i rest ih =>
    unfold includeParameters; dsimp only
    split
    · have f1 := setParameterValue_frame h l (nameOf h i) (h.get i).value
      split
      · exact f1
      · exact f1.trans (ih _ _) (fun _ _ c => c)
    · refine (frame_alloc h (h.get i) l).trans (ih _ _) ?_
      intro x hx hm
      simp only [alloc_snd, List.mem_append, List.mem_singleton] at hm
      rcases hm with hm | hm
      · exact hm
      · omega

theorem setParameter_frame (h : Store) (l : List ObjId) (k : Nat) (p : Par) (w : List ObjId) :
    Frame h (setParameter h l k p).heap w := by
  unfold setParameter
  split
  · exact Frame.refl ..
  · split
    · exact Frame.refl ..
    · exact frame_alloc ..

theorem applyAll_frame (src : List ObjId) (rest : List ObjId) (h : Store) :
    Frame h (applyAll h src rest).heap rest := by
  induction rest generalizing h with
  | nil => exact Frame.refl ..
  | cons i rest ih =>
    unfold applyAll
    split
    · exact Frame.refl ..
    · split
      · exact (frame_put h i _ (List.mem_cons_self ..)).trans (ih _) (fun _ _ c => List.mem_cons_of_mem _ c)
      · exact Frame.refl ..

theorem setAllParametersValues_frame (h : Store) (l src : List ObjId) :
    Frame h (setAllParametersValues h l src).heap l := by
  unfold setAllParametersValues
  split
  · exact Frame.refl ..
  · exact applyAll_frame ..

theorem applySome_frame (l : List ObjId) (src : List ObjId) (h : Store) :
    Frame h (applySome h l src).heap l := by
  induction src generalizing h with
  | nil => exact Frame.refl ..
  | cons s rest ih =>
    unfold applySome
    split
    · exact ih _
    · next t e =>
      split
      · exact (frame_put h t _ (find?_some e).1).trans (ih _) (fun _ _ c => c)
      · exact Frame.refl ..

theorem setParametersValues_frame (h : Store) (l src : List ObjId) :
    Frame h (setParametersValues h l src).heap l := by
  unfold setParametersValues
  split
  · exact Frame.refl ..
  · exact applySome_frame ..

theorem matchSome_frame (l : List ObjId) (src : List ObjId) (h : Store) (pos : Nat) :
    Frame h (matchSome h l pos src).heap l := by
  induction src generalizing h pos with
  | nil => exact Frame.refl ..
  | cons s rest ih =>
    unfold matchSome
    split
    · exact ih _ _
    · next t e =>
      split
      · split
        · exact (frame_put h t _ (find?_some e).1).trans (ih _ _) (fun _ _ c => c)
        · exact Frame.refl ..
      · exact ih _ _

theorem matchParametersValues_frame (h : Store) (l src : List ObjId) :
    Frame h (matchParametersValues h l src).heap l := by
  unfold matchParametersValues
  split
  · exact Frame.refl ..
  · exact matchSome_frame ..

theorem setAllParameters_frame (src : List ObjId) (rest : List ObjId) (h : Store) :
    Frame h (setAllParameters h src rest).heap rest := by
  induction rest generalizing h with
  | nil => exact Frame.refl ..
  | cons i rest ih =>
    unfold setAllParameters
    split
    · exact Frame.refl ..
    · exact (frame_put h i _ (List.mem_cons_self ..)).trans (ih _) (fun _ _ c => List.mem_cons_of_mem _ c)

theorem setParameters_frame (l : List ObjId) (src : List ObjId) (h : Store) :
    Frame h (setParameters h l src).heap l := by
  induction src generalizing h with
  | nil => exact Frame.refl ..
  | cons s rest ih =>
    unfold setParameters
    split
    · exact Frame.refl ..
    · next t e => exact (frame_put h t _ (find?_some e).1).trans (ih _) (fun _ _ c => c)

theorem matchParameters_frame (l : List ObjId) (src : List ObjId) (h : Store) :
    Frame h (matchParameters h l src).heap l := by
  induction src generalizing h with
  | nil => exact Frame.refl ..
  | cons s rest ih =>
    unfold matchParameters
    split
    · exact ih _
    · next t e => exact (frame_put h t _ (find?_some e).1).trans (ih _) (fun _ _ c => c)

theorem cloneAll_frame (l : List ObjId) (h : Store) : Frame h (cloneAll h l).1 [] := by
  induction l generalizing h with
  | nil => exact Frame.refl ..
  | cons a t ih =>
    simp only [cloneAll]
    exact (frame_alloc h _ []).trans (ih _) (fun _ _ c => c)

theorem createSubListNames_frame (l : List ObjId) (ns : List String) (h : Store) (acc : List ObjId) :
    Frame h (createSubListNames h l acc ns).heap [] := by
  induction ns generalizing h acc with
  | nil => exact Frame.refl ..
  | cons n rest ih =>
    unfold createSubListNames
    split
    · exact Frame.refl ..
    · dsimp only
      split
      · exact addParameter_frame ..
      · exact (addParameter_frame h acc _ []).trans (ih _ _) (fun _ _ c => c)

theorem createSubListIdx_frame (l : List ObjId) (idx : List Nat) (h : Store) (acc : List ObjId) :
    Frame h (createSubListIdx h l acc idx).heap [] := by
  induction idx generalizing h acc with
  | nil => exact Frame.refl ..
  | cons n rest ih =>
    unfold createSubListIdx
    split
    · exact ih _ _
    · dsimp only
      split
      · exact addParameter_frame ..
      · exact (addParameter_frame h acc _ []).trans (ih _ _) (fun _ _ c => c)

/-- sharing into a sub-list can only write objects of the source list (`acc ⊆ l`) -/
theorem shareSubListNames_frame (l : List ObjId) (ns : List String) (h : Store) (acc : List ObjId)
    (sub : ∀ x, x ∈ acc → x ∈ l) : Frame h (shareSubListNames h l acc ns).heap l := by
  induction ns generalizing h acc with
  | nil => exact Frame.refl ..
  | cons n rest ih =>
    unfold shareSubListNames
    split
    · exact Frame.refl ..
    · next i e =>
      dsimp only
      have f1 := (shareParameter_frame h acc i).mono sub
      have sub' : ∀ x, x ∈ (shareParameter h acc i).list → x ∈ l := by
        intro x hx
        rcases shareParameter_list h acc i x hx with hx | hx
        · exact sub x hx
        · exact hx ▸ (find?_some e).1
      split
      · exact f1
      · exact f1.trans (ih _ _ sub') (fun _ _ c => c)

theorem shareSubListIdx_frame (l : List ObjId) (idx : List Nat) (h : Store) (acc : List ObjId)
    (sub : ∀ x, x ∈ acc → x ∈ l) : Frame h (shareSubListIdx h l acc idx).heap l := by
  induction idx generalizing h acc with
  | nil => exact Frame.refl ..
  | cons n rest ih =>
    unfold shareSubListIdx
    split
    · exact ih _ _ sub
    · next i e =>
      dsimp only
      have f1 := (shareParameter_frame h acc i).mono sub
      have sub' : ∀ x, x ∈ (shareParameter h acc i).list → x ∈ l := by
        intro x hx
        rcases shareParameter_list h acc i x hx with hx | hx
        · exact sub x hx
        · exact hx ▸ List.mem_of_getElem? e
      split
      · exact f1
      · exact f1.trans (ih _ _ sub') (fun _ _ c => c)

theorem getCommon_frame (l : List ObjId) (h0 : Store) (src : List ObjId) (h : Store) :
    Frame h (getCommonParametersWith h0 l h src).1 [] := by
  induction src generalizing h with
  | nil => exact Frame.refl ..
  | cons s rest ih =>
    unfold getCommonParametersWith
    split
    · dsimp only
      exact (frame_alloc h _ []).trans (ih _) (fun _ _ c => c)
    · exact ih _

theorem apSetAllParametersValues_frame (h : Store) (l src : List ObjId) :
    Frame h (apSetAllParametersValues h l src).heap l := by
  unfold apSetAllParametersValues; dsimp only
  split <;> exact setAllParametersValues_frame ..

theorem apSetParametersValues_frame (h : Store) (l src : List ObjId) :
    Frame h (apSetParametersValues h l src).heap l := by
  unfold apSetParametersValues; dsimp only
  split <;> exact setParametersValues_frame ..

theorem apSetParameterValue_frame (h : Store) (l : List ObjId) (pre n : String) (v : Rat) :
    Frame h (apSetParameterValue h l pre n v).heap l := by
  unfold apSetParameterValue; dsimp only
  have f1 := setParameterValue_frame h l (pre ++ n) v
  split
  · exact f1
  · have f2 := (createSubListNames_frame l [pre ++ n] (setParameterValue h l (pre ++ n) v).heap []).mono
      (w' := l) (fun _ c => by cases c)
    split <;> exact f1.trans f2 (fun _ _ c => c)

/-- the owner's `matchParametersValues` writes the targets; building the notification list
(shared sub-list of the source) can only touch source objects -/
theorem apMatchParametersValues_frame (h : Store) (l src : List ObjId) :
    Frame h (apMatchParametersValues h l src).heap (l ++ src) := by
  unfold apMatchParametersValues; dsimp only
  have f1 := (matchParametersValues_frame h l src).mono (w' := l ++ src) (fun x hx => List.mem_append_left _ hx)
  split
  · exact f1
  · split
    · have f2 := (shareSubListIdx_frame src (matchParametersValues h l src).pos
        (matchParametersValues h l src).heap [] (fun _ c => by cases c)).mono
        (w' := l ++ src) (fun x hx => List.mem_append_right _ hx)
      exact f1.trans f2 (fun _ _ c => c)
    · exact f1

theorem setNamespace_frame (oldPre newPre : String) (l : List ObjId) (h : Store) :
    Frame h (setNamespace h oldPre newPre l) l := by
  induction l generalizing h with
  | nil => exact Frame.refl ..
  | cons i rest ih =>
    unfold setNamespace; dsimp only
    exact (frame_put h i _ (List.mem_cons_self ..)).trans (ih _) (fun _ _ c => List.mem_cons_of_mem _ c)


/-! ### machine level -/

theorem frame_step (s : State) (op : Op) :
    Frame s.heap (step s op).1.heap (op.writes.flatMap s.lists) ∧
    ∀ r, op.dest ≠ some r → (step s op).1.lists r = s.lists r := by
  have setList_other : ∀ (s : State) (k r : Nat) (l : List ObjId), some k ≠ some r → (s.setList k l).lists r = s.lists r := by
    intro s k r l h
    have : r ≠ k := fun c => h (by rw [c])
    simp [State.setList, this]
  cases op with
  | add k p | addPtr k p =>
    simp only [step]
    split
    · exact ⟨Frame.refl .., fun _ _ => rfl⟩
    · exact ⟨addParameter_frame .., fun r hr => setList_other _ _ _ _ hr⟩
  | addAll k j => exact ⟨addParameters_frame .., fun r hr => setList_other _ _ _ _ hr⟩
  | share k j n =>
    simp only [step]
    split
    · exact ⟨Frame.refl .., fun _ _ => rfl⟩
    · exact ⟨(shareParameter_frame ..).mono (fun x hx => by simp [Op.writes, hx]),
        fun r hr => setList_other _ _ _ _ hr⟩
  | shareAll k j =>
    exact ⟨(shareParameters_frame ..).mono (fun x hx => by simpa [Op.writes] using hx),
      fun r hr => setList_other _ _ _ _ hr⟩
  | incl k j =>
    exact ⟨(includeParameters_frame ..).mono (fun x hx => by simpa [Op.writes] using hx),
      fun r hr => setList_other _ _ _ _ hr⟩
  | setParam k i p =>
    simp only [step]
    split
    · exact ⟨Frame.refl .., fun _ _ => rfl⟩
    · exact ⟨setParameter_frame .., fun r hr => setList_other _ _ _ _ hr⟩
  | setValue k n v =>
    exact ⟨(setParameterValue_frame ..).mono (fun x hx => by simpa [Op.writes] using hx), fun _ _ => rfl⟩
  | setAllValues k j =>
    exact ⟨(setAllParametersValues_frame ..).mono (fun x hx => by simpa [Op.writes] using hx), fun _ _ => rfl⟩
  | setValues k j =>
    exact ⟨(setParametersValues_frame ..).mono (fun x hx => by simpa [Op.writes] using hx), fun _ _ => rfl⟩
  | testValues k j => simp only [step]; split <;> exact ⟨Frame.refl .., fun _ _ => rfl⟩
  | matchValues k j w =>
    exact ⟨(matchParametersValues_frame ..).mono (fun x hx => by simpa [Op.writes] using hx), fun _ _ => rfl⟩
  | setAllParams k j =>
    exact ⟨(setAllParameters_frame ..).mono (fun x hx => by simpa [Op.writes] using hx), fun _ _ => rfl⟩
  | setParams k j =>
    exact ⟨(setParameters_frame ..).mono (fun x hx => by simpa [Op.writes] using hx), fun _ _ => rfl⟩
  | matchParams k j =>
    exact ⟨(matchParameters_frame ..).mono (fun x hx => by simpa [Op.writes] using hx), fun _ _ => rfl⟩
  | delName k n =>
    simp only [step]
    split
    · exact ⟨Frame.refl .., fun r hr => setList_other _ _ _ _ hr⟩
    · exact ⟨Frame.refl .., fun _ _ => rfl⟩
  | delNames k ns must => exact ⟨Frame.refl .., fun r hr => setList_other _ _ _ _ hr⟩
  | delIdx k i =>
    simp only [step]
    split
    · exact ⟨Frame.refl .., fun r hr => setList_other _ _ _ _ hr⟩
    · exact ⟨Frame.refl .., fun _ _ => rfl⟩
  | delIdxs k idx => exact ⟨Frame.refl .., fun r hr => setList_other _ _ _ _ hr⟩
  | subNames k j ns =>
    simp only [step, stepSub]
    split
    · exact ⟨createSubListNames_frame .., fun _ _ => rfl⟩
    · exact ⟨createSubListNames_frame .., fun r hr => setList_other _ _ _ _ hr⟩
  | subName k j n =>
    simp only [step, stepSub]
    split
    · exact ⟨createSubListNames_frame .., fun _ _ => rfl⟩
    · exact ⟨createSubListNames_frame .., fun r hr => setList_other _ _ _ _ hr⟩
  | subIdxs k j idx =>
    simp only [step, stepSub]
    split
    · exact ⟨createSubListIdx_frame .., fun _ _ => rfl⟩
    · exact ⟨createSubListIdx_frame .., fun r hr => setList_other _ _ _ _ hr⟩
  | subIdx k j i =>
    simp only [step, stepSub]
    split
    · exact ⟨createSubListIdx_frame .., fun _ _ => rfl⟩
    · exact ⟨createSubListIdx_frame .., fun r hr => setList_other _ _ _ _ hr⟩
  | shareSubNames k j ns =>
    have f := (shareSubListNames_frame (s.lists k) ns s.heap [] (fun _ c => by cases c)).mono
      (w' := (Op.shareSubNames k j ns).writes.flatMap s.lists) (fun x hx => by simpa [Op.writes] using hx)
    simp only [step, stepSub]
    split
    · exact ⟨f, fun _ _ => rfl⟩
    · exact ⟨f, fun r hr => setList_other _ _ _ _ hr⟩
  | shareSubIdxs k j idx =>
    have f := (shareSubListIdx_frame (s.lists k) idx s.heap [] (fun _ c => by cases c)).mono
      (w' := (Op.shareSubIdxs k j idx).writes.flatMap s.lists) (fun x hx => by simpa [Op.writes] using hx)
    simp only [step, stepSub]
    split
    · exact ⟨f, fun _ _ => rfl⟩
    · exact ⟨f, fun r hr => setList_other _ _ _ _ hr⟩
  | common k j m => exact ⟨getCommon_frame .., fun r hr => setList_other _ _ _ _ hr⟩
  | which k n => simp only [step]; split <;> exact ⟨Frame.refl .., fun _ _ => rfl⟩
  | has k n => exact ⟨Frame.refl .., fun _ _ => rfl⟩
  | names k => exact ⟨Frame.refl .., fun _ _ => rfl⟩
  | getValue k n => simp only [step]; split <;> exact ⟨Frame.refl .., fun _ _ => rfl⟩
  | size k => exact ⟨Frame.refl .., fun _ _ => rfl⟩
  | copy k j | assign k j => exact ⟨cloneAll_frame .., fun r hr => setList_other _ _ _ _ hr⟩
  | reset k => exact ⟨Frame.refl .., fun r hr => setList_other _ _ _ _ hr⟩
  | apSetAll k j =>
    exact ⟨(apSetAllParametersValues_frame ..).mono (fun x hx => by simpa [Op.writes] using hx), fun _ _ => rfl⟩
  | apSetValue k n v =>
    exact ⟨(apSetParameterValue_frame ..).mono (fun x hx => by simpa [Op.writes] using hx), fun _ _ => rfl⟩
  | apSetValues k j =>
    exact ⟨(apSetParametersValues_frame ..).mono (fun x hx => by simpa [Op.writes] using hx), fun _ _ => rfl⟩
  | apMatch k j =>
    exact ⟨(apMatchParametersValues_frame ..).mono (fun x hx => by simpa [Op.writes] using hx), fun _ _ => rfl⟩
  | apNamespace k p =>
    exact ⟨(setNamespace_frame ..).mono (fun x hx => by simpa [Op.writes] using hx), fun _ _ => rfl⟩

/-! ## Sub-lists are `addParameters` / `shareParameters` of the selected objects -/

theorem createSubListIdx_eq (l : List ObjId) (idx : List Nat) (h : Store) (acc : List ObjId) :
    createSubListIdx h l acc idx = addParameters h acc (idx.filterMap (l[·]?)) := by
  induction idx generalizing h acc with
  | nil => rfl
  | cons k rest ih =>
    cases e : l[k]? with
    | none => simp only [createSubListIdx, e, List.filterMap_cons]; exact ih _ _
    | some i =>
      simp only [createSubListIdx, e, List.filterMap_cons, addParameters]
      split
      · rfl
      · exact ih _ _

theorem shareSubListIdx_eq (l : List ObjId) (idx : List Nat) (h : Store) (acc : List ObjId) :
    shareSubListIdx h l acc idx = shareParameters h acc (idx.filterMap (l[·]?)) := by
  induction idx generalizing h acc with
  | nil => rfl
  | cons k rest ih =>
    cases e : l[k]? with
    | none => simp only [shareSubListIdx, e, List.filterMap_cons]; exact ih _ _
    | some i =>
      simp only [shareSubListIdx, e, List.filterMap_cons, shareParameters]
      split
      · rfl
      · exact ih _ _

theorem filterMap_find?_congr {h h' : Store} {l : List ObjId} (e : ∀ i ∈ l, nameOf h' i = nameOf h i)
    (ns : List String) : ns.filterMap (find? h' l) = ns.filterMap (find? h l) := by
  congr 1; funext n; exact find?_congr e n

theorem createSubListNames_eq (l : List ObjId) (ns : List String) (h : Store) (acc : List ObjId)
    (v : Valid h l) (va : Valid h acc) (all : ∀ n ∈ ns, find? h l n ≠ none) :
    createSubListNames h l acc ns = addParameters h acc (ns.filterMap (find? h l)) := by
  induction ns generalizing h acc with
  | nil => rfl
  | cons n rest ih =>
    cases e : find? h l n with
    | none => exact absurd e (all n (List.mem_cons_self ..))
    | some i =>
      simp only [createSubListNames, e, List.filterMap_cons, addParameters]
      have g := addParameter_good (h := h) (l := acc) (h.get i) va (fun hk => hk i (find?_valid v e))
      split
      · rfl
      · have nm : ∀ x ∈ l, nameOf (addParameter h acc (h.get i)).heap x = nameOf h x :=
          fun x hx => g.pres.name_eq x (v x hx)
        rw [ih _ _ (v.mono g.pres) g.valid (fun n' hn' => by
          rw [find?_congr nm]; exact all n' (List.mem_cons_of_mem _ hn')), filterMap_find?_congr nm]

theorem shareSubListNames_eq (l : List ObjId) (ns : List String) (h : Store) (acc : List ObjId)
    (v : Valid h l) (va : Valid h acc) (all : ∀ n ∈ ns, find? h l n ≠ none) :
    shareSubListNames h l acc ns = shareParameters h acc (ns.filterMap (find? h l)) := by
  induction ns generalizing h acc with
  | nil => rfl
  | cons n rest ih =>
    cases e : find? h l n with
    | none => exact absurd e (all n (List.mem_cons_self ..))
    | some i =>
      simp only [shareSubListNames, e, List.filterMap_cons, shareParameters]
      have g := shareParameter_good (h := h) (l := acc) va (find?_valid v e)
      split
      · rfl
      · have nm : ∀ x ∈ l, nameOf (shareParameter h acc i).heap x = nameOf h x :=
          fun x hx => g.pres.name_eq x (v x hx)
        rw [ih _ _ (v.mono g.pres) g.valid (fun n' hn' => by
          rw [find?_congr nm]; exact all n' (List.mem_cons_of_mem _ hn')), filterMap_find?_congr nm]

theorem createSubListNames_found (l : List ObjId) (ns : List String) (h : Store) (acc : List ObjId)
    (v : Valid h l) (va : Valid h acc) (ok : (createSubListNames h l acc ns).err = none) :
    ∀ n ∈ ns, find? h l n ≠ none := by
  induction ns generalizing h acc with
  | nil => intro n hn; cases hn
  | cons n rest ih =>
    cases e : find? h l n with
    | none => simp [createSubListNames, e] at ok
    | some i =>
      simp only [createSubListNames, e] at ok
      have g := addParameter_good (h := h) (l := acc) (h.get i) va (fun hk => hk i (find?_valid v e))
      split at ok
      · cases ok
      · intro n' hn'
        rcases List.mem_cons.1 hn' with rfl | hn'
        · simp [e]
        · have nm : ∀ x ∈ l, nameOf (addParameter h acc (h.get i)).heap x = nameOf h x :=
            fun x hx => g.pres.name_eq x (v x hx)
          have := ih _ _ (v.mono g.pres) g.valid ok n' hn'
          rwa [find?_congr nm] at this

theorem shareSubListNames_found (l : List ObjId) (ns : List String) (h : Store) (acc : List ObjId)
    (v : Valid h l) (va : Valid h acc) (ok : (shareSubListNames h l acc ns).err = none) :
    ∀ n ∈ ns, find? h l n ≠ none := by
  induction ns generalizing h acc with
  | nil => intro n hn; cases hn
  | cons n rest ih =>
    cases e : find? h l n with
    | none => simp [shareSubListNames, e] at ok
    | some i =>
      simp only [shareSubListNames, e] at ok
      have g := shareParameter_good (h := h) (l := acc) va (find?_valid v e)
      split at ok
      · cases ok
      · intro n' hn'
        rcases List.mem_cons.1 hn' with rfl | hn'
        · simp [e]
        · have nm : ∀ x ∈ l, nameOf (shareParameter h acc i).heap x = nameOf h x :=
            fun x hx => g.pres.name_eq x (v x hx)
          have := ih _ _ (v.mono g.pres) g.valid ok n' hn'
          rwa [find?_congr nm] at this

/-! ### exact effect of `shareParameters` / `addParameters` when no name collides -/

/-- no collision: the very same objects are appended, the heap is untouched -/
theorem shareParameters_spec (src : List ObjId) (h : Store) (l : List ObjId)
    (nd : (names h (l ++ src)).Nodup) :
    shareParameters h l src = { heap := h, list := l ++ src } := by
  induction src generalizing l with
  | nil => simp [shareParameters]
  | cons i rest ih =>
    have hn : hasParameter h l (nameOf h i) = false := by
      rw [hasParameter_false_iff]
      rw [names_append] at nd
      have := (List.nodup_append.1 nd).2.2
      intro c
      exact this _ c _ (by simp [names]) rfl
    simp only [shareParameters, shareParameter, hn, Bool.false_eq_true, if_false]
    rw [ih (l ++ [i]) (by simpa using nd)]
    simp

/-- no collision: fresh clones are appended in order; old objects are untouched -/
theorem addParameters_spec (src : List ObjId) (h : Store) (l : List ObjId) (v : Valid h l) (vs : Valid h src)
    (nd : (names h (l ++ src)).Nodup) :
    let r := addParameters h l src
    r.err = none ∧ r.list = l ++ List.range' h.next src.length ∧ r.heap.next = h.next + src.length ∧
    (List.range' h.next src.length).map r.heap.get = src.map h.get ∧
    (∀ i, i < h.next → r.heap.get i = h.get i) := by
  induction src generalizing h l with
  | nil => simp [addParameters]
  | cons i rest ih =>
    have hi := vs i (List.mem_cons_self ..)
    have vr : Valid h rest := fun j hj => vs j (List.mem_cons_of_mem _ hj)
    have hn : hasParameter h l (nameOf h i) = false := by
      rw [hasParameter_false_iff]
      rw [names_append] at nd
      have := (List.nodup_append.1 nd).2.2
      intro c
      exact this _ c _ (by simp [names]) rfl
    have e1 : addParameter h l (h.get i) = { heap := (h.alloc (h.get i)).1, list := l ++ [h.next] } := by
      simp [addParameter, show hasParameter h l (h.get i).name = false from hn]
    simp only [addParameters, e1]
    have pr := pres_clone h hi
    have g := addParameter_good (h := h) (l := l) (h.get i) v (fun hk => hk i hi)
    rw [e1] at g
    have nd1 : (names (h.alloc (h.get i)).1 ((l ++ [h.next]) ++ rest)).Nodup := by
      have e : names (h.alloc (h.get i)).1 ((l ++ [h.next]) ++ rest) = names h (l ++ i :: rest) := by
        simp only [names_append]
        rw [pr.names v, pr.names vr]
        simp [names, nameOf]
      rw [e]; exact nd
    obtain ⟨i1, i2, i3, i4, i5⟩ := ih (h.alloc (h.get i)).1 (l ++ [h.next]) g.valid (vr.mono pr) nd1
    simp only [next_alloc] at i2 i3 i4 i5
    refine ⟨i1, ?_, ?_, ?_, ?_⟩
    · rw [i2]; simp [List.range'_succ]
    · rw [i3]; simp; omega
    · simp only [List.length_cons, List.range'_succ, List.map_cons]
      rw [i4, i5 h.next (by omega)]
      simp only [get_alloc, if_true]
      congr 1
      apply List.map_congr_left
      intro j hj
      have := vr j hj
      grind
    · intro j hj
      rw [i5 j (by omega)]
      grind


/-! ## Index-set deletion -/

theorem keepFrom_congr {idx idx' : List Nat} (e : ∀ n, n ∈ idx ↔ n ∈ idx') (n : Nat) (l : List ObjId) :
    keepFrom idx n l = keepFrom idx' n l := by
  induction l generalizing n with
  | nil => rfl
  | cons a t ih => simp only [keepFrom, e n, ih]

theorem keepFrom_all (idx : List Nat) (n : Nat) (l : List ObjId) (hi : ∀ d ∈ idx, d < n) :
    keepFrom idx n l = l := by
  induction l generalizing n with
  | nil => rfl
  | cons a t ih =>
    have : n ∉ idx := fun c => Nat.lt_irrefl _ (hi n c)
    simp only [keepFrom, this, if_false]
    rw [ih (n + 1) (fun d hd => Nat.lt_succ_of_lt (hi d hd))]

/-- erasing position `d` first, then the smaller positions `ds` -/
theorem keepFrom_eraseIdx (ds : List Nat) (d n : Nat) (l : List ObjId) (hn : n ≤ d) (hds : ∀ x ∈ ds, x < d) :
    keepFrom ds n (l.eraseIdx (d - n)) = keepFrom (d :: ds) n l := by
  induction l generalizing n with
  | nil => rfl
  | cons a t ih =>
    rcases Nat.lt_or_eq_of_le hn with hlt | heq
    · have e : d - n = (d - (n + 1)) + 1 := by omega
      rw [e, List.eraseIdx_cons_succ]
      have hnd : n ≠ d := by omega
      simp only [keepFrom, List.mem_cons, hnd, false_or]
      rw [ih (n + 1) (by omega)]
    · subst heq
      simp only [Nat.sub_self, List.eraseIdx_cons_zero, keepFrom, List.mem_cons, true_or, if_true]
      rw [keepFrom_all ds n t hds, keepFrom_all (n :: ds) (n + 1) t]
      intro x hx
      rcases List.mem_cons.1 hx with rfl | hx
      · omega
      · exact Nat.lt_succ_of_lt (hds x hx)

theorem length_keepFrom_le (idx : List Nat) (n : Nat) (l : List ObjId) : (keepFrom idx n l).length ≤ l.length := by
  induction l generalizing n with
  | nil => simp [keepFrom]
  | cons a t ih =>
    simp only [keepFrom]
    split
    · exact Nat.le_succ_of_le (ih _)
    · simp [ih]

/-- the erase loop over strictly descending in-range indices computes `keepFrom` -/
theorem eraseDesc_spec (ds : List Nat) (l : List ObjId) (desc : ds.Pairwise (· > ·))
    (inr : ∀ d ∈ ds, d < l.length) : eraseDesc l ds = (keepFrom ds 0 l, none) := by
  induction ds generalizing l with
  | nil => simp [eraseDesc, keepFrom_all]
  | cons d ds ih =>
    have hd := inr d (List.mem_cons_self ..)
    have pw := List.pairwise_cons.1 desc
    simp only [eraseDesc, ge_iff_le, Nat.not_le.2 hd, if_false]
    rw [ih (l.eraseIdx d) pw.2 (fun x hx => by
      have := pw.1 x hx
      rw [List.length_eraseIdx_of_lt hd]; omega)]
    rw [← keepFrom_eraseIdx ds d 0 l (Nat.zero_le _) (fun x hx => pw.1 x hx)]
    simp

theorem eraseDesc_head_out (d : Nat) (ds : List Nat) (l : List ObjId) (h : l.length ≤ d) :
    eraseDesc l (d :: ds) = (l, some .index) := by
  simp [eraseDesc, h]

/-! ### the sort -/

theorem insertSorted_perm (a : Nat) (l : List Nat) : (insertSorted a l).Perm (a :: l) := by
  induction l with
  | nil => exact List.Perm.refl _
  | cons b t ih =>
    simp only [insertSorted]
    split
    · exact List.Perm.refl _
    · exact (List.Perm.cons b ih).trans (List.Perm.swap a b t)

theorem sortNat_perm (l : List Nat) : (sortNat l).Perm l := by
  induction l with
  | nil => exact List.Perm.refl _
  | cons a t ih => exact (insertSorted_perm a _).trans (List.Perm.cons a ih)

theorem insertSorted_sorted (a : Nat) (l : List Nat) (s : l.Pairwise (· ≤ ·)) :
    (insertSorted a l).Pairwise (· ≤ ·) := by
  induction l with
  | nil => simp [insertSorted]
  | cons b t ih =>
    have pw := List.pairwise_cons.1 s
    simp only [insertSorted]
    split
    · next hab =>
      refine List.pairwise_cons.2 ⟨fun x hx => ?_, s⟩
      rcases List.mem_cons.1 hx with rfl | hx
      · exact hab
      · exact Nat.le_trans hab (pw.1 x hx)
    · next hab =>
      refine List.pairwise_cons.2 ⟨fun x hx => ?_, ih pw.2⟩
      rcases List.mem_cons.1 ((insertSorted_perm a t).subset hx) with rfl | hx
      · omega
      · exact pw.1 x hx

theorem sortNat_sorted (l : List Nat) : (sortNat l).Pairwise (· ≤ ·) := by
  induction l with
  | nil => simp [sortNat]
  | cons a t ih => exact insertSorted_sorted a _ ih

theorem sortNat_desc (idx : List Nat) (nd : idx.Nodup) : (sortNat idx).reverse.Pairwise (· > ·) := by
  rw [List.pairwise_reverse]
  have nd' : (sortNat idx).Nodup := (sortNat_perm idx).nodup_iff.2 nd
  exact ((sortNat_sorted idx).and nd').imp (fun ⟨h1, h2⟩ => Nat.lt_of_le_of_ne h1 h2)

/-- **index-set deletion, in range**: exactly the complement survives, in order -/
theorem deleteParametersIdx_spec (l : List ObjId) (idx : List Nat) (nd : idx.Nodup)
    (inr : ∀ d ∈ idx, d < l.length) : deleteParametersIdx l idx = (keepFrom idx 0 l, none) := by
  unfold deleteParametersIdx
  rw [eraseDesc_spec _ l (sortNat_desc idx nd) (fun d hd => inr d ((sortNat_perm idx).subset (List.mem_reverse.1 hd)))]
  rw [keepFrom_congr (idx' := idx)]
  intro n
  rw [List.mem_reverse]
  exact (sortNat_perm idx).mem_iff

/-- **index-set deletion, out of range**: raises before any erase (the largest index is tried first) -/
theorem deleteParametersIdx_out (l : List ObjId) (idx : List Nat) (out : ∃ d ∈ idx, l.length ≤ d) :
    deleteParametersIdx l idx = (l, some .index) := by
  unfold deleteParametersIdx
  obtain ⟨d, hd, hl⟩ := out
  -- the head of the reversed sorted list is the maximum
  have hmem : d ∈ (sortNat idx).reverse := List.mem_reverse.2 ((sortNat_perm idx).mem_iff.2 hd)
  cases e : (sortNat idx).reverse with
  | nil => rw [e] at hmem; cases hmem
  | cons m rest =>
    have hsorted : (m :: rest).Pairwise (· ≥ ·) := by
      rw [← e, List.pairwise_reverse]; exact sortNat_sorted idx
    have : d ≤ m := by
      rw [e] at hmem
      rcases List.mem_cons.1 hmem with rfl | h
      · exact Nat.le_refl _
      · exact (List.pairwise_cons.1 hsorted).1 d h
    exact eraseDesc_head_out m rest l (Nat.le_trans hl this)


/-! ## Lookups and deletion by name -/

theorem erase_map_of_findIdx? (f : ObjId → String) (n : String) :
    ∀ (l : List ObjId) (k : Nat), l.findIdx? (fun i => f i == n) = some k →
      (l.map f).erase n = (l.eraseIdx k).map f ∧ n ∈ l.map f
  | [], _, e => by simp at e
  | a :: t, k, e => by
    rw [List.findIdx?_cons] at e
    by_cases hc : f a = n
    · have hb : (f a == n) = true := by simpa using hc
      rw [hb] at e
      simp only [if_true, Option.some.injEq] at e
      subst e
      simp [hc]
    · have hb : (f a == n) = false := by simpa using hc
      rw [hb] at e
      simp only [Bool.false_eq_true, if_false, Option.map_eq_some_iff] at e
      obtain ⟨k', hk', rfl⟩ := e
      obtain ⟨i1, i2⟩ := erase_map_of_findIdx? f n t k' hk'
      simp only [List.map_cons, List.eraseIdx_cons_succ]
      rw [List.erase_cons_tail (by simpa using hc), i1]
      exact ⟨rfl, List.mem_cons_of_mem _ i2⟩

/-- `deleteParameter(name)`: the first entry carrying the name goes, or ParameterNotFoundException -/
theorem deleteParameter_names (h : Store) (l : List ObjId) (n : String) :
    (∀ l', deleteParameter h l n = .ok l' → names h l' = (names h l).erase n ∧ n ∈ names h l) ∧
    (∀ e, deleteParameter h l n = .error e → e = .notfound ∧ n ∉ names h l) := by
  unfold deleteParameter
  cases e : List.findIdx? (fun i => nameOf h i == n) l with
  | none =>
    refine ⟨fun l' c => (by cases c), fun e' c => ?_⟩
    cases c
    refine ⟨rfl, fun c => ?_⟩
    rw [List.findIdx?_eq_none_iff] at e
    obtain ⟨i, hi, hn⟩ := List.mem_map.1 c
    have := e i hi
    simp [hn] at this
  | some k =>
    refine ⟨fun l' c => ?_, fun e' c => (by cases c)⟩
    cases c
    obtain ⟨i1, i2⟩ := erase_map_of_findIdx? (nameOf h) n l k e
    exact ⟨i1.symm, i2⟩

theorem which_exact (h : Store) (l : List ObjId) (n : String) (k : Nat) :
    whichParameterHasName h l n = .ok k ↔
      (names h l)[k]? = some n ∧ ∀ j, j < k → (names h l)[j]? ≠ some n := by
  unfold whichParameterHasName
  cases e : List.findIdx? (fun i => nameOf h i == n) l with
  | none =>
    simp only [reduceCtorEq, false_iff, not_and]
    intro hk
    rw [List.findIdx?_eq_none_iff] at e
    have : n ∈ names h l := List.mem_of_getElem? hk
    obtain ⟨i, hi, hn⟩ := List.mem_map.1 this
    have := e i hi
    simp [hn] at this
  | some k' =>
    rw [List.findIdx?_eq_some_iff_getElem] at e
    obtain ⟨hk', hp, hlt⟩ := e
    simp only [Except.ok.injEq]
    have hnk' : (names h l)[k']? = some n := by
      simp only [names, List.getElem?_map, List.getElem?_eq_getElem hk', Option.map_some]
      simpa using hp
    constructor
    · rintro rfl
      refine ⟨hnk', fun j hj c => ?_⟩
      have hjl : j < l.length := Nat.lt_trans hj hk'
      simp only [names, List.getElem?_map, List.getElem?_eq_getElem hjl, Option.map_some, Option.some.injEq] at c
      exact hlt j hj (by simpa using c)
    · rintro ⟨h1, h2⟩
      rcases Nat.lt_trichotomy k' k with hlt' | heq | hgt
      · exact absurd hnk' (h2 k' hlt')
      · exact heq
      · have hkl : k < l.length := Nat.lt_trans hgt hk'
        simp only [names, List.getElem?_map, List.getElem?_eq_getElem hkl, Option.map_some, Option.some.injEq] at h1
        exact absurd (by simpa using h1) (hlt k hgt)

theorem which_notfound (h : Store) (l : List ObjId) (n : String) :
    whichParameterHasName h l n = .error .notfound ↔ n ∉ names h l := by
  unfold whichParameterHasName
  cases e : List.findIdx? (fun i => nameOf h i == n) l with
  | none =>
    simp only [true_iff]
    rw [List.findIdx?_eq_none_iff] at e
    intro c
    obtain ⟨i, hi, hn⟩ := List.mem_map.1 c
    have := e i hi
    simp [hn] at this
  | some k =>
    simp only [reduceCtorEq, false_iff]
    rw [List.findIdx?_eq_some_iff_getElem] at e
    obtain ⟨hk, hp, _⟩ := e
    refine fun c => c ?_
    exact List.mem_map.2 ⟨l[k], List.getElem_mem hk, by simpa using hp⟩

theorem getParameterValue_exact (h : Store) (l : List ObjId) (n : String) :
    getParameterValue h l n = match find? h l n with
      | some i => .ok (h.get i).value
      | none => .error .notfound := rfl

/-- exact effect of `setParameterValue` -/
theorem setParameterValue_spec (h : Store) (l : List ObjId) (n : String) (v : Rat) :
    let r := setParameterValue h l n v
    match find? h l n with
    | none => r.err = some .notfound ∧ r.heap = h
    | some t =>
      if (h.get t).rejects v = true ∧ v ≠ (h.get t).value then r.err = some .constraint ∧ r.heap = h
      else r.err = none ∧ (r.heap.get t) = { h.get t with value := v } ∧ ∀ i, i ≠ t → r.heap.get i = h.get i := by
  unfold setParameterValue
  cases e : find? h l n with
  | none => exact ⟨rfl, rfl⟩
  | some t =>
    dsimp only
    by_cases hv : v = (h.get t).value
    · have : (h.get t).setValue v = .ok (h.get t) := by subst hv; exact setValue_self _
      rw [this, if_neg (by simp [hv])]
      refine ⟨rfl, ?_, fun i hi => by simp [hi]⟩
      simp [hv]
    · by_cases hr : (h.get t).rejects v = true
      · have : (h.get t).setValue v = .error .constraint := by simp [Par.setValue, hv, hr]
        rw [this, if_pos ⟨hr, hv⟩]; exact ⟨rfl, rfl⟩
      · simp only [Bool.not_eq_true] at hr
        rw [setValue_of_accepts hr, if_neg (by simp [hr])]
        exact ⟨rfl, by simp, fun i hi => by simp [hi]⟩


/-- selecting pairwise different positions of a list with unique names gives unique names -/
theorem nodup_sel_idx {h : Store} {l : List ObjId} (nd : (names h l).Nodup) {idx : List Nat}
    (hidx : idx.Nodup) : (names h (idx.filterMap (l[·]?))).Nodup := by
  have hl : l.Nodup := List.Nodup.of_map _ nd
  have h1 : (idx.filterMap (l[·]?)).Nodup := by
    apply List.Nodup.filterMap _ hidx
    intro a a' b hb hb'
    have hb : l[a]? = some b := hb
    have hb' : l[a']? = some b := hb'
    exact (List.getElem?_inj (List.getElem?_eq_some_iff.1 hb).1 hl).1 (hb.trans hb'.symm)
  exact List.Nodup.map_on (fun x hx y hy e => by
    obtain ⟨a, _, ha⟩ := List.mem_filterMap.1 hx
    obtain ⟨b, _, hb⟩ := List.mem_filterMap.1 hy
    exact (List.inj_on_of_nodup_map nd (List.mem_of_getElem? ha) (List.mem_of_getElem? hb) e)) h1

/-! ## The model passes every clause the driver evaluates on the implementation -/

theorem allNamesUnique_of_inv {s : State} (inv : Inv s) (n : Nat) : allNamesUnique n s = true := by
  simp only [allNamesUnique, List.all_eq_true, namesUniqueB, decide_eq_true_eq]
  exact fun k _ => inv.names k

theorem allOk_of_inv {s : State} (inv : Inv s) (n : Nat) : allOk n s = true := by
  simp only [allOk, List.all_eq_true]
  exact fun k _ i hi => inv.ok i (inv.wf k i hi)

theorem clauseNames_sound (n : Nat) {s : State} (inv : Inv s) (op : Op) :
    clauseNames n s op (step s op).1 = true := by
  unfold clauseNames
  by_cases hk : op.keepsNames = true
  · rw [allNamesUnique_of_inv (inv_step inv op hk)]; simp
  · simp [hk]


theorem setNamespace_shape (o n : String) (l : List ObjId) (h : Store) :
    (setNamespace h o n l).next = h.next ∧
    ∀ i, ((setNamespace h o n l).get i).value = (h.get i).value ∧ ((setNamespace h o n l).get i).con = (h.get i).con := by
  induction l generalizing h with
  | nil => exact ⟨rfl, fun _ => ⟨rfl, rfl⟩⟩
  | cons a t ih =>
    unfold setNamespace; dsimp only
    obtain ⟨i1, i2⟩ := ih (h.put a { h.get a with name := _ })
    refine ⟨by rw [i1]; rfl, fun i => ?_⟩
    obtain ⟨j1, j2⟩ := i2 i
    rw [j1, j2]
    by_cases e : i = a <;> simp [e]

/-- valid ids and `HeapOk` survive every operation (including `setNamespace`) -/
theorem wf_ok_step {s : State} (inv : Inv s) (op : Op) :
    (∀ k, Valid (step s op).1.heap ((step s op).1.lists k)) ∧ HeapOk (step s op).1.heap := by
  by_cases hk : op.keepsNames = true
  · exact ⟨(inv_step inv op hk).wf, (inv_step inv op hk).ok⟩
  · cases op <;> simp [Op.keepsNames] at hk
    next k p =>
      obtain ⟨e1, e2⟩ := setNamespace_shape (s.pre k) p (s.lists k) s.heap
      refine ⟨fun r i hi => ?_, fun i hi => ?_⟩
      · simp only [step] at hi ⊢; rw [e1]; exact inv.wf r i hi
      · simp only [step] at hi ⊢
        rw [e1] at hi
        have := inv.ok i hi
        simp only [Par.ok, Par.rejects] at this ⊢
        rw [(e2 i).1, (e2 i).2]; exact this

theorem clauseOk_sound (n : Nat) {s : State} (inv : Inv s) (op : Op) :
    clauseOk n s (step s op).1 = true := by
  unfold clauseOk
  have : allOk n (step s op).1 = true := by
    obtain ⟨w, o⟩ := wf_ok_step inv op
    simp only [allOk, List.all_eq_true]
    exact fun k _ i hi => o i (w k i hi)
  simp [this]

theorem unchanged_of {n : Nat} {b a : State} (hl : ∀ k, a.lists k = b.lists k)
    (ho : ∀ i, i < b.heap.next → a.heap.get i = b.heap.get i) : unchanged n b a = true := by
  simp only [unchanged, sameLists, sameObjs, Bool.and_eq_true, List.all_eq_true, List.mem_range, beq_iff_eq]
  exact ⟨fun k _ => (hl k).symm, fun i hi => (ho i hi).symm⟩

theorem unchanged_refl (n : Nat) (s : State) : unchanged n s s = true :=
  unchanged_of (fun _ => rfl) (fun _ _ => rfl)

theorem setList_same (s : State) (h : Store) (k : Nat) :
    ∀ r, ((s.withHeap h).setList k (s.lists k)).lists r = s.lists r := by
  intro r; simp only [State.setList, State.withHeap]; split
  · next e => rw [e]
  · rfl

theorem addParameter_err {h : Store} {l : List ObjId} {p : Par} (e : (addParameter h l p).err ≠ none) :
    (addParameter h l p).heap = h ∧ (addParameter h l p).list = l := by
  unfold addParameter at e ⊢
  split
  · exact ⟨rfl, rfl⟩
  · next hn => simp [hn] at e

theorem setParameterValue_err {h : Store} {l : List ObjId} {n : String} {v : Rat}
    (e : (setParameterValue h l n v).err ≠ none) : (setParameterValue h l n v).heap = h := by
  unfold setParameterValue at e ⊢
  cases hf : find? h l n with
  | none => rfl
  | some i =>
    simp only [hf] at e ⊢
    cases hq : (h.get i).setValue v with
    | ok p => simp [hq] at e
    | error x => rfl

theorem shareParameter_err {h : Store} {l : List ObjId} {i : ObjId} (e : (shareParameter h l i).err ≠ none) :
    (shareParameter h l i).heap = h ∧ (shareParameter h l i).list = l := by
  unfold shareParameter at e ⊢
  by_cases hn : hasParameter h l (nameOf h i) = true
  · simp only [hn, if_true] at e ⊢
    exact ⟨setParameterValue_err e, trivial⟩
  · simp [hn] at e

theorem setParameter_err {h : Store} {l : List ObjId} {k : Nat} {p : Par} (e : (setParameter h l k p).err ≠ none) :
    (setParameter h l k p).heap = h ∧ (setParameter h l k p).list = l := by
  unfold setParameter at e ⊢
  split
  · exact ⟨rfl, rfl⟩
  · split
    · exact ⟨rfl, rfl⟩
    · next h1 h2 => simp [h1, h2] at e

theorem isErr_ofErr {e : Option Err} (h : (Out.ofErr e).isErr = true) : e ≠ none := by
  cases e <;> simp [Out.ofErr, Out.isErr] at h ⊢

theorem stepLR_atomic (n : Nat) (s : State) (k : Nat) (r : LR)
    (hr : r.err ≠ none → r.heap = s.heap ∧ r.list = s.lists k)
    (he : (stepLR s k r).2.out.isErr = true) : unchanged n s (stepLR s k r).1 = true := by
  obtain ⟨h1, h2⟩ := hr (isErr_ofErr he)
  simp only [stepLR, h1, h2]
  exact unchanged_of (setList_same s s.heap k) (fun _ _ => rfl)

theorem stepHR_atomic (n : Nat) (s : State) (r : HR) (hr : r.err ≠ none → r.heap = s.heap)
    (he : (stepHR s r).2.out.isErr = true) : unchanged n s (stepHR s r).1 = true := by
  have h1 := hr (isErr_ofErr he)
  simp only [stepHR, h1]
  exact unchanged_refl n s

theorem stepSub_atomic (n : Nat) (s : State) (j : Nat) (r : LR) (f : Frame s.heap r.heap [])
    (he : (stepSub s j r).2.out.isErr = true) : unchanged n s (stepSub s j r).1 = true := by
  unfold stepSub at he ⊢
  split
  · exact unchanged_of (fun _ => rfl) (fun i hi => f.same i hi (by simp))
  · next hn => simp [hn, Out.isErr] at he

theorem stepAR_atomic (n : Nat) (s : State) (r : AR) (b : Bool) (hr : r.err ≠ none → r.heap = s.heap)
    (he : (stepAR s r b).2.out.isErr = true) : unchanged n s (stepAR s r b).1 = true := by
  have : r.err ≠ none := by
    intro c; simp only [stepAR, c] at he; cases b <;> simp [Out.isErr] at he
  simp only [stepAR, hr this]
  exact unchanged_refl n s

theorem deleteParametersIdx_err {l : List ObjId} {idx : List Nat} (nd : idx.Nodup)
    (e : (deleteParametersIdx l idx).2 ≠ none) : (deleteParametersIdx l idx).1 = l := by
  by_cases hin : ∀ d ∈ idx, d < l.length
  · rw [deleteParametersIdx_spec l idx nd hin] at e; simp at e
  · simp only [not_forall, Nat.not_lt] at hin
    obtain ⟨d, hd, hl⟩ := hin
    rw [deleteParametersIdx_out l idx ⟨d, hd, hl⟩]

/-- on a found name, the one-element sub-list never raises -/
theorem createSubListNames_single {h : Store} {l : List ObjId} {n : String} (hf : find? h l n ≠ none) :
    (createSubListNames h l [] [n]).err = none := by
  cases e : find? h l n with
  | none => exact absurd e hf
  | some i => simp [createSubListNames, e, addParameter, hasParameter]

theorem setParametersValues_err {h : Store} {l src : List ObjId}
    (e : (setParametersValues h l src).err ≠ none) : (setParametersValues h l src).heap = h := by
  unfold setParametersValues at e ⊢
  split
  · rfl
  · next c =>
    rw [c] at e
    exact absurd (applySome_noerr h l src h (SameShape.refl h) (fun _ => Or.inl rfl) (checkSome_none.1 c)) e

theorem setAllParametersValues_err {h : Store} {l src : List ObjId}
    (e : (setAllParametersValues h l src).err ≠ none) : (setAllParametersValues h l src).heap = h := by
  unfold setAllParametersValues at e ⊢
  split
  · rfl
  · next c =>
    rw [c] at e
    exact absurd (applyAll_noerr h src l h (SameShape.refl h) (fun _ _ => rfl) (checkAll_none.1 c)) e

theorem matchParametersValues_err {h : Store} {l src : List ObjId}
    (e : (matchParametersValues h l src).err ≠ none) : (matchParametersValues h l src).heap = h := by
  unfold matchParametersValues at e ⊢
  split
  · rfl
  · next c =>
    rw [c] at e
    exact absurd (matchSome_noerr h l src h 0 (SameShape.refl h) (fun _ => Or.inl rfl) (checkSome_none.1 c)) e

theorem apSetParameterValue_err {h : Store} {l : List ObjId} {pre n : String} {v : Rat}
    (e : (apSetParameterValue h l pre n v).err ≠ none) : (apSetParameterValue h l pre n v).heap = h := by
  unfold apSetParameterValue at e ⊢
  dsimp only at e ⊢
  cases e1 : (setParameterValue h l (pre ++ n) v).err with
  | some x => simp only [e1]; exact setParameterValue_err (by rw [e1]; simp)
  | none =>
    exfalso
    simp only [e1] at e
    -- the name was found (the update succeeded), and names do not change
    have hf : find? h l (pre ++ n) ≠ none := by
      intro c; simp [setParameterValue, c] at e1
    have ss : ∀ i ∈ l, nameOf (setParameterValue h l (pre ++ n) v).heap i = nameOf h i := by
      intro i _
      unfold setParameterValue
      split
      · rfl
      · next t _ =>
        split
        · next q hq =>
          have := (setValue_ok hq).1
          by_cases c : i = t
          · subst c; simp [nameOf, this]
          · simp [nameOf, c]
        · rfl
    have := createSubListNames_single (h := (setParameterValue h l (pre ++ n) v).heap) (l := l) (n := pre ++ n)
      (by rw [find?_congr ss]; exact hf)
    simp [this] at e

theorem apMatchParametersValues_err {h : Store} {l src : List ObjId} (nd : (names h src).Nodup)
    (e : (apMatchParametersValues h l src).err ≠ none) : (apMatchParametersValues h l src).heap = h := by
  unfold apMatchParametersValues at e ⊢
  dsimp only at e ⊢
  cases e1 : (matchParametersValues h l src).err with
  | some x =>
    simp only [e1]
    exact matchParametersValues_err (by rw [e1]; simp)
  | none =>
    exfalso
    simp only [e1] at e
    split at e
    · have chk : checkSome h l src = none := by
        unfold matchParametersValues at e1
        split at e1
        · simp at e1
        · assumption
      have sp := matchSome_spec l src h 0 nd (checkSome_none.1 chk)
      have hm : matchParametersValues h l src = matchSome h l 0 src := by simp [matchParametersValues, chk]
      rw [hm] at e
      have hsorted : (matchSome h l 0 src).pos.Nodup := by
        rw [sp.2.1]; exact (diffPos_sorted h l src 0).imp (fun h => Nat.ne_of_lt h)
      rw [shareSubListIdx_eq, shareParameters_spec _ _ [] (by
        simpa using nodup_sel_idx (h := (matchSome h l 0 src).heap) (l := src) (by rw [sp.2.2.1.names]; exact nd) hsorted)] at e
      simp at e
    · simp at e

theorem clauseAtomic_sound (n : Nat) {s : State} (inv : Inv s) (op : Op) :
    clauseAtomic n s op (step s op).2.out (step s op).1 = true := by
  unfold clauseAtomic
  by_cases ha : op.atomic = true
  swap
  · simp [ha]
  by_cases he : (step s op).2.out.isErr = true
  swap
  · simp [he]
  simp only [ha, he, Bool.and_self, Bool.not_true, Bool.false_or]
  cases op with
  | add k p | addPtr k p =>
    simp only [step] at he ⊢
    split at he
    · simp only [*, ite_true]; exact unchanged_refl n s
    · next hp => simp only [hp, ite_false] ; exact stepLR_atomic n s k _ addParameter_err he
  | share k j nm =>
    simp only [step] at he ⊢
    split
    · exact unchanged_refl n s
    · next i e => simp only [e] at he; exact stepLR_atomic n s k _ shareParameter_err he
  | setParam k i p =>
    simp only [step] at he ⊢
    split at he
    · simp only [*, ite_true]; exact unchanged_refl n s
    · next hp => simp only [hp, ite_false]; exact stepLR_atomic n s k _ setParameter_err he
  | setValue k nm v => exact stepHR_atomic n s _ setParameterValue_err he
  | setAllValues k j =>
    exact stepHR_atomic n s _ setAllParametersValues_err he
  | setValues k j =>
    exact stepHR_atomic n s _ setParametersValues_err he
  | testValues k j => simp only [step]; split <;> exact unchanged_refl n s
  | matchValues k j w =>
    simp only [step] at he ⊢
    cases e' : (matchParametersValues s.heap (s.lists k) (s.lists j)).err with
    | none => simp [e', Out.isErr] at he
    | some x =>
      rw [matchParametersValues_err (by rw [e']; simp)]
      exact unchanged_refl n s
  | delName k nm =>
    simp only [step] at he ⊢
    split
    · next l e => simp [e, Out.isErr] at he
    · exact unchanged_refl n s
  | delIdx k i =>
    simp only [step] at he ⊢
    split
    · next l e => simp [e, Out.isErr] at he
    · exact unchanged_refl n s
  | delIdxs k idx =>
    simp only [Op.atomic, decide_eq_true_eq] at ha
    simp only [step] at he ⊢
    have := deleteParametersIdx_err (l := s.lists k) ha (isErr_ofErr he)
    rw [this]
    exact unchanged_of (fun r => by simp only [State.setList]; split <;> simp_all) (fun _ _ => rfl)
  | subNames k j ns => exact stepSub_atomic n s j _ (createSubListNames_frame ..) he
  | subName k j nm => exact stepSub_atomic n s j _ (createSubListNames_frame ..) he
  | subIdxs k j idx => exact stepSub_atomic n s j _ (createSubListIdx_frame ..) he
  | subIdx k j i => exact stepSub_atomic n s j _ (createSubListIdx_frame ..) he
  | which k nm => simp only [step]; split <;> exact unchanged_refl n s
  | getValue k nm => simp only [step]; split <;> exact unchanged_refl n s
  | apSetAll k j =>
    refine stepAR_atomic n s _ _ (fun e => ?_) he
    unfold apSetAllParametersValues at e ⊢; dsimp only at e ⊢
    cases e' : (setAllParametersValues s.heap (s.lists k) (s.lists j)).err with
    | none => simp [e'] at e
    | some x => simp only [e']; exact setAllParametersValues_err (by rw [e']; simp)
  | apSetValue k nm v => exact stepAR_atomic n s _ _ apSetParameterValue_err he
  | apSetValues k j =>
    refine stepAR_atomic n s _ _ (fun e => ?_) he
    unfold apSetParametersValues at e ⊢; dsimp only at e ⊢
    cases e' : (setParametersValues s.heap (s.lists k) (s.lists j)).err with
    | none => simp [e'] at e
    | some x => simp only [e']; exact setParametersValues_err (by rw [e']; simp)
  | apMatch k j => exact stepAR_atomic n s _ _ (apMatchParametersValues_err (inv.names j)) he
  | _ => simp [Op.atomic] at ha


theorem clauseFrame_sound (n : Nat) (s : State) (op : Op) : clauseFrame n s op (step s op).1 = true := by
  obtain ⟨f, d⟩ := frame_step s op
  simp only [clauseFrame, Bool.and_eq_true, List.all_eq_true, List.mem_range, Bool.or_eq_true, List.any_eq_true,
    List.contains_iff_mem, beq_iff_eq]
  refine ⟨fun i hi => ?_, fun r _ => ?_⟩
  · by_cases hw : i ∈ op.writes.flatMap s.lists
    · left
      obtain ⟨r, hr, hir⟩ := List.mem_flatMap.1 hw
      exact ⟨r, hr, hir⟩
    · right; exact f.same i hi hw
  · by_cases hd : op.dest = some r
    · left; exact hd
    · right; exact d r hd

/-! ### bulk_applies as an equation on every object -/

theorem acceptsSome_iff (h : Store) (l src : List ObjId) :
    acceptsSome h l src = true ↔
      ∀ s ∈ src, ∀ t, find? h l (nameOf h s) = some t → (h.get t).rejects (h.get s).value = false := by
  simp only [acceptsSome, List.all_eq_true]
  constructor
  · intro H s hs t ht; have := H s hs; simpa [ht] using this
  · intro H s hs
    cases e : find? h l (nameOf h s) with
    | none => rfl
    | some t => simpa using H s hs t e

theorem acceptsAll_iff (h : Store) (l src : List ObjId) :
    acceptsAll h l src = true ↔
      ∀ i ∈ l, ∃ j, find? h src (nameOf h i) = some j ∧ (h.get i).rejects (h.get j).value = false := by
  simp only [acceptsAll, List.all_eq_true]
  constructor
  · intro H i hi
    have := H i hi
    cases e : find? h src (nameOf h i) with
    | none => simp [e] at this
    | some j => exact ⟨j, rfl, by simpa [e] using this⟩
  · intro H i hi
    obtain ⟨j, e, hr⟩ := H i hi
    simp [e, hr]

theorem par_ext {p q : Par} (h1 : p.name = q.name) (h2 : p.value = q.value) (h3 : p.con = q.con) : p = q := by
  cases p; cases q; simp_all

/-- the effect described by `bulk_applies_*` is `expectedSome` on every object -/
theorem expectedSome_of_spec {h h' : Store} {l src : List ObjId} (ss : SameShape h h')
    (hv : ∀ s ∈ src, ∀ t, find? h l (nameOf h s) = some t → (h'.get t).value = (h.get s).value)
    (hu : ∀ i, (∀ s ∈ src, find? h l (nameOf h s) ≠ some i) → h'.get i = h.get i) (i : ObjId) :
    h'.get i = expectedSome h l src i := by
  unfold expectedSome
  cases e : src.find? (fun s => find? h l (nameOf h s) == some i) with
  | none =>
    rw [List.find?_eq_none] at e
    exact hu i (fun s hs c => by have := e s hs; simp [c] at this)
  | some s =>
    have hs := List.mem_of_find?_eq_some e
    have hp := List.find?_some e
    simp only [beq_iff_eq] at hp
    exact par_ext (ss i).1 (hv s hs i hp) (ss i).2

theorem expectedAll_of_spec {h h' : Store} {l src : List ObjId} (ss : SameShape h h')
    (hv : ∀ i ∈ l, ∀ j, find? h src (nameOf h i) = some j → (h'.get i).value = (h.get j).value)
    (hu : ∀ i, i ∉ l → h'.get i = h.get i)
    (hall : ∀ i ∈ l, ∃ j, find? h src (nameOf h i) = some j ∧ (h.get i).rejects (h.get j).value = false)
    (i : ObjId) : h'.get i = expectedAll h l src i := by
  unfold expectedAll
  by_cases hi : i ∈ l
  · obtain ⟨j, e, _⟩ := hall i hi
    simp only [hi, if_true, e]
    exact par_ext (ss i).1 (hv i hi j e) (ss i).2
  · simp only [hi, if_false]; exact hu i hi

theorem setParametersValues_expected {h : Store} {l src : List ObjId} (nd : (names h src).Nodup)
    (ok : (setParametersValues h l src).err = none) (i : ObjId) :
    (setParametersValues h l src).heap.get i = expectedSome h l src i := by
  have c : checkSome h l src = none := by
    unfold setParametersValues at ok; split at ok
    · simp at ok
    · assumption
  have sp := applySome_spec l src h nd (checkSome_none.1 c)
  simp only [setParametersValues, c]
  exact expectedSome_of_spec sp.2.1 sp.2.2.2.1 sp.2.2.2.2 i

theorem matchParametersValues_expected {h : Store} {l src : List ObjId} (nd : (names h src).Nodup)
    (ok : (matchParametersValues h l src).err = none) :
    (∀ i, (matchParametersValues h l src).heap.get i = expectedSome h l src i) ∧
    (matchParametersValues h l src).pos = diffPos h l 0 src ∧
    SameShape h (matchParametersValues h l src).heap := by
  have c : checkSome h l src = none := by
    unfold matchParametersValues at ok; split at ok
    · simp at ok
    · assumption
  have sp := matchSome_spec l src h 0 nd (checkSome_none.1 c)
  simp only [matchParametersValues, c]
  exact ⟨expectedSome_of_spec sp.2.2.1 sp.2.2.2.2.1 sp.2.2.2.2.2, sp.2.1, sp.2.2.1⟩

theorem setAllParametersValues_expected {h : Store} {l src : List ObjId} (nd : (names h l).Nodup)
    (ok : (setAllParametersValues h l src).err = none) (i : ObjId) :
    (setAllParametersValues h l src).heap.get i = expectedAll h l src i := by
  have c : checkAll h src l = none := by
    unfold setAllParametersValues at ok; split at ok
    · simp at ok
    · assumption
  have sp := applyAll_spec src l h nd (checkAll_none.1 c)
  simp only [setAllParametersValues, c]
  exact expectedAll_of_spec sp.2.1 sp.2.2.2.1 sp.2.2.2.2 (checkAll_none.1 c) i

theorem setParametersValues_err_iff (h : Store) (l src : List ObjId) :
    ((setParametersValues h l src).err = none) ↔ acceptsSome h l src = true := by
  rw [acceptsSome_iff, ← checkSome_none]
  unfold setParametersValues
  cases c : checkSome h l src with
  | none => simp [applySome_noerr h l src h (SameShape.refl h) (fun _ => Or.inl rfl) (checkSome_none.1 c)]
  | some e => simp

theorem matchParametersValues_err_iff (h : Store) (l src : List ObjId) :
    ((matchParametersValues h l src).err = none) ↔ acceptsSome h l src = true := by
  rw [acceptsSome_iff, ← checkSome_none]
  unfold matchParametersValues
  cases c : checkSome h l src with
  | none => simp [matchSome_noerr h l src h 0 (SameShape.refl h) (fun _ => Or.inl rfl) (checkSome_none.1 c)]
  | some e => simp

theorem setAllParametersValues_err_iff (h : Store) (l src : List ObjId) :
    ((setAllParametersValues h l src).err = none) ↔ acceptsAll h l src = true := by
  rw [acceptsAll_iff, ← checkAll_none]
  unfold setAllParametersValues
  cases c : checkAll h src l with
  | none => simp [applyAll_noerr h src l h (SameShape.refl h) (fun _ _ => rfl) (checkAll_none.1 c)]
  | some e => simp

theorem isErr_ofErr_eq (e : Option Err) : (Out.ofErr e).isErr = !e.isNone := by
  cases e <;> rfl


/-- the owner's `matchParametersValues`, under unique source names -/
theorem apMatchParametersValues_spec (h : Store) (l src : List ObjId) (nd : (names h src).Nodup) :
    let m := matchParametersValues h l src
    let r := apMatchParametersValues h l src
    r.heap = m.heap ∧ r.err = m.err ∧
    (m.err = none → r.flag = decide (m.pos ≠ []) ∧
      r.fired = if m.pos = [] then none else some (m.pos.filterMap (src[·]?))) ∧
    (m.err ≠ none → r.fired = none) := by
  cases e1 : (matchParametersValues h l src).err with
  | some x => simp [apMatchParametersValues, e1]
  | none =>
    obtain ⟨_, hp, ss⟩ := matchParametersValues_expected nd e1
    have hsorted : (matchParametersValues h l src).pos.Nodup := by
      rw [hp]; exact (diffPos_sorted h l src 0).imp (fun h => Nat.ne_of_lt h)
    simp only [apMatchParametersValues, e1]
    by_cases he : (matchParametersValues h l src).pos = []
    · simp [he]
    · simp only [ne_eq, he, not_false_eq_true, if_true, if_false, decide_true]
      rw [shareSubListIdx_eq, shareParameters_spec _ _ [] (by
        simpa using nodup_sel_idx (h := (matchParametersValues h l src).heap) (l := src)
          (by rw [ss.names]; exact nd) hsorted)]
      simp

theorem apSetParametersValues_spec (h : Store) (l src : List ObjId) :
    (apSetParametersValues h l src).heap = (setParametersValues h l src).heap ∧
    (apSetParametersValues h l src).err = (setParametersValues h l src).err ∧
    (apSetParametersValues h l src).fired =
      if (setParametersValues h l src).err = none then some src else none := by
  unfold apSetParametersValues; dsimp only
  cases e : (setParametersValues h l src).err <;> simp

theorem apSetAllParametersValues_spec (h : Store) (l src : List ObjId) :
    (apSetAllParametersValues h l src).heap = (setAllParametersValues h l src).heap ∧
    (apSetAllParametersValues h l src).err = (setAllParametersValues h l src).err ∧
    (apSetAllParametersValues h l src).fired =
      if (setAllParametersValues h l src).err = none then some src else none := by
  unfold apSetAllParametersValues; dsimp only
  cases e : (setAllParametersValues h l src).err <;> simp

theorem decide_forall_lt {n : Nat} {P : Nat → Prop} [DecidablePred P] (h : ∀ i, P i) :
    decide (∀ i, i < n → P i) = true := decide_eq_true (fun i _ => h i)

theorem clauseApplies_sound {s : State} (inv : Inv s) (op : Op) :
    clauseApplies s op (step s op).2.out (step s op).1 = true := by
  have nuj : ∀ j, namesUniqueB s j = true := fun j => by simp [namesUniqueB, inv.names j]
  cases op with
  | setValues k j =>
    simp only [clauseApplies, step, stepHR, State.withHeap]
    cases e : (setParametersValues s.heap (s.lists k) (s.lists j)).err with
    | none =>
      have a := (setParametersValues_err_iff s.heap (s.lists k) (s.lists j)).1 e
      simp only [Out.ofErr, Out.isErr, a, nuj]
      simp [setParametersValues_expected (inv.names j) e]
    | some x =>
      have a : acceptsSome s.heap (s.lists k) (s.lists j) = false := by
        rw [← Bool.not_eq_true, ← setParametersValues_err_iff, e]; simp
      simp [Out.ofErr, Out.isErr, a]
  | matchValues k j w =>
    simp only [clauseApplies, step, State.withHeap]
    cases e : (matchParametersValues s.heap (s.lists k) (s.lists j)).err with
    | none =>
      have a := (matchParametersValues_err_iff s.heap (s.lists k) (s.lists j)).1 e
      simp only [Out.isErr, a, nuj]
      simp [(matchParametersValues_expected (inv.names j) e).1]
    | some x =>
      have a : acceptsSome s.heap (s.lists k) (s.lists j) = false := by
        rw [← Bool.not_eq_true, ← matchParametersValues_err_iff, e]; simp
      simp [Out.isErr, a]
  | apSetValues k j =>
    obtain ⟨h1, h2, _⟩ := apSetParametersValues_spec s.heap (s.lists k) (s.lists j)
    simp only [clauseApplies, step, stepAR, State.withHeap, h1, h2]
    cases e : (setParametersValues s.heap (s.lists k) (s.lists j)).err with
    | none =>
      have a := (setParametersValues_err_iff s.heap (s.lists k) (s.lists j)).1 e
      simp only [Out.isErr, a, nuj]
      simp [setParametersValues_expected (inv.names j) e]
    | some x =>
      have a : acceptsSome s.heap (s.lists k) (s.lists j) = false := by
        rw [← Bool.not_eq_true, ← setParametersValues_err_iff, e]; simp
      simp [Out.isErr, a]
  | apMatch k j =>
    obtain ⟨h1, h2, _, _⟩ := apMatchParametersValues_spec s.heap (s.lists k) (s.lists j) (inv.names j)
    simp only [clauseApplies, step, stepAR, State.withHeap, h1, h2]
    cases e : (matchParametersValues s.heap (s.lists k) (s.lists j)).err with
    | none =>
      have a := (matchParametersValues_err_iff s.heap (s.lists k) (s.lists j)).1 e
      simp only [Out.isErr, a, nuj]
      simp [(matchParametersValues_expected (inv.names j) e).1]
    | some x =>
      have a : acceptsSome s.heap (s.lists k) (s.lists j) = false := by
        rw [← Bool.not_eq_true, ← matchParametersValues_err_iff, e]; simp
      simp [Out.isErr, a]
  | testValues k j =>
    simp only [clauseApplies, step, testParametersValues]
    cases c : checkSome s.heap (s.lists k) (s.lists j) with
    | none =>
      have a := (acceptsSome_iff s.heap (s.lists k) (s.lists j)).2 (checkSome_none.1 c)
      simp [Out.isErr, a]
    | some x =>
      have a : acceptsSome s.heap (s.lists k) (s.lists j) = false := by
        rw [← Bool.not_eq_true, acceptsSome_iff, ← checkSome_none, c]; simp
      simp [Out.isErr, a]
  | setAllValues k j =>
    simp only [clauseApplies, step, stepHR, State.withHeap]
    cases e : (setAllParametersValues s.heap (s.lists k) (s.lists j)).err with
    | none =>
      have a := (setAllParametersValues_err_iff s.heap (s.lists k) (s.lists j)).1 e
      simp only [Out.ofErr, Out.isErr, a, nuj]
      simp [setAllParametersValues_expected (inv.names k) e]
    | some x =>
      have a : acceptsAll s.heap (s.lists k) (s.lists j) = false := by
        rw [← Bool.not_eq_true, ← setAllParametersValues_err_iff, e]; simp
      simp [Out.ofErr, Out.isErr, a]
  | apSetAll k j =>
    obtain ⟨h1, h2, _⟩ := apSetAllParametersValues_spec s.heap (s.lists k) (s.lists j)
    simp only [clauseApplies, step, stepAR, State.withHeap, h1, h2]
    cases e : (setAllParametersValues s.heap (s.lists k) (s.lists j)).err with
    | none =>
      have a := (setAllParametersValues_err_iff s.heap (s.lists k) (s.lists j)).1 e
      simp only [Out.isErr, a, nuj]
      simp [setAllParametersValues_expected (inv.names k) e]
    | some x =>
      have a : acceptsAll s.heap (s.lists k) (s.lists j) = false := by
        rw [← Bool.not_eq_true, ← setAllParametersValues_err_iff, e]; simp
      simp [Out.isErr, a]
  | _ => rfl


theorem clauseMatch_sound {s : State} (inv : Inv s) (op : Op) :
    clauseMatch s op (step s op).2.out (step s op).2.fired = true := by
  have nuj : ∀ j, namesUniqueB s j = true := fun j => by simp [namesUniqueB, inv.names j]
  cases op with
  | matchValues k j w =>
    simp only [clauseMatch, step]
    cases e : (matchParametersValues s.heap (s.lists k) (s.lists j)).err with
    | none =>
      simp only [Out.isErr, nuj, (matchParametersValues_expected (inv.names j) e).2.1]
      simp
    | some x => simp [Out.isErr]
  | testValues k j =>
    simp only [clauseMatch, step, testParametersValues]
    cases c : checkSome s.heap (s.lists k) (s.lists j) with
    | none =>
      simp only [Out.isErr, testSome_eq s.heap (s.lists k) (s.lists j) 0]
      cases diffPos s.heap (s.lists k) 0 (s.lists j) <;> simp
    | some x => simp [Out.isErr]
  | apMatch k j =>
    obtain ⟨_, h2, h3, h4⟩ := apMatchParametersValues_spec s.heap (s.lists k) (s.lists j) (inv.names j)
    simp only [clauseMatch, step, stepAR, h2]
    cases e : (matchParametersValues s.heap (s.lists k) (s.lists j)).err with
    | none =>
      obtain ⟨f1, f2⟩ := h3 e
      simp only [Out.isErr, nuj, f1, f2, (matchParametersValues_expected (inv.names j) e).2.1]
      simp
    | some x => simp [Out.isErr]
  | apSetAll k j =>
    obtain ⟨_, h2, h3⟩ := apSetAllParametersValues_spec s.heap (s.lists k) (s.lists j)
    simp only [clauseMatch, step, stepAR, h2, h3]
    cases e : (setAllParametersValues s.heap (s.lists k) (s.lists j)).err <;> simp [Out.isErr]
  | apSetValues k j =>
    obtain ⟨_, h2, h3⟩ := apSetParametersValues_spec s.heap (s.lists k) (s.lists j)
    simp only [clauseMatch, step, stepAR, h2, h3]
    cases e : (setParametersValues s.heap (s.lists k) (s.lists j)).err <;> simp [Out.isErr]
  | _ => rfl

theorem freshWith_of {b a : State} {j : Nat} {content : List Par}
    (h1 : (a.lists j).map a.heap.get = content) (h2 : ∀ i ∈ a.lists j, b.heap.next ≤ i)
    (h3 : (a.lists j).Nodup) : freshWith b a j content = true := by
  simp only [freshWith, Bool.and_eq_true, decide_eq_true_eq, List.all_eq_true]
  exact ⟨⟨h1, h2⟩, h3⟩

theorem range'_fresh (n m : Nat) : (∀ i ∈ List.range' n m, n ≤ i) ∧ (List.range' n m).Nodup := by
  refine ⟨fun i hi => (List.mem_range'_1.1 hi).1, List.nodup_range'⟩

theorem setList_self (s : State) (h : Store) (j : Nat) (l : List ObjId) :
    ((s.withHeap h).setList j l).lists j = l := by simp [State.setList]

/-- `createSubList` through `addParameters`: what a successful / failing call looks like -/
theorem addParameters_nil_sel (sel : List ObjId) (h : Store) (vs : Valid h sel) (nd : (names h sel).Nodup) :
    let r := addParameters h [] sel
    r.err = none ∧ r.list = List.range' h.next sel.length ∧ r.list.map r.heap.get = sel.map h.get := by
  obtain ⟨i1, i2, _, i4, _⟩ := addParameters_spec sel h [] (Valid.nil _) vs (by simpa using nd)
  simp only [List.nil_append] at i2
  exact ⟨i1, i2, by rw [i2]; exact i4⟩

theorem names_filterMap_find? {h : Store} {l : List ObjId} {ns : List String}
    (all : ∀ n ∈ ns, find? h l n ≠ none) : names h (ns.filterMap (find? h l)) = ns := by
  induction ns with
  | nil => rfl
  | cons n rest ih =>
    cases e : find? h l n with
    | none => exact absurd e (all n (List.mem_cons_self ..))
    | some i =>
      simp only [List.filterMap_cons, e, names, List.map_cons, (find?_some e).2]
      congr 1
      exact ih (fun n' hn' => all n' (List.mem_cons_of_mem _ hn'))

theorem valid_filterMap_find? {h : Store} {l : List ObjId} (v : Valid h l) (ns : List String) :
    Valid h (ns.filterMap (find? h l)) := by
  intro i hi
  obtain ⟨n, _, hn⟩ := List.mem_filterMap.1 hi
  exact find?_valid v hn

theorem valid_filterMap_idx {h : Store} {l : List ObjId} (v : Valid h l) (idx : List Nat) :
    Valid h (idx.filterMap (l[·]?)) := by
  intro i hi
  obtain ⟨n, _, hn⟩ := List.mem_filterMap.1 hi
  exact getElem?_valid v hn

/-- a repeated name makes `addParameters` raise -/
theorem addParameters_dup_err (src : List ObjId) (h : Store) (l : List ObjId) (v : Valid h l) (vs : Valid h src)
    (dup : ¬ (names h (l ++ src)).Nodup) (ndl : (names h l).Nodup) : (addParameters h l src).err ≠ none := by
  induction src generalizing h l with
  | nil => simp at dup; exact absurd ndl dup
  | cons i rest ih =>
    have hi := vs i (List.mem_cons_self ..)
    have vr : Valid h rest := fun j hj => vs j (List.mem_cons_of_mem _ hj)
    unfold addParameters; dsimp only
    by_cases hn : hasParameter h l (nameOf h i) = true
    · have : (addParameter h l (h.get i)).err = some .bpp := by
        simp [addParameter, show hasParameter h l (h.get i).name = true from hn]
      simp [this]
    · have e1 : addParameter h l (h.get i) = { heap := (h.alloc (h.get i)).1, list := l ++ [h.next] } := by
        simp only [Bool.not_eq_true] at hn
        simp [addParameter, show hasParameter h l (h.get i).name = false from hn]
      rw [e1]; dsimp only
      have pr := pres_clone h hi
      have g := addParameter_good (h := h) (l := l) (h.get i) v (fun hk => hk i hi)
      rw [e1] at g
      have en : names (h.alloc (h.get i)).1 ((l ++ [h.next]) ++ rest) = names h (l ++ i :: rest) := by
        simp only [names_append]
        rw [pr.names v, pr.names vr]
        simp [names, nameOf]
      apply ih (h.alloc (h.get i)).1 (l ++ [h.next]) g.valid (vr.mono pr)
      · rw [en]; exact dup
      · exact g.nodup ndl

theorem clauseFresh_sound {s : State} (inv : Inv s) (op : Op) :
    clauseFresh s op (step s op).2.out (step s op).1 = true := by
  cases op with
  | copy k j | assign k j =>
    obtain ⟨_, _, p3, p4, p5, _⟩ := cloneAll_spec (s.lists k) s.heap (inv.wf k)
    simp only [clauseFresh, step]
    apply freshWith_of
    · rw [setList_self]; exact p5
    · rw [setList_self]; exact p3
    · rw [setList_self]; exact p4
  | subNames k j ns =>
    simp only [clauseFresh, step]
    split
    · next hc =>
      simp only [Bool.and_eq_true, decide_eq_true_eq, List.all_eq_true] at hc
      have all : ∀ n ∈ ns, find? s.heap (s.lists k) n ≠ none := fun n hn c => by
        have := hc.2 n hn; simp [c] at this
      rw [createSubListNames_eq _ ns s.heap [] (inv.wf k) (Valid.nil _) all]
      obtain ⟨i1, i2, i3⟩ := addParameters_nil_sel _ s.heap (valid_filterMap_find? (inv.wf k) ns)
        (by rw [names_filterMap_find? all]; exact hc.1)
      simp only [stepSub, i1, Bool.and_eq_true, beq_self_eq_true, true_and]
      apply freshWith_of
      · rw [setList_self]; exact i3
      · rw [setList_self, i2]; exact (range'_fresh _ _).1
      · rw [setList_self, i2]; exact (range'_fresh _ _).2
    · next hc =>
      -- a missing or repeated name: the call raises
      simp only [Bool.and_eq_true, decide_eq_true_eq, List.all_eq_true, not_and] at hc
      have herr : (createSubListNames s.heap (s.lists k) [] ns).err ≠ none := by
        intro c
        have all := createSubListNames_found _ ns s.heap [] (inv.wf k) (Valid.nil _) c
        have hdup : ¬ ns.Nodup := fun nd => hc nd (fun n hn => by
          cases e : find? s.heap (s.lists k) n with
          | none => exact absurd e (all n hn)
          | some i => rfl)
        rw [createSubListNames_eq _ ns s.heap [] (inv.wf k) (Valid.nil _) all] at c
        exact addParameters_dup_err _ s.heap [] (Valid.nil _) (valid_filterMap_find? (inv.wf k) ns)
          (by simpa [names_filterMap_find? all] using hdup) List.nodup_nil c
      cases e : (createSubListNames s.heap (s.lists k) [] ns).err with
      | none => exact absurd e herr
      | some x => simp [stepSub, e, Out.isErr]
  | subName k j n =>
    simp only [clauseFresh, step]
    cases e : find? s.heap (s.lists k) n with
    | none => simp [createSubListNames, e, stepSub]
    | some i =>
      have all : ∀ n' ∈ [n], find? s.heap (s.lists k) n' ≠ none := by simp [e]
      rw [createSubListNames_eq _ [n] s.heap [] (inv.wf k) (Valid.nil _) all]
      obtain ⟨i1, i2, i3⟩ := addParameters_nil_sel ([n].filterMap (find? s.heap (s.lists k))) s.heap
        (valid_filterMap_find? (inv.wf k) [n]) (by rw [names_filterMap_find? all]; simp)
      simp only [stepSub, i1, Bool.and_eq_true, beq_self_eq_true, true_and]
      apply freshWith_of
      · rw [setList_self]; exact i3.trans (by simp [e])
      · rw [setList_self, i2]; exact (range'_fresh _ _).1
      · rw [setList_self, i2]; exact (range'_fresh _ _).2
  | subIdxs k j idx =>
    simp only [clauseFresh, step]
    by_cases hidx : idx.Nodup
    swap
    · simp [hidx]
    rw [createSubListIdx_eq]
    obtain ⟨i1, i2, i3⟩ := addParameters_nil_sel (idx.filterMap ((s.lists k)[·]?)) s.heap
      (valid_filterMap_idx (inv.wf k) idx) (nodup_sel_idx (inv.names k) hidx)
    simp only [stepSub, i1, Bool.or_eq_true, Bool.and_eq_true, beq_self_eq_true, true_and]
    right
    apply freshWith_of
    · rw [setList_self]; exact i3
    · rw [setList_self, i2]; exact (range'_fresh _ _).1
    · rw [setList_self, i2]; exact (range'_fresh _ _).2
  | subIdx k j i =>
    simp only [clauseFresh, step]
    rw [createSubListIdx_eq]
    obtain ⟨i1, i2, i3⟩ := addParameters_nil_sel ([i].filterMap ((s.lists k)[·]?)) s.heap
      (valid_filterMap_idx (inv.wf k) [i]) (nodup_sel_idx (inv.names k) (by simp))
    simp only [stepSub, i1, Bool.and_eq_true, beq_self_eq_true, true_and]
    apply freshWith_of
    · rw [setList_self]; exact i3
    · rw [setList_self, i2]; exact (range'_fresh _ _).1
    · rw [setList_self, i2]; exact (range'_fresh _ _).2
  | common k j m =>
    obtain ⟨_, _, p3, p4, p5, _, _⟩ := getCommon_spec (s.lists k) s.heap (s.lists j) s.heap (inv.wf j)
      (Nat.le_refl _) (fun _ _ => rfl) (Pres.refl _)
    simp only [clauseFresh, step, Bool.and_eq_true, beq_self_eq_true, true_and]
    apply freshWith_of
    · rw [setList_self]; exact p5
    · rw [setList_self]; exact p3
    · rw [setList_self]; exact p4
  | _ => rfl


theorem all_isSome_iff {h : Store} {l : List ObjId} {ns : List String} :
    (ns.all (fun n => (find? h l n).isSome) = true) ↔ ∀ n ∈ ns, find? h l n ≠ none := by
  simp only [List.all_eq_true]
  constructor
  · intro H n hn c; have := H n hn; simp [c] at this
  · intro H n hn
    cases e : find? h l n with
    | none => exact absurd e (H n hn)
    | some i => rfl

theorem clauseShare_sound {s : State} (inv : Inv s) (op : Op) :
    clauseShare s op (step s op).2.out (step s op).1 = true := by
  cases op with
  | shareSubNames k j ns =>
    simp only [clauseShare, step]
    split
    · next hc =>
      have all := all_isSome_iff.1 hc
      by_cases hns : ns.Nodup
      swap
      · simp [hns]
      rw [shareSubListNames_eq _ ns s.heap [] (inv.wf k) (Valid.nil _) all,
        shareParameters_spec _ s.heap [] (by simpa [names_filterMap_find? all] using hns)]
      simp [stepSub, State.setList]
    · next hc =>
      have herr : (shareSubListNames s.heap (s.lists k) [] ns).err ≠ none := fun c =>
        hc (all_isSome_iff.2 (shareSubListNames_found _ ns s.heap [] (inv.wf k) (Valid.nil _) c))
      cases e : (shareSubListNames s.heap (s.lists k) [] ns).err with
      | none => exact absurd e herr
      | some x => simp [stepSub, e, Out.isErr]
  | shareSubIdxs k j idx =>
    simp only [clauseShare, step]
    by_cases hidx : idx.Nodup
    swap
    · simp [hidx]
    rw [shareSubListIdx_eq, shareParameters_spec _ s.heap [] (by simpa using nodup_sel_idx (inv.names k) hidx)]
    simp [stepSub, State.setList]
  | share k j nm =>
    simp only [clauseShare, step]
    cases e : find? s.heap (s.lists j) nm with
    | none => simp
    | some i =>
      have hn := (find?_some e).2
      simp only [stepLR, shareParameter, hn]
      by_cases hc : hasParameter s.heap (s.lists k) nm = true
      · simp [hc, State.setList]
      · simp [hc, State.setList, Out.ofErr]
  | _ => rfl

theorem clauseDelete_sound {s : State} (op : Op) :
    clauseDelete s op (step s op).2.out (step s op).1 = true := by
  cases op with
  | delIdxs k idx =>
    simp only [clauseDelete, step]
    by_cases hidx : idx.Nodup
    swap
    · simp [hidx]
    split
    · next hc =>
      simp only [List.all_eq_true, decide_eq_true_eq] at hc
      rw [deleteParametersIdx_spec _ idx hidx hc]
      simp [State.setList, Out.ofErr]
    · next hc =>
      simp only [List.all_eq_true, decide_eq_true_eq, not_forall, Nat.not_lt] at hc
      obtain ⟨d, hd, hl⟩ := hc
      rw [deleteParametersIdx_out _ idx ⟨d, hd, hl⟩]
      simp [State.setList, Out.ofErr]
  | delIdx k i =>
    simp only [clauseDelete, step, deleteParameterIdx]
    by_cases hi : i < (s.lists k).length
    · simp [hi, Nat.not_le.2 hi, State.setList]
    · simp [hi, Nat.not_lt.1 hi]
  | delName k nm =>
    obtain ⟨a, b⟩ := deleteParameter_names s.heap (s.lists k) nm
    simp only [clauseDelete, step]
    cases e : deleteParameter s.heap (s.lists k) nm with
    | ok l' =>
      obtain ⟨a1, a2⟩ := a l' e
      simp [(hasParameter_iff _ _ _).2 a2, State.setList, a1]
    | error x =>
      obtain ⟨b1, b2⟩ := b x e
      simp [(hasParameter_false_iff _ _ _).2 b2, b1]
  | _ => rfl

theorem clauseAdd_sound {s : State} (op : Op) :
    clauseAdd s op (step s op).2.out (step s op).1 = true := by
  cases op with
  | add k p | addPtr k p =>
    simp only [clauseAdd, step]
    by_cases hp : p.ok = true
    swap
    · simp [hp]
    by_cases hn : hasParameter s.heap (s.lists k) p.name = true
    · simp [hp, hn, addParameter, stepLR, Out.ofErr]
    · simp [hp, hn, addParameter, stepLR, Out.ofErr, State.setList, State.withHeap]
  | _ => rfl

theorem clauseLookup_sound {s : State} (op : Op) : clauseLookup s op (step s op).2.out = true := by
  cases op with
  | which k nm =>
    simp only [clauseLookup, step]
    cases e : whichParameterHasName s.heap (s.lists k) nm with
    | ok i =>
      obtain ⟨h1, h2⟩ := (which_exact _ _ _ _).1 e
      simp only [h1, beq_self_eq_true, Bool.true_and, List.all_eq_true, List.mem_range, bne_iff_ne, ne_eq]
      exact fun j hj => h2 j hj
    | error x =>
      have : x = .notfound := by
        unfold whichParameterHasName at e; split at e <;> cases e; rfl
      subst this
      simpa using (which_notfound _ _ _).1 e
  | has k nm =>
    simp only [clauseLookup, step, beq_iff_eq, Out.bool.injEq]
    rw [Bool.eq_iff_iff, hasParameter_iff]; simp
  | names k => simp [clauseLookup, step]
  | size k => simp [clauseLookup, step]
  | getValue k nm =>
    simp only [clauseLookup, step, getParameterValue]
    cases e : find? s.heap (s.lists k) nm <;> simp
  | _ => rfl


theorem updateOk_sound (s : State) (l : List ObjId) (n : String) (v : Rat) (a : State)
    (ha : ∀ t ∈ l, a.heap.get t = (setParameterValue s.heap l n v).heap.get t) :
    updateOk s l n v (.ofErr (setParameterValue s.heap l n v).err) a = true := by
  have sp := setParameterValue_spec s.heap l n v
  unfold updateOk
  cases e : find? s.heap l n with
  | none => simp only [e] at sp; simp [sp.1, Out.ofErr]
  | some t =>
    simp only [e] at sp
    have ht := (find?_some e).1
    by_cases c : (s.heap.get t).rejects v = true ∧ v ≠ (s.heap.get t).value
    · rw [if_pos c] at sp
      simp [c.1, c.2, sp.1, Out.ofErr]
    · rw [if_neg c] at sp
      have c' : ((s.heap.get t).rejects v && decide (v ≠ (s.heap.get t).value)) = false := by
        simpa [-ne_eq] using c
      simp only [c', sp.1, Out.ofErr, ha t ht, sp.2.1]
      simp

theorem takeWhile_erase_congr (nm : List String) (n : String) (rest : List String) (hn : n ∉ rest) :
    rest.takeWhile (fun x => (nm.erase n).contains x) = rest.takeWhile (fun x => nm.contains x) := by
  induction rest with
  | nil => rfl
  | cons a t ih =>
    have hne : a ≠ n := fun c => hn (c ▸ List.mem_cons_self ..)
    have : (nm.erase n).contains a = nm.contains a := by
      rw [Bool.eq_iff_iff]; simp [List.mem_erase_of_ne hne]
    simp only [List.takeWhile_cons, this]
    rw [ih (fun c => hn (List.mem_cons_of_mem _ c))]

theorem deleteParameters_spec (h : Store) (must : Bool) (ns : List String) (l : List ObjId) (nd : ns.Nodup) :
    let nm := names h l
    let pre := if must then ns.takeWhile (fun n => nm.contains n) else ns
    names h (deleteParameters h must l ns).1 = pre.foldl (fun acc n => acc.erase n) nm ∧
    (deleteParameters h must l ns).2 = if pre.length = ns.length then none else some .notfound := by
  induction ns generalizing l with
  | nil => cases must <;> simp [deleteParameters]
  | cons n rest ih =>
    have nd' := List.nodup_cons.1 nd
    obtain ⟨a, b⟩ := deleteParameter_names h l n
    unfold deleteParameters
    cases e : deleteParameter h l n with
    | ok l' =>
      obtain ⟨a1, a2⟩ := a l' e
      obtain ⟨i1, i2⟩ := ih l' nd'.2
      have hc : (names h l).contains n = true := by simpa using a2
      dsimp only at i1 i2 ⊢
      rw [i1, i2, a1]
      cases must
      · simp
      · simp only [if_true, List.takeWhile_cons, hc, List.foldl_cons, List.length_cons]
        rw [takeWhile_erase_congr _ _ _ nd'.1]
        simp
    | error x =>
      obtain ⟨b1, b2⟩ := b x e
      have hc : (names h l).contains n = false := by simpa using b2
      cases must
      · obtain ⟨i1, i2⟩ := ih l nd'.2
        dsimp only at i1 i2 ⊢
        simp only [Bool.false_eq_true, if_false] at i1 i2 ⊢
        rw [i1, i2]
        simp [List.erase_of_not_mem b2]
      · simp [List.takeWhile_cons, b2, b1]


theorem setParameterValue_names (h : Store) (l : List ObjId) (n : String) (v : Rat) :
    ∀ i, nameOf (setParameterValue h l n v).heap i = nameOf h i := by
  intro i
  unfold setParameterValue
  split
  · rfl
  · next t _ =>
    split
    · next q hq =>
      have := (setValue_ok hq).1
      by_cases c : i = t
      · subst c; simp [nameOf, this]
      · simp [nameOf, c]
    · rfl

theorem apSetParameterValue_spec (h : Store) (l : List ObjId) (pre n : String) (v : Rat) (vl : Valid h l) :
    (apSetParameterValue h l pre n v).err = (setParameterValue h l (pre ++ n) v).err ∧
    ∀ t ∈ l, (apSetParameterValue h l pre n v).heap.get t = (setParameterValue h l (pre ++ n) v).heap.get t := by
  unfold apSetParameterValue; dsimp only
  cases e1 : (setParameterValue h l (pre ++ n) v).err with
  | some x => exact ⟨rfl, fun _ _ => rfl⟩
  | none =>
    have hf : find? h l (pre ++ n) ≠ none := by
      intro c; simp [setParameterValue, c] at e1
    have hs := createSubListNames_single (h := (setParameterValue h l (pre ++ n) v).heap) (l := l) (n := pre ++ n)
      (by rw [find?_congr (fun i _ => setParameterValue_names h l (pre ++ n) v i)]; exact hf)
    simp only [hs]
    refine ⟨trivial, fun t ht => ?_⟩
    have f := createSubListNames_frame l [pre ++ n] (setParameterValue h l (pre ++ n) v).heap []
    exact f.same t (Nat.lt_of_lt_of_le (vl t ht) (setParameterValue_pres h l (pre ++ n) v).next_le) (by simp)

theorem clauseUpdate_sound {s : State} (inv : Inv s) (op : Op) :
    clauseUpdate s op (step s op).2.out (step s op).1 = true := by
  cases op with
  | setValue k nm v => exact updateOk_sound s _ nm v _ (fun _ _ => rfl)
  | apSetValue k nm v =>
    obtain ⟨h1, h2⟩ := apSetParameterValue_spec s.heap (s.lists k) (s.pre k) nm v (inv.wf k)
    simp only [clauseUpdate, step, stepAR]
    have key := updateOk_sound s (s.lists k) (s.pre k ++ nm) v
      (s.withHeap (apSetParameterValue s.heap (s.lists k) (s.pre k) nm v).heap) h2
    rw [← h1] at key
    cases hr : (apSetParameterValue s.heap (s.lists k) (s.pre k) nm v).err <;>
      simp only [hr, Out.ofErr] at key ⊢ <;> exact key
  | share k j nm =>
    simp only [clauseUpdate, step]
    cases e : find? s.heap (s.lists j) nm with
    | none => rfl
    | some i =>
      have hn := (find?_some e).2
      by_cases hc : hasParameter s.heap (s.lists k) nm = true
      · simp only [stepLR, shareParameter, hn, hc, if_true]
        exact updateOk_sound s (s.lists k) nm (s.heap.get i).value _ (fun _ _ => rfl)
      · simp [hc]
  | _ => rfl

theorem clauseDeleteNames_sound {s : State} (op : Op) :
    clauseDeleteNames s op (step s op).2.out (step s op).1 = true := by
  cases op with
  | delNames k ns must =>
    simp only [clauseDeleteNames, step]
    by_cases hns : ns.Nodup
    swap
    · simp [hns]
    obtain ⟨i1, i2⟩ := deleteParameters_spec s.heap must ns (s.lists k) hns
    cases must
    · simp only [Bool.false_eq_true, if_false] at i1 i2
      simp [State.setList, i1, i2, hns, Out.ofErr]
    · simp only [if_true] at i1 i2
      simp only [State.setList, if_true, i1, i2, hns, decide_true, Bool.not_true, Bool.false_or, beq_self_eq_true,
        Bool.true_and]
      split
      · next hl => simp only [List.contains_eq_mem] at hl; simp [hl, Out.ofErr]
      · next hl => simp only [List.contains_eq_mem] at hl; simp [hl, Out.ofErr]
  | _ => rfl



/-! ### include / share-all / add-all: declarative specification (prefix semantics) -/




theorem takeWhile_congr' {α : Type} {p q : α → Bool} : ∀ {l : List α}, (∀ x ∈ l, p x = q x) →
    l.takeWhile p = l.takeWhile q
  | [], _ => rfl
  | a :: t, h => by
    simp only [List.takeWhile_cons, h a (List.mem_cons_self ..)]
    rw [takeWhile_congr' (fun x hx => h x (List.mem_cons_of_mem _ hx))]

theorem filter_congr' {α : Type} {p q : α → Bool} {l : List α} (h : ∀ x ∈ l, p x = q x) :
    l.filter p = l.filter q := List.filter_congr h

theorem find?_append_new {h : Store} {l : List ObjId} {x : ObjId} {n : String} (hx : nameOf h x ≠ n) :
    find? h (l ++ [x]) n = find? h l n := by
  unfold find?
  rw [List.find?_append]
  cases List.find? (fun i => nameOf h i == n) l with
  | some i => rfl
  | none => simp [hx]

theorem expectedSome_cons_other {h : Store} {l : List ObjId} {s : ObjId} {rest : List ObjId} {i : ObjId}
    (hs : find? h l (nameOf h s) ≠ some i) : expectedSome h l (s :: rest) i = expectedSome h l rest i := by
  unfold expectedSome
  rw [List.find?_cons]
  have : (find? h l (nameOf h s) == some i) = false := by simpa using hs
  rw [this]

theorem expectedSome_cons_self {h : Store} {l : List ObjId} {s : ObjId} {rest : List ObjId} {t : ObjId}
    (hs : find? h l (nameOf h s) = some t) :
    expectedSome h l (s :: rest) t = { h.get t with value := (h.get s).value } := by
  unfold expectedSome
  rw [List.find?_cons]
  simp [hs]

theorem expectedSome_untargeted {h : Store} {l : List ObjId} {src : List ObjId} {i : ObjId}
    (hs : ∀ s ∈ src, find? h l (nameOf h s) ≠ some i) : expectedSome h l src i = h.get i := by
  unfold expectedSome
  have : src.find? (fun s => find? h l (nameOf h s) == some i) = none := by
    rw [List.find?_eq_none]; intro s hs'; simpa using hs s hs'
  rw [this]

/-- `expectedSome` only looks at names, at the values of the sources and at the object itself -/
theorem expectedSome_congr {h h' : Store} {l l' : List ObjId} {src : List ObjId} {i : ObjId}
    (hf : ∀ s ∈ src, (find? h' l' (nameOf h' s) == some i) = (find? h l (nameOf h s) == some i))
    (hv : ∀ s ∈ src, (h'.get s).value = (h.get s).value) (hi : h'.get i = h.get i) :
    expectedSome h' l' src i = expectedSome h l src i := by
  induction src with
  | nil => simp [expectedSome, hi]
  | cons s rest ih =>
    have ih' := ih (fun x hx => hf x (List.mem_cons_of_mem _ hx)) (fun x hx => hv x (List.mem_cons_of_mem _ hx))
    unfold expectedSome at ih' ⊢
    rw [List.find?_cons, List.find?_cons, hf s (List.mem_cons_self ..)]
    cases find? h l (nameOf h s) == some i
    · exact ih'
    · simp [hi, hv s (List.mem_cons_self ..)]



theorem rejColl_congr {h h' : Store} {l l' : List ObjId} {s : ObjId}
    (hf : find? h' l' (nameOf h' s) = find? h l (nameOf h s))
    (hs : h'.get s = h.get s) (ht : ∀ t, find? h l (nameOf h s) = some t → h'.get t = h.get t) :
    rejColl h' l' s = rejColl h l s := by
  unfold rejColl
  rw [hf]
  cases e : find? h l (nameOf h s) with
  | none => rfl
  | some t => simp only [hs, ht t e]

theorem hasParameter_eq_of_find? {h h' : Store} {l l' : List ObjId} {n n' : String}
    (hf : find? h' l' n' = find? h l n) : hasParameter h' l' n' = hasParameter h l n := by
  rw [← find?_isSome, ← find?_isSome, hf]

theorem includeParameters_spec (src : List ObjId) (h : Store) (l : List ObjId)
    (v : Valid h l) (vs : Valid h src) (ndl : (names h l).Nodup) (nds : (names h src).Nodup) :
    let r := includeParameters h l src
    r.err = (if (mergePrefix h l src).length = src.length then none else some .constraint) ∧
    r.list = l ++ List.range' h.next (mergeNews h l src).length ∧
    r.heap.next = h.next + (mergeNews h l src).length ∧
    (List.range' h.next (mergeNews h l src).length).map r.heap.get = (mergeNews h l src).map h.get ∧
    (∀ i, i < h.next → r.heap.get i = expectedSome h l (mergePrefix h l src) i) := by
  induction src generalizing h l with
  | nil => simp [includeParameters, mergePrefix, mergeNews, expectedSome]
  | cons s rest ih =>
    have hsv := vs s (List.mem_cons_self ..)
    have vr : Valid h rest := fun j hj => vs j (List.mem_cons_of_mem _ hj)
    have nd' := List.nodup_cons.1 nds
    have hne : ∀ x ∈ rest, nameOf h x ≠ nameOf h s := fun x hx => ne_of_name_not_mem nd'.1 hx
    by_cases hc : hasParameter h l (nameOf h s) = true
    · -- collision
      have hsome : (find? h l (nameOf h s)).isSome = true := by rw [find?_isSome]; exact hc
      obtain ⟨t, e⟩ := Option.isSome_iff_exists.1 hsome
      have ht := find?_some e
      by_cases hr : rejColl h l s = true
      · -- refused: stop here
        have hr' : (h.get t).rejects (h.get s).value = true ∧ (h.get s).value ≠ (h.get t).value := by
          simpa [rejColl, e] using hr
        have hset : (h.get t).setValue (h.get s).value = .error .constraint := by
          simp [Par.setValue, hr'.1, hr'.2]
        have e0 : includeParameters h l (s :: rest) = { heap := h, list := l, err := some .constraint } := by
          simp [includeParameters, hc, setParameterValue, e, hset]
        have p0 : mergePrefix h l (s :: rest) = [] := by simp [mergePrefix, List.takeWhile_cons, hr]
        have n0 : mergeNews h l (s :: rest) = [] := by simp [mergeNews, p0]
        rw [e0, p0, n0]
        simp [expectedSome]
      · -- accepted
        have hr0 : rejColl h l s = false := by simpa using hr
        obtain ⟨q, hq⟩ : ∃ q, (h.get t).setValue (h.get s).value = .ok q := by
          by_cases hv : (h.get s).value = (h.get t).value
          · rw [hv]; exact ⟨_, setValue_self _⟩
          · apply setValue_noerr_of_accepts
            have : ¬ ((h.get t).rejects (h.get s).value = true ∧ (h.get s).value ≠ (h.get t).value) := by
              simpa [rejColl, e] using hr
            cases hrj : (h.get t).rejects (h.get s).value with
            | false => rfl
            | true => exact absurd ⟨hrj, hv⟩ this
        obtain ⟨q1, q2, _, q4⟩ := setValue_ok hq
        have ss1 : SameShape h (h.put t q) := (SameShape.refl h).put_setValue hq
        have v2 : ∀ x, x ≠ t → (h.put t q).get x = h.get x := fun x hx => by simp [hx]
        have e0 : includeParameters h l (s :: rest) = includeParameters (h.put t q) l rest := by
          simp [includeParameters, hc, setParameterValue, e, hq]
        have hnt : ∀ x ∈ rest, x ≠ t := fun x hx c => hne x hx (by rw [c, ht.2])
        have htt : ∀ x ∈ rest, ∀ t', find? h l (nameOf h x) = some t' → t' ≠ t := by
          intro x hx t' ht' c; subst c
          exact hne x hx ((find?_some ht').2.symm.trans ht.2)
        have hrc : ∀ x ∈ rest, rejColl (h.put t q) l x = rejColl h l x := fun x hx =>
          rejColl_congr (by rw [ss1.nameOf, ss1.find?]) (v2 x (hnt x hx)) (fun t' ht' => v2 t' (htt x hx t' ht'))
        have hhp : ∀ x ∈ rest, hasParameter (h.put t q) l (nameOf (h.put t q) x) = hasParameter h l (nameOf h x) :=
          fun x hx => hasParameter_eq_of_find? (by rw [ss1.nameOf, ss1.find?])
        have p1 : mergePrefix (h.put t q) l rest = mergePrefix h l rest :=
          takeWhile_congr' (fun x hx => by rw [hrc x hx])
        have p0 : mergePrefix h l (s :: rest) = s :: mergePrefix h l rest := by
          simp [mergePrefix, List.takeWhile_cons, hr0]
        have hsub : ∀ x ∈ mergePrefix h l rest, x ∈ rest := fun x hx => (List.takeWhile_sublist _).subset hx
        have n1 : mergeNews (h.put t q) l rest = mergeNews h l rest := by
          unfold mergeNews; rw [p1]
          exact filter_congr' (fun x hx => by rw [hhp x (hsub x hx)])
        have n0 : mergeNews h l (s :: rest) = mergeNews h l rest := by
          simp [mergeNews, p0, List.filter_cons, hc]
        obtain ⟨i1, i2, i3, i4, i5⟩ := ih (h.put t q) l v (vr : Valid (h.put t q) rest)
          (by rw [ss1.names]; exact ndl) (by rw [ss1.names]; exact nd'.2)
        simp only [p1, n1, next_put] at i1 i2 i3 i4 i5
        rw [e0, p0, n0]
        refine ⟨?_, i2, i3, ?_, ?_⟩
        · rw [i1]; simp
        · rw [i4]
          apply List.map_congr_left
          intro x hx
          have hxr : x ∈ rest := hsub x ((List.filter_sublist).subset hx)
          exact v2 x (hnt x hxr)
        · intro i hi
          rw [i5 i hi]
          by_cases hit : i = t
          · subst hit
            rw [expectedSome_cons_self e, expectedSome_untargeted]
            · rw [get_put, if_pos rfl]; exact par_ext q1 q4 q2
            · intro x hx c
              rw [ss1.nameOf, ss1.find?] at c
              exact htt x (hsub x hx) i c rfl
          · rw [expectedSome_cons_other (by rw [e]; exact fun c => hit (Option.some.inj c).symm)]
            exact expectedSome_congr (fun x hx => by rw [ss1.nameOf, ss1.find?])
              (fun x hx => by rw [v2 x (hnt x (hsub x hx))]) (v2 i hit)
    · -- a new name: a clone is appended
      have hc0 : hasParameter h l (nameOf h s) = false := by simpa using hc
      have enone : find? h l (nameOf h s) = none := find?_none.2 ((hasParameter_false_iff _ _ _).1 hc0)
      have e0 : includeParameters h l (s :: rest) =
          includeParameters (h.alloc (h.get s)).1 (l ++ [h.next]) rest := by
        simp [includeParameters, hc0]
      have pr := pres_clone h hsv
      have g := addParameter_good (h := h) (l := l) (h.get s) v (fun hk => hk s hsv)
      have eadd : addParameter h l (h.get s) = { heap := (h.alloc (h.get s)).1, list := l ++ [h.next] } := by
        simp [addParameter, show hasParameter h l (h.get s).name = false from hc0]
      rw [eadd] at g
      have gv : ∀ x, x < h.next → (h.alloc (h.get s)).1.get x = h.get x := fun x hx => by
        simp [Nat.ne_of_lt hx]
      have gn : nameOf (h.alloc (h.get s)).1 h.next = nameOf h s := by simp [nameOf]
      have hfind : ∀ x ∈ rest, find? (h.alloc (h.get s)).1 (l ++ [h.next]) (nameOf (h.alloc (h.get s)).1 x)
          = find? h l (nameOf h x) := by
        intro x hx
        rw [pr.name_eq x (vr x hx), find?_append_new (by rw [gn]; exact (hne x hx).symm)]
        exact find?_congr (fun i hi => pr.name_eq i (v i hi)) _
      have hrc : ∀ x ∈ rest, rejColl (h.alloc (h.get s)).1 (l ++ [h.next]) x = rejColl h l x := fun x hx =>
        rejColl_congr (hfind x hx) (gv x (vr x hx)) (fun t' ht' => gv t' (find?_valid v ht'))
      have hhp : ∀ x ∈ rest, hasParameter (h.alloc (h.get s)).1 (l ++ [h.next]) (nameOf (h.alloc (h.get s)).1 x)
          = hasParameter h l (nameOf h x) := fun x hx => hasParameter_eq_of_find? (hfind x hx)
      have p1 : mergePrefix (h.alloc (h.get s)).1 (l ++ [h.next]) rest = mergePrefix h l rest :=
        takeWhile_congr' (fun x hx => by rw [hrc x hx])
      have hr0 : rejColl h l s = false := by simp [rejColl, enone]
      have p0 : mergePrefix h l (s :: rest) = s :: mergePrefix h l rest := by
        simp [mergePrefix, List.takeWhile_cons, hr0]
      have hsub : ∀ x ∈ mergePrefix h l rest, x ∈ rest := fun x hx => (List.takeWhile_sublist _).subset hx
      have n1 : mergeNews (h.alloc (h.get s)).1 (l ++ [h.next]) rest = mergeNews h l rest := by
        unfold mergeNews; rw [p1]
        exact filter_congr' (fun x hx => by rw [hhp x (hsub x hx)])
      have n0 : mergeNews h l (s :: rest) = s :: mergeNews h l rest := by
        simp [mergeNews, p0, List.filter_cons, hc0]
      obtain ⟨i1, i2, i3, i4, i5⟩ := ih (h.alloc (h.get s)).1 (l ++ [h.next]) g.valid (vr.mono pr)
        (g.nodup ndl) (by rw [pr.names vr]; exact nd'.2)
      simp only [p1, n1, next_alloc] at i1 i2 i3 i4 i5
      rw [e0, p0, n0]
      refine ⟨?_, ?_, ?_, ?_, ?_⟩
      · rw [i1]; simp
      · rw [i2]; simp [List.range'_succ]
      · rw [i3]; simp only [List.length_cons]; omega
      · simp only [List.length_cons, List.range'_succ, List.map_cons]
        rw [i4, i5 h.next (by omega), expectedSome_untargeted]
        · simp only [get_alloc, if_true]
          congr 1
          apply List.map_congr_left
          intro x hx
          exact gv x (vr x (hsub x ((List.filter_sublist).subset hx)))
        · intro x hx c
          rw [hfind x (hsub x hx)] at c
          exact absurd (find?_valid v c) (Nat.lt_irrefl _)
      · intro i hi
        rw [i5 i (by omega), expectedSome_cons_other (by rw [enone]; simp)]
        exact expectedSome_congr (fun x hx => by rw [hfind x (hsub x hx)])
          (fun x hx => by rw [gv x (vr x (hsub x hx))]) (gv i hi)



theorem shareParameters_full_spec (src : List ObjId) (h : Store) (l : List ObjId)
    (ndl : (names h l).Nodup) (nds : (names h src).Nodup) :
    let r := shareParameters h l src
    r.err = (if (mergePrefix h l src).length = src.length then none else some .constraint) ∧
    r.list = l ++ mergeNews h l src ∧ r.heap.next = h.next ∧
    (∀ i, r.heap.get i = expectedSome h l (mergePrefix h l src) i) := by
  induction src generalizing h l with
  | nil => simp [shareParameters, mergePrefix, mergeNews, expectedSome]
  | cons s rest ih =>
    have nd' := List.nodup_cons.1 nds
    have hne : ∀ x ∈ rest, nameOf h x ≠ nameOf h s := fun x hx => ne_of_name_not_mem nd'.1 hx
    by_cases hc : hasParameter h l (nameOf h s) = true
    · have hsome : (find? h l (nameOf h s)).isSome = true := by rw [find?_isSome]; exact hc
      obtain ⟨t, e⟩ := Option.isSome_iff_exists.1 hsome
      have ht := find?_some e
      by_cases hr : rejColl h l s = true
      · have hr' : (h.get t).rejects (h.get s).value = true ∧ (h.get s).value ≠ (h.get t).value := by
          simpa [rejColl, e] using hr
        have hset : (h.get t).setValue (h.get s).value = .error .constraint := by
          simp [Par.setValue, hr'.1, hr'.2]
        have e0 : shareParameters h l (s :: rest) = { heap := h, list := l, err := some .constraint } := by
          simp [shareParameters, shareParameter, hc, setParameterValue, e, hset]
        have p0 : mergePrefix h l (s :: rest) = [] := by simp [mergePrefix, List.takeWhile_cons, hr]
        have n0 : mergeNews h l (s :: rest) = [] := by simp [mergeNews, p0]
        rw [e0, p0, n0]
        simp [expectedSome]
      · have hr0 : rejColl h l s = false := by simpa using hr
        obtain ⟨q, hq⟩ : ∃ q, (h.get t).setValue (h.get s).value = .ok q := by
          by_cases hv : (h.get s).value = (h.get t).value
          · rw [hv]; exact ⟨_, setValue_self _⟩
          · apply setValue_noerr_of_accepts
            have : ¬ ((h.get t).rejects (h.get s).value = true ∧ (h.get s).value ≠ (h.get t).value) := by
              simpa [rejColl, e] using hr
            cases hrj : (h.get t).rejects (h.get s).value with
            | false => rfl
            | true => exact absurd ⟨hrj, hv⟩ this
        obtain ⟨q1, q2, _, q4⟩ := setValue_ok hq
        have ss1 : SameShape h (h.put t q) := (SameShape.refl h).put_setValue hq
        have v2 : ∀ x, x ≠ t → (h.put t q).get x = h.get x := fun x hx => by simp [hx]
        have e0 : shareParameters h l (s :: rest) = shareParameters (h.put t q) l rest := by
          simp [shareParameters, shareParameter, hc, setParameterValue, e, hq]
        have hnt : ∀ x ∈ rest, x ≠ t := fun x hx c => hne x hx (by rw [c, ht.2])
        have htt : ∀ x ∈ rest, ∀ t', find? h l (nameOf h x) = some t' → t' ≠ t := by
          intro x hx t' ht' c; subst c
          exact hne x hx ((find?_some ht').2.symm.trans ht.2)
        have hrc : ∀ x ∈ rest, rejColl (h.put t q) l x = rejColl h l x := fun x hx =>
          rejColl_congr (by rw [ss1.nameOf, ss1.find?]) (v2 x (hnt x hx)) (fun t' ht' => v2 t' (htt x hx t' ht'))
        have hhp : ∀ x ∈ rest, hasParameter (h.put t q) l (nameOf (h.put t q) x) = hasParameter h l (nameOf h x) :=
          fun x hx => hasParameter_eq_of_find? (by rw [ss1.nameOf, ss1.find?])
        have p1 : mergePrefix (h.put t q) l rest = mergePrefix h l rest :=
          takeWhile_congr' (fun x hx => by rw [hrc x hx])
        have p0 : mergePrefix h l (s :: rest) = s :: mergePrefix h l rest := by
          simp [mergePrefix, List.takeWhile_cons, hr0]
        have hsub : ∀ x ∈ mergePrefix h l rest, x ∈ rest := fun x hx => (List.takeWhile_sublist _).subset hx
        have n1 : mergeNews (h.put t q) l rest = mergeNews h l rest := by
          unfold mergeNews; rw [p1]
          exact filter_congr' (fun x hx => by rw [hhp x (hsub x hx)])
        have n0 : mergeNews h l (s :: rest) = mergeNews h l rest := by
          simp [mergeNews, p0, List.filter_cons, hc]
        obtain ⟨i1, i2, i3, i5⟩ := ih (h.put t q) l (by rw [ss1.names]; exact ndl) (by rw [ss1.names]; exact nd'.2)
        simp only [p1, n1, next_put] at i1 i2 i3 i5
        rw [e0, p0, n0]
        refine ⟨?_, i2, i3, ?_⟩
        · rw [i1]; simp
        · intro i
          rw [i5 i]
          by_cases hit : i = t
          · subst hit
            rw [expectedSome_cons_self e, expectedSome_untargeted]
            · rw [get_put, if_pos rfl]; exact par_ext q1 q4 q2
            · intro x hx c
              rw [ss1.nameOf, ss1.find?] at c
              exact htt x (hsub x hx) i c rfl
          · rw [expectedSome_cons_other (by rw [e]; exact fun c => hit (Option.some.inj c).symm)]
            exact expectedSome_congr (fun x hx => by rw [ss1.nameOf, ss1.find?])
              (fun x hx => by rw [v2 x (hnt x (hsub x hx))]) (v2 i hit)
    · have hc0 : hasParameter h l (nameOf h s) = false := by simpa using hc
      have enone : find? h l (nameOf h s) = none := find?_none.2 ((hasParameter_false_iff _ _ _).1 hc0)
      have e0 : shareParameters h l (s :: rest) = shareParameters h (l ++ [s]) rest := by
        simp [shareParameters, shareParameter, hc0]
      have hfind : ∀ x ∈ rest, find? h (l ++ [s]) (nameOf h x) = find? h l (nameOf h x) :=
        fun x hx => find?_append_new (hne x hx).symm
      have hrc : ∀ x ∈ rest, rejColl h (l ++ [s]) x = rejColl h l x := fun x hx =>
        rejColl_congr (hfind x hx) rfl (fun _ _ => rfl)
      have hhp : ∀ x ∈ rest, hasParameter h (l ++ [s]) (nameOf h x) = hasParameter h l (nameOf h x) :=
        fun x hx => hasParameter_eq_of_find? (hfind x hx)
      have p1 : mergePrefix h (l ++ [s]) rest = mergePrefix h l rest :=
        takeWhile_congr' (fun x hx => by rw [hrc x hx])
      have hr0 : rejColl h l s = false := by simp [rejColl, enone]
      have p0 : mergePrefix h l (s :: rest) = s :: mergePrefix h l rest := by
        simp [mergePrefix, List.takeWhile_cons, hr0]
      have hsub : ∀ x ∈ mergePrefix h l rest, x ∈ rest := fun x hx => (List.takeWhile_sublist _).subset hx
      have n1 : mergeNews h (l ++ [s]) rest = mergeNews h l rest := by
        unfold mergeNews; rw [p1]
        exact filter_congr' (fun x hx => by rw [hhp x (hsub x hx)])
      have n0 : mergeNews h l (s :: rest) = s :: mergeNews h l rest := by
        simp [mergeNews, p0, List.filter_cons, hc0]
      have ndl1 : (names h (l ++ [s])).Nodup := by
        rw [names_append]
        refine List.nodup_append.2 ⟨ndl, by simp [names], ?_⟩
        intro a ha b hb
        simp only [names, List.map_cons, List.map_nil, List.mem_singleton] at hb
        subst hb
        exact fun c => (hasParameter_false_iff _ _ _).1 hc0 (c ▸ ha)
      obtain ⟨i1, i2, i3, i5⟩ := ih h (l ++ [s]) ndl1 nd'.2
      simp only [p1, n1] at i1 i2 i3 i5
      rw [e0, p0, n0]
      refine ⟨?_, ?_, i3, ?_⟩
      · rw [i1]; simp
      · rw [i2]; simp
      · intro i
        rw [i5 i, expectedSome_cons_other (by rw [enone]; simp)]
        exact expectedSome_congr (fun x hx => by rw [hfind x (hsub x hx)]) (fun _ _ => rfl) rfl


theorem addParameters_full_spec (src : List ObjId) (h : Store) (l : List ObjId)
    (v : Valid h l) (vs : Valid h src) (ndl : (names h l).Nodup) (nds : (names h src).Nodup) :
    let r := addParameters h l src
    r.err = (if (addPrefix h l src).length = src.length then none else some .bpp) ∧
    r.list = l ++ List.range' h.next (addPrefix h l src).length ∧
    r.heap.next = h.next + (addPrefix h l src).length ∧
    (List.range' h.next (addPrefix h l src).length).map r.heap.get = (addPrefix h l src).map h.get ∧
    (∀ i, i < h.next → r.heap.get i = h.get i) := by
  induction src generalizing h l with
  | nil => simp [addParameters, addPrefix]
  | cons s rest ih =>
    have hsv := vs s (List.mem_cons_self ..)
    have vr : Valid h rest := fun j hj => vs j (List.mem_cons_of_mem _ hj)
    have nd' := List.nodup_cons.1 nds
    have hne : ∀ x ∈ rest, nameOf h x ≠ nameOf h s := fun x hx => ne_of_name_not_mem nd'.1 hx
    by_cases hc : hasParameter h l (nameOf h s) = true
    · have e0 : addParameters h l (s :: rest) = { heap := h, list := l, err := some .bpp } := by
        simp [addParameters, addParameter, show hasParameter h l (h.get s).name = true from hc]
      have p0 : addPrefix h l (s :: rest) = [] := by simp [addPrefix, List.takeWhile_cons, hc]
      rw [e0, p0]; simp
    · have hc0 : hasParameter h l (nameOf h s) = false := by simpa using hc
      have eadd : addParameter h l (h.get s) = { heap := (h.alloc (h.get s)).1, list := l ++ [h.next] } := by
        simp [addParameter, show hasParameter h l (h.get s).name = false from hc0]
      have e0 : addParameters h l (s :: rest) = addParameters (h.alloc (h.get s)).1 (l ++ [h.next]) rest := by
        simp [addParameters, eadd]
      have pr := pres_clone h hsv
      have g := addParameter_good (h := h) (l := l) (h.get s) v (fun hk => hk s hsv)
      rw [eadd] at g
      have gv : ∀ x, x < h.next → (h.alloc (h.get s)).1.get x = h.get x := fun x hx => by
        simp [Nat.ne_of_lt hx]
      have gn : nameOf (h.alloc (h.get s)).1 h.next = nameOf h s := by simp [nameOf]
      have hfind : ∀ x ∈ rest, find? (h.alloc (h.get s)).1 (l ++ [h.next]) (nameOf (h.alloc (h.get s)).1 x)
          = find? h l (nameOf h x) := by
        intro x hx
        rw [pr.name_eq x (vr x hx), find?_append_new (by rw [gn]; exact (hne x hx).symm)]
        exact find?_congr (fun i hi => pr.name_eq i (v i hi)) _
      have p1 : addPrefix (h.alloc (h.get s)).1 (l ++ [h.next]) rest = addPrefix h l rest :=
        takeWhile_congr' (fun x hx => by rw [hasParameter_eq_of_find? (hfind x hx)])
      have p0 : addPrefix h l (s :: rest) = s :: addPrefix h l rest := by
        simp [addPrefix, List.takeWhile_cons, hc0]
      have hsub : ∀ x ∈ addPrefix h l rest, x ∈ rest := fun x hx => (List.takeWhile_sublist _).subset hx
      obtain ⟨i1, i2, i3, i4, i5⟩ := ih (h.alloc (h.get s)).1 (l ++ [h.next]) g.valid (vr.mono pr)
        (g.nodup ndl) (by rw [pr.names vr]; exact nd'.2)
      simp only [p1, next_alloc] at i1 i2 i3 i4 i5
      rw [e0, p0]
      refine ⟨?_, ?_, ?_, ?_, ?_⟩
      · rw [i1]; simp
      · rw [i2]; simp [List.range'_succ]
      · rw [i3]; simp only [List.length_cons]; omega
      · simp only [List.length_cons, List.range'_succ, List.map_cons]
        rw [i4, i5 h.next (by omega)]
        simp only [get_alloc, if_true]
        congr 1
        apply List.map_congr_left
        intro x hx
        exact gv x (vr x (hsub x hx))
      · intro i hi
        rw [i5 i (by omega)]; exact gv i hi



/-! ### whole-parameter assignment: declarative specification -/



theorem expectedPar_cons_other {h : Store} {l : List ObjId} {s : ObjId} {rest : List ObjId} {i : ObjId}
    (hs : find? h l (nameOf h s) ≠ some i) : expectedPar h l (s :: rest) i = expectedPar h l rest i := by
  unfold expectedPar
  rw [List.find?_cons]
  have : (find? h l (nameOf h s) == some i) = false := by simpa using hs
  rw [this]

theorem expectedPar_cons_self {h : Store} {l : List ObjId} {s : ObjId} {rest : List ObjId} {t : ObjId}
    (hs : find? h l (nameOf h s) = some t) : expectedPar h l (s :: rest) t = h.get s := by
  unfold expectedPar
  rw [List.find?_cons]
  simp [hs]

theorem expectedPar_untargeted {h : Store} {l : List ObjId} {src : List ObjId} {i : ObjId}
    (hs : ∀ s ∈ src, find? h l (nameOf h s) ≠ some i) : expectedPar h l src i = h.get i := by
  unfold expectedPar
  have : src.find? (fun s => find? h l (nameOf h s) == some i) = none := by
    rw [List.find?_eq_none]; intro s hs'; simpa using hs s hs'
  rw [this]

theorem expectedPar_congr {h h' : Store} {l : List ObjId} {src : List ObjId} {i : ObjId}
    (hf : ∀ s ∈ src, (find? h' l (nameOf h' s) == some i) = (find? h l (nameOf h s) == some i))
    (hv : ∀ s ∈ src, h'.get s = h.get s) (hi : h'.get i = h.get i) :
    expectedPar h' l src i = expectedPar h l src i := by
  induction src with
  | nil => simp [expectedPar, hi]
  | cons s rest ih =>
    have ih' := ih (fun x hx => hf x (List.mem_cons_of_mem _ hx)) (fun x hx => hv x (List.mem_cons_of_mem _ hx))
    unfold expectedPar at ih' ⊢
    rw [List.find?_cons, List.find?_cons, hf s (List.mem_cons_self ..)]
    cases find? h l (nameOf h s) == some i
    · exact ih'
    · simp [hv s (List.mem_cons_self ..)]

/-- names are untouched by `*t = *s` when `t` was found by the name of `s` -/
theorem put_assign_names {h : Store} {t s : ObjId} (e : nameOf h t = nameOf h s) :
    ∀ x, nameOf (h.put t (h.get s)) x = nameOf h x := by
  intro x
  by_cases c : x = t
  · subst c; simp [nameOf] at e ⊢; exact e.symm
  · simp [nameOf, c]

theorem setParameters_spec (l : List ObjId) (src : List ObjId) (h : Store) (nds : (names h src).Nodup) :
    let r := setParameters h l src
    r.err = (if (knownPrefix h l src).length = src.length then none else some .notfound) ∧
    r.heap.next = h.next ∧ (∀ x, nameOf r.heap x = nameOf h x) ∧
    (∀ i, r.heap.get i = expectedPar h l (knownPrefix h l src) i) := by
  induction src generalizing h with
  | nil => simp [setParameters, knownPrefix, expectedPar]
  | cons s rest ih =>
    have nd' := List.nodup_cons.1 nds
    have hne : ∀ x ∈ rest, nameOf h x ≠ nameOf h s := fun x hx => ne_of_name_not_mem nd'.1 hx
    cases e : find? h l (nameOf h s) with
    | none =>
      have hc : hasParameter h l (nameOf h s) = false := by rw [← find?_isSome, e]; rfl
      have p0 : knownPrefix h l (s :: rest) = [] := by simp [knownPrefix, List.takeWhile_cons, hc]
      simp [setParameters, e, p0, expectedPar]
    | some t =>
      have ht := find?_some e
      have hc : hasParameter h l (nameOf h s) = true := by rw [← find?_isSome, e]; rfl
      have nm := put_assign_names (h := h) (t := t) (s := s) ht.2
      have v2 : ∀ x, x ≠ t → (h.put t (h.get s)).get x = h.get x := fun x hx => by simp [hx]
      have hnt : ∀ x ∈ rest, x ≠ t := fun x hx c => hne x hx (by rw [c, ht.2])
      have htt : ∀ x ∈ rest, ∀ t', find? h l (nameOf h x) = some t' → t' ≠ t := by
        intro x hx t' ht' c; subst c
        exact hne x hx ((find?_some ht').2.symm.trans ht.2)
      have hfind : ∀ x, find? (h.put t (h.get s)) l (nameOf (h.put t (h.get s)) x) = find? h l (nameOf h x) :=
        fun x => by rw [nm x]; exact find?_congr (fun i _ => nm i) _
      have p1 : knownPrefix (h.put t (h.get s)) l rest = knownPrefix h l rest :=
        takeWhile_congr' (fun x _ => hasParameter_eq_of_find? (hfind x))
      have p0 : knownPrefix h l (s :: rest) = s :: knownPrefix h l rest := by
        simp [knownPrefix, List.takeWhile_cons, hc]
      have hsub : ∀ x ∈ knownPrefix h l rest, x ∈ rest := fun x hx => (List.takeWhile_sublist _).subset hx
      obtain ⟨i1, i2, i3, i4⟩ := ih (h.put t (h.get s))
        (by rw [names_congr (fun i _ => nm i)]; exact nd'.2)
      simp only [p1, next_put] at i1 i2 i4
      simp only [setParameters, e, p0]
      refine ⟨by rw [i1]; simp, i2, fun x => by rw [i3 x, nm x], fun i => ?_⟩
      rw [i4 i]
      by_cases hit : i = t
      · subst hit
        rw [expectedPar_cons_self e, expectedPar_untargeted]
        · simp
        · intro x hx c
          rw [hfind x] at c
          exact htt x (hsub x hx) i c rfl
      · rw [expectedPar_cons_other (by rw [e]; exact fun c => hit (Option.some.inj c).symm)]
        exact expectedPar_congr (fun x _ => by rw [hfind x])
          (fun x hx => v2 x (hnt x (hsub x hx))) (v2 i hit)

theorem matchParameters_spec (l : List ObjId) (src : List ObjId) (h : Store) (nds : (names h src).Nodup) :
    let r := matchParameters h l src
    r.err = none ∧ r.heap.next = h.next ∧ (∀ x, nameOf r.heap x = nameOf h x) ∧
    (∀ i, r.heap.get i = expectedPar h l src i) := by
  induction src generalizing h with
  | nil => simp [matchParameters, expectedPar]
  | cons s rest ih =>
    have nd' := List.nodup_cons.1 nds
    have hne : ∀ x ∈ rest, nameOf h x ≠ nameOf h s := fun x hx => ne_of_name_not_mem nd'.1 hx
    cases e : find? h l (nameOf h s) with
    | none =>
      obtain ⟨i1, i2, i3, i4⟩ := ih h nd'.2
      simp only [matchParameters, e]
      exact ⟨i1, i2, i3, fun i => by rw [i4 i, expectedPar_cons_other (by rw [e]; simp)]⟩
    | some t =>
      have ht := find?_some e
      have nm := put_assign_names (h := h) (t := t) (s := s) ht.2
      have v2 : ∀ x, x ≠ t → (h.put t (h.get s)).get x = h.get x := fun x hx => by simp [hx]
      have hnt : ∀ x ∈ rest, x ≠ t := fun x hx c => hne x hx (by rw [c, ht.2])
      have htt : ∀ x ∈ rest, ∀ t', find? h l (nameOf h x) = some t' → t' ≠ t := by
        intro x hx t' ht' c; subst c
        exact hne x hx ((find?_some ht').2.symm.trans ht.2)
      have hfind : ∀ x, find? (h.put t (h.get s)) l (nameOf (h.put t (h.get s)) x) = find? h l (nameOf h x) :=
        fun x => by rw [nm x]; exact find?_congr (fun i _ => nm i) _
      obtain ⟨i1, i2, i3, i4⟩ := ih (h.put t (h.get s))
        (by rw [names_congr (fun i _ => nm i)]; exact nd'.2)
      simp only [next_put] at i2
      simp only [matchParameters, e]
      refine ⟨i1, i2, fun x => by rw [i3 x, nm x], fun i => ?_⟩
      rw [i4 i]
      by_cases hit : i = t
      · subst hit
        rw [expectedPar_cons_self e, expectedPar_untargeted]
        · simp
        · intro x hx c
          rw [hfind x] at c
          exact htt x hx i c rfl
      · rw [expectedPar_cons_other (by rw [e]; exact fun c => hit (Option.some.inj c).symm)]
        exact expectedPar_congr (fun x _ => by rw [hfind x]) (fun x hx => v2 x (hnt x hx)) (v2 i hit)


theorem setAllParameters_spec (src : List ObjId) (l : List ObjId) (h : Store) (ndl : (names h l).Nodup) :
    let r := setAllParameters h src l
    let pre := l.takeWhile (fun i => hasParameter h src (nameOf h i))
    r.err = (if pre.length = l.length then none else some .notfound) ∧
    r.heap.next = h.next ∧ (∀ x, nameOf r.heap x = nameOf h x) ∧
    (∀ i, r.heap.get i = expectedAllPar h pre src i) := by
  induction l generalizing h with
  | nil => simp [setAllParameters, expectedAllPar]
  | cons a rest ih =>
    have nd' := List.nodup_cons.1 ndl
    have hne : ∀ x ∈ rest, nameOf h x ≠ nameOf h a := fun x hx => ne_of_name_not_mem nd'.1 hx
    have hna : a ∉ rest := fun c => hne a c rfl
    cases e : find? h src (nameOf h a) with
    | none =>
      have hc : hasParameter h src (nameOf h a) = false := by rw [← find?_isSome, e]; rfl
      simp [setAllParameters, e, List.takeWhile_cons, hc, expectedAllPar]
    | some j =>
      have hj := find?_some e
      have hc : hasParameter h src (nameOf h a) = true := by rw [← find?_isSome, e]; rfl
      have nm := put_assign_names (h := h) (t := a) (s := j) hj.2.symm
      have v2 : ∀ x, x ≠ a → (h.put a (h.get j)).get x = h.get x := fun x hx => by simp [hx]
      have hfind : ∀ x, find? (h.put a (h.get j)) src (nameOf (h.put a (h.get j)) x) = find? h src (nameOf h x) :=
        fun x => by rw [nm x]; exact find?_congr (fun i _ => nm i) _
      -- later sources are not `a` (they carry another name)
      have hsrc : ∀ x ∈ rest, ∀ j', find? h src (nameOf h x) = some j' → j' ≠ a := by
        intro x hx j' hj' c; subst c
        exact hne x hx (find?_some hj').2.symm
      have p1 : rest.takeWhile (fun i => hasParameter (h.put a (h.get j)) src (nameOf (h.put a (h.get j)) i)) =
          rest.takeWhile (fun i => hasParameter h src (nameOf h i)) :=
        takeWhile_congr' (fun x _ => hasParameter_eq_of_find? (hfind x))
      have hsub : ∀ x ∈ rest.takeWhile (fun i => hasParameter h src (nameOf h i)), x ∈ rest :=
        fun x hx => (List.takeWhile_sublist _).subset hx
      obtain ⟨i1, i2, i3, i4⟩ := ih (h.put a (h.get j)) (by rw [names_congr (fun i _ => nm i)]; exact nd'.2)
      simp only [p1, next_put] at i1 i2 i4
      simp only [setAllParameters, e, List.takeWhile_cons, hc, if_true]
      refine ⟨by rw [i1]; simp, i2, fun x => by rw [i3 x, nm x], fun i => ?_⟩
      rw [i4 i]
      unfold expectedAllPar
      by_cases hia : i = a
      · subst hia
        have : i ∉ rest.takeWhile (fun i => hasParameter h src (nameOf h i)) := fun c => hna (hsub i c)
        simp [this, e]
      · by_cases hip : i ∈ rest.takeWhile (fun i => hasParameter h src (nameOf h i))
        · simp only [hip, if_true, List.mem_cons, hia, false_or, hfind i]
          cases e' : find? h src (nameOf h i) with
          | none => exact v2 i hia
          | some j' => exact v2 j' (hsrc i (hsub i hip) j' e')
        · simp only [hip, if_false, List.mem_cons, hia, false_or]
          exact v2 i hia





theorem freshAppended_of {b a : State} {k : Nat} {l suf : List ObjId} {content : List Par}
    (hl : a.lists k = l ++ suf) (h1 : suf.map a.heap.get = content) (h2 : ∀ i ∈ suf, b.heap.next ≤ i)
    (h3 : suf.Nodup) : freshAppended b a k l content = true := by
  simp only [freshAppended, hl, List.take_left', List.drop_left', Bool.and_eq_true, beq_self_eq_true,
    decide_eq_true_eq, List.all_eq_true, true_and]
  exact ⟨⟨h1, h2⟩, h3⟩

@[simp] theorem heap_setList (s : State) (h : Store) (k : Nat) (l : List ObjId) :
    ((s.withHeap h).setList k l).heap = h := rfl

theorem clauseMerge_sound {s : State} (inv : Inv s) (op : Op) :
    clauseMerge s op (step s op).2.out (step s op).1 = true := by
  have nu : ∀ j, namesUniqueB s j = true := fun j => by simp [namesUniqueB, inv.names j]
  cases op with
  | incl k j =>
    obtain ⟨i1, i2, _, i4, i5⟩ := includeParameters_spec (s.lists j) s.heap (s.lists k) (inv.wf k) (inv.wf j)
      (inv.names k) (inv.names j)
    simp only [clauseMerge, step, stepLR, nu, Bool.and_self, Bool.not_true, Bool.false_or, Bool.and_eq_true,
      heap_setList]
    refine ⟨⟨?_, ?_⟩, decide_eq_true (fun i hi => i5 i hi)⟩
    · rw [i1]; split <;> simp [Out.ofErr]
    · exact freshAppended_of (by rw [setList_self]; exact i2) (by simpa using i4) (range'_fresh _ _).1
        (range'_fresh _ _).2
  | shareAll k j =>
    obtain ⟨i1, i2, _, i5⟩ := shareParameters_full_spec (s.lists j) s.heap (s.lists k) (inv.names k) (inv.names j)
    simp only [clauseMerge, step, stepLR, nu, Bool.and_self, Bool.not_true, Bool.false_or, Bool.and_eq_true,
      beq_iff_eq, heap_setList]
    refine ⟨⟨?_, by rw [setList_self]; exact i2⟩, decide_eq_true (fun i _ => i5 i)⟩
    rw [i1]; split <;> simp [Out.ofErr]
  | addAll k j =>
    obtain ⟨i1, i2, _, i4, i5⟩ := addParameters_full_spec (s.lists j) s.heap (s.lists k) (inv.wf k) (inv.wf j)
      (inv.names k) (inv.names j)
    simp only [clauseMerge, step, stepLR, nu, Bool.and_self, Bool.not_true, Bool.false_or, Bool.and_eq_true,
      heap_setList]
    refine ⟨⟨?_, ?_⟩, decide_eq_true (fun i hi => i5 i hi)⟩
    · rw [i1]; split <;> simp [Out.ofErr]
    · exact freshAppended_of (by rw [setList_self]; exact i2) (by simpa using i4) (range'_fresh _ _).1
        (range'_fresh _ _).2
  | _ => rfl

theorem clauseAssign_sound {s : State} (inv : Inv s) (op : Op) :
    clauseAssign s op (step s op).2.out (step s op).1 = true := by
  have nu : ∀ j, namesUniqueB s j = true := fun j => by simp [namesUniqueB, inv.names j]
  cases op with
  | matchParams k j =>
    obtain ⟨i1, _, _, i4⟩ := matchParameters_spec (s.lists k) (s.lists j) s.heap (inv.names j)
    simp only [clauseAssign, step, stepHR, nu, Bool.not_true, Bool.false_or, Bool.and_eq_true, beq_iff_eq]
    exact ⟨by rw [i1]; rfl, decide_eq_true (fun i _ => i4 i)⟩
  | setParams k j =>
    obtain ⟨i1, _, _, i4⟩ := setParameters_spec (s.lists k) (s.lists j) s.heap (inv.names j)
    simp only [clauseAssign, step, stepHR, nu, Bool.not_true, Bool.false_or, Bool.and_eq_true]
    refine ⟨?_, decide_eq_true (fun i _ => i4 i)⟩
    rw [i1]; split <;> simp [Out.ofErr]
  | setAllParams k j =>
    obtain ⟨i1, _, _, i4⟩ := setAllParameters_spec (s.lists j) (s.lists k) s.heap (inv.names k)
    simp only [clauseAssign, step, stepHR, nu, Bool.not_true, Bool.false_or, Bool.and_eq_true]
    refine ⟨?_, decide_eq_true (fun i _ => i4 i)⟩
    rw [i1]; split <;> simp [Out.ofErr]
  | _ => rfl


theorem apSetParameterValue_fired (h : Store) (l : List ObjId) (pre n : String) (v : Rat) (vl : Valid h l) :
    let r := apSetParameterValue h l pre n v
    (r.err ≠ none → r.fired = none) ∧
    (r.err = none → ∃ t, find? h l (pre ++ n) = some t ∧ r.fired = some [h.next] ∧
      r.heap.get h.next = r.heap.get t) := by
  have hnext : (setParameterValue h l (pre ++ n) v).heap.next = h.next := by
    unfold setParameterValue; split
    · rfl
    · split <;> rfl
  unfold apSetParameterValue; dsimp only
  cases e1 : (setParameterValue h l (pre ++ n) v).err with
  | some x => exact ⟨fun _ => rfl, fun c => by cases c⟩
  | none =>
    have hf : find? h l (pre ++ n) ≠ none := by
      intro c; simp [setParameterValue, c] at e1
    obtain ⟨t, ht⟩ := Option.ne_none_iff_exists'.1 hf
    have nm : ∀ i ∈ l, nameOf (setParameterValue h l (pre ++ n) v).heap i = nameOf h i :=
      fun i _ => setParameterValue_names h l (pre ++ n) v i
    have hf' : find? (setParameterValue h l (pre ++ n) v).heap l (pre ++ n) = some t := by
      rw [find?_congr nm]; exact ht
    have pr := setParameterValue_pres h l (pre ++ n) v
    have hs := createSubListNames_single (h := (setParameterValue h l (pre ++ n) v).heap) (l := l) (n := pre ++ n)
      (by rw [hf']; simp)
    have hcs : createSubListNames (setParameterValue h l (pre ++ n) v).heap l [] [pre ++ n] =
        { heap := ((setParameterValue h l (pre ++ n) v).heap.alloc ((setParameterValue h l (pre ++ n) v).heap.get t)).1,
          list := [(setParameterValue h l (pre ++ n) v).heap.next] } := by
      simp [createSubListNames, hf', addParameter, hasParameter]
    simp only [hs]
    refine ⟨fun c => absurd rfl c, fun _ => ⟨t, ht, ?_, ?_⟩⟩
    · rw [hcs, hnext]
    · rw [hcs, ← hnext]
      have : t < (setParameterValue h l (pre ++ n) v).heap.next :=
        Nat.lt_of_lt_of_le (find?_valid vl ht) pr.next_le
      simp [Nat.ne_of_lt this]

theorem clauseNotify_sound {s : State} (inv : Inv s) (op : Op) :
    clauseNotify s op (step s op).2.out (step s op).2.fired (step s op).1 = true := by
  cases op with
  | apSetValue k nm v =>
    obtain ⟨f1, f2⟩ := apSetParameterValue_fired s.heap (s.lists k) (s.pre k) nm v (inv.wf k)
    simp only [clauseNotify, step, stepAR]
    by_cases e : (apSetParameterValue s.heap (s.lists k) (s.pre k) nm v).err = none
    · obtain ⟨t, ht, g1, g2⟩ := f2 e
      simp [e, Out.isErr, g1, ht, State.withHeap, g2]
    · have := f1 e
      obtain ⟨x, hx⟩ := Option.ne_none_iff_exists'.1 e
      simp [hx, Out.isErr, this]
  | _ => rfl


end Bpp.ParamList
