import BppModel.ParamList
import BppModel.ParamListSpec
/-! Helper lemmas for C02 (ParameterList).  Property theorems are in `Props/C02.lean`. -/
namespace Bpp.ParamList

/-! ## Heap -/

@[simp, grind =] theorem get_put (h : Store) (i : ObjId) (p : Par) (j : ObjId) :
    (h.put i p).get j = if j = i then p else h.get j := rfl
@[simp, grind =] theorem next_put (h : Store) (i : ObjId) (p : Par) : (h.put i p).next = h.next := rfl
@[simp, grind =] theorem get_alloc (h : Store) (p : Par) (j : ObjId) :
    (h.alloc p).1.get j = if j = h.next then p else h.get j := rfl
@[simp, grind =] theorem next_alloc (h : Store) (p : Par) : (h.alloc p).1.next = h.next + 1 := rfl
@[simp, grind =] theorem alloc_snd (h : Store) (p : Par) : (h.alloc p).2 = h.next := rfl
@[grind =] theorem nameOf_def (h : Store) (i : ObjId) : nameOf h i = (h.get i).name := rfl

/-- all ids of the list have been allocated -/
def Valid (h : Store) (l : List ObjId) : Prop := ∀ i ∈ l, i < h.next
/-- every allocated object satisfies its own constraint -/
def HeapOk (h : Store) : Prop := ∀ i, i < h.next → (h.get i).ok = true

/-- `h'` is a later heap: more objects, old objects keep their names, `HeapOk` is kept -/
structure Pres (h h' : Store) : Prop where
  next_le : h.next ≤ h'.next
  name_eq : ∀ i, i < h.next → nameOf h' i = nameOf h i
  ok : HeapOk h → HeapOk h'

theorem Pres.refl (h : Store) : Pres h h := ⟨Nat.le_refl _, fun _ _ => rfl, id⟩
theorem Pres.trans {a b c : Store} (x : Pres a b) (y : Pres b c) : Pres a c :=
  ⟨Nat.le_trans x.next_le y.next_le,
   fun i hi => by rw [y.name_eq i (Nat.lt_of_lt_of_le hi x.next_le), x.name_eq i hi],
   fun h => y.ok (x.ok h)⟩

theorem Valid.mono {h h' : Store} {l : List ObjId} (v : Valid h l) (x : Pres h h') : Valid h' l :=
  fun i hi => Nat.lt_of_lt_of_le (v i hi) x.next_le

theorem Valid.nil (h : Store) : Valid h [] := by intro i hi; cases hi

theorem names_congr {h h' : Store} {l : List ObjId} (e : ∀ i ∈ l, nameOf h' i = nameOf h i) :
    names h' l = names h l := by
  unfold names; exact List.map_congr_left e

theorem Pres.names {h h' : Store} (x : Pres h h') {l : List ObjId} (v : Valid h l) :
    names h' l = names h l := names_congr (fun i hi => x.name_eq i (v i hi))

theorem pres_alloc (h : Store) (p : Par) (hp : HeapOk h → p.ok = true) : Pres h (h.alloc p).1 := by
  refine ⟨by simp, ?_, ?_⟩
  · intro i hi; grind
  · intro hk i hi
    have := hk i
    have := hp hk
    grind

theorem pres_clone (h : Store) {i : ObjId} (hi : i < h.next) : Pres h (h.alloc (h.get i)).1 :=
  pres_alloc h _ (fun hk => hk i hi)

theorem setValue_ok {p p' : Par} {v : Rat} (e : p.setValue v = .ok p') :
    p'.name = p.name ∧ p'.con = p.con ∧ (p.ok = true → p'.ok = true) ∧ p'.value = v := by
  unfold Par.setValue at e
  split at e
  · cases e; simp_all
  · split at e
    · cases e
    · cases e; simp_all [Par.ok, Par.rejects]

theorem setValue_error {p : Par} {v : Rat} {e : Err} (h : p.setValue v = .error e) :
    e = .constraint ∧ p.rejects v = true ∧ v ≠ p.value := by
  unfold Par.setValue at h
  split at h
  · cases h
  · split at h
    · cases h; simp_all
    · cases h

theorem setValue_of_accepts {p : Par} {v : Rat} (h : p.rejects v = false) :
    p.setValue v = .ok { p with value := v } := by
  unfold Par.setValue
  split
  · next e => subst e; rfl
  · simp [h]

theorem pres_put_setValue (h : Store) (i : ObjId) {p' : Par} {v : Rat}
    (e : (h.get i).setValue v = .ok p') : Pres h (h.put i p') := by
  obtain ⟨e1, _, e3, _⟩ := setValue_ok e
  refine ⟨by simp, ?_, ?_⟩
  · intro j hj; grind
  · intro hk j hj
    have := hk j
    grind

/-- whole-parameter assignment `*t = *s` when both carry the same name -/
theorem pres_put_assign (h : Store) {t s : ObjId} (hs : s < h.next) (e : nameOf h s = nameOf h t) :
    Pres h (h.put t (h.get s)) := by
  refine ⟨by simp, ?_, ?_⟩
  · intro j hj; grind
  · intro hk j hj
    have := hk j
    have := hk s
    grind

/-! ## Lookups -/

theorem hasParameter_iff (h : Store) (l : List ObjId) (n : String) :
    hasParameter h l n = true ↔ n ∈ names h l := by
  simp only [hasParameter, names, List.any_eq_true, List.mem_map, beq_iff_eq]

theorem hasParameter_false_iff (h : Store) (l : List ObjId) (n : String) :
    hasParameter h l n = false ↔ n ∉ names h l := by
  rw [← hasParameter_iff]; simp

theorem find?_some {h : Store} {l : List ObjId} {n : String} {i : ObjId} (e : find? h l n = some i) :
    i ∈ l ∧ nameOf h i = n := by
  unfold find? at e
  exact ⟨List.mem_of_find?_eq_some e, by simpa using List.find?_some e⟩

theorem find?_none {h : Store} {l : List ObjId} {n : String} :
    find? h l n = none ↔ n ∉ names h l := by
  simp [find?, names, List.find?_eq_none]

theorem find?_isSome (h : Store) (l : List ObjId) (n : String) :
    (find? h l n).isSome = hasParameter h l n := by
  unfold find? hasParameter
  induction l with
  | nil => rfl
  | cons a t ih => rw [List.find?_cons, List.any_cons]; cases nameOf h a == n <;> simp [ih]

theorem find?_congr {h h' : Store} {l : List ObjId} (e : ∀ i ∈ l, nameOf h' i = nameOf h i) (n : String) :
    find? h' l n = find? h l n := by
  unfold find?
  induction l with
  | nil => rfl
  | cons a t ih =>
    rw [List.find?_cons, List.find?_cons, e a (List.mem_cons_self ..),
      ih (fun i hi => e i (List.mem_cons_of_mem _ hi))]

theorem hasParameter_congr {h h' : Store} {l : List ObjId} (e : ∀ i ∈ l, nameOf h' i = nameOf h i)
    (n : String) : hasParameter h' l n = hasParameter h l n := by
  rw [← find?_isSome, ← find?_isSome, find?_congr e]

theorem find?_valid {h : Store} {l : List ObjId} {n : String} {i : ObjId} (v : Valid h l)
    (e : find? h l n = some i) : i < h.next := v i (find?_some e).1

/-- with unique names, an element is found by its own name -/
theorem find?_self {h : Store} {l : List ObjId} (nd : (names h l).Nodup) {i : ObjId} (hi : i ∈ l) :
    find? h l (nameOf h i) = some i := by
  induction l with
  | nil => cases hi
  | cons a t ih =>
    simp only [names, List.map_cons, List.nodup_cons, List.mem_map, not_exists, not_and] at nd
    unfold find?
    rw [List.find?_cons]
    by_cases e : a = i
    · subst e; rw [beq_self_eq_true]
    · have hit : i ∈ t := by cases hi with
        | head => exact absurd rfl e
        | tail _ h => exact h
      have : nameOf h a ≠ nameOf h i := fun c => nd.1 i hit c.symm
      rw [beq_eq_false_iff_ne.2 this]
      exact ih nd.2 hit

end Bpp.ParamList
