import BppProofs.Lemmas.OptimPolicy
import BppModel.OptimLine
/-!
Helper lemmas for C10: the evaluation budget in terms of the *calls of the objective*.

* `optimize_calls`: template lemma.  For every optimiser whose `doStep` makes at most one call more than
  it adds to the counter `nbEval_` (the `for` loop of `optimize` adds the missing one), when the last step
  of `optimize` begins the number of calls made since `optimize` began is below the counter, hence below
  `nbEvalMax_`.
* `Counts I calls`: every `f` / `setParameters` of the function object `I` — returning normally or
  throwing — makes exactly one call (`calls` goes up by one).  `objective_counts`: the objective of the
  harness with `calls fn = fn.log.length`.
* `dirFn_counts_safe`: a `DirectionFunction` around such a function keeps
  `calls df.inner = L0 + df.nbEval` (its counter is exact), whence `lineMinimization_calls` and
  `lineSearch_calls`: the figure `k` the two searches return is the number of calls they made.
* `powellDoStep_calls`, `cgDoStep_calls`, `bfgsDoStep_calls`: a step makes exactly one call more than it
  adds to the counter; `powellAlgo_monotone`, `cgAlgo_monotone`, `bfgsAlgo_monotone`.
-/
set_option linter.unusedSectionVars false
namespace Bpp.Optim
open Bpp

/-! ### the template -/

section template
variable {α : Type} [Scalar α] {F τ : Type}

/-- `loop_last_step_inv` for a predicate that is restored by the step *together with* the increment of
the counter that follows it -/
theorem loop_last_step_inv_bump (A : Algo F τ α) (R : St F τ α → Prop)
    (hstep : ∀ s s' v, R s → Guard s → A.step s = .ok (s', v) → R (bump s')) :
    ∀ (fuel : Nat) (s s' : St F τ α), R s → A.loop fuel s = .ok s' →
      s' = s ∨ ∃ sb sa v, R sb ∧ Guard sb ∧ A.step sb = .ok (sa, v) ∧ s' = bump sa := by
  intro fuel
  induction fuel with
  | zero =>
    intro s s' _ h
    rw [loop_zero] at h
    by_cases hg : Guard s
    · rw [if_pos hg] at h; cases h
    · rw [if_neg hg] at h; cases h; exact Or.inl rfl
  | succ fuel ih =>
    intro s s' hr h
    rw [loop_succ] at h
    by_cases hg : Guard s
    · rw [if_pos hg] at h
      cases hst : A.step s with
      | error e => rw [hst] at h; cases h
      | ok r =>
        obtain ⟨s1, v⟩ := r
        rw [hst] at h
        rcases ih _ _ (hstep s s1 v hr hg hst) h with rfl | hex
        · exact Or.inr ⟨s, s1, v, hr, hg, hst, rfl⟩
        · exact Or.inr hex
    · rw [if_neg hg] at h; cases h; exact Or.inl rfl

/-- what `step` does with the function: that of `doStep`, when the stop condition does not touch it -/
theorem step_fn (A : Algo F τ α) (hstopfn : ∀ s, (A.stop s).1.fn = s.fn) (s : St F τ α) {s' : St F τ α} {v : α}
    (h : A.step s = .ok (s', v)) : ∃ s1, A.doStep s = .ok (s1, v) ∧ s'.fn = s1.fn := by
  obtain ⟨s1, hd, hc⟩ := step_cases A s h
  refine ⟨s1, hd, ?_⟩
  rcases hc with ⟨_, rfl⟩ | ⟨_, rfl⟩
  · rfl
  · exact hstopfn _

/-- what `step` does with the counter: that of `doStep`, when the stop condition does not touch it -/
theorem step_nbEval (A : Algo F τ α) (hm : Monotone A) (s : St F τ α) {s' s1 : St F τ α} {v : α}
    (h : A.step s = .ok (s', v)) (hd : A.doStep s = .ok (s1, v)) : s'.core.nbEval = s1.core.nbEval := by
  obtain ⟨s2, hd2, hc⟩ := step_cases A s h
  rw [hd] at hd2
  simp only [Except.ok.injEq, Prod.mk.injEq] at hd2
  obtain ⟨rfl, -⟩ := hd2
  rcases hc with ⟨_, rfl⟩ | ⟨_, rfl⟩
  · rfl
  · exact (hm.stop_counter _).1

/-- **template lemma of the budget in calls.**  `calls fn` is the number of calls the function object
has received.  If a `doStep` makes at most one call more than it adds to the counter, and the stop
condition touches neither the counter nor the function, then when `optimize` returns either no step was
made (and the function is the one `optimize` was given), or there is a last step, begun in a state `sb`
in which the guard of the loop held, the cap was the one of the beginning, and the calls made since
`optimize` began are fewer than the counter (the invariant of the loop:
`calls u.fn + 1 ≤ calls s.fn + u.core.nbEval`, true at the start where the counter is 1) — hence fewer
than the cap. -/
theorem optimize_calls (A : Algo F τ α) (calls : F → Nat) (hm : Monotone A)
    (hcount : ∀ s s' v, A.doStep s = .ok (s', v) → calls s'.fn + s.core.nbEval ≤ calls s.fn + s'.core.nbEval + 1)
    (hstopfn : ∀ s, (A.stop s).1.fn = s.fn)
    (s s' : St F τ α) (v : α) (fuel : Nat) (h : A.optimize fuel s = .ok (s', v)) :
    (s'.fn = s.fn ∧ s'.core.nbEval = 1) ∨
    ∃ sb sa w, Guard sb ∧ sb.core.nbEvalMax = s.core.nbEvalMax ∧ A.step sb = .ok (sa, w) ∧ s' = bump sa ∧
      calls sb.fn + 1 ≤ calls s.fn + sb.core.nbEval ∧
      calls sb.fn - calls s.fn < s.core.nbEvalMax ∧
      Spec.budgetCalls s.core.nbEvalMax (calls sb.fn - calls s.fn) = true := by
  unfold Algo.optimize at h
  split at h
  · cases h
  · cases hl : A.loop fuel { s with core := { s.core with tol := false, nbEval := 1 } } with
    | error e => rw [hl] at h; cases h
    | ok s1 =>
      rw [hl] at h
      simp only [Except.ok.injEq, Prod.mk.injEq] at h
      obtain ⟨rfl, -⟩ := h
      have key := loop_last_step_inv_bump A
        (fun u => u.core.nbEvalMax = s.core.nbEvalMax ∧ calls u.fn + 1 ≤ calls s.fn + u.core.nbEval)
        (fun u u' w hu _ hst => by
          obtain ⟨u1, hd, hfn⟩ := step_fn A hstopfn u hst
          have hnb := step_nbEval A hm u hst hd
          have hc := hcount u u1 w hd
          refine ⟨?_, ?_⟩
          · show u'.core.nbEvalMax = _
            rw [(step_counter A hm u hst).2]; exact hu.1
          · show calls u'.fn + 1 ≤ calls s.fn + (u'.core.nbEval + 1)
            rw [hfn, hnb]
            have := hu.2
            omega)
        fuel { s with core := { s.core with tol := false, nbEval := 1 } } s1 ⟨rfl, Nat.le_refl _⟩ hl
      rcases key with rfl | ⟨sb, sa, w, hR, hg, hst, rfl⟩
      · exact Or.inl ⟨rfl, rfl⟩
      · right
        have hlt : sb.core.nbEval < s.core.nbEvalMax := by rw [← hR.1]; exact hg.1
        have h2 := hR.2
        have h3 : calls sb.fn - calls s.fn < s.core.nbEvalMax := by omega
        refine ⟨sb, sa, w, hg, hR.1, hst, rfl, h2, h3, ?_⟩
        unfold Spec.budgetCalls
        exact decide_eq_true (Nat.le_of_lt h3)

/-- **the counter is exact** when every `doStep` makes exactly one call more than it adds to the counter:
when `optimize` returns, `nbEval_` is the number of calls made since `optimize` began, plus one -/
theorem optimize_calls_exact (A : Algo F τ α) (calls : F → Nat) (hm : Monotone A)
    (hcount : ∀ s s' v, A.doStep s = .ok (s', v) → calls s'.fn + s.core.nbEval = calls s.fn + s'.core.nbEval + 1)
    (hstopfn : ∀ s, (A.stop s).1.fn = s.fn)
    (s s' : St F τ α) (v : α) (fuel : Nat) (h : A.optimize fuel s = .ok (s', v)) :
    calls s'.fn + 1 = calls s.fn + s'.core.nbEval := by
  unfold Algo.optimize at h
  split at h
  · cases h
  · cases hl : A.loop fuel { s with core := { s.core with tol := false, nbEval := 1 } } with
    | error e => rw [hl] at h; cases h
    | ok s1 =>
      rw [hl] at h
      simp only [Except.ok.injEq, Prod.mk.injEq] at h
      obtain ⟨rfl, -⟩ := h
      have hstep : ∀ (u u' : St F τ α) (w : α), calls u.fn + 1 = calls s.fn + u.core.nbEval → Guard u →
          A.step u = .ok (u', w) → calls (bump u').fn + 1 = calls s.fn + (bump u').core.nbEval := by
        intro u u' w hu _ hst
        obtain ⟨u1, hd, hfn⟩ := step_fn A hstopfn u hst
        have hnb := step_nbEval A hm u hst hd
        have hc := hcount u u1 w hd
        show calls u'.fn + 1 = calls s.fn + (u'.core.nbEval + 1)
        rw [hfn, hnb]
        omega
      have key := loop_last_step_inv_bump A (fun u => calls u.fn + 1 = calls s.fn + u.core.nbEval) hstep
        fuel { s with core := { s.core with tol := false, nbEval := 1 } } s1 rfl hl
      rcases key with rfl | ⟨sb, sa, w, hR, hg, hst, rfl⟩
      · rfl
      · exact hstep sb sa w hR hg hst

end template

/-! ### function objects that count their calls -/

variable {F : Type}

/-- every `f` and every `setParameters` of the function object is one call, whether it returns or
throws (the exception carries the function as the call left it) -/
structure Counts (I : FunI F ℝ) (calls : F → Nat) : Prop where
  f_ok : ∀ fn pl fn' v, I.f fn pl = .ok (fn', v) → calls fn' = calls fn + 1
  f_err : ∀ fn pl e fn', I.f fn pl = .error (e, fn') → calls fn' = calls fn + 1
  set_ok : ∀ fn pl fn', I.setParameters fn pl = .ok fn' → calls fn' = calls fn + 1
  set_err : ∀ fn pl e fn', I.setParameters fn pl = .error (e, fn') → calls fn' = calls fn + 1

/-- the objective of the harness logs every call, including the one at which it throws `cap` -/
theorem objective_counts (obj : List ℝ → ℝ) (D : Deriv ℝ) (cap : Option Nat) :
    Counts (Fn.iface obj D cap) (fun fn => fn.log.length) := by
  refine ⟨?_, ?_, ?_, ?_⟩
  · intro fn pl fn' v h
    simp only [Fn.iface] at h
    split at h
    · cases h
    · simp only [Except.ok.injEq] at h
      have : fn' = (fn.f obj pl).1 := by rw [h]
      rw [this]; rfl
  · intro fn pl e fn' h
    simp only [Fn.iface] at h
    split at h
    · simp only [Except.error.injEq, Prod.mk.injEq] at h
      rw [← h.2]; rfl
    · cases h
  · intro fn pl fn' h
    simp only [Fn.iface] at h
    split at h
    · cases h
    · simp only [Except.ok.injEq] at h
      rw [← h]; rfl
  · intro fn pl e fn' h
    simp only [Fn.iface] at h
    split at h
    · simp only [Except.error.injEq, Prod.mk.injEq] at h
      rw [← h.2]; rfl
    · cases h

variable {I : FunI F ℝ} {calls : F → Nat}

/-- the counter of a `DirectionFunction` is exact: `L0` calls had been made when it was initialised -/
def DirCount (calls : F → Nat) (L0 : Nat) (df : DirFn F ℝ) : Prop := calls df.inner = L0 + df.nbEval

theorem dirFn_setParameters_ok (hc : Counts I calls) (L0 : Nat) (df df' : DirFn F ℝ) (pl : PList ℝ)
    (hQ : DirCount calls L0 df) (h : df.setParameters I pl = .ok df') : DirCount calls L0 df' := by
  unfold DirFn.setParameters at h
  dsimp only at h
  split at h
  · cases h
  · split at h
    · cases h
    · split at h
      · cases h
      · rename_i xt' _ fn hs
        simp only [Except.ok.injEq] at h
        subst h
        have := hc.set_ok _ _ _ hs
        unfold DirCount at hQ ⊢
        show calls fn = L0 + (df.nbEval + 1)
        rw [this, hQ]; omega

theorem dirFn_setParameters_err (hc : Counts I calls) (L0 : Nat) (df df' : DirFn F ℝ) (pl : PList ℝ) (e : Exc)
    (hQ : DirCount calls L0 df) (h : df.setParameters I pl = .error (e, df')) : DirCount calls L0 df' := by
  unfold DirFn.setParameters at h
  dsimp only at h
  split at h
  · simp only [Except.error.injEq, Prod.mk.injEq] at h
    rw [← h.2]; exact hQ
  · split at h
    · simp only [Except.error.injEq, Prod.mk.injEq] at h
      rw [← h.2]; exact hQ
    · split at h
      · rename_i xt' _ e1 fn hs
        simp only [Except.error.injEq, Prod.mk.injEq] at h
        rw [← h.2]
        have := hc.set_err _ _ _ _ hs
        unfold DirCount at hQ ⊢
        show calls fn = L0 + (df.nbEval + 1)
        rw [this, hQ]; omega
      · cases h

/-- **the counter of a `DirectionFunction` is exact**, whatever the lists it is given -/
theorem dirFn_counts_safe (hc : Counts I calls) (L0 : Nat) :
    Safe (DirFn.iface I) (DirCount calls L0) (fun _ => True) := by
  refine ⟨?_, ?_, fun _ _ _ _ _ _ => trivial⟩
  · intro df pl df' v hQ _ h
    simp only [DirFn.iface] at h
    split at h
    · cases h
    · rename_i df1 hs
      simp only [Except.ok.injEq, Prod.mk.injEq] at h
      rw [← h.1]; exact dirFn_setParameters_ok hc L0 df df1 pl hQ hs
  · intro df pl e df' hQ _ h
    simp only [DirFn.iface] at h
    split at h
    · rename_i e1 hs
      simp only [Except.error.injEq] at h
      subst h
      exact dirFn_setParameters_err hc L0 df df' pl e hQ hs
    · cases h

/-! ### the two searches along a direction -/

theorem dirCount_init (fn : F) (pol : Policy) (p : PList ℝ) (xi : List ℝ) :
    DirCount calls (calls fn) (DirFn.init fn pol p xi) := by
  show calls fn = calls fn + 0
  rfl

/-- **`lineMinimization` counts exactly**: the figure it returns is the number of calls it made; an
exception carries a function that has received at least the calls made before -/
theorem lineMinimization_count (hc : Counts I calls) (fuel : Nat) (fn : F) (parameters : PList ℝ) (xi : List ℝ) :
    ROk (fun fn' => calls fn ≤ calls fn') (fun r => calls r.1 = calls fn + r.2.2.2)
      (lineMinimization I fuel fn parameters xi) := by
  unfold lineMinimization
  dsimp only
  have hs := dirFn_counts_safe hc (calls fn)
  have h1 := init_safe (brent_safeAlgo hs fuel) (lineBrent (DirFn.init fn .auto parameters xi)) xParam
    (dirCount_init fn .auto parameters xi) trivial
  split
  · rename_i e df he
    rw [he] at h1
    have h1' : calls df.inner = calls fn + df.nbEval := h1
    show calls fn ≤ calls df.inner
    omega
  · rename_i bod he
    rw [he] at h1
    have h2 := brentOptimize_safe hs fuel bod h1.1 h1.2
    split
    · rename_i e df he2
      rw [he2] at h2
      have h2' : calls df.inner = calls fn + df.nbEval := h2
      show calls fn ≤ calls df.inner
      omega
    · rename_i bod2 v he2
      rw [he2] at h2
      have h2' : calls bod2.fn.inner = calls fn + bod2.fn.nbEval := h2.1
      split
      · show calls fn ≤ calls bod2.fn.inner
        omega
      · split
        · show calls fn ≤ calls bod2.fn.inner
          omega
        · exact h2'

theorem lineMinimization_calls (hc : Counts I calls) {fuel : Nat} {fn fn' : F} {parameters pl : PList ℝ} {xi xi' : List ℝ}
    {k : Nat} (h : lineMinimization I fuel fn parameters xi = .ok (fn', pl, xi', k)) : calls fn' = calls fn + k := by
  have := lineMinimization_count hc fuel fn parameters xi
  rw [h] at this; exact this

theorem lineMinimization_calls_error (hc : Counts I calls) {fuel : Nat} {fn fn' : F} {parameters : PList ℝ} {xi : List ℝ}
    {e : Exc} (h : lineMinimization I fuel fn parameters xi = .error (e, fn')) : calls fn ≤ calls fn' := by
  have := lineMinimization_count hc fuel fn parameters xi
  rw [h] at this; exact this

/-! ### Newton backtracking evaluates the function through its own list only -/

section nback
variable {Q : F → Prop} {T : PList ℝ → Prop}

theorem nbackDoInit_safe (hs : Safe I Q T) (s : St F (NBack ℝ) ℝ) (params : PList ℝ) (hQ : Q s.fn) (hT : T s.core.params) :
    ROk Q (fun r => Q r.fn ∧ T r.core.params) (nbackDoInit I s params) := by
  unfold nbackDoInit
  split
  · exact hQ
  · split
    · rename_i e he; obtain ⟨e1, fn1⟩ := e; exact hs.f_err _ _ _ _ hQ hT he
    · rename_i fn1 v he
      exact ⟨hs.f_ok _ _ _ _ hQ hT he, hT⟩

theorem nbackDoStep_safe (hs : Safe I Q T) (s : St F (NBack ℝ) ℝ) (hQ : Q s.fn) (hT : T s.core.params) :
    ROk Q (fun r => Q r.1.fn ∧ T r.1.core.params) (nbackDoStep I s) := by
  unfold nbackDoStep
  dsimp only
  split
  · split
    · rename_i e he; exact evalOwn_safe' hs he hQ hT
    · rename_i s1 v he
      have h1 := evalOwn_safe' hs he hQ hT
      exact ⟨h1.1, h1.2.1⟩
  · split
    · rename_i e he; exact evalOwn_safe' hs he hQ hT
    · rename_i s1 f he
      have h1 := evalOwn_safe' hs he hQ hT
      split
      · exact ⟨h1.1, h1.2.1⟩
      · split
        · exact ⟨h1.1, h1.2.1⟩
        · exact ⟨h1.1, h1.2.1⟩

theorem nback_safeAlgo (hs : Safe I Q T) : SafeAlgo (nbackAlgo I) Q T :=
  { doInit := fun s params hQ hT => nbackDoInit_safe hs s params hQ hT,
    doStep := fun s hQ hT => nbackDoStep_safe hs s hQ hT,
    stopInit := fun _ => ⟨rfl, rfl⟩,
    stop := fun _ => ⟨rfl, rfl⟩ }

end nback

/-- **`lineSearch` counts exactly** -/
theorem lineSearch_count (hc : Counts I calls) (fuel : Nat) (fn : F) (parameters : PList ℝ) (xi gradient : List ℝ) :
    ROk (fun fn' => calls fn ≤ calls fn') (fun r => calls r.1 = calls fn + r.2.2.2)
      (lineSearch I fuel fn parameters xi gradient) := by
  unfold lineSearch
  dsimp only
  have hs := dirFn_counts_safe hc (calls fn)
  have h1 := init_safe (nback_safeAlgo hs)
    (lineNBack (DirFn.init fn .auto parameters xi) (dotFrom Scalar.zero xi gradient) (lsTest Scalar.zero parameters xi)) xParam
    (dirCount_init fn .auto parameters xi) trivial
  split
  · rename_i e df he
    rw [he] at h1
    have h1' : calls df.inner = calls fn + df.nbEval := h1
    show calls fn ≤ calls df.inner
    omega
  · rename_i nb he
    rw [he] at h1
    have h2 := optimize_safe (nback_safeAlgo hs) fuel nb h1.1 h1.2
    split
    · rename_i e df he2
      rw [he2] at h2
      have h2' : calls df.inner = calls fn + df.nbEval := h2
      show calls fn ≤ calls df.inner
      omega
    · rename_i nb2 v he2
      rw [he2] at h2
      have h2' : calls nb2.fn.inner = calls fn + nb2.fn.nbEval := h2.1
      split
      · show calls fn ≤ calls nb2.fn.inner
        omega
      · split
        · show calls fn ≤ calls nb2.fn.inner
          omega
        · exact h2'

theorem lineSearch_calls (hc : Counts I calls) {fuel : Nat} {fn fn' : F} {parameters pl : PList ℝ} {xi xi' gradient : List ℝ}
    {k : Nat} (h : lineSearch I fuel fn parameters xi gradient = .ok (fn', pl, xi', k)) : calls fn' = calls fn + k := by
  have := lineSearch_count hc fuel fn parameters xi gradient
  rw [h] at this; exact this

theorem lineSearch_calls_error (hc : Counts I calls) {fuel : Nat} {fn fn' : F} {parameters : PList ℝ} {xi gradient : List ℝ}
    {e : Exc} (h : lineSearch I fuel fn parameters xi gradient = .error (e, fn')) : calls fn ≤ calls fn' := by
  have := lineSearch_count hc fuel fn parameters xi gradient
  rw [h] at this; exact this

/-! ### Powell, conjugate gradient, BFGS: what a step does to the function and to the counter

One pass over each `doStep` serves twice.  `R a b k` reads "from the function `a` to the function `b`,
`k` calls were made": with `R := fun _ _ _ => True` the lemmas give `Monotone` (for every scalar type and
every function object), with `R a b k := calls b = calls a + k` they give the count. -/

section tally
variable {α : Type} [Scalar α] {G : Type}

structure Tally (I : FunI G α) (R : G → G → Nat → Prop) : Prop where
  refl : ∀ a, R a a 0
  trans : ∀ a b c j k, R a b j → R b c k → R a c (j + k)
  f_ok : ∀ fn pl fn' v, I.f fn pl = .ok (fn', v) → R fn fn' 1
  set_ok : ∀ fn pl fn', I.setParameters fn pl = .ok fn' → R fn fn' 1
  lineMin : ∀ fuel fn p xi fn' pl xi' k, lineMinimization I fuel fn p xi = .ok (fn', pl, xi', k) → R fn fn' k
  lineSrch : ∀ fuel fn p xi g fn' pl xi' k, lineSearch I fuel fn p xi g = .ok (fn', pl, xi', k) → R fn fn' k

theorem tally_trivial (I : FunI G α) : Tally I (fun _ _ _ => True) :=
  ⟨fun _ => trivial, fun _ _ _ _ _ _ _ => trivial, fun _ _ _ _ _ => trivial, fun _ _ _ _ => trivial,
   fun _ _ _ _ _ _ _ _ _ => trivial, fun _ _ _ _ _ _ _ _ _ _ => trivial⟩

variable {I : FunI G α} {R : G → G → Nat → Prop}

theorem Tally.cast (_ht : Tally I R) {a b : G} {j k : Nat} (h : R a b j) (e : j = k) : R a b k := e ▸ h

theorem powellDirs_tally (ht : Tally I R) (fuel : Nat) : ∀ (is : List Nat) (s : St G (Powell α) α) (del : α) (ibig : Nat)
    (s' : St G (Powell α) α) (del' : α) (ibig' : Nat), powellDirs I fuel is s del ibig = .ok (s', del', ibig') →
    ∃ k, R s.fn s'.fn k ∧ s'.core.nbEval = s.core.nbEval + k ∧ s'.core.nbEvalMax = s.core.nbEvalMax := by
  intro is
  induction is with
  | nil =>
    intro s del ibig s' del' ibig' h
    rw [powellDirs] at h
    simp only [Except.ok.injEq, Prod.mk.injEq] at h
    obtain ⟨rfl, -, -⟩ := h
    exact ⟨0, ht.refl _, rfl, rfl⟩
  | cons i r ih =>
    intro s del ibig s' del' ibig' h
    rw [powellDirs] at h
    split at h
    · cases h
    · rename_i xit _
      try dsimp only at h
      split at h
      · cases h
      · rename_i fn pl xi' k hlm
        try dsimp only at h
        split at h
        · cases h
        · rename_i fn2 fret hf
          try dsimp only at h
          have h1 := ht.lineMin _ _ _ _ _ _ _ _ hlm
          have h2 := ht.f_ok _ _ _ _ hf
          split at h
          · cases h
          · split at h
            · obtain ⟨k2, hR, hnb, hmax⟩ := ih _ _ _ _ _ _ h
              dsimp only at hR hnb hmax
              exact ⟨k + 1 + k2, ht.trans _ _ _ _ _ (ht.trans _ _ _ _ _ h1 h2) hR, by omega, hmax⟩
            · obtain ⟨k2, hR, hnb, hmax⟩ := ih _ _ _ _ _ _ h
              dsimp only at hR hnb hmax
              exact ⟨k + 1 + k2, ht.trans _ _ _ _ _ (ht.trans _ _ _ _ _ h1 h2) hR, by omega, hmax⟩

/-- a step of Powell's method: `k + 1` calls are made, `k` are added to the counter (the one that is
not counted is the evaluation at the extrapolated point `ptt`) -/
theorem powellDoStep_tally (ht : Tally I R) (fuel : Nat) (s s' : St G (Powell α) α) (v : α)
    (h : powellDoStep I fuel s = .ok (s', v)) :
    ∃ k, R s.fn s'.fn (k + 1) ∧ s'.core.nbEval = s.core.nbEval + k ∧ s'.core.nbEvalMax = s.core.nbEvalMax := by
  unfold powellDoStep at h
  try dsimp only at h
  split at h
  · cases h
  · rename_i s1 del ibig hd
    obtain ⟨k1, hR1, hnb1, hmax1⟩ := powellDirs_tally ht fuel _ _ _ _ _ _ _ hd
    try dsimp only at hR1 hnb1 hmax1
    split at h
    · cases h
    · rename_i ptt xit pt' _
      try dsimp only at h
      split at h
      · cases h
      · rename_i fn fptt hf
        have h2 := ht.f_ok _ _ _ _ hf
        try dsimp only at h
        split at h
        · split at h
          · split at h
            · cases h
            · rename_i fn3 pl3 xit3 k3 hlm
              have h3 := ht.lineMin _ _ _ _ _ _ _ _ hlm
              try dsimp only at h
              split at h
              · cases h
              · rename_i fn4 fret4 hf4
                have h4 := ht.f_ok _ _ _ _ hf4
                try dsimp only at h
                split at h
                · cases h
                · simp only [Except.ok.injEq, Prod.mk.injEq] at h
                  obtain ⟨rfl, -⟩ := h
                  refine ⟨k1 + k3 + 1, ?_, ?_, hmax1⟩
                  · exact ht.cast (ht.trans _ _ _ _ _ (ht.trans _ _ _ _ _ (ht.trans _ _ _ _ _ hR1 h2) h3) h4) (by omega)
                  · show s1.core.nbEval + k3 + 1 = _
                    omega
          · split at h
            · cases h
            · rename_i fn3 hs3
              have h3 := ht.set_ok _ _ _ hs3
              simp only [Except.ok.injEq, Prod.mk.injEq] at h
              obtain ⟨rfl, -⟩ := h
              refine ⟨k1 + 1, ?_, ?_, hmax1⟩
              · exact ht.cast (ht.trans _ _ _ _ _ (ht.trans _ _ _ _ _ hR1 h2) h3) (by omega)
              · show s1.core.nbEval + 1 = _
                omega
        · split at h
          · cases h
          · rename_i fn3 hs3
            have h3 := ht.set_ok _ _ _ hs3
            simp only [Except.ok.injEq, Prod.mk.injEq] at h
            obtain ⟨rfl, -⟩ := h
            refine ⟨k1 + 1, ?_, ?_, hmax1⟩
            · exact ht.cast (ht.trans _ _ _ _ _ (ht.trans _ _ _ _ _ hR1 h2) h3) (by omega)
            · show s1.core.nbEval + 1 = _
              omega

/-- a step of the conjugate gradient method: the line minimisation (counted) and one evaluation more -/
theorem cgDoStep_tally (ht : Tally I R) (fuel : Nat) (s s' : St G (Cg α) α) (v : α)
    (h : cgDoStep I fuel s = .ok (s', v)) :
    ∃ k, R s.fn s'.fn (k + 1) ∧ s'.core.nbEval = s.core.nbEval + k ∧ s'.core.nbEvalMax = s.core.nbEvalMax := by
  unfold cgDoStep at h
  split at h
  · cases h
  · rename_i fn pl xi' k hlm
    have h1 := ht.lineMin _ _ _ _ _ _ _ _ hlm
    try dsimp only at h
    split at h
    · cases h
    · rename_i fn2 f hf
      have h2 := ht.f_ok _ _ _ _ hf
      have hR := ht.trans _ _ _ _ _ h1 h2
      try dsimp only at h
      refine ⟨k, ?_⟩
      split at h
      · simp only [Except.ok.injEq, Prod.mk.injEq] at h
        obtain ⟨rfl, -⟩ := h
        exact ⟨hR, rfl, rfl⟩
      · split at h
        · cases h
        · rename_i grad _
          try dsimp only at h
          split at h
          · simp only [Except.ok.injEq, Prod.mk.injEq] at h
            obtain ⟨rfl, -⟩ := h
            exact ⟨hR, rfl, rfl⟩
          · split at h
            · simp only [Except.ok.injEq, Prod.mk.injEq] at h
              obtain ⟨rfl, -⟩ := h
              exact ⟨hR, rfl, rfl⟩
            · simp only [Except.ok.injEq, Prod.mk.injEq] at h
              obtain ⟨rfl, -⟩ := h
              exact ⟨hR, rfl, rfl⟩

/-- a step of the BFGS method: the line search (counted) and one evaluation more; when the function has
increased, a further evaluation back at the point the step started from, which is counted -/
theorem bfgsDoStep_tally (ht : Tally I R) (fuel : Nat) (s s' : St G (Bfgs α) α) (v : α)
    (h : bfgsDoStep I fuel s = .ok (s', v)) :
    ∃ k, R s.fn s'.fn (k + 1) ∧ s'.core.nbEval = s.core.nbEval + k ∧ s'.core.nbEvalMax = s.core.nbEvalMax := by
  unfold bfgsDoStep at h
  try dsimp only at h
  split at h
  · cases h
  · rename_i fn pl xi' k hls
    have h1 := ht.lineSrch _ _ _ _ _ _ _ _ _ hls
    try dsimp only at h
    split at h
    · cases h
    · rename_i fn2 f hf
      have h2 := ht.f_ok _ _ _ _ hf
      have hR := ht.trans _ _ _ _ _ h1 h2
      try dsimp only at h
      split at h
      · split at h
        · cases h
        · rename_i pl0 _
          try dsimp only at h
          split at h
          · cases h
          · rename_i fn3 f0 hf3
            have h3 := ht.f_ok _ _ _ _ hf3
            simp only [Except.ok.injEq, Prod.mk.injEq] at h
            obtain ⟨rfl, -⟩ := h
            exact ⟨k + 1, ht.trans _ _ _ _ _ hR h3, rfl, rfl⟩
      · refine ⟨k, ?_⟩
        split at h
        · simp only [Except.ok.injEq, Prod.mk.injEq] at h
          obtain ⟨rfl, -⟩ := h
          exact ⟨hR, rfl, rfl⟩
        · split at h
          · cases h
          · rename_i grad _
            try dsimp only at h
            split at h
            · simp only [Except.ok.injEq, Prod.mk.injEq] at h
              obtain ⟨rfl, -⟩ := h
              exact ⟨hR, rfl, rfl⟩
            · simp only [Except.ok.injEq, Prod.mk.injEq] at h
              obtain ⟨rfl, -⟩ := h
              exact ⟨hR, rfl, rfl⟩

/-! #### the stop conditions touch neither the function nor the counters -/

theorem powellStop_keeps (s : St G (Powell α) α) :
    (powellStop s).1.fn = s.fn ∧ (powellStop s).1.core.nbEval = s.core.nbEval ∧
    (powellStop s).1.core.nbEvalMax = s.core.nbEvalMax := by
  unfold powellStop; dsimp only; split <;> exact ⟨rfl, rfl, rfl⟩

theorem fscStop_keeps {τ : Type} (s : St G τ α) :
    (fscStop s).1.fn = s.fn ∧ (fscStop s).1.core.nbEval = s.core.nbEval ∧
    (fscStop s).1.core.nbEvalMax = s.core.nbEvalMax := by
  unfold fscStop; dsimp only; split <;> exact ⟨rfl, rfl, rfl⟩

/-! #### `Monotone`: for every scalar type and every function object -/

theorem powellAlgo_monotone (I : FunI G α) (fuel : Nat) : Monotone (powellAlgo I fuel) :=
  ⟨fun s s' v h => by
      obtain ⟨k, -, hnb, hmax⟩ := powellDoStep_tally (tally_trivial I) fuel s s' v h
      exact ⟨by omega, hmax⟩,
   fun s => ⟨(powellStop_keeps s).2.1, (powellStop_keeps s).2.2⟩⟩

theorem cgAlgo_monotone (I : FunI G α) (fuel : Nat) : Monotone (cgAlgo I fuel) :=
  ⟨fun s s' v h => by
      obtain ⟨k, -, hnb, hmax⟩ := cgDoStep_tally (tally_trivial I) fuel s s' v h
      exact ⟨by omega, hmax⟩,
   fun s => ⟨(fscStop_keeps s).2.1, (fscStop_keeps s).2.2⟩⟩

theorem bfgsAlgo_monotone (I : FunI G α) (fuel : Nat) : Monotone (bfgsAlgo I fuel) :=
  ⟨fun s s' v h => by
      obtain ⟨k, -, hnb, hmax⟩ := bfgsDoStep_tally (tally_trivial I) fuel s s' v h
      exact ⟨by omega, hmax⟩,
   fun s => ⟨(fscStop_keeps s).2.1, (fscStop_keeps s).2.2⟩⟩

end tally

/-! #### the count: a step makes exactly one call more than it adds to the counter -/

theorem tally_counts (hc : Counts I calls) : Tally I (fun a b k => calls b = calls a + k) :=
  ⟨fun _ => rfl, fun a b c j k h1 h2 => by rw [h2, h1]; omega,
   fun fn pl fn' v h => hc.f_ok fn pl fn' v h, fun fn pl fn' h => hc.set_ok fn pl fn' h,
   fun _ _ _ _ _ _ _ _ h => lineMinimization_calls hc h, fun _ _ _ _ _ _ _ _ _ h => lineSearch_calls hc h⟩

/-- Powell: the call that is not counted is the evaluation at the extrapolated point `ptt` -/
theorem powellDoStep_calls (hc : Counts I calls) (fuel : Nat) (s s' : St F (Powell ℝ) ℝ) (v : ℝ)
    (h : powellDoStep I fuel s = .ok (s', v)) :
    calls s'.fn + s.core.nbEval = calls s.fn + s'.core.nbEval + 1 := by
  obtain ⟨k, hR, hnb, -⟩ := powellDoStep_tally (tally_counts hc) fuel s s' v h
  have hR' : calls s'.fn = calls s.fn + (k + 1) := hR
  omega

/-- conjugate gradient: the call that is not counted is the evaluation after the line minimisation -/
theorem cgDoStep_calls (hc : Counts I calls) (fuel : Nat) (s s' : St F (Cg ℝ) ℝ) (v : ℝ)
    (h : cgDoStep I fuel s = .ok (s', v)) :
    calls s'.fn + s.core.nbEval = calls s.fn + s'.core.nbEval + 1 := by
  obtain ⟨k, hR, hnb, -⟩ := cgDoStep_tally (tally_counts hc) fuel s s' v h
  have hR' : calls s'.fn = calls s.fn + (k + 1) := hR
  omega

/-- BFGS: the call that is not counted is the evaluation after the line search -/
theorem bfgsDoStep_calls (hc : Counts I calls) (fuel : Nat) (s s' : St F (Bfgs ℝ) ℝ) (v : ℝ)
    (h : bfgsDoStep I fuel s = .ok (s', v)) :
    calls s'.fn + s.core.nbEval = calls s.fn + s'.core.nbEval + 1 := by
  obtain ⟨k, hR, hnb, -⟩ := bfgsDoStep_tally (tally_counts hc) fuel s s' v h
  have hR' : calls s'.fn = calls s.fn + (k + 1) := hR
  omega

/-- `PowellMultiDimensions::optimize` makes exactly one call after the template's loop -/
theorem powellOptimize_calls (hc : Counts I calls) (fuel : Nat) (s s' : St F (Powell ℝ) ℝ) (v : ℝ)
    (h : powellOptimize I fuel s = .ok (s', v)) :
    ∃ s1 v1, (powellAlgo I fuel).optimize fuel s = .ok (s1, v1) ∧ calls s'.fn = calls s1.fn + 1 ∧ s'.core = s1.core := by
  unfold powellOptimize at h
  split at h
  · cases h
  · rename_i s1 v1 ho
    try dsimp only at h
    split at h
    · cases h
    · rename_i fn v2 hf
      simp only [Except.ok.injEq, Prod.mk.injEq] at h
      obtain ⟨rfl, -⟩ := h
      exact ⟨s1, v1, ho, hc.f_ok _ _ _ _ hf, rfl⟩

/-! ### on the objective of the harness: the calls are the length of the log -/

section objective
variable (obj : List ℝ → ℝ) (D : Deriv ℝ) (cap : Option Nat)

/-- a `DirectionFunction` around the objective: `inner.log.length = L0 + nbEval` is kept by every
`f` / `setParameters`, in the error branches too (the function a `cap` exception carries has logged the
point) -/
theorem objective_dirFn_safe (L0 : Nat) :
    Safe (DirFn.iface (Fn.iface obj D cap)) (fun df => df.inner.log.length = L0 + df.nbEval) (fun _ => True) :=
  dirFn_counts_safe (objective_counts obj D cap) L0

theorem lineMinimization_log {fuel : Nat} {fn fn' : Fn ℝ} {parameters pl : PList ℝ} {xi xi' : List ℝ} {k : Nat}
    (h : lineMinimization (Fn.iface obj D cap) fuel fn parameters xi = .ok (fn', pl, xi', k)) :
    fn'.log.length = fn.log.length + k :=
  lineMinimization_calls (objective_counts obj D cap) h

theorem lineMinimization_log_error {fuel : Nat} {fn fn' : Fn ℝ} {parameters : PList ℝ} {xi : List ℝ} {e : Exc}
    (h : lineMinimization (Fn.iface obj D cap) fuel fn parameters xi = .error (e, fn')) :
    fn.log.length ≤ fn'.log.length :=
  lineMinimization_calls_error (objective_counts obj D cap) h

theorem lineSearch_log {fuel : Nat} {fn fn' : Fn ℝ} {parameters pl : PList ℝ} {xi xi' gradient : List ℝ} {k : Nat}
    (h : lineSearch (Fn.iface obj D cap) fuel fn parameters xi gradient = .ok (fn', pl, xi', k)) :
    fn'.log.length = fn.log.length + k :=
  lineSearch_calls (objective_counts obj D cap) h

theorem lineSearch_log_error {fuel : Nat} {fn fn' : Fn ℝ} {parameters : PList ℝ} {xi gradient : List ℝ} {e : Exc}
    (h : lineSearch (Fn.iface obj D cap) fuel fn parameters xi gradient = .error (e, fn')) :
    fn.log.length ≤ fn'.log.length :=
  lineSearch_calls_error (objective_counts obj D cap) h

end objective

end Bpp.Optim
