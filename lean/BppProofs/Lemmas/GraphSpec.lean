import BppProofs.Lemmas.GraphRefine
/-! Helper lemmas for C14: the implementation model refines the reference multigraph (`Graph.Spec`). -/
set_option linter.unusedSimpArgs false
set_option linter.unusedVariables false
set_option linter.unusedSectionVars false
namespace Bpp
namespace Graph
open AL
namespace G

/-! ### reading the reference from `abs g` -/

theorem abs_hasNode (g : G) (n : Nat) : g.abs.hasNode n = g.hasNode n := by
  simp only [Spec.hasNode, G.abs, G.hasNode, has]
  rcases find_cases n g.nodes with hf | ⟨r, hf⟩
  · have : n ∉ AL.keys g.nodes := fun h => by have := (mem_keys_iff n g.nodes).mp h; simp [hf] at this
    simp [hf, this]
  · have : n ∈ AL.keys g.nodes := (mem_keys_iff n g.nodes).mpr (by simp [hf])
    simp [hf, this]

/-- the edge table *is* the list of triples of the reference (`(e, (a, b))` and `(e, a, b)` are the same term) -/
theorem abs_edges (g : G) : g.abs.edges = g.edges := by
  simp only [G.abs]
  exact List.map_id' _

theorem abs_edgeNodes (g : G) (e : Nat) : g.abs.edgeNodes e = find e g.edges := by
  simp only [Spec.edgeNodes, abs_edges]
  generalize g.edges = l
  induction l with
  | nil => simp [find]
  | cons p r ih =>
    obtain ⟨e', a, b⟩ := p
    simp only [List.find?_cons, find]
    by_cases h : e' = e
    · simp [h]
    · simp [h, ih]

theorem mem_abs_edges (g : G) (hs : Sorted g) (e a b : Nat) : (e, a, b) ∈ g.abs.edges ↔ find e g.edges = some (a, b) := by
  simp only [G.abs, List.mem_map]
  constructor
  · rintro ⟨⟨e', a', b'⟩, hm, h⟩
    injection h with h1 h; injection h with h2 h3; subst h1; subst h2; subst h3
    exact (mem_iff_find hs.edges _ _).mp hm
  · intro h; exact ⟨(e, (a, b)), find_some_mem h, rfl⟩

/-- in a consistent graph the reference finds the edge between two nodes exactly where the node
table has it -/
theorem abs_edgeBetween {g : G} (hc : Consistent g) (a b : Nat) : g.abs.edgeBetween a b = g.outE a b := by
  have hd : g.abs.directed = g.directed := rfl
  unfold Spec.edgeBetween
  rw [hd]
  -- every triple that relates a to b carries the edge of the node table
  have hrel : ∀ t ∈ g.abs.edges, Spec.relates g.directed a b t = true → g.outE a b = some t.1 := by
    intro t ht hr
    obtain ⟨e, x, y⟩ := t
    have hE := (mem_abs_edges g hc.sorted e x y).mp ht
    have hl := hc.views.edge_listed e x y hE
    simp only [Spec.relates, Bool.or_eq_true, Bool.and_eq_true, decide_eq_true_eq, Bool.not_eq_true'] at hr
    rcases hr with ⟨rfl, rfl⟩ | ⟨⟨hd, rfl⟩, rfl⟩
    · exact hl.1
    · exact (hl.2.2 hd).1
  rcases hO : g.outE a b with _ | e
  · have : g.abs.edges.find? (Spec.relates g.directed a b) = none := by
      apply List.find?_eq_none.mpr
      intro t ht hr
      have := hrel t ht hr; rw [hO] at this; cases this
    simp [this]
  · -- the edge of the node table is in the edge table, and relates a to b
    have hE := hc.views.out_edge a b e hO
    have hex : ∃ t ∈ g.abs.edges, Spec.relates g.directed a b t = true := by
      rcases hE with hE | ⟨hd, hE⟩
      · exact ⟨(e, a, b), (mem_abs_edges g hc.sorted e a b).mpr hE, by simp [Spec.relates]⟩
      · exact ⟨(e, b, a), (mem_abs_edges g hc.sorted e b a).mpr hE, by simp [Spec.relates, hd]⟩
    rcases hf : g.abs.edges.find? (Spec.relates g.directed a b) with _ | t
    · obtain ⟨t, ht, hr⟩ := hex
      exact absurd hr (by simpa using List.find?_eq_none.mp hf t ht)
    · have hr := List.find?_some hf
      have hm := List.mem_of_find?_eq_some hf
      have := hrel t hm hr
      rw [hO] at this; injection this with this
      simp [this]

/-! ### rows: the node table holds exactly what the reference recomputes from the edge triples -/

/-- first value recorded for key `k` in a list of `(key, value)` insertions -/
def firstP : List (Nat × Nat) → Nat → Option Nat
  | [], _ => none
  | (k', v) :: r, k => if k' = k then some v else firstP r k

theorem find_foldl_insertNew (L : List (Nat × Nat)) (acc : List (Nat × Nat)) (k : Nat) :
    find k (L.foldl (fun acc p => AL.insertNew p.1 p.2 acc) acc) = (find k acc).orElse (fun _ => firstP L k) := by
  induction L generalizing acc with
  | nil => simp [firstP]
  | cons p r ih =>
    obtain ⟨k', v⟩ := p
    simp only [List.foldl_cons, ih, find_insertNew, firstP]
    by_cases h : k' = k
    · subst h; cases hf : find k' acc <;> simp [hf]
    · simp [h]

theorem asc_foldl_insertNew (L : List (Nat × Nat)) (acc : List (Nat × Nat)) (h : Asc acc) :
    Asc (L.foldl (fun acc p => AL.insertNew p.1 p.2 acc) acc) := by
  induction L generalizing acc with
  | nil => exact h
  | cons p r ih => exact ih _ (asc_insertNew _ _ _ h)

/-- the insertions `outPairs` makes, as a plain list -/
def outIns (d : Bool) (n : Nat) (es : List (Nat × Nat × Nat)) : List (Nat × Nat) :=
  es.filterMap (fun t => if t.2.1 = n then some (t.2.2, t.1) else if !d && t.2.2 = n then some (t.2.1, t.1) else none)

def inIns (d : Bool) (n : Nat) (es : List (Nat × Nat × Nat)) : List (Nat × Nat) :=
  es.filterMap (fun t => if t.2.2 = n then some (t.2.1, t.1) else if !d && t.2.1 = n then some (t.2.2, t.1) else none)

theorem outPairs_eq (s : Spec) (n : Nat) :
    s.outPairs n = (outIns s.directed n s.edges).foldl (fun acc p => AL.insertNew p.1 p.2 acc) [] := by
  unfold Spec.outPairs outIns
  rw [List.foldl_filterMap]
  congr 1
  funext acc t
  by_cases h1 : t.2.1 = n
  · simp [h1]
  · by_cases h2 : (!s.directed && decide (t.2.2 = n)) = true
    · simp only [h1, if_false, h2, if_true]
    · simp [h1, h2]

theorem inPairs_eq (s : Spec) (n : Nat) :
    s.inPairs n = (inIns s.directed n s.edges).foldl (fun acc p => AL.insertNew p.1 p.2 acc) [] := by
  unfold Spec.inPairs inIns
  rw [List.foldl_filterMap]
  congr 1
  funext acc t
  by_cases h1 : t.2.2 = n
  · simp [h1]
  · by_cases h2 : (!s.directed && decide (t.2.1 = n)) = true
    · simp only [h1, if_false, h2, if_true]
    · simp [h1, h2]

theorem firstP_mem {L : List (Nat × Nat)} {k v : Nat} (h : firstP L k = some v) : (k, v) ∈ L := by
  induction L with
  | nil => simp [firstP] at h
  | cons p r ih =>
    obtain ⟨k', v'⟩ := p
    simp only [firstP] at h
    split at h
    · rename_i hk; subst hk; injection h with h; subst h; simp
    · exact List.mem_cons_of_mem _ (ih h)

theorem firstP_of_mem {L : List (Nat × Nat)} {k v : Nat} (hfun : ∀ v1 v2, (k, v1) ∈ L → (k, v2) ∈ L → v1 = v2)
    (h : (k, v) ∈ L) : firstP L k = some v := by
  induction L with
  | nil => cases h
  | cons p r ih =>
    obtain ⟨k', v'⟩ := p
    simp only [firstP]
    split
    · rename_i hk; subst hk; congr 1; exact hfun v' v (by simp) h
    · rename_i hk
      simp only [List.mem_cons, Prod.mk.injEq] at h
      rcases h with ⟨rfl, rfl⟩ | h
      · exact absurd rfl hk
      · exact ih (fun v1 v2 h1 h2 => hfun v1 v2 (List.mem_cons_of_mem _ h1) (List.mem_cons_of_mem _ h2)) h

theorem firstP_none {L : List (Nat × Nat)} {k : Nat} (h : ∀ v, (k, v) ∉ L) : firstP L k = none := by
  cases hf : firstP L k with
  | none => rfl
  | some v => exact absurd (firstP_mem hf) (h v)

theorem mem_outIns {g : G} (hc : Consistent g) (n b e : Nat) :
    (b, e) ∈ outIns g.directed n g.abs.edges ↔ g.outE n b = some e := by
  simp only [outIns, List.mem_filterMap]
  constructor
  · rintro ⟨⟨e', x, y⟩, ht, h⟩
    have hE := (mem_abs_edges g hc.sorted e' x y).mp ht
    have hl := hc.views.edge_listed e' x y hE
    simp only at h
    split at h
    · rename_i hx; subst hx; injection h with h; injection h with h1 h2; subst h1; subst h2; exact hl.1
    · split at h
      · rename_i hx hy
        simp only [Bool.and_eq_true, Bool.not_eq_true', decide_eq_true_eq] at hy
        obtain ⟨hd, rfl⟩ := hy
        injection h with h; injection h with h1 h2; subst h1; subst h2
        exact (hl.2.2 hd).1
      · cases h
  · intro hO
    rcases hc.views.out_edge n b e hO with hE | ⟨hd, hE⟩
    · exact ⟨(e, n, b), (mem_abs_edges g hc.sorted e n b).mpr hE, by simp⟩
    · refine ⟨(e, b, n), (mem_abs_edges g hc.sorted e b n).mpr hE, ?_⟩
      by_cases hbn : b = n
      · subst hbn; simp
      · simp [hbn, hd]

theorem mem_inIns {g : G} (hc : Consistent g) (n a e : Nat) :
    (a, e) ∈ inIns g.directed n g.abs.edges ↔ g.inE n a = some e := by
  simp only [inIns, List.mem_filterMap]
  constructor
  · rintro ⟨⟨e', x, y⟩, ht, h⟩
    have hE := (mem_abs_edges g hc.sorted e' x y).mp ht
    have hl := hc.views.edge_listed e' x y hE
    simp only at h
    split at h
    · rename_i hy; subst hy; injection h with h; injection h with h1 h2; subst h1; subst h2; exact hl.2.1
    · split at h
      · rename_i hy hx
        simp only [Bool.and_eq_true, Bool.not_eq_true', decide_eq_true_eq] at hx
        obtain ⟨hd, rfl⟩ := hx
        injection h with h; injection h with h1 h2; subst h1; subst h2
        exact (hl.2.2 hd).2
      · cases h
  · intro hI
    rcases hc.views.in_edge a n e hI with hE | ⟨hd, hE⟩
    · exact ⟨(e, a, n), (mem_abs_edges g hc.sorted e a n).mpr hE, by simp⟩
    · refine ⟨(e, n, a), (mem_abs_edges g hc.sorted e n a).mpr hE, ?_⟩
      by_cases han : a = n
      · subst han; simp
      · simp [han, hd]

/-- **rows agree**: in a consistent graph the row of every node is the row the reference
recomputes from the edge triples alone; hence every per-node query agrees -/
theorem abs_rowOf {g : G} (hc : Consistent g) (n : Nat) : g.abs.rowOf n = g.rowOf n := by
  unfold Spec.rowOf G.rowOf
  rw [abs_hasNode]
  rcases find_cases n g.nodes with hf | ⟨r, hf⟩
  · simp [G.hasNode, has, hf]
  · simp only [G.hasNode, has, hf, Option.isSome_some, if_true, Option.some.injEq]
    have hs := hc.sorted.rows n r hf
    have hd : g.abs.directed = g.directed := rfl
    have hout : g.abs.outPairs n = r.out := by
      apply asc_ext
      · rw [outPairs_eq]; exact asc_foldl_insertNew _ _ asc_nil
      · exact hs.1
      · intro k
        rw [outPairs_eq, find_foldl_insertNew, hd]
        simp only [find, Option.orElse_none]
        have hO : ∀ e, g.outE n k = some e ↔ find k r.out = some e := by intro e; simp [G.outE, hf]
        rcases hk : find k r.out with _ | e
        · apply firstP_none
          intro v hv
          have := (hO v).mp ((mem_outIns hc n k v).mp hv)
          rw [hk] at this; cases this
        · apply firstP_of_mem
          · intro v1 v2 h1 h2
            have e1 := (mem_outIns hc n k v1).mp h1
            have e2 := (mem_outIns hc n k v2).mp h2
            rw [e1] at e2; injection e2
          · exact (mem_outIns hc n k e).mpr ((hO e).mpr hk)
    have hin : g.abs.inPairs n = r.inn := by
      apply asc_ext
      · rw [inPairs_eq]; exact asc_foldl_insertNew _ _ asc_nil
      · exact hs.2
      · intro k
        rw [inPairs_eq, find_foldl_insertNew, hd]
        simp only [find, Option.orElse_none]
        have hI : ∀ e, g.inE n k = some e ↔ find k r.inn = some e := by intro e; simp [G.inE, hf]
        rcases hk : find k r.inn with _ | e
        · apply firstP_none
          intro v hv
          have := (hI v).mp ((mem_inIns hc n k v).mp hv)
          rw [hk] at this; cases this
        · apply firstP_of_mem
          · intro v1 v2 h1 h2
            have e1 := (mem_inIns hc n k v1).mp h1
            have e2 := (mem_inIns hc n k v2).mp h2
            rw [e1] at e2; injection e2
          · exact (mem_inIns hc n k e).mpr ((hI e).mpr hk)
    simp [Spec.row, hout, hin]

/-! ### each mutator refines the reference -/

/-- implementation outcome `o` (from state `g`) matches reference outcome `r`: both raise and the
implementation is unchanged, or both succeed with the same value and `abs` of the new state is
the new reference (and the new state is consistent) -/
def Refines {α : Type} (g : G) (r : Option (α × Spec)) (o : GOut α) : Prop :=
  match r with
  | none => o = .exc g
  | some (v, s') => ∃ g', o = .ok v g' ∧ g'.abs = s' ∧ Consistent g'

theorem abs_ext {g : G} {s : Spec} (h1 : g.directed = s.directed) (h2 : AL.keys g.nodes = s.nodes) (h3 : g.edges = s.edges)
    (h4 : g.nextNode = s.nextNode) (h5 : g.nextEdge = s.nextEdge) (h6 : g.root = s.root) : g.abs = s := by
  cases s
  simp only [G.abs, Spec.mk.injEq] at *
  refine ⟨h1, h2, ?_, h4, h5, h6⟩
  rw [← h3]; exact List.map_id' _

theorem keys_insertSorted_eq {β : Type} (k : Nat) (v : β) (l : List (Nat × β)) (h : find k l = none) :
    AL.keys (insertSorted k v l) = Spec.insertNode k (AL.keys l) := by
  induction l with
  | nil => rfl
  | cons p r ih =>
    obtain ⟨k1, v1⟩ := p
    simp only [find] at h
    split at h
    · cases h
    · rename_i hne
      simp only [insertSorted, AL.keys, List.map_cons, Spec.insertNode]
      have hne' : ¬ k = k1 := fun hh => hne hh.symm
      by_cases hlt : k < k1
      · simp [hlt, AL.keys]
      · simp only [hlt, if_false, hne', List.map_cons]
        have := ih h
        simp only [AL.keys] at this
        rw [this]

theorem insertSorted_eq_insertEdge (e a b : Nat) (l : List (Nat × (Nat × Nat))) :
    insertSorted e (a, b) l = Spec.insertEdge (e, a, b) l := by
  induction l with
  | nil => rfl
  | cons p r ih => simp only [insertSorted, Spec.insertEdge, ih]

theorem keys_linkInNode (a b e : Nat) (g : G) : AL.keys (linkInNode a b e g).nodes = AL.keys g.nodes := by
  simp [linkInNode, keys_modify]

theorem keys_linkWrite (a b e : Nat) (g : G) : AL.keys (linkWrite a b e g).nodes = AL.keys g.nodes := by
  unfold linkWrite
  cases g.directed <;> simp [linkInEdge, keys_linkInNode]

theorem edges_linkWrite (a b e : Nat) (g : G) : (linkWrite a b e g).edges = AL.set e (a, b) g.edges := by
  unfold linkWrite
  cases g.directed <;> simp [linkInEdge, linkInNode]

theorem set_absent {β : Type} {k : Nat} {v : β} {l : List (Nat × β)} (h : find k l = none) : AL.set k v l = insertSorted k v l := by
  simp [AL.set, has, h]

theorem set_present {β : Type} {k : Nat} {v w : β} {l : List (Nat × β)} (h : find k l = some w) :
    AL.set k v l = l.map (fun p => if p.1 = k then (k, v) else p) := by
  simp only [AL.set, has, h, Option.isSome_some, if_true]
  apply List.map_congr_left
  intro p _
  split
  · rename_i hk; rw [hk]
  · rfl

theorem abs_linkOk {g : G} (hc : Consistent g) (a b : Nat) : g.abs.linkOk a b = !linkRefused g a b := by
  unfold Spec.linkOk linkRefused
  rw [abs_hasNode, abs_hasNode, abs_edgeBetween hc]
  cases g.hasNode a <;> cases g.hasNode b <;> cases g.outE a b <;> simp

theorem createNode_refines {g : G} (hc : Consistent g) :
    Refines g (some (g.abs.createNode)) (createNode g) := by
  obtain ⟨g1, h1, hc1, c1⟩ := createNode_spec hc
  refine ⟨g1, h1, ?_, hc1⟩
  have hn := fresh_node hc
  have hf : find g.nextNode g.nodes = none := by
    simp only [G.hasNode, has] at hn
    rcases find_cases g.nextNode g.nodes with hf | ⟨r, hf⟩
    · exact hf
    · simp [hf] at hn
  have hnotin : g.nextNode ∉ AL.keys g.nodes := fun h => by have := (mem_keys_iff _ _).mp h; simp [hf] at this
  apply abs_ext
  · exact c1.rest.2.1
  · rw [c1.nodes, set_absent hf, keys_insertSorted_eq _ _ _ hf]
    show _ = Spec.insertNode g.nextNode ((AL.keys g.nodes).filter (· ≠ g.nextNode))
    congr 1
    symm
    apply List.filter_eq_self.mpr
    intro x hx
    simp only [ne_eq, decide_eq_true_eq]
    intro hh; subst hh; exact hnotin hx
  · show g1.edges = g.abs.edges
    rw [abs_edges]; exact c1.rest.1
  · exact c1.rest.2.2.1
  · exact c1.rest.2.2.2.1
  · exact c1.rest.2.2.2.2.1

theorem link_refines {g : G} (hc : Consistent g) (a b : Nat) : Refines g (g.abs.link a b) (link a b g) := by
  unfold Spec.link
  rw [abs_linkOk hc]
  cases hr : linkRefused g a b
  · obtain ⟨ha, hb, hO⟩ := linkRefused_false hr
    obtain ⟨h1, hc', hN, _, _, hd, hnn, hne, hroot⟩ := link_views hc ha hb hO
    simp only [Bool.not_false, if_true]
    refine ⟨_, h1, ?_, hc'⟩
    apply abs_ext
    · exact hd
    · rw [keys_linkWrite]; rfl
    · rw [edges_linkWrite, set_absent (fresh_edge hc (Nat.le_refl _)), insertSorted_eq_insertEdge]
      show _ = Spec.insertEdge (g.nextEdge, a, b) g.abs.edges
      rw [abs_edges]
    · exact hnn
    · exact hne
    · exact hroot
  · simp only [Bool.not_true, Bool.false_eq_true, if_false, Refines]
    simp [link, hr]

theorem linkE_refines {g : G} (hc : Consistent g) (a b e : Nat) :
    Refines g ((g.abs.linkE a b e).map (fun s => ((), s))) (linkE a b e g) := by
  unfold Spec.linkE
  rw [abs_linkOk hc, abs_edgeNodes]
  have hcons := linkE_consistent hc a b e
  cases he : g.hasEdge e
  · have hE : find e g.edges = none := by
      simp only [G.hasEdge, has] at he
      rcases find_cases e g.edges with hf | ⟨r, hf⟩
      · exact hf
      · simp [hf] at he
    cases hr : linkRefused g a b
    · simp only [hE, Option.isNone_none, Bool.not_false, Bool.and_self, if_true, Option.map_some, Refines]
      have hrun : linkE a b e g = .ok () (linkWrite a b e (if e ≥ g.nextEdge then { g with nextEdge := e + 1 } else g)) := by
        simp [linkE, he, hr]
      rw [hrun] at hcons ⊢
      refine ⟨_, rfl, ?_, hcons⟩
      have r := linkWrite_rest a b e (if e ≥ g.nextEdge then { g with nextEdge := e + 1 } else g)
      apply abs_ext
      · rw [r.1]; split <;> rfl
      · rw [keys_linkWrite]; split <;> rfl
      · rw [edges_linkWrite]
        have : (if e ≥ g.nextEdge then ({ g with nextEdge := e + 1 } : G) else g).edges = g.edges := by split <;> rfl
        rw [this, set_absent hE, insertSorted_eq_insertEdge]
        show _ = Spec.insertEdge (e, a, b) g.abs.edges
        rw [abs_edges]
      · rw [r.2.1]; split <;> rfl
      · rw [r.2.2.1]
        show _ = if e ≥ g.abs.nextEdge then e + 1 else g.abs.nextEdge
        show _ = if e ≥ g.nextEdge then e + 1 else g.nextEdge
        split <;> rfl
      · rw [r.2.2.2.1]; split <;> rfl
    · simp only [hE, Option.isNone_none, Bool.not_true, Bool.and_false, Bool.false_eq_true, if_false, Option.map_none, Refines]
      simp [linkE, he, hr]
  · have hE : (find e g.edges).isNone = false := by
      simp only [G.hasEdge, has] at he
      cases hf : find e g.edges <;> simp_all
    simp only [hE, Bool.false_and, Bool.false_eq_true, if_false, Option.map_none, Refines]
    simp [linkE, he]

theorem unlink_refines {g : G} (hc : Consistent g) (a b : Nat) :
    Refines g ((g.abs.unlink a b).map (fun r => ([r.1], r.2))) (unlink a b g) := by
  unfold Spec.unlink
  rw [abs_edgeBetween hc]
  rcases hO : g.outE a b with _ | e
  · simp only [Option.map_none, Refines]; exact unlink_none hO
  · obtain ⟨g', h, u⟩ := unlink_some hc hO
    simp only [Option.map_some, Refines]
    refine ⟨g', h, ?_, u.consistent hc hO⟩
    apply abs_ext
    · exact u.rest.1
    · exact u.keys
    · rw [u.edges]
      show _ = g.abs.edges.filter (fun t => decide (t.1 ≠ e))
      rw [abs_edges]; rfl
    · exact u.rest.2.1
    · exact u.rest.2.2.1
    · exact u.rest.2.2.2

theorem setRoot_refines {g : G} (hc : Consistent g) (n : Nat) :
    Refines g ((g.abs.setRoot n).map (fun s => ((), s))) (setRoot n g) := by
  unfold Spec.setRoot setRoot
  rw [abs_hasNode]
  cases hn : g.hasNode n
  · simp [Refines]
  · simp only [if_true, Option.map_some, Refines]
    exact ⟨_, rfl, rfl, ⟨hc.views, hc.node_lt, hc.edge_lt, ⟨hc.sorted.nodes, hc.sorted.edges, hc.sorted.rows⟩⟩⟩

theorem asc_filter {β : Type} (q : Nat × β → Bool) {l : List (Nat × β)} (h : Asc l) : Asc (l.filter q) := by
  unfold Asc AL.keys at *
  exact List.Pairwise.sublist (List.Sublist.map _ List.filter_sublist) h

theorem find_filter_asc {β : Type} (q : Nat × β → Bool) {l : List (Nat × β)} (h : Asc l) (k : Nat) :
    find k (l.filter q) = (find k l).bind (fun v => if q (k, v) then some v else none) := by
  induction l with
  | nil => simp [find]
  | cons p r ih =>
    obtain ⟨k1, v1⟩ := p
    simp only [List.filter_cons, find]
    by_cases hk : k1 = k
    · subst hk
      have hnone : find k1 r = none := find_eq_none_of_lt (asc_head_lt h)
      by_cases hq : q (k1, v1) = true
      · simp [hq, find]
      · simp only [hq, Bool.false_eq_true, if_false, if_true, Option.bind_some]
        rw [ih (asc_tail h), hnone]; rfl
    · by_cases hq : q (k1, v1) = true
      · simp [hq, find, hk, ih (asc_tail h)]
      · simp [hq, hk, ih (asc_tail h)]

theorem deleteNode_refines {g : G} (hc : Consistent g) (n : Nat) :
    Refines g ((g.abs.deleteNode n).map (fun s => ((), s))) (deleteNode n g) := by
  unfold Spec.deleteNode
  rw [abs_hasNode]
  cases hn : g.hasNode n
  · simp only [Bool.false_eq_true, if_false, Option.map_none, Refines]; exact deleteNode_absent hn
  · obtain ⟨g', h, hc', d⟩ := deleteNode_spec hc hn
    simp only [if_true, Option.map_some, Refines]
    refine ⟨g', h, ?_, hc'⟩
    apply abs_ext
    · exact d.rest.1
    · rw [d.keys]; rfl
    · show g'.edges = g.abs.edges.filter (fun t => decide (t.2.1 ≠ n) && decide (t.2.2 ≠ n))
      rw [abs_edges]
      apply asc_ext hc'.sorted.edges (asc_filter _ hc.sorted.edges)
      intro e
      rw [d.edges, find_filter_asc _ hc.sorted.edges]
      rcases find_cases e g.edges with hf | ⟨⟨a, b⟩, hf⟩
      · simp [hf]
      · simp only [hf, Option.bind_some]
        by_cases ha : a = n <;> by_cases hb : b = n <;> simp [ha, hb]
    · exact d.rest.2.1
    · exact d.rest.2.2.1
    · exact d.rest.2.2.2

theorem switchFrom_refines {g : G} (hc : Consistent g) (hd : g.directed = true) {f s e : Nat} (hO : g.outE f s = some e) :
    Refines g (Option.map (fun s => ((), s))
        (if (decide (f ≠ s) && (g.outE s f).isSome) = true then none
         else some { g.abs with edges := g.abs.edges.map (fun t => if t.1 = e then (e, s, f) else t) }))
      (switchFrom f s e g) := by
  have hcons := switchFrom_consistent hc hd hO
  have hI : (g.inE s f).isNone = false := by rw [(cons_out_some hc hO).1]; rfl
  have hE := (cons_out_some hc hO).2.1
  unfold switchFrom at hcons ⊢
  simp only [hI, Bool.false_eq_true, if_false] at hcons ⊢
  cases hrec : (decide (f ≠ s) && (g.outE s f).isSome)
  · simp only [hrec, Bool.false_eq_true, if_false, Option.map_some, Refines] at hcons ⊢
    refine ⟨_, rfl, ?_, hcons⟩
    apply abs_ext
    · rfl
    · show AL.keys (switchedNodes f s e g.nodes) = AL.keys g.nodes
      simp [switchedNodes, keys_modify]
    · show AL.set e (s, f) g.edges = g.abs.edges.map _
      rw [abs_edges]
      simp only [G.hasEdge, has] at hE
      rcases find_cases e g.edges with hf | ⟨w, hf⟩
      · simp [hf] at hE
      · exact set_present hf
    · rfl
    · rfl
    · rfl
  · simp [Refines]

theorem switchNodes_refines {g : G} (hc : Consistent g) (a b : Nat) :
    Refines g ((g.abs.switchNodes a b).map (fun s => ((), s))) (switchNodes a b g) := by
  unfold Spec.switchNodes switchNodes
  rw [abs_hasNode, abs_hasNode, abs_edgeBetween hc, abs_edgeBetween hc]
  cases hd : g.directed
  · have e1 : g.abs.directed = false := hd
    simp [e1, Refines]
  · have e1 : g.abs.directed = true := hd
    cases ha : g.hasNode a
    · simp [e1, Refines]
    · cases hb : g.hasNode b
      · simp [e1, Refines]
      · rw [if_neg (by simp [e1]), if_neg (by simp)]
        rcases hab : g.outE a b with _ | e
        · rcases hba : g.outE b a with _ | e
          · simp [Refines]
          · have := switchFrom_refines hc hd hba
            simp only [hab, Option.isSome_none, Bool.and_false, Bool.false_eq_true, if_false] at this
            exact this
        · exact switchFrom_refines hc hd hab

/-! ### iteration order of the node table: lexicographic in (node, neighbour) -/

def lexLt (t u : Nat × Nat × Nat) : Prop := t.1 < u.1 ∨ (t.1 = u.1 ∧ t.2.1 < u.2.1)

theorem outTriples_lex {g : G} (hs : Sorted g) : List.Pairwise lexLt (outTriples g.nodes) := by
  unfold outTriples
  rw [List.pairwise_flatMap]
  constructor
  · intro p hp
    obtain ⟨n, r⟩ := p
    have hf := (mem_iff_find hs.nodes n r).mp hp
    have hr := (hs.rows n r hf).1
    rw [List.pairwise_map]
    unfold Asc AL.keys at hr
    rw [List.pairwise_map] at hr
    exact hr.imp (fun h => Or.inr ⟨rfl, h⟩)
  · have hn := hs.nodes
    unfold Asc AL.keys at hn
    rw [List.pairwise_map] at hn
    apply hn.imp
    intro p1 p2 hlt x hx y hy
    simp only [List.mem_map] at hx hy
    obtain ⟨q1, _, rfl⟩ := hx
    obtain ⟨q2, _, rfl⟩ := hy
    exact Or.inl hlt

/-- in an undirected consistent graph (both directions recorded) only "lower node first" triples are kept -/
theorem kept_le (T0 : List (Nat × Nat × Nat)) (hlex : List.Pairwise lexLt T0)
    (hsym : ∀ a b e, (a, b, e) ∈ T0 → ∃ e', (b, a, e') ∈ T0) :
    ∀ (T P : List (Nat × Nat × Nat)) (seen : List (Nat × Nat)), T0 = P ++ T → (∀ p ∈ P, upair p ∈ seen) →
      ∀ a b e, (a, b, e) ∈ keptOf T seen → a ≤ b := by
  intro T
  induction T with
  | nil => intro P seen _ _ a b e h; cases h
  | cons t r ih =>
    intro P seen hT0 hseen a b e hk
    have hT0' : T0 = (P ++ [t]) ++ r := by rw [hT0]; simp
    simp only [keptOf] at hk
    by_cases hs : upair t ∈ seen
    · simp only [hs, if_true] at hk
      refine ih (P ++ [t]) seen hT0' ?_ a b e hk
      intro p hp
      simp only [List.mem_append, List.mem_singleton] at hp
      rcases hp with hp | rfl
      · exact hseen p hp
      · exact hs
    · simp only [hs, if_false, List.mem_cons] at hk
      rcases hk with hk | hk
      · -- the head is kept: its reverse cannot have been met, and cannot come later
        subst hk
        rcases Nat.lt_or_ge b a with hlt | hge
        · exfalso
          obtain ⟨e', hm⟩ := hsym a b e (by rw [hT0]; simp)
          rw [hT0] at hm
          simp only [List.mem_append, List.mem_cons] at hm
          rcases hm with hm | hm | hm
          · apply hs
            have := hseen _ hm
            simp only [upair] at this ⊢
            have e1 : min b a = min a b := Nat.min_comm _ _
            have e2 : max b a = max a b := Nat.max_comm _ _
            rw [e1, e2] at this; exact this
          · injection hm with h1 _; omega
          · rw [hT0, List.pairwise_append] at hlex
            have := (List.pairwise_cons.mp hlex.2.1).1 _ hm
            simp only [lexLt] at this
            omega
        · exact hge
      · refine ih (P ++ [t]) (upair t :: seen) hT0' ?_ a b e hk
        intro p hp
        simp only [List.mem_append, List.mem_singleton] at hp
        rcases hp with hp | rfl
        · exact List.mem_cons_of_mem _ (hseen p hp)
        · simp

/-! ### makeDirected / makeUndirected refine the reference -/

theorem makeDirected_refines {g : G} (hc : Consistent g) :
    (makeDirected g).abs = g.abs.makeDirected ∧ Consistent (makeDirected g) := by
  refine ⟨?_, makeDirected_consistent hc⟩
  unfold Spec.makeDirected
  have hdd : g.abs.directed = g.directed := rfl
  cases hd : g.directed
  · have e1 : g.abs.directed = false := hd
    rw [if_neg (by simp [e1])]
    obtain ⟨hc', d⟩ := makeDirected_spec hc hd
    have hT : ∀ a b e, (a, b, e) ∈ outTriples g.nodes ↔ g.outE a b = some e := fun a b e => mem_outTriples hc.sorted a b e
    have hle : ∀ a b e, (a, b, e) ∈ keptOf (outTriples g.nodes) [] → a ≤ b := by
      refine kept_le (outTriples g.nodes) (outTriples_lex hc.sorted) ?_ (outTriples g.nodes) [] [] (by simp) (by simp)
      intro a b e hm
      exact ⟨e, (hT b a e).mpr (((cons_out_some hc ((hT a b e).mp hm)).2.2 hd).1)⟩
    apply abs_ext
    · exact d.rest.1
    · exact d.keys
    · show (makeDirected g).edges = g.abs.edges.map (fun t => (t.1, min t.2.1 t.2.2, max t.2.1 t.2.2))
      rw [abs_edges]
      have hmapasc : Asc (g.edges.map (fun t => (t.1, min t.2.1 t.2.2, max t.2.1 t.2.2))) := by
        unfold Asc
        rw [show AL.keys (g.edges.map (fun t => (t.1, min t.2.1 t.2.2, max t.2.1 t.2.2))) = AL.keys g.edges from
          keys_map_same (fun t => (t.1, min t.2.1 t.2.2, max t.2.1 t.2.2)) (fun _ => rfl) _]
        exact hc.sorted.edges
      apply asc_ext hc'.sorted.edges hmapasc
      intro e
      have hfm : find e (g.edges.map (fun t => (t.1, min t.2.1 t.2.2, max t.2.1 t.2.2))) =
          (find e g.edges).map (fun v => (min v.1 v.2, max v.1 v.2)) :=
        find_map_val e (fun v : Nat × Nat => (min v.1 v.2, max v.1 v.2)) g.edges
      rw [hfm]
      rcases find_cases e g.edges with hf | ⟨⟨a, b⟩, hf⟩
      · rw [hf]
        rcases hf' : find e (makeDirected g).edges with _ | ⟨a', b'⟩
        · rfl
        · have hk := (d.edges e a' b').mp hf'
          have ho := d.kept_sub a' b' e hk
          have := (cons_out_some hc ho).2.1
          simp [G.hasEdge, has, hf] at this
      · rw [hf]
        have ho := (hc.views.edge_listed e a b hf).1
        simp only [Option.map_some]
        rcases d.kept_all a b e ho with hk | hk
        · have := hle a b e hk
          rw [(d.edges e a b).mpr hk]
          congr 2 <;> omega
        · have := hle b a e hk
          rw [(d.edges e b a).mpr hk]
          congr 2 <;> omega
    · exact d.rest.2.1
    · exact d.rest.2.2.1
    · exact d.rest.2.2.2.1
  · have e1 : g.abs.directed = true := hd
    rw [if_pos e1, makeDirected_already hd]

theorem recip_iff {g : G} (hc : Consistent g) (hd : g.directed = true) :
    recipLoop (outTriples g.nodes) [] = true ↔ ∃ x y e e', x ≠ y ∧ g.outE x y = some e ∧ g.outE y x = some e' := by
  constructor
  · intro h
    apply Classical.byContradiction
    intro hno
    have hfalse : recipLoop (outTriples g.nodes) [] = false := by
      rw [recipLoop_false]
      refine ⟨by simp, ?_⟩
      apply List.Pairwise.imp_of_mem ?_ (outTriples_lex hc.sorted)
      intro t u ht hu hlt heq
      obtain ⟨a, b, e⟩ := t
      obtain ⟨c, d, e'⟩ := u
      simp only [upair, Prod.mk.injEq] at heq
      simp only [lexLt] at hlt
      have o1 := (mem_outTriples hc.sorted a b e).mp ht
      have o2 := (mem_outTriples hc.sorted c d e').mp hu
      have hcases : (c = a ∧ d = b) ∨ (c = b ∧ d = a) := by omega
      rcases hcases with ⟨h1, h2⟩ | ⟨h1, h2⟩
      · omega
      · rw [h1, h2] at o2
        by_cases hab : a = b
        · omega
        · exact hno ⟨a, b, e, e', hab, o1, o2⟩
    rw [h] at hfalse; cases hfalse
  · rintro ⟨x, y, e, e', hne, h1, h2⟩
    cases hr : recipLoop (outTriples g.nodes) []
    · exact absurd (no_recip hc.sorted hr h1 h2) hne
    · rfl

theorem abs_reciprocal {g : G} (hc : Consistent g) (hd : g.directed = true) :
    g.abs.reciprocal = recipLoop (outTriples g.nodes) [] := by
  have hiff : g.abs.reciprocal = true ↔ ∃ x y e e', x ≠ y ∧ g.outE x y = some e ∧ g.outE y x = some e' := by
    unfold Spec.reciprocal
    rw [abs_edges]
    simp only [List.any_eq_true, Bool.and_eq_true, decide_eq_true_eq]
    have hv := hc.views
    rw [hd] at hv
    constructor
    · rintro ⟨⟨e1, a, b⟩, ht, ⟨e2, c, d⟩, hu, ⟨hne, hmin⟩, hmax⟩
      have E1 := (mem_iff_find hc.sorted.edges e1 (a, b)).mp ht
      have E2 := (mem_iff_find hc.sorted.edges e2 (c, d)).mp hu
      have o1 := (hv.edge_listed e1 a b E1).1
      have o2 := (hv.edge_listed e2 c d E2).1
      simp only at hne hmin hmax
      have hcases : (c = a ∧ d = b) ∨ (c = b ∧ d = a) := by omega
      rcases hcases with ⟨h1, h2⟩ | ⟨h1, h2⟩
      · rw [h1, h2, o1] at o2; injection o2 with o2; exact absurd o2 hne
      · rw [h1, h2] at o2
        by_cases hab : a = b
        · rw [← hab] at o1 o2; rw [o1] at o2; injection o2 with o2; exact absurd o2 hne
        · exact ⟨a, b, e1, e2, hab, o1, o2⟩
    · rintro ⟨x, y, e, e', hne, h1, h2⟩
      have E1 : find e g.edges = some (x, y) := by
        rcases hv.out_edge x y e h1 with h | ⟨h, _⟩
        · exact h
        · cases h
      have E2 : find e' g.edges = some (y, x) := by
        rcases hv.out_edge y x e' h2 with h | ⟨h, _⟩
        · exact h
        · cases h
      refine ⟨(e, x, y), find_some_mem E1, (e', y, x), find_some_mem E2, ⟨?_, ?_⟩, ?_⟩
      · intro hee
        simp only at hee; subst hee
        rw [E1] at E2; injection E2 with E2; injection E2 with E2 _; exact hne E2
      · simp only; omega
      · simp only; omega
  cases h1 : g.abs.reciprocal <;> cases h2 : recipLoop (outTriples g.nodes) []
  · rfl
  · exact absurd (hiff.mpr ((recip_iff hc hd).mp h2)) (by simp [h1])
  · exact absurd ((recip_iff hc hd).mpr (hiff.mp h1)) (by simp [h2])
  · rfl

theorem makeUndirected_refines {g : G} (hc : Consistent g) :
    Refines g (g.abs.makeUndirected.map (fun s => ((), s))) (makeUndirected g) := by
  unfold Spec.makeUndirected
  cases hd : g.directed
  · have e1 : g.abs.directed = false := hd
    simp only [e1, Bool.not_false, if_true, Option.map_some, Refines]
    exact ⟨g, makeUndirected_already hd, rfl, hc⟩
  · have e1 : g.abs.directed = true := hd
    rw [if_neg (by simp [e1]), abs_reciprocal hc hd]
    cases hr : recipLoop (outTriples g.nodes) []
    · obtain ⟨g', h, hc', u⟩ := makeUndirected_spec hc hd hr
      simp only [Bool.false_eq_true, if_false, Option.map_some, Refines]
      refine ⟨g', h, ?_, hc'⟩
      apply abs_ext
      · exact u.rest.2.1
      · exact u.keys
      · show g'.edges = g.abs.edges
        rw [abs_edges]; exact u.rest.1
      · exact u.rest.2.2.1
      · exact u.rest.2.2.2.1
      · exact u.rest.2.2.2.2.1
    · simp only [if_true, Option.map_none, Refines]
      exact makeUndirected_recip hd hr

/-! ### composite creators refine the reference -/

theorem Refines.of_ok {α : Type} {g g' : G} {r : Option (α × Spec)} {o : GOut α} {v : α}
    (h : Refines g r o) (ho : o = .ok v g') : r = some (v, g'.abs) ∧ Consistent g' := by
  unfold Refines at h
  cases r with
  | none => rw [ho] at h; cases h
  | some p =>
    obtain ⟨v', s'⟩ := p
    obtain ⟨g'', h1, h2, h3⟩ := h
    rw [ho] at h1; injection h1 with h1 h1'; subst h1; subst h1'
    exact ⟨by rw [h2], h3⟩

theorem createNodeFromNode_refines {g : G} (hc : Consistent g) (o : Nat) :
    Refines g (g.abs.createNodeFromNode o) (createNodeFromNode o g) := by
  unfold Spec.createNodeFromNode
  rw [abs_hasNode]
  cases ho : g.hasNode o
  · simp [Refines, createNodeFromNode, ho]
  · obtain ⟨g2, h2⟩ := createNodeFromNode_ok hc ho
    obtain ⟨g1, h1, hc1, c1⟩ := createNode_spec hc
    have r1 := (createNode_refines hc).of_ok h1
    -- the link step of the implementation
    have hl : ∃ e, link o g.nextNode g1 = .ok e g2 := by
      unfold createNodeFromNode at h2
      simp only [ho, Bool.not_true, Bool.false_eq_true, if_false, h1] at h2
      rcases hr : link o g.nextNode g1 with ⟨e, g3⟩ | g3 <;> rw [hr] at h2
      · injection h2 with _ h2; subst h2; exact ⟨e, rfl⟩
      · cases h2
    obtain ⟨e, hl⟩ := hl
    have r2 := (link_refines hc1 o g.nextNode).of_ok hl
    have e1 : g.abs.createNode = (g.nextNode, g1.abs) := by
      have := r1.1; injection this
    simp only [if_true, e1, r2.1, Option.map_some, Refines]
    exact ⟨g2, h2, rfl, r2.2⟩

theorem createNodeOnEdge_refines {g : G} (hc : Consistent g) (e : Nat) :
    Refines g (g.abs.createNodeOnEdge e) (createNodeOnEdge e g) := by
  unfold Spec.createNodeOnEdge
  rw [abs_edgeNodes]
  rcases find_cases e g.edges with hf | ⟨⟨a, b⟩, hf⟩
  · simp [hf, Refines, createNodeOnEdge]
  · simp only [hf]
    have hdd : g.abs.directed = g.directed := rfl
    by_cases hloop : g.directed = false ∧ a = b
    · have : (!g.directed && decide (a = b)) = true := by simp [hloop.1, hloop.2]
      rw [hdd]
      simp [this, Refines, createNodeOnEdge, hf]
    · have hloop' : (!g.directed && decide (a = b)) = false := by
        cases hd : g.directed <;> simp_all
      obtain ⟨g4, h4, _⟩ := createNodeOnEdge_ok hc hf hloop
      obtain ⟨g1, h1, hc1, c1⟩ := createNode_spec hc
      have r1 := (createNode_refines hc).of_ok h1
      have e1 : g.abs.createNode = (g.nextNode, g1.abs) := by
        have := r1.1; injection this
      -- unfold the implementation run step by step
      unfold createNodeOnEdge at h4
      simp only [hf, hloop', Bool.false_eq_true, if_false, h1] at h4
      rcases hu : unlink a b g1 with ⟨l, g2⟩ | g2 <;> rw [hu] at h4
      · simp only at h4
        rcases hl1 : link a g.nextNode g2 with ⟨e1', g3⟩ | g3 <;> rw [hl1] at h4
        · simp only at h4
          rcases hl2 : link g.nextNode b g3 with ⟨e2', g4'⟩ | g4' <;> rw [hl2] at h4
          · simp only at h4
            injection h4 with _ h4; subst h4
            have ru := (unlink_refines hc1 a b).of_ok hu
            have rl1 := (link_refines ru.2 a g.nextNode).of_ok hl1
            have rl2 := (link_refines rl1.2 g.nextNode b).of_ok hl2
            -- the reference run
            have su : g1.abs.unlink a b = some (l.headD 0, g2.abs) ∨ True := Or.inr trivial
            rcases hsu : g1.abs.unlink a b with _ | ⟨eu, s2⟩
            · rw [hsu] at ru; simp at ru
            · rw [hsu] at ru
              simp only [Option.map_some, Option.some.injEq, Prod.mk.injEq] at ru
              obtain ⟨⟨_, rfl⟩, _⟩ := ru
              rw [hdd]
              simp only [hloop', Bool.false_eq_true, if_false, e1, hsu, Option.bind_some, rl1.1, rl2.1, Option.map_some, Refines]
              refine ⟨g4', ?_, rfl, rl2.2⟩
              unfold createNodeOnEdge
              simp only [hf, hloop', Bool.false_eq_true, if_false, h1, hu, hl1, hl2]
          · cases h4
        · cases h4
      · cases h4

theorem createNodeFromEdge_refines {g : G} (hc : Consistent g) (e : Nat) :
    Refines g (g.abs.createNodeFromEdge e) (createNodeFromEdge e g) := by
  unfold Spec.createNodeFromEdge createNodeFromEdge
  have r1 := createNodeOnEdge_refines hc e
  cases he : g.hasEdge e
  · -- absent edge: the reference raises in its first step
    have hf : find e g.edges = none := by
      simp only [G.hasEdge, has] at he
      rcases find_cases e g.edges with hf | ⟨r, hf⟩
      · exact hf
      · simp [hf] at he
    have : g.abs.createNodeOnEdge e = none := by
      unfold Spec.createNodeOnEdge; rw [abs_edgeNodes, hf]
    simp [this, Refines]
  · simp only [Bool.not_true, Bool.false_eq_true, if_false]
    rcases hs : g.abs.createNodeOnEdge e with _ | ⟨n, s1⟩
    · rw [hs] at r1
      simp only [Refines] at r1
      simp [r1, Refines]
    · rw [hs] at r1
      obtain ⟨g1, h1, habs, hc1⟩ := r1
      simp only [h1, Option.bind_some]
      rw [← habs]
      -- the anchor is a node of g1, so the second step cannot raise
      have hn1 : g1.hasNode n = true := by
        rcases find_cases e g.edges with hf | ⟨⟨a, b⟩, hf⟩
        · simp [createNodeOnEdge, hf] at h1
        · by_cases hloop : g.directed = false ∧ a = b
          · have : (!g.directed && decide (a = b)) = true := by simp [hloop.1, hloop.2]
            simp [createNodeOnEdge, hf, this] at h1
          · obtain ⟨g2, h2, hn2⟩ := createNodeOnEdge_ok hc hf hloop
            rw [h2] at h1; injection h1 with h1a h1b; subst h1a; subst h1b; exact hn2
      obtain ⟨g2, h2⟩ := createNodeFromNode_ok hc1 hn1
      have r2 := (createNodeFromNode_refines hc1 n).of_ok h2
      rw [r2.1, h2]
      exact ⟨g2, rfl, rfl, r2.2⟩

theorem Refines.map {α β : Type} {g : G} {r : Option (α × Spec)} {o : GOut α} (f : α → β) (h : Refines g r o) :
    Refines g (r.map (fun p => (f p.1, p.2))) (o.mapVal f) := by
  unfold Refines at h ⊢
  cases r with
  | none => rw [h]; rfl
  | some p =>
    obtain ⟨v, s'⟩ := p
    obtain ⟨g', h1, h2, h3⟩ := h
    exact ⟨g', by rw [h1]; rfl, h2, h3⟩

/-- every operation of the implementation model refines the same operation of the reference -/
theorem applyR_refines {g : G} (hc : Consistent g) (op : Op) : Refines g (g.abs.applyR op) (g.applyR op) := by
  cases op with
  | createNode => exact (createNode_refines hc).map (fun n => [n])
  | createNodeFromNode o =>
    have := (createNodeFromNode_refines hc o).map (fun n => [n])
    simpa [Spec.applyR, G.applyR] using this
  | createNodeOnEdge e =>
    have := (createNodeOnEdge_refines hc e).map (fun n => [n])
    simpa [Spec.applyR, G.applyR] using this
  | createNodeFromEdge e =>
    have := (createNodeFromEdge_refines hc e).map (fun n => [n])
    simpa [Spec.applyR, G.applyR] using this
  | link a b =>
    have := (link_refines hc a b).map (fun n => [n])
    simpa [Spec.applyR, G.applyR] using this
  | linkE a b e =>
    have := (linkE_refines hc a b e).map (fun _ => ([] : List Nat))
    simpa [Spec.applyR, G.applyR, Option.map_map, Function.comp_def] using this
  | unlink a b =>
    have := unlink_refines hc a b
    simpa [Spec.applyR, G.applyR] using this
  | switchNodes a b =>
    have := (switchNodes_refines hc a b).map (fun _ => ([] : List Nat))
    simpa [Spec.applyR, G.applyR, Option.map_map, Function.comp_def] using this
  | deleteNode n =>
    have := (deleteNode_refines hc n).map (fun _ => ([] : List Nat))
    simpa [Spec.applyR, G.applyR, Option.map_map, Function.comp_def] using this
  | makeDirected =>
    have := makeDirected_refines hc
    exact ⟨_, rfl, this.1, this.2⟩
  | makeUndirected =>
    have := (makeUndirected_refines hc).map (fun _ => ([] : List Nat))
    simpa [Spec.applyR, G.applyR, Option.map_map, Function.comp_def] using this
  | setRoot n =>
    have := (setRoot_refines hc n).map (fun _ => ([] : List Nat))
    simpa [Spec.applyR, G.applyR, Option.map_map, Function.comp_def] using this

theorem forget_mapVal {α β : Type} (f : α → β) (o : GOut α) : (o.mapVal f).forget = o.forget := by
  cases o <;> rfl

theorem forget_unit (o : GOut Unit) : o.forget = o := by cases o <;> rfl

/-- `apply` (used in `consistent_inv` / `raises_unchanged`) is `applyR` with the value dropped -/
theorem applyR_forget (g : G) (op : Op) : (g.applyR op).forget = g.apply op := by
  cases op <;> simp only [G.applyR, G.apply, forget_mapVal, forget_unit] <;> rfl

end G
end Graph
end Bpp
