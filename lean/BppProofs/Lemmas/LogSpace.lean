import BppModel.LogSpace
import BppProofs.Lemmas.VecTools
import Mathlib.Analysis.SpecialFunctions.Log.Basic
/-!
Helper lemmas for C07 (log-space part): the program text of `BppModel/LogSpace.lean` read at `ℝ`
(no infinities) and at `Ext ℝ` (reals with `±∞` and NaN).
-/
namespace Bpp.LogSpace
open Bpp Bpp.VecTools

/-- the exact-arithmetic reading of the log-space interface -/
noncomputable instance instLogArithReal : LogArith ℝ where
  ofNat n := (n : ℝ)
  ltb x y := decide (x < y)
  eqb x y := decide (x = y)
  exp := Real.exp
  log := Real.log
  isInf _ := false

@[simp] theorem ofNat_eq (n : Nat) : (LogArith.ofNat n : ℝ) = (n : ℝ) := rfl
@[simp] theorem ltb_iff (x y : ℝ) : LogArith.ltb x y = true ↔ x < y := by simp [LogArith.ltb]
@[simp] theorem ltb_false_iff (x y : ℝ) : LogArith.ltb x y = false ↔ y ≤ x := by simp [LogArith.ltb]
@[simp] theorem eqb_iff (x y : ℝ) : LogArith.eqb x y = true ↔ x = y := by simp [LogArith.eqb]
@[simp] theorem eqb_false_iff (x y : ℝ) : LogArith.eqb x y = false ↔ x ≠ y := by simp [LogArith.eqb]
@[simp] theorem exp_eq (x : ℝ) : LogArith.exp x = Real.exp x := rfl
@[simp] theorem log_eq (x : ℝ) : LogArith.log x = Real.log x := rfl
@[simp] theorem isInf_eq (x : ℝ) : LogArith.isInf x = false := rfl

/-! ### pairwise log-sum -/

theorem logsum_eq (a b : ℝ) : logsum a b = Real.log (Real.exp a + Real.exp b) := by
  unfold logsum
  by_cases hab : a = b
  · subst hab
    simp only [eqb_iff, if_true, ofNat_eq, log_eq]
    rw [← two_mul, Real.log_mul (by norm_num) (Real.exp_pos a).ne', Real.log_exp]; push_cast; ring
  · have h1 : LogArith.eqb a b = false := by simp [LogArith.eqb, hab]
    simp only [h1, Bool.false_eq_true, if_false, ofNat_eq, log_eq, exp_eq]
    by_cases hlt : b < a
    · simp only [ltb_iff, hlt, if_true]
      have : Real.exp a + Real.exp b = Real.exp a * (1 + Real.exp (b - a)) := by
        rw [mul_add, mul_one, ← Real.exp_add]; congr 2; ring
      rw [this, Real.log_mul (Real.exp_pos a).ne' (by positivity), Real.log_exp]; push_cast; ring
    · simp only [ltb_iff, hlt, if_false]
      have : Real.exp a + Real.exp b = Real.exp b * (1 + Real.exp (a - b)) := by
        rw [mul_add, mul_one, ← Real.exp_add]; rw [add_comm]; congr 2; ring
      rw [this, Real.log_mul (Real.exp_pos b).ne' (by positivity), Real.log_exp]; push_cast; ring

/-! ### max-shifted sums -/

theorem lt_strictWeak' : StrictWeak (fun (y m : ℝ) => LogArith.ltb m y) where
  irrefl a := by simp
  trans a b c := by simp only [ltb_iff]; intro h1 h2; linarith
  negTrans a b c := by simp only [ltb_false_iff]; intro h1 h2; linarith

theorem vmax_spec (v : List ℝ) (M : ℝ) (h : vmax v = .ok M) : M ∈ v ∧ ∀ y ∈ v, y ≤ M := by
  cases v with
  | nil => simp [vmax, extremum] at h
  | cons x xs =>
    simp only [vmax, extremum, Except.ok.injEq] at h
    obtain ⟨hm, hall⟩ := extremum_fold_spec lt_strictWeak' xs x
    rw [h] at hm hall
    exact ⟨hm, fun y hy => by have := hall y hy; simpa using this⟩

theorem vmax_defined (v : List ℝ) (h : v ≠ []) : ∃ M, vmax v = .ok M := by
  cases v with
  | nil => exact absurd rfl h
  | cons x xs => exact ⟨_, rfl⟩

theorem vmax_nil : vmax ([] : List ℝ) = .error .empty := rfl

theorem foldl_add_exp (M : ℝ) (rest : List ℝ) (a : ℝ) :
    rest.foldl (fun y z => y + LogArith.exp (z - M)) a = a + (rest.map (fun z => Real.exp (z - M))).sum := by
  induction rest generalizing a with
  | nil => simp
  | cons x xs ih =>
    simp only [List.foldl_cons, List.map_cons, List.sum_cons]
    rw [ih]; simp only [exp_eq]; ring

theorem expSum_eq (M : ℝ) (v : List ℝ) (h : v ≠ []) :
    expSum M v = .ok ((shifted M v).map Real.exp).sum := by
  cases v with
  | nil => exact absurd rfl h
  | cons x xs =>
    simp only [expSum]
    rw [foldl_add_exp]
    simp only [shifted, List.map_cons, List.map_map, List.sum_cons, exp_eq]
    rfl

theorem sum_exp_shift (M : ℝ) (v : List ℝ) :
    ((shifted M v).map Real.exp).sum = (v.map Real.exp).sum * Real.exp (-M) := by
  induction v with
  | nil => simp [shifted]
  | cons x xs ih =>
    simp only [shifted, List.map_cons, List.sum_cons, List.map_map] at ih ⊢
    rw [ih, add_mul, ← Real.exp_add]; congr 2

theorem sum_exp_pos (v : List ℝ) (h : v ≠ []) : 0 < (v.map Real.exp).sum := by
  cases v with
  | nil => exact absurd rfl h
  | cons x xs =>
    simp only [List.map_cons, List.sum_cons]
    have : 0 ≤ (xs.map Real.exp).sum :=
      List.sum_nonneg (by intro z hz; simp only [List.mem_map] at hz; obtain ⟨w, -, rfl⟩ := hz; exact (Real.exp_pos w).le)
    linarith [Real.exp_pos x]

theorem logSumExp_unfold (v : List ℝ) (hv : v ≠ []) (h1 : v.length ≠ 1) :
    ∃ M, vmax v = .ok M ∧ logSumExp v = .ok (Real.log ((shifted M v).map Real.exp).sum + M) := by
  obtain ⟨M, hM⟩ := vmax_defined v hv
  refine ⟨M, hM, ?_⟩
  unfold logSumExp
  rw [if_neg h1, hM]
  simp only [bind, Except.bind, isInf_eq, Bool.false_eq_true, if_false, expSum_eq M v hv, pure, Except.pure, log_eq]

/-- `logSumExp v = log Σ exp vᵢ` -/
theorem logSumExp_eq (v : List ℝ) (hv : v ≠ []) : logSumExp v = .ok (Real.log (v.map Real.exp).sum) := by
  by_cases h1 : v.length = 1
  · obtain ⟨x, rfl⟩ := List.length_eq_one_iff.mp h1
    simp [logSumExp, at?]
  · obtain ⟨M, -, h⟩ := logSumExp_unfold v hv h1
    rw [h, sum_exp_shift, Real.log_mul (sum_exp_pos v hv).ne' (Real.exp_pos _).ne', Real.log_exp]
    congr 1; ring

theorem sum_exp_map_add (v : List ℝ) (c : ℝ) :
    ((v.map (· + c)).map Real.exp).sum = (v.map Real.exp).sum * Real.exp c := by
  induction v with
  | nil => simp
  | cons x xs ih =>
    simp only [List.map_cons, List.sum_cons] at ih ⊢
    rw [ih, add_mul, Real.exp_add]

/-- bounds of Σ exp vᵢ by the maximum -/
theorem sum_exp_bounds (v : List ℝ) (M : ℝ) (hM : M ∈ v) (hle : ∀ y ∈ v, y ≤ M) :
    Real.exp M ≤ (v.map Real.exp).sum ∧ (v.map Real.exp).sum ≤ v.length * Real.exp M := by
  constructor
  · have : Real.exp M ∈ v.map Real.exp := List.mem_map_of_mem hM
    exact List.single_le_sum (by intro z hz; simp only [List.mem_map] at hz; obtain ⟨w, -, rfl⟩ := hz; exact (Real.exp_pos w).le) _ this
  · have := List.sum_le_card_nsmul (v.map Real.exp) (Real.exp M)
      (by intro z hz; simp only [List.mem_map] at hz; obtain ⟨w, hw, rfl⟩ := hz; exact Real.exp_le_exp.mpr (hle w hw))
    simpa using this

theorem foldl_zip_exp (M : ℝ) (r : List (ℝ × ℝ)) (a : ℝ) :
    r.foldl (fun x (p : ℝ × ℝ) => x + p.2 * LogArith.exp (p.1 - M)) a =
      a + (r.map (fun p => p.2 * Real.exp (p.1 - M))).sum := by
  induction r generalizing a with
  | nil => simp
  | cons x xs ih =>
    simp only [List.foldl_cons, List.map_cons, List.sum_cons]
    rw [ih]; simp only [exp_eq]; ring

theorem expSumW_eq (M : ℝ) (v w : List ℝ) (hv : v ≠ []) (h : v.length = w.length) :
    expSumW M v w = .ok (List.zipWith (fun x c => c * Real.exp (x - M)) v w).sum := by
  cases v with
  | nil => exact absurd rfl hv
  | cons x xs =>
    cases w with
    | nil => simp at h
    | cons c cs =>
      simp only [expSumW]
      rw [foldl_zip_exp]
      simp only [List.zipWith_cons_cons, List.sum_cons, exp_eq, List.zip, List.map_zipWith]

theorem sum_zipWith_shift (M : ℝ) (v w : List ℝ) :
    (List.zipWith (fun x c => c * Real.exp (x - M)) v w).sum =
      (List.zipWith (fun x c => c * Real.exp x) v w).sum * Real.exp (-M) := by
  induction v generalizing w with
  | nil => simp
  | cons x xs ih =>
    cases w with
    | nil => simp
    | cons c cs =>
      simp only [List.zipWith_cons_cons, List.sum_cons]
      rw [ih cs, add_mul, mul_assoc, ← Real.exp_add]; congr 3

theorem logSumExpW_eq (v w : List ℝ) (hv : v ≠ []) (h : v.length = w.length)
    (hpos : (List.zipWith (fun x c => c * Real.exp x) v w).sum ≠ 0) :
    logSumExpW v w = .ok (Real.log (List.zipWith (fun x c => c * Real.exp x) v w).sum) := by
  obtain ⟨M, hM⟩ := vmax_defined v hv
  unfold logSumExpW
  rw [if_neg (by simpa using h), hM]
  simp only [bind, Except.bind, isInf_eq, Bool.false_eq_true, if_false, expSumW_eq M v w hv h, pure, Except.pure, log_eq]
  rw [sum_zipWith_shift, Real.log_mul hpos (Real.exp_pos _).ne', Real.log_exp]
  congr 1; ring

theorem sumExp_eq (v : List ℝ) (hv : v ≠ []) : sumExp v = .ok (v.map Real.exp).sum := by
  by_cases h1 : v.length = 1
  · obtain ⟨x, rfl⟩ := List.length_eq_one_iff.mp h1
    simp [sumExp, at?]
  · obtain ⟨M, hM⟩ := vmax_defined v hv
    unfold sumExp
    rw [if_neg h1, hM]
    simp only [bind, Except.bind, isInf_eq, Bool.false_eq_true, if_false, expSum_eq M v hv, pure, Except.pure, exp_eq]
    rw [sum_exp_shift, mul_assoc, ← Real.exp_add]; simp

theorem sumExpW_eq (v w : List ℝ) (hv : v ≠ []) (h : v.length = w.length) :
    sumExpW v w = .ok (List.zipWith (fun x c => c * Real.exp x) v w).sum := by
  unfold sumExpW
  rw [if_neg (by simpa using h)]
  by_cases h1 : v.length = 1
  · rw [if_pos h1]
    obtain ⟨x, rfl⟩ := List.length_eq_one_iff.mp h1
    obtain ⟨c, rfl⟩ := List.length_eq_one_iff.mp (h ▸ h1 : w.length = 1)
    simp [at?]; rfl
  · obtain ⟨M, hM⟩ := vmax_defined v hv
    rw [if_neg h1, hM]
    simp only [bind, Except.bind, isInf_eq, Bool.false_eq_true, if_false, expSumW_eq M v w hv h, pure, Except.pure, exp_eq]
    rw [sum_zipWith_shift, mul_assoc, ← Real.exp_add]; simp

/-! ### extended values -/
section ExtR
open Ext

@[simp] theorem ext_add (a b : Ext ℝ) : a + b = Ext.add a b := rfl
@[simp] theorem ext_sub (a b : Ext ℝ) : a - b = Ext.sub a b := rfl
@[simp] theorem ext_mul (a b : Ext ℝ) : a * b = Ext.mul a b := rfl
@[simp] theorem ext_ofNat (n : Nat) : (LogArith.ofNat n : Ext ℝ) = Ext.fin (n : ℝ) := rfl
@[simp] theorem ext_ltb (a b : Ext ℝ) : LogArith.ltb a b = Ext.lt a b := rfl
@[simp] theorem ext_eqb (a b : Ext ℝ) : LogArith.eqb a b = Ext.beq a b := rfl
@[simp] theorem ext_exp (a : Ext ℝ) : LogArith.exp a = Ext.exp' a := rfl
@[simp] theorem ext_log (a : Ext ℝ) : LogArith.log a = Ext.log' a := rfl
@[simp] theorem ext_isInf (a : Ext ℝ) : LogArith.isInf a = Ext.isInf' a := rfl

theorem log'_fin_pos (x : ℝ) (h : 0 < x) : Ext.log' (Ext.fin x) = Ext.fin (Real.log x) := by
  simp [Ext.log', h]

theorem logsum_ninf_ninf : logsum (Ext.ninf : Ext ℝ) Ext.ninf = Ext.ninf := by
  simp [logsum, Ext.beq, Ext.log', Ext.add]

theorem logsumOrig_ninf_ninf : logsumOrig (Ext.ninf : Ext ℝ) Ext.ninf = Ext.nan := by
  simp [logsumOrig, Ext.lt, Ext.sub, Ext.exp', Ext.add, Ext.log']

theorem logsum_pinf_pinf : logsum (Ext.pinf : Ext ℝ) Ext.pinf = Ext.pinf := by
  simp [logsum, Ext.beq, Ext.log', Ext.add]

theorem logsum_ninf_fin (b : ℝ) : logsum (Ext.ninf : Ext ℝ) (Ext.fin b) = Ext.fin b ∧
    logsum (Ext.fin b) (Ext.ninf : Ext ℝ) = Ext.fin b := by
  constructor <;> simp [logsum, Ext.beq, Ext.lt, Ext.sub, Ext.exp', Ext.add, Ext.log']

theorem logsum_fin_fin (a b : ℝ) : logsum (Ext.fin a) (Ext.fin b) = Ext.fin (logsum a b) := by
  unfold logsum
  by_cases hab : a = b
  · subst hab; simp [Ext.beq, Ext.log', Ext.add]
  · have h1 : LogArith.eqb a b = false := by simp [hab]
    simp only [ext_eqb, Ext.beq, h1, Bool.false_eq_true, if_false, ext_ltb, Ext.lt]
    have hpos : ∀ t : ℝ, (0:ℝ) < 1 + Real.exp t := fun t => by positivity
    by_cases hlt : b < a
    · simp [hlt, Ext.sub, Ext.exp', Ext.add, Ext.log', hpos]
    · simp [hlt, Ext.sub, Ext.exp', Ext.add, Ext.log', hpos]

theorem logsum_comm_ext (a b : Ext ℝ) : logsum a b = logsum b a := by
  cases a <;> cases b <;>
    first
    | (rename_i x y; rw [logsum_fin_fin, logsum_fin_fin, logsum_eq, logsum_eq, add_comm])
    | simp [logsum, Ext.beq, Ext.lt, Ext.sub, Ext.exp', Ext.add, Ext.log']
end ExtR

/-! ### logSumExp over finite values and log-zeros -/

section ExtLse
open Ext

/-- the finite entries of a vector of extended values -/
def finPart : List (Ext ℝ) → List ℝ
  | [] => []
  | Ext.fin x :: l => x :: finPart l
  | _ :: l => finPart l

/-- only finite values and log-zeros -/
def LogVals (v : List (Ext ℝ)) : Prop := ∀ e ∈ v, e = Ext.ninf ∨ ∃ x, e = Ext.fin x

theorem LogVals.tail {e : Ext ℝ} {l : List (Ext ℝ)} (h : LogVals (e :: l)) : LogVals l :=
  fun x hx => h x (List.mem_cons_of_mem _ hx)

noncomputable abbrev stepMax (m y : Ext ℝ) : Ext ℝ := if LogArith.ltb m y then y else m
noncomputable abbrev stepMaxR (m y : ℝ) : ℝ := if LogArith.ltb m y then y else m

theorem stepMax_fin_ninf (a : ℝ) : stepMax (Ext.fin a) Ext.ninf = Ext.fin a := by
  simp [stepMax, Ext.lt]
theorem stepMax_fin_fin (a x : ℝ) : stepMax (Ext.fin a) (Ext.fin x) = Ext.fin (stepMaxR a x) := by
  simp only [stepMax, stepMaxR, ext_ltb, Ext.lt]
  by_cases h : LogArith.ltb a x = true <;> simp [h]
theorem stepMax_ninf_ninf : stepMax (Ext.ninf : Ext ℝ) Ext.ninf = Ext.ninf := by
  simp [stepMax, Ext.lt]
theorem stepMax_ninf_fin (x : ℝ) : stepMax (Ext.ninf : Ext ℝ) (Ext.fin x) = Ext.fin x := by
  simp [stepMax, Ext.lt]

theorem foldMax_fin (l : List (Ext ℝ)) (hl : LogVals l) (a : ℝ) :
    l.foldl stepMax (Ext.fin a) = Ext.fin ((finPart l).foldl stepMaxR a) := by
  induction l generalizing a with
  | nil => rfl
  | cons e es ih =>
    rcases hl e (by simp) with rfl | ⟨x, rfl⟩
    · rw [List.foldl_cons, stepMax_fin_ninf]; exact ih hl.tail a
    · rw [List.foldl_cons, stepMax_fin_fin]; exact ih hl.tail _

theorem foldMax_ninf (l : List (Ext ℝ)) (hl : LogVals l) :
    l.foldl stepMax Ext.ninf =
      match finPart l with
      | [] => Ext.ninf
      | x :: xs => Ext.fin (xs.foldl stepMaxR x) := by
  induction l with
  | nil => rfl
  | cons e es ih =>
    rcases hl e (by simp) with rfl | ⟨x, rfl⟩
    · rw [List.foldl_cons, stepMax_ninf_ninf]; exact ih hl.tail
    · rw [List.foldl_cons, stepMax_ninf_fin]; exact foldMax_fin es hl.tail x

theorem vmax_ext (v : List (Ext ℝ)) (hv : LogVals v) (m : ℝ) (hm : vmax (finPart v) = .ok m) :
    vmax v = .ok (Ext.fin m) := by
  cases v with
  | nil => simp [finPart, vmax, extremum] at hm
  | cons e es =>
    simp only [vmax, extremum]
    rcases hv e (by simp) with rfl | ⟨x, rfl⟩
    · have := foldMax_ninf es hv.tail
      simp only [finPart] at hm
      cases hf : finPart es with
      | nil => rw [hf] at hm; simp [vmax, extremum] at hm
      | cons y ys =>
        rw [hf] at this hm
        simp only [vmax, extremum, Except.ok.injEq] at hm
        rw [← hm]; exact congrArg Except.ok this
    · have := foldMax_fin es hv.tail x
      simp only [finPart, vmax, extremum, Except.ok.injEq] at hm
      rw [← hm]; exact congrArg Except.ok this

/-- one term of the shifted sum -/
noncomputable def termR (m : ℝ) : Ext ℝ → ℝ
  | Ext.fin x => Real.exp (x - m)
  | _ => 0

theorem term_ext (e : Ext ℝ) (he : e = Ext.ninf ∨ ∃ x, e = Ext.fin x) (m : ℝ) :
    LogArith.exp (e - Ext.fin m) = Ext.fin (termR m e) := by
  rcases he with rfl | ⟨x, rfl⟩
  · simp [Ext.sub, Ext.exp', termR]
  · simp [Ext.sub, Ext.exp', termR]

theorem add_term_ext (a : ℝ) (e : Ext ℝ) (he : e = Ext.ninf ∨ ∃ x, e = Ext.fin x) (m : ℝ) :
    Ext.fin a + LogArith.exp (e - Ext.fin m) = Ext.fin (a + termR m e) := by
  rw [term_ext e he m]; rfl

theorem foldSum_ext (l : List (Ext ℝ)) (hl : LogVals l) (m a : ℝ) :
    l.foldl (fun y z => y + LogArith.exp (z - Ext.fin m)) (Ext.fin a) =
      Ext.fin (a + ((finPart l).map (fun x => Real.exp (x - m))).sum) := by
  induction l generalizing a with
  | nil => simp [finPart]
  | cons e es ih =>
    rw [List.foldl_cons, add_term_ext a e (hl e (by simp)) m, ih hl.tail]
    rcases hl e (by simp) with rfl | ⟨x, rfl⟩
    · simp [finPart, termR]
    · simp only [finPart, termR, List.map_cons, List.sum_cons]; congr 1; ring

theorem expSum_ext (v : List (Ext ℝ)) (hv : LogVals v) (hne : v ≠ []) (m : ℝ) :
    expSum (Ext.fin m) v = .ok (Ext.fin ((finPart v).map (fun x => Real.exp (x - m))).sum) := by
  cases v with
  | nil => exact absurd rfl hne
  | cons e es =>
    simp only [expSum]
    rw [term_ext e (hv e (by simp)) m, foldSum_ext es hv.tail]
    rcases hv e (by simp) with rfl | ⟨x, rfl⟩
    · simp [finPart, termR]
    · simp [finPart, termR]

/-- `logSumExp` over finite values and log-zeros, at least one finite: the log-zeros contribute
`exp(-∞) = 0`, the answer is the finite `ln Σ exp` over the finite entries -/
theorem logSumExp_logzeros (v : List (Ext ℝ)) (hv : LogVals v) (hf : finPart v ≠ []) :
    logSumExp v = .ok (Ext.fin (Real.log ((finPart v).map Real.exp).sum)) := by
  have hne : v ≠ [] := by rintro rfl; exact hf rfl
  by_cases h1 : v.length = 1
  · obtain ⟨e, rfl⟩ := List.length_eq_one_iff.mp h1
    rcases hv e (by simp) with rfl | ⟨x, rfl⟩
    · exact absurd rfl hf
    · simp [logSumExp, at?, finPart]
  · obtain ⟨m, hm⟩ := vmax_defined (finPart v) hf
    obtain ⟨hmem, hle⟩ := vmax_spec _ m hm
    unfold logSumExp
    rw [if_neg h1, vmax_ext v hv m hm]
    simp only [bind, Except.bind, ext_isInf, Ext.isInf', Bool.false_eq_true, if_false, expSum_ext v hv hne m,
      pure, Except.pure, ext_log, ext_add]
    have hS : ((finPart v).map (fun x => Real.exp (x - m))).sum = ((shifted m (finPart v)).map Real.exp).sum := by
      simp [shifted, List.map_map, Function.comp_def]
    have hpos : 0 < ((finPart v).map (fun x => Real.exp (x - m))).sum := by
      rw [hS, sum_exp_shift]; exact mul_pos (sum_exp_pos _ hf) (Real.exp_pos _)
    rw [log'_fin_pos _ hpos]
    simp only [Ext.add]
    rw [hS, sum_exp_shift, Real.log_mul (sum_exp_pos _ hf).ne' (Real.exp_pos _).ne', Real.log_exp]
    congr 2; ring

/-- `logSumExp` of log-zeros only is log-zero -/
theorem logSumExp_all_logzero (n : Nat) : logSumExp (List.replicate (n + 1) (Ext.ninf : Ext ℝ)) = .ok Ext.ninf := by
  cases n with
  | zero => simp [logSumExp, at?]
  | succ k =>
    have hl : LogVals (List.replicate (k + 1) (Ext.ninf : Ext ℝ)) := by
      intro e he; exact Or.inl (List.eq_of_mem_replicate he)
    have hfp : ∀ j, finPart (List.replicate j (Ext.ninf : Ext ℝ)) = [] := by
      intro j; induction j with
      | zero => rfl
      | succ i ih => simp [List.replicate_succ, finPart, ih]
    unfold logSumExp
    have hlen : (List.replicate (k + 1 + 1) (Ext.ninf : Ext ℝ)).length ≠ 1 := by simp
    rw [if_neg hlen]
    have : vmax (List.replicate (k + 1 + 1) (Ext.ninf : Ext ℝ)) = .ok Ext.ninf := by
      rw [List.replicate_succ]
      simp only [vmax, extremum]
      have := foldMax_ninf _ hl
      rw [hfp] at this
      exact congrArg Except.ok this
    rw [this]
    simp [bind, Except.bind, Ext.isInf', pure, Except.pure]
end ExtLse

end Bpp.LogSpace
