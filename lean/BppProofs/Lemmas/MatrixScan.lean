import BppProofs.Lemmas.MatrixReal2
/-! Helper lemmas for C04: the extremum scan (`whichMax`, `whichMin`, `max`, `min`). -/
namespace Bpp.Mx
open Bpp Store

noncomputable instance : ExtCmp ℝ := ⟨fun _ => true, fun _ => true⟩

/-- row-major order on positions -/
def Before (p q i j : Nat) : Prop := p < i ∨ (p = i ∧ q < j)

/-- what the scan state means after all positions before `(i, j)` (row-major, columns `< nc`) have
been looked at, for a strict preference `R x c` = "`x` is strictly better than `c`" -/
def ScanInv (R : ℝ → ℝ → Prop) (a : Nat → Nat → ℝ) (nc i j : Nat) (s : Scan ℝ) : Prop :=
  (s.cur = none ∧ ∀ p q, q < nc → ¬ Before p q i j) ∨
  (s.cur = some (a s.i s.j) ∧ s.j < nc ∧ Before s.i s.j i j ∧
    (∀ p q, q < nc → Before p q i j → ¬ R (a p q) (a s.i s.j)) ∧
    (∀ p q, q < nc → Before p q s.i s.j → R (a s.i s.j) (a p q)))

theorem scan_spec (R : ℝ → ℝ → Prop) [DecidableRel R] (first : ℝ → Bool) (better : ℝ → ℝ → Bool)
    (hfirst : ∀ x, first x = true) (hbetter : ∀ x c, better x c = true ↔ R x c)
    (H1 : ∀ x c y, R x c → ¬ R y c → R x y) (H2 : ∀ x c y, R x c → ¬ R y c → ¬ R y x) (H3 : ∀ x, ¬ R x x)
    {A : Store ℝ} (hA : A.WF) :
    ∃ s, scan first better A = .ok s ∧ ScanInv R A.entry A.ncols A.nrows 0 s := by
  unfold scan
  apply loopM_inv (fun i s => ScanInv R A.entry A.ncols i 0 s)
  · left
    refine ⟨rfl, ?_⟩
    intro p q _ h
    rcases h with h | h <;> omega
  · intro i s hi hinv
    obtain ⟨s', e, h'⟩ := loopM_inv (fun j s => ScanInv R A.entry A.ncols i j s) A.ncols
      (fun j s => scanStep first better A i j s) s hinv
      (by
        intro j t hj hinv2
        simp only [scanStep, get_eq_entry hA hi hj]
        refine ⟨_, rfl, ?_⟩
        rcases hinv2 with ⟨hc, hemp⟩ | ⟨hc, hjt, hbef, hmax, hfst⟩
        · -- nothing seen so far: the entry is taken
          simp only [hc, hfirst, if_true]
          right
          refine ⟨rfl, hj, Or.inr ⟨rfl, Nat.lt_succ_self j⟩, ?_, ?_⟩
          · intro p q hq hb
            have : p = i ∧ q = j := by
              by_contra hne
              apply hemp p q hq
              rcases hb with hb | hb
              · exact Or.inl hb
              · exact Or.inr ⟨hb.1, by omega⟩
            rw [this.1, this.2]; exact H3 _
          · intro p q hq hb
            exact absurd hb (hemp p q hq)
        · simp only [hc]
          by_cases hR : R (A.entry i j) (A.entry t.i t.j)
          · -- strictly better: taken
            have : better (A.entry i j) (A.entry t.i t.j) = true := (hbetter _ _).2 hR
            simp only [this, if_true]
            right
            refine ⟨rfl, hj, Or.inr ⟨rfl, Nat.lt_succ_self j⟩, ?_, ?_⟩
            · intro p q hq hb
              by_cases hpq : p = i ∧ q = j
              · rw [hpq.1, hpq.2]; exact H3 _
              · have hb' : Before p q i j := by
                  rcases hb with hb | hb
                  · exact Or.inl hb
                  · exact Or.inr ⟨hb.1, by omega⟩
                exact H2 _ _ _ hR (hmax p q hq hb')
            · intro p q hq hb
              exact H1 _ _ _ hR (hmax p q hq hb)
          · -- not better: kept
            have : better (A.entry i j) (A.entry t.i t.j) = false := by
              rw [Bool.eq_false_iff]; intro h; exact hR ((hbetter _ _).1 h)
            simp only [this, Bool.false_eq_true, if_false]
            right
            refine ⟨hc, hjt, ?_, ?_, hfst⟩
            · rcases hbef with hb | hb
              · exact Or.inl hb
              · exact Or.inr ⟨hb.1, by omega⟩
            · intro p q hq hb
              by_cases hpq : p = i ∧ q = j
              · rw [hpq.1, hpq.2]; exact hR
              · apply hmax p q hq
                rcases hb with hb | hb
                · exact Or.inl hb
                · exact Or.inr ⟨hb.1, by omega⟩)
    refine ⟨s', e, ?_⟩
    -- all of row i seen = nothing of row i+1 seen
    rcases h' with ⟨hc, hemp⟩ | ⟨hc, hjt, hbef, hmax, hfst⟩
    · left
      refine ⟨hc, ?_⟩
      intro p q hq hb
      apply hemp p q hq
      rcases hb with hb | hb
      · by_cases hp : p = i
        · exact Or.inr ⟨hp, hq⟩
        · exact Or.inl (by omega)
      · omega
    · right
      refine ⟨hc, hjt, ?_, ?_, hfst⟩
      · rcases hbef with hb | hb
        · exact Or.inl (by omega)
        · exact Or.inl (by omega)
      · intro p q hq hb
        apply hmax p q hq
        rcases hb with hb | hb
        · by_cases hp : p = i
          · exact Or.inr ⟨hp, hq⟩
          · exact Or.inl (by omega)
        · omega

/-- the scan of a non-empty matrix ends on a position of the matrix that is the first extremum in
row-major order -/
theorem scan_nonempty (R : ℝ → ℝ → Prop) [DecidableRel R] (first : ℝ → Bool) (better : ℝ → ℝ → Bool)
    (hfirst : ∀ x, first x = true) (hbetter : ∀ x c, better x c = true ↔ R x c)
    (H1 : ∀ x c y, R x c → ¬ R y c → R x y) (H2 : ∀ x c y, R x c → ¬ R y c → ¬ R y x) (H3 : ∀ x, ¬ R x x)
    {A : Store ℝ} (hA : A.WF) (hr : 0 < A.nrows) (hc : 0 < A.ncols) :
    ∃ s, scan first better A = .ok s ∧ s.i < A.nrows ∧ s.j < A.ncols ∧ s.cur = some (A.entry s.i s.j) ∧
      (∀ p q, p < A.nrows → q < A.ncols → ¬ R (A.entry p q) (A.entry s.i s.j)) ∧
      (∀ p q, q < A.ncols → Before p q s.i s.j → R (A.entry s.i s.j) (A.entry p q)) := by
  obtain ⟨s, e, hinv⟩ := scan_spec R first better hfirst hbetter H1 H2 H3 hA
  rcases hinv with ⟨_, hemp⟩ | ⟨hcur, hj, hbef, hmax, hfst⟩
  · exact absurd (Or.inl hr) (hemp 0 0 hc)
  · refine ⟨s, e, ?_, hj, hcur, fun p q hp hq => hmax p q hq (Or.inl hp), hfst⟩
    rcases hbef with h | h
    · exact h
    · omega

end Bpp.Mx
