import BppModel.PNorm
import BppProofs.Lemmas.ScalarReal
/-!
Helper lemmas for C08: the exact-arithmetic reading (`ℝ`) of `BppModel/PNorm.lean` and
`BppModel/DistGuards.lean`.
-/
namespace Bpp.PNorm
open Bpp Bpp.Scalar

@[simp] theorem dy_real (n : Int) (k : Nat) : (dy n k : ℝ) = (n : ℝ) / 2 ^ k := by
  simp [dy]
@[simp] theorem half_real : (half : ℝ) = 1 / 2 := by simp [half]
@[simp] theorem two_real : (two : ℝ) = 2 := by simp [two]
@[simp] theorem sixteen_real : (sixteen : ℝ) = 16 := by simp [sixteen]
@[simp] theorem thirtyTwo_real : (thirtyTwo : ℝ) = 32 := by simp [thirtyTwo]

theorem cut2_real : (cut2 : ℝ) = Real.sqrt 32 := by simp [cut2]

theorem upCut_real : (upCut : ℝ) = 583525774218861 / 2 ^ 46 := by simp [upCut]
theorem lowCut_real : (lowCut : ℝ) = 2640186023425029 / 2 ^ 46 := by simp [lowCut]
theorem cut1_real : (cut1 : ℝ) = 3037631786765219 / 2 ^ 52 := by simp [cut1]
theorem eps_real : (eps : ℝ) = 6646139978924579 / 2 ^ 119 := by simp [eps]

theorem cut1_pos : (0 : ℝ) < cut1 := by rw [cut1_real]; norm_num

theorem cut2_lt_upCut : (cut2 : ℝ) < upCut := by
  rw [cut2_real, upCut_real, Real.sqrt_lt' (by norm_num)]
  norm_num

theorem upCut_lt_lowCut : (upCut : ℝ) < lowCut := by
  rw [upCut_real, lowCut_real]; norm_num

theorem cut1_lt_cut2 : (cut1 : ℝ) < cut2 := by
  rw [cut2_real, cut1_real]
  apply Real.lt_sqrt_of_sq_lt
  norm_num

end Bpp.PNorm
