import BppModel.PNorm
import BppModel.DistGuards
import BppProofs.Lemmas.ScalarReal
/-!
Helper lemmas for C08: the exact-arithmetic reading (`ℝ`) of `BppModel/PNorm.lean` and
`BppModel/DistGuards.lean`.
-/
namespace Bpp.PNorm
open Bpp Bpp.Scalar

@[simp] theorem dy_real (n : Int) (k : Nat) : (dy n k : ℝ) = (n : ℝ) / 2 ^ k := by
  simp [dy]
@[simp] theorem half_real : (half : ℝ) = 1 / 2 := by simp [half]
@[simp] theorem two_real : (two : ℝ) = 2 := by simp [two]
@[simp] theorem sixteen_real : (sixteen : ℝ) = 16 := by simp [sixteen]
@[simp] theorem thirtyTwo_real : (thirtyTwo : ℝ) = 32 := by simp [thirtyTwo]

theorem cut2_real : (cut2 : ℝ) = Real.sqrt 32 := by simp [cut2]

theorem upCut_real : (upCut : ℝ) = 583525774218861 / 2 ^ 46 := by simp [upCut]
theorem lowCut_real : (lowCut : ℝ) = 2640186023425029 / 2 ^ 46 := by simp [lowCut]
theorem cut1_real : (cut1 : ℝ) = 3037631786765219 / 2 ^ 52 := by simp [cut1]
theorem eps_real : (eps : ℝ) = 6646139978924579 / 2 ^ 119 := by simp [eps]

theorem cut1_pos : (0 : ℝ) < cut1 := by rw [cut1_real]; norm_num

theorem cut2_lt_upCut : (cut2 : ℝ) < upCut := by
  rw [cut2_real, upCut_real, Real.sqrt_lt' (by norm_num)]
  norm_num

theorem upCut_lt_lowCut : (upCut : ℝ) < lowCut := by
  rw [upCut_real, lowCut_real]; norm_num

theorem cut1_lt_cut2 : (cut1 : ℝ) < cut2 := by
  rw [cut2_real, cut1_real]
  apply Real.lt_sqrt_of_sq_lt
  norm_num

end Bpp.PNorm

namespace Bpp.PNorm
open Bpp Bpp.Scalar

/-! ### `pNorm` at `ℝ`: branch structure -/

theorem pNorm_real (ex tr : ℝ → ℝ) (x : ℝ) :
    pNorm ex tr x =
      if |x| ≤ cut1 then central x
      else if |x| ≤ cut2 then middle ex tr x
      else if -lowCut < x ∧ x < upCut then far ex tr x
      else if 0 < x then 1 else 0 := by
  simp [pNorm]

theorem middle_real (ex tr : ℝ → ℝ) (x : ℝ) :
    middle ex tr x = if 0 < x then 1 - middleTail ex tr |x| else middleTail ex tr |x| := by
  simp [middle]

theorem far_real (ex tr : ℝ → ℝ) (x : ℝ) :
    far ex tr x = if 0 < x then 1 - farTail ex tr x else farTail ex tr x := by
  simp [far]

/-- `temp` of the first range -/
noncomputable def centralTemp (x : ℝ) : ℝ :=
  x * ((if eps < |x| then cNum (x * x) else 0) + a3) / ((if eps < |x| then cDen (x * x) else 0) + b3)

theorem central_real (x : ℝ) : central x = 1 / 2 + centralTemp x := by
  simp [central, centralTemp]

theorem centralTemp_neg (x : ℝ) : centralTemp (-x) = -centralTemp x := by
  simp only [centralTemp, abs_neg, neg_mul_neg]
  ring

theorem tailTemp_neg (x : ℝ) : tailTemp (-x) = tailTemp x := by
  simp [tailTemp]

/-- with an odd `trunc` the far-tail formula is even in `x` -/
theorem farTail_neg (ex tr : ℝ → ℝ) (htr : ∀ z, tr (-z) = -tr z) (x : ℝ) :
    farTail ex tr (-x) = farTail ex tr x := by
  simp only [farTail, tailTemp_neg, neg_mul, htr]
  congr 3 <;> ring

/-! ### range of `pNorm`: crude but sufficient bounds on the three rational functions -/

theorem horner_ub {u U s m c C : ℝ} (hu0 : 0 ≤ u) (hu : u ≤ U) (hs0 : 0 ≤ s) (hs : s ≤ m)
    (hc0 : 0 ≤ c) (hc : c ≤ C) : 0 ≤ u * s + c ∧ u * s + c ≤ U * m + C := by
  constructor
  · positivity
  · have : u * s ≤ U * m := mul_le_mul hu hs hs0 (le_trans hu0 hu)
    linarith

theorem a0_bd : (0 : ℝ) ≤ a0 ∧ (a0 : ℝ) ≤ 3 := by simp only [a0, dy_real]; norm_num
theorem a1_bd : (0 : ℝ) ≤ a1 ∧ (a1 : ℝ) ≤ 162 := by simp only [a1, dy_real]; norm_num
theorem a2_bd : (0 : ℝ) ≤ a2 ∧ (a2 : ℝ) ≤ 1068 := by simp only [a2, dy_real]; norm_num
theorem a3_bd : (0 : ℝ) ≤ a3 ∧ (a3 : ℝ) ≤ 18155 := by simp only [a3, dy_real]; norm_num
theorem a4_bd : (0 : ℝ) ≤ a4 ∧ (a4 : ℝ) ≤ 1 := by simp only [a4, dy_real]; norm_num
theorem b0_bd : (0 : ℝ) ≤ b0 := by simp only [b0, dy_real]; norm_num
theorem b1_bd : (0 : ℝ) ≤ b1 := by simp only [b1, dy_real]; norm_num
theorem b2_bd : (0 : ℝ) ≤ b2 := by simp only [b2, dy_real]; norm_num
theorem b3_bd : (45507 : ℝ) ≤ b3 := by simp only [b3, dy_real]; norm_num

theorem cNum_bd {s : ℝ} (hs0 : 0 ≤ s) (hs : s ≤ 1 / 2) : 0 ≤ cNum s ∧ cNum s ≤ 575 := by
  have h1 := horner_ub a4_bd.1 a4_bd.2 hs0 hs a0_bd.1 a0_bd.2
  have h2 := horner_ub h1.1 h1.2 hs0 hs a1_bd.1 a1_bd.2
  have h3 := horner_ub h2.1 h2.2 hs0 hs a2_bd.1 a2_bd.2
  have h4 := horner_ub h3.1 h3.2 hs0 hs (le_refl (0:ℝ)) (le_refl 0)
  simp only [add_zero] at h4
  refine ⟨h4.1, le_trans h4.2 (by norm_num)⟩

theorem cDen_nonneg {s : ℝ} (hs0 : 0 ≤ s) : 0 ≤ cDen s := by
  have := b0_bd; have := b1_bd; have := b2_bd
  unfold cDen; positivity

theorem centralTemp_bd {x : ℝ} (hx : |x| ≤ cut1) : |centralTemp x| ≤ 1 / 2 := by
  have hc : (cut1 : ℝ) ≤ 17 / 25 := by rw [cut1_real]; norm_num
  have hax : |x| ≤ 17 / 25 := le_trans hx hc
  have hs0 : 0 ≤ x * x := mul_self_nonneg x
  have hs : x * x ≤ 1 / 2 := by
    have : x * x = |x| * |x| := (abs_mul_abs_self x).symm
    rw [this]; nlinarith [abs_nonneg x]
  obtain ⟨N, D, hN0, hN, hD0, hdef⟩ : ∃ N D : ℝ, 0 ≤ N ∧ N ≤ 575 ∧ 0 ≤ D ∧
      centralTemp x = x * (N + a3) / (D + b3) := by
    by_cases he : eps < |x|
    · exact ⟨cNum (x * x), cDen (x * x), (cNum_bd hs0 hs).1, (cNum_bd hs0 hs).2, cDen_nonneg hs0,
        by simp [centralTemp, he]⟩
    · exact ⟨0, 0, le_refl _, by norm_num, le_refl _, by simp [centralTemp, he]⟩
  have ha3 := a3_bd; have hb3 := b3_bd
  have hden : 0 < D + b3 := by linarith
  rw [hdef, abs_div, abs_mul, abs_of_pos hden, abs_of_nonneg (by linarith : 0 ≤ N + a3),
    div_le_iff₀ hden]
  have : |x| * (N + a3) ≤ 17 / 25 * (575 + 18155) :=
    mul_le_mul hax (by linarith) (by linarith) (by norm_num)
  linarith


/-- one Horner step of a coefficient-wise comparison of two polynomials on `y ≥ 0` -/
theorem horner_cmp {u U y c d : ℝ} (hu0 : 0 ≤ u) (hu : u ≤ U) (hy : 0 ≤ y) (hc0 : 0 ≤ c) (hc : c ≤ d) :
    0 ≤ u * y + c ∧ u * y + c ≤ U * y + d := by
  constructor
  · positivity
  · have : u * y ≤ U * y := mul_le_mul_of_nonneg_right hu hy
    linarith

theorem c0_bd : (0 : ℝ) ≤ c0 ∧ (c0 : ℝ) ≤ d0 := by simp only [c0, d0, dy_real]; norm_num
theorem c1_bd : (0 : ℝ) ≤ c1 ∧ (c1 : ℝ) ≤ d1 := by simp only [c1, d1, dy_real]; norm_num
theorem c2_bd : (0 : ℝ) ≤ c2 ∧ (c2 : ℝ) ≤ d2 := by simp only [c2, d2, dy_real]; norm_num
theorem c3_bd : (0 : ℝ) ≤ c3 ∧ (c3 : ℝ) ≤ d3 := by simp only [c3, d3, dy_real]; norm_num
theorem c4_bd : (0 : ℝ) ≤ c4 ∧ (c4 : ℝ) ≤ d4 := by simp only [c4, d4, dy_real]; norm_num
theorem c5_bd : (0 : ℝ) ≤ c5 ∧ (c5 : ℝ) ≤ d5 := by simp only [c5, d5, dy_real]; norm_num
theorem c6_bd : (0 : ℝ) ≤ c6 ∧ (c6 : ℝ) ≤ d6 := by simp only [c6, d6, dy_real]; norm_num
theorem c7_bd : (0 : ℝ) ≤ c7 ∧ (c7 : ℝ) ≤ d7 := by simp only [c7, d7, dy_real]; norm_num
theorem c8_bd : (0 : ℝ) ≤ c8 ∧ (c8 : ℝ) ≤ 1 := by simp only [c8, dy_real]; norm_num
theorem d7_pos : (0 : ℝ) < d7 := by simp only [d7, dy_real]; norm_num

/-- `temp` of the second range lies in `[0,1]`: numerator ≤ denominator coefficient by coefficient -/
theorem middleRatio_bd {y : ℝ} (hy : 0 ≤ y) :
    0 ≤ (mNum y + c7) / (mDen y + d7) ∧ (mNum y + c7) / (mDen y + d7) ≤ 1 := by
  have h0 : 0 ≤ c8 * y + c0 ∧ c8 * y + c0 ≤ y + d0 := by
    have := horner_cmp c8_bd.1 c8_bd.2 hy c0_bd.1 c0_bd.2
    simpa using this
  have h1 := horner_cmp h0.1 h0.2 hy c1_bd.1 c1_bd.2
  have h2 := horner_cmp h1.1 h1.2 hy c2_bd.1 c2_bd.2
  have h3 := horner_cmp h2.1 h2.2 hy c3_bd.1 c3_bd.2
  have h4 := horner_cmp h3.1 h3.2 hy c4_bd.1 c4_bd.2
  have h5 := horner_cmp h4.1 h4.2 hy c5_bd.1 c5_bd.2
  have h6 := horner_cmp h5.1 h5.2 hy c6_bd.1 c6_bd.2
  have h7 := horner_cmp h6.1 h6.2 hy c7_bd.1 c7_bd.2
  have hN : mNum y + c7 = (((((((c8 * y + c0) * y + c1) * y + c2) * y + c3) * y + c4) * y + c5) * y + c6) * y + c7 := rfl
  have hD : mDen y + d7 = (((((((y + d0) * y + d1) * y + d2) * y + d3) * y + d4) * y + d5) * y + d6) * y + d7 := rfl
  rw [hN, hD]
  have hpos : 0 < (((((((y + d0) * y + d1) * y + d2) * y + d3) * y + d4) * y + d5) * y + d6) * y + d7 := by
    have h := mul_nonneg (le_trans h6.1 h6.2) hy
    linarith [d7_pos]
  exact ⟨div_nonneg h7.1 (le_of_lt hpos), (div_le_one hpos).mpr h7.2⟩

/-- hypotheses on the abstract `exp` and `trunc` under which the range theorem holds -/
structure ExpTrunc (ex tr : ℝ → ℝ) : Prop where
  ex_range : ∀ t, t ≤ 0 → 0 ≤ ex t ∧ ex t ≤ 1
  tr_range : ∀ z, 0 ≤ z → 0 ≤ tr z ∧ tr z ≤ z
  tr_odd : ∀ z, tr (-z) = -tr z

theorem prod3_bd {a b c : ℝ} (ha : 0 ≤ a ∧ a ≤ 1) (hb : 0 ≤ b ∧ b ≤ 1) (hc : 0 ≤ c ∧ c ≤ 1) :
    0 ≤ a * b * c ∧ a * b * c ≤ 1 := by
  have hab : 0 ≤ a * b ∧ a * b ≤ 1 := ⟨mul_nonneg ha.1 hb.1, mul_le_one₀ ha.2 hb.1 hb.2⟩
  exact ⟨mul_nonneg hab.1 hc.1, mul_le_one₀ hab.2 hc.1 hc.2⟩

/-- the exponent `-del/2` is non-positive: `trunc(16 y)/16` lies between 0 and `y` -/
theorem del_nonneg {tr : ℝ → ℝ} (htr : ∀ z, 0 ≤ z → 0 ≤ tr z ∧ tr z ≤ z) {y : ℝ} (hy : 0 ≤ y) :
    0 ≤ (y - tr (y * 16) / 16) * (y + tr (y * 16) / 16) := by
  have h := htr (y * 16) (by positivity)
  have h1 : 0 ≤ tr (y * 16) / 16 := by have := h.1; positivity
  have h2 : tr (y * 16) / 16 ≤ y := by rw [div_le_iff₀ (by norm_num)]; exact h.2
  exact mul_nonneg (by linarith) (by linarith)

theorem middleTail_bd {ex tr : ℝ → ℝ} (H : ExpTrunc ex tr) {y : ℝ} (hy : 0 ≤ y) :
    0 ≤ middleTail ex tr y ∧ middleTail ex tr y ≤ 1 := by
  simp only [middleTail, sixteen_real, half_real]
  apply prod3_bd
  · apply H.ex_range
    have : 0 ≤ tr (y * 16) / 16 * (tr (y * 16) / 16) := mul_self_nonneg _
    linarith
  · apply H.ex_range
    have := del_nonneg H.tr_range hy
    linarith
  · exact middleRatio_bd hy


theorem p0_bd : (0 : ℝ) ≤ p0 ∧ (p0 : ℝ) ≤ 27 / 125 := by simp only [p0, dy_real]; norm_num
theorem p1_bd : (0 : ℝ) ≤ p1 ∧ (p1 : ℝ) ≤ 16 / 125 := by simp only [p1, dy_real]; norm_num
theorem p2_bd : (0 : ℝ) ≤ p2 ∧ (p2 : ℝ) ≤ 3 / 125 := by simp only [p2, dy_real]; norm_num
theorem p3_bd : (0 : ℝ) ≤ p3 ∧ (p3 : ℝ) ≤ 2 / 1000 := by simp only [p3, dy_real]; norm_num
theorem p4_bd : (0 : ℝ) ≤ p4 ∧ (p4 : ℝ) ≤ 3 / 100000 := by simp only [p4, dy_real]; norm_num
theorem p5_bd : (0 : ℝ) ≤ p5 ∧ (p5 : ℝ) ≤ 3 / 125 := by simp only [p5, dy_real]; norm_num
theorem q0_bd : (0 : ℝ) ≤ q0 := by simp only [q0, dy_real]; norm_num
theorem q1_bd : (0 : ℝ) ≤ q1 := by simp only [q1, dy_real]; norm_num
theorem q2_bd : (0 : ℝ) ≤ q2 := by simp only [q2, dy_real]; norm_num
theorem q3_bd : (0 : ℝ) ≤ q3 := by simp only [q3, dy_real]; norm_num
theorem q4_bd : (7 / 100000 : ℝ) ≤ q4 := by simp only [q4, dy_real]; norm_num

theorem tNum_bd {s : ℝ} (hs0 : 0 ≤ s) (hs : s ≤ 1 / 25) : 0 ≤ tNum s ∧ tNum s ≤ 2 / 10000 := by
  have h1 := horner_ub p5_bd.1 p5_bd.2 hs0 hs p0_bd.1 p0_bd.2
  have h2 := horner_ub h1.1 h1.2 hs0 hs p1_bd.1 p1_bd.2
  have h3 := horner_ub h2.1 h2.2 hs0 hs p2_bd.1 p2_bd.2
  have h4 := horner_ub h3.1 h3.2 hs0 hs p3_bd.1 p3_bd.2
  have h5 := horner_ub h4.1 h4.2 hs0 hs (le_refl (0:ℝ)) (le_refl 0)
  simp only [add_zero] at h5
  exact ⟨h5.1, le_trans h5.2 (by norm_num)⟩

theorem tDen_nonneg {s : ℝ} (hs0 : 0 ≤ s) : 0 ≤ tDen s := by
  have := q0_bd; have := q1_bd; have := q2_bd; have := q3_bd
  unfold tDen; positivity

theorem invSqrt2Pi_bd : (1 / 3 : ℝ) ≤ invSqrt2Pi ∧ (invSqrt2Pi : ℝ) ≤ 1 := by
  have hm : (two * mPi : ℝ) = 2 * (884279719003555 / 2 ^ 48) := by simp [mPi]
  have h1 : (1 : ℝ) ≤ Real.sqrt (two * mPi) := by
    rw [Real.le_sqrt' (by norm_num), hm]; norm_num
  have h3 : Real.sqrt (two * mPi) ≤ 3 := by
    rw [Real.sqrt_le_left (by norm_num), hm]; norm_num
  have hpos : (0 : ℝ) < Real.sqrt (two * mPi) := by linarith
  simp only [invSqrt2Pi, ScalarReal.one_eq, ScalarReal.sqrt_eq]
  constructor
  · rw [div_le_div_iff₀ (by norm_num) hpos]; linarith
  · rw [div_le_one hpos]; exact h1

theorem five_le_cut2 : (5 : ℝ) ≤ cut2 := by
  rw [cut2_real, Real.le_sqrt' (by norm_num)]; norm_num

/-- `temp` of the third range lies in `[0,1]` once `|x| ≥ 5` -/
theorem tailTemp_bd {x : ℝ} (hx : 5 ≤ |x|) : 0 < tailTemp x ∧ tailTemp x ≤ 1 := by
  have hxx : 25 ≤ x * x := by
    have : x * x = |x| * |x| := (abs_mul_abs_self x).symm
    rw [this]; nlinarith
  have hs0 : (0 : ℝ) ≤ 1 / (x * x) := by positivity
  have hs : 1 / (x * x) ≤ (1 : ℝ) / 25 := by
    apply one_div_le_one_div_of_le (by norm_num) hxx
  set s : ℝ := 1 / (x * x) with hsdef
  have hN := tNum_bd hs0 hs
  have hD := tDen_nonneg hs0
  have hp4 := p4_bd; have hq4 := q4_bd
  have hden : 0 < tDen s + q4 := by linarith
  have hT0 : 0 ≤ s * (tNum s + p4) / (tDen s + q4) :=
    div_nonneg (mul_nonneg hs0 (by linarith [hN.1])) (le_of_lt hden)
  have hT : s * (tNum s + p4) / (tDen s + q4) ≤ 1 / 4 := by
    rw [div_le_iff₀ hden]
    have h1 : s * (tNum s + p4) ≤ 1 / 25 * (2 / 10000 + 3 / 100000) :=
      mul_le_mul hs (by linarith [hN.2]) (by linarith [hN.1]) (by norm_num)
    nlinarith
  have hI := invSqrt2Pi_bd
  have hax : 0 < |x| := by linarith
  have e : tailTemp x = (invSqrt2Pi - s * (tNum s + p4) / (tDen s + q4)) / |x| := by
    simp [tailTemp, hsdef]
  rw [e]
  constructor
  · apply div_pos _ hax; linarith
  · rw [div_le_one hax]; linarith

theorem farTail_bd {ex tr : ℝ → ℝ} (H : ExpTrunc ex tr) {x : ℝ} (hx : 5 ≤ |x|) :
    0 ≤ farTail ex tr x ∧ farTail ex tr x ≤ 1 := by
  -- reduce to x ≥ 0 by evenness
  wlog hpos : 0 ≤ x generalizing x
  · have hn : 0 ≤ -x := by linarith
    have := this (x := -x) (by rwa [abs_neg]) hn
    rwa [farTail_neg ex tr H.tr_odd] at this
  simp only [farTail, sixteen_real, half_real]
  apply prod3_bd
  · apply H.ex_range
    have : 0 ≤ tr (x * 16) / 16 * (tr (x * 16) / 16) := mul_self_nonneg _
    linarith
  · apply H.ex_range
    have := del_nonneg H.tr_range hpos
    linarith
  · exact ⟨le_of_lt (tailTemp_bd hx).1, (tailTemp_bd hx).2⟩


/-- the mathematical `trunc` (round towards zero) -/
noncomputable def truncR (z : ℝ) : ℝ := if z < 0 then -(⌊-z⌋ : ℝ) else (⌊z⌋ : ℝ)

theorem truncR_odd (z : ℝ) : truncR (-z) = -truncR z := by
  unfold truncR
  rcases lt_trichotomy z 0 with h | h | h
  · have h1 : ¬ (-z < 0) := by linarith
    simp [h, h1]
  · subst h; simp
  · have h1 : -z < 0 := by linarith
    have h2 : ¬ (z < 0) := by linarith
    simp [h1, h2]

theorem expTrunc_real : ExpTrunc Real.exp truncR where
  ex_range t ht := ⟨le_of_lt (Real.exp_pos t), Real.exp_le_one_iff.mpr ht⟩
  tr_range z hz := by
    have : ¬ (z < 0) := not_lt.mpr hz
    simp only [truncR, this, if_false]
    exact ⟨by exact_mod_cast Int.floor_nonneg.mpr hz, Int.floor_le z⟩
  tr_odd := truncR_odd

end Bpp.PNorm

namespace Bpp.PNorm
open Bpp Bpp.Scalar

/-! ### `qNorm` at `ℝ` -/

theorem qEps_real : (qEps : ℝ) = 6646139978924579 / 2 ^ 119 := by simp [qEps]
theorem qEps_pos : (0 : ℝ) < qEps := by rw [qEps_real]; norm_num
theorem qEps_lt_half : (qEps : ℝ) < 1 / 2 := by rw [qEps_real]; norm_num
theorem qEps_ge : (1 / 2 ^ 67 : ℝ) ≤ qEps := by rw [qEps_real]; norm_num
@[simp] theorem qSentinel_real : (qSentinel : ℝ) = -9999 := by simp [qSentinel]

theorem qP1_real (p : ℝ) : qP1 p = if p < 1 / 2 then p else 1 - p := by simp [qP1]

theorem qNormSentinel_iff (p : ℝ) : qNormSentinel p = true ↔ p < qEps ∨ 1 - qEps < p := by
  have h := qEps_lt_half
  simp only [qNormSentinel, ScalarReal.ltb_iff, qP1_real]
  split
  · constructor
    · intro h1; exact Or.inl h1
    · rintro (h1 | h1)
      · exact h1
      · linarith
  · constructor
    · intro h1; right; linarith
    · rintro (h1 | h1)
      · linarith
      · linarith

theorem qNorm_real (p : ℝ) :
    qNorm p = if qP1 p < qEps then -9999 else if p < 1 / 2 then -qZ (qP1 p) else qZ (qP1 p) := by
  simp [qNorm]

/-- the rational correction term of Odeh & Evans lies in `[-4, 0]` for `y ≥ 0` -/
theorem qRatio_bd {y : ℝ} (hy : 0 ≤ y) :
    -4 ≤ ((((y * qa4 + qa3) * y + qa2) * y + qa1) * y + qa0) / ((((y * qb4 + qb3) * y + qb2) * y + qb1) * y + qb0) ∧
    ((((y * qa4 + qa3) * y + qa2) * y + qa1) * y + qa0) / ((((y * qb4 + qb3) * y + qb2) * y + qb1) * y + qb0) ≤ 0 := by
  have a0 : (-4 * qb0 : ℝ) ≤ qa0 ∧ (qa0 : ℝ) ≤ 0 := by simp only [qa0, qb0, dy_real]; norm_num
  have a1 : (-4 * qb1 : ℝ) ≤ qa1 ∧ (qa1 : ℝ) ≤ 0 := by simp only [qa1, qb1, dy_real, ScalarReal.ofInt_eq]; norm_num
  have a2 : (-4 * qb2 : ℝ) ≤ qa2 ∧ (qa2 : ℝ) ≤ 0 := by simp only [qa2, qb2, dy_real]; norm_num
  have a3 : (-4 * qb3 : ℝ) ≤ qa3 ∧ (qa3 : ℝ) ≤ 0 := by simp only [qa3, qb3, dy_real]; norm_num
  have a4 : (-4 * qb4 : ℝ) ≤ qa4 ∧ (qa4 : ℝ) ≤ 0 := by simp only [qa4, qb4, dy_real]; norm_num
  have b0 : (0 : ℝ) < qb0 := by simp only [qb0, dy_real]; norm_num
  have b1 : (0 : ℝ) ≤ qb1 := by simp only [qb1, dy_real]; norm_num
  have b2 : (0 : ℝ) ≤ qb2 := by simp only [qb2, dy_real]; norm_num
  have b3 : (0 : ℝ) ≤ qb3 := by simp only [qb3, dy_real]; norm_num
  have b4 : (0 : ℝ) ≤ qb4 := by simp only [qb4, dy_real]; norm_num
  -- Horner: -4 D_k ≤ N_k ≤ 0 and D_k ≥ 0 at every stage
  have step : ∀ {n d a b : ℝ}, (-4 * d ≤ n ∧ n ≤ 0 ∧ 0 ≤ d) → (-4 * b ≤ a ∧ a ≤ 0) → 0 ≤ b →
      (-4 * (d * y + b) ≤ n * y + a ∧ n * y + a ≤ 0 ∧ 0 ≤ d * y + b) := by
    intro n d a b h ha hb
    have h1 : -4 * d * y ≤ n * y := mul_le_mul_of_nonneg_right h.1 hy
    have h2 : n * y ≤ 0 := mul_nonpos_of_nonpos_of_nonneg h.2.1 hy
    have h3 : 0 ≤ d * y := mul_nonneg h.2.2 hy
    exact ⟨by nlinarith, by linarith [ha.2], by linarith⟩
  have s0 : -4 * (y * qb4 + qb3) ≤ y * qa4 + qa3 ∧ y * qa4 + qa3 ≤ 0 ∧ 0 ≤ y * qb4 + qb3 := by
    have := step (n := qa4) (d := qb4) ⟨a4.1, a4.2, b4⟩ a3 b3
    simpa [mul_comm] using this
  have s1 := step s0 a2 b2
  have s2 := step s1 a1 b1
  have s3 := step s2 a0 (le_of_lt b0)
  have hD : 0 < (((y * qb4 + qb3) * y + qb2) * y + qb1) * y + qb0 := by
    have := mul_nonneg s2.2.2 hy; linarith
  exact ⟨by rw [le_div_iff₀ hD]; linarith [s3.1], div_nonpos_of_nonpos_of_nonneg s3.2.1 (le_of_lt hD)⟩

theorem qZ_bd (p1 : ℝ) : Real.sqrt (Real.log (1 / (p1 * p1))) - 4 ≤ qZ p1 ∧
    qZ p1 ≤ Real.sqrt (Real.log (1 / (p1 * p1))) := by
  have h := qRatio_bd (Real.sqrt_nonneg (Real.log (1 / (p1 * p1))))
  simp only [qZ, ScalarReal.sqrt_eq, ScalarReal.log_eq, ScalarReal.one_eq]
  constructor <;> linarith [h.1, h.2]

/-- for `p1 ≥ 1e-20` the argument `y` of the rational function is at most 12 -/
theorem qY_le {p1 : ℝ} (h : qEps ≤ p1) : Real.sqrt (Real.log (1 / (p1 * p1))) ≤ 12 := by
  have hp : (1 / 2 ^ 67 : ℝ) ≤ p1 := le_trans qEps_ge h
  have hpos : (0 : ℝ) < p1 := lt_of_lt_of_le (by positivity) hp
  have h1 : 1 / (p1 * p1) ≤ (2 : ℝ) ^ 134 := by
    rw [div_le_iff₀ (by positivity)]
    have : (1 / 2 ^ 67 : ℝ) * (1 / 2 ^ 67) ≤ p1 * p1 := mul_le_mul hp hp (by positivity) (le_of_lt hpos)
    calc (1 : ℝ) = 2 ^ 134 * (1 / 2 ^ 67 * (1 / 2 ^ 67)) := by norm_num
      _ ≤ 2 ^ 134 * (p1 * p1) := mul_le_mul_of_nonneg_left this (by positivity)
  have h2 : Real.log (1 / (p1 * p1)) ≤ 134 := by
    calc Real.log (1 / (p1 * p1)) ≤ Real.log ((2 : ℝ) ^ 134) := Real.log_le_log (by positivity) h1
      _ = 134 * Real.log 2 := by rw [Real.log_pow]; norm_num
      _ ≤ 134 * 1 := by
          have : Real.log 2 ≤ 2 - 1 := Real.log_le_sub_one_of_pos (by norm_num)
          nlinarith
      _ = 134 := by norm_num
  rw [Real.sqrt_le_left (by norm_num)]
  linarith

/-- inside its domain `qNorm` never returns the error value -/
theorem qNorm_ne_sentinel {p : ℝ} (h : qNormSentinel p = false) : qNorm p ≠ -9999 := by
  have hs : ¬ (qP1 p < qEps) := by
    simpa [qNormSentinel] using h
  rw [qNorm_real, if_neg hs]
  have hb := qZ_bd (qP1 p)
  have hy := qY_le (not_lt.mp hs)
  have hy0 := Real.sqrt_nonneg (Real.log (1 / (qP1 p * qP1 p)))
  split
  · intro e; linarith [hb.2]
  · intro e; linarith [hb.1]

end Bpp.PNorm

namespace Bpp.DistGuards
open Bpp Bpp.Scalar Bpp.PNorm

/-! ### the guard layer at `ℝ` -/

@[simp] theorem eqb_false_iff (x y : ℝ) : Scalar.eqb x y = false ↔ x ≠ y := by simp [Scalar.eqb]
@[simp] theorem minusOne_real : (minusOne : ℝ) = -1 := by simp [minusOne]
theorem chLo_real : (chLo : ℝ) = 4722366482869645 / 2 ^ 71 := by simp [chLo]
theorem chHi_real : (chHi : ℝ) = 9007181240342483 / 2 ^ 53 := by simp [chHi]
theorem chLo_pos : (0 : ℝ) < chLo := by rw [chLo_real]; norm_num
theorem chLo_lt_chHi : (chLo : ℝ) < chHi := by rw [chLo_real, chHi_real]; norm_num
theorem chHi_lt_one : (chHi : ℝ) < 1 := by rw [chHi_real]; norm_num

theorem igSentinel_iff (x a : ℝ) : igSentinel x a = true ↔ x < 0 ∨ a ≤ 0 := by
  simp [igSentinel]
theorem pGammaRaises_iff (a b : ℝ) : pGammaRaises a b = true ↔ a < 0 ∨ b < 0 := by
  simp [pGammaRaises]
theorem pChisqRaises_iff (x v : ℝ) : pChisqRaises x v = true ↔ 0 ≤ x ∧ v < 0 := by
  simp [pChisqRaises]
  intro _
  constructor <;> intro h <;> linarith
theorem qChisqSentinel_iff (p v : ℝ) : qChisqSentinel p v = true ↔ p < chLo ∨ chHi < p ∨ v ≤ 0 := by
  simp [qChisqSentinel, or_assoc]
theorem ibRaises_iff (x a b : ℝ) : ibRaises x a b = true ↔ a ≤ 0 ∨ b ≤ 0 ∨ x < 0 ∨ 1 < x := by
  simp [ibRaises, or_assoc]
theorem qBetaRaises_iff (p a b : ℝ) : qBetaRaises p a b = true ↔ p < 0 ∨ 1 < p ∨ a < 0 ∨ b < 0 := by
  simp [qBetaRaises, or_assoc]

theorem qChisq_of_sentinel (K : Kernels ℝ) (p v : ℝ) (h : qChisqSentinel p v = true) : qChisq K p v = -1 := by
  have : (ltb p chLo || gtb p chHi || leb v zero) = true := h
  simp only [qChisq, this, if_true, minusOne_real]
theorem qChisq_of_domain (K : Kernels ℝ) (p v : ℝ) (h : qChisqSentinel p v = false) : qChisq K p v = K.qChisqCore p v := by
  have : (ltb p chLo || gtb p chHi || leb v zero) = false := h
  simp only [qChisq, this, Bool.false_eq_true, if_false]


end Bpp.DistGuards
