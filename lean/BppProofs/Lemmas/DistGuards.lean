import BppModel.PNorm
import BppProofs.Lemmas.ScalarReal
/-!
Helper lemmas for C08: the exact-arithmetic reading (`ℝ`) of `BppModel/PNorm.lean` and
`BppModel/DistGuards.lean`.
-/
namespace Bpp.PNorm
open Bpp Bpp.Scalar

@[simp] theorem dy_real (n : Int) (k : Nat) : (dy n k : ℝ) = (n : ℝ) / 2 ^ k := by
  simp [dy]
@[simp] theorem half_real : (half : ℝ) = 1 / 2 := by simp [half]
@[simp] theorem two_real : (two : ℝ) = 2 := by simp [two]
@[simp] theorem sixteen_real : (sixteen : ℝ) = 16 := by simp [sixteen]
@[simp] theorem thirtyTwo_real : (thirtyTwo : ℝ) = 32 := by simp [thirtyTwo]

theorem cut2_real : (cut2 : ℝ) = Real.sqrt 32 := by simp [cut2]

theorem upCut_real : (upCut : ℝ) = 583525774218861 / 2 ^ 46 := by simp [upCut]
theorem lowCut_real : (lowCut : ℝ) = 2640186023425029 / 2 ^ 46 := by simp [lowCut]
theorem cut1_real : (cut1 : ℝ) = 3037631786765219 / 2 ^ 52 := by simp [cut1]
theorem eps_real : (eps : ℝ) = 6646139978924579 / 2 ^ 119 := by simp [eps]

theorem cut1_pos : (0 : ℝ) < cut1 := by rw [cut1_real]; norm_num

theorem cut2_lt_upCut : (cut2 : ℝ) < upCut := by
  rw [cut2_real, upCut_real, Real.sqrt_lt' (by norm_num)]
  norm_num

theorem upCut_lt_lowCut : (upCut : ℝ) < lowCut := by
  rw [upCut_real, lowCut_real]; norm_num

theorem cut1_lt_cut2 : (cut1 : ℝ) < cut2 := by
  rw [cut2_real, cut1_real]
  apply Real.lt_sqrt_of_sq_lt
  norm_num

end Bpp.PNorm

namespace Bpp.PNorm
open Bpp Bpp.Scalar

/-! ### `pNorm` at `ℝ`: branch structure -/

theorem pNorm_real (ex tr : ℝ → ℝ) (x : ℝ) :
    pNorm ex tr x =
      if |x| ≤ cut1 then central x
      else if |x| ≤ cut2 then middle ex tr x
      else if -lowCut < x ∧ x < upCut then far ex tr x
      else if 0 < x then 1 else 0 := by
  simp [pNorm]

theorem middle_real (ex tr : ℝ → ℝ) (x : ℝ) :
    middle ex tr x = if 0 < x then 1 - middleTail ex tr |x| else middleTail ex tr |x| := by
  simp [middle]

theorem far_real (ex tr : ℝ → ℝ) (x : ℝ) :
    far ex tr x = if 0 < x then 1 - farTail ex tr x else farTail ex tr x := by
  simp [far]

/-- `temp` of the first range -/
noncomputable def centralTemp (x : ℝ) : ℝ :=
  x * ((if eps < |x| then cNum (x * x) else 0) + a3) / ((if eps < |x| then cDen (x * x) else 0) + b3)

theorem central_real (x : ℝ) : central x = 1 / 2 + centralTemp x := by
  simp [central, centralTemp]

theorem centralTemp_neg (x : ℝ) : centralTemp (-x) = -centralTemp x := by
  simp only [centralTemp, abs_neg, neg_mul_neg]
  ring

theorem tailTemp_neg (x : ℝ) : tailTemp (-x) = tailTemp x := by
  simp [tailTemp]

/-- with an odd `trunc` the far-tail formula is even in `x` -/
theorem farTail_neg (ex tr : ℝ → ℝ) (htr : ∀ z, tr (-z) = -tr z) (x : ℝ) :
    farTail ex tr (-x) = farTail ex tr x := by
  simp only [farTail, tailTemp_neg, neg_mul, htr]
  congr 3 <;> ring

end Bpp.PNorm
