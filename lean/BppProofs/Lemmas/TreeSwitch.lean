import BppProofs.Lemmas.TreeRooted
import BppProofs.Lemmas.GraphSpec
/-
`switchNodes` on a consistent directed graph turns one relation round: effect on the relations,
on the edge table (same ids, same end points up to order), and on a rooted tree (re-rooting at a son
of the root).
-/
namespace Bpp.Graph
open AL

/-- the edge table with the end points of every edge put in order: the undirected edge set with
its edge identities -/
def uedges (g : G) : List (Nat × Nat × Nat) := g.edges.map (fun p => (p.1, min p.2.1 p.2.2, max p.2.1 p.2.2))

/-- what re-rooting steps keep: root aside, the same nodes, the same undirected edges with the same ids -/
structure SameShape (g g' : G) : Prop where
  keys : AL.keys g'.nodes = AL.keys g.nodes
  uedges : uedges g' = uedges g
  pending : g'.pending = []

theorem SameShape.trans {g1 g2 g3 : G} (h12 : SameShape g1 g2) (h23 : SameShape g2 g3) : SameShape g1 g3 :=
  ⟨h23.keys.trans h12.keys, h23.uedges.trans h12.uedges, h23.pending⟩

theorem SameShape.length {g g' : G} (h : SameShape g g') : g'.nodes.length = g.nodes.length := by
  have := congrArg List.length h.keys
  simpa [AL.keys] using this

theorem SameShape.hasNode {g g' : G} (h : SameShape g g') (n : Nat) : g'.hasNode n = g.hasNode n := by
  have h1 := G.mem_keys_hasNode g' n
  have h2 := G.mem_keys_hasNode g n
  rw [h.keys] at h1
  cases ha : g'.hasNode n <;> cases hb : g.hasNode n <;> simp_all

/-- what `switchNodes` did to the relation `f -> s` carried by edge `e` -/
structure Flipped (f s e : Nat) (g g' : G) : Prop where
  cons : Consistent g'
  dir : g'.directed = true
  keys : AL.keys g'.nodes = AL.keys g.nodes
  arc : ∀ x y, Arc g' x y ↔ ((x = s ∧ y = f) ∨ (¬ (x = f ∧ y = s) ∧ Arc g x y))
  edges : g'.edges = AL.set e (s, f) g.edges
  root : g'.root = g.root
  pending : g'.pending = g.pending

theorem keys_switchedNodes (f s e : Nat) (nodes : List (Nat × Row)) : AL.keys (G.switchedNodes f s e nodes) = AL.keys nodes := by
  simp [G.switchedNodes, keys_modify]

/-- `switchNodes`, called with the two nodes in either order, turns round the one relation between them -/
theorem switch_flip {g : G} (hc : Consistent g) (hd : g.directed = true) {f s e : Nat} (hO : g.outE f s = some e)
    (hne : f ≠ s) (hno : g.outE s f = none) :
    ∃ g', G.switchNodes f s g = .ok () g' ∧ G.switchNodes s f g = .ok () g' ∧ Flipped f s e g g' := by
  have hnf : g.hasNode f = true := G.outE_some_hasNode hO
  have hin := (G.cons_out_some hc hO).1
  have hns : g.hasNode s = true := G.inE_some_hasNode hin
  have hsf : G.switchFrom f s e g = .ok () { g with nodes := G.switchedNodes f s e g.nodes, edges := AL.set e (s, f) g.edges } := by
    unfold G.switchFrom
    simp [hin, hno]
  refine ⟨{ g with nodes := G.switchedNodes f s e g.nodes, edges := AL.set e (s, f) g.edges }, ?_, ?_, ?_⟩
  · unfold G.switchNodes; simp [hd, hnf, hns, hO, hsf]
  · unfold G.switchNodes; simp [hd, hnf, hns, hO, hno, hsf]
  · have hcons : Consistent { g with nodes := G.switchedNodes f s e g.nodes, edges := AL.set e (s, f) g.edges } := by
      have := G.switchFrom_consistent hc hd hO
      rw [hsf] at this; exact this
    refine ⟨hcons, hd, keys_switchedNodes f s e g.nodes, ?_, rfl, rfl, rfl⟩
    intro x y
    unfold Arc G.outE
    simp only
    rw [G.outE_switched]
    have hs' : (find s g.nodes).isSome = true := hns
    by_cases h1 : x = s ∧ y = f
    · simp [h1, hs']
    · by_cases h2 : x = f ∧ y = s
      · have : ¬ (x = s ∧ y = f) := h1
        simp only [h2, and_self, not_true_eq_false, false_and, or_false]
        obtain ⟨rfl, rfl⟩ := h2
        simp [hne, Ne.symm hne]
      · simp only [h1, h2, if_false, false_or, not_false_eq_true, true_and]
        simp [hs', h1]

theorem uedges_set {es : List (Nat × (Nat × Nat))} (hs : Asc es) {e f s : Nat} (h : find e es = some (f, s)) :
    (AL.set e (s, f) es).map (fun p => (p.1, min p.2.1 p.2.2, max p.2.1 p.2.2)) =
      es.map (fun p => (p.1, min p.2.1 p.2.2, max p.2.1 p.2.2)) := by
  rw [G.set_present h, List.map_map]
  apply List.map_congr_left
  intro p hp
  simp only [Function.comp]
  by_cases hk : p.1 = e
  · have : find p.1 es = some p.2 := (mem_iff_find hs p.1 p.2).1 hp
    rw [hk, h] at this
    have h2 : p.2 = (f, s) := (Option.some.inj this).symm
    simp [hk, h2, Nat.min_comm, Nat.max_comm]
  · simp [hk]

theorem Flipped.sameShape {f s e : Nat} {g g' : G} (h : Flipped f s e g g') (hc : Consistent g) (hd : g.directed = true)
    (hO : g.outE f s = some e) (hq : g.pending = []) : SameShape g g' := by
  refine ⟨h.keys, ?_, by rw [h.pending, hq]⟩
  unfold uedges
  rw [h.edges]
  have hE : find e g.edges = some (f, s) := by
    rcases hc.views.out_edge f s e hO with h1 | ⟨h2, _⟩
    · exact h1
    · rw [hd] at h2; cases h2
  exact uedges_set hc.sorted.edges hE

/-- consistency and the relations do not depend on the root nor on the pending notifications -/
theorem consistent_congr {g g' : G} (hn : g'.nodes = g.nodes) (he : g'.edges = g.edges) (hd : g'.directed = g.directed)
    (h1 : g'.nextNode = g.nextNode) (h2 : g'.nextEdge = g.nextEdge) (hc : Consistent g) : Consistent g' := by
  have hO : g'.outE = g.outE := by funext a b; simp [G.outE, hn]
  have hI : g'.inE = g.inE := by funext a b; simp [G.inE, hn]
  have hN : g'.hasNode = g.hasNode := by funext a; simp [G.hasNode, hn]
  refine ⟨?_, ?_, ?_, ?_⟩
  · rw [hd, hN, hO, hI, he]; exact hc.views
  · intro n hn'; rw [hN] at hn'; rw [h1]; exact hc.node_lt n hn'
  · intro e he'; simp only [G.hasEdge, he] at he'; rw [h2]; exact hc.edge_lt e he'
  · exact ⟨by rw [hn]; exact hc.sorted.nodes, by rw [he]; exact hc.sorted.edges, by rw [hn]; exact hc.sorted.rows⟩

theorem DTree.congr {g g' : G} {P : PTree} (h : DTree g P) (hn : g'.nodes = g.nodes) (he : g'.edges = g.edges)
    (hd : g'.directed = g.directed) (h1 : g'.nextNode = g.nextNode) (h2 : g'.nextEdge = g.nextEdge) : DTree g' P := by
  have hO : g'.outE = g.outE := by funext a b; simp [G.outE, hn]
  have hN : g'.hasNode = g.hasNode := by funext a; simp [G.hasNode, hn]
  exact ⟨consistent_congr hn he hd h1 h2 h.cons, by rw [hd]; exact h.dir, h.wf, by intro n; rw [hN]; exact h.nodes n,
    by intro a b; unfold Arc; rw [hO]; exact h.arc a b⟩

/-- turning round the relation between the root and one of its sons re-roots the tree at that son -/
theorem DTree.flip {g g' : G} {P : PTree} (h : DTree g P) {s e : Nat} (hs : P.par s = some P.root)
    (hf : Flipped P.root s e g g') : DTree g' (P.reroot s) := by
  have hwf := PTree.reroot_wf h.wf hs
  have hsr : s ≠ P.root := (h.wf.par_mem hs).2.1
  refine ⟨hf.cons, hf.dir, hwf, ?_, ?_⟩
  · intro n
    have : (P.reroot s).nodes = P.nodes := rfl
    rw [this, h.nodes n]
    have h1 := G.mem_keys_hasNode g' n
    have h2 := G.mem_keys_hasNode g n
    rw [hf.keys] at h1
    cases ha : g'.hasNode n <;> cases hb : g.hasNode n <;> simp_all
  · intro x y
    rw [hf.arc x y, h.arc x y]
    constructor
    · rintro (⟨rfl, rfl⟩ | ⟨hn, hp⟩)
      · exact PTree.reroot_par_root x
      · have hyr : y ≠ P.root := by intro e; rw [e, h.wf.par_root] at hp; cases hp
        have hys : y ≠ s := by
          intro e; subst e; rw [hs] at hp; cases hp; exact hn ⟨rfl, rfl⟩
        rw [PTree.reroot_par_other s y hyr hys]; exact hp
    · intro hp
      by_cases hyr : y = P.root
      · subst hyr; rw [PTree.reroot_par_root] at hp; cases hp; exact .inl ⟨rfl, rfl⟩
      · by_cases hys : y = s
        · subst hys; rw [PTree.reroot_par_new h.wf hs] at hp; cases hp
        · rw [PTree.reroot_par_other s y hyr hys] at hp
          exact .inr ⟨fun hh => hys hh.2, hp⟩

end Bpp.Graph
