import BppModel.RandGen
import BppProofs.Lemmas.RandRcont
/-! Lemmas for C18 (audit round 1, M1): totality of `rcont2`.  For every interpretation of the
inverse-cdf walk that stops inside the support of the cell's conditional hypergeometric law, the
cell values drawn on the generator (`RandGen.genRow` / `genRows`) are accepted by the integer
book-keeping (`Rand.rowLoop` / `rowsLoop`): never `starved`, `unreachable`, `ub`. -/
namespace Bpp.Rand
open Bpp Bpp.RandGen

/-- the walk stops inside the support `max(0, ia+id-ie) ≤ v ≤ min(ia, id)` of the cell -/
def WalkInSupport {σ α : Type} (P : Prims σ α) : Prop :=
  ∀ (ntot ia id ie : Int) (g : σ), 0 ≤ ia → 0 ≤ id → 0 < ie → ia ≤ ie → id ≤ ie →
    0 ≤ (P.rcell ntot ia id ie g).1 ∧ ia + id - ie ≤ (P.rcell ntot ia id ie g).1 ∧
    (P.rcell ntot ia id ie g).1 ≤ ia ∧ (P.rcell ntot ia id ie g).1 ≤ id

variable {σ α : Type}

theorem rowLoop_genRow (P : Prims σ α) (hP : WalkInSupport P) (ntot : Int) :
    ∀ (jwork : List Int) (ia ic ib : Int) (g : σ),
    0 ≤ ia → (∀ x ∈ jwork, 0 ≤ x) → jwork.sum ≤ ic → ia ≤ ic → ic ≤ ntot →
    ∃ o, rowLoop startCell ntot ia ic ib jwork (genRow P ntot ia ic jwork g).1 = .ok o ∧
      o.jwork = (genRow P ntot ia ic jwork g).2.1
  | [], ia, ic, ib, g, _, _, _, _, _ => ⟨⟨[], [], ia, ib⟩, by simp [rowLoop, genRow], by simp [genRow]⟩
  | id :: rest, ia, ic, ib, g, h0, hj, hs, hle, hn => by
    have hid : 0 ≤ id := hj id List.mem_cons_self
    have hrest : ∀ x ∈ rest, 0 ≤ x := fun x hx => hj x (List.mem_cons_of_mem _ hx)
    have hrs : 0 ≤ rest.sum := List.sum_nonneg hrest
    rw [List.sum_cons] at hs
    by_cases hie : ic = 0
    · refine ⟨⟨(id :: rest).map (fun _ => 0), id :: rest, 0, ic - ia⟩, ?_, ?_⟩
      · simp only [rowLoop, genRow, hie, if_true]
      · simp [genRow, hie]
    · have hiepos : 0 < ic := by omega
      have hde : id ≤ ic := by omega
      obtain ⟨s0, s1, s2, s3⟩ := startCell_bound h0 hid hiepos hle hde
      obtain ⟨v0, v1, v2, v3⟩ := hP ntot ia id ic g h0 hid hiepos hle hde
      have hf : factReadsOk ntot ia (ic - ia) (ic - id) id ic (ic - ia - id) (startCell ia id ic) = true := by
        simp only [factReadsOk, List.all_cons, List.all_nil, Bool.and_true, Bool.and_eq_true, decide_eq_true_eq]
        omega
      have hreach : canReach ia id (ic - ia - id) (startCell ia id ic) (P.rcell ntot ia id ic g).1 = true :=
        (canReach_iff (ii := ic - ia - id) s0 (by omega) s2 s3).mpr ⟨v0, by omega, v2, v3⟩
      obtain ⟨o', ho', hjw'⟩ := rowLoop_genRow P hP ntot rest (ia - (P.rcell ntot ia id ic g).1) (ic - id) (ic - ia)
        (P.rcell ntot ia id ic g).2 (by omega) hrest (by omega) (by omega) (by omega)
      refine ⟨⟨(P.rcell ntot ia id ic g).1 :: o'.cells, (id - (P.rcell ntot ia id ic g).1) :: o'.jwork, o'.ia, o'.ib⟩, ?_, ?_⟩
      · simp only [rowLoop, genRow, hie, if_false, hf, Bool.not_true, Bool.false_eq_true, hreach, ho']
      · simp only [genRow, hie, if_false, hjw']

theorem rowsLoop_genRows (P : Prims σ α) (hP : WalkInSupport P) (ntot : Int) :
    ∀ (rows : List Int) (jc ib : Int) (jwork : List Int) (g : σ),
    (∀ x ∈ jwork, 0 ≤ x) → (∀ r ∈ rows, 0 ≤ r) → jwork.sum ≤ jc → rows.sum ≤ jc → jc ≤ ntot →
    ∃ t, rowsLoop startCell ntot jc ib jwork rows (genRows P ntot jc jwork rows g).1 = .ok t
  | [], jc, ib, jwork, g, _, _, _, _, _ => ⟨⟨[], jwork, ib⟩, by simp [rowsLoop, genRows]⟩
  | ia :: rest, jc, ib, jwork, g, hj, hr, hs, hrs, hn => by
    have hia : 0 ≤ ia := hr ia List.mem_cons_self
    have hrest : ∀ r ∈ rest, 0 ≤ r := fun x hx => hr x (List.mem_cons_of_mem _ hx)
    have hrest0 : 0 ≤ rest.sum := List.sum_nonneg hrest
    rw [List.sum_cons] at hrs
    obtain ⟨o, ho, hjw⟩ := rowLoop_genRow P hP ntot jwork ia jc ib g hia hj hs (by omega) hn
    have sp := rowLoop_spec ntot jwork _ ia jc ib o ho hia hj hs (by omega)
    have hsj := sp.sumJ
    have hrsum := sp.rowSum
    have hile := sp.iaLe
    obtain ⟨t, ht⟩ := rowsLoop_genRows P hP ntot rest (jc - ia) o.ib o.jwork (genRow P ntot ia jc jwork g).2.2
      sp.jworkNonneg hrest (by omega) (by omega) (by omega)
    refine ⟨⟨(o.cells ++ [o.ia]) :: t.rows, t.jwork, t.ib⟩, ?_⟩
    simp only [rowsLoop, genRows, List.headD_cons, List.tail_cons, ho]
    rw [← hjw, ht]

/-- `rcont2` on the generator returns a table for all valid margins -/
theorem rcont2G_ok (P : Prims σ α) (hP : WalkInSupport P) (rows cols : List Nat) (g : σ)
    (h2r : 2 ≤ rows.length) (h2c : 2 ≤ cols.length) (hsum : rows.sum = cols.sum) :
    ∃ T, (rcont2G P rows cols g).1 = .ok T := by
  unfold rcont2G
  have hguard : (decide (rows.length < 2) || decide (cols.length < 2) || rows.sum != cols.sum) = false := by
    simp only [Bool.or_eq_false_iff, decide_eq_false_iff_not, not_lt, bne_eq_false_iff_eq]
    exact ⟨⟨h2r, h2c⟩, hsum⟩
  simp only [hguard, Bool.false_eq_true, if_false]
  obtain ⟨rl, hrsplit, hrl, hrne, hrn, hrsum⟩ := split_last (l := rows.map Int.ofNat) (by simpa using h2r) (ofNat_list_nonneg _)
  obtain ⟨cl, hcsplit, hcl, hcne, hcn, hcsum⟩ := split_last (l := cols.map Int.ofNat) (by simpa using h2c) (ofNat_list_nonneg _)
  rw [ofNat_list_sum] at hrsum hcsum
  have hcs : ((cols.sum : Nat) : Int) = ((rows.sum : Nat) : Int) := by rw [hsum]
  obtain ⟨t, ht⟩ := rowsLoop_genRows P hP (↑rows.sum) (rows.map Int.ofNat).dropLast (↑rows.sum) 0
    (cols.map Int.ofNat).dropLast g hcn hrn (by omega) (by omega) (le_refl _)
  refine ⟨t.rows ++ [t.jwork ++ [t.ib - t.jwork.getLastD 0]], ?_⟩
  have hg2 : (decide (rows.length < 2) || decide (cols.length < 2)) = false := by
    simp only [Bool.or_eq_false_iff, decide_eq_false_iff_not, not_lt]; exact ⟨h2r, h2c⟩
  have hg3 : (rows.sum != cols.sum) = false := by simp [hsum]
  simp only [rcont2, rcont2With, hg2, hg3, Bool.false_eq_true, if_false, ht]

end Bpp.Rand

namespace Bpp.Rand
open Bpp Bpp.RandGen

/-- the only errors of the column loop are the model's own three (`ub`, and the two that are not
outcomes of the code: `starved`, `unreachable`) -/
theorem rowLoop_errors (start : Int → Int → Int → Int) (ntot : Int) : ∀ (jwork picks : List Int) (ia ic ib : Int) (e : Err),
    rowLoop start ntot ia ic ib jwork picks = .error e → e = .ub ∨ e = .starved ∨ e = .unreachable
  | [], _, _, _, _, _, h => by simp [rowLoop] at h
  | id :: rest, picks, ia, ic, ib, e, h => by
    unfold rowLoop at h
    dsimp only at h
    split at h
    · cases h
    · split at h
      · simp only [Except.error.injEq] at h; exact Or.inl h.symm
      · cases picks with
        | nil => simp only [Except.error.injEq] at h; exact Or.inr (Or.inl h.symm)
        | cons v ps =>
          dsimp only at h
          split at h
          · simp only [Except.error.injEq] at h; exact Or.inr (Or.inr h.symm)
          · cases hrec : rowLoop start ntot (ia - v) (ic - id) (ic - ia) rest ps with
            | error e' =>
              rw [hrec] at h
              simp only [Except.error.injEq] at h; subst h
              exact rowLoop_errors start ntot rest ps _ _ _ e' hrec
            | ok o => rw [hrec] at h; cases h

theorem rowsLoop_errors (start : Int → Int → Int → Int) (ntot : Int) : ∀ (rows : List Int) (picks : List (List Int)) (jc ib : Int) (jwork : List Int) (e : Err),
    rowsLoop start ntot jc ib jwork rows picks = .error e → e = .ub ∨ e = .starved ∨ e = .unreachable
  | [], _, _, _, _, _, h => by simp [rowsLoop] at h
  | ia :: rest, picks, jc, ib, jwork, e, h => by
    unfold rowsLoop at h
    cases hrow : rowLoop start ntot ia jc ib jwork (picks.headD []) with
    | error e' =>
      rw [hrow] at h
      simp only [Except.error.injEq] at h; subst h
      exact rowLoop_errors start ntot _ _ _ _ _ e' hrow
    | ok o =>
      rw [hrow] at h; dsimp only at h
      cases hrec : rowsLoop start ntot (jc - ia) o.ib o.jwork rest picks.tail with
      | error e' =>
        rw [hrec] at h
        simp only [Except.error.injEq] at h; subst h
        exact rowsLoop_errors start ntot rest _ _ _ _ e' hrec
      | ok t => rw [hrec] at h; cases h

/-- on valid margins, whatever `picks` is supplied, `rcont2` returns a table unless the supplied
picks themselves are too few or outside what the walk can reach -/
theorem rcont2_outcomes (rows cols : List Nat) (picks : List (List Int))
    (h2r : 2 ≤ rows.length) (h2c : 2 ≤ cols.length) (hsum : rows.sum = cols.sum) :
    (∃ T, rcont2 rows cols picks = .ok T) ∨ rcont2 rows cols picks = .error .starved ∨
      rcont2 rows cols picks = .error .unreachable := by
  have hnub := rcont2_no_ub rows cols picks
  have hg2 : (decide (rows.length < 2) || decide (cols.length < 2)) = false := by
    simp only [Bool.or_eq_false_iff, decide_eq_false_iff_not, not_lt]; exact ⟨h2r, h2c⟩
  have hg3 : (rows.sum != cols.sum) = false := by simp [hsum]
  unfold rcont2 rcont2With at hnub ⊢
  simp only [hg2, hg3, Bool.false_eq_true, if_false] at hnub ⊢
  cases hrec : rowsLoop startCell (↑rows.sum) (↑rows.sum) 0 (cols.map Int.ofNat).dropLast (rows.map Int.ofNat).dropLast picks with
  | ok t => left; exact ⟨_, rfl⟩
  | error e =>
    rw [hrec] at hnub
    rcases rowsLoop_errors _ _ _ _ _ _ _ e hrec with rfl | rfl | rfl
    · exact absurd rfl hnub
    · right; left; rfl
    · right; right; rfl

/-- the table `rcont2G` returns is `rcont2` on the cell values the walk chose -/
theorem rcont2G_eq {σ α : Type} (P : Prims σ α) (rows cols : List Nat) (g : σ)
    (h2r : 2 ≤ rows.length) (h2c : 2 ≤ cols.length) (hsum : rows.sum = cols.sum) :
    (rcont2G P rows cols g).1 = rcont2 rows cols
      (genRows P (↑rows.sum) (↑rows.sum) ((cols.map Int.ofNat).dropLast) ((rows.map Int.ofNat).dropLast) g).1 := by
  unfold rcont2G
  have hguard : (decide (rows.length < 2) || decide (cols.length < 2) || rows.sum != cols.sum) = false := by
    simp only [Bool.or_eq_false_iff, decide_eq_false_iff_not, not_lt, bne_eq_false_iff_eq]
    exact ⟨⟨h2r, h2c⟩, hsum⟩
  simp only [hguard, Bool.false_eq_true, if_false]

/-- the walk that always stops at its starting value (a trivial interpretation, for existence) -/
def startWalk : Prims Unit Rat where
  seed := fun _ => ()
  uInt := fun _ g => (0, g)
  uReal := fun _ g => (0, g)
  coin := fun _ g => (false, g)
  normal := fun m _ g => (m, g)
  gamma := fun a _ g => (a, g)
  expo := fun r g => (r, g)
  shuffle := fun n g => (List.range n, g)
  qBeta := fun u _ _ => u
  rcell := fun _ ia id ie g => (startCell ia id ie, g)

theorem startWalk_inSupport : WalkInSupport startWalk := by
  intro ntot ia id ie g ha hd hie hae hde
  exact startCell_bound ha hd hie hae hde

end Bpp.Rand
