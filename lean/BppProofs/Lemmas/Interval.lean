import BppModel.Interval
import BppProofs.Lemmas.ScalarReal
import Mathlib.Data.EReal.Basic
import Mathlib.Tactic.Order
/-!
Helper lemmas for C01: the `ℝ` interpretation of `Bound` / `Interval`.
`Bound ℝ` is the extended real line; `Interval.denote` is the set an interval stands for.
-/
namespace Bpp
open ScalarReal

namespace Bound

/-- the extended real a bound stands for -/
noncomputable def toEReal : Bound ℝ → EReal
  | negInf => ⊥
  | fin x => (x : EReal)
  | posInf => ⊤

@[simp] theorem toEReal_negInf : (negInf : Bound ℝ).toEReal = ⊥ := rfl
@[simp] theorem toEReal_fin (x : ℝ) : (fin x : Bound ℝ).toEReal = (x : EReal) := rfl
@[simp] theorem toEReal_posInf : (posInf : Bound ℝ).toEReal = ⊤ := rfl

theorem leb_iff (a b : Bound ℝ) : Bound.leb a b = true ↔ a.toEReal ≤ b.toEReal := by
  cases a <;> cases b <;> simp [Bound.leb]

theorem ltb_iff (a b : Bound ℝ) : Bound.ltb a b = true ↔ a.toEReal < b.toEReal := by
  cases a <;> cases b <;> simp [Bound.ltb]

theorem eqb_iff (a b : Bound ℝ) : Bound.eqb a b = true ↔ a.toEReal = b.toEReal := by
  cases a <;> cases b <;> simp [Bound.eqb]

theorem geb_iff (a b : Bound ℝ) : Bound.geb a b = true ↔ b.toEReal ≤ a.toEReal := by
  simp [Bound.geb, leb_iff]

theorem gtb_iff (a b : Bound ℝ) : Bound.gtb a b = true ↔ b.toEReal < a.toEReal := by
  simp [Bound.gtb, ltb_iff]

theorem toEReal_injective : Function.Injective toEReal := by
  intro a b h
  cases a <;> cases b <;> simp_all

theorem toEReal_surjective (e : EReal) : ∃ b : Bound ℝ, b.toEReal = e := by
  induction e using EReal.rec with
  | bot => exact ⟨negInf, rfl⟩
  | coe x => exact ⟨fin x, rfl⟩
  | top => exact ⟨posInf, rfl⟩

theorem toEReal_addS (b : Bound ℝ) (x : ℝ) : (b.addS x).toEReal = b.toEReal + (x : EReal) := by
  cases b <;> simp [Bound.addS]

end Bound

namespace Interval

/-- The set of extended reals an interval stands for: between the bounds, an end point belonging
to it iff its flag says so.  (`Set.Icc`, `Set.Ico`, `Set.Ioc`, `Set.Ioo` for the four flag
combinations: `denote_cc` … `denote_oo`.) -/
noncomputable def denote (c : Interval ℝ) : Set EReal :=
  (if c.inclLo then Set.Ici c.lo.toEReal else Set.Ioi c.lo.toEReal) ∩
  (if c.inclHi then Set.Iic c.hi.toEReal else Set.Iio c.hi.toEReal)

theorem denote_cc (lo hi : Bound ℝ) (p : ℝ) : denote ⟨lo, hi, true, true, p⟩ = Set.Icc lo.toEReal hi.toEReal := by
  ext x; simp [denote]
theorem denote_co (lo hi : Bound ℝ) (p : ℝ) : denote ⟨lo, hi, true, false, p⟩ = Set.Ico lo.toEReal hi.toEReal := by
  ext x; simp [denote]
theorem denote_oc (lo hi : Bound ℝ) (p : ℝ) : denote ⟨lo, hi, false, true, p⟩ = Set.Ioc lo.toEReal hi.toEReal := by
  ext x; simp [denote]
theorem denote_oo (lo hi : Bound ℝ) (p : ℝ) : denote ⟨lo, hi, false, false, p⟩ = Set.Ioo lo.toEReal hi.toEReal := by
  ext x; simp [denote]

theorem mem_denote (c : Interval ℝ) (x : EReal) :
    x ∈ c.denote ↔ (if c.inclLo then c.lo.toEReal ≤ x else c.lo.toEReal < x) ∧
                   (if c.inclHi then x ≤ c.hi.toEReal else x < c.hi.toEReal) := by
  unfold denote; cases c.inclLo <;> cases c.inclHi <;> simp

theorem isCorrectB_iff_mem (c : Interval ℝ) (v : Bound ℝ) : c.isCorrectB v = true ↔ v.toEReal ∈ c.denote := by
  rw [mem_denote]
  unfold isCorrectB
  cases c.inclLo <;> cases c.inclHi <;>
    simp [Bound.geb_iff, Bound.gtb_iff, Bound.leb_iff, Bound.ltb_iff]

theorem memSpec_iff_mem (c : Interval ℝ) (v : Bound ℝ) : c.memSpec v = true ↔ v.toEReal ∈ c.denote := by
  rw [mem_denote]
  unfold memSpec memSpecLo memSpecHi
  cases c.inclLo <;> cases c.inclHi <;>
    simp [Bound.ltb_iff, Bound.eqb_iff, le_iff_lt_or_eq]

/-- closes `P ↔ Q ∧ R` where all three are order facts in a linear order -/
macro "iff_order" : tactic => `(tactic|
  (constructor
   · intro h1; refine ⟨?_, ?_⟩ <;> order
   · rintro ⟨h1, h2⟩; order))

theorem ltb_false_of_eq {a b : Bound ℝ} (h : a.toEReal = b.toEReal) : Bound.ltb a b = false := by
  rw [Bool.eq_false_iff, Ne, Bound.ltb_iff, h]; exact lt_irrefl _
theorem gtb_false_of_eq {a b : Bound ℝ} (h : a.toEReal = b.toEReal) : Bound.gtb a b = false := by
  rw [Bool.eq_false_iff, Ne, Bound.gtb_iff, h]; exact lt_irrefl _
theorem ltb_false_of_gt {a b : Bound ℝ} (h : b.toEReal < a.toEReal) : Bound.ltb a b = false := by
  rw [Bool.eq_false_iff, Ne, Bound.ltb_iff]; exact not_lt.2 h.le
theorem gtb_false_of_lt {a b : Bound ℝ} (h : a.toEReal < b.toEReal) : Bound.gtb a b = false := by
  rw [Bool.eq_false_iff, Ne, Bound.gtb_iff]; exact not_lt.2 h.le
theorem eqb_false_of_ne {a b : Bound ℝ} (h : a.toEReal ≠ b.toEReal) : Bound.eqb a b = false := by
  rw [Bool.eq_false_iff, Ne, Bound.eqb_iff]; exact h

/-- the lower end of the intersection is the conjunction of the operands' lower ends -/
theorem interLo_spec (c d : Interval ℝ) (x : EReal) :
    (if (interLo c d).2 then (interLo c d).1.toEReal ≤ x else (interLo c d).1.toEReal < x) ↔
    (if c.inclLo then c.lo.toEReal ≤ x else c.lo.toEReal < x) ∧
    (if d.inclLo then d.lo.toEReal ≤ x else d.lo.toEReal < x) := by
  unfold interLo
  rcases lt_trichotomy c.lo.toEReal d.lo.toEReal with h | h | h
  · simp only [(Bound.ltb_iff _ _).2 h, if_true]
    cases c.inclLo <;> cases d.inclLo <;>
      simp only [↓reduceIte, Bool.false_eq_true] <;> iff_order
  · simp only [ltb_false_of_eq h, gtb_false_of_eq h, Bool.false_eq_true, if_false]
    cases c.inclLo <;> cases d.inclLo <;>
      simp only [↓reduceIte, Bool.false_eq_true, Bool.and_true, Bool.and_false, Bool.and_self] <;> iff_order
  · simp only [ltb_false_of_gt h, (Bound.gtb_iff _ _).2 h, Bool.false_eq_true, if_false, if_true]
    cases c.inclLo <;> cases d.inclLo <;>
      simp only [↓reduceIte, Bool.false_eq_true] <;> iff_order

theorem interHi_spec (c d : Interval ℝ) (x : EReal) :
    (if (interHi c d).2 then x ≤ (interHi c d).1.toEReal else x < (interHi c d).1.toEReal) ↔
    (if c.inclHi then x ≤ c.hi.toEReal else x < c.hi.toEReal) ∧
    (if d.inclHi then x ≤ d.hi.toEReal else x < d.hi.toEReal) := by
  unfold interHi
  rcases lt_trichotomy c.hi.toEReal d.hi.toEReal with h | h | h
  · simp only [gtb_false_of_lt h, (Bound.ltb_iff _ _).2 h, Bool.false_eq_true, if_false, if_true]
    cases c.inclHi <;> cases d.inclHi <;>
      simp only [↓reduceIte, Bool.false_eq_true] <;> iff_order
  · simp only [ltb_false_of_eq h, gtb_false_of_eq h, Bool.false_eq_true, if_false]
    cases c.inclHi <;> cases d.inclHi <;>
      simp only [↓reduceIte, Bool.false_eq_true, Bool.and_true, Bool.and_false, Bool.and_self] <;> iff_order
  · simp only [(Bound.gtb_iff _ _).2 h, if_true]
    cases c.inclHi <;> cases d.inclHi <;>
      simp only [↓reduceIte, Bool.false_eq_true] <;> iff_order

/-- at `ℝ`, `operator&=` computes the same interval as `operator&` -/
theorem interAssign_eq_inter (c d : Interval ℝ) : c.interAssign d = c.inter d := by
  obtain ⟨clo, chi, cil, ciu, cp⟩ := c
  obtain ⟨dlo, dhi, dil, diu, dp⟩ := d
  unfold interAssign inter interLo interHi
  rcases lt_trichotomy clo.toEReal dlo.toEReal with h | h | h <;>
  rcases lt_trichotomy chi.toEReal dhi.toEReal with g | g | g <;>
  simp [(Bound.ltb_iff _ _).2, (Bound.gtb_iff _ _).2, (Bound.eqb_iff _ _).2, h, g,
    ltb_false_of_eq, gtb_false_of_eq, ltb_false_of_gt, gtb_false_of_lt, eqb_false_of_ne, ne_of_lt, ne_of_gt] <;>
  (split_ifs with h1 h2 <;> first | rfl | (exfalso; linarith) | (congr 1; linarith))

theorem finiteLowerBound_iff (c : Interval ℝ) : c.finiteLowerBound = true ↔ c.lo.toEReal ≠ ⊥ := by
  unfold finiteLowerBound
  rw [Bound.gtb_iff, Bound.toEReal_negInf, bot_lt_iff_ne_bot]

theorem finiteUpperBound_iff (c : Interval ℝ) : c.finiteUpperBound = true ↔ c.hi.toEReal ≠ ⊤ := by
  unfold finiteUpperBound
  rw [Bound.ltb_iff, Bound.toEReal_posInf, lt_top_iff_ne_top]

theorem isEmpty_iff_cond (c : Interval ℝ) : c.isEmpty = true ↔
    (c.hi.toEReal < c.lo.toEReal ∨
      (c.lo.toEReal = c.hi.toEReal ∧
        (c.inclLo = false ∨ c.inclHi = false ∨ c.lo.toEReal = ⊥ ∨ c.hi.toEReal = ⊤))) := by
  have h1 := finiteLowerBound_iff c
  have h2 := finiteUpperBound_iff c
  unfold isEmpty
  cases hl : c.finiteLowerBound <;> cases hu : c.finiteUpperBound <;>
    cases c.inclLo <;> cases c.inclHi <;>
    simp_all [Bound.gtb_iff, Bound.eqb_iff]

/-- a non-empty interval: `lo ≤ hi`, and both ends included when `lo = hi` -/
theorem not_isEmpty_cond (c : Interval ℝ) (h : ¬ c.isEmpty = true) :
    c.lo.toEReal ≤ c.hi.toEReal ∧ (c.lo.toEReal = c.hi.toEReal → c.inclLo = true ∧ c.inclHi = true) := by
  rw [isEmpty_iff_cond] at h
  obtain ⟨h1, h2⟩ := not_or.1 h
  refine ⟨not_lt.1 h1, fun heq => ?_⟩
  by_contra hh
  apply h2
  refine ⟨heq, ?_⟩
  cases ha : c.inclLo <;> cases hb : c.inclHi <;> simp_all

/-- … and the common point is then a finite number -/
theorem not_isEmpty_finite (c : Interval ℝ) (h : ¬ c.isEmpty = true) (heq : c.lo.toEReal = c.hi.toEReal) :
    ∃ x : ℝ, c.lo = .fin x ∧ c.hi = .fin x := by
  rw [isEmpty_iff_cond] at h
  obtain ⟨-, h2⟩ := not_or.1 h
  have h3 : ¬ (c.lo.toEReal = ⊥ ∨ c.hi.toEReal = ⊤) := fun hh => h2 ⟨heq, Or.inr (Or.inr hh)⟩
  obtain ⟨a, b⟩ := not_or.1 h3
  cases hl : c.lo with
  | negInf => rw [hl] at a; exact absurd rfl a
  | posInf => rw [hl] at heq; exact absurd heq.symm b
  | fin x =>
    cases hh : c.hi with
    | negInf => rw [hl, hh] at heq; simp at heq
    | posInf => rw [hh] at b; exact absurd rfl b
    | fin y =>
      rw [hl, hh] at heq
      simp only [Bound.toEReal_fin, EReal.coe_eq_coe_iff] at heq
      exact ⟨x, rfl, by rw [heq]⟩

end Interval
end Bpp
